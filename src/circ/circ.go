// Package circ provides the closure-defined circuit type every harness compiles, and helpers
// to compile / solve over tinyfield and the curve fields.
package circ

import (
	"math/big"

	"github.com/consensys/gnark/backend/witness"
	"github.com/consensys/gnark/constraint"
	"github.com/consensys/gnark/frontend"
	"github.com/consensys/gnark/frontend/cs/r1cs"
	"github.com/consensys/gnark/frontend/cs/scs"
)

// C is a circuit whose Define is a closure.  Public inputs P, then secret inputs S.
type C struct {
	P   []frontend.Variable `gnark:",public"`
	S   []frontend.Variable
	def func(api frontend.API, p, s []frontend.Variable) error
}

func (c *C) Define(api frontend.API) error { return c.def(api, c.P, c.S) }

// New returns a circuit shell with nP public and nS secret inputs.
func New(nP, nS int, def func(api frontend.API, p, s []frontend.Variable) error) *C {
	return &C{P: make([]frontend.Variable, nP), S: make([]frontend.Variable, nS), def: def}
}

// Assign returns an assignment for the same shape.
func Assign(p, s []*big.Int) *C {
	c := &C{P: make([]frontend.Variable, len(p)), S: make([]frontend.Variable, len(s))}
	for i := range p {
		c.P[i] = new(big.Int).Set(p[i])
	}
	for i := range s {
		c.S[i] = new(big.Int).Set(s[i])
	}
	return c
}

func AssignInts(p, s []int) *C {
	c := &C{P: make([]frontend.Variable, len(p)), S: make([]frontend.Variable, len(s))}
	for i := range p {
		c.P[i] = p[i]
	}
	for i := range s {
		c.S[i] = s[i]
	}
	return c
}

var P47 = big.NewInt(47)

const (
	R1CS = "r1cs"
	SCS  = "scs"
)

// CompileTiny compiles over F_47 with the chosen builder; a compile-time panic is returned as
// an error string (documented behaviour for some constant operands).
func CompileTiny(builder string, c frontend.Circuit, opts ...frontend.CompileOption) (cs constraint.ConstraintSystemU32, err error, panicked string) {
	defer func() {
		if r := recover(); r != nil {
			panicked = sprint(r)
		}
	}()
	if builder == R1CS {
		cs, err = frontend.CompileU32(P47, r1cs.NewBuilder, c, opts...)
	} else {
		cs, err = frontend.CompileU32(P47, scs.NewBuilder, c, opts...)
	}
	return
}

// Compile compiles over a curve scalar field.
func Compile(field *big.Int, builder string, c frontend.Circuit, opts ...frontend.CompileOption) (cs constraint.ConstraintSystem, err error, panicked string) {
	defer func() {
		if r := recover(); r != nil {
			panicked = sprint(r)
		}
	}()
	if builder == R1CS {
		cs, err = frontend.Compile(field, r1cs.NewBuilder, c, opts...)
	} else {
		cs, err = frontend.Compile(field, scs.NewBuilder, c, opts...)
	}
	return
}

func Witness(a frontend.Circuit, field *big.Int, opts ...frontend.WitnessOption) (witness.Witness, error) {
	return frontend.NewWitness(a, field, opts...)
}

// WireOf returns the wire index of public input i / secret input j in a compiled system.
func WirePub(builder string, i int) int {
	if builder == R1CS {
		return 1 + i
	}
	return i
}
func WireSec(builder string, nP, j int) int {
	if builder == R1CS {
		return 1 + nP + j
	}
	return nP + j
}
