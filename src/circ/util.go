package circ

import "fmt"

func sprint(r any) string { return fmt.Sprint(r) }
