// Package c17 is the curve-independent part of check C17 (recursive in-circuit verifiers accept
// exactly what the native verifiers accept): the registry of per-pairing kits, the plan handed
// to them, the judge that compares the two verdicts, and the two ways of deciding whether an
// outer circuit is satisfiable (test engine / compile + solve).
package c17

import (
	"crypto/sha256"
	"encoding/binary"
	"fmt"
	"math/big"
	"sort"
	"strings"
	"sync"
	"sync/atomic"
	"time"

	"github.com/consensys/gnark/constraint"
	"github.com/consensys/gnark/constraint/solver"
	"github.com/consensys/gnark/frontend"
	"github.com/consensys/gnark/frontend/cs/r1cs"
	"github.com/consensys/gnark/frontend/cs/scs"
	"github.com/consensys/gnark/internal/verifh/hintenv"
	"github.com/consensys/gnark/internal/verifh/vh"
	"github.com/consensys/gnark/test"
)

// Plan says how much of a pairing is explored.
type Plan struct {
	Full        bool // full single-edit alphabet on the primary configurations (false: only the ~10-edit sub-alphabet)
	AllCfg      bool // Groth16: the full alphabet on every (vk mode x option) configuration, not only the primary ones
	PlonkAllCfg bool // PLONK: same
	Spread      bool // Groth16: with Full, an edit outside the sub-alphabet runs under ONE primary configuration (rotation) instead of all
	PlonkSpread bool // PLONK: same
	Rotate      bool // cheapest plan: sub-alphabet only, each edit under ONE primary configuration in rotation (the genuine triple under all of them)
	Compiled    int  // 0: test engine only; 1: also compile the outer circuit (one option) and solve every edit on it; 2: every option
	Gadgets     bool // KZG and Pedersen gadgets alone
	Switch      bool // key-switching variants
	Edits       string // debugging aid (env C17_EDITS): comma list of edit names to keep
}

// WantEdit applies the debugging filter.
func (p Plan) WantEdit(name string) bool {
	if p.Edits == "" {
		return true
	}
	for _, t := range strings.Split(p.Edits, ",") {
		if t == name {
			return true
		}
	}
	return false
}

// Selected decides whether an edit runs under a configuration.  primary: index of the
// configuration among the primary ones (-1: not primary), nPrimary their number, subgroupIdx the
// primary configuration with subgroup checks (-1 none); sub / nonsub: properties of the edit;
// subIndex: its index among the sub-alphabet edits (0 = the genuine triple).
func (p Plan) Selected(allCfg, spread bool, primary, nPrimary, subgroupIdx int, sub, nonsub bool, subIndex, index int) bool {
	if p.Rotate {
		if !sub || primary < 0 {
			return false
		}
		if subIndex == 0 {
			return true
		}
		want := subIndex % nPrimary
		if nonsub && subgroupIdx >= 0 {
			want = subgroupIdx
		}
		return primary == want
	}
	if p.Full && spread && !sub {
		// each edit outside the sub-alphabet under ONE primary configuration, in rotation
		want := index % nPrimary
		if nonsub && subgroupIdx >= 0 {
			want = subgroupIdx
		}
		return primary == want
	}
	if p.Full && (allCfg || primary >= 0) {
		return true
	}
	return sub
}

// Task is one unit of work: one outer-circuit run (or a small group of them).
type Task struct {
	Prio int // lower first
	Cost int // rough relative cost (for reporting only)
	Run  func()
}

// Kit is one inner/outer pairing.
type Kit struct {
	Name  string // "<inner>-in-<outer>"
	Build func(c *vh.Check, p Plan) []Task
}

var (
	mu   sync.Mutex
	kits = map[string]*Kit{}
)

func Register(k *Kit) { mu.Lock(); kits[k.Name] = k; mu.Unlock() }
func Get(name string) *Kit {
	mu.Lock()
	defer mu.Unlock()
	return kits[name]
}
func Names() []string {
	mu.Lock()
	defer mu.Unlock()
	var n []string
	for k := range kits {
		n = append(n, k)
	}
	sort.Strings(n)
	return n
}

// ---------------------------------------------------------------- the judge

// Case identifies one compared execution.
type Case struct {
	Verifier string // groth16 | plonk | kzg-* | pedersen | groth16-switch | plonk-switch
	Pair     string // <inner>-in-<outer>
	Mode     string // vk mode + option + engine, e.g. "vk=witness,opt=default,te"
	Inner    string // inner circuit kind
	Edit     string
	Native   bool
	Circuit  bool
	Excluded string // non-empty: outside the documented domain for this configuration (reason)
	Class    string // edit class for the outcome classes (genuine, proof-point, ...)
	Detail   map[string]any
}

var sampleOnce sync.Map

// NativeRuns counts executions of the native verifiers (added to the evaluations by main).
var NativeRuns atomic.Int64

// Judge records the outcome and raises a violation when the verdicts differ on an in-domain case.
func Judge(c *vh.Check, k Case) {
	c.Evals.Add(1) // the outer-circuit run; native verifier executions are counted by NativeRuns
	c.Traces.Add(1)
	verd := func(b bool) string {
		if b {
			return "accept"
		}
		return "reject"
	}
	fam := k.Verifier
	if k.Excluded != "" {
		c.Outcome(fmt.Sprintf("%s:%s:excluded(%s):native-%s/circuit-%s", fam, k.Class, k.Excluded, verd(k.Native), verd(k.Circuit)))
		c.Count("excluded", fmt.Sprintf("%s:%s native=%v circuit=%v", fam, k.Excluded, k.Native, k.Circuit), 1)
		return
	}
	c.Outcome(fmt.Sprintf("%s:%s:native-%s/circuit-%s", fam, k.Class, verd(k.Native), verd(k.Circuit)))
	c.Count("judged:"+k.Pair, fmt.Sprintf("%s %s", fam, k.Mode), 1)
	if k.Native == k.Circuit {
		key := fam + ":" + verd(k.Native) + ":" + k.Class
		if _, dup := sampleOnce.LoadOrStore(key, true); !dup {
			c.Sample(map[string]any{"verifier": k.Verifier, "pair": k.Pair, "mode": k.Mode, "inner": k.Inner, "edit": k.Edit, "native_accepts": k.Native, "circuit_satisfiable": k.Circuit})
		}
		return
	}
	d := map[string]any{"verifier": k.Verifier, "pair": k.Pair, "mode": k.Mode, "inner_circuit": k.Inner, "edit": k.Edit, "native_accepts": k.Native, "outer_circuit_satisfiable": k.Circuit}
	for kk, v := range k.Detail {
		d[kk] = v
	}
	c.Violation(fmt.Sprintf("c17:%s:%s:%s:%s/%s:native=%v,circuit=%v", k.Verifier, k.Pair, k.Mode, k.Inner, k.Edit, k.Native, k.Circuit), d)
}

// informational timing (core-seconds), reported by main under "timing"
var TimeTE, TimeCompile, TimeSolve, NTE, NCompile, NSolve atomic.Int64

var (
	timeMu sync.Mutex
	timeBy = map[string][2]float64{} // label -> (runs, seconds)
)

func addTime(label string, d time.Duration) {
	timeMu.Lock()
	v := timeBy[label]
	v[0]++
	v[1] += d.Seconds()
	timeBy[label] = v
	timeMu.Unlock()
}

// MeanTimes returns the mean duration of one run per label (informational).
func MeanTimes() map[string]string {
	timeMu.Lock()
	defer timeMu.Unlock()
	out := map[string]string{}
	for k, v := range timeBy {
		out[k] = fmt.Sprintf("%d runs, mean %.2fs", int(v[0]), v[1]/v[0])
	}
	return out
}

// ---------------------------------------------------------------- satisfiability of an outer circuit

// TestEngine reports whether the assignment satisfies the circuit in gnark's test engine
// (a Define error, a failed assertion and a panic all mean "not satisfiable").
func TestEngine(label string, circuit, assignment frontend.Circuit, field *big.Int) (ok bool, why string) {
	var err error
	t0 := time.Now()
	defer func() { TimeTE.Add(int64(time.Since(t0))); NTE.Add(1); addTime(label+" test-engine", time.Since(t0)) }()
	pan := vh.Recover(func() { err = test.IsSolved(circuit, assignment, field) })
	if pan != "" {
		return false, "panic: " + trunc(pan)
	}
	if err != nil {
		return false, trunc(err.Error())
	}
	return true, ""
}

func trunc(s string) string {
	if len(s) > 300 {
		return s[:300] + "…"
	}
	return s
}

// Compiled is an outer circuit compiled once and solved for many assignments.
type Compiled struct {
	mu      sync.Mutex // solves of one system are serialised (the solver is parallel inside; concurrent solves of one system sharing lookup tables are the subject of C10, not of this check)
	CCS     constraint.ConstraintSystem
	Builder string
	Err     string
	Field   *big.Int
}

// Compile compiles with the R1CS ("r1cs") or the sparse ("scs") builder.
func Compile(field *big.Int, builder string, circuit frontend.Circuit) *Compiled {
	out := &Compiled{Builder: builder, Field: field}
	var err error
	t0 := time.Now()
	defer func() { TimeCompile.Add(int64(time.Since(t0))); NCompile.Add(1) }()
	pan := vh.Recover(func() {
		if builder == "r1cs" {
			out.CCS, err = frontend.Compile(field, r1cs.NewBuilder, circuit)
		} else {
			out.CCS, err = frontend.Compile(field, scs.NewBuilder, circuit)
		}
	})
	if pan != "" {
		out.Err = "panic: " + trunc(pan)
	} else if err != nil {
		out.Err = trunc(err.Error())
	}
	return out
}

// Solve reports whether the real solver finds the assignment satisfying.
func (cc *Compiled) Solve(label string, assignment frontend.Circuit) (ok bool, why string) {
	if cc.Err != "" {
		return false, "compile: " + cc.Err
	}
	var err error
	t0 := time.Now()
	defer func() { TimeSolve.Add(int64(time.Since(t0))); NSolve.Add(1); addTime(label+" solve", time.Since(t0)) }()
	pan := vh.Recover(func() {
		wit, e := frontend.NewWitness(assignment, cc.Field)
		if e != nil {
			err = e
			return
		}
		var opts []solver.Option
		for id, h := range hintenv.Det() {
			opts = append(opts, solver.OverrideHint(id, h))
		}
		cc.mu.Lock()
		defer cc.mu.Unlock()
		_, err = cc.CCS.Solve(wit, opts...)
	})
	if pan != "" {
		return false, "panic: " + trunc(pan)
	}
	if err != nil {
		return false, trunc(err.Error())
	}
	return true, ""
}

// ---------------------------------------------------------------- deterministic randomness

// DetReader is a thread-safe SHA-256 counter stream installed as crypto/rand.Reader: setup toxic
// waste, prover blinding and the native batch-verification coefficients are then a function of
// the order of calls only (fixtures are built sequentially).
type DetReader struct {
	mu  sync.Mutex
	ctr uint64
	buf []byte
}

func (r *DetReader) Read(p []byte) (int, error) {
	r.mu.Lock()
	defer r.mu.Unlock()
	n := 0
	for n < len(p) {
		if len(r.buf) == 0 {
			var b [16]byte
			copy(b[:], "c17-rand")
			binary.BigEndian.PutUint64(b[8:], r.ctr)
			r.ctr++
			s := sha256.Sum256(b[:])
			r.buf = s[:]
		}
		k := copy(p[n:], r.buf)
		r.buf = r.buf[k:]
		n += k
	}
	return n, nil
}

// ---------------------------------------------------------------- -only handling

// -only takes a comma list mixing pairing names ("bn254-in-bn254" or a prefix) and section
// names (groth16, plonk, kzg, pedersen, groth16-switch, plonk-switch); each kind restricts
// only its own dimension.
func onlyTokens(c *vh.Check) (kitsTok, secTok []string) {
	if c.Only == "" {
		return
	}
	for _, t := range strings.Split(c.Only, ",") {
		isKit := false
		for _, n := range Names() {
			if strings.HasPrefix(n, t) {
				isKit = true
			}
		}
		if isKit {
			kitsTok = append(kitsTok, t)
		} else {
			secTok = append(secTok, t)
		}
	}
	return
}

func WantKit(c *vh.Check, name string) bool {
	k, _ := onlyTokens(c)
	if len(k) == 0 {
		return true
	}
	for _, t := range k {
		if strings.HasPrefix(name, t) {
			return true
		}
	}
	return false
}

func WantSection(c *vh.Check, name string) bool {
	_, s := onlyTokens(c)
	if len(s) == 0 {
		return true
	}
	for _, t := range s {
		if name == t {
			return true
		}
	}
	return false
}
