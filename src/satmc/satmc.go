// Package satmc is an explicit-state model checker for satisfiability of a compiled
// constraint system over a tiny prime field (F_47): breadth-first over constraints, state =
// values of the still-live wires (hashed, deduplicated).  It decides which tuples of the
// observed wires can be extended to a full satisfying assignment — i.e. what a dishonest
// prover, free to choose every hint output and internal wire, can make the circuit accept —
// with no reference to gnark's solver.
package satmc

import (
	"fmt"
	"math/big"
	"sort"

	"github.com/consensys/gnark/constraint"
)

type Term struct {
	C uint8 // coefficient mod p
	W int   // wire, -1 = constant one
}

// Con is one constraint in one of two shapes.
type Con struct {
	// R1C: L*R == O
	L, R, O []Term
	// Sparse: QL*a + QR*b + QO*c + QM*a*b + QC == 0
	Sparse             bool
	XA, XB, XC         int
	QL, QR, QO, QM, QC uint8
	wires              []int
}

type Sys struct {
	P     int
	NW    int
	Cons  []Con
	Fixed map[int]uint8 // wires with a prescribed value (the ONE wire of an R1CS)
}

// FromR1CS reads the rows the real compiler emitted through the exported accessors.
func FromR1CS[E constraint.Element](cs constraint.ConstraintSystemGeneric[E]) *Sys {
	r, ok := cs.(constraint.R1CS[E])
	if !ok {
		panic("not an R1CS")
	}
	p := int(cs.Field().Int64())
	co := func(id uint32) uint8 {
		return uint8(cs.ToBigInt(cs.GetCoefficient(int(id))).Int64())
	}
	s := &Sys{P: p, Fixed: map[int]uint8{0: 1}}
	s.NW = cs.GetNbPublicVariables() + cs.GetNbSecretVariables() + cs.GetNbInternalVariables()
	le := func(l constraint.LinearExpression) []Term {
		var t []Term
		for _, x := range l {
			if x.IsConstant() {
				t = append(t, Term{co(x.CID), -1})
			} else {
				t = append(t, Term{co(x.CID), x.WireID()})
			}
		}
		return t
	}
	for _, c := range r.GetR1Cs() {
		s.Cons = append(s.Cons, Con{L: le(c.L), R: le(c.R), O: le(c.O)})
	}
	s.finish()
	return s
}

// FromSCS reads the gates of a sparse system.
func FromSCS[E constraint.Element](cs constraint.ConstraintSystemGeneric[E]) *Sys {
	r, ok := cs.(constraint.SparseR1CS[E])
	if !ok {
		panic("not a sparse R1CS")
	}
	p := int(cs.Field().Int64())
	co := func(id uint32) uint8 {
		return uint8(cs.ToBigInt(cs.GetCoefficient(int(id))).Int64())
	}
	s := &Sys{P: p, Fixed: map[int]uint8{}}
	s.NW = cs.GetNbPublicVariables() + cs.GetNbSecretVariables() + cs.GetNbInternalVariables()
	for _, c := range r.GetSparseR1Cs() {
		if c.Commitment != constraint.NOT {
			panic("satmc: commitment gate")
		}
		s.Cons = append(s.Cons, Con{Sparse: true, XA: int(c.XA), XB: int(c.XB), XC: int(c.XC),
			QL: co(c.QL), QR: co(c.QR), QO: co(c.QO), QM: co(c.QM), QC: co(c.QC)})
	}
	s.finish()
	return s
}

func (s *Sys) finish() {
	for i := range s.Cons {
		c := &s.Cons[i]
		set := map[int]bool{}
		if c.Sparse {
			// a wire multiplied by a zero selector does not occur
			if c.QL != 0 || c.QM != 0 {
				set[c.XA] = true
			}
			if c.QR != 0 || c.QM != 0 {
				set[c.XB] = true
			}
			if c.QO != 0 {
				set[c.XC] = true
			}
		} else {
			for _, l := range [][]Term{c.L, c.R, c.O} {
				for _, t := range l {
					if t.W >= 0 && t.C != 0 {
						set[t.W] = true
					}
				}
			}
		}
		for w := range set {
			c.wires = append(c.wires, w)
		}
		sort.Ints(c.wires)
	}
}

func (s *Sys) evalLE(l []Term, v []int16) int {
	acc := 0
	for _, t := range l {
		if t.C == 0 {
			continue
		}
		if t.W < 0 {
			acc += int(t.C)
		} else {
			acc += int(t.C) * int(v[t.W])
		}
	}
	return acc % s.P
}

// Holds evaluates constraint i on an assignment in which all its wires are set.
func (s *Sys) Holds(i int, v []int16) bool {
	c := &s.Cons[i]
	if c.Sparse {
		a, b, o := 0, 0, 0
		if c.QL != 0 || c.QM != 0 {
			a = int(v[c.XA])
		}
		if c.QR != 0 || c.QM != 0 {
			b = int(v[c.XB])
		}
		if c.QO != 0 {
			o = int(v[c.XC])
		}
		return (int(c.QL)*a+int(c.QR)*b+int(c.QO)*o+int(c.QM)*(a*b%s.P)+int(c.QC))%s.P == 0
	}
	return (s.evalLE(c.L, v)*s.evalLE(c.R, v)-s.evalLE(c.O, v))%s.P == 0
}

// HoldsBig re-evaluates constraint i with big-integer arithmetic (independent of Holds); used
// to validate every satisfying leaf the search reports.
func (s *Sys) HoldsBig(i int, v []int16) bool {
	p := big.NewInt(int64(s.P))
	c := &s.Cons[i]
	val := func(w int) *big.Int { return big.NewInt(int64(v[w])) }
	if c.Sparse {
		acc := new(big.Int)
		t := new(big.Int)
		acc.Add(acc, t.Mul(big.NewInt(int64(c.QL)), val(c.XA)))
		t = new(big.Int)
		acc.Add(acc, t.Mul(big.NewInt(int64(c.QR)), val(c.XB)))
		t = new(big.Int)
		acc.Add(acc, t.Mul(big.NewInt(int64(c.QO)), val(c.XC)))
		t = new(big.Int)
		t.Mul(val(c.XA), val(c.XB))
		acc.Add(acc, t.Mul(t, big.NewInt(int64(c.QM))))
		acc.Add(acc, big.NewInt(int64(c.QC)))
		return acc.Mod(acc, p).Sign() == 0
	}
	le := func(l []Term) *big.Int {
		acc := new(big.Int)
		for _, t := range l {
			x := big.NewInt(int64(t.C))
			if t.W >= 0 {
				x.Mul(x, val(t.W))
			}
			acc.Add(acc, x)
		}
		return acc
	}
	r := new(big.Int).Mul(le(c.L), le(c.R))
	r.Sub(r, le(c.O))
	return r.Mod(r, p).Sign() == 0
}

type Stats struct {
	States, Transitions, MaxFrontier int64
	Capped                           bool
}

type node struct {
	vals   []int16 // values of all wires known so far (-1 = unassigned / dropped)
	parent *node
	set    []int16 // wire,value pairs assigned at this step (for witness reconstruction)
}

// Result of one search.
type Result struct {
	// Tuples maps each reachable tuple of observed-wire values (as a string of bytes) to one
	// full satisfying assignment.
	Tuples map[string][]int16
	Stats  Stats
}

// Search explores all assignments extending `fixed`.  observed wires are never dropped from
// the state so the final states enumerate every satisfiable observed tuple.  maxStates caps
// the frontier (0 = 4M); when hit, Stats.Capped is set and the result is incomplete.
func (s *Sys) Search(fixed map[int]uint8, observed []int, maxStates int) *Result {
	if maxStates == 0 {
		maxStates = 4 << 20
	}
	res := &Result{Tuples: map[string][]int16{}}
	init := make([]int16, s.NW)
	for i := range init {
		init[i] = -1
	}
	for w, v := range s.Fixed {
		if w < s.NW {
			init[w] = int16(v)
		}
	}
	for w, v := range fixed {
		init[w] = int16(v)
	}
	isObs := make([]bool, s.NW)
	for _, w := range observed {
		isObs[w] = true
	}
	// static greedy order: next constraint = fewest not-yet-assigned wires, ties by index
	assigned := make([]bool, s.NW)
	for w, v := range init {
		assigned[w] = v >= 0
	}
	done := make([]bool, len(s.Cons))
	order := make([]int, 0, len(s.Cons))
	for len(order) < len(s.Cons) {
		best, bestN := -1, 1<<30
		for i := range s.Cons {
			if done[i] {
				continue
			}
			n := 0
			for _, w := range s.Cons[i].wires {
				if !assigned[w] {
					n++
				}
			}
			if n < bestN {
				best, bestN = i, n
			}
		}
		done[best] = true
		order = append(order, best)
		for _, w := range s.Cons[best].wires {
			assigned[w] = true
		}
	}
	lastUse := make([]int, s.NW)
	for i := range lastUse {
		lastUse[i] = -1
	}
	for step, ci := range order {
		for _, w := range s.Cons[ci].wires {
			lastUse[w] = step
		}
	}
	key := func(v []int16, step int) string {
		b := make([]byte, 0, 32)
		for w, x := range v {
			if x >= 0 && (lastUse[w] > step || isObs[w]) {
				b = append(b, byte(w), byte(w>>8), byte(x))
			}
		}
		return string(b)
	}
	frontier := []*node{{vals: init}}
	res.Stats.States = 1
	for step, ci := range order {
		c := &s.Cons[ci]
		next := map[string]*node{}
		for _, n := range frontier {
			var free []int
			for _, w := range c.wires {
				if n.vals[w] < 0 {
					free = append(free, w)
				}
			}
			v := append([]int16(nil), n.vals...)
			var rec func(k int)
			rec = func(k int) {
				if k == len(free) {
					res.Stats.Transitions++
					if !s.Holds(ci, v) {
						return
					}
					nv := append([]int16(nil), v...)
					// drop dead, unobserved wires (correct canonicalisation: the future
					// cannot read them)
					for _, w := range c.wires {
						if lastUse[w] <= step && !isObs[w] {
							nv[w] = -1
						}
					}
					k := key(nv, step)
					if _, ok := next[k]; !ok {
						var set []int16
						for _, w := range free {
							set = append(set, int16(w), v[w])
						}
						next[k] = &node{vals: nv, parent: n, set: set}
					}
					return
				}
				for x := 0; x < s.P; x++ {
					v[free[k]] = int16(x)
					rec(k + 1)
				}
				v[free[k]] = -1
			}
			rec(0)
			if len(next) > maxStates {
				res.Stats.Capped = true
				return res
			}
		}
		frontier = frontier[:0]
		for _, n := range next {
			frontier = append(frontier, n)
		}
		res.Stats.States += int64(len(frontier))
		if int64(len(frontier)) > res.Stats.MaxFrontier {
			res.Stats.MaxFrontier = int64(len(frontier))
		}
		if len(frontier) == 0 {
			return res
		}
	}
	// observed wires never mentioned by any constraint are unconstrained: report them as -1
	for _, n := range frontier {
		full := make([]int16, s.NW)
		for i := range full {
			full[i] = -1
		}
		for m := n; m != nil; m = m.parent {
			for i := 0; i+1 < len(m.set); i += 2 {
				full[m.set[i]] = m.set[i+1]
			}
			if m.parent == nil {
				for w, x := range m.vals {
					if x >= 0 {
						full[w] = x
					}
				}
			}
		}
		t := make([]byte, len(observed))
		for i, w := range observed {
			if full[w] < 0 {
				t[i] = 255
			} else {
				t[i] = byte(full[w])
			}
		}
		if _, ok := res.Tuples[string(t)]; !ok {
			res.Tuples[string(t)] = full
		}
	}
	return res
}

// Validate re-checks a full assignment against every constraint with big-integer arithmetic
// (wires still unassigned are unconstrained and are given 0).
func (s *Sys) Validate(full []int16) error {
	v := append([]int16(nil), full...)
	for i := range v {
		if v[i] < 0 {
			v[i] = 0
		}
	}
	for i := range s.Cons {
		if !s.HoldsBig(i, v) {
			return fmt.Errorf("constraint %d violated by reported leaf", i)
		}
	}
	return nil
}
