// Package c19k: enumeration of small GKR circuits, their big.Int reference, and the outer
// circuit that delegates them through std/gkr (check C19).
package c19k

import (
	"fmt"
	"math/big"
	"strings"

	"github.com/consensys/gnark/constraint"
	"github.com/consensys/gnark/frontend"
	"github.com/consensys/gnark/std/gkr"
)

// Cubic is the custom degree-3 gate registered by the harness: (x, y) -> x*y*y + x.
const Cubic gkr.GateName = "verif-c19-cubic"

// GateDef is one gate of the alphabet.
type GateDef struct {
	Name string // add, sub, mul, neg, id, cubic
	NIn  int
}

var Gates = []GateDef{{"add", 2}, {"sub", 2}, {"mul", 2}, {"neg", 1}, {"id", 1}, {"cubic", 2}}

// Wire is an input (Gate < 0) or a gate over earlier wires.
type Wire struct {
	Gate int
	In   []int
}

// Topo is a GKR circuit: wires in creation order (inputs first).
type Topo struct {
	Wires []Wire
}

func (t *Topo) NInputs() int {
	n := 0
	for _, w := range t.Wires {
		if w.Gate < 0 {
			n++
		}
	}
	return n
}

// consumers returns, per wire, the number of distinct wires using it.
func (t *Topo) consumers() []int {
	res := make([]int, len(t.Wires))
	for _, w := range t.Wires {
		seen := map[int]bool{}
		for _, i := range w.In {
			if !seen[i] {
				seen[i] = true
				res[i]++
			}
		}
	}
	return res
}

// Outputs are the wires nobody consumes (the only ones the API exports).
func (t *Topo) Outputs() []int {
	var o []int
	for i, c := range t.consumers() {
		if c == 0 {
			o = append(o, i)
		}
	}
	return o
}

func (t *Topo) String() string {
	var sb strings.Builder
	for i, w := range t.Wires {
		if i > 0 {
			sb.WriteByte(';')
		}
		if w.Gate < 0 {
			fmt.Fprintf(&sb, "w%d=in", i)
		} else {
			fmt.Fprintf(&sb, "w%d=%s(", i, Gates[w.Gate].Name)
			for j, x := range w.In {
				if j > 0 {
					sb.WriteByte(',')
				}
				fmt.Fprintf(&sb, "w%d", x)
			}
			sb.WriteByte(')')
		}
	}
	return sb.String()
}

// Enumerate lists every circuit with at most maxWires wires over the gate alphabet (indices
// into Gates), inputs first, every input used, fan-out (distinct consumers) <= 2, and inputs
// numbered in order of first use (removes renamings of the inputs); add and mul take their
// arguments in one order only.
func Enumerate(maxWires int, alphabet []int) []*Topo {
	var out []*Topo
	for k := 1; k < maxWires; k++ {
		for g := 1; k+g <= maxWires; g++ {
			base := make([]Wire, k)
			for i := range base {
				base[i] = Wire{Gate: -1}
			}
			var rec func(ws []Wire)
			rec = func(ws []Wire) {
				if len(ws) == k+g {
					t := &Topo{Wires: append([]Wire(nil), ws...)}
					cons := t.consumers()
					first := make([]int, k)
					for i := range first {
						first[i] = 1 << 30
					}
					pos := 0
					for _, w := range t.Wires {
						for _, x := range w.In {
							if x < k && first[x] == 1<<30 {
								first[x] = pos
							}
							pos++
						}
					}
					for i := 0; i < len(ws); i++ {
						if cons[i] > 2 || (i < k && cons[i] == 0) {
							return
						}
					}
					for i := 1; i < k; i++ {
						if first[i] < first[i-1] {
							return
						}
					}
					out = append(out, t)
					return
				}
				n := len(ws)
				for _, gi := range alphabet {
					if Gates[gi].NIn == 1 {
						for a := 0; a < n; a++ {
							rec(append(ws, Wire{Gate: gi, In: []int{a}}))
						}
					} else {
						comm := Gates[gi].Name == "add" || Gates[gi].Name == "mul"
						for a := 0; a < n; a++ {
							for b := 0; b < n; b++ {
								if comm && b < a {
									continue // commutative gate: one argument order
								}
								rec(append(ws, Wire{Gate: gi, In: []int{a, b}}))
							}
						}
					}
				}
			}
			rec(base)
		}
	}
	return out
}

// Dep patterns between instances: the first input wire of instance i takes the value of the
// last wire (always an output) of another instance.
const (
	DepNone   = "none"
	DepFwd    = "chain-fwd" // instance i <- instance i-1, for every i >= 1
	DepBwd    = "chain-bwd" // instance i <- instance i+1, for every i <= n-2 (instances must be re-sorted)
	DepSingle = "single"    // instance n-1 <- instance 0 only
	DepFan    = "fan"       // every instance i >= 1 <- instance 0
)

// Case is one delegated computation.
type Case struct {
	T    *Topo
	N    int // instances
	Dep  string
	Hash string
	// Edges, when non-nil, replaces the named pattern: {input wire, instance, source instance}: the
	// input wire of that instance takes the value of the last wire of the source instance.
	Edges [][3]int
}

// WithEdges returns the case with an explicit dependency pattern (named after its edges).
func WithEdges(t *Topo, n int, hash string, edges [][3]int) *Case {
	var sb strings.Builder
	sb.WriteString("x")
	for _, e := range edges {
		fmt.Fprintf(&sb, ":w%d.%d<-%d", e[0], e[1], e[2])
	}
	if edges == nil {
		edges = [][3]int{}
	}
	return &Case{T: t, N: n, Dep: sb.String(), Hash: hash, Edges: edges}
}

// EdgePatterns enumerates every acyclic dependency pattern with at most maxEdges edges: each
// (input wire, instance) takes either an explicit value or the output of another instance; the
// instance-level graph has to be acyclic (the documented domain of Series).
func EdgePatterns(t *Topo, n, maxEdges int) [][][3]int {
	var inW []int
	for w, wr := range t.Wires {
		if wr.Gate < 0 {
			inW = append(inW, w)
		}
	}
	type slot struct{ w, i int }
	var slots []slot
	for _, w := range inW {
		for i := 0; i < n; i++ {
			slots = append(slots, slot{w, i})
		}
	}
	var out [][][3]int
	var rec func(k int, cur [][3]int)
	acyclic := func(es [][3]int) bool {
		// Kahn on instances
		indeg := make([]int, n)
		for _, e := range es {
			indeg[e[1]]++
		}
		done := make([]bool, n)
		for cnt := 0; cnt < n; {
			progress := false
			for i := 0; i < n; i++ {
				if !done[i] && indeg[i] == 0 {
					done[i] = true
					cnt++
					progress = true
					for _, e := range es {
						if e[2] == i {
							indeg[e[1]]--
						}
					}
				}
			}
			if !progress {
				return false
			}
		}
		return true
	}
	rec = func(k int, cur [][3]int) {
		if k == len(slots) {
			if acyclic(cur) {
				out = append(out, append([][3]int{}, cur...))
			}
			return
		}
		rec(k+1, cur)
		if len(cur) >= maxEdges {
			return
		}
		for src := 0; src < n; src++ {
			if src != slots[k].i {
				rec(k+1, append(cur, [3]int{slots[k].w, slots[k].i, src}))
			}
		}
	}
	rec(0, nil)
	return out
}

func (cs *Case) String() string {
	return fmt.Sprintf("%s|n=%d|dep=%s|hash=%s", cs.T, cs.N, cs.Dep, cs.Hash)
}

// depOf returns the source instance of the dependency feeding the first input of instance i, or -1.
func (cs *Case) depOf(w, i int) int {
	if cs.Edges != nil {
		for _, e := range cs.Edges {
			if e[0] == w && e[1] == i {
				return e[2]
			}
		}
		return -1
	}
	if w != 0 {
		return -1
	}
	switch cs.Dep {
	case DepFwd:
		if i >= 1 {
			return i - 1
		}
	case DepBwd:
		if i <= cs.N-2 {
			return i + 1
		}
	case DepSingle:
		if i == cs.N-1 && cs.N > 1 {
			return 0
		}
	case DepFan:
		if i >= 1 {
			return 0
		}
	}
	return -1
}

// order returns the instances in an order compatible with the dependencies.
func (cs *Case) order() []int {
	done := make([]bool, cs.N)
	var o []int
	for len(o) < cs.N {
		for i := 0; i < cs.N; i++ {
			if done[i] {
				continue
			}
			ready := true
			for w, wr := range cs.T.Wires {
				if wr.Gate < 0 && cs.depOf(w, i) >= 0 && !done[cs.depOf(w, i)] {
					ready = false
				}
			}
			if ready {
				done[i] = true
				o = append(o, i)
			}
		}
	}
	return o
}

// Slots lists the explicit inputs in flattening order: (wire, instance) for every input wire
// and instance not fed by a dependency.
func (cs *Case) Slots() [][2]int {
	var s [][2]int
	for w, wr := range cs.T.Wires {
		if wr.Gate >= 0 {
			continue
		}
		for i := 0; i < cs.N; i++ {
			if cs.depOf(w, i) >= 0 {
				continue
			}
			s = append(s, [2]int{w, i})
		}
	}
	return s
}

// Ref evaluates the whole batch with big.Int; in is indexed like Slots. Returns vals[wire][instance].
func (cs *Case) Ref(q *big.Int, in []*big.Int) [][]*big.Int {
	vals := make([][]*big.Int, len(cs.T.Wires))
	for w := range vals {
		vals[w] = make([]*big.Int, cs.N)
	}
	for k, s := range cs.Slots() {
		vals[s[0]][s[1]] = new(big.Int).Mod(in[k], q)
	}
	last := len(cs.T.Wires) - 1
	for _, i := range cs.order() {
		for w, wr := range cs.T.Wires {
			if wr.Gate < 0 {
				if cs.depOf(w, i) >= 0 {
					vals[w][i] = vals[last][cs.depOf(w, i)]
				}
				continue
			}
			x := vals[wr.In[0]][i]
			var y *big.Int
			if len(wr.In) > 1 {
				y = vals[wr.In[1]][i]
			}
			r := new(big.Int)
			switch Gates[wr.Gate].Name {
			case "add":
				r.Add(x, y)
			case "sub":
				r.Sub(x, y)
			case "mul":
				r.Mul(x, y)
			case "neg":
				r.Neg(x)
			case "id":
				r.Set(x)
			case "cubic":
				r.Mul(x, y).Mul(r, y).Add(r, x)
			}
			vals[w][i] = r.Mod(r, q)
		}
	}
	return vals
}

// Build returns the Define closure of the outer circuit.  Secret inputs: the explicit inputs
// (Slots order) followed, when withOracle, by the expected value of every (output wire,
// instance).  withOracle adds (a) the same gates evaluated with plain api calls, asserted equal
// to the exported values, and (b) equality with the expected values; without it the circuit
// only delegates, exports, commits and verifies (dishonest-prover experiments).
// exported, when non-nil, receives nothing at compile time; it exists to keep the signature stable.
func (cs *Case) Build(withOracle bool) (nSecret int, def func(api frontend.API, p, s []frontend.Variable) error) {
	slots := cs.Slots()
	outs := cs.T.Outputs()
	nSecret = len(slots)
	if withOracle {
		nSecret += len(outs) * cs.N
	}
	def = func(api frontend.API, _, s []frontend.Variable) error {
		g := gkr.NewApi()
		nW := len(cs.T.Wires)
		vars := make([]constraint.GkrVariable, nW)
		explicit := make([][]frontend.Variable, nW)
		for k, sl := range slots {
			if explicit[sl[0]] == nil {
				explicit[sl[0]] = make([]frontend.Variable, cs.N)
			}
			explicit[sl[0]][sl[1]] = s[k]
		}
		for w, wr := range cs.T.Wires {
			var err error
			if wr.Gate < 0 {
				if explicit[w] == nil {
					explicit[w] = make([]frontend.Variable, cs.N)
				}
				if vars[w], err = g.Import(append([]frontend.Variable(nil), explicit[w]...)); err != nil {
					return err
				}
				continue
			}
			switch Gates[wr.Gate].Name {
			case "add":
				vars[w] = g.Add(vars[wr.In[0]], vars[wr.In[1]])
			case "sub":
				vars[w] = g.Sub(vars[wr.In[0]], vars[wr.In[1]])
			case "mul":
				vars[w] = g.Mul(vars[wr.In[0]], vars[wr.In[1]])
			case "neg":
				vars[w] = g.Neg(vars[wr.In[0]])
			case "id":
				vars[w] = g.NamedGate(gkr.Identity, vars[wr.In[0]])
			case "cubic":
				vars[w] = g.NamedGate(Cubic, vars[wr.In[0]], vars[wr.In[1]])
			}
		}
		last := nW - 1
		for w, wr := range cs.T.Wires {
			if wr.Gate >= 0 {
				continue
			}
			for i := 0; i < cs.N; i++ {
				if d := cs.depOf(w, i); d >= 0 {
					g.Series(vars[w], vars[last], i, d)
				}
			}
		}
		sol, err := g.Solve(api)
		if err != nil {
			return err
		}
		exported := make(map[int][]frontend.Variable, len(outs))
		var bound []frontend.Variable
		bound = append(bound, s[:len(slots)]...)
		for _, o := range outs {
			exported[o] = sol.Export(vars[o])
			if len(exported[o]) != cs.N {
				return fmt.Errorf("export of wire %d returned %d values for %d instances", o, len(exported[o]), cs.N)
			}
			bound = append(bound, exported[o]...)
		}
		if withOracle {
			// the same gates, evaluated directly in the outer circuit
			direct := make([][]frontend.Variable, nW)
			for w := range direct {
				direct[w] = make([]frontend.Variable, cs.N)
			}
			for _, i := range cs.order() {
				for w, wr := range cs.T.Wires {
					if wr.Gate < 0 {
						if cs.depOf(w, i) >= 0 {
							direct[w][i] = direct[last][cs.depOf(w, i)]
						} else {
							direct[w][i] = explicit[w][i]
						}
						continue
					}
					x := direct[wr.In[0]][i]
					var y frontend.Variable
					if len(wr.In) > 1 {
						y = direct[wr.In[1]][i]
					}
					switch Gates[wr.Gate].Name {
					case "add":
						direct[w][i] = api.Add(x, y)
					case "sub":
						direct[w][i] = api.Sub(x, y)
					case "mul":
						direct[w][i] = api.Mul(x, y)
					case "neg":
						direct[w][i] = api.Neg(x)
					case "id":
						direct[w][i] = x
					case "cubic":
						direct[w][i] = api.Add(api.Mul(x, y, y), x)
					}
				}
			}
			k := len(slots)
			for _, o := range outs {
				for i := 0; i < cs.N; i++ {
					api.AssertIsEqual(exported[o][i], direct[o][i])
					api.AssertIsEqual(exported[o][i], s[k])
					k++
				}
			}
		}
		var chal []frontend.Variable
		if cs.Hash != "" && !strings.HasPrefix(cs.Hash, "-") {
			ch, err := api.(frontend.Committer).Commit(bound...)
			if err != nil {
				return err
			}
			chal = []frontend.Variable{ch}
		}
		return sol.Verify(cs.Hash, chal...)
	}
	return
}
