package c19k

import (
	"hash"
	"math/big"
	"sync"

	"github.com/consensys/gnark-crypto/ecc"
	frbls12377 "github.com/consensys/gnark-crypto/ecc/bls12-377/fr"
	frbn254 "github.com/consensys/gnark-crypto/ecc/bn254/fr"
	gcHash "github.com/consensys/gnark-crypto/hash"
	csbls12377 "github.com/consensys/gnark/constraint/bls12-377"
	csbn254 "github.com/consensys/gnark/constraint/bn254"
	"github.com/consensys/gnark/constraint"
	"github.com/consensys/gnark/frontend"
	gkrbls12377 "github.com/consensys/gnark/internal/gkr/bls12-377"
	gkrbn254 "github.com/consensys/gnark/internal/gkr/bn254"
	"github.com/consensys/gnark/std/gkr"
	stdHash "github.com/consensys/gnark/std/hash"
	"github.com/consensys/gnark/std/hash/mimc"
	"github.com/consensys/gnark/std/hash/poseidon2"
)

// Curve describes one scalar field offering GKR.
type Curve struct {
	Name   string
	Field  *big.Int
	Hashes []string // Fiat-Shamir hash names registered for both sides
	MiMC   func() hash.Hash // prover-side MiMC (the "mimc" Fiat-Shamir hash of this field)
}

type constHash int

func (c constHash) Sum() frontend.Variable     { return int(c) }
func (c constHash) Write(...frontend.Variable) {}
func (c constHash) Reset()                     {}

var regOnce sync.Once

// Register installs the custom gate (circuit side + every prover side) and the hash pairs.
func Register() []Curve {
	regOnce.Do(func() {
		must(gkr.RegisterGate(Cubic, func(api gkr.GateAPI, x ...frontend.Variable) frontend.Variable {
			return api.Add(api.Mul(x[0], x[1], x[1]), x[0])
		}, 2, gkr.WithDegree(3)))
		must(gkrbn254.RegisterGate(gkrbn254.GateName(Cubic), func(x ...frbn254.Element) (r frbn254.Element) {
			r.Mul(&x[0], &x[1]).Mul(&r, &x[1]).Add(&r, &x[0])
			return
		}, 2, gkrbn254.WithDegree(3)))
		must(gkrbls12377.RegisterGate(gkrbls12377.GateName(Cubic), func(x ...frbls12377.Element) (r frbls12377.Element) {
			r.Mul(&x[0], &x[1]).Mul(&r, &x[1]).Add(&r, &x[0])
			return
		}, 2, gkrbls12377.WithDegree(3)))

		stdHash.Register("mimc", func(api frontend.API) (stdHash.FieldHasher, error) {
			m, err := mimc.NewMiMC(api)
			return &m, err
		})
		csbn254.RegisterHashBuilder("mimc", gcHash.MIMC_BN254.New)
		csbls12377.RegisterHashBuilder("mimc", gcHash.MIMC_BLS12_377.New)

		stdHash.Register("poseidon2", func(api frontend.API) (stdHash.FieldHasher, error) {
			return poseidon2.NewMerkleDamgardHasher(api)
		})
		csbls12377.RegisterHashBuilder("poseidon2", gcHash.POSEIDON2_BLS12_377.New)

		// the constant pseudo-hash of gnark's own GKR tests (honest runs only: no soundness)
		stdHash.Register("-20", func(frontend.API) (stdHash.FieldHasher, error) { return constHash(-20), nil })
		csbn254.RegisterHashBuilder("-20", func() hash.Hash { return csbn254.ConstPseudoHash(-20) })
		csbls12377.RegisterHashBuilder("-20", func() hash.Hash { return csbls12377.ConstPseudoHash(-20) })
	})
	return []Curve{
		{"bn254", ecc.BN254.ScalarField(), []string{"mimc", "-20"}, gcHash.MIMC_BN254.New},
		{"bls12-377", ecc.BLS12_377.ScalarField(), []string{"mimc", "poseidon2", "-20"}, gcHash.MIMC_BLS12_377.New},
	}
}

func must(err error) {
	if err != nil {
		panic(err)
	}
}

// GkrInfo returns the GKR metadata stored in a compiled system (nil if none).
func GkrInfo(ccs any) *constraint.GkrInfo {
	switch t := ccs.(type) {
	case *csbn254.R1CS:
		if t.GkrInfo.Is() {
			return &t.GkrInfo
		}
	case *csbls12377.R1CS:
		if t.GkrInfo.Is() {
			return &t.GkrInfo
		}
	}
	return nil
}
