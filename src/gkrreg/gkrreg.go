// Package gkrreg registers the "mimc" Fiat-Shamir hash for GKR on every curve (what gnark's
// own tests do in registerMiMC): the native builder for the solver/prover hints and the
// in-circuit hasher.
package gkrreg

import (
	gcHash "github.com/consensys/gnark-crypto/hash"
	bls12377 "github.com/consensys/gnark/constraint/bls12-377"
	bls12381 "github.com/consensys/gnark/constraint/bls12-381"
	bls24315 "github.com/consensys/gnark/constraint/bls24-315"
	bls24317 "github.com/consensys/gnark/constraint/bls24-317"
	bn254 "github.com/consensys/gnark/constraint/bn254"
	bw6633 "github.com/consensys/gnark/constraint/bw6-633"
	bw6761 "github.com/consensys/gnark/constraint/bw6-761"
	"github.com/consensys/gnark/frontend"
	stdHash "github.com/consensys/gnark/std/hash"
	"github.com/consensys/gnark/std/hash/mimc"
)

const Name = "mimc"

func init() {
	bn254.RegisterHashBuilder(Name, gcHash.MIMC_BN254.New)
	bls12377.RegisterHashBuilder(Name, gcHash.MIMC_BLS12_377.New)
	bls12381.RegisterHashBuilder(Name, gcHash.MIMC_BLS12_381.New)
	bls24315.RegisterHashBuilder(Name, gcHash.MIMC_BLS24_315.New)
	bls24317.RegisterHashBuilder(Name, gcHash.MIMC_BLS24_317.New)
	bw6633.RegisterHashBuilder(Name, gcHash.MIMC_BW6_633.New)
	bw6761.RegisterHashBuilder(Name, gcHash.MIMC_BW6_761.New)
	stdHash.Register(Name, func(api frontend.API) (stdHash.FieldHasher, error) {
		m, err := mimc.NewMiMC(api)
		return &m, err
	})
}
