// Package vsync mirrors the parts of package sync that gnark uses; under an active vsched run
// blocking operations become scheduling points, otherwise they are the native primitives.
package vsync

import (
	"sync"
	"sync/atomic"

	"github.com/consensys/gnark/internal/verifh/vsched"
)

type (
	Pool   = sync.Pool
	Map    = sync.Map
	Locker = sync.Locker
)

type Mutex struct {
	real sync.Mutex
	held atomic.Bool
}

func (m *Mutex) Lock() {
	if vsched.Block("lock", func() bool { return !m.held.Load() }) {
		m.held.Store(true)
		return
	}
	if vsched.Tearing() {
		return
	}
	m.real.Lock()
	m.held.Store(true)
}

func (m *Mutex) Unlock() {
	if vsched.Controlled() {
		vsched.Point("unlock")
		if !m.held.Load() {
			panic("sync: unlock of unlocked mutex")
		}
		m.held.Store(false)
		return
	}
	if vsched.Tearing() {
		return
	}
	m.held.Store(false)
	m.real.Unlock()
}

func (m *Mutex) TryLock() bool {
	if vsched.Controlled() {
		vsched.Point("trylock")
		return m.held.CompareAndSwap(false, true)
	}
	if m.real.TryLock() {
		m.held.Store(true)
		return true
	}
	return false
}

type RWMutex struct {
	real    sync.RWMutex
	writer  atomic.Bool
	readers atomic.Int64
}

func (m *RWMutex) Lock() {
	if vsched.Block("wlock", func() bool { return !m.writer.Load() && m.readers.Load() == 0 }) {
		m.writer.Store(true)
		return
	}
	if vsched.Tearing() {
		return
	}
	m.real.Lock()
	m.writer.Store(true)
}
func (m *RWMutex) Unlock() {
	if vsched.Controlled() {
		vsched.Point("wunlock")
		m.writer.Store(false)
		return
	}
	if vsched.Tearing() {
		return
	}
	m.writer.Store(false)
	m.real.Unlock()
}
func (m *RWMutex) RLock() {
	if vsched.Block("rlock", func() bool { return !m.writer.Load() }) {
		m.readers.Add(1)
		return
	}
	if vsched.Tearing() {
		return
	}
	m.real.RLock()
	m.readers.Add(1)
}
func (m *RWMutex) RUnlock() {
	if vsched.Controlled() {
		vsched.Point("runlock")
		m.readers.Add(-1)
		return
	}
	if vsched.Tearing() {
		return
	}
	m.readers.Add(-1)
	m.real.RUnlock()
}
func (m *RWMutex) RLocker() sync.Locker { return (*rlocker)(m) }

type rlocker RWMutex

func (r *rlocker) Lock()   { (*RWMutex)(r).RLock() }
func (r *rlocker) Unlock() { (*RWMutex)(r).RUnlock() }

type WaitGroup struct {
	real sync.WaitGroup
	n    atomic.Int64
}

func (wg *WaitGroup) Add(delta int) {
	if vsched.Controlled() {
		vsched.Point("wg.add")
		if wg.n.Add(int64(delta)) < 0 {
			panic("sync: negative WaitGroup counter")
		}
		return
	}
	if vsched.Tearing() {
		return
	}
	wg.n.Add(int64(delta))
	wg.real.Add(delta)
}

func (wg *WaitGroup) Done() { wg.Add(-1) }

func (wg *WaitGroup) Wait() {
	if vsched.Block("wg.wait", func() bool { return wg.n.Load() == 0 }) {
		return
	}
	if vsched.Tearing() {
		return
	}
	wg.real.Wait()
}

type Once struct {
	m    Mutex
	done atomic.Bool
}

func (o *Once) Do(f func()) {
	if o.done.Load() {
		return
	}
	o.m.Lock()
	defer o.m.Unlock()
	if !o.done.Load() {
		defer o.done.Store(true)
		f()
	}
}

func OnceFunc(f func()) func()                     { var o Once; return func() { o.Do(f) } }
func OnceValue[T any](f func() T) func() T         { return sync.OnceValue(f) }
func NewCond(l sync.Locker) *sync.Cond             { return sync.NewCond(l) }
