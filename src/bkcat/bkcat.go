// Package bkcat is the curve-agnostic circuit catalogue for the backend checks (C01, C02,
// C03, C08, C09, C20): every commitment bookkeeping path of Setup / Prove / Verify.
package bkcat

import (
	"math/big"

	"github.com/consensys/gnark/frontend"
	"github.com/consensys/gnark/internal/verifh/bk"
)

func commit(api frontend.API, v ...frontend.Variable) frontend.Variable {
	c, err := api.(frontend.Committer).Commit(v...)
	if err != nil {
		panic(err)
	}
	return c
}

// Cases returns the catalogue.  Every circuit determines its public outputs from its secret
// inputs, so a proof for x can never be a proof for x' != x.
func Cases() []bk.Case {
	return []bk.Case{
		{Name: "cubic-1pub", NP: 1, NS: 1, Def: func(api frontend.API, p, s []frontend.Variable) error {
			x3 := api.Mul(s[0], s[0], s[0])
			api.AssertIsEqual(p[0], api.Add(x3, s[0], 5))
			return nil
		}, Valid: [][2][]*big.Int{{bk.Big(35), bk.Big(3)}, {bk.Big(73), bk.Big(4)}}, Invalid: [][2][]*big.Int{{bk.Big(36), bk.Big(3)}}},
		{Name: "two-pub", NP: 2, NS: 1, Def: func(api frontend.API, p, s []frontend.Variable) error {
			sq := api.Mul(s[0], s[0])
			api.AssertIsEqual(p[0], sq)
			api.AssertIsEqual(p[1], api.Add(api.Mul(sq, s[0]), 1))
			return nil
		}, Valid: [][2][]*big.Int{{bk.Big(9, 28), bk.Big(3)}, {bk.Big(25, 126), bk.Big(5)}}, Invalid: [][2][]*big.Int{{bk.Big(9, 29), bk.Big(3)}}},
		{Name: "zero-pub", NP: 0, NS: 2, Def: func(api frontend.API, p, s []frontend.Variable) error {
			api.AssertIsEqual(api.Mul(s[0], s[0]), s[1])
			api.AssertIsDifferent(s[0], 1)
			return nil
		}, Valid: [][2][]*big.Int{{bk.Big(), bk.Big(3, 9)}, {bk.Big(), bk.Big(4, 16)}}, Invalid: [][2][]*big.Int{{bk.Big(), bk.Big(3, 10)}}},
		{Name: "assert-only", NP: 1, NS: 2, Def: func(api frontend.API, p, s []frontend.Variable) error {
			api.AssertIsBoolean(s[0])
			api.AssertIsEqual(api.Add(s[0], s[1]), p[0])
			api.AssertIsLessOrEqual(s[1], 100)
			return nil
		}, Valid: [][2][]*big.Int{{bk.Big(8), bk.Big(1, 7)}, {bk.Big(50), bk.Big(0, 50)}}, Invalid: [][2][]*big.Int{{bk.Big(8), bk.Big(2, 6)}}},
		{Name: "commit-secret", NP: 1, NS: 2, NbCommit: 1, Def: func(api frontend.API, p, s []frontend.Variable) error {
			c := commit(api, s[0])
			api.AssertIsDifferent(c, s[1])
			api.AssertIsEqual(api.Mul(s[0], s[1]), p[0])
			return nil
		}, Valid: [][2][]*big.Int{{bk.Big(6), bk.Big(2, 3)}, {bk.Big(20), bk.Big(4, 5)}}, Invalid: [][2][]*big.Int{{bk.Big(7), bk.Big(2, 3)}}},
		{Name: "commit-public", NP: 2, NS: 1, NbCommit: 1, Def: func(api frontend.API, p, s []frontend.Variable) error {
			c := commit(api, p[0])
			api.AssertIsDifferent(c, 0)
			api.AssertIsEqual(api.Mul(s[0], s[0]), p[0])
			api.AssertIsEqual(api.Add(s[0], 1), p[1])
			return nil
		}, Valid: [][2][]*big.Int{{bk.Big(9, 4), bk.Big(3)}, {bk.Big(16, 5), bk.Big(4)}}, Invalid: [][2][]*big.Int{{bk.Big(9, 5), bk.Big(3)}}},
		{Name: "commit-both", NP: 1, NS: 2, NbCommit: 1, Def: func(api frontend.API, p, s []frontend.Variable) error {
			c := commit(api, s[0], p[0], s[1])
			api.AssertIsDifferent(c, p[0])
			api.AssertIsEqual(api.Mul(s[0], s[1]), p[0])
			return nil
		}, Valid: [][2][]*big.Int{{bk.Big(6), bk.Big(2, 3)}, {bk.Big(20), bk.Big(4, 5)}}, Invalid: [][2][]*big.Int{{bk.Big(6), bk.Big(2, 4)}}},
		{Name: "commit-two", NP: 2, NS: 2, NbCommit: 2, Def: func(api frontend.API, p, s []frontend.Variable) error {
			c1 := commit(api, s[0])
			c2 := commit(api, c1, p[1], s[1])
			api.AssertIsDifferent(c1, c2)
			api.AssertIsEqual(api.Mul(s[0], s[1]), p[0])
			api.AssertIsEqual(api.Add(s[0], s[1]), p[1])
			return nil
		}, Valid: [][2][]*big.Int{{bk.Big(6, 5), bk.Big(2, 3)}, {bk.Big(20, 9), bk.Big(4, 5)}}, Invalid: [][2][]*big.Int{{bk.Big(6, 6), bk.Big(2, 3)}}},
		{Name: "commit-three", NP: 2, NS: 3, NbCommit: 3, Def: func(api frontend.API, p, s []frontend.Variable) error {
			// two independent commitments, a third one depending on the SECOND only
			c0 := commit(api, s[0])
			c1 := commit(api, s[1])
			c2 := commit(api, c1, s[2])
			api.AssertIsDifferent(c0, c1)
			api.AssertIsDifferent(c2, c0)
			api.AssertIsEqual(api.Mul(s[0], s[1]), p[0])
			api.AssertIsEqual(api.Add(s[0], s[1], s[2]), p[1])
			return nil
		}, Valid: [][2][]*big.Int{{bk.Big(6, 12), bk.Big(2, 3, 7)}, {bk.Big(20, 10), bk.Big(4, 5, 1)}}, Invalid: [][2][]*big.Int{{bk.Big(6, 13), bk.Big(2, 3, 7)}}},
		{Name: "commit-shared-wire", NP: 1, NS: 3, NbCommit: 3, Def: func(api frontend.API, p, s []frontend.Variable) error {
			// the third commitment commits to a wire the second one already owns
			c0 := commit(api, s[0])
			c1 := commit(api, s[1])
			c2 := commit(api, s[1], s[2])
			api.AssertIsDifferent(c0, c2)
			api.AssertIsDifferent(c1, c2)
			api.AssertIsEqual(api.Add(api.Mul(s[0], s[1]), s[2]), p[0])
			return nil
		}, Valid: [][2][]*big.Int{{bk.Big(13), bk.Big(2, 3, 7)}, {bk.Big(21), bk.Big(4, 5, 1)}}, Invalid: [][2][]*big.Int{{bk.Big(14), bk.Big(2, 3, 7)}}},
		{Name: "fanout", NP: 1, NS: 2, Def: func(api frontend.API, p, s []frontend.Variable) error {
			// s[0] occurs at many positions; the products are only used once more each
			a := api.Mul(s[0], s[0])
			b := api.Mul(s[0], s[1])
			d := api.Mul(a, s[0])
			api.AssertIsEqual(api.Add(a, b, d, s[0]), p[0])
			return nil
		}, Valid: [][2][]*big.Int{{bk.Big(9 + 6 + 27 + 3), bk.Big(3, 2)}, {bk.Big(16 + 20 + 64 + 4), bk.Big(4, 5)}}, Invalid: [][2][]*big.Int{{bk.Big(46), bk.Big(3, 2)}}},
		{Name: "tiny-domain", NP: 1, NS: 1, Def: func(api frontend.API, p, s []frontend.Variable) error {
			api.AssertIsEqual(api.Mul(s[0], s[0]), p[0])
			return nil
		}, Valid: [][2][]*big.Int{{bk.Big(9), bk.Big(3)}, {bk.Big(16), bk.Big(4)}}, Invalid: [][2][]*big.Int{{bk.Big(10), bk.Big(3)}}},
	}
}
