// Package c18kbn254 is the C18 kit for one curve.  GENERATED from src/c18k/bn254 by src/cmd/c18/gen.sh; DO NOT EDIT: the kits of the
// other curves are derived from it by src/cmd/c18/gen.sh (path substitution only).
package c18kbls12381

import (
	"bytes"
	"encoding/binary"
	"fmt"
	"io"
	"math/big"
	"sync"

	"github.com/consensys/gnark-crypto/ecc"
	curve "github.com/consensys/gnark-crypto/ecc/bls12-381"
	"github.com/consensys/gnark-crypto/ecc/bls12-381/fr"
	groth16 "github.com/consensys/gnark/backend/groth16/bls12-381"
	"github.com/consensys/gnark/backend/groth16/bls12-381/mpcsetup"
	cs "github.com/consensys/gnark/constraint/bls12-381"
	"github.com/consensys/gnark/frontend"
	"github.com/consensys/gnark/frontend/cs/r1cs"
	"github.com/consensys/gnark/internal/verifh/c18k"
	"github.com/consensys/gnark/internal/verifh/circ"
	"github.com/consensys/gnark/internal/verifh/vh"
)

var CurveID = ecc.BLS12_381

const curveName = "bls12-381"

func init() { c18k.Register(c18k.Kit{Curve: curveName, Run: Run}) }

const (
	g1Size = curve.SizeOfG1AffineCompressed
	g2Size = curve.SizeOfG2AffineCompressed
)

func guard(f func() error) (err error) {
	defer func() {
		if r := recover(); r != nil {
			err = fmt.Errorf("panic: %v", r)
		}
	}()
	return f()
}

// ---------------------------------------------------------------- point edits on compressed images

// torsion points: [r]N for a curve point N outside the prime-order subgroup (nil when the
// cofactor is 1).  P + T leaves every pairing equation unchanged: only an explicit subgroup
// check rejects it.
var (
	torsOnce sync.Once
	tors1    *curve.G1Affine
	tors2    *curve.G2Affine
	nons1    *curve.G1Affine
	nons2    *curve.G2Affine
)

func torsionPoints() {
	torsOnce.Do(func() {
		_, _, g1, g2 := curve.Generators()
		{
			b := g1.Y
			b.Square(&b)
			x3 := g1.X
			x3.Square(&x3).Mul(&x3, &g1.X)
			b.Sub(&b, &x3)
			x := g1.X
			for i := 0; i < 400 && nons1 == nil; i++ {
				x.Add(&x, &g1.Y)
				rhs := x
				rhs.Square(&rhs).Mul(&rhs, &x).Add(&rhs, &b)
				if rhs.Legendre() != 1 {
					continue
				}
				y := rhs
				y.Sqrt(&rhs)
				p := curve.G1Affine{X: x, Y: y}
				if p.IsOnCurve() && !p.IsInSubGroup() {
					nons1 = &p
				}
			}
			if nons1 != nil {
				var t curve.G1Affine
				t.ScalarMultiplication(nons1, fr.Modulus())
				if !t.IsInfinity() {
					tors1 = &t
				}
			}
		}
		{
			b := g2.Y
			b.Square(&b)
			x3 := g2.X
			x3.Square(&x3).Mul(&x3, &g2.X)
			b.Sub(&b, &x3)
			x := g2.X
			for i := 0; i < 400 && nons2 == nil; i++ {
				x.Add(&x, &g2.Y)
				rhs := x
				rhs.Square(&rhs).Mul(&rhs, &x).Add(&rhs, &b)
				if rhs.Legendre() != 1 {
					continue
				}
				y := rhs
				y.Sqrt(&rhs)
				p := curve.G2Affine{X: x, Y: y}
				if p.IsOnCurve() && !p.IsInSubGroup() {
					nons2 = &p
				}
			}
			if nons2 != nil {
				var t curve.G2Affine
				t.ScalarMultiplication(nons2, fr.Modulus())
				if !t.IsInfinity() {
					tors2 = &t
				}
			}
		}
	})
}

func pointEdit(kind string, orig []byte, edit string) []byte {
	torsionPoints()
	if kind == "G1" {
		var p, q curve.G1Affine
		if _, err := p.SetBytes(orig); err != nil {
			return nil
		}
		_, _, g1, _ := curve.Generators()
		switch edit {
		case "inf":
		case "gen":
			q = g1
		case "neg":
			q.Neg(&p)
		case "double":
			q.Double(&p)
		case "plusTorsion":
			if tors1 == nil {
				return nil
			}
			q.Add(&p, tors1)
		case "nonsubgroup":
			if nons1 == nil {
				return nil
			}
			q = *nons1
		default:
			return nil
		}
		b := q.Bytes()
		return b[:]
	}
	var p, q curve.G2Affine
	if _, err := p.SetBytes(orig); err != nil {
		return nil
	}
	_, _, _, g2 := curve.Generators()
	switch edit {
	case "inf":
	case "gen":
		q = g2
	case "neg":
		q.Neg(&p)
	case "double":
		q.Double(&p)
	case "plusTorsion":
		if tors2 == nil {
			return nil
		}
		q.Add(&p, tors2)
	case "nonsubgroup":
		if nons2 == nil {
			return nil
		}
		q = *nons2
	default:
		return nil
	}
	b := q.Bytes()
	return b[:]
}

// ---------------------------------------------------------------- layouts (harness-side parsers)

type lay struct {
	b     []byte
	off   int
	slots []c18k.Slot
	err   error
}

func (l *lay) take(kind, class, name string, size int) {
	if l.err != nil {
		return
	}
	if l.off+size > len(l.b) {
		l.err = fmt.Errorf("image too short at %s", name)
		return
	}
	l.slots = append(l.slots, c18k.Slot{Off: l.off, Size: size, Kind: kind, Name: name, Class: class})
	l.off += size
}
func (l *lay) g1(class, name string) { l.take("G1", class, name, g1Size) }
func (l *lay) g2(class, name string) { l.take("G2", class, name, g2Size) }
func (l *lay) proof(name string) {
	l.g1("proof.commitment", "proofs."+name+".contributionCommitment")
	l.g2("proof.pok", "proofs."+name+".contributionPok")
}
func (l *lay) g1slice(class, name string) {
	if l.err != nil || l.off+4 > len(l.b) {
		l.err = fmt.Errorf("short")
		return
	}
	n := int(binary.BigEndian.Uint32(l.b[l.off:]))
	l.take("len", "len("+class+")", "len("+name+")", 4)
	for i := 0; i < n; i++ {
		l.g1(class, fmt.Sprintf("%s[%d]", name, i))
	}
}
func (l *lay) challenge() {
	if l.err != nil || l.off+1 > len(l.b) {
		l.err = fmt.Errorf("short")
		return
	}
	n := int(l.b[l.off])
	l.off++
	l.take("chal", "challenge", "Challenge", n)
	if l.err == nil && l.off != len(l.b) {
		l.err = fmt.Errorf("layout consumed %d of %d bytes", l.off, len(l.b))
	}
}

// layoutP1 mirrors Phase1.WriteTo: three update proofs, N, [β]₂, [τⁱ]₁ (2N-2), [τⁱ]₂ (N-1),
// [βτⁱ]₁ (N), [ατⁱ]₁ (N), challenge.
func layoutP1(b []byte) ([]c18k.Slot, error) {
	l := &lay{b: b}
	l.proof("Tau")
	l.proof("Alpha")
	l.proof("Beta")
	if l.off+8 > len(b) {
		return nil, fmt.Errorf("short")
	}
	N := int(binary.BigEndian.Uint64(b[l.off:]))
	l.take("len", "N", "N", 8)
	l.g2("params.G2.Beta", "parameters.G2.Beta")
	for i := 1; i <= 2*N-2; i++ {
		l.g1("params.G1.Tau", fmt.Sprintf("parameters.G1.Tau[%d]", i))
	}
	for i := 1; i <= N-1; i++ {
		l.g2("params.G2.Tau", fmt.Sprintf("parameters.G2.Tau[%d]", i))
	}
	for i := 0; i < N; i++ {
		l.g1("params.G1.BetaTau", fmt.Sprintf("parameters.G1.BetaTau[%d]", i))
	}
	for i := 0; i < N; i++ {
		l.g1("params.G1.AlphaTau", fmt.Sprintf("parameters.G1.AlphaTau[%d]", i))
	}
	l.challenge()
	return l.slots, l.err
}

// layoutP2 mirrors Phase2.WriteTo.
func layoutP2(b []byte) ([]c18k.Slot, error) {
	l := &lay{b: b}
	if len(b) < 2 {
		return nil, fmt.Errorf("short")
	}
	nb := int(binary.BigEndian.Uint16(b))
	l.take("len", "nbCommitments", "nbCommitments", 2)
	l.g1("params.G1.Delta", "Parameters.G1.Delta")
	l.g1slice("params.G1.PKK", "Parameters.G1.PKK")
	l.g1slice("params.G1.Z", "Parameters.G1.Z")
	l.g2("params.G2.Delta", "Parameters.G2.Delta")
	for i := 0; i < nb; i++ {
		l.g1slice("params.G1.SigmaCKK", fmt.Sprintf("Parameters.G1.SigmaCKK[%d]", i))
	}
	for i := 0; i < nb; i++ {
		l.g2("params.G2.Sigma", fmt.Sprintf("Parameters.G2.Sigma[%d]", i))
	}
	l.proof("Delta")
	for i := 0; i < nb; i++ {
		l.proof(fmt.Sprintf("Sigmas[%d]", i))
	}
	l.challenge()
	return l.slots, l.err
}

// unsafeP2 walks an (edited) phase-2 image the way the real decoder would and reports whether it
// would read a slice length prefix above 2^20 before hitting an undecodable point: the
// gnark-crypto decoder allocates that many points without looking at the remaining input
// (a resource question outside this property; such an image is not handed to ReadFrom
// in-process because the allocation aborts the process).
func unsafeP2(b []byte) string {
	off := 0
	okPoint := func(size int, g1 bool) (cont bool, reason string) {
		if off+size > len(b) {
			return false, ""
		}
		set := func(buf []byte) error {
			if g1 {
				var p curve.G1Affine
				_, err := p.SetBytes(buf)
				return err
			}
			var p curve.G2Affine
			_, err := p.SetBytes(buf)
			return err
		}
		err := set(b[off : off+size])
		if err == io.ErrShortBuffer { // flagged uncompressed: the decoder reads twice as many bytes
			if off+2*size > len(b) {
				return false, ""
			}
			err = set(b[off : off+2*size])
			off += size
		}
		off += size
		return err == nil, ""
	}
	slice := func() (cont bool, reason string) {
		if off+4 > len(b) {
			return false, ""
		}
		n := int(binary.BigEndian.Uint32(b[off:]))
		off += 4
		if n > 1<<20 {
			return false, fmt.Sprintf("slice-length-prefix=%d", n)
		}
		for i := 0; i < n; i++ {
			if c, r := okPoint(g1Size, true); !c {
				return false, r
			}
		}
		return true, ""
	}
	if len(b) < 2 {
		return ""
	}
	nb := int(binary.BigEndian.Uint16(b))
	off = 2
	steps := []func() (bool, string){
		func() (bool, string) { return okPoint(g1Size, true) }, slice, slice,
		func() (bool, string) { return okPoint(g2Size, false) },
	}
	for i := 0; i < nb; i++ {
		steps = append(steps, slice)
	}
	for _, st := range steps {
		if c, r := st(); !c {
			return r
		}
	}
	return ""
}

// ---------------------------------------------------------------- phase 1

func writeP1(o any) []byte {
	var bb bytes.Buffer
	if _, err := o.(*mpcsetup.Phase1).WriteTo(&bb); err != nil {
		panic(err)
	}
	return bb.Bytes()
}

func readP1(b []byte) (any, error) {
	p := new(mpcsetup.Phase1)
	err := guard(func() error {
		n, err := p.ReadFrom(bytes.NewReader(b))
		if err == nil && int(n) != len(b) {
			return fmt.Errorf("decoded %d of %d bytes", n, len(b))
		}
		return err
	})
	return p, err
}

var beacon1, beacon2 = []byte("verif C18 phase1 beacon"), []byte("verif C18 phase2 beacon")

func phase1(N int) *c18k.Phase {
	ph := &c18k.Phase{
		Name: fmt.Sprintf("%s:p1:N=%d", curveName, N), Kind: "p1",
		NewInit: func() any { return mpcsetup.NewPhase1(uint64(N)) },
		Read:    readP1, Write: writeP1, Layout: layoutP1, PointEdit: pointEdit,
		Verify: func(prev, next any) error {
			return guard(func() error { return prev.(*mpcsetup.Phase1).Verify(next.(*mpcsetup.Phase1)) })
		},
		VerifyAll: func(seq []any) error {
			ps := make([]*mpcsetup.Phase1, len(seq))
			for i := range seq {
				ps[i] = seq[i].(*mpcsetup.Phase1)
			}
			return guard(func() error { _, err := mpcsetup.VerifyPhase1(uint64(N), beacon1, ps...); return err })
		},
	}
	ph.InitBytes = writeP1(ph.NewInit())
	for _, tr := range []struct {
		t byte
		n int
	}{{'a', 3}, {'b', 2}} {
		var cur *mpcsetup.Phase1
		for i := 1; i <= tr.n; i++ {
			var nxt *mpcsetup.Phase1
			if i == 1 {
				nxt = mpcsetup.NewPhase1(uint64(N))
			} else {
				o, err := readP1(writeP1(cur))
				if err != nil {
					panic(err)
				}
				nxt = o.(*mpcsetup.Phase1)
			}
			nxt.Contribute()
			ph.Pool = append(ph.Pool, c18k.Contribution{ID: fmt.Sprintf("%c%d", tr.t, i), Bytes: writeP1(nxt), Mem: nxt})
			cur = nxt
		}
	}
	return ph
}

// commonsOf runs the real VerifyPhase1 on fresh copies of an honest chain.
func commonsOf(ph *c18k.Phase, N int, chain []string) (mpcsetup.SrsCommons, error) {
	ps := make([]*mpcsetup.Phase1, len(chain))
	for i, id := range chain {
		for _, p := range ph.Pool {
			if p.ID == id {
				o, err := readP1(p.Bytes)
				if err != nil {
					return mpcsetup.SrsCommons{}, err
				}
				ps[i] = o.(*mpcsetup.Phase1)
			}
		}
	}
	var res mpcsetup.SrsCommons
	err := guard(func() (err error) { res, err = mpcsetup.VerifyPhase1(uint64(N), beacon1, ps...); return })
	return res, err
}

// ---------------------------------------------------------------- circuits

// family member: k commitments; statement: m >= 0: P0 = chain of m multiplications starting
// from S0*S1; m = -1: P0 != S0 (one constraint); diff: the
// commitments are used in a constraint (sum != 0).  Public P0, secrets S0, S1.
func define(k, m int, diff bool) func(api frontend.API, p, s []frontend.Variable) error {
	return func(api frontend.API, p, s []frontend.Variable) error {
		if m == coefCircuit {
			// every specialised coefficient (1, 2, -1, generic) on the L, R and O side, wires repeated on each side
			u := api.Mul(s[0], s[1])
			v := api.Mul(api.Mul(s[0], 2), api.Add(s[1], s[1]))
			w := api.Mul(api.Neg(s[0]), api.Sub(api.Mul(s[1], 3), s[0]))
			z := api.Mul(api.Add(s[0], s[0], s[1]), api.Sub(s[1], s[0]))
			api.AssertIsEqual(p[0], api.Add(api.Mul(u, 2), api.Neg(v), api.Mul(w, 5), z, s[1]))
		} else if m < 0 {
			api.AssertIsDifferent(p[0], s[0])
		} else {
			t := api.Mul(s[0], s[1])
			for j := 0; j < m; j++ {
				t = api.Mul(t, api.Add(t, s[0]))
			}
			api.AssertIsEqual(t, p[0])
		}
		if k >= 1 {
			cm := api.(frontend.Committer)
			c1, err := cm.Commit(s[0], p[0])
			if err != nil {
				return err
			}
			sum := c1
			if k >= 2 {
				c2, err := cm.Commit(s[1])
				if err != nil {
					return err
				}
				sum = api.Add(c1, api.Mul(c2, 2))
			}
			if diff {
				api.AssertIsDifferent(sum, 0)
			}
		}
		return nil
	}
}

// coefCircuit: the member of the family whose constraints carry coefficients 1, 2, -1 and generic
// ones on every side (the key evaluation has a specialised path per coefficient kind).
const coefCircuit = -2

func refEval(m int, s0, s1 *big.Int) *big.Int {
	q := CurveID.ScalarField()
	if m == coefCircuit {
		mul := func(a, b *big.Int) *big.Int { return new(big.Int).Mul(a, b) }
		u := mul(s0, s1)
		v := mul(mul(s0, big.NewInt(2)), new(big.Int).Add(s1, s1))
		w := mul(new(big.Int).Neg(s0), new(big.Int).Sub(mul(s1, big.NewInt(3)), s0))
		z := mul(new(big.Int).Add(new(big.Int).Add(s0, s0), s1), new(big.Int).Sub(s1, s0))
		r := mul(u, big.NewInt(2))
		r.Sub(r, v).Add(r, mul(w, big.NewInt(5))).Add(r, z).Add(r, s1)
		return r.Mod(r, q)
	}
	if m < 0 {
		return big.NewInt(7)
	}
	t := new(big.Int).Mul(s0, s1)
	t.Mod(t, q)
	for j := 0; j < m; j++ {
		u := new(big.Int).Add(t, s0)
		t.Mul(t, u).Mod(t, q)
	}
	return t
}

type circuit struct {
	k, m, nbCons int
	diff         bool
	ccs          *cs.R1CS
}

func (ci *circuit) String() string {
	return fmt.Sprintf("k=%d commitments (used in a constraint: %v), statement m=%d, %d constraints", ci.k, ci.diff, ci.m, ci.nbCons)
}

// pickCircuit returns the largest family member with k commitments and at most N constraints.
func pickCircuit(N, k int) *circuit {
	var best *circuit
	try := func(m int, diff bool) bool {
		if k == 0 && (m < 0 || diff) {
			return true
		}
		ccs, err := frontend.Compile(CurveID.ScalarField(), r1cs.NewBuilder, circ.New(1, 2, define(k, m, diff)), frontend.IgnoreUnconstrainedInputs())
		if err != nil {
			panic(err)
		}
		n := ccs.GetNbConstraints()
		if n > N {
			return false
		}
		if best == nil || n >= best.nbCons {
			best = &circuit{k: k, m: m, diff: diff, nbCons: n, ccs: ccs.(*cs.R1CS)}
		}
		return true
	}
	try(-1, false)
	try(-1, true)
	for m := 0; m <= N; m++ {
		if !try(m, k > 0) {
			break
		}
	}
	return best
}

// ---------------------------------------------------------------- phase 2

func writeP2(o any) []byte {
	var bb bytes.Buffer
	if _, err := o.(*mpcsetup.Phase2).WriteTo(&bb); err != nil {
		panic(err)
	}
	return bb.Bytes()
}

func readP2(b []byte) (any, error) {
	p := new(mpcsetup.Phase2)
	err := guard(func() error {
		n, err := p.ReadFrom(bytes.NewReader(b))
		if err == nil && int(n) != len(b) {
			return fmt.Errorf("decoded %d of %d bytes", n, len(b))
		}
		return err
	})
	return p, err
}

func phase2(N int, ci *circuit, commons *mpcsetup.SrsCommons, tag string, full bool) *c18k.Phase {
	ph := &c18k.Phase{
		Name: fmt.Sprintf("%s:p2:N=%d:k=%d%s", curveName, N, ci.k, tag), Kind: "p2",
		NewInit: func() any { p := new(mpcsetup.Phase2); p.Initialize(ci.ccs, commons); return p },
		Read:    readP2, Write: writeP2, Layout: layoutP2, PointEdit: pointEdit, Unsafe: unsafeP2,
		Verify: func(prev, next any) error {
			return guard(func() error { return prev.(*mpcsetup.Phase2).Verify(next.(*mpcsetup.Phase2)) })
		},
		VerifyAll: func(seq []any) error {
			ps := make([]*mpcsetup.Phase2, len(seq))
			for i := range seq {
				ps[i] = seq[i].(*mpcsetup.Phase2)
			}
			return guard(func() error { _, _, err := mpcsetup.VerifyPhase2(ci.ccs, commons, beacon2, ps...); return err })
		},
	}
	ph.InitBytes = writeP2(ph.NewInit())
	trs := []struct {
		t byte
		n int
	}{{'a', 3}, {'b', 2}}
	if !full {
		trs = trs[:1]
		trs[0].n = 1
	}
	for _, tr := range trs {
		var cur *mpcsetup.Phase2
		for i := 1; i <= tr.n; i++ {
			var nxt *mpcsetup.Phase2
			if i == 1 {
				nxt = ph.NewInit().(*mpcsetup.Phase2)
			} else {
				o, err := readP2(writeP2(cur))
				if err != nil {
					panic(err)
				}
				nxt = o.(*mpcsetup.Phase2)
			}
			nxt.Contribute()
			ph.Pool = append(ph.Pool, c18k.Contribution{ID: fmt.Sprintf("%c%d", tr.t, i), Bytes: writeP2(nxt), Mem: nxt})
			cur = nxt
		}
	}
	return ph
}

// ---------------------------------------------------------------- O: extracted keys work

func checkKeys(c *vh.Check, name string, N int, ci *circuit, commons *mpcsetup.SrsCommons, ph *c18k.Phase, chain []string) {
	key := fmt.Sprintf("O:%s:chain2=%v", name, chain)
	ps := make([]*mpcsetup.Phase2, len(chain))
	for i, id := range chain {
		for _, p := range ph.Pool {
			if p.ID == id {
				o, err := readP2(p.Bytes)
				if err != nil {
					c.Fatal("%s: %v", key, err)
				}
				ps[i] = o.(*mpcsetup.Phase2)
			}
		}
	}
	var pk *groth16.ProvingKey
	var vk *groth16.VerifyingKey
	err := guard(func() error {
		p, v, err := mpcsetup.VerifyPhase2(ci.ccs, commons, beacon2, ps...)
		if err == nil {
			pk, vk = p.(*groth16.ProvingKey), v.(*groth16.VerifyingKey)
		}
		return err
	})
	c.Evals.Add(1)
	if err != nil {
		c.Violation(key+":honest-chain-rejected", map[string]any{"error": err.Error()})
		return
	}
	s0, s1 := big.NewInt(1), big.NewInt(5)
	y := refEval(ci.m, s0, s1)
	w, err := frontend.NewWitness(circ.Assign([]*big.Int{y}, []*big.Int{s0, s1}), CurveID.ScalarField())
	if err != nil {
		c.Fatal("witness: %v", err)
	}
	pubW, _ := w.Public()
	pub := pubW.Vector().(fr.Vector)
	var proof *groth16.Proof
	err = guard(func() (err error) { proof, err = groth16.Prove(ci.ccs, pk, w); return })
	c.Evals.Add(1)
	if err != nil {
		c.Violation(key+":prove-failed", map[string]any{"error": err.Error(), "constraints": ci.nbCons, "N": N})
		return
	}
	err = guard(func() error { return groth16.Verify(proof, vk, pub) })
	c.Evals.Add(1)
	c.Traces.Add(1)
	if err != nil {
		c.Violation(key+":valid-proof-rejected", map[string]any{"error": err.Error(), "constraints": ci.nbCons, "N": N})
		return
	}
	// wrong statement with the same proof
	bad := append(fr.Vector(nil), pub...)
	one := fr.One()
	bad[0].Add(&bad[0], &one)
	err = guard(func() error { return groth16.Verify(proof, vk, bad) })
	c.Evals.Add(1)
	if err == nil {
		c.Violation(key+":wrong-statement-accepted", map[string]any{"public": bad[0].String()})
	} else if err.Error()[:min(6, len(err.Error()))] == "panic:" {
		c.Violation(key+":verify-panic", map[string]any{"error": err.Error()})
	}
	// invalid witness: the prover must not produce a proof
	y1, bs0 := new(big.Int).Add(y, big.NewInt(1)), s0
	if ci.m < 0 {
		y1, bs0 = y, y // the statement is "P0 != S0"
	}
	wBad, _ := frontend.NewWitness(circ.Assign([]*big.Int{y1}, []*big.Int{bs0, s1}), CurveID.ScalarField())
	var p2 *groth16.Proof
	err = guard(func() (err error) { p2, err = groth16.Prove(ci.ccs, pk, wBad); return })
	c.Evals.Add(1)
	if err == nil {
		pb, _ := wBad.Public()
		if verr := guard(func() error { return groth16.Verify(p2, vk, pb.Vector().(fr.Vector)) }); verr == nil {
			c.Violation(key+":invalid-witness-proved", map[string]any{})
		}
	}
	c.Outcome(fmt.Sprintf("O:k=%d:len2=%d:keys-prove-and-verify;wrong-statement-rejected", ci.k, len(chain)))
}

var chains = [][]string{{}, {"a1"}, {"a1", "a2"}, {"a1", "a2", "a3"}, {"b1"}, {"b1", "b2"}}

// Run executes H, E, O for this curve.
func Run(c *vh.Check, o c18k.Opts) {
	type unit struct {
		name string
		f    func()
	}
	var units []unit
	var sampleOnce sync.Once
	for _, N := range o.Ns {
		N := N
		p1 := phase1(N)
		if c.Want("H") && o.Wants("H") {
			units = append(units, unit{p1.Name + ":H", func() { c18k.RunH(c, p1, o.SeqLen) }})
		}
		if c.Want("E") && o.Wants("E") {
			units = append(units, unit{p1.Name + ":E", func() { c18k.RunE(c, p1, o) }})
		}
		// phase 2 on the commons of every accepted phase-1 chain
		mainCommons, err := commonsOf(p1, N, chains[3])
		if err != nil {
			c.Violation(fmt.Sprintf("O:%s:chain1=%v:honest-chain-rejected", p1.Name, chains[3]), map[string]any{"error": err.Error()})
			continue
		}
		if N >= 8 && c.Want("O") && o.Wants("O") {
			mc1 := mainCommons
			units = append(units, unit{fmt.Sprintf("%s:coefficient-kinds", p1.Name), func() { coefficientKinds(c, N, mc1) }})
		}
		if N >= 4 && c.Want("O") && o.Wants("O") {
			mc0 := mainCommons
			units = append(units, unit{fmt.Sprintf("%s:reused-powers", p1.Name), func() { reusedPowers(c, o, N, p1, mc0) }})
		}
		for _, k := range o.Ks {
			ci := pickCircuit(N, k)
			if ci == nil {
				c.Count("skipped", fmt.Sprintf("%s:N=%d:k=%d:no-family-member-fits", curveName, N, k), 1)
				continue
			}
			mc := mainCommons
			p2 := phase2(N, ci, &mc, "", true)
			c.Count("circuit-constraints", p2.Name, int64(ci.nbCons))
			if c.Want("H") && o.Wants("H") {
				units = append(units, unit{p2.Name + ":H", func() { c18k.RunH(c, p2, o.SeqLen) }})
			}
			if c.Want("E") && o.Wants("E") {
				units = append(units, unit{p2.Name + ":E", func() { c18k.RunE(c, p2, o) }})
			}
			if c.Want("O") && o.Wants("O") {
				units = append(units, unit{p2.Name + ":O", func() {
					for _, ch := range chains {
						checkKeys(c, fmt.Sprintf("%s:chain1=%v", p2.Name, chains[3]), N, ci, &mc, p2, ch)
					}
					sampleOnce.Do(func() {
						c.Sample(map[string]any{"check": "O", "phase1_chain": chains[3], "phase2_chains": fmt.Sprint(chains), "circuit": fmt.Sprintf("%v, N=%d", ci, N), "verdict": "extracted keys prove and verify; wrong statement and invalid witness rejected"})
					})
					for _, ch1 := range chains {
						if len(ch1) == 3 {
							continue
						}
						cm, err := commonsOf(p1, N, ch1)
						c.Evals.Add(1)
						if err != nil {
							c.Violation(fmt.Sprintf("O:%s:chain1=%v:honest-chain-rejected", p1.Name, ch1), map[string]any{"error": err.Error()})
							continue
						}
						q := phase2(N, ci, &cm, "", false)
						checkKeys(c, fmt.Sprintf("%s:chain1=%v", q.Name, ch1), N, ci, &cm, q, []string{"a1"})
					}
				}})
			}
		}
	}
	ok := c.Par(len(units), func(i int) { units[i].f() })
	if !ok {
		c.Cap(curveName + ": deadline before all (phase, N, k) units were started")
	}
}

// coefficientKinds: the keys of honest chains for the circuit with every coefficient kind on every side.
func coefficientKinds(c *vh.Check, N int, mainCommons mpcsetup.SrsCommons) {
	ccs, err := frontend.Compile(CurveID.ScalarField(), r1cs.NewBuilder, circ.New(1, 2, define(0, coefCircuit, false)), frontend.IgnoreUnconstrainedInputs())
	if err != nil {
		c.Fatal("coefficient circuit: %v", err)
	}
	ci := &circuit{k: 0, m: coefCircuit, nbCons: ccs.GetNbConstraints(), ccs: ccs.(*cs.R1CS)}
	if ci.nbCons > N {
		return
	}
	mc := mainCommons
	q := phase2(N, ci, &mc, fmt.Sprintf(":coefficient-kinds(%d constraints)", ci.nbCons), false)
	for _, ch := range [][]string{{}, {"a1"}} {
		checkKeys(c, fmt.Sprintf("%s:chain1=%v", q.Name, chains[3]), N, ci, &mc, q, ch)
	}
	c.Outcome(fmt.Sprintf("O:coefficient-kinds:N=%d", N))
}

// reusedPowers: generic powers of tau reused for a SMALLER circuit (phase-1 domain N strictly larger
// than the circuit's own domain): the keys extracted from honest chains must still prove and verify.
func reusedPowers(c *vh.Check, o c18k.Opts, N int, p1 *c18k.Phase, mainCommons mpcsetup.SrsCommons) {
	for _, k := range o.Ks {
		for _, n2 := range []int{N / 2, N / 4} {
			if n2 < 1 {
				continue
			}
			ci := pickCircuit(n2, k)
			if ci == nil || int(ecc.NextPowerOfTwo(uint64(ci.nbCons))) >= N {
				continue
			}
			mc := mainCommons
			q := phase2(N, ci, &mc, fmt.Sprintf(":reused(%d constraints)", ci.nbCons), false)
			for _, ch := range [][]string{{}, {"a1"}} {
				checkKeys(c, fmt.Sprintf("%s:chain1=%v", q.Name, chains[3]), N, ci, &mc, q, ch)
			}
			c.Outcome(fmt.Sprintf("O:reused-powers:N=%d:circuit-domain=%d", N, ecc.NextPowerOfTwo(uint64(ci.nbCons))))
			c.Count("reused-powers", fmt.Sprintf("%s:N=%d:k=%d:constraints=%d", curveName, N, k, ci.nbCons), 1)
		}
	}
}
