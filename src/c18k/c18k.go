// Package c18k is the curve-independent part of check C18: the ceremony verifier seen as a
// protocol state machine (state = last accepted contribution, transition = the REAL Verify),
// the reference machine, exhaustive sequence enumeration (H) and the edit alphabet over
// serialized contributions (E).  The per-curve kits (c18k/<curve>, derived from the bn254
// template by src/cmd/c18/gen.sh) build the honest pools and supply the closures.
package c18k

import (
	"bytes"
	"fmt"
	"sort"
	"strings"
	"sync"

	"github.com/consensys/gnark/internal/verifh/vh"
)

// Opts selects the bounds of one run.
type Opts struct {
	Ns       []int // domain sizes
	Ks       []int // numbers of commitments in the circuit
	SeqLen   int   // maximal length of an offer sequence
	Pairs    bool  // two simultaneous departures (small layouts only)
	PairSlot int   // pairs only for layouts with at most that many group elements
	Sub      string // "" = all of H, E, O; otherwise the sub-checks to run, e.g. "H" or "E"
}

// Wants reports whether sub-check x is selected by the options.
func (o Opts) Wants(x string) bool { return o.Sub == "" || strings.Contains(o.Sub, x) }

// Kit is one curve.
type Kit struct {
	Curve string
	Run   func(c *vh.Check, o Opts)
}

var (
	kmu  sync.Mutex
	kits = map[string]Kit{}
)

func Register(k Kit) { kmu.Lock(); kits[k.Curve] = k; kmu.Unlock() }
func Get(curve string) (Kit, bool) {
	kmu.Lock()
	defer kmu.Unlock()
	k, ok := kits[curve]
	return k, ok
}
func Curves() []string {
	kmu.Lock()
	defer kmu.Unlock()
	var s []string
	for k := range kits {
		s = append(s, k)
	}
	sort.Strings(s)
	return s
}

// Contribution is one honest contribution of the pool.
type Contribution struct {
	ID    string // "a1".."a3", "b1","b2"
	Bytes []byte // WriteTo image
	Mem   any    // the object Contribute() was called on (never serialized itself)
}

// Pred is the reference machine: the state in which contribution id extends the chain.
func Pred(id string) string {
	if id[1] == '1' {
		return ""
	}
	return fmt.Sprintf("%c%c", id[0], id[1]-1)
}

// Slot is one field of the serialized image.
type Slot struct {
	Off, Size int
	Kind      string // "G1", "G2", "len" (big-endian counter), "chal" (challenge bytes, Off = first byte after the length byte)
	Name      string // e.g. "params.G1.Tau[3]"
	Class     string // coarse class for outcome statistics, e.g. "params.G1.Tau"
}

// Phase is one protocol phase instantiated for one (curve, N, circuit).
type Phase struct {
	Name      string // canonical: "<curve>:p1:N=4" / "<curve>:p2:N=4:k=1"
	Kind      string // "p1" | "p2"
	InitBytes []byte
	NewInit   func() any
	Read      func(b []byte) (any, error)    // ReadFrom; a panic is returned as error "panic: ..."
	Write     func(o any) []byte             // WriteTo
	Verify    func(prev, next any) error     // prev.Verify(next); a panic is returned as error "panic: ..."
	VerifyAll func(seq []any) error          // VerifyPhase1 / VerifyPhase2 on the whole sequence
	Layout    func(b []byte) ([]Slot, error) // harness-side parser of the image
	PointEdit func(kind string, orig []byte, edit string) []byte
	Unsafe    func(b []byte) string // non-empty: the real decoder would allocate without bound on this image (not executed)
	Pool      []Contribution
}

func (p *Phase) byID(id string) *Contribution {
	for i := range p.Pool {
		if p.Pool[i].ID == id {
			return &p.Pool[i]
		}
	}
	return nil
}

func isPanic(err error) bool { return err != nil && strings.HasPrefix(err.Error(), "panic:") }

func errClass(err error) string {
	if err == nil {
		return "accepted"
	}
	s := err.Error()
	switch {
	case strings.HasPrefix(s, "panic:"):
		return "panic"
	case strings.Contains(s, "challenge does not match"):
		return "rej-challenge"
	case strings.Contains(s, "size mismatch"):
		return "rej-size"
	case strings.Contains(s, "subgroup"):
		return "rej-subgroup"
	case strings.Contains(s, "zero contribution"):
		return "rej-zero-contribution"
	case strings.Contains(s, "proof of knowledge"):
		return "rej-pok"
	case strings.Contains(s, "g1 update"):
		return "rej-g1-update"
	case strings.Contains(s, "g2 update"):
		return "rej-g2-update"
	case strings.Contains(s, "pairing mismatch"):
		return "rej-ratio"
	case strings.Contains(s, "length mismatch"):
		return "rej-length"
	case strings.Contains(s, "nonzero representative"), strings.Contains(s, "length at least 2"):
		return "rej-degenerate"
	}
	return "rej-other"
}

// ---------------------------------------------------------------- H: offer sequences

// sequences enumerates all sequences of length 1..L over n symbols.
func sequences(n, L int) [][]int {
	var out [][]int
	var rec func(cur []int)
	rec = func(cur []int) {
		if len(cur) > 0 {
			out = append(out, append([]int(nil), cur...))
		}
		if len(cur) == L {
			return
		}
		for i := 0; i < n; i++ {
			rec(append(cur, i))
		}
	}
	rec(nil)
	return out
}

type hstats struct {
	mu     sync.Mutex
	states map[string]bool
}

func (h *hstats) state(path string) {
	h.mu.Lock()
	h.states[path] = true
	h.mu.Unlock()
}

// RunH enumerates every offer sequence of length <= L (fresh copies: 5 symbols in parallel;
// shared objects: 10 symbols, in-memory and decoded forms, sequentially) and compares every
// verdict of the real Verify with the reference machine.
func RunH(c *vh.Check, ph *Phase, L int) {
	st := &hstats{states: map[string]bool{"": true}}
	ids := make([]string, len(ph.Pool))
	for i := range ph.Pool {
		ids[i] = ph.Pool[i].ID
	}
	sampled := false
	var smu sync.Mutex

	runSeq := func(mode string, names []string, next func(i int) any, initObj any) (allAccepted bool, objs []any) {
		state, stateObj, path := "", initObj, ""
		allAccepted = true
		var verdicts []string
		for k, nm := range names {
			id := nm[:2]
			obj := next(k)
			objs = append(objs, obj)
			want := Pred(id) == state
			err := ph.Verify(stateObj, obj)
			c.Evals.Add(1)
			c.Transitions.Add(1)
			c.Traces.Add(1)
			key := fmt.Sprintf("H:%s:%s:seq=%s:offer#%d", ph.Name, mode, strings.Join(names, ","), k+1)
			det := map[string]any{"phase": ph.Name, "mode": mode, "sequence": names, "offer": k + 1, "state_before": "[" + path + "]", "reference_accepts": want, "real_error": fmt.Sprint(err)}
			switch {
			case isPanic(err):
				c.Violation(key+":panic", det)
				return false, objs
			case err == nil && !want:
				c.Violation(key+":accepted-outside-honest-chain", det)
			case err != nil && want:
				c.Violation(key+":honest-extension-rejected", det)
			}
			cls := "reject"
			if err == nil {
				cls = "accept"
			}
			posn := "wrong-state"
			if want {
				posn = "extends-state"
			}
			c.Outcome(fmt.Sprintf("H:%s:%s:%s:%s:%s", ph.Kind, mode, posn, cls, errClass(err)))
			verdicts = append(verdicts, errClass(err))
			if err == nil {
				state, stateObj = id, obj
				if path == "" {
					path = id
				} else {
					path += ">" + id
				}
				st.state(path)
			} else {
				allAccepted = false
			}
		}
		smu.Lock()
		if !sampled && len(names) == L && names[0] == "a2" {
			sampled = true
			c.Sample(map[string]any{"check": "H", "phase": ph.Name, "mode": mode, "offers": names, "verdicts": verdicts, "final_state": "[" + path + "]"})
		}
		smu.Unlock()
		return
	}

	// ---- fresh copies, every offer decoded anew; plus the top-level VerifyPhaseN on the sequence
	seqs := sequences(len(ids), L)
	ok := c.Par(len(seqs), func(i int) {
		names := make([]string, len(seqs[i]))
		for k, s := range seqs[i] {
			names[k] = ids[s]
		}
		fresh := func(k int) any {
			o, err := ph.Read(ph.byID(names[k]).Bytes)
			if err != nil {
				c.Fatal("%s: honest contribution %s does not decode: %v", ph.Name, names[k], err)
			}
			return o
		}
		init0, err := ph.Read(ph.InitBytes)
		if err != nil {
			c.Fatal("%s: initial object does not decode: %v", ph.Name, err)
		}
		all, _ := runSeq("fresh", names, fresh, init0)
		// top level entry point on fresh copies
		objs := make([]any, len(names))
		for k := range names {
			objs[k] = fresh(k)
		}
		err = ph.VerifyAll(objs)
		c.Evals.Add(1)
		c.Traces.Add(1)
		key := fmt.Sprintf("H:%s:toplevel:seq=%s", ph.Name, strings.Join(names, ","))
		det := map[string]any{"phase": ph.Name, "sequence": names, "reference_accepts": all, "real_error": fmt.Sprint(err)}
		switch {
		case isPanic(err):
			c.Violation(key+":panic", det)
		case err == nil && !all:
			c.Violation(key+":accepted-outside-honest-chain", det)
		case err != nil && all:
			c.Violation(key+":honest-chain-rejected", det)
		}
		c.Outcome(fmt.Sprintf("H:%s:toplevel:%v:%s", ph.Kind, all, errClass(err)))
	})
	if !ok {
		c.Cap(ph.Name + ": deadline during fresh-copy sequences")
		return
	}

	// ---- shared objects: one object per (contribution, form) for the whole enumeration
	type form struct {
		name string
		obj  any
	}
	var forms []form
	for i := range ph.Pool {
		p := &ph.Pool[i]
		d, err := ph.Read(p.Bytes)
		if err != nil {
			c.Fatal("%s: %s does not decode", ph.Name, p.ID)
		}
		forms = append(forms, form{p.ID + "/mem", p.Mem}, form{p.ID + "/dec", d})
	}
	initShared := ph.NewInit()
	sseqs := sequences(len(forms), L)
	for _, s := range sseqs {
		if c.Expired() {
			c.Cap(ph.Name + ": deadline during shared-object sequences")
			return
		}
		names := make([]string, len(s))
		for k, x := range s {
			names[k] = forms[x].name
		}
		runSeq("shared", names, func(k int) any { return forms[s[k]].obj }, initShared)
	}
	// the enumeration must not have changed any object
	for _, f := range forms {
		if !bytes.Equal(ph.Write(f.obj), ph.byID(f.name[:2]).Bytes) {
			c.Violation(fmt.Sprintf("H:%s:shared:object-mutated:%s", ph.Name, f.name), map[string]any{"phase": ph.Name, "object": f.name})
		}
	}
	if !bytes.Equal(ph.Write(initShared), ph.InitBytes) {
		c.Violation(fmt.Sprintf("H:%s:shared:object-mutated:init", ph.Name), map[string]any{"phase": ph.Name})
	}
	// informational (outside the property statement): Verify stores the recomputed challenge in
	// `next` BEFORE checking it, so a contribution whose Challenge field is absent is altered by an
	// offer in the wrong state
	if a1, a2 := ph.byID("a1"), ph.byID("a2"); a1 != nil && a2 != nil {
		if eb := emptiedChallenge(ph, a2); eb != nil {
			obj, err := ph.Read(eb)
			i0, _ := ph.Read(ph.InitBytes)
			p1, _ := ph.Read(a1.Bytes)
			if err == nil && ph.Verify(i0, obj) != nil {
				if err2 := ph.Verify(p1, obj); err2 != nil {
					c.Outcome("H:" + ph.Kind + ":absent-challenge-object:rejected-offer-changes-later-verdict(info)")
					c.Count("info", "contribution with absent Challenge: rejected offer in the wrong state overwrote the field; later offer in the right state failed: "+errClass(err2), 1)
				} else {
					c.Outcome("H:" + ph.Kind + ":absent-challenge-object:unaffected-by-rejected-offer")
				}
			}
		}
	}
	c.States.Add(int64(len(st.states)))
	c.Count("H-states", ph.Name, int64(len(st.states)))
	c.Count("H-sequences", ph.Name, int64(len(seqs)+len(sseqs)))
}

// ---------------------------------------------------------------- E: edits of serialized contributions

type ecase struct {
	desc  string // canonical description of the departure(s)
	class string
	b     []byte
	equiv bool // the departure leaves an equivalent contribution (emptied challenge): must be accepted and normalised
	nslot int
	slot  int
}

var pointEdits = []string{"inf", "gen", "neg", "double", "plusTorsion", "nonsubgroup"} // the last two only where the cofactor is > 1

// emptiedChallenge returns the image of x with the Challenge field removed (length byte 0).
func emptiedChallenge(ph *Phase, x *Contribution) []byte {
	slots, err := ph.Layout(x.Bytes)
	if err != nil {
		return nil
	}
	for _, s := range slots {
		if s.Kind == "chal" && s.Size > 0 {
			e := append([]byte(nil), x.Bytes[:s.Off-1]...)
			e = append(e, 0)
			return append(e, x.Bytes[s.Off+s.Size:]...)
		}
	}
	return nil
}

func singleEdits(c *vh.Check, ph *Phase, x, other *Contribution) (cases []ecase, nPoints int) {
	slots, err := ph.Layout(x.Bytes)
	if err != nil {
		c.Fatal("%s: layout of %s: %v", ph.Name, x.ID, err)
	}
	oslots, err := ph.Layout(other.Bytes)
	if err != nil || len(oslots) != len(slots) {
		c.Fatal("%s: layout of %s differs from %s", ph.Name, other.ID, x.ID)
	}
	put := func(off int, nb []byte) []byte {
		b := append([]byte(nil), x.Bytes...)
		copy(b[off:], nb)
		return b
	}
	for i, s := range slots {
		orig := x.Bytes[s.Off : s.Off+s.Size]
		add := func(edit string, nb []byte) {
			if nb == nil || bytes.Equal(nb, orig) {
				return
			}
			cl := edit
			if k := strings.IndexByte(cl, '('); k > 0 {
				cl = cl[:k]
			}
			cases = append(cases, ecase{desc: s.Name + "<-" + edit, class: s.Class + ":" + cl, b: put(s.Off, nb), slot: i})
		}
		switch s.Kind {
		case "G1", "G2":
			nPoints++
			for _, e := range pointEdits {
				add(e, ph.PointEdit(s.Kind, orig, e))
			}
			// neighbouring element of the same group (cyclic)
			for d := 1; d < len(slots); d++ {
				t := slots[(i+d)%len(slots)]
				if t.Kind == s.Kind {
					add("neighbour("+t.Name+")", x.Bytes[t.Off:t.Off+t.Size])
					break
				}
			}
			add("other-transcript("+other.ID+")", other.Bytes[oslots[i].Off:oslots[i].Off+oslots[i].Size])
		case "len":
			for _, d := range []int{+1, -1} {
				nb := append([]byte(nil), orig...)
				// big-endian +-1
				for k := len(nb) - 1; k >= 0; k-- {
					if d > 0 {
						nb[k]++
						if nb[k] != 0 {
							break
						}
					} else {
						nb[k]--
						if nb[k] != 0xff {
							break
						}
					}
				}
				cases = append(cases, ecase{desc: fmt.Sprintf("%s%+d", s.Name, d), class: s.Class + ":len+-1", b: put(s.Off, nb), slot: i})
			}
		case "chal":
			if s.Size == 0 {
				continue
			}
			for _, pos := range []int{0, s.Size / 2, s.Size - 1} {
				nb := append([]byte(nil), orig...)
				nb[pos] ^= 1
				cases = append(cases, ecase{desc: fmt.Sprintf("challenge[%d]^=1", pos), class: "challenge:flip", b: put(s.Off, nb), slot: i})
			}
			if oc := other.Bytes[oslots[i].Off : oslots[i].Off+oslots[i].Size]; len(oc) == s.Size && !bytes.Equal(oc, orig) {
				cases = append(cases, ecase{desc: "challenge<-other-transcript", class: "challenge:other", b: put(s.Off, oc), slot: i})
			}
			// emptied: length byte 0, no bytes
			e := append([]byte(nil), x.Bytes[:s.Off-1]...)
			e = append(e, 0)
			e = append(e, x.Bytes[s.Off+s.Size:]...)
			cases = append(cases, ecase{desc: "challenge<-empty", class: "challenge:empty", b: e, equiv: true, slot: i})
		}
	}
	return cases, nPoints
}

// RunE offers every edited image of every pool contribution in the state where the genuine
// one is accepted.
func RunE(c *vh.Check, ph *Phase, o Opts) {
	for xi := range ph.Pool {
		x := &ph.Pool[xi]
		oid := "b"
		if x.ID[0] == 'b' {
			oid = "a"
		}
		other := ph.byID(oid + x.ID[1:])
		if other == nil {
			other = ph.byID(oid + "2")
		}
		prevBytes := ph.InitBytes
		if p := Pred(x.ID); p != "" {
			prevBytes = ph.byID(p).Bytes
		}
		singles, nPoints := singleEdits(c, ph, x, other)
		cases := singles
		if o.Pairs && nPoints <= o.PairSlot {
			// two departures on different fields: splice the second edit into the first image
			for i := range singles {
				for j := i + 1; j < len(singles); j++ {
					a, b := singles[i], singles[j]
					if a.slot == b.slot || a.equiv || b.equiv || len(a.b) != len(x.Bytes) || len(b.b) != len(x.Bytes) {
						continue
					}
					if strings.Contains(a.class, "neighbour") || strings.Contains(b.class, "neighbour") || strings.Contains(a.class, ":inf") || strings.Contains(b.class, ":inf") {
						continue
					}
					nb := append([]byte(nil), a.b...)
					for k := range nb {
						if b.b[k] != x.Bytes[k] {
							nb[k] = b.b[k]
						}
					}
					cases = append(cases, ecase{desc: a.desc + "+" + b.desc, class: "pair", b: nb})
				}
			}
		}
		c.Count("E-cases", ph.Name+":"+x.ID, int64(len(cases)))
		var once sync.Once
		ok := c.Par(len(cases)+1, func(i int) {
			prev, err := ph.Read(prevBytes)
			if err != nil {
				c.Fatal("%s: predecessor of %s does not decode: %v", ph.Name, x.ID, err)
			}
			if i == len(cases) { // the genuine image, same path (non-vacuity of the accept side)
				g, err := ph.Read(x.Bytes)
				if err == nil {
					err = ph.Verify(prev, g)
				}
				c.Evals.Add(1)
				if err != nil {
					c.Violation(fmt.Sprintf("E:%s:%s:genuine-rejected", ph.Name, x.ID), map[string]any{"error": err.Error()})
				}
				c.Outcome("E:" + ph.Kind + ":genuine:accepted")
				return
			}
			cs := cases[i]
			key := fmt.Sprintf("E:%s:%s:%s", ph.Name, x.ID, cs.desc)
			det := map[string]any{"phase": ph.Name, "contribution": x.ID, "offered_in_state": "[" + Pred(x.ID) + "]", "departure": cs.desc}
			if ph.Unsafe != nil {
				if why := ph.Unsafe(cs.b); why != "" {
					c.Outcome("E:" + ph.Kind + ":" + cs.class + ":not-executed(decoder-would-allocate-unbounded)")
					c.Count("E-not-executed(decoder-would-allocate-unbounded)", ph.Kind+":"+cs.desc+":"+why[:strings.IndexByte(why+"=", '=')], 1)
					return
				}
			}
			obj, err := ph.Read(cs.b)
			c.Evals.Add(1)
			c.Transitions.Add(1)
			if err != nil {
				if isPanic(err) {
					det["error"] = err.Error()
					c.Violation(key+":decode-panic", det)
					return
				}
				c.Outcome("E:" + ph.Kind + ":" + cs.class + ":decode-error")
				return
			}
			verr := ph.Verify(prev, obj)
			c.Traces.Add(1)
			det["real_error"] = fmt.Sprint(verr)
			switch {
			case isPanic(verr):
				c.Violation(key+":verify-panic", det)
			case cs.equiv:
				// the verifier recomputes an absent challenge: the object must then be the genuine one
				if verr != nil {
					c.Outcome("E:" + ph.Kind + ":" + cs.class + ":" + errClass(verr))
				} else if !bytes.Equal(ph.Write(obj), x.Bytes) {
					c.Violation(key+":accepted-but-differs-from-genuine", det)
				} else {
					c.Outcome("E:" + ph.Kind + ":" + cs.class + ":accepted-recomputed-equals-genuine")
				}
			case verr == nil:
				c.Violation(key+":accepted", det)
			default:
				c.Outcome("E:" + ph.Kind + ":" + cs.class + ":" + errClass(verr))
				if strings.Contains(cs.class, "double") {
					once.Do(func() {
						c.Sample(map[string]any{"check": "E", "phase": ph.Name, "contribution": x.ID, "departure": cs.desc, "verdict": verr.Error()})
					})
				}
			}
		})
		if !ok {
			c.Cap(ph.Name + ": deadline during edits of " + x.ID)
			return
		}
	}
}
