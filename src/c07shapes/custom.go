package c07shapes

import "github.com/consensys/gnark/frontend"

// Limbs is a custom type with an init hook (like emulated.Element): the hook allocates the
// slice the parser then walks; visibility is inherited from the field that holds it.
type Limbs struct {
	L []frontend.Variable `gnark:",inherit"`
}

func (l *Limbs) GnarkInitHook() {
	if l.L == nil {
		l.L = make([]frontend.Variable, 2)
	}
}

type Custom struct {
	A Limbs `gnark:",public"`
	X frontend.Variable
	B Limbs
	C [2]Limbs `gnark:",secret"`
}

func (c *Custom) Define(api frontend.API) error {
	vals := []frontend.Variable{c.A.L[0], c.A.L[1], c.X, c.B.L[0], c.B.L[1], c.C[0].L[0], c.C[0].L[1], c.C[1].L[0], c.C[1].L[1]}
	for i, v := range vals {
		api.AssertIsEqual(v, 101+i)
	}
	return nil
}

func init() {
	Shapes = append(Shapes, Shape{Name: "Custom", Desc: "custom type with GnarkInitHook, inherit tag, array of custom types",
		New: func() frontend.Circuit { return new(Custom) },
		Assign: func(val func(i int) any) frontend.Circuit {
			c := new(Custom)
			c.A.L = []frontend.Variable{val(0), val(1)}
			c.X = val(2)
			c.B.L = []frontend.Variable{val(3), val(4)}
			c.C[0].L = []frontend.Variable{val(5), val(6)}
			c.C[1].L = []frontend.Variable{val(7), val(8)}
			return c
		}, NLeaves: 9, Public: []int{0, 1}, Secret: []int{2, 3, 4, 5, 6, 7, 8}})
}
