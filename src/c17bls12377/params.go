// Package c17bls12377 is the C17 kit for BLS12-377 proofs verified inside a BW6-761 circuit
// (native 2-chain).  params.go is hand-written per pairing; every other file of the package is
// the TEMPLATE from which src/c17gen/gen.sh derives the kits of the other pairings.
package c17bls12377

import (
	"github.com/consensys/gnark-crypto/ecc"
	"github.com/consensys/gnark/std/algebra/native/sw_bls12377"
)

type (
	G1El = sw_bls12377.G1Affine
	G2El = sw_bls12377.G2Affine
	GtEl = sw_bls12377.GT
	FR   = sw_bls12377.ScalarField
)

var (
	InnerID = ecc.BLS12_377
	OuterID = ecc.BW6_761
)

const (
	PairName = "bls12377-in-bw6761"
	flagMask = 0xE0 // flag bits of the compressed point encoding
	SubgroupChecks = true
	Emulated = false
)

