// THIS FILE IS THE TEMPLATE (see common.go).
package c17bls12377

import (
	"fmt"
	"math/big"
	"sync"
	"sync/atomic"

	curve "github.com/consensys/gnark-crypto/ecc/bls12-377"
	"github.com/consensys/gnark-crypto/ecc/bls12-377/fr"
	"github.com/consensys/gnark-crypto/ecc/bls12-377/kzg"
	"github.com/consensys/gnark/constraint/solver"
	"github.com/consensys/gnark/frontend"
	"github.com/consensys/gnark/internal/verifh/c17"
	"github.com/consensys/gnark/internal/verifh/vh"
	"github.com/consensys/gnark/std/algebra"
	stdkzg "github.com/consensys/gnark/std/commitments/kzg"
	"github.com/consensys/gnark/std/math/emulated"
	"github.com/consensys/gnark/std/recursion"
)

// ================================================================ KZG folding coefficients
//
// The native multi-point batch verifier folds the openings with a FRESH RANDOM coefficient; the
// in-circuit one derives it by Fiat-Shamir.  Accept sets coincide only if the derived coefficient
// depends on every prover-chosen component (digest, quotient, claimed value, point of every
// opening): a component the coefficient ignores can be chosen AFTER the coefficient is known.
//
//  (D) dependency: the exported FoldProofsMultiPoint is run (test engine) on a base input and on
//      the inputs with ONE component changed; from its two outputs and the known scalars the
//      harness computes lambda*Q for a point Q the change leaves alone; equal values = the
//      coefficient ignores the component.
//  (F) forgery: the two-pass adversary (knows the SRS trapdoor, as the harness generated it)
//      fixes wrong claimed values, learns lambda*E1 from a first run and then chooses quotient[0]
//      so that the folded pairing equation holds; BatchVerifyMultiPoints must reject (it does iff
//      the coefficient depends on quotient[0]); the native verifier rejects.
//  (G) single-point folding: FoldProof's outputs must equal gnark-crypto's kzg.FoldProof (both
//      derive gamma by Fiat-Shamir with the same short hash).

var (
	probeStore sync.Map // tag -> []*big.Int
	probeTag   atomic.Int64
)

func kzgRecordHint(_ *big.Int, in, out []*big.Int) error {
	vals := make([]*big.Int, len(in)-1)
	for i := range vals {
		vals[i] = new(big.Int).Set(in[i+1])
	}
	probeStore.Store(in[0].Int64(), vals)
	out[0].SetUint64(0)
	return nil
}

func init() { solver.RegisterHint(kzgRecordHint) }

type kzgFoldProbe struct {
	Vk      stdkzg.VerifyingKey[G1El, G2El]
	Digests []stdkzg.Commitment[G1El]
	Proofs  []stdkzg.OpeningProof[FR, G1El]
	Points  []emulated.Element[FR]
	tag     int64 `gnark:"-"`
}

func (o *kzgFoldProbe) Define(api frontend.API) error {
	v, err := stdkzg.NewVerifier[FR, G1El, G2El, GtEl](api)
	if err != nil {
		return err
	}
	fd, fq, err := v.FoldProofsMultiPoint(o.Digests, o.Proofs, o.Points, o.Vk)
	if err != nil {
		return err
	}
	cr, err := algebra.GetCurve[FR, G1El](api)
	if err != nil {
		return err
	}
	in := []frontend.Variable{o.tag}
	in = append(in, cr.MarshalG1(*fd)...)
	in = append(in, cr.MarshalG1(*fq)...)
	_, err = api.Compiler().NewHint(kzgRecordHint, 1, in...)
	return err
}

type kzgGammaProbe struct {
	Digests []stdkzg.Commitment[G1El]
	Proof   stdkzg.BatchOpeningProof[FR, G1El]
	Point   emulated.Element[FR]
	tag     int64 `gnark:"-"`
}

func (o *kzgGammaProbe) Define(api frontend.API) error {
	v, err := stdkzg.NewVerifier[FR, G1El, G2El, GtEl](api)
	if err != nil {
		return err
	}
	fp, fc, err := v.FoldProof(o.Digests, o.Proof, o.Point)
	if err != nil {
		return err
	}
	cr, err := algebra.GetCurve[FR, G1El](api)
	if err != nil {
		return err
	}
	in := []frontend.Variable{o.tag}
	in = append(in, cr.MarshalG1(fc.G1El)...)
	in = append(in, cr.MarshalG1(fp.Quotient)...)
	in = append(in, cr.MarshalScalar(fp.ClaimedValue)...)
	_, err = api.Compiler().NewHint(kzgRecordHint, 1, in...)
	return err
}

// bitsToInt: MSB-first bits.
func bitsToInt(b []*big.Int) *big.Int {
	r := new(big.Int)
	for _, x := range b {
		r.Lsh(r, 1)
		if x.Sign() != 0 {
			r.SetBit(r, 0, 1)
		}
	}
	return r
}

// decodeG1: the layout of MarshalG1 (X || Y, most significant bit first; bit 1 = infinity flag).
func decodeG1(c *vh.Check, b []*big.Int, what string) curve.G1Affine {
	nb := len(b) / 2
	var p curve.G1Affine
	xb := append([]*big.Int(nil), b[:nb]...)
	inf := xb[1].Sign() != 0
	xb[1] = new(big.Int)
	x, y := bitsToInt(xb), bitsToInt(b[nb:])
	if inf {
		if x.Sign() != 0 || y.Sign() != 0 {
			c.Fatal("%s: infinity flag set on a non-zero point", what)
		}
		return p
	}
	p.X.SetBigInt(x)
	p.Y.SetBigInt(y)
	if !p.IsOnCurve() {
		c.Fatal("%s: decoded gadget output is not on the curve (harness decoding wrong?)", what)
	}
	return p
}

type foldIn struct {
	digests []kzg.Digest
	proofs  []kzg.OpeningProof
	points  []fr.Element
	vk      kzg.VerifyingKey
}

func (k foldIn) clone() foldIn {
	k.digests = append([]kzg.Digest(nil), k.digests...)
	k.proofs = append([]kzg.OpeningProof(nil), k.proofs...)
	k.points = append([]fr.Element(nil), k.points...)
	return k
}

func frInt(e fr.Element) *big.Int { return e.BigInt(new(big.Int)) }

func smul(p curve.G1Affine, s *big.Int) curve.G1Affine {
	var r curve.G1Affine
	r.ScalarMultiplication(&p, new(big.Int).Mod(s, innerField))
	return r
}
func padd(a, b curve.G1Affine) curve.G1Affine { var r curve.G1Affine; r.Add(&a, &b); return r }
func psub(a, b curve.G1Affine) curve.G1Affine { var r curve.G1Affine; r.Sub(&a, &b); return r }

// runFold runs the exported FoldProofsMultiPoint in the test engine; returns (foldedDigest, sum of lambda^i H_i).
func runFold(c *vh.Check, k foldIn) (fd, F curve.G1Affine, err error) {
	avk, err := stdkzg.ValueOfVerifyingKey[G1El, G2El](k.vk)
	if err != nil {
		return
	}
	n := len(k.digests)
	asg := &kzgFoldProbe{Vk: avk, Digests: make([]stdkzg.Commitment[G1El], n), Proofs: make([]stdkzg.OpeningProof[FR, G1El], n), Points: make([]emulated.Element[FR], n)}
	for i := 0; i < n; i++ {
		if asg.Digests[i], err = stdkzg.ValueOfCommitment[G1El](k.digests[i]); err != nil {
			return
		}
		if asg.Proofs[i], err = stdkzg.ValueOfOpeningProof[FR, G1El](k.proofs[i]); err != nil {
			return
		}
		if asg.Points[i], err = stdkzg.ValueOfScalar[FR](k.points[i]); err != nil {
			return
		}
	}
	tag := probeTag.Add(1)
	circuit := &kzgFoldProbe{Digests: make([]stdkzg.Commitment[G1El], n), Proofs: make([]stdkzg.OpeningProof[FR, G1El], n), Points: make([]emulated.Element[FR], n), tag: tag}
	ok, why := c17.TestEngine(PairName+" kzg-fold-probe", circuit, asg, outerField)
	if !ok {
		return fd, F, fmt.Errorf("probe circuit: %s", why)
	}
	v, found := probeStore.LoadAndDelete(tag)
	if !found {
		return fd, F, fmt.Errorf("probe circuit recorded nothing")
	}
	b := v.([]*big.Int)
	h := len(b) / 2
	fd = decodeG1(c, b[:h], "foldedDigest")
	fq := decodeG1(c, b[h:], "foldedQuotients")
	F.Neg(&fq)
	return fd, F, nil
}

// foldQuantities: Qa = sum_{i>=1} lambda^i H_i; Qb = sum_{i>=1} lambda^i (C_i - v_i G)  (needs z_1 = ... = z_{n-1}).
func foldQuantities(k foldIn, fd, F curve.G1Affine) (qa, qb curve.G1Affine) {
	_, _, g1, _ := curve.Generators()
	qa = psub(F, k.proofs[0].H)
	t0 := padd(psub(k.digests[0], smul(g1, frInt(k.proofs[0].ClaimedValue))), smul(k.proofs[0].H, frInt(k.points[0])))
	qb = psub(psub(fd, t0), smul(qa, frInt(k.points[1])))
	return
}

const kzgAlpha = 271828182845 // trapdoor of the harness SRS (kzgTasks uses the same value)

func kzgFSTasks(c *vh.Check, p c17.Plan) []c17.Task {
	srs, err := kzg.NewSRS(16, big.NewInt(kzgAlpha))
	if err != nil {
		c.Fatal("kzg srs: %v", err)
	}
	_, _, g1, _ := curve.Generators()
	const nPoly = 3
	polys := make([][]fr.Element, nPoly)
	digests := make([]kzg.Digest, nPoly)
	for i := range polys {
		polys[i] = make([]fr.Element, 9)
		for j := range polys[i] {
			polys[i][j].SetUint64(uint64(2000*(i+1) + 41*j*j + 7))
		}
		if digests[i], err = kzg.Commit(polys[i], srs.Pk); err != nil {
			c.Fatal("kzg commit: %v", err)
		}
	}
	var z, z2 fr.Element
	z.SetUint64(1122334455)
	z2.SetUint64(9988776655)
	pts := []fr.Element{z, z2, z2}
	cost := 1
	if Emulated {
		cost = 60
	}
	var tasks []c17.Task
	mkBase := func(n int) foldIn {
		k := foldIn{vk: srs.Vk}
		for i := 0; i < n; i++ {
			pr, err := kzg.Open(polys[i], pts[i], srs.Pk)
			if err != nil {
				c.Fatal("kzg open: %v", err)
			}
			k.digests = append(k.digests, digests[i])
			k.proofs = append(k.proofs, pr)
			k.points = append(k.points, pts[i])
		}
		return k
	}
	ns := []int{2}
	if p.Full || !Emulated {
		ns = []int{2, 3}
	}
	// ---- (D) dependency of the folding coefficient on every component
	for _, n := range ns {
		n := n
		tasks = append(tasks, c17.Task{Prio: 0, Cost: cost * (4*n + 2), Run: func() {
			base := mkBase(n)
			fam := fmt.Sprintf("kzg-fold:%s:n=%d", PairName, n)
			fd, F, err := runFold(c, base)
			if err != nil {
				c.Violation(fam+":genuine-openings-cannot-be-folded", map[string]any{"error": err.Error()})
				return
			}
			// conformance of the harness' reading of the outputs: for genuine openings foldedDigest = [alpha] * sum lambda^i H_i
			if want := smul(F, big.NewInt(kzgAlpha)); !want.Equal(&fd) {
				c.Violation(fam+":genuine-openings:folded-outputs-violate-pairing-relation", map[string]any{"note": "foldedDigest != alpha * sum lambda^i H_i for genuine openings (outputs decoded from MarshalG1, on-curve checked)"})
				return
			}
			qa0, qb0 := foldQuantities(base, fd, F)
			// determinism
			fd2, F2, err := runFold(c, base)
			if err != nil || !fd2.Equal(&fd) || !F2.Equal(&F) {
				c.Fatal("%s: two runs on the same input differ", fam)
			}
			c.Outcome(fam + ":genuine:folded-outputs-satisfy-pairing-relation")
			var one fr.Element
			one.SetOne()
			for i := 0; i < n; i++ {
				for _, comp := range []string{"digest", "quotient", "claimed", "point"} {
					k := base.clone()
					switch comp {
					case "digest":
						k.digests[i] = padd(k.digests[i], g1)
					case "quotient":
						k.proofs[i].H = padd(k.proofs[i].H, g1)
					case "claimed":
						k.proofs[i].ClaimedValue.Add(&k.proofs[i].ClaimedValue, &one)
					case "point":
						k.points[i].Add(&k.points[i], &one)
					}
					fdx, Fx, err := runFold(c, k)
					c.Traces.Add(1)
					name := fmt.Sprintf("%s:%s[%d]", fam, comp, i)
					if err != nil {
						c.Outcome(fam + ":changed-component:probe-unsatisfiable")
						c.Count("kzg-fold", "probe unsatisfiable: "+name, 1)
						continue
					}
					same := false
					switch {
					case i == 0:
						qa, qb := foldQuantities(k, fdx, Fx)
						same = qa.Equal(&qa0) && qb.Equal(&qb0)
					case comp == "quotient":
						_, qb := foldQuantities(k, fdx, Fx)
						same = qb.Equal(&qb0)
					default:
						qa, _ := foldQuantities(k, fdx, Fx)
						same = qa.Equal(&qa0)
					}
					if same {
						c.Outcome(fam + ":coefficient-IGNORES-a-component")
						c.Violation(name+":folding-coefficient-does-not-depend-on-it", map[string]any{"pair": PairName, "openings": n, "component": fmt.Sprintf("%s[%d]", comp, i),
							"note": "FoldProofsMultiPoint derives the same folding coefficient after this prover-chosen component changed; the native verifier folds with fresh randomness, so openings chosen after the coefficient is known are accepted in-circuit and rejected natively"})
					} else {
						c.Outcome(fam + ":coefficient-depends-on:" + comp)
					}
				}
			}
			c.Count("kzg-fold", fmt.Sprintf("dependency experiments n=%d", n), int64(4*n))
		}})
	}
	// ---- (F) two-pass forgery on quotient[0]
	tasks = append(tasks, c17.Task{Prio: 0, Cost: cost * 3, Run: func() {
		fam := "kzg-multi:" + PairName + ":two-pass-forgery"
		k := mkBase(2)
		var one, five fr.Element
		one.SetOne()
		five.SetUint64(5)
		k.proofs[0].ClaimedValue.Add(&k.proofs[0].ClaimedValue, &one) // wrong claims
		k.proofs[1].ClaimedValue.Add(&k.proofs[1].ClaimedValue, &five)
		fd, F, err := runFold(c, k)
		if err != nil {
			c.Outcome(fam + ":first-pass-unsatisfiable")
			return
		}
		qa, qb := foldQuantities(k, fd, F) // lambda*H1, lambda*(C1 - v1 G)
		alpha := big.NewInt(kzgAlpha)
		am := new(big.Int).Sub(alpha, frInt(k.points[1]))
		lE1 := psub(qb, smul(qa, am)) // lambda * (C1 - v1 G - (alpha - z1) H1)
		num := padd(psub(k.digests[0], smul(g1, frInt(k.proofs[0].ClaimedValue))), lE1)
		d := new(big.Int).Sub(alpha, frInt(k.points[0]))
		d.Mod(d, innerField)
		k.proofs[0].H = smul(num, new(big.Int).ModInverse(d, innerField))
		kc := &kzgCase{digests: k.digests, proofs: k.proofs, points: k.points, vk: k.vk}
		nat, natErr := kzgNative(kzgMulti, kc)
		if nat {
			c.Fatal("%s: the native verifier accepts wrong claimed values", fam)
		}
		circuit, assignment, err := kzgOuter(kzgMulti, kc, "witness")
		ok, why := false, ""
		if err != nil {
			why = err.Error()
		} else {
			ok, why = c17.TestEngine(PairName+" "+kzgMulti, circuit, assignment, outerField)
		}
		c.Traces.Add(2)
		if ok {
			c.Outcome(fam + ":ACCEPTED")
			c.Violation(fam+":accepted", map[string]any{"pair": PairName, "native_error": natErr,
				"note": "openings with wrong claimed values (v0+1, v1+5): quotient[0] was computed from lambda*E1 learnt in a first run; BatchVerifyMultiPoints accepts, the native verifier rejects"})
		} else {
			c.Outcome(fam + ":rejected")
			_ = why
		}
	}})
	// ---- (G) single-point folding equals gnark-crypto's
	tasks = append(tasks, c17.Task{Prio: 0, Cost: cost * 4, Run: func() {
		fam := "kzg-foldproof:" + PairName
		h, err := recursion.NewShort(outerField, innerField)
		if err != nil {
			c.Fatal("short hash: %v", err)
		}
		bp, err := kzg.BatchOpenSinglePoint(polys, digests, z, h, srs.Pk)
		if err != nil {
			c.Fatal("kzg batch open: %v", err)
		}
		var one fr.Element
		one.SetOne()
		type variant struct {
			name string
			ds   []kzg.Digest
			bp   kzg.BatchOpeningProof
			pt   fr.Element
		}
		vs := []variant{{"genuine", digests, bp, z}}
		for i := 0; i < nPoly; i++ {
			ds := append([]kzg.Digest(nil), digests...)
			ds[i] = padd(ds[i], g1)
			vs = append(vs, variant{fmt.Sprintf("digest[%d]+G", i), ds, bp, z})
			b2 := bp
			b2.ClaimedValues = append([]fr.Element(nil), bp.ClaimedValues...)
			b2.ClaimedValues[i].Add(&b2.ClaimedValues[i], &one)
			vs = append(vs, variant{fmt.Sprintf("claimed[%d]+1", i), digests, b2, z})
		}
		var z1 fr.Element
		z1.Add(&z, &one)
		vs = append(vs, variant{"point+1", digests, bp, z1})
		for _, v := range vs {
			h.Reset()
			nfp, nfd, err := kzg.FoldProof(v.ds, &v.bp, v.pt, h)
			if err != nil {
				c.Fatal("%s: native FoldProof: %v", fam, err)
			}
			n := len(v.ds)
			asg := &kzgGammaProbe{Digests: make([]stdkzg.Commitment[G1El], n)}
			for i := range v.ds {
				if asg.Digests[i], err = stdkzg.ValueOfCommitment[G1El](v.ds[i]); err != nil {
					c.Fatal("%v", err)
				}
			}
			if asg.Proof, err = stdkzg.ValueOfBatchOpeningProof[FR, G1El](v.bp); err != nil {
				c.Fatal("%v", err)
			}
			if asg.Point, err = stdkzg.ValueOfScalar[FR](v.pt); err != nil {
				c.Fatal("%v", err)
			}
			tag := probeTag.Add(1)
			circuit := &kzgGammaProbe{Digests: make([]stdkzg.Commitment[G1El], n), Proof: stdkzg.BatchOpeningProof[FR, G1El]{ClaimedValues: make([]emulated.Element[FR], n)}, tag: tag}
			ok, why := c17.TestEngine(PairName+" kzg-foldproof-probe", circuit, asg, outerField)
			c.Traces.Add(1)
			if !ok {
				c.Violation(fam+":"+v.name+":unsatisfiable", map[string]any{"error": why})
				continue
			}
			rec, _ := probeStore.LoadAndDelete(tag)
			b := rec.([]*big.Int)
			// two points of equal length then the scalar
			sb := 8 * ((innerField.BitLen() + 7) / 8)
			gl := (len(b) - sb) / 2
			if gl <= 0 || (len(b)-sb)%2 != 0 {
				// the scalar is marshalled on its own number of bits: derive from the remaining length
				c.Fatal("%s: unexpected marshalled length %d", fam, len(b))
			}
			gd := decodeG1(c, b[:gl], "folded digest")
			gq := decodeG1(c, b[gl:2*gl], "folded quotient")
			gv := new(big.Int).Mod(bitsToInt(b[2*gl:]), innerField)
			if gd.Equal(&nfd) && gq.Equal(&nfp.H) && gv.Cmp(frInt(nfp.ClaimedValue)) == 0 {
				c.Outcome(fam + ":equals-native-FoldProof")
			} else {
				c.Outcome(fam + ":DIFFERS-from-native-FoldProof")
				c.Violation(fam+":"+v.name+":differs-from-native", map[string]any{"pair": PairName, "variant": v.name, "digest_equal": gd.Equal(&nfd), "quotient_equal": gq.Equal(&nfp.H),
					"claimed_value_circuit": gv.String(), "claimed_value_native": frInt(nfp.ClaimedValue).String()})
			}
		}
		c.Count("kzg-fold", "FoldProof variants compared with gnark-crypto", int64(len(vs)))
	}})
	return tasks
}
