// Package hintenv owns the nondeterministic hints: deterministic replacements for the
// commitment placeholder and the random mask, so that real and reference runs agree.
package hintenv

import (
	"crypto/sha256"
	"math/big"

	"github.com/consensys/gnark/constraint/solver"
	fcs "github.com/consensys/gnark/frontend/cs"
	"github.com/consensys/gnark/internal/hints"
)

// CommitHash is Fiat-Shamir in the harness: the commitment value is a hash of every committed value.
func CommitHash(mod *big.Int, in, out []*big.Int) error {
	h := sha256.New()
	for _, x := range in {
		b := x.Bytes()
		h.Write([]byte{byte(len(b))})
		h.Write(b)
	}
	for i := range out {
		h.Write([]byte{byte(i)})
		s := h.Sum(nil)
		out[i] = new(big.Int).SetBytes(s)
		out[i].Mod(out[i], mod)
		if out[i].Sign() == 0 {
			out[i].SetUint64(1)
		}
	}
	return nil
}

// FixedMask replaces hints.Randomize by fixed distinct non-zero values.
func FixedMask(mod *big.Int, in, out []*big.Int) error {
	for i := range out {
		out[i] = new(big.Int).Mod(big.NewInt(int64(12345+7*i)), mod)
	}
	return nil
}

var (
	BsbID  = solver.GetHintID(fcs.Bsb22CommitmentComputePlaceholder)
	RandID = solver.GetHintID(hints.Randomize)
)

// Det returns the overrides that make solving deterministic.
func Det() map[solver.HintID]solver.Hint {
	return map[solver.HintID]solver.Hint{BsbID: CommitHash, RandID: FixedMask}
}
