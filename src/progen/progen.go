// Package progen enumerates straight-line programs over the frontend API alphabet (package
// ops).  One program is interpreted three ways from the same data: Define against the R1CS
// builder, Define against the sparse builder, and the big.Int reference.
package progen

import (
	"fmt"
	"math/big"
	"strings"

	"github.com/consensys/gnark/frontend"
	"github.com/consensys/gnark/internal/verifh/circ"
	"github.com/consensys/gnark/internal/verifh/ops"
)

// Arg refers to a pool entry: constants, then inputs (P0, S0, S1), then results.
type Arg struct {
	Kind byte // 'c','i','r'
	Idx  int
}

func (a Arg) String() string {
	switch a.Kind {
	case 'c':
		return []string{"0", "1", "2", "-1", "h"}[a.Idx]
	case 'i':
		return []string{"P0", "S0", "S1"}[a.Idx]
	}
	return fmt.Sprintf("r%d", a.Idx)
}

type Step struct {
	Op   *ops.Op
	Args []Arg
}

type Prog struct{ Steps []Step }

func (p *Prog) String() string {
	var sb strings.Builder
	for i, s := range p.Steps {
		if i > 0 {
			sb.WriteString("; ")
		}
		sb.WriteString(s.Op.Name)
		sb.WriteByte('(')
		for j, a := range s.Args {
			if j > 0 {
				sb.WriteByte(',')
			}
			sb.WriteString(a.String())
		}
		sb.WriteByte(')')
	}
	return sb.String()
}

// NOut is the total number of values the program exposes.
func (p *Prog) NOut() int {
	n := 0
	for _, s := range p.Steps {
		n += s.Op.NOut
	}
	return n
}

// ConstVal returns constant idx in the given field.
func ConstVal(field *big.Int, idx int) *big.Int {
	switch idx {
	case 0, 1, 2:
		return big.NewInt(int64(idx))
	case 3:
		return new(big.Int).Sub(field, big.NewInt(1))
	}
	h := new(big.Int).Sub(field, big.NewInt(1))
	return h.Rsh(h, 1)
}

const NInputs = 3

// Circuit returns the circuit: P=[P0], S=[S0,S1,OUT...]; every produced value is exposed by
// AssertIsEqual(value, OUT_i) right after the step that produced it.
// NCopies: the circuit takes three more secret inputs C0,C1,C2 (after the OUT inputs), assigned
// the same values as P0,S0,S1, and asserts at the very end that every input still equals its
// copy: an operation must not change its operands (except MulAcc's documented accumulator).
const NCopies = 3

func (p *Prog) Circuit(field *big.Int) *circ.C {
	return circ.New(1, 2+p.NOut()+NCopies, func(api frontend.API, pub, sec []frontend.Variable) error {
		inputs := []frontend.Variable{pub[0], sec[0], sec[1]}
		var results []frontend.Variable
		o := 2
		for _, s := range p.Steps {
			in := make([]frontend.Variable, len(s.Args))
			for i, a := range s.Args {
				switch a.Kind {
				case 'c':
					if a.Idx == 3 {
						in[i] = -1 // reduced by the frontend
					} else {
						in[i] = ConstVal(field, a.Idx)
					}
				case 'i':
					in[i] = inputs[a.Idx]
				default:
					in[i] = results[a.Idx]
				}
			}
			out := s.Op.Build(api, in)
			for _, v := range out {
				api.AssertIsEqual(v, sec[o])
				o++
				results = append(results, v)
			}
		}
		used := p.UsedInputs()
		for i := 0; i < NInputs; i++ {
			if used[i] && !p.consumedInput(i) {
				api.AssertIsEqual(inputs[i], sec[2+p.NOut()+i])
			}
		}
		return nil
	})
}

// Ref evaluates the documented meaning. outs has NOut entries when sat; free[i] marks outputs
// documented as unconstrained.
func (p *Prog) Ref(field *big.Int, in [NInputs]*big.Int) (outs []*big.Int, free []bool, sat bool) {
	var results []*big.Int
	for _, s := range p.Steps {
		args := make([]*big.Int, len(s.Args))
		for i, a := range s.Args {
			switch a.Kind {
			case 'c':
				args[i] = ConstVal(field, a.Idx)
			case 'i':
				args[i] = in[a.Idx]
			default:
				args[i] = results[a.Idx]
			}
		}
		r := s.Op.Ref(field, args)
		if !r.Sat {
			return nil, nil, false
		}
		for _, v := range r.Out {
			results = append(results, v)
			free = append(free, r.Free)
		}
	}
	return results, free, true
}

// consumedInput: input i was passed as MulAcc's accumulator (may be mutated, documented).
func (p *Prog) consumedInput(i int) bool {
	for _, s := range p.Steps {
		if s.Op.Name == "MulAcc" && s.Args[0].Kind == 'i' && s.Args[0].Idx == i {
			return true
		}
	}
	return false
}

// UsedInputs reports which of P0,S0,S1 occur.
func (p *Prog) UsedInputs() (u [NInputs]bool) {
	for _, s := range p.Steps {
		for _, a := range s.Args {
			if a.Kind == 'i' {
				u[a.Idx] = true
			}
		}
	}
	return
}

// Config selects the enumeration.
type Config struct {
	Ops       []ops.Op
	Depth     int
	Consts    []int    // constant indices offered
	Inputs    []int    // input indices offered
	StepOps   [][]string // optional: allowed op names per step (nil = all)
	SCS       bool     // include SCS-only ops
	WideArgs  bool     // for ops with >3 operands enumerate only the first two
}

// Enumerate yields every program of exactly cfg.Depth steps, simplest first.  Programs of
// depth >= 2 must be connected: every step after the first uses a result of an earlier step,
// or repeats the previous operation on the same arguments (de-duplication paths).
func Enumerate(cfg Config, yield func(p *Prog) bool) {
	var rec func(steps []Step, nres int, consumed map[Arg]bool) bool
	rec = func(steps []Step, nres int, consumed map[Arg]bool) bool {
		if len(steps) == cfg.Depth {
			cp := make([]Step, len(steps))
			copy(cp, steps)
			return yield(&Prog{Steps: cp})
		}
		var pool []Arg
		for _, c := range cfg.Consts {
			pool = append(pool, Arg{'c', c})
		}
		for _, i := range cfg.Inputs {
			pool = append(pool, Arg{'i', i})
		}
		for r := 0; r < nres; r++ {
			pool = append(pool, Arg{'r', r})
		}
		for oi := range cfg.Ops {
			op := &cfg.Ops[oi]
			if op.SCSOnly && !cfg.SCS {
				continue
			}
			if len(steps) < cfg.Depth-1 && op.NOut == 0 {
				continue // nothing to connect to
			}
			if cfg.StepOps != nil && len(cfg.StepOps) > len(steps) && cfg.StepOps[len(steps)] != nil {
				ok := false
				for _, n := range cfg.StepOps[len(steps)] {
					if n == op.Name {
						ok = true
					}
				}
				if !ok {
					continue
				}
			}
			nfree := op.NIn
			if nfree > 3 {
				nfree = 2
			}
			args := make([]Arg, op.NIn)
			// fixed tail for wide ops: c2, P0, S0, c(-1)
			tail := []Arg{{'c', 2}, {'i', 0}, {'i', 1}, {'c', 3}}
			for i := nfree; i < op.NIn; i++ {
				args[i] = tail[(i-nfree)%len(tail)]
			}
			var fill func(k int) bool
			fill = func(k int) bool {
				if k == nfree {
					allConst, usesRes := true, false
					for _, a := range args {
						if a.Kind != 'c' {
							allConst = false
						}
						if a.Kind == 'r' {
							usesRes = true
						}
						if consumed[a] {
							return true
						}
					}
					if allConst {
						return true // pure constant folding is exercised through mixed programs
					}
					if len(steps) > 0 && !usesRes {
						prev := steps[len(steps)-1]
						if prev.Op != op || !sameArgs(prev.Args, args) {
							return true
						}
					}
					st := Step{op, append([]Arg(nil), args...)}
					nc := consumed
					if op.Name == "MulAcc" {
						nc = map[Arg]bool{}
						for k, v := range consumed {
							nc[k] = v
						}
						if args[0].Kind != 'c' {
							nc[args[0]] = true
						}
					}
					return rec(append(steps, st), nres+op.NOut, nc)
				}
				for _, a := range pool {
					args[k] = a
					if !fill(k + 1) {
						return false
					}
				}
				return true
			}
			if !fill(0) {
				return false
			}
		}
		return true
	}
	rec(nil, 0, map[Arg]bool{})
}

func sameArgs(a, b []Arg) bool {
	if len(a) != len(b) {
		return false
	}
	for i := range a {
		if a[i] != b[i] {
			return false
		}
	}
	return true
}
