// Package verrgroup mirrors golang.org/x/sync/errgroup on top of vsched / vsync.
package verrgroup

import (
	"context"
	"sync"

	"github.com/consensys/gnark/internal/verifh/vsched"
	"github.com/consensys/gnark/internal/verifh/vsync"
)

type Group struct {
	cancel  func(error)
	wg      vsync.WaitGroup
	errOnce sync.Once
	err     error
}

func WithContext(ctx context.Context) (*Group, context.Context) {
	ctx, cancel := context.WithCancelCause(ctx)
	return &Group{cancel: cancel}, ctx
}

func (g *Group) done() { g.wg.Done() }

func (g *Group) Wait() error {
	g.wg.Wait()
	if g.cancel != nil {
		g.cancel(g.err)
	}
	return g.err
}

func (g *Group) Go(f func() error) {
	g.wg.Add(1)
	vsched.Go(func() {
		defer g.done()
		if err := f(); err != nil {
			g.errOnce.Do(func() {
				g.err = err
				if g.cancel != nil {
					g.cancel(g.err)
				}
			})
		}
	})
}

func (g *Group) SetLimit(n int) {
	if n >= 0 {
		panic("verrgroup: SetLimit not supported")
	}
}
