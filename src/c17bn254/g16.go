// GENERATED from src/c17bls12377 by src/c17gen/gen.sh; DO NOT EDIT (see common.go).
package c17bn254

import (
	"fmt"

	curve "github.com/consensys/gnark-crypto/ecc/bn254"
	"github.com/consensys/gnark-crypto/ecc/bn254/fr"
	"github.com/consensys/gnark-crypto/ecc/bn254/fr/pedersen"
	groth16 "github.com/consensys/gnark/backend/groth16/bn254"
	cs "github.com/consensys/gnark/constraint/bn254"
	"github.com/consensys/gnark/frontend"
	"github.com/consensys/gnark/frontend/cs/r1cs"
	"github.com/consensys/gnark/internal/verifh/c17"
	"github.com/consensys/gnark/internal/verifh/vh"
	stdpedersen "github.com/consensys/gnark/std/commitments/pedersen"
	"github.com/consensys/gnark/std/math/emulated"
	stdgroth16 "github.com/consensys/gnark/std/recursion/groth16"
)

// ---------------------------------------------------------------- genuine objects

type g16Fix struct {
	kind   string
	ccs    [2]*cs.R1CS // circuit variants 0 and 1 (same shape)
	pk     [2]*groth16.ProvingKey
	vk     [2]*groth16.VerifyingKey
	pub    [2][2]fr.Vector      // [variant][witness]
	proof  [2][2]*groth16.Proof // [variant][witness]
	edits  []g16Edit
	nEdits int
}

type g16Triple struct {
	proof *groth16.Proof
	vk    *groth16.VerifyingKey
	pub   fr.Vector
}

func g16NativeAccepts(t g16Triple) (bool, string) {
	var err error
	c17.NativeRuns.Add(1)
	pan := vh.Recover(func() {
		err = groth16.Verify(t.proof, t.vk, append(fr.Vector(nil), t.pub...), stdgroth16.GetNativeVerifierOptions(outerField, innerField))
	})
	if pan != "" {
		return false, "panic: " + pan
	}
	if err != nil {
		return false, err.Error()
	}
	return true, ""
}

func buildG16(c *vh.Check, kind string) *g16Fix {
	f := &g16Fix{kind: kind}
	for v := 0; v < 2; v++ {
		ccs, err := frontend.Compile(innerField, r1cs.NewBuilder, &innerCircuit{variant: v, commit: kind != "nocommit", commit2: kind == "commit2"})
		if err != nil {
			c.Fatal("compile inner groth16 circuit: %v", err)
		}
		f.ccs[v] = ccs.(*cs.R1CS)
		f.pk[v], f.vk[v] = new(groth16.ProvingKey), new(groth16.VerifyingKey)
		if err := groth16.Setup(f.ccs[v], f.pk[v], f.vk[v]); err != nil {
			c.Fatal("groth16 setup: %v", err)
		}
		for w := 0; w < 2; w++ {
			full, pub := innerWitness(c, v, w)
			f.pub[v][w] = pub
			f.proof[v][w], err = groth16.Prove(f.ccs[v], f.pk[v], full, stdgroth16.GetNativeProverOptions(outerField, innerField))
			if err != nil {
				c.Fatal("groth16 prove: %v", err)
			}
			if ok, why := g16NativeAccepts(g16Triple{f.proof[v][w], f.vk[v], pub}); !ok {
				c.Fatal("native groth16 verifier rejects a genuine proof (%s %s): %s", PairName, kind, why)
			}
		}
	}
	wantC := 0
	if kind == "commit" {
		wantC = 1
	}
	if kind == "commit2" {
		wantC = 2
	}
	if len(f.vk[0].CommitmentKeys) != wantC || len(f.vk[1].G1.K) != len(f.vk[0].G1.K) {
		c.Fatal("inner groth16 circuits do not have the intended shape (%d commitments)", len(f.vk[0].CommitmentKeys))
	}
	f.edits = g16Edits(f)
	for i := range f.edits {
		e := &f.edits[i]
		e.native, e.nativeErr = g16NativeAccepts(e.t)
		if e.class == "genuine" && !e.native {
			c.Fatal("native groth16 verifier rejects the genuine case %s: %s", e.name, e.nativeErr)
		}
	}
	return f
}

func cloneG16Proof(p *groth16.Proof) *groth16.Proof {
	q := *p
	q.Commitments = append([]curve.G1Affine(nil), p.Commitments...)
	return &q
}

func cloneG16VK(vk *groth16.VerifyingKey) *groth16.VerifyingKey {
	q := *vk
	q.G1.K = append([]curve.G1Affine(nil), vk.G1.K...)
	q.CommitmentKeys = append([]pedersen.VerifyingKey(nil), vk.CommitmentKeys...)
	q.PublicAndCommitmentCommitted = make([][]int, len(vk.PublicAndCommitmentCommitted))
	for i := range q.PublicAndCommitmentCommitted {
		q.PublicAndCommitmentCommitted[i] = append([]int(nil), vk.PublicAndCommitmentCommitted[i]...)
	}
	return &q
}

// ---------------------------------------------------------------- edit alphabet

type g16Edit struct {
	name   string
	class  string // genuine | proof-point | proof-list | public | vk
	t      g16Triple
	nonsub bool // leaves the prime-order subgroup: only judged where subgroup checks are on
	shape  bool // changes a length
	sub    bool // sub-alphabet member
	native bool
	nativeErr string
}

func g16Edits(f *g16Fix) []g16Edit {
	a, b := f.proof[0][0], f.proof[0][1]
	x, xb := f.pub[0][0], f.pub[0][1]
	vk := f.vk[0]
	var out []g16Edit
	add := func(e g16Edit) {
		if e.t.proof == nil {
			e.t.proof = cloneG16Proof(a)
		}
		if e.t.vk == nil {
			e.t.vk = vk
		}
		if e.t.pub == nil {
			e.t.pub = x
		}
		out = append(out, e)
	}
	add(g16Edit{name: "identity", class: "genuine", sub: true})
	add(g16Edit{name: "proof-b-with-pub-b", class: "genuine", t: g16Triple{proof: cloneG16Proof(b), pub: xb}})
	add(g16Edit{name: "other-circuit(key,proof,pub)", class: "genuine", sub: true, t: g16Triple{proof: cloneG16Proof(f.proof[1][0]), vk: f.vk[1], pub: f.pub[1][0]}})
	{ // validity-preserving re-randomisation: (A,B,C) -> (A, B + r.delta, C + r.A)
		q := cloneG16Proof(a)
		var r fr.Element
		r.SetUint64(7)
		var t2 curve.G2Affine
		t2.ScalarMultiplication(&vk.G2.Delta, bigOf(r))
		q.Bs.Add(&a.Bs, &t2)
		var t1 curve.G1Affine
		t1.ScalarMultiplication(&a.Ar, bigOf(r))
		q.Krs.Add(&a.Krs, &t1)
		add(g16Edit{name: "rerandomise(B+7.delta,C+7.A)", class: "genuine", t: g16Triple{proof: q}})
	}
	// G1 slots
	type slot struct {
		name string
		get  func(p *groth16.Proof) *curve.G1Affine
	}
	slots := []slot{
		{"Ar", func(p *groth16.Proof) *curve.G1Affine { return &p.Ar }},
		{"Krs", func(p *groth16.Proof) *curve.G1Affine { return &p.Krs }},
	}
	if len(vk.CommitmentKeys) > 0 {
		slots = append(slots, slot{"CommitmentPok", func(p *groth16.Proof) *curve.G1Affine { return &p.CommitmentPok }})
		for i := range a.Commitments {
			i := i
			slots = append(slots, slot{fmt.Sprintf("Commitments[%d]", i), func(p *groth16.Proof) *curve.G1Affine { return &p.Commitments[i] }})
		}
	}
	for si, s := range slots {
		cur := *s.get(a)
		o := slots[(si+1)%len(slots)]
		others := []namedG1{{n: "of-b", p: *s.get(b)}, {n: "slot:" + o.name, p: *o.get(a)}, {n: "vk.K[1]", p: vk.G1.K[1]}}
		for _, e := range g1Alphabet(cur, others) {
			p := cloneG16Proof(a)
			*s.get(p) = e.p
			add(g16Edit{name: s.name + ":=" + e.n, class: "proof-point", t: g16Triple{proof: p}, nonsub: e.nonsub, sub: e.sub && (s.name == "Ar" || (s.name == "CommitmentPok" && e.n != "plusG") || (s.name == "Krs" && e.n == "plusG"))})
		}
	}
	// G2 slot
	for _, e := range g2Alphabet(a.Bs, []namedG2{{n: "of-b", p: b.Bs, sub: true}, {n: "vk.G2.Delta", p: vk.G2.Delta}}) {
		p := cloneG16Proof(a)
		p.Bs = e.p
		add(g16Edit{name: "Bs:=" + e.n, class: "proof-point", t: g16Triple{proof: p}, nonsub: e.nonsub, sub: e.sub && e.n != "plusG"})
	}
	// list edits on Commitments
	_, _, g1, _ := curve.Generators()
	le := func(name string, fn func(p *groth16.Proof)) {
		p := cloneG16Proof(a)
		fn(p)
		add(g16Edit{name: "Commitments:" + name, class: "proof-list", t: g16Triple{proof: p}, shape: true})
	}
	if len(a.Commitments) > 0 {
		le("drop-last", func(p *groth16.Proof) { p.Commitments = p.Commitments[:len(p.Commitments)-1] })
		le("dup-last", func(p *groth16.Proof) { p.Commitments = append(p.Commitments, p.Commitments[len(p.Commitments)-1]) })
	}
	le("append-inf", func(p *groth16.Proof) { p.Commitments = append(p.Commitments, curve.G1Affine{}) })
	le("append-gen", func(p *groth16.Proof) { p.Commitments = append(p.Commitments, g1) })
	// replay against other public inputs
	for _, pe := range pubAlphabet(x, xb) {
		add(g16Edit{name: "replay:" + pe.n, class: "public", t: g16Triple{pub: pe.v}, shape: pe.shape, sub: pe.sub})
	}
	add(g16Edit{name: "proof-of-b", class: "proof-point", t: g16Triple{proof: cloneG16Proof(b)}})
	// verifying key: another circuit's key of the same shape, whole and field by field
	other := f.vk[1]
	vke := func(name string, sub bool, fn func(k *groth16.VerifyingKey)) {
		k := cloneG16VK(vk)
		fn(k)
		if err := k.Precompute(); err != nil {
			panic(err)
		}
		add(g16Edit{name: "vk:" + name, class: "vk", t: g16Triple{vk: k}, sub: sub})
	}
	add(g16Edit{name: "vk:=other-circuit", class: "vk", t: g16Triple{vk: other}, sub: true})
	vke("Alpha:=other's", false, func(k *groth16.VerifyingKey) { k.G1.Alpha = other.G1.Alpha })
	vke("Beta:=other's", false, func(k *groth16.VerifyingKey) { k.G2.Beta = other.G2.Beta })
	vke("Gamma:=other's", false, func(k *groth16.VerifyingKey) { k.G2.Gamma = other.G2.Gamma })
	vke("Delta:=other's", false, func(k *groth16.VerifyingKey) { k.G2.Delta = other.G2.Delta })
	for i := range vk.G1.K {
		i := i
		vke(fmt.Sprintf("K[%d]:=other's", i), false, func(k *groth16.VerifyingKey) { k.G1.K[i] = other.G1.K[i] })
	}
	vke("K:swap(1,2)", false, func(k *groth16.VerifyingKey) { k.G1.K[1], k.G1.K[2] = k.G1.K[2], k.G1.K[1] })
	for i := range vk.CommitmentKeys {
		i := i
		vke(fmt.Sprintf("CommitmentKeys[%d]:=other's", i), false, func(k *groth16.VerifyingKey) { k.CommitmentKeys[i] = other.CommitmentKeys[i] })
		vke(fmt.Sprintf("CommitmentKeys[%d].GSigmaNeg:=neg", i), false, func(k *groth16.VerifyingKey) {
			k.CommitmentKeys[i].GSigmaNeg.Neg(&k.CommitmentKeys[i].GSigmaNeg)
		})
	}
	return out
}

// ---------------------------------------------------------------- outer circuits

type g16OuterW struct { // verifying key supplied as witness
	Proof        stdgroth16.Proof[G1El, G2El]
	VerifyingKey stdgroth16.VerifyingKey[G1El, G2El, GtEl]
	InnerWitness stdgroth16.Witness[FR] `gnark:",public"`
	opts         []stdgroth16.VerifierOption `gnark:"-"`
}

func (o *g16OuterW) Define(api frontend.API) error {
	v, err := stdgroth16.NewVerifier[FR, G1El, G2El, GtEl](api)
	if err != nil {
		return fmt.Errorf("new verifier: %w", err)
	}
	return v.AssertProof(o.VerifyingKey, o.Proof, o.InnerWitness, o.opts...)
}

type g16OuterC struct { // verifying key fixed at compile time
	Proof        stdgroth16.Proof[G1El, G2El]
	vk           stdgroth16.VerifyingKey[G1El, G2El, GtEl] `gnark:"-"`
	InnerWitness stdgroth16.Witness[FR] `gnark:",public"`
	opts         []stdgroth16.VerifierOption `gnark:"-"`
}

func (o *g16OuterC) Define(api frontend.API) error {
	v, err := stdgroth16.NewVerifier[FR, G1El, G2El, GtEl](api)
	if err != nil {
		return fmt.Errorf("new verifier: %w", err)
	}
	return v.AssertProof(o.vk, o.Proof, o.InnerWitness, o.opts...)
}

func g16Opts(opt string) []stdgroth16.VerifierOption {
	switch opt {
	case "complete":
		return []stdgroth16.VerifierOption{stdgroth16.WithCompleteArithmetic()}
	case "subgroup":
		return []stdgroth16.VerifierOption{stdgroth16.WithSubgroupCheck()}
	case "complete+subgroup":
		return []stdgroth16.VerifierOption{stdgroth16.WithCompleteArithmetic(), stdgroth16.WithSubgroupCheck()}
	}
	return nil
}

// g16Outer returns (circuit, assignment) for one triple; the circuit's shape comes from the
// Placeholder helpers applied to the genuine inner constraint system, except for the slices whose
// length an edit changed (then the circuit is shaped like the assignment: the verifier's own
// length checks are what is being exercised).
func g16Outer(f *g16Fix, t g16Triple, k cfg) (circuit, assignment frontend.Circuit, err error) {
	ccs := f.ccs[0]
	ap, err := stdgroth16.ValueOfProof[G1El, G2El](t.proof)
	if err != nil {
		return nil, nil, fmt.Errorf("ValueOfProof: %w", err)
	}
	aw, err := stdgroth16.ValueOfWitness[FR](pubWitness(t.pub))
	if err != nil {
		return nil, nil, fmt.Errorf("ValueOfWitness: %w", err)
	}
	pp := stdgroth16.PlaceholderProof[G1El, G2El](ccs)
	if len(pp.Commitments) != len(ap.Commitments) {
		pp.Commitments = make([]stdpedersen.Commitment[G1El], len(ap.Commitments))
	}
	pw := stdgroth16.PlaceholderWitness[FR](ccs)
	if len(pw.Public) != len(aw.Public) {
		pw.Public = make([]emulated.Element[FR], len(aw.Public))
	}
	opts := g16Opts(k.opt)
	if k.vkmode == "fixed" {
		avk, err := stdgroth16.ValueOfVerifyingKeyFixed[G1El, G2El, GtEl](t.vk)
		if err != nil {
			return nil, nil, fmt.Errorf("ValueOfVerifyingKeyFixed: %w", err)
		}
		return &g16OuterC{Proof: pp, vk: avk, InnerWitness: pw, opts: opts}, &g16OuterC{Proof: ap, InnerWitness: aw}, nil
	}
	avk, err := stdgroth16.ValueOfVerifyingKey[G1El, G2El, GtEl](t.vk)
	if err != nil {
		return nil, nil, fmt.Errorf("ValueOfVerifyingKey: %w", err)
	}
	pvk := stdgroth16.PlaceholderVerifyingKey[G1El, G2El, GtEl](ccs)
	if len(pvk.G1.K) != len(avk.G1.K) || len(pvk.CommitmentKeys) != len(avk.CommitmentKeys) {
		return nil, nil, fmt.Errorf("placeholder verifying key has %d K / %d commitment keys, the key %d / %d", len(pvk.G1.K), len(pvk.CommitmentKeys), len(avk.G1.K), len(avk.CommitmentKeys))
	}
	return &g16OuterW{Proof: pp, VerifyingKey: pvk, InnerWitness: pw, opts: opts}, &g16OuterW{Proof: ap, VerifyingKey: avk, InnerWitness: aw}, nil
}

var (
	g16AllCfg  = []cfg{{"witness", "default", "te"}, {"fixed", "complete", "te"}, {"witness", "subgroup", "te"}, {"fixed", "default", "te"}, {"witness", "complete", "te"}, {"fixed", "subgroup", "te"}}
	g16Primary = 3 // the first three: every vk mode and every option once
)

func g16Excluded(e *g16Edit, k cfg) string {
	if k.opt == "subgroup" && !SubgroupChecks {
		return "subgroup-check-not-implemented-for-this-curve"
	}
	if e.nonsub && k.opt != "subgroup" {
		return "point-outside-subgroup,no-subgroup-check-option"
	}
	return ""
}

func g16Tasks(c *vh.Check, p c17.Plan, f *g16Fix) []c17.Task {
	var tasks []c17.Task
	cost := 1
	if Emulated {
		cost = 100
	}
	judge := func(e *g16Edit, k cfg, ok bool, why string) {
		c17.Judge(c, c17.Case{Verifier: "groth16", Pair: PairName, Mode: k.String(), Inner: f.kind, Edit: e.name, Native: e.native, Circuit: ok,
			Excluded: g16Excluded(e, k), Class: e.class, Detail: map[string]any{"native_error": e.nativeErr, "circuit_error": why}})
	}
	subIdx := make([]int, len(f.edits))
	n := 0
	for i := range f.edits {
		subIdx[i] = -1
		if f.edits[i].sub {
			subIdx[i] = n
			n++
		}
	}
	selected := map[int]bool{}
	for ci, k := range g16AllCfg {
		k := k
		prim := -1
		if ci < g16Primary {
			prim = ci
		}
		for i := range f.edits {
			e := &f.edits[i]
			if !p.WantEdit(e.name) {
				continue
			}
			if !p.Selected(p.AllCfg, p.Spread, prim, g16Primary, 2, e.sub, e.nonsub, subIdx[i], i) {
				continue
			}
			if p.Rotate && f.kind == "nocommit" && subIdx[i] != 0 {
				continue // cheapest plan: the commitment-free circuit only contributes its genuine triple
			}
			if k.opt == "subgroup" && !SubgroupChecks && subIdx[i] != 0 {
				continue // option not offered for this curve: only the genuine triple is run, to record what happens
			}
			selected[i] = true
			prio := 1
			if e.sub {
				prio = 0
			}
			tasks = append(tasks, c17.Task{Prio: prio, Cost: cost, Run: func() {
				circuit, assignment, err := g16Outer(f, e.t, k)
				ok, why := false, ""
				if err != nil {
					why = err.Error()
				} else {
					ok, why = c17.TestEngine(PairName+" "+"groth16", circuit, assignment, outerField)
				}
				judge(e, k, ok, why)
			}})
		}
	}
	c.Count("alphabet:"+PairName, "groth16/"+f.kind, int64(len(selected)))
	if p.Compiled > 0 {
		// one compilation per option (verifying key as witness), every edit solved on it
		opts := []string{"default"}
		if p.Compiled > 1 {
			opts = []string{"default", "complete"}
			if SubgroupChecks {
				opts = append(opts, "subgroup")
			}
		}
		for _, o := range opts {
			k := cfg{"witness", o, "r1cs"}
			// one task per compiled system: compile, then solve every selected edit on it in turn
			// (solves of one system are serialised anyway; the solver is parallel inside)
			var sel []*g16Edit
			for _, wantSub := range []bool{true, false} { // genuine + sub-alphabet first
				for i := range f.edits {
					e := &f.edits[i]
					if e.sub == wantSub && (p.Full || e.sub) && p.WantEdit(e.name) {
						sel = append(sel, e)
					}
				}
			}
			tasks = append(tasks, c17.Task{Prio: 0, Cost: cost, Run: func() {
				circuit, _, err := g16Outer(f, f.edits[0].t, k)
				if err != nil {
					c.Fatal("outer circuit for the genuine triple: %v", err)
				}
				cc := c17.Compile(outerField, "r1cs", circuit)
				if cc.Err != "" {
					c.Fatal("compiling the groth16 outer circuit (%s %s): %s", PairName, k, cc.Err)
				}
				c.Count("compiled:"+PairName, fmt.Sprintf("groth16/%s %s constraints", f.kind, k), int64(cc.CCS.GetNbConstraints()))
				for n, e := range sel {
					if c.Expired() {
						c.Cap(fmt.Sprintf("internal deadline: compiled groth16/%s %s %s: %d of %d edits solved", f.kind, PairName, k, n, len(sel)))
						return
					}
					ok, why := false, ""
					circuit, assignment, err := g16Outer(f, e.t, k)
					switch {
					case err != nil:
						why = err.Error()
					case e.shape:
						// the compiled circuit has the genuine shape; an assignment of another length
						// gets the circuit of its own shape (the definition-time length checks decide)
						ok, why = c17.Compile(outerField, "r1cs", circuit).Solve(PairName+" "+"groth16", assignment)
					default:
						ok, why = cc.Solve(PairName+" "+"groth16", assignment)
					}
					judge(e, k, ok, why)
				}
			}})
		}
	}
	return tasks
}

// ---------------------------------------------------------------- key switching

type g16SwitchOuter struct {
	Selector     frontend.Variable
	Proof        stdgroth16.Proof[G1El, G2El]
	vks          []stdgroth16.VerifyingKey[G1El, G2El, GtEl] `gnark:"-"`
	InnerWitness stdgroth16.Witness[FR] `gnark:",public"`
}

func (o *g16SwitchOuter) Define(api frontend.API) error {
	v, err := stdgroth16.NewVerifier[FR, G1El, G2El, GtEl](api)
	if err != nil {
		return fmt.Errorf("new verifier: %w", err)
	}
	vk, err := v.SwitchVerificationKey(o.Selector, o.vks)
	if err != nil {
		return fmt.Errorf("switch: %w", err)
	}
	return v.AssertProof(vk, o.Proof, o.InnerWitness)
}

// g16SwitchTasks: two keys (circuit variants 0 and 1), every selector value and every proof:
// the outer circuit must be satisfiable exactly when the native verifier accepts the proof under
// the SELECTED key.
func g16SwitchTasks(c *vh.Check, p c17.Plan, f *g16Fix) []c17.Task {
	var tasks []c17.Task
	// circuit-side values are built inside each task: gnark's emulated elements cache evaluation
	// state, so one value must never be used by two concurrently running engines
	mkVKs := func() []stdgroth16.VerifyingKey[G1El, G2El, GtEl] {
		var vks []stdgroth16.VerifyingKey[G1El, G2El, GtEl]
		for v := 0; v < 2; v++ {
			k, err := stdgroth16.ValueOfVerifyingKey[G1El, G2El, GtEl](f.vk[v])
			if err != nil {
				c.Fatal("ValueOfVerifyingKey: %v", err)
			}
			vks = append(vks, k)
		}
		return vks
	}
	cost := 1
	if Emulated {
		cost = 100
	}
	for sel := 0; sel < 3; sel++ {
		for pv := 0; pv < 2; pv++ {
			for w := 0; w < 2; w++ {
				if !p.Full && (w == 1 || (sel == 2 && pv == 1)) {
					continue
				}
				if p.Rotate && sel == 0 && pv == 1 {
					continue
				}
				sel, pv, w := sel, pv, w
				tasks = append(tasks, c17.Task{Prio: 0, Cost: cost, Run: func() {
					t := g16Triple{f.proof[pv][w], nil, f.pub[pv][w]}
					native, nerr := false, "selector out of range: no key is selected (selector.Mux: 'sel needs to be between 0 and n - 1, otherwise the proof will fail')"
					if sel < 2 {
						t.vk = f.vk[sel]
						native, nerr = g16NativeAccepts(t)
						if native != (sel == pv) {
							c.Fatal("native groth16: proof under key %d, verified under key %d: accepts=%v (%s)", pv, sel, native, nerr)
						}
					}
					ap, err1 := stdgroth16.ValueOfProof[G1El, G2El](t.proof)
					aw, err2 := stdgroth16.ValueOfWitness[FR](pubWitness(t.pub))
					if err1 != nil || err2 != nil {
						c.Fatal("assignment: %v %v", err1, err2)
					}
					circuit := &g16SwitchOuter{Proof: stdgroth16.PlaceholderProof[G1El, G2El](f.ccs[0]), InnerWitness: stdgroth16.PlaceholderWitness[FR](f.ccs[0]), vks: mkVKs()}
					assignment := &g16SwitchOuter{Selector: sel, Proof: ap, InnerWitness: aw}
					ok, why := c17.TestEngine(PairName+" "+"groth16-switch", circuit, assignment, outerField)
					c17.Judge(c, c17.Case{Verifier: "groth16-switch", Pair: PairName, Mode: "2-keys,te", Inner: f.kind, Edit: fmt.Sprintf("selector=%d,proof-under-key=%d,witness=%d", sel, pv, w),
						Native: native, Circuit: ok, Class: "selector", Detail: map[string]any{"native_error": nerr, "circuit_error": why}})
				}})
			}
		}
	}
	return tasks
}
