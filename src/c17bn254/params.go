// Package c17bn254 is the C17 kit for BN254 proofs verified inside a BN254 circuit (emulated
// arithmetic).  params.go is hand-written; the other files are generated from src/c17bls12377.
package c17bn254

import (
	"github.com/consensys/gnark-crypto/ecc"
	"github.com/consensys/gnark/std/algebra/emulated/sw_bn254"
)

type (
	G1El = sw_bn254.G1Affine
	G2El = sw_bn254.G2Affine
	GtEl = sw_bn254.GTEl
	FR   = sw_bn254.ScalarField
)

var (
	InnerID = ecc.BN254
	OuterID = ecc.BN254
)

const (
	PairName = "bn254-in-bn254"
	flagMask = 0xC0 // flag bits of the compressed point encoding
	SubgroupChecks = true
	Emulated = true
)

