// Package ops is the alphabet of frontend API operations shared by the program generator
// (C04, C06, C09, C11) and the constraint-relation check (C05): for each operation the way to
// emit it through the real frontend.API and a boring big.Int reference of its documented
// meaning.
package ops

import (
	"fmt"
	"math/big"

	"github.com/consensys/gnark/constraint/solver"
	"github.com/consensys/gnark/frontend"
)

// Res is the reference meaning of one operation on one operand tuple.
type Res struct {
	Sat  bool       // false: the documented meaning makes the circuit unsatisfiable
	Out  []*big.Int // output values (len = NOut) when Sat
	Free bool       // outputs are documented to be unconstrained (DivUnchecked(0,0)); Out is the honest solver's value
}

type Op struct {
	Name    string
	NIn     int
	NOut    int
	SCSOnly bool
	// BoolIn marks operands that the operation constrains to be boolean (used to choose input alphabets)
	Build func(api frontend.API, in []frontend.Variable) []frontend.Variable
	Ref   func(p *big.Int, in []*big.Int) Res
}

func bi(x int64) *big.Int { return big.NewInt(x) }
func mod(x, p *big.Int) *big.Int {
	r := new(big.Int).Mod(x, p)
	return r
}
func isBool(x *big.Int) bool { return x.Sign() == 0 || (x.IsInt64() && x.Int64() == 1) }
func sat1(x *big.Int) Res   { return Res{Sat: true, Out: []*big.Int{x}} }

var unsat = Res{}

func bitlen(p *big.Int) int { return p.BitLen() }

// DoubleHint is a user hint z = 2x used by the "Hint" operation.
func DoubleHint(q *big.Int, in, out []*big.Int) error {
	out[0].Lsh(in[0], 1)
	out[0].Mod(out[0], q)
	return nil
}

func init() { solver.RegisterHint(DoubleHint) }

func toBinOp(n int, name string) Op {
	return Op{Name: name, NIn: 1, NOut: n,
		Build: func(api frontend.API, in []frontend.Variable) []frontend.Variable {
			return api.ToBinary(in[0], n)
		},
		Ref: func(p *big.Int, in []*big.Int) Res {
			if in[0].BitLen() > n {
				return unsat
			}
			out := make([]*big.Int, n)
			for i := range out {
				out[i] = bi(int64(in[0].Bit(i)))
			}
			return Res{Sat: true, Out: out}
		}}
}

// toBinOverOp: ToBinary asked for MORE digits than the field has (req > nbits): the gadget returns
// the canonical nbits-digit decomposition (the request is clamped), every value is in range.
func toBinOverOp(nbits, req int, name string) Op {
	return Op{Name: name, NIn: 1, NOut: nbits,
		Build: func(api frontend.API, in []frontend.Variable) []frontend.Variable {
			b := api.ToBinary(in[0], req)
			if len(b) < nbits {
				panic(fmt.Sprintf("harness: ToBinary(x, %d) returned %d bits", req, len(b)))
			}
			for _, hi := range b[nbits:] {
				api.AssertIsEqual(hi, 0) // digits beyond the field size, if the gadget returns them, are 0
			}
			return b[:nbits]
		},
		Ref: func(p *big.Int, in []*big.Int) Res {
			out := make([]*big.Int, nbits)
			for i := range out {
				out[i] = bi(int64(in[0].Bit(i)))
			}
			return Res{Sat: true, Out: out}
		}}
}

// All returns the alphabet, simplest first.  nbits is the field bit length (ToBinary full).
func All(nbits int) []Op {
	l := []Op{
		{Name: "Add", NIn: 2, NOut: 1,
			Build: func(api frontend.API, in []frontend.Variable) []frontend.Variable {
				return []frontend.Variable{api.Add(in[0], in[1])}
			},
			Ref: func(p *big.Int, in []*big.Int) Res { return sat1(mod(new(big.Int).Add(in[0], in[1]), p)) }},
		{Name: "Sub", NIn: 2, NOut: 1,
			Build: func(api frontend.API, in []frontend.Variable) []frontend.Variable {
				return []frontend.Variable{api.Sub(in[0], in[1])}
			},
			Ref: func(p *big.Int, in []*big.Int) Res { return sat1(mod(new(big.Int).Sub(in[0], in[1]), p)) }},
		{Name: "Neg", NIn: 1, NOut: 1,
			Build: func(api frontend.API, in []frontend.Variable) []frontend.Variable {
				return []frontend.Variable{api.Neg(in[0])}
			},
			Ref: func(p *big.Int, in []*big.Int) Res { return sat1(mod(new(big.Int).Neg(in[0]), p)) }},
		{Name: "Mul", NIn: 2, NOut: 1,
			Build: func(api frontend.API, in []frontend.Variable) []frontend.Variable {
				return []frontend.Variable{api.Mul(in[0], in[1])}
			},
			Ref: func(p *big.Int, in []*big.Int) Res { return sat1(mod(new(big.Int).Mul(in[0], in[1]), p)) }},
		{Name: "Add3", NIn: 3, NOut: 1,
			Build: func(api frontend.API, in []frontend.Variable) []frontend.Variable {
				return []frontend.Variable{api.Add(in[0], in[1], in[2])}
			},
			Ref: func(p *big.Int, in []*big.Int) Res {
				return sat1(mod(new(big.Int).Add(new(big.Int).Add(in[0], in[1]), in[2]), p))
			}},
		{Name: "Sub3", NIn: 3, NOut: 1,
			Build: func(api frontend.API, in []frontend.Variable) []frontend.Variable {
				return []frontend.Variable{api.Sub(in[0], in[1], in[2])}
			},
			Ref: func(p *big.Int, in []*big.Int) Res {
				return sat1(mod(new(big.Int).Sub(new(big.Int).Sub(in[0], in[1]), in[2]), p))
			}},
		{Name: "Mul3", NIn: 3, NOut: 1,
			Build: func(api frontend.API, in []frontend.Variable) []frontend.Variable {
				return []frontend.Variable{api.Mul(in[0], in[1], in[2])}
			},
			Ref: func(p *big.Int, in []*big.Int) Res {
				return sat1(mod(new(big.Int).Mul(new(big.Int).Mul(in[0], in[1]), in[2]), p))
			}},
		{Name: "MulAcc", NIn: 3, NOut: 1,
			Build: func(api frontend.API, in []frontend.Variable) []frontend.Variable {
				// documented contract: MulAcc may mutate its first argument; a value that is used
				// elsewhere (the generated programs reuse every intermediate result) has to be copied
				// first, the documented way
				acopy := api.Mul(in[0], 1)
				return []frontend.Variable{api.MulAcc(acopy, in[1], in[2])}
			},
			Ref: func(p *big.Int, in []*big.Int) Res {
				return sat1(mod(new(big.Int).Add(in[0], new(big.Int).Mul(in[1], in[2])), p))
			}},
		{Name: "Div", NIn: 2, NOut: 1,
			Build: func(api frontend.API, in []frontend.Variable) []frontend.Variable {
				return []frontend.Variable{api.Div(in[0], in[1])}
			},
			Ref: func(p *big.Int, in []*big.Int) Res {
				if in[1].Sign() == 0 {
					return unsat
				}
				return sat1(mod(new(big.Int).Mul(in[0], new(big.Int).ModInverse(in[1], p)), p))
			}},
		{Name: "DivUnchecked", NIn: 2, NOut: 1,
			Build: func(api frontend.API, in []frontend.Variable) []frontend.Variable {
				return []frontend.Variable{api.DivUnchecked(in[0], in[1])}
			},
			Ref: func(p *big.Int, in []*big.Int) Res {
				if in[1].Sign() == 0 {
					if in[0].Sign() == 0 {
						return Res{Sat: true, Out: []*big.Int{bi(0)}, Free: true}
					}
					return unsat
				}
				return sat1(mod(new(big.Int).Mul(in[0], new(big.Int).ModInverse(in[1], p)), p))
			}},
		{Name: "Inverse", NIn: 1, NOut: 1,
			Build: func(api frontend.API, in []frontend.Variable) []frontend.Variable {
				return []frontend.Variable{api.Inverse(in[0])}
			},
			Ref: func(p *big.Int, in []*big.Int) Res {
				if in[0].Sign() == 0 {
					return unsat
				}
				return sat1(new(big.Int).ModInverse(in[0], p))
			}},
		toBinOp(1, "ToBinary1"),
		toBinOp(3, "ToBinary3"),
		toBinOp(nbits, "ToBinaryFull"),
		toBinOverOp(nbits, nbits+1, "ToBinaryFull+1"),
		toBinOverOp(nbits, 2*nbits, "ToBinaryFullx2"),
		{Name: "FromBinary3", NIn: 3, NOut: 1,
			Build: func(api frontend.API, in []frontend.Variable) []frontend.Variable {
				return []frontend.Variable{api.FromBinary(in[0], in[1], in[2])}
			},
			Ref: func(p *big.Int, in []*big.Int) Res {
				if !isBool(in[0]) || !isBool(in[1]) || !isBool(in[2]) {
					return unsat
				}
				return sat1(bi(in[0].Int64() + 2*in[1].Int64() + 4*in[2].Int64()))
			}},
		boolOp("Xor", func(a, b int64) int64 { return a ^ b }, func(api frontend.API, a, b frontend.Variable) frontend.Variable { return api.Xor(a, b) }),
		boolOp("Or", func(a, b int64) int64 { return a | b }, func(api frontend.API, a, b frontend.Variable) frontend.Variable { return api.Or(a, b) }),
		boolOp("And", func(a, b int64) int64 { return a & b }, func(api frontend.API, a, b frontend.Variable) frontend.Variable { return api.And(a, b) }),
		{Name: "Select", NIn: 3, NOut: 1,
			Build: func(api frontend.API, in []frontend.Variable) []frontend.Variable {
				return []frontend.Variable{api.Select(in[0], in[1], in[2])}
			},
			Ref: func(p *big.Int, in []*big.Int) Res {
				if !isBool(in[0]) {
					return unsat
				}
				if in[0].Sign() != 0 {
					return sat1(in[1])
				}
				return sat1(in[2])
			}},
		{Name: "Lookup2", NIn: 6, NOut: 1,
			Build: func(api frontend.API, in []frontend.Variable) []frontend.Variable {
				return []frontend.Variable{api.Lookup2(in[0], in[1], in[2], in[3], in[4], in[5])}
			},
			Ref: func(p *big.Int, in []*big.Int) Res {
				if !isBool(in[0]) || !isBool(in[1]) {
					return unsat
				}
				return sat1(in[2+in[0].Int64()+2*in[1].Int64()])
			}},
		{Name: "IsZero", NIn: 1, NOut: 1,
			Build: func(api frontend.API, in []frontend.Variable) []frontend.Variable {
				return []frontend.Variable{api.IsZero(in[0])}
			},
			Ref: func(p *big.Int, in []*big.Int) Res {
				if in[0].Sign() == 0 {
					return sat1(bi(1))
				}
				return sat1(bi(0))
			}},
		{Name: "Cmp", NIn: 2, NOut: 1,
			Build: func(api frontend.API, in []frontend.Variable) []frontend.Variable {
				return []frontend.Variable{api.Cmp(in[0], in[1])}
			},
			Ref: func(p *big.Int, in []*big.Int) Res {
				return sat1(mod(bi(int64(in[0].Cmp(in[1]))), p))
			}},
		{Name: "AssertIsEqual", NIn: 2, NOut: 0,
			Build: func(api frontend.API, in []frontend.Variable) []frontend.Variable {
				api.AssertIsEqual(in[0], in[1])
				return nil
			},
			Ref: func(p *big.Int, in []*big.Int) Res { return Res{Sat: in[0].Cmp(in[1]) == 0} }},
		{Name: "AssertIsDifferent", NIn: 2, NOut: 0,
			Build: func(api frontend.API, in []frontend.Variable) []frontend.Variable {
				api.AssertIsDifferent(in[0], in[1])
				return nil
			},
			Ref: func(p *big.Int, in []*big.Int) Res { return Res{Sat: in[0].Cmp(in[1]) != 0} }},
		{Name: "AssertIsBoolean", NIn: 1, NOut: 0,
			Build: func(api frontend.API, in []frontend.Variable) []frontend.Variable {
				api.AssertIsBoolean(in[0])
				return nil
			},
			Ref: func(p *big.Int, in []*big.Int) Res { return Res{Sat: isBool(in[0])} }},
		{Name: "AssertIsCrumb", NIn: 1, NOut: 0,
			Build: func(api frontend.API, in []frontend.Variable) []frontend.Variable {
				api.AssertIsCrumb(in[0])
				return nil
			},
			Ref: func(p *big.Int, in []*big.Int) Res { return Res{Sat: in[0].Cmp(bi(4)) < 0} }},
		{Name: "AssertIsLessOrEqual", NIn: 2, NOut: 0,
			Build: func(api frontend.API, in []frontend.Variable) []frontend.Variable {
				api.AssertIsLessOrEqual(in[0], in[1])
				return nil
			},
			Ref: func(p *big.Int, in []*big.Int) Res { return Res{Sat: in[0].Cmp(in[1]) <= 0} }},
		{Name: "Hint", NIn: 1, NOut: 1,
			Build: func(api frontend.API, in []frontend.Variable) []frontend.Variable {
				h, err := api.Compiler().NewHint(DoubleHint, 1, in[0])
				if err != nil {
					panic(err)
				}
				api.AssertIsEqual(h[0], api.Mul(in[0], 2))
				return []frontend.Variable{h[0]}
			},
			Ref: func(p *big.Int, in []*big.Int) Res { return sat1(mod(new(big.Int).Lsh(in[0], 1), p)) }},
		plonkEval("PlonkEval_1_2_3_4", 1, 2, 3, 4),
		plonkEval("PlonkEval_0_0_1_0", 0, 0, 1, 0),
		plonkEval("PlonkEval_m1_0_0_5", -1, 0, 0, 5),
		plonkCons("PlonkCons_1_2_m1_3_4", 1, 2, -1, 3, 4),
		plonkCons("PlonkCons_0_0_1_1_0", 0, 0, 1, 1, 0),
		// compositions in which the first operation marks a value boolean and the second relies on it
		{Name: "IsZero;Select", NIn: 3, NOut: 1,
			Build: func(api frontend.API, in []frontend.Variable) []frontend.Variable {
				return []frontend.Variable{api.Select(api.IsZero(in[0]), in[1], in[2])}
			},
			Ref: func(p *big.Int, in []*big.Int) Res {
				if in[0].Sign() == 0 {
					return sat1(in[1])
				}
				return sat1(in[2])
			}},
		{Name: "And;Xor", NIn: 3, NOut: 1,
			Build: func(api frontend.API, in []frontend.Variable) []frontend.Variable {
				return []frontend.Variable{api.Xor(api.And(in[0], in[1]), in[2])}
			},
			Ref: func(p *big.Int, in []*big.Int) Res {
				if !isBool(in[0]) || !isBool(in[1]) || !isBool(in[2]) {
					return unsat
				}
				return sat1(bi((in[0].Int64() & in[1].Int64()) ^ in[2].Int64()))
			}},
		{Name: "ToBinary3;FromBinary", NIn: 1, NOut: 1,
			Build: func(api frontend.API, in []frontend.Variable) []frontend.Variable {
				b := api.ToBinary(in[0], 3)
				return []frontend.Variable{api.FromBinary(b[1], b[2], b[0])}
			},
			Ref: func(p *big.Int, in []*big.Int) Res {
				if in[0].BitLen() > 3 {
					return unsat
				}
				return sat1(bi(int64(in[0].Bit(1)) + 2*int64(in[0].Bit(2)) + 4*int64(in[0].Bit(0))))
			}},
		{Name: "Cmp;IsZero", NIn: 2, NOut: 1,
			Build: func(api frontend.API, in []frontend.Variable) []frontend.Variable {
				return []frontend.Variable{api.IsZero(api.Cmp(in[0], in[1]))}
			},
			Ref: func(p *big.Int, in []*big.Int) Res {
				if in[0].Cmp(in[1]) == 0 {
					return sat1(bi(1))
				}
				return sat1(bi(0))
			}},
		// a wire marked boolean, then a SCALED term on the same wire used where a boolean is required
		{Name: "AssertBool;AssertBool(2x)", NIn: 1, NOut: 0,
			Build: func(api frontend.API, in []frontend.Variable) []frontend.Variable {
				api.AssertIsBoolean(in[0])
				api.AssertIsBoolean(api.Mul(in[0], 2))
				return nil
			},
			Ref: func(p *big.Int, in []*big.Int) Res { return Res{Sat: in[0].Sign() == 0} }},
		{Name: "AssertBool(2x);AssertBool", NIn: 1, NOut: 0,
			Build: func(api frontend.API, in []frontend.Variable) []frontend.Variable {
				api.AssertIsBoolean(api.Mul(in[0], 2))
				api.AssertIsBoolean(in[0])
				return nil
			},
			Ref: func(p *big.Int, in []*big.Int) Res { return Res{Sat: in[0].Sign() == 0} }},
		{Name: "And;Select(-a)", NIn: 3, NOut: 1,
			Build: func(api frontend.API, in []frontend.Variable) []frontend.Variable {
				api.And(in[0], in[1])
				return []frontend.Variable{api.Select(api.Neg(in[0]), in[2], 7)}
			},
			Ref: func(p *big.Int, in []*big.Int) Res {
				// a, b boolean and -a boolean => a == 0 => selects the second branch
				if !isBool(in[1]) || in[0].Sign() != 0 {
					return unsat
				}
				return sat1(bi(7))
			}},
		{Name: "IsZero;Xor(3z)", NIn: 2, NOut: 1,
			Build: func(api frontend.API, in []frontend.Variable) []frontend.Variable {
				z := api.IsZero(in[0])
				return []frontend.Variable{api.Xor(api.Mul(z, 3), in[1])}
			},
			Ref: func(p *big.Int, in []*big.Int) Res {
				// 3z boolean => z == 0 => in[0] != 0; result = in[1]
				if in[0].Sign() == 0 || !isBool(in[1]) {
					return unsat
				}
				return sat1(in[1])
			}},
		{Name: "AssertBool;Select", NIn: 3, NOut: 1,
			Build: func(api frontend.API, in []frontend.Variable) []frontend.Variable {
				api.AssertIsBoolean(in[0])
				return []frontend.Variable{api.Select(in[0], in[1], in[2])}
			},
			Ref: func(p *big.Int, in []*big.Int) Res {
				if !isBool(in[0]) {
					return unsat
				}
				if in[0].Sign() != 0 {
					return sat1(in[1])
				}
				return sat1(in[2])
			}},
	}
	return l
}

func boolOp(name string, f func(a, b int64) int64, b func(api frontend.API, a, b frontend.Variable) frontend.Variable) Op {
	return Op{Name: name, NIn: 2, NOut: 1,
		Build: func(api frontend.API, in []frontend.Variable) []frontend.Variable {
			return []frontend.Variable{b(api, in[0], in[1])}
		},
		Ref: func(p *big.Int, in []*big.Int) Res {
			if !isBool(in[0]) || !isBool(in[1]) {
				return unsat
			}
			return sat1(bi(f(in[0].Int64(), in[1].Int64())))
		}}
}

func plonkEval(name string, ql, qr, qm, qc int) Op {
	return Op{Name: name, NIn: 2, NOut: 1, SCSOnly: true,
		Build: func(api frontend.API, in []frontend.Variable) []frontend.Variable {
			return []frontend.Variable{api.(frontend.PlonkAPI).EvaluatePlonkExpression(in[0], in[1], ql, qr, qm, qc)}
		},
		Ref: func(p *big.Int, in []*big.Int) Res {
			r := new(big.Int).Mul(bi(int64(ql)), in[0])
			r.Add(r, new(big.Int).Mul(bi(int64(qr)), in[1]))
			r.Add(r, new(big.Int).Mul(bi(int64(qm)), new(big.Int).Mul(in[0], in[1])))
			r.Add(r, bi(int64(qc)))
			return sat1(mod(r, p))
		}}
}

func plonkCons(name string, ql, qr, qo, qm, qc int) Op {
	return Op{Name: name, NIn: 3, NOut: 0, SCSOnly: true,
		Build: func(api frontend.API, in []frontend.Variable) []frontend.Variable {
			api.(frontend.PlonkAPI).AddPlonkConstraint(in[0], in[1], in[2], ql, qr, qo, qm, qc)
			return nil
		},
		Ref: func(p *big.Int, in []*big.Int) Res {
			r := new(big.Int).Mul(bi(int64(ql)), in[0])
			r.Add(r, new(big.Int).Mul(bi(int64(qr)), in[1]))
			r.Add(r, new(big.Int).Mul(bi(int64(qo)), in[2]))
			r.Add(r, new(big.Int).Mul(bi(int64(qm)), new(big.Int).Mul(in[0], in[1])))
			r.Add(r, bi(int64(qc)))
			return Res{Sat: mod(r, p).Sign() == 0}
		}}
}

// ByName finds an op.
func ByName(l []Op, name string) *Op {
	for i := range l {
		if l[i].Name == name {
			return &l[i]
		}
	}
	return nil
}
