// Package vh is the common runtime of every check: flags, evidence, violations with replay
// artefacts, known findings, parallel helpers.
package vh

import (
	"encoding/json"
	"flag"
	"fmt"
	"os"
	"path/filepath"
	"runtime/debug"
	"sort"
	"strconv"
	"strings"
	"sync"
	"sync/atomic"
	"time"
)

const Root = "/verif"

// Check collects what one run of one property check covered.
type Check struct {
	ID       string
	Tier     string
	Seed     int64
	Replay   string
	Only     string // optional sub-check filter
	Deadline time.Time
	start    time.Time

	Evals       atomic.Int64 // executions of real code
	States      atomic.Int64
	Transitions atomic.Int64
	Traces      atomic.Int64 // executions validated against the implementation / reference

	mu         sync.Mutex
	distinct   map[string]int
	samples    []any
	violations []violation
	knownHit   map[string]int
	known      []Finding
	caps       []string
	notes      []string
	assume     []string
	extra      map[string]any
	rule       string
	explain    string
	inexhaust  bool
	sections   map[string]map[string]int64
}

type violation struct {
	Key    string `json:"key"`
	Detail any    `json:"detail"`
	Path   string `json:"path"`
}

// Finding is one entry of /verif/known_findings.json.
type Finding struct {
	Property string `json:"property"`
	Key      string `json:"key"`    // exact violation key, or prefix when Prefix is set
	Prefix   bool   `json:"prefix"` // key is a prefix (same defect reached through several inputs)
	Contains bool   `json:"contains"` // key is a substring identifying the failure mode inside structured keys
	What     string `json:"what"`
	// KeysFile (relative to /verif): the exact violation keys of this finding, one per line (a
	// defect reached through many enumerated inputs); Key is then only the finding's identifier.
	KeysFile string `json:"keys_file"`
	keys     map[string]bool
}

type findingsFile struct {
	Findings []Finding `json:"findings"`
	Fixed    []string  `json:"fixed"`
}

// New parses the common flags.
func New(id string) *Check {
	c := &Check{ID: id, start: time.Now(), distinct: map[string]int{}, knownHit: map[string]int{}, extra: map[string]any{}, sections: map[string]map[string]int64{}}
	tier := flag.String("tier", os.Getenv("VERIF_TIER"), "quick|thorough")
	replay := flag.String("replay", "", "replay file")
	only := flag.String("only", "", "restrict to sub-check")
	budget := flag.Duration("budget", 0, "internal deadline (0 = tier default)")
	flag.Parse()
	debug.SetGCPercent(400)
	if *tier != "thorough" {
		*tier = "quick"
	}
	c.Tier = *tier
	c.Replay = *replay
	c.Only = *only
	if s := os.Getenv("VERIF_SEED"); s != "" {
		c.Seed, _ = strconv.ParseInt(s, 10, 64)
	}
	if *budget == 0 {
		if c.Tier == "quick" {
			*budget = 240 * time.Second
		} else {
			*budget = 25 * time.Minute
		}
	}
	c.Deadline = c.start.Add(*budget)
	if s := os.Getenv("VERIF_DEADLINE_UNIX"); s != "" {
		if u, err := strconv.ParseInt(s, 10, 64); err == nil {
			c.Deadline = time.Unix(u, 0)
		}
	}
	// VERIF_NO_KNOWN=1 (triage only): report every violation, also the recorded ones
	if b, err := os.ReadFile(filepath.Join(Root, "known_findings.json")); err == nil && os.Getenv("VERIF_NO_KNOWN") == "" {
		var ff findingsFile
		if err := json.Unmarshal(b, &ff); err != nil {
			fmt.Println("HARNESS-ERROR: known_findings.json:", err)
			os.Exit(3)
		}
		for _, f := range ff.Findings {
			if f.Property == id {
				if f.KeysFile != "" {
					kb, err := os.ReadFile(filepath.Join(Root, f.KeysFile))
					if err != nil {
						fmt.Println("HARNESS-ERROR: known finding keys file:", err)
						os.Exit(3)
					}
					f.keys = map[string]bool{}
					for _, l := range strings.Split(string(kb), "\n") {
						if l = strings.TrimRight(l, "\r"); l != "" && !strings.HasPrefix(l, "#") {
							f.keys[l] = true
						}
					}
				}
				c.known = append(c.known, f)
			}
		}
	}
	return c
}

// ReplayDetail returns the "detail" object of the replay artefact given with -replay (nil if none).
func (c *Check) ReplayDetail() map[string]any {
	if c.Replay == "" {
		return nil
	}
	b, err := os.ReadFile(c.Replay)
	if err != nil {
		c.Fatal("replay file: %v", err)
	}
	var r struct {
		Key    string         `json:"key"`
		Detail map[string]any `json:"detail"`
	}
	if err := json.Unmarshal(b, &r); err != nil {
		c.Fatal("replay file: %v", err)
	}
	fmt.Printf("REPLAY %s\n  key: %s\n", c.Replay, r.Key)
	if r.Detail == nil {
		r.Detail = map[string]any{}
	}
	r.Detail["__key"] = r.Key
	return r.Detail
}

// ReplayChoices extracts the recorded choice sequence of an explorer-based violation.
func ReplayChoices(d map[string]any) []int {
	var out []int
	if l, ok := d["choices"].([]any); ok {
		for _, x := range l {
			if f, ok := x.(float64); ok {
				out = append(out, int(f))
			}
		}
	}
	return out
}

func (c *Check) Quick() bool   { return c.Tier == "quick" }
func (c *Check) Expired() bool { return time.Now().After(c.Deadline) }

// Want reports whether sub-check name is selected by -only.
func (c *Check) Want(name string) bool {
	if c.Only == "" {
		return true
	}
	for _, s := range strings.Split(c.Only, ",") {
		if s == name || strings.HasPrefix(name, s) {
			return true
		}
	}
	return false
}

// Outcome records a behaviour class (for the distinct / vacuity count).
func (c *Check) Outcome(class string) {
	c.mu.Lock()
	c.distinct[class]++
	c.mu.Unlock()
}

// Count adds to a per-section counter reported in evidence (extra key "sections").
func (c *Check) Count(section, key string, n int64) {
	c.mu.Lock()
	m := c.sections[section]
	if m == nil {
		m = map[string]int64{}
		c.sections[section] = m
	}
	m[key] += n
	c.mu.Unlock()
}

func (c *Check) Sample(s any) {
	c.mu.Lock()
	if len(c.samples) < 24 {
		c.samples = append(c.samples, s)
	}
	c.mu.Unlock()
}

func (c *Check) Cap(s string) {
	c.mu.Lock()
	c.caps = append(c.caps, s)
	c.inexhaust = true
	c.mu.Unlock()
}
func (c *Check) Note(s string)         { c.mu.Lock(); c.notes = append(c.notes, s); c.mu.Unlock() }
func (c *Check) Assume(s ...string)    { c.mu.Lock(); c.assume = append(c.assume, s...); c.mu.Unlock() }
func (c *Check) Rule(s string)         { c.rule = s }
func (c *Check) Explain(s string)      { c.explain = s }
func (c *Check) Extra(k string, v any) { c.mu.Lock(); c.extra[k] = v; c.mu.Unlock() }

// Violation records a property violation.  key identifies the failing input / schedule /
// history canonically (it is what known_findings.json is matched against); detail is
// written to the replay artefact.
func (c *Check) Violation(key string, detail any) {
	c.mu.Lock()
	defer c.mu.Unlock()
	for _, f := range c.known {
		if (f.keys != nil && f.keys[key]) || (f.keys == nil && (f.Key == key || (f.Prefix && strings.HasPrefix(key, f.Key)) || (f.Contains && strings.Contains(key, f.Key)))) {
			c.knownHit[f.Key]++
			if p := os.Getenv("VERIF_LOG_KNOWN"); p != "" {
				if fh, err := os.OpenFile(p, os.O_APPEND|os.O_CREATE|os.O_WRONLY, 0o644); err == nil {
					fmt.Fprintf(fh, "%s\t%s\t%s\n", c.ID, f.Key, key)
					fh.Close()
				}
			}
			return
		}
	}
	for _, v := range c.violations {
		if v.Key == key {
			return
		}
	}
	if len(c.violations) >= maxViol() {
		return
	}
	os.MkdirAll(filepath.Join(Root, "replays"), 0o755)
	p := filepath.Join(Root, "replays", fmt.Sprintf("%s-%d.json", c.ID, len(c.violations)+1))
	b, _ := json.MarshalIndent(map[string]any{"property": c.ID, "key": key, "tier": c.Tier, "detail": detail}, "", " ")
	os.WriteFile(p, b, 0o644)
	c.violations = append(c.violations, violation{key, detail, p})
}

func (c *Check) NViolations() int { c.mu.Lock(); defer c.mu.Unlock(); return len(c.violations) }

// Fatal reports a harness problem (never a violation) and exits 3.
func (c *Check) Fatal(format string, a ...any) {
	fmt.Printf("HARNESS-ERROR property=%s: %s\n", c.ID, fmt.Sprintf(format, a...))
	os.Exit(3)
}

// Finish writes evidence, prints KNOWN-FINDING / VIOLATION lines and exits.
func (c *Check) Finish() {
	c.mu.Lock()
	defer c.mu.Unlock()
	wall := time.Since(c.start).Seconds()
	classes := make([]string, 0, len(c.distinct))
	for k := range c.distinct {
		classes = append(classes, k)
	}
	sort.Strings(classes)
	cov := map[string]any{
		"evaluations":                   c.Evals.Load(),
		"distinct_nontrivial":           len(c.distinct),
		"rule":                          c.rule,
		"samples":                       samplesOrOutcomes(c.samples, classes),
		"states":                        max64(c.States.Load(), c.Evals.Load()),
		"transitions":                   max64(c.Transitions.Load(), c.Evals.Load()),
		"traces_validated_against_impl": c.Traces.Load(),
		"exhaustive":                    !c.inexhaust,
		"caps_hit":                      c.caps,
		"outcome_classes":               truncate(classes, 60),
		"sections":                      c.sections,
		"explanation":                   c.explain,
		"notes":                         c.notes,
	}
	kf := []string{}
	for _, f := range c.known {
		if n := c.knownHit[f.Key]; n > 0 {
			kf = append(kf, fmt.Sprintf("%s (%d hits)", f.Key, n))
		}
	}
	cov["known_findings_matched"] = kf
	for k, v := range c.extra {
		cov[k] = v
	}
	if c.Replay == "" {
		ev := map[string]any{
			"property_id": c.ID, "tier": c.Tier, "seed": c.Seed, "level": "model_checking",
			"coverage": cov, "assumptions": c.assume, "wall_s": wall, "violations": len(c.violations),
		}
		b, _ := json.MarshalIndent(ev, "", " ")
		os.MkdirAll(filepath.Join(Root, "evidence"), 0o755)
		if err := os.WriteFile(filepath.Join(Root, "evidence", c.ID+".json"), b, 0o644); err != nil {
			fmt.Println("HARNESS-ERROR: writing evidence:", err)
			os.Exit(3)
		}
	}
	fmt.Printf("%s tier=%s evals=%d states=%d transitions=%d traces=%d classes=%d exhaustive=%v wall=%.1fs\n",
		c.ID, c.Tier, c.Evals.Load(), c.States.Load(), c.Transitions.Load(), c.Traces.Load(), len(c.distinct), !c.inexhaust, wall)
	for _, s := range c.caps {
		fmt.Println("CAP:", s)
	}
	for _, f := range c.known {
		if c.knownHit[f.Key] > 0 {
			if f.keys != nil {
				fmt.Printf("KNOWN-FINDING: property=%s %s [%s: %d of the %d listed inputs in %s]\n", c.ID, f.What, f.Key, c.knownHit[f.Key], len(f.keys), f.KeysFile)
				continue
			}
			fmt.Printf("KNOWN-FINDING: property=%s %s [%s]\n", c.ID, f.What, f.Key)
		}
	}
	if len(c.violations) > 0 {
		for _, v := range c.violations {
			fmt.Printf("VIOLATION property=%s replay=%s\n", c.ID, v.Path)
			fmt.Printf("  key: %s\n", v.Key)
		}
		os.Exit(1)
	}
	if len(c.distinct) < 2 && c.Replay == "" {
		fmt.Printf("HARNESS-ERROR property=%s: vacuous exploration (%d behaviour classes)\n", c.ID, len(c.distinct))
		os.Exit(3)
	}
	os.Exit(0)
}

func max64(a, b int64) int64 {
	if a > b {
		return a
	}
	return b
}
func truncate(s []string, n int) []string {
	if len(s) > n {
		return append(s[:n:n], fmt.Sprintf("… %d more", len(s)-n))
	}
	return s
}

// Par runs f(i) for i in [0,n) on all cores; stops handing out work when the deadline passes
// (returns false in that case).
func (c *Check) Par(n int, f func(i int)) bool {
	return ParN(n, 0, func(i int) bool {
		if c.Expired() {
			return false
		}
		f(i)
		return true
	})
}

// ParN runs f over [0,n) with `workers` goroutines (0 = NumCPU); f returning false stops.
func ParN(n, workers int, f func(i int) bool) bool {
	if workers <= 0 {
		workers = NumWorkers()
	}
	var next atomic.Int64
	var stop atomic.Bool
	var wg sync.WaitGroup
	for w := 0; w < workers; w++ {
		wg.Add(1)
		go func() {
			defer wg.Done()
			for !stop.Load() {
				i := int(next.Add(1) - 1)
				if i >= n {
					return
				}
				if !f(i) {
					stop.Store(true)
					return
				}
			}
		}()
	}
	wg.Wait()
	return !stop.Load()
}

func NumWorkers() int {
	if s := os.Getenv("VERIF_WORKERS"); s != "" {
		if n, err := strconv.Atoi(s); err == nil && n > 0 {
			return n
		}
	}
	return 16
}

// Recover runs f and converts a panic into an error string ("" = no panic).
func Recover(f func()) (panicked string) {
	defer func() {
		if r := recover(); r != nil {
			panicked = fmt.Sprint(r)
		}
	}()
	f()
	return ""
}

func maxViol() int {
	if s := os.Getenv("VERIF_MAXVIOL"); s != "" {
		if n, err := strconv.Atoi(s); err == nil {
			return n
		}
	}
	return 50
}

// samplesOrOutcomes: evidence always carries a list; a run whose parts recorded no written-out case
// (e.g. a run restricted with -only) lists its first behaviour classes instead.
func samplesOrOutcomes(samples []any, classes []string) []any {
	if len(samples) > 0 {
		return samples
	}
	out := []any{}
	for i, cl := range classes {
		if i == 5 {
			break
		}
		out = append(out, map[string]any{"behaviour_class_observed": cl, "note": "no written-out case was recorded by the parts that ran"})
	}
	return out
}
