package vh

import (
	"bufio"
	"bytes"
	"encoding/json"
	"fmt"
	"os"
	"os/exec"
	"strconv"
	"strings"
)

// State is what a worker process hands back to the coordinator.
type State struct {
	Evals, States, Transitions, Traces int64
	Distinct                           map[string]int
	Sections                           map[string]map[string]int64
	Samples                            []any
	Violations                         []violation
	KnownHit                           map[string]int
	Caps, Notes                        []string
}

func (c *Check) exportState() State {
	c.mu.Lock()
	defer c.mu.Unlock()
	return State{c.Evals.Load(), c.States.Load(), c.Transitions.Load(), c.Traces.Load(), c.distinct, c.sections, c.samples, c.violations, c.knownHit, c.caps, c.notes}
}

// Merge folds a worker's state into the coordinator.
func (c *Check) Merge(s State) {
	c.Evals.Add(s.Evals)
	c.States.Add(s.States)
	c.Transitions.Add(s.Transitions)
	c.Traces.Add(s.Traces)
	c.mu.Lock()
	for k, v := range s.Distinct {
		c.distinct[k] += v
	}
	for sec, m := range s.Sections {
		if c.sections[sec] == nil {
			c.sections[sec] = map[string]int64{}
		}
		for k, v := range m {
			c.sections[sec][k] += v
		}
	}
	for _, x := range s.Samples {
		if len(c.samples) < 24 {
			c.samples = append(c.samples, x)
		}
	}
	for k, v := range s.KnownHit {
		c.knownHit[k] += v
	}
	for _, x := range s.Caps {
		c.caps = append(c.caps, x)
		c.inexhaust = true
	}
	c.notes = append(c.notes, s.Notes...)
	c.mu.Unlock()
	for _, v := range s.Violations {
		c.Violation(v.Key, v.Detail)
	}
}

// WorkerArgs returns (unit, from) when this process was started as an isolated worker.
func WorkerArgs() (unit string, from int, ok bool) {
	u := os.Getenv("VERIF_WORKER_UNIT")
	if u == "" {
		return "", 0, false
	}
	from, _ = strconv.Atoi(os.Getenv("VERIF_WORKER_FROM"))
	return u, from, true
}

// WorkerAt announces the index of the input about to be processed (crash attribution).
var workerOut *bufio.Writer

func WorkerAt(i int, what string) {
	if workerOut == nil {
		workerOut = bufio.NewWriterSize(os.Stdout, 1<<16)
	}
	fmt.Fprintf(workerOut, "AT %d %s\n", i, what)
	workerOut.Flush()
}

// WorkerDone prints the worker's state and exits 0.
func (c *Check) WorkerDone() {
	if workerOut == nil {
		workerOut = bufio.NewWriterSize(os.Stdout, 1<<16)
	}
	b, _ := json.Marshal(c.exportState())
	fmt.Fprintf(workerOut, "DONE %s\n", b)
	workerOut.Flush()
	os.Exit(0)
}

// Crash describes a worker that died while processing an input.
type Crash struct {
	Unit   string
	Index  int
	What   string
	Stderr string
}

// RunIsolated runs one unit of work in worker subprocesses of this same binary under an
// address-space limit (KB).  A worker that dies is restarted after the input it died on;
// every death is reported through onCrash (the caller classifies it).
func (c *Check) RunIsolated(unit string, limitKB int, onCrash func(Crash)) {
	from := 0
	for attempt := 0; attempt < 200; attempt++ {
		exe, _ := os.Executable()
		cmd := exec.Command("bash", "-c", fmt.Sprintf("ulimit -v %d; exec %q -tier %s", limitKB, exe, c.Tier))
		cmd.Env = append(os.Environ(), "VERIF_WORKER_UNIT="+unit, "VERIF_WORKER_FROM="+strconv.Itoa(from), "VERIF_WORKERS=2",
			fmt.Sprintf("VERIF_DEADLINE_UNIX=%d", c.Deadline.Unix()))
		var stderr bytes.Buffer
		cmd.Stderr = &stderr
		out, err := cmd.StdoutPipe()
		if err != nil {
			c.Fatal("pipe: %v", err)
		}
		if err := cmd.Start(); err != nil {
			c.Fatal("start worker: %v", err)
		}
		sc := bufio.NewScanner(out)
		sc.Buffer(make([]byte, 1<<20), 1<<28)
		lastIdx, lastWhat, done := -1, "", false
		for sc.Scan() {
			line := sc.Text()
			switch {
			case strings.HasPrefix(line, "AT "):
				parts := strings.SplitN(line, " ", 3)
				lastIdx, _ = strconv.Atoi(parts[1])
				if len(parts) > 2 {
					lastWhat = parts[2]
				}
			case strings.HasPrefix(line, "DONE "):
				var s State
				if err := json.Unmarshal([]byte(line[5:]), &s); err != nil {
					c.Fatal("worker state: %v", err)
				}
				c.Merge(s)
				done = true
			case strings.HasPrefix(line, "HARNESS-ERROR"):
				fmt.Println(line)
				cmd.Wait()
				os.Exit(3)
			}
		}
		cmd.Wait()
		if done {
			return
		}
		if strings.Contains(stderr.String(), "VSCHED-WATCHDOG") {
			os.WriteFile(Root+"/.work/watchdog-"+strings.ReplaceAll(unit, "/", "_")+".txt", stderr.Bytes(), 0o644)
			c.Fatal("scheduler watchdog fired in worker %s (goroutine dump in /verif/.work/watchdog-*.txt)", unit)
		}
		if lastIdx < from {
			c.Fatal("worker for %s died before reaching input %d:\n%s", unit, from, tail(stderr.String(), 2000))
		}
		onCrash(Crash{unit, lastIdx, lastWhat, stderr.String()})
		from = lastIdx + 1
	}
	c.Fatal("worker for %s crashed too many times", unit)
}

func tail(s string, n int) string {
	if len(s) > n {
		return s[len(s)-n:]
	}
	return s
}

// FirstFrames extracts the first k non-runtime frames of the crashing goroutine from a Go
// fatal-error dump.
func FirstFrames(stderr string, k int) []string {
	var out []string
	started := false
	for _, l := range strings.Split(stderr, "\n") {
		if strings.HasPrefix(l, "goroutine ") && strings.Contains(l, "[running]") {
			started = true
			continue
		}
		if !started {
			continue
		}
		if l == "" {
			break
		}
		if strings.HasPrefix(l, "\t") && !strings.Contains(l, "/src/runtime/") && !strings.Contains(l, "/usr/lib/go") {
			f := strings.TrimSpace(l)
			if i := strings.Index(f, " +0x"); i > 0 {
				f = f[:i]
			}
			out = append(out, f)
			if len(out) == k {
				break
			}
		}
	}
	return out
}
