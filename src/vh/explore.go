package vh

import (
	"fmt"
	"sync"
	"sync/atomic"
)

// Ctx is one execution of a harness body under the explorer.  All nondeterminism is
// funnelled through Choose; the default answer is 0.
type Ctx struct {
	prefix  []int
	expectL []string // labels recorded for the prefix (determinism guard)
	expectN []int
	Choices []int
	Labels  []string
	Ns      []int
	Costs   []int // cost of each alternative != 0 at this point (1 unless ChooseFree)
	Diverged string
	User    any
}

// Choose returns an answer in [0,n).  Non-default answers cost one deviation.
func (x *Ctx) Choose(label string, n int) int { return x.choose(label, n, 1) }

// ChooseFree is a choice whose alternatives cost nothing (forced switches, full enumeration).
func (x *Ctx) ChooseFree(label string, n int) int { return x.choose(label, n, 0) }

func (x *Ctx) choose(label string, n int, cost int) int {
	if n <= 0 {
		panic("Choose: n<=0 at " + label)
	}
	i := len(x.Choices)
	v := 0
	if i < len(x.prefix) {
		v = x.prefix[i]
		if i < len(x.expectL) && (x.expectL[i] != label || x.expectN[i] != n) {
			if x.Diverged == "" {
				x.Diverged = fmt.Sprintf("point %d: recorded (%s,%d) now (%s,%d)", i, x.expectL[i], x.expectN[i], label, n)
			}
		}
		if v >= n {
			if x.Diverged == "" {
				x.Diverged = fmt.Sprintf("point %d: choice %d out of range %d (%s)", i, v, n, label)
			}
			v = 0
		}
	}
	x.Choices = append(x.Choices, v)
	x.Labels = append(x.Labels, label)
	x.Ns = append(x.Ns, n)
	x.Costs = append(x.Costs, cost)
	return v
}

// Deviations returns the cost spent so far.
func (x *Ctx) Deviations() int {
	d := 0
	for i, c := range x.Choices {
		if c != 0 {
			d += x.Costs[i]
		}
	}
	return d
}

// Trace renders the non-default choices.
func (x *Ctx) Trace() []string {
	var t []string
	for i, c := range x.Choices {
		if c != 0 {
			t = append(t, fmt.Sprintf("%d:%s=%d/%d", i, x.Labels[i], c, x.Ns[i]))
		}
	}
	return t
}

// Explorer enumerates every choice sequence whose deviation cost is <= Bound.
type Explorer struct {
	Bound    int
	Workers  int                  // parallel executions (1 for scheduler harnesses)
	Run      func(x *Ctx)         // harness body: runs real code, calls x.Choose, judges the execution
	Stop     func() bool          // deadline
	OnNondet func(x *Ctx)         // determinism guard tripped
	Prune    func(x *Ctx, i int) bool // optional: do not branch at point i
	Execs    atomic.Int64
	Points   atomic.Int64
	Capped   atomic.Bool
}

type workItem struct {
	prefix  []int
	expectL []string
	expectN []int
}

// Explore runs the search; returns false if stopped by Stop().
func (e *Explorer) Explore() bool {
	workers := e.Workers
	if workers <= 0 {
		workers = NumWorkers()
	}
	var mu sync.Mutex
	cond := sync.NewCond(&mu)
	stack := []workItem{{}}
	active := 0
	stopped := false
	var wg sync.WaitGroup
	for w := 0; w < workers; w++ {
		wg.Add(1)
		go func() {
			defer wg.Done()
			for {
				mu.Lock()
				for len(stack) == 0 && active > 0 && !stopped {
					cond.Wait()
				}
				if stopped || (len(stack) == 0 && active == 0) {
					mu.Unlock()
					cond.Broadcast()
					return
				}
				it := stack[len(stack)-1]
				stack = stack[:len(stack)-1]
				active++
				mu.Unlock()

				if e.Stop != nil && e.Stop() {
					mu.Lock()
					stopped = true
					active--
					mu.Unlock()
					cond.Broadcast()
					e.Capped.Store(true)
					return
				}
				x := &Ctx{prefix: it.prefix, expectL: it.expectL, expectN: it.expectN}
				e.Run(x)
				e.Execs.Add(1)
				e.Points.Add(int64(len(x.Choices)))
				var kids []workItem
				if x.Diverged != "" {
					if e.OnNondet != nil {
						e.OnNondet(x)
					}
				} else {
					base := 0
					for i := 0; i < len(it.prefix) && i < len(x.Choices); i++ {
						if x.Choices[i] != 0 {
							base += x.Costs[i]
						}
					}
					for i := len(x.Choices) - 1; i >= len(it.prefix); i-- {
						if base+x.Costs[i] > e.Bound {
							continue
						}
						if e.Prune != nil && e.Prune(x, i) {
							continue
						}
						for alt := x.Ns[i] - 1; alt >= 1; alt-- {
							p := make([]int, i+1)
							copy(p, x.Choices[:i])
							p[i] = alt
							kids = append(kids, workItem{p, x.Labels[:i+1], x.Ns[:i+1]})
						}
					}
				}
				mu.Lock()
				stack = append(stack, kids...)
				active--
				mu.Unlock()
				cond.Broadcast()
			}
		}()
	}
	wg.Wait()
	return !stopped
}

// RunOnce replays one choice sequence (for -replay and for re-validating violations).
func RunOnce(run func(x *Ctx), choices []int) *Ctx {
	x := &Ctx{prefix: choices}
	run(x)
	return x
}
