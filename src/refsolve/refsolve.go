// Package refsolve is the boring reference for gnark's constraint solver: one thread,
// instructions in creation order, big.Int arithmetic, no levels, no fast paths, no caches.
// It also provides refeval: row-by-row evaluation of a full assignment.
package refsolve

import (
	"errors"
	"fmt"
	"math/big"
	"reflect"

	"github.com/consensys/gnark/constraint"
	"github.com/consensys/gnark/constraint/solver"
)

// SystemOf extracts the embedded *constraint.System of a compiled system by reflection.
func SystemOf(cs any) *constraint.System {
	v := reflect.ValueOf(cs)
	for v.Kind() == reflect.Ptr || v.Kind() == reflect.Interface {
		v = v.Elem()
	}
	f := v.FieldByName("System")
	if !f.IsValid() {
		panic(fmt.Sprintf("refsolve: %T has no System field", cs))
	}
	return f.Addr().Interface().(*constraint.System)
}

// VecToBig converts any fr.Vector / []fr.Element to big integers by reflection.
func VecToBig(v any) []*big.Int {
	rv := reflect.ValueOf(v)
	if rv.Kind() == reflect.Ptr {
		rv = rv.Elem()
	}
	out := make([]*big.Int, rv.Len())
	for i := range out {
		e := rv.Index(i).Addr().Interface().(interface{ BigInt(*big.Int) *big.Int })
		out[i] = e.BigInt(new(big.Int))
	}
	return out
}

// SolutionParts returns the exported vectors of an R1CSSolution / SparseR1CSSolution.
func SolutionParts(sol any) map[string][]*big.Int {
	rv := reflect.ValueOf(sol)
	for rv.Kind() == reflect.Ptr {
		rv = rv.Elem()
	}
	out := map[string][]*big.Int{}
	for i := 0; i < rv.NumField(); i++ {
		out[rv.Type().Field(i).Name] = VecToBig(rv.Field(i).Addr().Interface())
	}
	return out
}

type Result struct {
	Vals     []*big.Int // nil entries = never solved
	Err      error
	Kind     string // "", "violated", "hint", "unsupported", "unsolved"
	FailInst int
}

type ref[E constraint.Element] struct {
	cs    constraint.ConstraintSystemGeneric[E]
	sys   *constraint.System
	p     *big.Int
	vals  []*big.Int
	coefs []*big.Int
}

func (r *ref[E]) coef(id uint32) *big.Int {
	if r.coefs[id] == nil {
		r.coefs[id] = r.cs.ToBigInt(r.cs.GetCoefficient(int(id)))
	}
	return r.coefs[id]
}

var errUnsolvedRead = errors.New("reads an unsolved wire")

// le evaluates a linear expression; unsolved collects unsolved wires with their summed coefficient.
func (r *ref[E]) le(l constraint.LinearExpression, unsolved map[uint32]*big.Int) *big.Int {
	acc := new(big.Int)
	for _, t := range l {
		c := r.coef(t.CID)
		if t.IsConstant() {
			acc.Add(acc, c)
			continue
		}
		v := r.vals[t.VID]
		if v == nil {
			if c.Sign() == 0 {
				continue
			}
			if unsolved != nil {
				if unsolved[t.VID] == nil {
					unsolved[t.VID] = new(big.Int)
				}
				unsolved[t.VID].Add(unsolved[t.VID], c)
				unsolved[t.VID].Mod(unsolved[t.VID], r.p)
			}
			continue
		}
		acc.Add(acc, new(big.Int).Mul(c, v))
	}
	return acc.Mod(acc, r.p)
}

func (r *ref[E]) readLE(calldata []uint32) (constraint.LinearExpression, int) {
	n := int(calldata[0])
	l := make(constraint.LinearExpression, n)
	j := 1
	for k := 0; k < n; k++ {
		l[k] = constraint.Term{CID: calldata[j], VID: calldata[j+1]}
		j += 2
	}
	return l, j
}

func (r *ref[E]) inv(x *big.Int) *big.Int { return new(big.Int).ModInverse(x, r.p) }

func (r *ref[E]) solveR1C(c *constraint.R1C) (string, error) {
	uL, uR, uO := map[uint32]*big.Int{}, map[uint32]*big.Int{}, map[uint32]*big.Int{}
	L, R, O := r.le(c.L, uL), r.le(c.R, uR), r.le(c.O, uO)
	drop := func(m map[uint32]*big.Int) {
		for k, v := range m {
			if v.Sign() == 0 {
				delete(m, k)
			}
		}
	}
	drop(uL)
	drop(uR)
	drop(uO)
	n := len(uL) + len(uR) + len(uO)
	switch {
	case n == 0:
		// a wire multiplied by a zero coefficient everywhere is still "solved" (to 0) by the real solver
		r.markZeroCoefWires(c)
		lhs := new(big.Int).Mul(L, R)
		if lhs.Mod(lhs, r.p).Cmp(O) != 0 {
			return "violated", fmt.Errorf("%s * %s != %s", L, R, O)
		}
		return "", nil
	case n > 1:
		return "unsupported", fmt.Errorf("more than one unsolved wire occurrence in a row")
	}
	set := func(w uint32, v *big.Int) { r.vals[w] = v.Mod(v, r.p) }
	if len(uO) == 1 {
		for w, k := range uO {
			v := new(big.Int).Mul(L, R)
			v.Sub(v, O)
			v.Mul(v, r.inv(k))
			set(w, v)
		}
		return "", nil
	}
	side, other, u := L, R, uL
	if len(uR) == 1 {
		side, other, u = R, L, uR
	}
	for w, k := range u {
		if other.Sign() == 0 {
			// 0 * (side + k w) == O holds for every w iff O == 0
			if O.Sign() != 0 {
				return "violated", fmt.Errorf("0 * x != %s", O)
			}
			set(w, new(big.Int))
			return "", nil
		}
		v := new(big.Int).Mul(O, r.inv(other))
		v.Sub(v, side)
		v.Mul(v, r.inv(k))
		set(w, v)
	}
	return "", nil
}

func (r *ref[E]) markZeroCoefWires(c *constraint.R1C) {
	for _, l := range []constraint.LinearExpression{c.L, c.R, c.O} {
		for _, t := range l {
			if !t.IsConstant() && r.vals[t.VID] == nil {
				r.vals[t.VID] = new(big.Int)
			}
		}
	}
}

func (r *ref[E]) solveSparse(c *constraint.SparseR1C) (string, error) {
	if c.Commitment != constraint.NOT {
		return "", nil
	}
	ql, qr, qo, qm, qc := r.coef(c.QL), r.coef(c.QR), r.coef(c.QO), r.coef(c.QM), r.coef(c.QC)
	a, b, o := r.vals[c.XA], r.vals[c.XB], r.vals[c.XC]
	// which wire is unsolved
	var w uint32
	nuns := 0
	seen := map[uint32]bool{}
	for _, x := range []uint32{c.XA, c.XB, c.XC} {
		if r.vals[x] == nil && !seen[x] {
			seen[x] = true
			w = x
			nuns++
		}
	}
	z := new(big.Int)
	val := func(v *big.Int) *big.Int {
		if v == nil {
			return z
		}
		return v
	}
	if nuns == 0 {
		acc := new(big.Int).Mul(ql, a)
		acc.Add(acc, new(big.Int).Mul(qr, b))
		acc.Add(acc, new(big.Int).Mul(qo, o))
		acc.Add(acc, new(big.Int).Mul(qm, new(big.Int).Mul(a, b)))
		acc.Add(acc, qc)
		if acc.Mod(acc, r.p).Sign() != 0 {
			return "violated", fmt.Errorf("gate evaluates to %s", acc)
		}
		return "", nil
	}
	if nuns > 1 {
		// the real solver treats the position it solves for and reads the others as they are;
		// gates with two distinct unsolved wires are not emitted by the builders
		return "unsupported", fmt.Errorf("two unsolved wires in a gate")
	}
	atA, atB, atC := c.XA == w, c.XB == w, c.XC == w
	if atA && atB && qm.Sign() != 0 {
		return "unsupported", fmt.Errorf("quadratic in the unsolved wire")
	}
	k := new(big.Int)
	rest := new(big.Int).Set(qc)
	if atA {
		k.Add(k, ql)
		if !atB {
			k.Add(k, new(big.Int).Mul(qm, val(b)))
		}
	} else {
		rest.Add(rest, new(big.Int).Mul(ql, a))
	}
	if atB {
		k.Add(k, qr)
		if !atA {
			k.Add(k, new(big.Int).Mul(qm, val(a)))
		}
	} else {
		rest.Add(rest, new(big.Int).Mul(qr, b))
	}
	if atC {
		k.Add(k, qo)
	} else {
		rest.Add(rest, new(big.Int).Mul(qo, o))
	}
	if !atA && !atB {
		rest.Add(rest, new(big.Int).Mul(qm, new(big.Int).Mul(a, b)))
	}
	k.Mod(k, r.p)
	rest.Mod(rest, r.p)
	if k.Sign() == 0 {
		if rest.Sign() != 0 {
			return "violated", fmt.Errorf("0 * x + %s != 0", rest)
		}
		r.vals[w] = new(big.Int)
		return "", nil
	}
	v := new(big.Int).Neg(rest)
	v.Mul(v, r.inv(k))
	r.vals[w] = v.Mod(v, r.p)
	return "", nil
}

// Hints returns the hint table the real solver would use: registered hints + overrides.
func Hints(overrides map[solver.HintID]solver.Hint) map[solver.HintID]solver.Hint {
	m := map[solver.HintID]solver.Hint{}
	for _, h := range solver.GetRegisteredHints() {
		m[solver.GetHintID(h)] = h
	}
	for k, v := range overrides {
		m[k] = v
	}
	return m
}

// Solve runs the reference solver.  witness = public (without the ONE wire) then secret.
func Solve[E constraint.Element](cs constraint.ConstraintSystemGeneric[E], witness []*big.Int, hints map[solver.HintID]solver.Hint) *Result {
	sys := SystemOf(cs)
	r := &ref[E]{cs: cs, sys: sys, p: cs.Field()}
	nw := len(sys.Public) + len(sys.Secret) + sys.NbInternalVariables
	r.vals = make([]*big.Int, nw)
	r.coefs = make([]*big.Int, cs.GetNbCoefficients())
	off := 0
	if sys.Type == constraint.SystemR1CS {
		r.vals[0] = big.NewInt(1)
		off = 1
	}
	res := &Result{FailInst: -1}
	if len(witness) != len(sys.Public)-off+len(sys.Secret) {
		res.Err = fmt.Errorf("invalid witness size")
		res.Kind = "witness"
		return res
	}
	for i, w := range witness {
		r.vals[off+i] = new(big.Int).Mod(w, r.p)
	}
	lookupEntries := map[constraint.BlueprintID][]*big.Int{}
	lookupOffset := map[constraint.BlueprintID]int{}
	fail := func(i int, kind string, err error) *Result {
		res.Vals = r.vals
		res.Err = fmt.Errorf("instruction %d: %w", i, err)
		res.Kind = kind
		res.FailInst = i
		return res
	}
	for i := range sys.Instructions {
		pi := sys.Instructions[i]
		bp := sys.Blueprints[pi.BlueprintID]
		inst := pi.Unpack(sys)
		switch b := bp.(type) {
		case *constraint.BlueprintLookupHint[E]:
			nbEntries := int(inst.Calldata[1])
			ent := lookupEntries[pi.BlueprintID]
			o := lookupOffset[pi.BlueprintID]
			for len(ent) < nbEntries {
				l, d := r.readLE(b.EntriesCalldata[o:])
				o += d
				ent = append(ent, r.le(l, nil))
			}
			lookupEntries[pi.BlueprintID] = ent
			lookupOffset[pi.BlueprintID] = o
			nbIn := int(inst.Calldata[2])
			j := 3
			for k := 0; k < nbIn; k++ {
				l, d := r.readLE(inst.Calldata[j:])
				j += d
				idx := r.le(l, nil)
				if !idx.IsUint64() || idx.Uint64() >= uint64(nbEntries) {
					return fail(i, "hint", fmt.Errorf("lookup query too large"))
				}
				r.vals[int(inst.WireOffset)+k] = new(big.Int).Set(ent[idx.Uint64()])
			}
			continue
		}
		if sys.Type == constraint.SystemR1CS {
			if bc, ok := bp.(constraint.BlueprintR1C); ok {
				var c constraint.R1C
				bc.DecompressR1C(&c, inst)
				if kind, err := r.solveR1C(&c); err != nil {
					return fail(i, kind, err)
				}
				continue
			}
		} else if bc, ok := bp.(constraint.BlueprintSparseR1C); ok {
			var c constraint.SparseR1C
			bc.DecompressSparseR1C(&c, inst)
			if kind, err := r.solveSparse(&c); err != nil {
				return fail(i, kind, err)
			}
			continue
		}
		if bc, ok := bp.(constraint.BlueprintHint); ok {
			var h constraint.HintMapping
			bc.DecompressHint(&h, inst)
			f := hints[h.HintID]
			if f == nil {
				return fail(i, "hint", fmt.Errorf("missing hint function %d", h.HintID))
			}
			in := make([]*big.Int, len(h.Inputs))
			for k := range in {
				in[k] = r.le(h.Inputs[k], nil)
			}
			out := make([]*big.Int, h.OutputRange.End-h.OutputRange.Start)
			for k := range out {
				out[k] = new(big.Int)
			}
			err := f(new(big.Int).Set(r.p), in, out)
			for k := range out {
				r.vals[int(h.OutputRange.Start)+k] = new(big.Int).Mod(out[k], r.p)
			}
			if err != nil {
				return fail(i, "hint", err)
			}
			continue
		}
		return fail(i, "unsupported", fmt.Errorf("blueprint %T", bp))
	}
	res.Vals = r.vals
	for w, v := range r.vals {
		if v == nil {
			res.Err = fmt.Errorf("wire %d never solved", w)
			res.Kind = "unsolved"
			return res
		}
	}
	return res
}

// EvalR1CS checks a full assignment against every row; returns the row evaluations.
func EvalR1CS[E constraint.Element](cs constraint.ConstraintSystemGeneric[E], w []*big.Int) (a, b, c []*big.Int, err error) {
	r := &ref[E]{cs: cs, p: cs.Field(), vals: w, coefs: make([]*big.Int, cs.GetNbCoefficients())}
	rows := cs.(constraint.R1CS[E]).GetR1Cs()
	for i := range rows {
		L, R, O := r.le(rows[i].L, nil), r.le(rows[i].R, nil), r.le(rows[i].O, nil)
		a, b, c = append(a, L), append(b, R), append(c, O)
		lhs := new(big.Int).Mul(L, R)
		if lhs.Mod(lhs, r.p).Cmp(O) != 0 && err == nil {
			err = fmt.Errorf("row %d: %s * %s != %s", i, L, R, O)
		}
	}
	return
}

// EvalSCS checks every gate of a sparse system on a full wire vector.
func EvalSCS[E constraint.Element](cs constraint.ConstraintSystemGeneric[E], w []*big.Int) error {
	r := &ref[E]{cs: cs, p: cs.Field(), vals: w, coefs: make([]*big.Int, cs.GetNbCoefficients())}
	gates := cs.(constraint.SparseR1CS[E]).GetSparseR1Cs()
	for i := range gates {
		g := &gates[i]
		if g.Commitment != constraint.NOT {
			continue
		}
		a, b, o := w[g.XA], w[g.XB], w[g.XC]
		acc := new(big.Int).Mul(r.coef(g.QL), a)
		acc.Add(acc, new(big.Int).Mul(r.coef(g.QR), b))
		acc.Add(acc, new(big.Int).Mul(r.coef(g.QO), o))
		acc.Add(acc, new(big.Int).Mul(r.coef(g.QM), new(big.Int).Mul(a, b)))
		acc.Add(acc, r.coef(g.QC))
		if acc.Mod(acc, r.p).Sign() != 0 {
			return fmt.Errorf("gate %d violated", i)
		}
	}
	return nil
}

// ReadWrite returns, per instruction, the wires it reads and the wires it is the first to
// mention (= the wires it solves), walking instructions in creation order.
func ReadWrite[E constraint.Element](cs constraint.ConstraintSystemGeneric[E]) (reads, writes [][]uint32) {
	sys := SystemOf(cs)
	nw := len(sys.Public) + len(sys.Secret) + sys.NbInternalVariables
	known := make([]bool, nw)
	for i := 0; i < len(sys.Public)+len(sys.Secret); i++ {
		known[i] = true
	}
	r := &ref[E]{cs: cs, sys: sys}
	reads = make([][]uint32, len(sys.Instructions))
	writes = make([][]uint32, len(sys.Instructions))
	lookupSeen := map[constraint.BlueprintID]int{}
	lookupOff := map[constraint.BlueprintID]int{}
	for i := range sys.Instructions {
		pi := sys.Instructions[i]
		bp := sys.Blueprints[pi.BlueprintID]
		inst := pi.Unpack(sys)
		var mentioned []uint32
		var outs []uint32
		addLE := func(l constraint.LinearExpression) {
			for _, t := range l {
				if !t.IsConstant() {
					mentioned = append(mentioned, t.VID)
				}
			}
		}
		switch b := bp.(type) {
		case *constraint.BlueprintLookupHint[E]:
			nbEntries := int(inst.Calldata[1])
			// conservatively: the instruction reads every entry up to nbEntries
			o := 0
			for k := 0; k < nbEntries; k++ {
				l, d := r.readLE(b.EntriesCalldata[o:])
				o += d
				addLE(l)
			}
			_ = lookupSeen
			_ = lookupOff
			nbIn := int(inst.Calldata[2])
			j := 3
			for k := 0; k < nbIn; k++ {
				l, d := r.readLE(inst.Calldata[j:])
				j += d
				addLE(l)
				outs = append(outs, uint32(int(inst.WireOffset)+k))
			}
		default:
			if bc, ok := bp.(constraint.BlueprintR1C); ok && sys.Type == constraint.SystemR1CS {
				var c constraint.R1C
				bc.DecompressR1C(&c, inst)
				addLE(c.L)
				addLE(c.R)
				addLE(c.O)
			} else if bc, ok := bp.(constraint.BlueprintSparseR1C); ok {
				var c constraint.SparseR1C
				bc.DecompressSparseR1C(&c, inst)
				mentioned = append(mentioned, c.XA, c.XB, c.XC)
			} else if bc, ok := bp.(constraint.BlueprintHint); ok {
				var h constraint.HintMapping
				bc.DecompressHint(&h, inst)
				for _, l := range h.Inputs {
					addLE(l)
				}
				for w := h.OutputRange.Start; w < h.OutputRange.End; w++ {
					outs = append(outs, w)
				}
			}
		}
		for _, w := range mentioned {
			if known[w] {
				reads[i] = append(reads[i], w)
			} else {
				known[w] = true
				writes[i] = append(writes[i], w)
			}
		}
		for _, w := range outs {
			known[w] = true
			writes[i] = append(writes[i], w)
		}
	}
	return
}

// LevelConflict checks the invariant that makes the solver's worker schedules irrelevant: no
// instruction reads a wire written by an instruction of the same or a later level.  It returns a
// description of the first conflict, or nil.
func LevelConflict[E constraint.Element](ccs constraint.ConstraintSystemGeneric[E]) map[string]any {
	sys := SystemOf(ccs)
	levelOf := make([]int, len(sys.Instructions))
	for l, lv := range sys.Levels {
		for _, i := range lv {
			levelOf[i] = l
		}
	}
	reads, writes := ReadWrite[E](ccs)
	writer := map[uint32]int{}
	for i, ws := range writes {
		for _, w := range ws {
			writer[w] = i
		}
	}
	for i, rs := range reads {
		for _, w := range rs {
			if j, ok := writer[w]; ok && j != i && levelOf[j] >= levelOf[i] {
				return map[string]any{"instruction": i, "level": levelOf[i], "reads_wire": w, "written_by": j, "writer_level": levelOf[j]}
			}
		}
	}
	return nil
}
