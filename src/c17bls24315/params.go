// Package c17bls24315 is the C17 kit for BLS24-315 proofs verified inside a BW6-633 circuit
// (native 2-chain).  params.go is hand-written per pairing; every other file of the package is
// the TEMPLATE from which src/c17gen/gen.sh derives the kits of the other pairings.
package c17bls24315

import (
	"github.com/consensys/gnark-crypto/ecc"
	"github.com/consensys/gnark/std/algebra/native/sw_bls24315"
)

type (
	G1El = sw_bls24315.G1Affine
	G2El = sw_bls24315.G2Affine
	GtEl = sw_bls24315.GT
	FR   = sw_bls24315.ScalarField
)

var (
	InnerID = ecc.BLS24_315
	OuterID = ecc.BW6_633
)

const (
	PairName = "bls24315-in-bw6633"
	flagMask = 0xE0 // flag bits of the compressed point encoding
	SubgroupChecks = false // sw_bls24315.AssertIsOnG1 panics "not implemented": WithSubgroupCheck is not offered for this curve
	Emulated = false
)

