// GENERATED from src/c17bls12377 by src/c17gen/gen.sh; DO NOT EDIT (see common.go).
package c17bls24315

import (
	"fmt"
	"os"
	"strings"

	curve "github.com/consensys/gnark-crypto/ecc/bls24-315"
	"github.com/consensys/gnark-crypto/ecc/bls24-315/fr"
	"github.com/consensys/gnark-crypto/ecc/bls24-315/kzg"
	plonk "github.com/consensys/gnark/backend/plonk/bls24-315"
	cs "github.com/consensys/gnark/constraint/bls24-315"
	"github.com/consensys/gnark/frontend"
	"github.com/consensys/gnark/frontend/cs/scs"
	"github.com/consensys/gnark/internal/verifh/c17"
	"github.com/consensys/gnark/internal/verifh/vh"
	stdkzg "github.com/consensys/gnark/std/commitments/kzg"
	"github.com/consensys/gnark/std/math/emulated"
	stdplonk "github.com/consensys/gnark/std/recursion/plonk"
	"github.com/consensys/gnark/test/unsafekzg"
)

// ---------------------------------------------------------------- genuine objects

type plonkFix struct {
	kind       string
	ccs        [2]*cs.SparseR1CS
	pk         [2]*plonk.ProvingKey
	vk         [2]*plonk.VerifyingKey
	pub        [2][2]fr.Vector
	proof      [2][2]*plonk.Proof
	edits      []plonkEdit
	degenerate string // non-empty: the key has an exceptional selector commitment (incomplete arithmetic undefined)
}

type plonkTriple struct {
	proof *plonk.Proof
	vk    *plonk.VerifyingKey
	pub   fr.Vector
}

func plonkNativeAccepts(t plonkTriple) (bool, string) {
	var err error
	c17.NativeRuns.Add(1)
	pan := vh.Recover(func() {
		err = plonk.Verify(t.proof, t.vk, append(fr.Vector(nil), t.pub...), stdplonk.GetNativeVerifierOptions(outerField, innerField))
	})
	if pan != "" {
		return false, "panic: " + pan
	}
	if err != nil {
		return false, err.Error()
	}
	return true, ""
}

func buildPlonk(c *vh.Check, kind string) *plonkFix {
	f := &plonkFix{kind: kind}
	var srs, srsL *kzg.SRS
	for v := 0; v < 2; v++ {
		ccs, err := frontend.Compile(innerField, scs.NewBuilder, &innerCircuit{variant: v, commit: kind != "nocommit", commit2: kind == "commit2"})
		if err != nil {
			c.Fatal("compile inner plonk circuit: %v", err)
		}
		f.ccs[v] = ccs.(*cs.SparseR1CS)
		if v == 0 {
			a, b, err := unsafekzg.NewSRS(ccs)
			if err != nil {
				c.Fatal("srs: %v", err)
			}
			srs, srsL = a.(*kzg.SRS), b.(*kzg.SRS)
		}
		f.pk[v], f.vk[v], err = plonk.Setup(f.ccs[v], *srs, *srsL)
		if err != nil {
			c.Fatal("plonk setup: %v", err)
		}
		for w := 0; w < 2; w++ {
			full, pub := innerWitness(c, v, w)
			f.pub[v][w] = pub
			f.proof[v][w], err = plonk.Prove(f.ccs[v], f.pk[v], full, stdplonk.GetNativeProverOptions(outerField, innerField))
			if err != nil {
				c.Fatal("plonk prove: %v", err)
			}
			if ok, why := plonkNativeAccepts(plonkTriple{f.proof[v][w], f.vk[v], pub}); !ok {
				c.Fatal("native plonk verifier rejects a genuine proof (%s %s): %s", PairName, kind, why)
			}
		}
	}
	if f.vk[0].Size != f.vk[1].Size || len(f.vk[0].Qcp) != len(f.vk[1].Qcp) || f.vk[0].Kzg.G1 != f.vk[1].Kzg.G1 {
		c.Fatal("inner plonk circuits do not have the same shape (sizes %d, %d)", f.vk[0].Size, f.vk[1].Size)
	}
	f.degenerate = plonkDegenerate(f.vk[0])
	if f.degenerate == "" {
		f.degenerate = plonkDegenerate(f.vk[1])
	}
	f.edits = plonkEdits(f)
	for i := range f.edits {
		e := &f.edits[i]
		e.native, e.nativeErr = plonkNativeAccepts(e.t)
		if e.class == "genuine" && !e.native {
			c.Fatal("native plonk verifier rejects the genuine case %s: %s", e.name, e.nativeErr)
		}
	}
	return f
}

// plonkDegenerate reports an exceptional configuration of the key's commitments (zero, equal,
// opposite) for which WithCompleteArithmetic is documented as necessary.
func plonkDegenerate(vk *plonk.VerifyingKey) string {
	pts := map[string]curve.G1Affine{"Ql": vk.Ql, "Qr": vk.Qr, "Qm": vk.Qm, "Qo": vk.Qo, "Qk": vk.Qk, "S0": vk.S[0], "S1": vk.S[1], "S2": vk.S[2]}
	for i := range vk.Qcp {
		pts[fmt.Sprintf("Qcp%d", i)] = vk.Qcp[i]
	}
	names := []string{"Ql", "Qr", "Qm", "Qo", "Qk", "S0", "S1", "S2"}
	for i := range vk.Qcp {
		names = append(names, fmt.Sprintf("Qcp%d", i))
	}
	for i, a := range names {
		pa := pts[a]
		if pa.IsInfinity() {
			return a + " is the point at infinity"
		}
		for _, b := range names[i+1:] {
			pb := pts[b]
			var nb curve.G1Affine
			nb.Neg(&pb)
			if pa == pb || pa == nb {
				return a + " = ±" + b
			}
		}
	}
	return ""
}

func clonePlonkProof(p *plonk.Proof) *plonk.Proof {
	q := *p
	q.Bsb22Commitments = append([]kzg.Digest(nil), p.Bsb22Commitments...)
	q.BatchedProof.ClaimedValues = append([]fr.Element(nil), p.BatchedProof.ClaimedValues...)
	return &q
}

func clonePlonkVK(vk *plonk.VerifyingKey) *plonk.VerifyingKey {
	q := *vk
	q.Qcp = append([]kzg.Digest(nil), vk.Qcp...)
	q.CommitmentConstraintIndexes = append([]uint64(nil), vk.CommitmentConstraintIndexes...)
	return &q
}

// ---------------------------------------------------------------- edit alphabet

type plonkEdit struct {
	name      string
	class     string
	t         plonkTriple
	nonsub    bool
	shape     bool
	sub       bool
	native    bool
	nativeErr string
}

func plonkEdits(f *plonkFix) []plonkEdit {
	a, b := f.proof[0][0], f.proof[0][1]
	x, xb := f.pub[0][0], f.pub[0][1]
	vk := f.vk[0]
	var out []plonkEdit
	add := func(e plonkEdit) {
		if e.t.proof == nil {
			e.t.proof = clonePlonkProof(a)
		}
		if e.t.vk == nil {
			e.t.vk = vk
		}
		if e.t.pub == nil {
			e.t.pub = x
		}
		out = append(out, e)
	}
	add(plonkEdit{name: "identity", class: "genuine", sub: true})
	add(plonkEdit{name: "proof-b-with-pub-b", class: "genuine", t: plonkTriple{proof: clonePlonkProof(b), pub: xb}})
	add(plonkEdit{name: "other-circuit(key,proof,pub)", class: "genuine", sub: true, t: plonkTriple{proof: clonePlonkProof(f.proof[1][0]), vk: f.vk[1], pub: f.pub[1][0]}})
	type slot struct {
		name string
		get  func(p *plonk.Proof) *curve.G1Affine
		sub  string // the alternative of this slot that belongs to the sub-alphabet
	}
	slots := []slot{
		{"LRO[0]", func(p *plonk.Proof) *curve.G1Affine { return &p.LRO[0] }, "plusG"},
		{"LRO[1]", func(p *plonk.Proof) *curve.G1Affine { return &p.LRO[1] }, ""},
		{"LRO[2]", func(p *plonk.Proof) *curve.G1Affine { return &p.LRO[2] }, ""},
		{"Z", func(p *plonk.Proof) *curve.G1Affine { return &p.Z }, "neg"},
		{"H[0]", func(p *plonk.Proof) *curve.G1Affine { return &p.H[0] }, ""},
		{"H[1]", func(p *plonk.Proof) *curve.G1Affine { return &p.H[1] }, "of-b"},
		{"H[2]", func(p *plonk.Proof) *curve.G1Affine { return &p.H[2] }, ""},
		{"BatchedProof.H", func(p *plonk.Proof) *curve.G1Affine { return &p.BatchedProof.H }, "plusG"},
		{"ZShiftedOpening.H", func(p *plonk.Proof) *curve.G1Affine { return &p.ZShiftedOpening.H }, "plusTorsion"},
	}
	for i := range a.Bsb22Commitments {
		i := i
		slots = append(slots, slot{fmt.Sprintf("Bsb22Commitments[%d]", i), func(p *plonk.Proof) *curve.G1Affine { return &p.Bsb22Commitments[i] }, "plusG"})
	}
	for si, s := range slots {
		cur := *s.get(a)
		o := slots[(si+1)%len(slots)]
		others := []namedG1{{n: "of-b", p: *s.get(b)}, {n: "slot:" + o.name, p: *o.get(a)}, {n: "vk.Ql", p: vk.Ql}}
		for _, e := range g1Alphabet(cur, others) {
			p := clonePlonkProof(a)
			*s.get(p) = e.p
			add(plonkEdit{name: s.name + ":=" + e.n, class: "proof-point", t: plonkTriple{proof: p}, nonsub: e.nonsub, sub: s.sub != "" && s.sub == e.n})
		}
	}
	type sslot struct {
		name string
		get  func(p *plonk.Proof) *fr.Element
		sub  string
	}
	var sslots []sslot
	for j := range a.BatchedProof.ClaimedValues {
		j := j
		s := ""
		if j == 1 {
			s = "v+1"
		}
		sslots = append(sslots, sslot{fmt.Sprintf("ClaimedValues[%d]", j), func(p *plonk.Proof) *fr.Element { return &p.BatchedProof.ClaimedValues[j] }, s})
	}
	sslots = append(sslots, sslot{"ZShifted.ClaimedValue", func(p *plonk.Proof) *fr.Element { return &p.ZShiftedOpening.ClaimedValue }, "0"})
	for _, s := range sslots {
		cur := *s.get(a)
		for _, e := range frAlphabet(cur, s.get(b)) {
			p := clonePlonkProof(a)
			*s.get(p) = e.v
			add(plonkEdit{name: s.name + ":=" + e.n, class: "proof-scalar", t: plonkTriple{proof: p}, sub: s.sub != "" && s.sub == e.n})
		}
	}
	le := func(name string, fn func(p *plonk.Proof)) {
		p := clonePlonkProof(a)
		fn(p)
		add(plonkEdit{name: name, class: "proof-list", t: plonkTriple{proof: p}, shape: true})
	}
	_, _, g1, _ := curve.Generators()
	one := fr.One()
	if len(a.Bsb22Commitments) > 0 {
		le("Bsb22:drop-last", func(p *plonk.Proof) { p.Bsb22Commitments = p.Bsb22Commitments[:len(p.Bsb22Commitments)-1] })
	}
	le("Bsb22:append-gen", func(p *plonk.Proof) { p.Bsb22Commitments = append(p.Bsb22Commitments, g1) })
	le("Bsb22:append-inf", func(p *plonk.Proof) { p.Bsb22Commitments = append(p.Bsb22Commitments, curve.G1Affine{}) })
	le("ClaimedValues:drop-last", func(p *plonk.Proof) {
		p.BatchedProof.ClaimedValues = p.BatchedProof.ClaimedValues[:len(p.BatchedProof.ClaimedValues)-1]
	})
	le("ClaimedValues:append-0", func(p *plonk.Proof) {
		p.BatchedProof.ClaimedValues = append(p.BatchedProof.ClaimedValues, fr.Element{})
	})
	le("ClaimedValues:truncate-2", func(p *plonk.Proof) { p.BatchedProof.ClaimedValues = p.BatchedProof.ClaimedValues[:2] })
	{
		p := clonePlonkProof(a)
		v := p.BatchedProof.ClaimedValues
		if v[1] != v[2] {
			v[1], v[2] = v[2], v[1]
		} else {
			v[1].Add(&v[1], &one)
		}
		add(plonkEdit{name: "ClaimedValues:swap-1-2", class: "proof-scalar", t: plonkTriple{proof: p}})
	}
	for _, pe := range pubAlphabet(x, xb) {
		add(plonkEdit{name: "replay:" + pe.n, class: "public", t: plonkTriple{pub: pe.v}, shape: pe.shape, sub: pe.sub})
	}
	add(plonkEdit{name: "proof-of-b", class: "proof-point", t: plonkTriple{proof: clonePlonkProof(b)}})
	// verifying key: another circuit's key of the same shape, whole and field by field
	other := f.vk[1]
	vke := func(name string, fn func(k *plonk.VerifyingKey)) {
		k := clonePlonkVK(vk)
		fn(k)
		add(plonkEdit{name: "vk:" + name, class: "vk", t: plonkTriple{vk: k}})
	}
	add(plonkEdit{name: "vk:=other-circuit", class: "vk", t: plonkTriple{vk: other}, sub: true})
	for i := 0; i < 3; i++ {
		i := i
		vke(fmt.Sprintf("S[%d]:=other's", i), func(k *plonk.VerifyingKey) { k.S[i] = other.S[i] })
	}
	vke("Ql:=other's", func(k *plonk.VerifyingKey) { k.Ql = other.Ql })
	vke("Qr:=other's", func(k *plonk.VerifyingKey) { k.Qr = other.Qr })
	vke("Qm:=other's", func(k *plonk.VerifyingKey) { k.Qm = other.Qm })
	vke("Qo:=other's", func(k *plonk.VerifyingKey) { k.Qo = other.Qo })
	vke("Qk:=other's", func(k *plonk.VerifyingKey) { k.Qk = other.Qk })
	for i := range vk.Qcp {
		i := i
		vke(fmt.Sprintf("Qcp[%d]:=other's", i), func(k *plonk.VerifyingKey) { k.Qcp[i] = other.Qcp[i] })
		vke(fmt.Sprintf("Qcp[%d]:=plusG", i), func(k *plonk.VerifyingKey) { k.Qcp[i].Add(&k.Qcp[i], &g1) })
		vke(fmt.Sprintf("CommitmentConstraintIndexes[%d]+1", i), func(k *plonk.VerifyingKey) { k.CommitmentConstraintIndexes[i]++ })
	}
	vke("Size*2", func(k *plonk.VerifyingKey) { k.Size *= 2 })
	vke("SizeInv+1", func(k *plonk.VerifyingKey) { k.SizeInv.Add(&k.SizeInv, &one) })
	vke("Generator:=square", func(k *plonk.VerifyingKey) { k.Generator.Square(&k.Generator) })
	vke("CosetShift+1", func(k *plonk.VerifyingKey) { k.CosetShift.Add(&k.CosetShift, &one) })
	vke("NbPublicVariables+1", func(k *plonk.VerifyingKey) { k.NbPublicVariables++ })
	vke("Kzg.G1:=double", func(k *plonk.VerifyingKey) { k.Kzg.G1.Double(&k.Kzg.G1) })
	vke("Kzg.G2[1]:=neg", func(k *plonk.VerifyingKey) {
		k.Kzg.G2[1].Neg(&k.Kzg.G2[1])
		k.Kzg.Lines[1] = curve.PrecomputeLines(k.Kzg.G2[1])
	})
	return out
}

// ---------------------------------------------------------------- outer circuits

type plonkOuterC struct { // whole verifying key fixed at compile time
	Proof        stdplonk.Proof[FR, G1El, G2El]
	VerifyingKey stdplonk.VerifyingKey[FR, G1El, G2El] `gnark:"-"`
	InnerWitness stdplonk.Witness[FR]                  `gnark:",public"`
	opts         []stdplonk.VerifierOption             `gnark:"-"`
}

func (o *plonkOuterC) Define(api frontend.API) error {
	v, err := stdplonk.NewVerifier[FR, G1El, G2El, GtEl](api)
	if err != nil {
		return fmt.Errorf("new verifier: %w", err)
	}
	return v.AssertProof(o.VerifyingKey, o.Proof, o.InnerWitness, o.opts...)
}

type plonkOuterW struct { // circuit-specific part of the key supplied as witness (base key constant)
	Proof        stdplonk.Proof[FR, G1El, G2El]
	BaseKey      stdplonk.BaseVerifyingKey[FR, G1El, G2El] `gnark:"-"`
	CircuitKey   stdplonk.CircuitVerifyingKey[FR, G1El]
	InnerWitness stdplonk.Witness[FR]      `gnark:",public"`
	opts         []stdplonk.VerifierOption `gnark:"-"`
}

func (o *plonkOuterW) Define(api frontend.API) error {
	v, err := stdplonk.NewVerifier[FR, G1El, G2El, GtEl](api)
	if err != nil {
		return fmt.Errorf("new verifier: %w", err)
	}
	vk := stdplonk.VerifyingKey[FR, G1El, G2El]{BaseVerifyingKey: o.BaseKey, CircuitVerifyingKey: o.CircuitKey}
	return v.AssertProof(vk, o.Proof, o.InnerWitness, o.opts...)
}

func plonkOpts(opt string) []stdplonk.VerifierOption {
	if opt == "complete" {
		return []stdplonk.VerifierOption{stdplonk.WithCompleteArithmetic()}
	}
	return nil
}

func plonkPlaceholders(f *plonkFix, ap stdplonk.Proof[FR, G1El, G2El], aw stdplonk.Witness[FR]) (stdplonk.Proof[FR, G1El, G2El], stdplonk.Witness[FR]) {
	ccs := f.ccs[0]
	pp := stdplonk.PlaceholderProof[FR, G1El, G2El](ccs)
	if len(pp.Bsb22Commitments) != len(ap.Bsb22Commitments) {
		pp.Bsb22Commitments = make([]stdkzg.Commitment[G1El], len(ap.Bsb22Commitments))
	}
	if len(pp.BatchedProof.ClaimedValues) != len(ap.BatchedProof.ClaimedValues) {
		pp.BatchedProof.ClaimedValues = make([]emulated.Element[FR], len(ap.BatchedProof.ClaimedValues))
	}
	pw := stdplonk.PlaceholderWitness[FR](ccs)
	if len(pw.Public) != len(aw.Public) {
		pw.Public = make([]emulated.Element[FR], len(aw.Public))
	}
	return pp, pw
}

func plonkOuter(f *plonkFix, t plonkTriple, k cfg) (circuit, assignment frontend.Circuit, err error) {
	ap, err := stdplonk.ValueOfProof[FR, G1El, G2El](t.proof)
	if err != nil {
		return nil, nil, fmt.Errorf("ValueOfProof: %w", err)
	}
	aw, err := stdplonk.ValueOfWitness[FR](pubWitness(t.pub))
	if err != nil {
		return nil, nil, fmt.Errorf("ValueOfWitness: %w", err)
	}
	pp, pw := plonkPlaceholders(f, ap, aw)
	opts := plonkOpts(k.opt)
	if k.vkmode == "fixed" {
		avk, err := stdplonk.ValueOfVerifyingKey[FR, G1El, G2El](t.vk)
		if err != nil {
			return nil, nil, fmt.Errorf("ValueOfVerifyingKey: %w", err)
		}
		return &plonkOuterC{Proof: pp, VerifyingKey: avk, InnerWitness: pw, opts: opts}, &plonkOuterC{Proof: ap, InnerWitness: aw}, nil
	}
	bvk, err := stdplonk.ValueOfBaseVerifyingKey[FR, G1El, G2El](t.vk)
	if err != nil {
		return nil, nil, fmt.Errorf("ValueOfBaseVerifyingKey: %w", err)
	}
	cvk, err := stdplonk.ValueOfCircuitVerifyingKey[FR, G1El](t.vk)
	if err != nil {
		return nil, nil, fmt.Errorf("ValueOfCircuitVerifyingKey: %w", err)
	}
	pcvk := stdplonk.PlaceholderCircuitVerifyingKey[FR, G1El](f.ccs[0])
	if len(pcvk.Qcp) != len(cvk.Qcp) || len(pcvk.CommitmentConstraintIndexes) != len(cvk.CommitmentConstraintIndexes) {
		return nil, nil, fmt.Errorf("placeholder circuit key has %d Qcp, the key %d", len(pcvk.Qcp), len(cvk.Qcp))
	}
	return &plonkOuterW{Proof: pp, BaseKey: bvk, CircuitKey: pcvk, InnerWitness: pw, opts: opts}, &plonkOuterW{Proof: ap, CircuitKey: cvk, InnerWitness: aw}, nil
}

var (
	plonkAllCfg  = []cfg{{"fixed", "complete", "te"}, {"witness", "default", "te"}, {"witness", "complete", "te"}, {"fixed", "default", "te"}}
	plonkPrimary = 2
)

func plonkExcluded(f *plonkFix, e *plonkEdit, k cfg) string {
	if e.nonsub {
		return "point-outside-subgroup,no-subgroup-check-offered"
	}
	if k.opt == "default" && f.degenerate != "" {
		return "exceptional-key-needs-complete-arithmetic"
	}
	return ""
}

func plonkTasks(c *vh.Check, p c17.Plan, f *plonkFix) []c17.Task {
	var tasks []c17.Task
	if f.degenerate != "" {
		c.Note(fmt.Sprintf("%s plonk/%s: %s (default-arithmetic runs excluded)", PairName, f.kind, f.degenerate))
	}
	cost := 3
	if Emulated {
		cost = 300
	}
	judge := func(e *plonkEdit, k cfg, ok bool, why string) {
		c17.Judge(c, c17.Case{Verifier: "plonk", Pair: PairName, Mode: k.String(), Inner: f.kind, Edit: e.name, Native: e.native, Circuit: ok,
			Excluded: plonkExcluded(f, e, k), Class: e.class, Detail: map[string]any{"native_error": e.nativeErr, "circuit_error": why}})
	}
	subIdx := make([]int, len(f.edits))
	n := 0
	for i := range f.edits {
		subIdx[i] = -1
		if f.edits[i].sub {
			subIdx[i] = n
			n++
		}
	}
	selected := map[int]bool{}
	for ci, k := range plonkAllCfg {
		k := k
		prim := -1
		if ci < plonkPrimary {
			prim = ci
		}
		for i := range f.edits {
			e := &f.edits[i]
			if !p.WantEdit(e.name) {
				continue
			}
			if !p.Selected(p.PlonkAllCfg, p.PlonkSpread, prim, plonkPrimary, -1, e.sub, e.nonsub, subIdx[i], i) {
				continue
			}
			if p.Rotate && f.kind == "nocommit" && subIdx[i] != 0 {
				continue
			}
			selected[i] = true
			prio := 1
			if e.sub {
				prio = 0
			}
			tasks = append(tasks, c17.Task{Prio: prio, Cost: cost, Run: func() {
				circuit, assignment, err := plonkOuter(f, e.t, k)
				ok, why := false, ""
				if err != nil {
					why = err.Error()
				} else {
					ok, why = c17.TestEngine(PairName+" "+"plonk", circuit, assignment, outerField)
				}
				judge(e, k, ok, why)
			}})
		}
	}
	c.Count("alphabet:"+PairName, "plonk/"+f.kind, int64(len(selected)))
	if p.Compiled > 0 {
		opts := []string{"complete"}
		if p.Compiled > 1 {
			opts = []string{"complete", "default"}
		}
		for _, o := range opts {
			k := cfg{"witness", o, "scs"}
			var sel []*plonkEdit
			g := f.vk[0]
			for _, wantSub := range []bool{true, false} { // genuine + sub-alphabet first
				for i := range f.edits {
					e := &f.edits[i]
					if e.sub != wantSub || !(p.Full || e.sub) || !p.WantEdit(e.name) {
						continue
					}
					if e.t.vk.NbPublicVariables != g.NbPublicVariables || e.t.vk.CosetShift != g.CosetShift || e.t.vk.Kzg.G1 != g.Kzg.G1 || e.t.vk.Kzg.G2 != g.Kzg.G2 {
						continue // the base key is a constant of the compiled circuit: its edits are covered by the test-engine runs only
					}
					if p.Compiled == 1 && ((!e.sub && e.class != "public") || e.shape) {
						continue // one-option plan: the compiled path runs the sub-alphabet and every length-preserving public-input edit
					}
					sel = append(sel, e)
				}
			}
			tasks = append(tasks, c17.Task{Prio: 0, Cost: cost, Run: func() {
				circuit, _, err := plonkOuter(f, f.edits[0].t, k)
				if err != nil {
					c.Fatal("outer circuit for the genuine triple: %v", err)
				}
				cc := c17.Compile(outerField, "scs", circuit)
				if cc.Err != "" {
					c.Fatal("compiling the plonk outer circuit (%s %s): %s", PairName, k, cc.Err)
				}
				c.Count("compiled:"+PairName, fmt.Sprintf("plonk/%s %s constraints", f.kind, k), int64(cc.CCS.GetNbConstraints()))
				for n, e := range sel {
					if c.Expired() {
						c.Cap(fmt.Sprintf("internal deadline: compiled plonk/%s %s %s: %d of %d edits solved", f.kind, PairName, k, n, len(sel)))
						return
					}
					ok, why := false, ""
					circuit, assignment, err := plonkOuter(f, e.t, k)
					switch {
					case err != nil:
						why = err.Error()
					case e.shape:
						ok, why = c17.Compile(outerField, "scs", circuit).Solve(PairName+" "+"plonk", assignment)
					default:
						ok, why = cc.Solve(PairName+" "+"plonk", assignment)
					}
					judge(e, k, ok, why)
				}
			}})
		}
	}
	return tasks
}

// ---------------------------------------------------------------- key switching

type plonkSwitchOuter struct {
	BaseKey     stdplonk.BaseVerifyingKey[FR, G1El, G2El] `gnark:"-"`
	CircuitKeys []stdplonk.CircuitVerifyingKey[FR, G1El]
	Selectors   []frontend.Variable
	Proofs      []stdplonk.Proof[FR, G1El, G2El]
	Witnesses   []stdplonk.Witness[FR] `gnark:",public"`
}

func (o *plonkSwitchOuter) Define(api frontend.API) error {
	v, err := stdplonk.NewVerifier[FR, G1El, G2El, GtEl](api)
	if err != nil {
		return fmt.Errorf("new verifier: %w", err)
	}
	return v.AssertDifferentProofs(o.BaseKey, o.CircuitKeys, o.Selectors, o.Proofs, o.Witnesses, stdplonk.WithCompleteArithmetic())
}

// plonkSwitchTasks: AssertDifferentProofs with two circuit keys; n proofs (n = 1, and 2 in the
// full plan), every selector vector and every choice of which key each proof was made under.
func plonkSwitchTasks(c *vh.Check, p c17.Plan, f *plonkFix) []c17.Task {
	var tasks []c17.Task
	// circuit-side values are built inside each task: gnark's emulated elements cache evaluation
	// state, so one value must never be used by two concurrently running engines
	mkKeys := func() (stdplonk.BaseVerifyingKey[FR, G1El, G2El], []stdplonk.CircuitVerifyingKey[FR, G1El]) {
		bvk, err := stdplonk.ValueOfBaseVerifyingKey[FR, G1El, G2El](f.vk[0])
		if err != nil {
			c.Fatal("ValueOfBaseVerifyingKey: %v", err)
		}
		var cvks []stdplonk.CircuitVerifyingKey[FR, G1El]
		for v := 0; v < 2; v++ {
			k, err := stdplonk.ValueOfCircuitVerifyingKey[FR, G1El](f.vk[v])
			if err != nil {
				c.Fatal("ValueOfCircuitVerifyingKey: %v", err)
			}
			cvks = append(cvks, k)
		}
		return bvk, cvks
	}
	cost := 3
	if Emulated {
		cost = 300
	}
	ns := []int{1}
	if p.PlonkAllCfg {
		ns = []int{1, 2}
	}
	for _, n := range ns {
		// per proof: selector in {0,1,2(out of range)} x made under key {0,1}; with two proofs the
		// out-of-range selector is only offered for the first one
		var codes [][2][]int
		for s0 := 0; s0 < 3; s0++ {
			for u0 := 0; u0 < 2; u0++ {
				if n == 1 {
					if !p.Full && s0 == 2 && u0 == 1 {
						continue
					}
					if p.Rotate && s0 == 0 && u0 == 1 {
						continue
					}
					codes = append(codes, [2][]int{{s0}, {u0}})
					continue
				}
				for s1 := 0; s1 < 2; s1++ {
					for u1 := 0; u1 < 2; u1++ {
						codes = append(codes, [2][]int{{s0, s1}, {u0, u1}})
					}
				}
			}
		}
		for _, code := range codes {
			n, sel, under := n, code[0], code[1]
			tasks = append(tasks, c17.Task{Prio: 0, Cost: cost * n, Run: func() {
				native := true
				nerr := ""
				bvk, cvks := mkKeys()
				circuit := &plonkSwitchOuter{BaseKey: bvk, CircuitKeys: make([]stdplonk.CircuitVerifyingKey[FR, G1El], 2), Selectors: make([]frontend.Variable, n),
					Proofs: make([]stdplonk.Proof[FR, G1El, G2El], n), Witnesses: make([]stdplonk.Witness[FR], n)}
				for v := 0; v < 2; v++ {
					circuit.CircuitKeys[v] = stdplonk.PlaceholderCircuitVerifyingKey[FR, G1El](f.ccs[v])
				}
				assignment := &plonkSwitchOuter{CircuitKeys: cvks, Selectors: make([]frontend.Variable, n),
					Proofs: make([]stdplonk.Proof[FR, G1El, G2El], n), Witnesses: make([]stdplonk.Witness[FR], n)}
				for i := 0; i < n; i++ {
					t := plonkTriple{f.proof[under[i]][i], nil, f.pub[under[i]][i]}
					if sel[i] < 2 {
						t.vk = f.vk[sel[i]]
						ok, e := plonkNativeAccepts(t)
						if ok != (sel[i] == under[i]) {
							c.Fatal("native plonk: proof under key %d verified under key %d: accepts=%v (%s)", under[i], sel[i], ok, e)
						}
						if !ok {
							native, nerr = false, e
						}
					} else {
						native, nerr = false, "selector out of range: no key is selected (selector.Mux: 'sel needs to be between 0 and n - 1, otherwise the proof will fail')"
					}
					circuit.Proofs[i] = stdplonk.PlaceholderProof[FR, G1El, G2El](f.ccs[0])
					circuit.Witnesses[i] = stdplonk.PlaceholderWitness[FR](f.ccs[0])
					var e1, e2 error
					assignment.Proofs[i], e1 = stdplonk.ValueOfProof[FR, G1El, G2El](t.proof)
					assignment.Witnesses[i], e2 = stdplonk.ValueOfWitness[FR](pubWitness(t.pub))
					if e1 != nil || e2 != nil {
						c.Fatal("assignment: %v %v", e1, e2)
					}
					assignment.Selectors[i] = sel[i]
				}
				ok, why := c17.TestEngine(PairName+" plonk-switch", circuit, assignment, outerField)
				c17.Judge(c, c17.Case{Verifier: "plonk-switch", Pair: PairName, Mode: fmt.Sprintf("2-keys,%d-proofs,te", n), Inner: f.kind,
					Edit: fmt.Sprintf("selectors=%v,proofs-under-keys=%v", sel, under), Native: native, Circuit: ok, Class: "selector",
					Detail: map[string]any{"native_error": nerr, "circuit_error": why}})
			}})
		}
	}
	return tasks
}

// ---------------------------------------------------------------- diagnostic (only with -only plonk-switch-debug)

// plonkSwitchDebugOuter verifies a genuine proof against the directly supplied circuit key in
// which ONE group of fields is replaced by the output of SwitchVerificationKey: it localises a
// disagreement of the key switch to the field group whose multiplexing breaks verification.
type plonkSwitchDebugOuter struct {
	BaseKey     stdplonk.BaseVerifyingKey[FR, G1El, G2El] `gnark:"-"`
	CircuitKeys []stdplonk.CircuitVerifyingKey[FR, G1El]
	Selector    frontend.Variable
	Proof       stdplonk.Proof[FR, G1El, G2El]
	Witness     stdplonk.Witness[FR] `gnark:",public"`
	sel         int
	group       string
	complete    bool
}

func (o *plonkSwitchDebugOuter) Define(api frontend.API) error {
	v, err := stdplonk.NewVerifier[FR, G1El, G2El, GtEl](api)
	if err != nil {
		return err
	}
	sw, err := v.SwitchVerificationKey(o.BaseKey, o.Selector, o.CircuitKeys)
	if err != nil {
		return err
	}
	vk := stdplonk.VerifyingKey[FR, G1El, G2El]{BaseVerifyingKey: o.BaseKey, CircuitVerifyingKey: o.CircuitKeys[o.sel]}
	switch o.group {
	case "none":
	case "Size":
		vk.Size = sw.Size
	case "SizeInv":
		vk.SizeInv = sw.SizeInv
	case "Generator":
		vk.Generator = sw.Generator
	case "S":
		vk.S = sw.S
	case "Q":
		vk.Ql, vk.Qr, vk.Qm, vk.Qo, vk.Qk = sw.Ql, sw.Qr, sw.Qm, sw.Qo, sw.Qk
	case "Qcp":
		vk.Qcp = sw.Qcp
	case "CommitmentConstraintIndexes":
		vk.CommitmentConstraintIndexes = sw.CommitmentConstraintIndexes
	case "all":
		vk = sw
	}
	var opts []stdplonk.VerifierOption
	if o.complete {
		opts = append(opts, stdplonk.WithCompleteArithmetic())
	}
	return v.AssertProof(vk, o.Proof, o.Witness, opts...)
}

func plonkSwitchDebugTasks(c *vh.Check, f *plonkFix) []c17.Task {
	var tasks []c17.Task
	for _, group := range []string{"none", "Size", "SizeInv", "Generator", "S", "Q", "Qcp", "CommitmentConstraintIndexes", "all"} {
		if g := os.Getenv("C17_GROUPS"); g != "" && !strings.Contains(","+g+",", ","+group+",") {
			continue
		}
		for sel := 0; sel < 2; sel++ {
			for _, complete := range []bool{true, false} {
				group, sel, complete := group, sel, complete
				tasks = append(tasks, c17.Task{Run: func() {
					bvk, _ := stdplonk.ValueOfBaseVerifyingKey[FR, G1El, G2El](f.vk[0])
					var cvks []stdplonk.CircuitVerifyingKey[FR, G1El]
					for v := 0; v < 2; v++ {
						k, _ := stdplonk.ValueOfCircuitVerifyingKey[FR, G1El](f.vk[v])
						cvks = append(cvks, k)
					}
					circuit := &plonkSwitchDebugOuter{BaseKey: bvk, CircuitKeys: []stdplonk.CircuitVerifyingKey[FR, G1El]{stdplonk.PlaceholderCircuitVerifyingKey[FR, G1El](f.ccs[0]), stdplonk.PlaceholderCircuitVerifyingKey[FR, G1El](f.ccs[1])},
						Proof: stdplonk.PlaceholderProof[FR, G1El, G2El](f.ccs[0]), Witness: stdplonk.PlaceholderWitness[FR](f.ccs[0]), sel: sel, group: group, complete: complete}
					ap, _ := stdplonk.ValueOfProof[FR, G1El, G2El](f.proof[sel][0])
					aw, _ := stdplonk.ValueOfWitness[FR](pubWitness(f.pub[sel][0]))
					ok, why := c17.TestEngine(PairName+" plonk-switch-debug", circuit, &plonkSwitchDebugOuter{CircuitKeys: cvks, Selector: sel, Proof: ap, Witness: aw}, outerField)
					c.Outcome(fmt.Sprintf("plonk-switch-debug:%v", ok))
					c.Count("plonk-switch-debug:"+PairName, fmt.Sprintf("group=%s sel=%d complete=%v -> satisfiable=%v", group, sel, complete, ok), 1)
					if !ok {
						c.Note(fmt.Sprintf("plonk-switch-debug %s group=%s sel=%d complete=%v: %.120s", PairName, group, sel, complete, why))
					}
				}})
			}
		}
	}
	return tasks
}
