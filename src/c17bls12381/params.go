// Package c17bls12381 is the C17 kit for BLS12-381 proofs verified inside a BN254 circuit (emulated
// arithmetic).  params.go is hand-written; the other files are generated from src/c17bls12377.
package c17bls12381

import (
	"github.com/consensys/gnark-crypto/ecc"
	"github.com/consensys/gnark/std/algebra/emulated/sw_bls12381"
)

type (
	G1El = sw_bls12381.G1Affine
	G2El = sw_bls12381.G2Affine
	GtEl = sw_bls12381.GTEl
	FR   = sw_bls12381.ScalarField
)

var (
	InnerID = ecc.BLS12_381
	OuterID = ecc.BN254
)

const (
	PairName = "bls12381-in-bn254"
	flagMask = 0xE0 // flag bits of the compressed point encoding
	SubgroupChecks = true
	Emulated = true
)

