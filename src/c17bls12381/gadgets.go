// GENERATED from src/c17bls12377 by src/c17gen/gen.sh; DO NOT EDIT (see common.go).
package c17bls12381

import (
	"fmt"
	"math/big"

	curve "github.com/consensys/gnark-crypto/ecc/bls12-381"
	"github.com/consensys/gnark-crypto/ecc/bls12-381/fr"
	"github.com/consensys/gnark-crypto/ecc/bls12-381/fr/pedersen"
	"github.com/consensys/gnark-crypto/ecc/bls12-381/kzg"
	"github.com/consensys/gnark/frontend"
	"github.com/consensys/gnark/internal/verifh/c17"
	"github.com/consensys/gnark/internal/verifh/vh"
	stdkzg "github.com/consensys/gnark/std/commitments/kzg"
	stdpedersen "github.com/consensys/gnark/std/commitments/pedersen"
	"github.com/consensys/gnark/std/math/emulated"
	"github.com/consensys/gnark/std/recursion"
)

// ================================================================ KZG gadget

// kzgCase is one (possibly edited) input of the three KZG verification entry points.
type kzgCase struct {
	digests []kzg.Digest
	proofs  []kzg.OpeningProof // single / multi-point
	batch   kzg.BatchOpeningProof
	points  []fr.Element
	vk      kzg.VerifyingKey
}

func (k *kzgCase) clone() *kzgCase {
	q := *k
	q.digests = append([]kzg.Digest(nil), k.digests...)
	q.proofs = append([]kzg.OpeningProof(nil), k.proofs...)
	q.batch.ClaimedValues = append([]fr.Element(nil), k.batch.ClaimedValues...)
	q.points = append([]fr.Element(nil), k.points...)
	return &q
}

type kzgEdit struct {
	name, class string
	k           *kzgCase
	offcurve    bool
	sub         bool
	native      bool
	nativeErr   string
}

const (
	kzgSingle = "kzg-single"       // CheckOpeningProof
	kzgBatch  = "kzg-batch-single" // BatchVerifySinglePoint (Fiat-Shamir folding with the short hash)
	kzgMulti  = "kzg-multi"        // BatchVerifyMultiPoints
)

func kzgNative(which string, k *kzgCase) (bool, string) {
	var err error
	c17.NativeRuns.Add(1)
	pan := vh.Recover(func() {
		switch which {
		case kzgSingle:
			err = kzg.Verify(&k.digests[0], &k.proofs[0], k.points[0], k.vk)
		case kzgBatch:
			h, e := recursion.NewShort(outerField, innerField)
			if e != nil {
				err = e
				return
			}
			err = kzg.BatchVerifySinglePoint(k.digests, &k.batch, k.points[0], h, k.vk)
		case kzgMulti:
			err = kzg.BatchVerifyMultiPoints(k.digests, k.proofs, k.points, k.vk)
		}
	})
	if pan != "" {
		return false, "panic: " + pan
	}
	if err != nil {
		return false, err.Error()
	}
	return true, ""
}

type kzgSingleOuter struct {
	Vk         stdkzg.VerifyingKey[G1El, G2El]
	vkc        *stdkzg.VerifyingKey[G1El, G2El] `gnark:"-"`
	Commitment stdkzg.Commitment[G1El]
	Proof      stdkzg.OpeningProof[FR, G1El]
	Point      emulated.Element[FR]
}

func (o *kzgSingleOuter) Define(api frontend.API) error {
	v, err := stdkzg.NewVerifier[FR, G1El, G2El, GtEl](api)
	if err != nil {
		return err
	}
	vk := o.Vk
	if o.vkc != nil {
		vk = *o.vkc
	}
	return v.CheckOpeningProof(o.Commitment, o.Proof, o.Point, vk)
}

type kzgBatchOuter struct {
	Vk      stdkzg.VerifyingKey[G1El, G2El]
	vkc     *stdkzg.VerifyingKey[G1El, G2El] `gnark:"-"`
	Digests []stdkzg.Commitment[G1El]
	Proof   stdkzg.BatchOpeningProof[FR, G1El]
	Point   emulated.Element[FR]
}

func (o *kzgBatchOuter) Define(api frontend.API) error {
	v, err := stdkzg.NewVerifier[FR, G1El, G2El, GtEl](api)
	if err != nil {
		return err
	}
	vk := o.Vk
	if o.vkc != nil {
		vk = *o.vkc
	}
	return v.BatchVerifySinglePoint(o.Digests, o.Proof, o.Point, vk)
}

type kzgMultiOuter struct {
	Vk      stdkzg.VerifyingKey[G1El, G2El]
	vkc     *stdkzg.VerifyingKey[G1El, G2El] `gnark:"-"`
	Digests []stdkzg.Commitment[G1El]
	Proofs  []stdkzg.OpeningProof[FR, G1El]
	Points  []emulated.Element[FR]
}

func (o *kzgMultiOuter) Define(api frontend.API) error {
	v, err := stdkzg.NewVerifier[FR, G1El, G2El, GtEl](api)
	if err != nil {
		return err
	}
	vk := o.Vk
	if o.vkc != nil {
		vk = *o.vkc
	}
	return v.BatchVerifyMultiPoints(o.Digests, o.Proofs, o.Points, vk)
}

// kzgOuter builds circuit and assignment; vkmode "witness": key as (non-precomputed) witness,
// "fixed": key embedded as a constant with precomputed lines.
func kzgOuter(which string, k *kzgCase, vkmode string) (circuit, assignment frontend.Circuit, err error) {
	var avk stdkzg.VerifyingKey[G1El, G2El]
	var pvk stdkzg.VerifyingKey[G1El, G2El]
	var vkc *stdkzg.VerifyingKey[G1El, G2El]
	if vkmode == "fixed" {
		fvk, err := stdkzg.ValueOfVerifyingKeyFixed[G1El, G2El](k.vk)
		if err != nil {
			return nil, nil, err
		}
		vkc = &fvk
		// the witness copy of the key is unused in this mode; give it the genuine value
		avk, err = stdkzg.ValueOfVerifyingKey[G1El, G2El](k.vk)
		if err != nil {
			return nil, nil, err
		}
	} else {
		avk, err = stdkzg.ValueOfVerifyingKey[G1El, G2El](k.vk)
		if err != nil {
			return nil, nil, err
		}
	}
	dig := make([]stdkzg.Commitment[G1El], len(k.digests))
	for i := range dig {
		if dig[i], err = stdkzg.ValueOfCommitment[G1El](k.digests[i]); err != nil {
			return nil, nil, err
		}
	}
	prf := make([]stdkzg.OpeningProof[FR, G1El], len(k.proofs))
	for i := range prf {
		if prf[i], err = stdkzg.ValueOfOpeningProof[FR, G1El](k.proofs[i]); err != nil {
			return nil, nil, err
		}
	}
	pts := make([]emulated.Element[FR], len(k.points))
	for i := range pts {
		if pts[i], err = stdkzg.ValueOfScalar[FR](k.points[i]); err != nil {
			return nil, nil, err
		}
	}
	switch which {
	case kzgSingle:
		return &kzgSingleOuter{Vk: pvk, vkc: vkc}, &kzgSingleOuter{Vk: avk, Commitment: dig[0], Proof: prf[0], Point: pts[0]}, nil
	case kzgBatch:
		bp, err := stdkzg.ValueOfBatchOpeningProof[FR, G1El](k.batch)
		if err != nil {
			return nil, nil, err
		}
		return &kzgBatchOuter{Vk: pvk, vkc: vkc, Digests: make([]stdkzg.Commitment[G1El], len(dig)), Proof: stdkzg.BatchOpeningProof[FR, G1El]{ClaimedValues: make([]emulated.Element[FR], len(bp.ClaimedValues))}},
			&kzgBatchOuter{Vk: avk, Digests: dig, Proof: bp, Point: pts[0]}, nil
	default:
		return &kzgMultiOuter{Vk: pvk, vkc: vkc, Digests: make([]stdkzg.Commitment[G1El], len(dig)), Proofs: make([]stdkzg.OpeningProof[FR, G1El], len(prf)), Points: make([]emulated.Element[FR], len(pts))},
			&kzgMultiOuter{Vk: avk, Digests: dig, Proofs: prf, Points: pts}, nil
	}
}

func kzgTasks(c *vh.Check, p c17.Plan) []c17.Task {
	srs, err := kzg.NewSRS(16, big.NewInt(271828182845))
	if err != nil {
		c.Fatal("kzg srs: %v", err)
	}
	const nPoly = 3
	polys := make([][]fr.Element, nPoly)
	digests := make([]kzg.Digest, nPoly)
	for i := range polys {
		polys[i] = make([]fr.Element, 9)
		for j := range polys[i] {
			polys[i][j].SetUint64(uint64(1000*(i+1) + 37*j*j + 11))
		}
		if digests[i], err = kzg.Commit(polys[i], srs.Pk); err != nil {
			c.Fatal("kzg commit: %v", err)
		}
	}
	var z, z2 fr.Element
	z.SetUint64(123456789)
	z2.SetUint64(987654321)
	base := map[string]*kzgCase{}
	{ // single
		pr, err := kzg.Open(polys[0], z, srs.Pk)
		if err != nil {
			c.Fatal("kzg open: %v", err)
		}
		base[kzgSingle] = &kzgCase{digests: []kzg.Digest{digests[0]}, proofs: []kzg.OpeningProof{pr}, points: []fr.Element{z}, vk: srs.Vk}
	}
	{ // batch at a single point, folding challenge from the short hash
		h, err := recursion.NewShort(outerField, innerField)
		if err != nil {
			c.Fatal("short hash: %v", err)
		}
		bp, err := kzg.BatchOpenSinglePoint(polys, digests, z, h, srs.Pk)
		if err != nil {
			c.Fatal("kzg batch open: %v", err)
		}
		base[kzgBatch] = &kzgCase{digests: append([]kzg.Digest(nil), digests...), batch: bp, points: []fr.Element{z}, vk: srs.Vk}
	}
	{ // multi point
		p0, err0 := kzg.Open(polys[0], z, srs.Pk)
		p1, err1 := kzg.Open(polys[1], z2, srs.Pk)
		if err0 != nil || err1 != nil {
			c.Fatal("kzg open: %v %v", err0, err1)
		}
		base[kzgMulti] = &kzgCase{digests: []kzg.Digest{digests[0], digests[1]}, proofs: []kzg.OpeningProof{p0, p1}, points: []fr.Element{z, z2}, vk: srs.Vk}
	}
	var tasks []c17.Task
	cost := 1
	if Emulated {
		cost = 60
	}
	for _, which := range []string{kzgSingle, kzgBatch, kzgMulti} {
		which := which
		b := base[which]
		if ok, why := kzgNative(which, b); !ok {
			c.Fatal("native %s rejects a genuine opening: %s", which, why)
		}
		var edits []kzgEdit
		add := func(name, class string, sub, off bool, fn func(k *kzgCase)) {
			k := b.clone()
			fn(k)
			edits = append(edits, kzgEdit{name: name, class: class, k: k, sub: sub, offcurve: off})
		}
		add("identity", "genuine", true, false, func(k *kzgCase) {})
		for i := range b.digests {
			i := i
			others := []namedG1{{n: "other-digest", p: digests[(i+1)%nPoly]}}
			for _, e := range g1Alphabet(b.digests[i], others) {
				e := e
				add(fmt.Sprintf("digest[%d]:=%s", i, e.n), "point", i == 0 && e.n == "plusG", e.n == "offcurve(y+1)", func(k *kzgCase) { k.digests[i] = e.p })
			}
		}
		for i := range b.proofs {
			i := i
			for _, e := range g1Alphabet(b.proofs[i].H, []namedG1{{n: "digest", p: b.digests[i]}}) {
				e := e
				add(fmt.Sprintf("proof[%d].H:=%s", i, e.n), "point", i == 0 && (e.n == "neg" || e.n == "plusTorsion"), e.n == "offcurve(y+1)", func(k *kzgCase) { k.proofs[i].H = e.p })
			}
			for _, e := range frAlphabet(b.proofs[i].ClaimedValue, nil) {
				e := e
				add(fmt.Sprintf("proof[%d].ClaimedValue:=%s", i, e.n), "scalar", i == 0 && e.n == "v+1", false, func(k *kzgCase) { k.proofs[i].ClaimedValue = e.v })
			}
		}
		if which == kzgBatch {
			for _, e := range g1Alphabet(b.batch.H, []namedG1{{n: "digest", p: b.digests[0]}}) {
				e := e
				add("batch.H:="+e.n, "point", e.n == "neg" || e.n == "plusTorsion", e.n == "offcurve(y+1)", func(k *kzgCase) { k.batch.H = e.p })
			}
			for j := range b.batch.ClaimedValues {
				j := j
				for _, e := range frAlphabet(b.batch.ClaimedValues[j], nil) {
					e := e
					add(fmt.Sprintf("batch.ClaimedValues[%d]:=%s", j, e.n), "scalar", j == 1 && e.n == "v+1", false, func(k *kzgCase) { k.batch.ClaimedValues[j] = e.v })
				}
			}
			add("digests:swap(0,1)", "list", true, false, func(k *kzgCase) { k.digests[0], k.digests[1] = k.digests[1], k.digests[0] })
			add("batch.ClaimedValues:swap(0,1)", "list", false, false, func(k *kzgCase) {
				k.batch.ClaimedValues[0], k.batch.ClaimedValues[1] = k.batch.ClaimedValues[1], k.batch.ClaimedValues[0]
			})
			add("digests+claims:swap(0,1)", "list", false, false, func(k *kzgCase) {
				k.digests[0], k.digests[1] = k.digests[1], k.digests[0]
				k.batch.ClaimedValues[0], k.batch.ClaimedValues[1] = k.batch.ClaimedValues[1], k.batch.ClaimedValues[0]
			})
			add("digests:drop-last", "list", false, false, func(k *kzgCase) { k.digests = k.digests[:len(k.digests)-1] })
			add("batch.ClaimedValues:drop-last", "list", false, false, func(k *kzgCase) { k.batch.ClaimedValues = k.batch.ClaimedValues[:len(k.batch.ClaimedValues)-1] })
		}
		if which == kzgMulti {
			add("proofs:swap", "list", true, false, func(k *kzgCase) { k.proofs[0], k.proofs[1] = k.proofs[1], k.proofs[0] })
			add("points:swap", "list", false, false, func(k *kzgCase) { k.points[0], k.points[1] = k.points[1], k.points[0] })
			add("digests:swap", "list", false, false, func(k *kzgCase) { k.digests[0], k.digests[1] = k.digests[1], k.digests[0] })
			add("all:swap(consistent)", "genuine", false, false, func(k *kzgCase) {
				k.proofs[0], k.proofs[1] = k.proofs[1], k.proofs[0]
				k.points[0], k.points[1] = k.points[1], k.points[0]
				k.digests[0], k.digests[1] = k.digests[1], k.digests[0]
			})
		}
		for i := range b.points {
			i := i
			for _, e := range frAlphabet(b.points[i], nil) {
				e := e
				add(fmt.Sprintf("point[%d]:=%s", i, e.n), "scalar", i == 0 && e.n == "v+1", false, func(k *kzgCase) { k.points[i] = e.v })
			}
		}
		add("vk.G1:=double", "vk", true, false, func(k *kzgCase) { k.vk.G1.Double(&k.vk.G1) })
		add("vk.G2[1]:=neg", "vk", false, false, func(k *kzgCase) {
			k.vk.G2[1].Neg(&k.vk.G2[1])
			k.vk.Lines[1] = curve.PrecomputeLines(k.vk.G2[1])
		})
		add("vk.G2[0]:=G2[1]", "vk", false, false, func(k *kzgCase) {
			k.vk.G2[0] = k.vk.G2[1]
			k.vk.Lines[0] = k.vk.Lines[1]
		})
		nsel := 0
		for i := range edits {
			e := &edits[i]
			e.native, e.nativeErr = kzgNative(which, e.k)
			if e.class == "genuine" && !e.native {
				c.Fatal("native %s rejects the genuine case %s: %s", which, e.name, e.nativeErr)
			}
			if p.Full || e.sub {
				nsel++
			}
		}
		c.Count("alphabet:"+PairName, which, int64(nsel))
		modes := []string{"witness", "fixed"}
		for mi, mode := range modes {
			mode := mode
			for i := range edits {
				e := &edits[i]
				if !p.Full && !e.sub {
					continue
				}
				if !p.AllCfg && !e.sub && mi != i%2 {
					continue // not the all-configurations plan: edits outside the sub-alphabet alternate between the key modes
				}
				if p.Rotate && mi != i%2 {
					continue
				}
				prio := 1
				if e.sub {
					prio = 0
				}
				tasks = append(tasks, c17.Task{Prio: prio, Cost: cost, Run: func() {
					circuit, assignment, err := kzgOuter(which, e.k, mode)
					ok, why := false, ""
					if err != nil {
						why = err.Error()
					} else {
						ok, why = c17.TestEngine(PairName+" "+which, circuit, assignment, outerField)
					}
					excl := ""
					if e.offcurve {
						excl = "off-curve-point,neither-verifier-defined"
					}
					c17.Judge(c, c17.Case{Verifier: which, Pair: PairName, Mode: "vk=" + mode + ",te", Inner: "-", Edit: e.name, Native: e.native, Circuit: ok,
						Excluded: excl, Class: e.class, Detail: map[string]any{"native_error": e.nativeErr, "circuit_error": why}})
				}})
			}
		}
	}
	return tasks
}

// ================================================================ Pedersen gadget

type pedOuter struct {
	Commitment stdpedersen.Commitment[G1El]
	Pok        stdpedersen.KnowledgeProof[G1El]
	Vk         stdpedersen.VerifyingKey[G2El]
	vkc        *stdpedersen.VerifyingKey[G2El] `gnark:"-"`
	opts       []stdpedersen.VerifierOption    `gnark:"-"`
}

func (o *pedOuter) Define(api frontend.API) error {
	v, err := stdpedersen.NewVerifier[FR, G1El, G2El, GtEl](api)
	if err != nil {
		return err
	}
	vk := o.Vk
	if o.vkc != nil {
		vk = *o.vkc
	}
	return v.AssertCommitment(o.Commitment, o.Pok, vk, o.opts...)
}

type pedCase struct {
	com, pok curve.G1Affine
	vk       pedersen.VerifyingKey
}

func pedNative(k pedCase) (bool, string) {
	var err error
	c17.NativeRuns.Add(1)
	pan := vh.Recover(func() { err = k.vk.Verify(k.com, k.pok) })
	if pan != "" {
		return false, "panic: " + pan
	}
	if err != nil {
		return false, err.Error()
	}
	return true, ""
}

func pedersenTasks(c *vh.Check, p c17.Plan) []c17.Task {
	_, _, g1, _ := curve.Generators()
	mk := func(seed uint64) ([]pedersen.ProvingKey, pedersen.VerifyingKey) {
		bases := make([]curve.G1Affine, 3)
		for i := range bases {
			bases[i].ScalarMultiplication(&g1, new(big.Int).SetUint64(seed+uint64(17*i+3)))
		}
		pk, vk, err := pedersen.Setup([][]curve.G1Affine{bases})
		if err != nil {
			c.Fatal("pedersen setup: %v", err)
		}
		return pk, vk
	}
	pk, vk := mk(1000)
	_, vk2 := mk(5000)
	vals := make([]fr.Element, 3)
	vals2 := make([]fr.Element, 3)
	for i := range vals {
		vals[i].SetUint64(uint64(100 + i))
		vals2[i].SetUint64(uint64(900 + 7*i))
	}
	com, err1 := pk[0].Commit(vals)
	pok, err2 := pk[0].ProveKnowledge(vals)
	comB, err3 := pk[0].Commit(vals2)
	pokB, err4 := pk[0].ProveKnowledge(vals2)
	if err1 != nil || err2 != nil || err3 != nil || err4 != nil {
		c.Fatal("pedersen commit: %v %v %v %v", err1, err2, err3, err4)
	}
	base := pedCase{com, pok, vk}
	if ok, why := pedNative(base); !ok {
		c.Fatal("native pedersen verifier rejects a genuine proof of knowledge: %s", why)
	}
	type pedEdit struct {
		name, class string
		k           pedCase
		nonsub, sub bool
		native      bool
		nativeErr   string
	}
	var edits []pedEdit
	edits = append(edits, pedEdit{name: "identity", class: "genuine", k: base, sub: true})
	edits = append(edits, pedEdit{name: "commitment-b-with-pok-b", class: "genuine", k: pedCase{comB, pokB, vk}})
	for _, e := range g1Alphabet(com, []namedG1{{n: "of-b", p: comB, sub: true}, {n: "pok", p: pok}}) {
		k := base
		k.com = e.p
		edits = append(edits, pedEdit{name: "commitment:=" + e.n, class: "point", k: k, nonsub: e.nonsub, sub: e.sub})
	}
	for _, e := range g1Alphabet(pok, []namedG1{{n: "of-b", p: pokB}, {n: "commitment", p: com}}) {
		k := base
		k.pok = e.p
		edits = append(edits, pedEdit{name: "pok:=" + e.n, class: "point", k: k, nonsub: e.nonsub, sub: e.sub && e.n != "neg"})
	}
	{
		k := base
		k.vk = vk2
		edits = append(edits, pedEdit{name: "vk:=other-setup", class: "vk", k: k, sub: true})
		k = base
		k.vk.G.Neg(&k.vk.G)
		edits = append(edits, pedEdit{name: "vk.G:=neg", class: "vk", k: k})
		k = base
		k.vk.GSigmaNeg.Neg(&k.vk.GSigmaNeg)
		edits = append(edits, pedEdit{name: "vk.GSigmaNeg:=neg", class: "vk", k: k})
		k = base
		k.vk.GSigmaNeg = k.vk.G
		edits = append(edits, pedEdit{name: "vk.GSigmaNeg:=G", class: "vk", k: k})
	}
	nsel := 0
	for i := range edits {
		e := &edits[i]
		e.native, e.nativeErr = pedNative(e.k)
		if p.Full || e.sub {
			nsel++
		}
	}
	c.Count("alphabet:"+PairName, "pedersen", int64(nsel))
	var tasks []c17.Task
	cost := 1
	if Emulated {
		cost = 50
	}
	cfgs := []cfg{{"witness", "default", "te"}, {"fixed", "default", "te"}, {"witness", "subgroup", "te"}, {"fixed", "subgroup", "te"}}
	if !p.AllCfg && !p.Full {
		cfgs = []cfg{{"witness", "subgroup", "te"}, {"fixed", "default", "te"}}
	}
	for _, k := range cfgs {
		k := k
		for i := range edits {
			e := &edits[i]
			if !p.Full && !e.sub {
				continue
			}
			if k.opt == "subgroup" && !SubgroupChecks && i != 0 {
				continue // option not offered for this curve: only the genuine case is run, to record what happens
			}
			prio := 1
			if e.sub {
				prio = 0
			}
			tasks = append(tasks, c17.Task{Prio: prio, Cost: cost, Run: func() {
				ok, why := false, ""
				var opts []stdpedersen.VerifierOption
				if k.opt == "subgroup" {
					opts = append(opts, stdpedersen.WithSubgroupCheck())
				}
				ac, err1 := stdpedersen.ValueOfCommitment[G1El](e.k.com)
				ap, err2 := stdpedersen.ValueOfKnowledgeProof[G1El](e.k.pok)
				avk, err3 := stdpedersen.ValueOfVerifyingKey[G2El](&e.k.vk)
				circuit := &pedOuter{opts: opts}
				if k.vkmode == "fixed" {
					fvk, err := stdpedersen.ValueOfVerifyingKeyFixed[G2El](&e.k.vk)
					if err != nil {
						err3 = err
					}
					circuit.vkc = &fvk
				}
				if err1 != nil || err2 != nil || err3 != nil {
					why = fmt.Sprint(err1, err2, err3)
				} else {
					ok, why = c17.TestEngine(PairName+" pedersen", circuit, &pedOuter{Commitment: ac, Pok: ap, Vk: avk}, outerField)
				}
				excl := ""
				if e.nonsub && k.opt != "subgroup" {
					excl = "point-outside-subgroup,no-subgroup-check-option"
				}
				if k.opt == "subgroup" && !SubgroupChecks {
					excl = "subgroup-check-not-implemented-for-this-curve"
				}
				c17.Judge(c, c17.Case{Verifier: "pedersen", Pair: PairName, Mode: k.String(), Inner: "-", Edit: e.name, Native: e.native, Circuit: ok,
					Excluded: excl, Class: e.class, Detail: map[string]any{"native_error": e.nativeErr, "circuit_error": why}})
			}})
		}
	}
	return tasks
}
