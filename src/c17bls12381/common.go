// GENERATED from src/c17bls12377 by src/c17gen/gen.sh; DO NOT EDIT: the kits of the other pairings are derived from it by
// src/c17gen/gen.sh (path substitution only); params.go is the hand-written per-pairing part.
package c17bls12381

import (
	"bytes"
	"fmt"
	"strings"
	"math/big"

	curve "github.com/consensys/gnark-crypto/ecc/bls12-381"
	"github.com/consensys/gnark-crypto/ecc/bls12-381/fr"
	"github.com/consensys/gnark/backend/witness"
	"github.com/consensys/gnark/frontend"
	"github.com/consensys/gnark/internal/verifh/c17"
	"github.com/consensys/gnark/internal/verifh/vh"
)

var (
	innerField = InnerID.ScalarField()
	outerField = OuterID.ScalarField()
)

func init() { c17.Register(&c17.Kit{Name: PairName, Build: build}) }

// build constructs every genuine object sequentially (deterministic randomness), asks the
// native verifiers about every edited triple, and returns the outer-circuit runs as tasks.
func build(c *vh.Check, p c17.Plan) []c17.Task {
	var tasks []c17.Task
	if c17.WantSection(c, "groth16") || c17.WantSection(c, "groth16-switch") {
		for _, kind := range []string{"nocommit", "commit"} { // the in-circuit Groth16 verifier documents: multiple commitments are not supported
			f := buildG16(c, kind)
			if c17.WantSection(c, "groth16") {
				tasks = append(tasks, g16Tasks(c, p, f)...)
			}
			if p.Switch && kind == "commit" && c17.WantSection(c, "groth16-switch") {
				tasks = append(tasks, g16SwitchTasks(c, p, f)...)
			}
		}
	}
	if c17.WantSection(c, "plonk") || c17.WantSection(c, "plonk-switch") || c17.WantSection(c, "plonk-switch-debug") {
		for _, kind := range []string{"nocommit", "commit", "commit2"} {
			f := buildPlonk(c, kind)
			if c17.WantSection(c, "plonk") {
				tasks = append(tasks, plonkTasks(c, p, f)...)
			}
			if kind == "commit" && c.Only != "" && strings.Contains(c.Only, "plonk-switch-debug") {
				tasks = append(tasks, plonkSwitchDebugTasks(c, f)...)
			}
			if p.Switch && kind == "commit" && c17.WantSection(c, "plonk-switch") {
				tasks = append(tasks, plonkSwitchTasks(c, p, f)...)
			}
		}
	}
	if p.Gadgets {
		if c17.WantSection(c, "kzg") {
			tasks = append(tasks, kzgTasks(c, p)...)
			tasks = append(tasks, kzgFSTasks(c, p)...)
		}
		if c17.WantSection(c, "pedersen") {
			tasks = append(tasks, pedersenTasks(c, p)...)
		}
	}
	return tasks
}

// ---------------------------------------------------------------- inner circuits

// innerCircuit: two public inputs, one multiplication, non-trivial linear part and constant
// (so that no PLONK selector commitment is the point at infinity).  Variants 0 and 1 have the
// same shape (same number of constraints, public inputs and commitments) but different keys.
type innerCircuit struct {
	P, Q    frontend.Variable
	N, M    frontend.Variable `gnark:",public"`
	variant int
	commit  bool
	commit2 bool // a second commitment (verifiers hash every commitment separately)
}

func (ci *innerCircuit) Define(api frontend.API) error {
	t := api.Mul(ci.P, ci.Q)
	var u frontend.Variable
	if ci.variant == 0 {
		u = api.Add(t, api.Mul(ci.P, 3), 7)
	} else {
		u = api.Add(t, api.Mul(ci.Q, 5), 11)
	}
	api.AssertIsEqual(u, ci.N)
	api.AssertIsEqual(api.Add(ci.P, ci.Q), ci.M)
	if ci.commit {
		// commits to an internal and to a public variable (the public one is hashed by the verifier)
		cm, err := api.Compiler().(frontend.Committer).Commit(t, ci.N)
		if err != nil {
			return err
		}
		api.AssertIsDifferent(cm, 0)
		if ci.commit2 {
			cm2, err := api.Compiler().(frontend.Committer).Commit(ci.Q, ci.M)
			if err != nil {
				return err
			}
			api.AssertIsDifferent(cm2, cm)
		}
	}
	return nil
}

var innerInputs = [2][2]int64{{3, 5}, {4, 9}}

func innerAssignment(variant, w int) *innerCircuit {
	p, q := innerInputs[w][0], innerInputs[w][1]
	n := p*q + 3*p + 7
	if variant == 1 {
		n = p*q + 5*q + 11
	}
	return &innerCircuit{P: p, Q: q, N: n, M: p + q}
}

func innerWitness(c *vh.Check, variant, w int) (witness.Witness, fr.Vector) {
	full, err := frontend.NewWitness(innerAssignment(variant, w), innerField)
	if err != nil {
		c.Fatal("inner witness: %v", err)
	}
	pub, err := full.Public()
	if err != nil {
		c.Fatal("inner public witness: %v", err)
	}
	return full, append(fr.Vector(nil), pub.Vector().(fr.Vector)...)
}

// pubWitness wraps an (edited) public vector as a gnark witness for the ValueOfWitness helpers.
func pubWitness(v fr.Vector) witness.Witness {
	w, err := witness.New(innerField)
	if err != nil {
		panic(err)
	}
	ch := make(chan any, len(v))
	for i := range v {
		ch <- v[i]
	}
	close(ch)
	if err := w.Fill(len(v), 0, ch); err != nil {
		panic(err)
	}
	return w
}

// ---------------------------------------------------------------- point / scalar alphabets

type namedG1 struct {
	n      string
	p      curve.G1Affine
	nonsub bool // not in the prime-order subgroup
	sub    bool // member of the sub-alphabet
}

// nonSubgroupG1 / nonSubgroupG2 search x = 1, 2, ... for a curve point outside the prime-order
// subgroup (decoding the compressed form "x, some y" without the subgroup check); nil when the
// cofactor is 1.
func nonSubgroupG1() *curve.G1Affine {
	_, _, g1, _ := curve.Generators()
	gb := g1.Bytes()
	for x := 1; x < 256; x++ {
		buf := make([]byte, len(gb))
		buf[0] = gb[0] & flagMask
		buf[len(buf)-1] = byte(x)
		var p curve.G1Affine
		if err := curve.NewDecoder(bytes.NewReader(buf), curve.NoSubgroupChecks()).Decode(&p); err != nil {
			continue
		}
		if p.IsOnCurve() && !p.IsInfinity() && !p.IsInSubGroup() {
			return &p
		}
	}
	return nil
}

func nonSubgroupG2() *curve.G2Affine {
	_, _, _, g2 := curve.Generators()
	gb := g2.Bytes()
	for x := 1; x < 256; x++ {
		buf := make([]byte, len(gb))
		buf[0] = gb[0] & flagMask
		buf[len(buf)-1] = byte(x)
		var p curve.G2Affine
		if err := curve.NewDecoder(bytes.NewReader(buf), curve.NoSubgroupChecks()).Decode(&p); err != nil {
			continue
		}
		if p.IsOnCurve() && !p.IsInfinity() && !p.IsInSubGroup() {
			return &p
		}
	}
	return nil
}

// torsionG1 returns a non-zero point of order dividing the cofactor (nil if the cofactor is 1):
// adding it leaves every pairing value unchanged but leaves the prime-order subgroup.
func torsionG1() *curve.G1Affine {
	ns := nonSubgroupG1()
	if ns == nil {
		return nil
	}
	var t curve.G1Affine
	t.ScalarMultiplication(ns, fr.Modulus())
	if t.IsInfinity() {
		return nil
	}
	return &t
}

func torsionG2() *curve.G2Affine {
	ns := nonSubgroupG2()
	if ns == nil {
		return nil
	}
	var t curve.G2Affine
	t.ScalarMultiplication(ns, fr.Modulus())
	if t.IsInfinity() {
		return nil
	}
	return &t
}

var (
	tors1 = torsionG1()
	tors2 = torsionG2()
	nsG1  = nonSubgroupG1()
	nsG2  = nonSubgroupG2()
)

// g1Alphabet: the structured replacements of one G1 slot holding v.
func g1Alphabet(v curve.G1Affine, others []namedG1) []namedG1 {
	_, _, g1, _ := curve.Generators()
	var inf, neg, dbl, plus, off curve.G1Affine
	neg.Neg(&v)
	dbl.Double(&v)
	plus.Add(&v, &g1)
	off = v
	var one = off.Y
	one.SetOne()
	off.Y.Add(&off.Y, &one)
	out := []namedG1{{n: "inf", p: inf}, {n: "gen", p: g1}, {n: "neg", p: neg, sub: true}, {n: "double", p: dbl}, {n: "plusG", p: plus, sub: true}}
	if nsG1 != nil {
		out = append(out, namedG1{n: "nonsubgroup", p: *nsG1, nonsub: true})
	}
	if tors1 != nil {
		var pt curve.G1Affine
		pt.Add(&v, tors1)
		out = append(out, namedG1{n: "plusTorsion", p: pt, nonsub: true, sub: true})
	}
	out = append(out, namedG1{n: "offcurve(y+1)", p: off, nonsub: true})
	out = append(out, others...)
	var res []namedG1
	for _, o := range out {
		if o.p != v {
			res = append(res, o)
		}
	}
	return res
}

type namedG2 struct {
	n      string
	p      curve.G2Affine
	nonsub bool
	sub    bool
}

func g2Alphabet(v curve.G2Affine, others []namedG2) []namedG2 {
	_, _, _, g2 := curve.Generators()
	var inf, neg, plus curve.G2Affine
	neg.Neg(&v)
	plus.Add(&v, &g2)
	out := []namedG2{{n: "inf", p: inf}, {n: "gen", p: g2}, {n: "neg", p: neg}, {n: "plusG", p: plus, sub: true}}
	if nsG2 != nil {
		out = append(out, namedG2{n: "nonsubgroup", p: *nsG2, nonsub: true})
	}
	if tors2 != nil {
		var pt curve.G2Affine
		pt.Add(&v, tors2)
		out = append(out, namedG2{n: "plusTorsion", p: pt, nonsub: true, sub: true})
	}
	out = append(out, others...)
	var res []namedG2
	for _, o := range out {
		if o.p != v {
			res = append(res, o)
		}
	}
	return res
}

type namedFr struct {
	n   string
	v   fr.Element
	sub bool
}

func frAlphabet(cur fr.Element, ofB *fr.Element) []namedFr {
	one := fr.One()
	var zero, plus, neg fr.Element
	plus.Add(&cur, &one)
	neg.Neg(&cur)
	out := []namedFr{{n: "0", v: zero}, {n: "1", v: one}, {n: "v+1", v: plus, sub: true}, {n: "-v", v: neg}}
	if ofB != nil {
		out = append(out, namedFr{n: "of-b", v: *ofB})
	}
	var res []namedFr
	for _, o := range out {
		if o.v != cur {
			res = append(res, o)
		}
	}
	return res
}

type pubEdit struct {
	n     string
	v     fr.Vector
	sub   bool
	shape bool // changes the length
}

func pubAlphabet(x, other fr.Vector) []pubEdit {
	var out []pubEdit
	one := fr.One()
	for i := range x {
		p := append(fr.Vector(nil), x...)
		p[i].Add(&p[i], &one)
		out = append(out, pubEdit{n: fmt.Sprintf("pub[%d]+1", i), v: p, sub: i == 0})
		m := append(fr.Vector(nil), x...)
		m[i].Sub(&m[i], &one)
		out = append(out, pubEdit{n: fmt.Sprintf("pub[%d]-1", i), v: m})
	}
	if len(x) >= 2 && x[0] != x[1] {
		s := append(fr.Vector(nil), x...)
		s[0], s[1] = s[1], s[0]
		out = append(out, pubEdit{n: "pub-swap", v: s})
	}
	if len(other) == len(x) && len(x) > 0 {
		out = append(out, pubEdit{n: "pub-of-b", v: append(fr.Vector(nil), other...), sub: true})
	}
	if len(x) > 1 {
		out = append(out, pubEdit{n: "pub-short", v: append(fr.Vector(nil), x[:len(x)-1]...), shape: true})
	}
	out = append(out, pubEdit{n: "pub-long(append 1)", v: append(append(fr.Vector(nil), x...), one), shape: true})
	out = append(out, pubEdit{n: "pub-long(append 0)", v: append(append(fr.Vector(nil), x...), fr.Element{}), shape: true})
	return out
}

// ---------------------------------------------------------------- configurations

type cfg struct {
	vkmode string // witness | fixed
	opt    string // default | complete | subgroup
	engine string // te (test engine) | r1cs | scs (compile + solve)
}

func (k cfg) String() string { return "vk=" + k.vkmode + ",opt=" + k.opt + "," + k.engine }

func bigOf(e fr.Element) *big.Int { var b big.Int; return e.BigInt(&b) }
