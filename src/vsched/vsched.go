// Package vsched is a cooperative controlled scheduler for real Go code.  Exactly one
// registered thread runs at a time; a thread runs until its next scheduling call (channel
// operation, lock, wait, spawn, explicit Point), where it parks with a pending-operation
// descriptor.  The scheduler computes the enabled set from the REAL object state, asks the
// explorer which thread to resume, and the resumed thread then performs the native operation
// (guaranteed not to block).  No enabled thread while some are parked = deadlock.
package vsched

import (
	"bytes"
	"fmt"
	"os"
	"reflect"
	"runtime"
	"sort"
	"strconv"
	"sync"
	"sync/atomic"
	"time"

	"github.com/consensys/gnark/internal/verifh/vh"
)

type Mode int

const (
	// Preemption: switching away from a still-enabled thread costs 1, forced switches are free (CHESS).
	Preemption Mode = iota
	// Delay: a deterministic scheduler (running thread first, then lowest id); every departure costs 1.
	Delay
)

type op struct {
	kind    string
	label   string
	enabled func() bool
	// for select: index of the chosen case is written here by the scheduler
	cases  []Case
	chosen int
}

type thread struct {
	id       int
	resume   chan struct{}
	pending  *op
	finished bool
	goid     int64
	name     string
}

// Result of one controlled execution.
type Result struct {
	Deadlock      bool
	DeadlockInfo  string
	Panics        []string
	Steps         int
	Threads       int
	Uncontrolled  int64
	HorizonHit    bool
	Trace         []string // thread ids chosen (compact)
	FailsInjected []string
}

type Sched struct {
	x        *vh.Ctx
	mode     Mode
	threads  []*thread
	byGoid   sync.Map // goid -> *thread
	running  *thread
	parked   chan struct{}
	mu       sync.Mutex
	closed   map[uintptr]bool
	res      Result
	aborting atomic.Bool
	horizon  int
	Fail     bool // failure injection enabled (MaybeFail points become choices)
	failed   bool
	localSync bool
	afterRecv bool
	lastID    int
	keep      []any
	OnQuiesce func() // optional: called at every scheduling decision (state hashing hooks)
}

var cur atomic.Pointer[Sched]

// Active reports whether a controlled execution is in progress.
func Active() bool { return cur.Load() != nil }

func goid() int64 {
	var buf [64]byte
	n := runtime.Stack(buf[:], false)
	// "goroutine 123 ["
	b := buf[10:n]
	i := bytes.IndexByte(b, ' ')
	id, _ := strconv.ParseInt(string(b[:i]), 10, 64)
	return id
}

// me returns the scheduler and the calling controlled thread (nil, nil when uncontrolled).
func me() (*Sched, *thread) {
	s := cur.Load()
	if s == nil {
		return nil, nil
	}
	if t, ok := s.byGoid.Load(goid()); ok {
		return s, t.(*thread)
	}
	atomic.AddInt64(&s.res.Uncontrolled, 1)
	return nil, nil
}

type abortSignal struct{}

// Options of one run.
type Options struct {
	Mode    Mode
	Horizon int  // max scheduling decisions (0 = 100000)
	Fail    bool // enable MaybeFail choice points (at most one failure per execution)
	// LocalSync: channel / wait-group operations are on objects private to one call (each Solve /
	// Prove owns its channels), so an ENABLED operation of that kind is not offered as a
	// preemption point (partial-order reduction); explicit Points, locks, spawns and every
	// blocking operation still are.
	LocalSync bool
	// AfterRecv: a thread may be descheduled between completing a channel receive and running the
	// code that follows (a worker that took a task before it starts on it).  With points only BEFORE
	// synchronisation operations that code runs atomically with the receive, which is sound for
	// data-race-free programs only; with AfterRecv a second point follows every completed receive.
	AfterRecv bool
}

// Run executes body as thread 0 under the scheduler, with all choices drawn from x.
func Run(x *vh.Ctx, o Options, body func()) *Result {
	s := &Sched{x: x, mode: o.Mode, parked: make(chan struct{}, 1), closed: map[uintptr]bool{}, horizon: o.Horizon, Fail: o.Fail, localSync: o.LocalSync, afterRecv: o.AfterRecv}
	if s.horizon == 0 {
		s.horizon = 100000
	}
	if !cur.CompareAndSwap(nil, s) {
		panic("vsched: nested / concurrent Run")
	}
	defer cur.Store(nil)
	// watchdog: an execution that does not finish is a HARNESS failure (a controlled thread
	// blocked natively); dump all goroutines and exit 4 — never a verdict about gnark
	wd := time.AfterFunc(90*time.Second, func() {
		buf := make([]byte, 1<<22)
		n := runtime.Stack(buf, true)
		fmt.Fprintf(os.Stderr, "VSCHED-WATCHDOG: execution stuck; choices so far %v\nscheduler: %s\n%s\n", x.Choices, s.debug(), buf[:n])
		os.Exit(4)
	})
	defer wd.Stop()
	s.spawn("main", body)
	s.loop()
	s.res.Threads = len(s.threads)
	return &s.res
}

func (s *Sched) spawn(name string, f func()) *thread {
	t := &thread{id: len(s.threads), resume: make(chan struct{}, 1), name: name}
	t.pending = &op{kind: "start", label: "start:" + name, enabled: func() bool { return true }}
	s.mu.Lock()
	s.threads = append(s.threads, t)
	s.mu.Unlock()
	started := make(chan struct{})
	go func() {
		t.goid = goid()
		s.byGoid.Store(t.goid, t)
		close(started)
		<-t.resume
		defer func() {
			if r := recover(); r != nil {
				if _, ok := r.(abortSignal); !ok {
					s.mu.Lock()
					s.res.Panics = append(s.res.Panics, fmt.Sprintf("thread %d (%s): %v", t.id, t.name, r))
					s.mu.Unlock()
				}
			}
			t.finished = true
			t.pending = nil
			s.byGoid.Delete(t.goid)
			s.parked <- struct{}{}
		}()
		if s.aborting.Load() {
			return
		}
		f()
	}()
	<-started
	return t
}

// park is called by a controlled thread at a scheduling point.
func (s *Sched) park(t *thread, o *op) {
	if s.aborting.Load() {
		panic(abortSignal{})
	}
	t.pending = o
	s.parked <- struct{}{}
	<-t.resume
	if s.aborting.Load() {
		panic(abortSignal{})
	}
	t.pending = nil
}

func (s *Sched) loop() {
	// thread 0 is parked at "start"
	var last *thread
	for {
		if last != nil {
			<-s.parked // wait until the running thread parks or exits
		}
		s.mu.Lock()
		ths := append([]*thread(nil), s.threads...)
		s.mu.Unlock()
		var enabled []*thread
		alive := 0
		for _, t := range ths {
			if t.finished {
				continue
			}
			alive++
			if t.pending != nil && t.pending.enabled() {
				enabled = append(enabled, t)
			}
		}
		if alive == 0 {
			return
		}
		if len(enabled) == 0 {
			s.res.Deadlock = true
			var w []string
			for _, t := range ths {
				if !t.finished && t.pending != nil {
					w = append(w, fmt.Sprintf("T%d(%s) waits %s", t.id, t.name, t.pending.label))
				}
			}
			s.res.DeadlockInfo = fmt.Sprint(w)
			s.abort(ths)
			return
		}
		s.res.Steps++
		if s.res.Steps > s.horizon {
			s.res.HorizonHit = true
			s.abort(ths)
			return
		}
		if s.OnQuiesce != nil {
			s.OnQuiesce()
		}
		// canonical order: the thread that just ran first (if still enabled), then ascending ids
		sort.Slice(enabled, func(i, j int) bool {
			if (enabled[i] == last) != (enabled[j] == last) {
				return enabled[i] == last
			}
			return enabled[i].id < enabled[j].id
		})
		var pick int
		switch {
		case len(enabled) == 1:
			pick = 0
		case s.localSync && enabled[0] == last && invisible(last.pending.kind, last.pending.label):
			pick = 0 // enabled operation on a call-private object: not a preemption point
		case s.mode == Preemption && enabled[0] != last:
			pick = s.x.ChooseFree("switch", len(enabled)) // forced switch: free
		default:
			pick = s.x.Choose("sched", len(enabled))
		}
		t := enabled[pick]
		if t.pending.kind == "select" {
			// choose among the enabled cases (each alternative is a choice)
			var en []int
			for i, c := range t.pending.cases {
				if c.enabled() {
					en = append(en, i)
				}
			}
			if len(en) == 0 {
				t.pending.chosen = -1 // default
			} else if len(en) == 1 {
				t.pending.chosen = en[0]
			} else {
				t.pending.chosen = en[s.x.Choose("select", len(en))]
			}
		}
		if len(s.res.Trace) < 4096 {
			s.res.Trace = append(s.res.Trace, strconv.Itoa(t.id))
		}
		last = t
		s.lastID = t.id
		t.resume <- struct{}{}
	}
}

func (s *Sched) debug() string {
	var b bytes.Buffer
	fmt.Fprintf(&b, "steps=%d last=%v trace-tail=%v;", s.res.Steps, s.lastID, s.res.Trace[max(0, len(s.res.Trace)-20):])
	for _, t := range s.threads {
		l := "<running>"
		if t.pending != nil {
			l = t.pending.label
		}
		fmt.Fprintf(&b, " T%d(goid %d fin=%v %s)", t.id, t.goid, t.finished, l)
	}
	return b.String()
}

func invisible(kind, label string) bool {
	switch kind {
	case "recv", "send", "close", "select":
		return true
	case "block":
		return label == "wg.wait"
	case "point":
		return label == "wg.add"
	}
	return false
}

// abort releases every parked thread; they unwind with a sentinel panic (deferred shim calls are no-ops).
func (s *Sched) abort(ths []*thread) {
	s.aborting.Store(true)
	n := 0
	for _, t := range ths {
		if !t.finished {
			n++
			t.resume <- struct{}{}
		}
	}
	for i := 0; i < n; i++ {
		<-s.parked
	}
}

// ---------------------------------------------------------------- operations used by instrumented code

// Go spawns a controlled thread (native goroutine when no run is active).
func Go(f func()) {
	s, t := me()
	if s == nil {
		go f()
		return
	}
	_ = t
	s.spawn("go", f)
}

// Point is an explicit scheduling point (shared-access granularity).
func Point(label string) {
	s, t := me()
	if s == nil {
		return
	}
	s.park(t, &op{kind: "point", label: label, enabled: func() bool { return true }})
}

// Aborting reports whether the current execution is being torn down.
func aborting() bool {
	s := cur.Load()
	return s != nil && s.aborting.Load()
}

func chanID(ch any) uintptr { return reflect.ValueOf(ch).Pointer() }

func recvEnabled[T any](s *Sched, ch <-chan T) func() bool {
	id := chanID(ch)
	signalOnly := reflect.TypeOf(ch).ChanDir() == reflect.RecvDir // e.g. ctx.Done(): only ever closed
	return func() bool {
		if ch == nil {
			return false
		}
		if len(ch) > 0 || s.closed[id] {
			return true
		}
		if signalOnly {
			select {
			case _, ok := <-ch:
				if !ok {
					s.closed[id] = true
					s.keep = append(s.keep, ch)
					return true
				}
				panic("vsched: value received from a signal-only channel")
			default:
			}
		}
		return false
	}
}

func Recv[T any](ch <-chan T) T {
	v, _ := Recv2(ch)
	return v
}

func Recv2[T any](ch <-chan T) (T, bool) {
	s, t := me()
	if s == nil {
		if aborting() {
			var z T
			return z, false
		}
		v, ok := <-ch
		return v, ok
	}
	if cap(ch) == 0 && reflect.TypeOf(ch).ChanDir() != reflect.RecvDir && ch != nil {
		panic("vsched: unbuffered channels are not supported")
	}
	s.park(t, &op{kind: "recv", label: fmt.Sprintf("recv %x", chanID(ch)&0xffff), enabled: recvEnabled(s, ch)})
	v, ok := <-ch
	if s.afterRecv && ok {
		s.park(t, &op{kind: "point", label: "after-recv", enabled: func() bool { return true }})
	}
	return v, ok
}

func Send[T any](ch chan<- T, v T) {
	s, t := me()
	if s == nil {
		if aborting() {
			return
		}
		ch <- v
		return
	}
	if cap(ch) == 0 {
		panic("vsched: unbuffered channels are not supported")
	}
	id := chanID(ch)
	s.park(t, &op{kind: "send", label: fmt.Sprintf("send %x", id&0xffff), enabled: func() bool { return s.closed[id] || len(ch) < cap(ch) }})
	ch <- v // panics on closed channel exactly like native code
}

func Close[T any](ch chan<- T) {
	s, t := me()
	if s == nil {
		if aborting() {
			return
		}
		close(ch)
		return
	}
	id := chanID(ch)
	s.park(t, &op{kind: "close", label: fmt.Sprintf("close %x", id&0xffff), enabled: func() bool { return true }})
	close(ch)
	s.closed[id] = true
	s.keep = append(s.keep, ch) // keep the object alive: its address must not be reused by a new channel during this run
}

// Case is one alternative of a select.  The receive / send is performed by Select itself (after
// the scheduler resumed the thread; natively through reflect.Select when uncontrolled) and the
// received value is left in the typed holder.
type Case interface {
	enabled() bool
	perform()
	reflectCase() reflect.SelectCase
	fromReflect(v reflect.Value, ok bool)
}

type RCase[T any] struct {
	ch  <-chan T
	en  func() bool
	V   T
	OK  bool
}

func RecvCase[T any](ch <-chan T) *RCase[T] {
	c := &RCase[T]{ch: ch}
	if s := cur.Load(); s != nil {
		c.en = recvEnabled(s, ch)
	}
	return c
}
func (c *RCase[T]) enabled() bool { return c.en != nil && c.en() }
func (c *RCase[T]) perform()      { c.V, c.OK = <-c.ch }
func (c *RCase[T]) reflectCase() reflect.SelectCase {
	return reflect.SelectCase{Dir: reflect.SelectRecv, Chan: reflect.ValueOf(c.ch)}
}
func (c *RCase[T]) fromReflect(v reflect.Value, ok bool) {
	c.OK = ok
	if ok {
		c.V, _ = v.Interface().(T) // a nil interface value (e.g. nil error) stays the zero value
	}
}

type SCase[T any] struct {
	ch chan<- T
	v  T
	s  *Sched
}

func SendCase[T any](ch chan<- T, v T) *SCase[T] { return &SCase[T]{ch: ch, v: v, s: cur.Load()} }
func (c *SCase[T]) enabled() bool {
	if c.ch == nil || c.s == nil {
		return false
	}
	return c.s.closed[chanID(c.ch)] || len(c.ch) < cap(c.ch)
}
func (c *SCase[T]) perform() { c.ch <- c.v }
func (c *SCase[T]) reflectCase() reflect.SelectCase {
	return reflect.SelectCase{Dir: reflect.SelectSend, Chan: reflect.ValueOf(c.ch), Send: reflect.ValueOf(c.v)}
}
func (c *SCase[T]) fromReflect(reflect.Value, bool) {}

// Select returns the index of the case that was performed (chosen by the explorer among the
// enabled ones), or -1 for default.
func Select(hasDefault bool, cases ...Case) int {
	s, t := me()
	if s == nil {
		if aborting() {
			panic(abortSignal{})
		}
		rc := make([]reflect.SelectCase, 0, len(cases)+1)
		for _, c := range cases {
			rc = append(rc, c.reflectCase())
		}
		if hasDefault {
			rc = append(rc, reflect.SelectCase{Dir: reflect.SelectDefault})
		}
		i, v, ok := reflect.Select(rc)
		if i == len(cases) {
			return -1
		}
		cases[i].fromReflect(v, ok)
		return i
	}
	o := &op{kind: "select", label: "select", cases: cases}
	o.enabled = func() bool {
		if hasDefault {
			return true
		}
		for _, c := range cases {
			if c.enabled() {
				return true
			}
		}
		return false
	}
	s.park(t, o)
	if o.chosen >= 0 {
		cases[o.chosen].perform()
	}
	return o.chosen
}

// MaybeFail is inserted (failure-injection builds) between `x, err := f()` and `if err != nil`.
func MaybeFail(site string, err *error) {
	s, _ := me()
	if s == nil || !s.Fail || s.failed || *err != nil {
		return
	}
	if s.x.Choose("fail:"+site, 2) == 1 {
		s.failed = true
		s.res.FailsInjected = append(s.res.FailsInjected, site)
		*err = fmt.Errorf("injected failure at %s", site)
	}
}

// Block parks the calling thread until cond holds (used by the vsync shims).
func Block(label string, cond func() bool) bool {
	s, t := me()
	if s == nil {
		return false
	}
	s.park(t, &op{kind: "block", label: label, enabled: cond})
	return true
}

// Controlled reports whether the caller is a controlled thread of an active run.
func Controlled() bool {
	s, _ := me()
	return s != nil
}

// Tearing reports whether the current run is aborting (shim no-op mode).
func Tearing() bool { return aborting() }
