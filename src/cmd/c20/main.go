// C20: proofs are freshly blinded and committed values are masked.
package main

import (
	"github.com/consensys/gnark/internal/verifh/bk"
	_ "github.com/consensys/gnark/internal/verifh/bkall"
	"github.com/consensys/gnark/internal/verifh/bkcat"
	"github.com/consensys/gnark/internal/verifh/vh"
	"github.com/consensys/gnark/logger"
)

func main() {
	c := vh.New("C20")
	logger.Disable()
	c.Rule("the prover's randomness is an environment answer: crypto/rand.Reader is replaced by a reader that identifies each draw by (gnark call site, index). Per (curve, catalogue circuit, backend, statistical-ZK on/off): the default run discovers every draw; then ALL single departures (draw := 0, draw := another value) are executed and the set of proof elements that changes is compared with the protocol's dependency matrix (r: Ar,Krs / s: Bs,Krs / mask i: commitment i; PLONK bl,br,bo: LRO[j] / bz: Z / BSB22 blinding i / quotient randomizers: H), every blinded element must depend on at least one draw, must differ from the all-zero-randomness (deterministic, unblinded) proof, whose Ar / LRO are themselves validated against commitments recomputed from the proving key and the hooked wire values; and the 1st, 2nd and 3rd proof in one process draw fresh values and differ pairwise in every blinded element. distinct = (check, role, size of changed set).")
	c.Assume("all prover randomness flows through crypto/rand.Reader (true for gnark and gnark-crypto)", "zero-knowledge itself (distribution of the blinding) is not decidable by enumeration; this decides presence, freshness and reach of every blinding draw")
	cases := bkcat.Cases()
	for _, id := range bk.Curves(c.Quick()) {
		if !c.Want(id.String()) {
			continue
		}
		bk.Kits[id].Run["c20"](c, bk.CasesFor(id, c.Quick(), cases, 2))
	}
	c.Finish()
}
