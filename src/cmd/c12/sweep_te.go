package main

import (
	"fmt"
	"math/big"
	"os"
	"sync/atomic"
	"time"

	"github.com/consensys/gnark/internal/verifh/vh"
)

var timing = os.Getenv("C12_TIMING") != ""

type teJob struct {
	cfg  int
	p    *prog
	part string
	idx  int64
	ref  refResult
}

type teUnit struct {
	cfg  int
	jobs []*teJob
}

func partRank(part string) int64 {
	switch part {
	case "d1":
		return 0
	case "d2":
		return 1
	}
	return 2
}

const teBatch = 24

func sweepTE(c *vh.Check, ops []*opDef) {
	cfgs := configs(c)
	total, executed, nUnits := 0, int64(0), 0
	var sampled atomic.Int64
	capped := false
	// one configuration at a time (bounds the memory held by the enumerated programs)
	for ci, cf := range cfgs {
		fi := cf.kit.Info()
		pl := cf.plan
		var jobs []*teJob
		add := func(part string, ps []*prog) {
			for _, p := range ps {
				jobs = append(jobs, &teJob{cfg: ci, p: p, part: part})
			}
			c.Count("te-programs", fi.name+"/"+cf.native.name+":"+part, int64(len(ps)))
			c.Count("te-programs", "total:"+part, int64(len(ps)))
		}
		if c.Want("te.d1") && pl.d1 {
			add("d1", depth1(ops, pl))
		}
		if c.Want("te.d2") && pl.d2 {
			add("d2", depth2(ops, pl, fi))
		}
		if c.Want("te.fam") && pl.fam {
			add("fam", families(ops, pl, fi, cf.native.mod.BitLen()))
		}
		if capped || c.Expired() {
			capped = true
			total += len(jobs)
			continue
		}
		vh.ParN(len(jobs), 0, func(i int) bool { // references in parallel
			jobs[i].ref = refProg(fi, modeTE, jobs[i].p)
			return true
		})
		// batches: satisfiable, judged programs of one configuration share a test-engine run
		var units []teUnit
		var cur []*teJob
		flush := func() {
			if len(cur) > 0 {
				units = append(units, teUnit{ci, cur})
				cur = nil
			}
		}
		for _, j := range jobs {
			j.idx = int64(total)
			total++
			if j.ref.verd != verdOK || j.ref.precond || j.p.hasSlow() {
				units = append(units, teUnit{ci, []*teJob{j}})
				continue
			}
			cur = append(cur, j)
			lim := teBatch
			for _, st := range j.p.steps {
				if st.op.name == "Lookup2" || st.op.name == "Mux" {
					lim = 4
				}
			}
			if len(cur) >= lim {
				flush()
			}
		}
		flush()
		nUnits += len(units)
		// slow units first (longest processing time first keeps the workers busy until the end)
		order := make([]int, 0, len(units))
		for i, u := range units {
			if u.jobs[0].p.hasSlow() {
				order = append(order, i)
			}
		}
		for i, u := range units {
			if !u.jobs[0].p.hasSlow() {
				order = append(order, i)
			}
		}
		var done atomic.Int64
		ok := c.Par(len(order), func(i int) {
			u := units[order[i]]
			runUnit(c, cf, u.jobs, &sampled)
			done.Add(int64(len(u.jobs)))
		})
		executed += done.Load()
		if !ok {
			capped = true
		}
	}
	fmt.Printf("te: %d programs in %d test-engine runs over %d (field,native) configurations\n", total, nUnits, len(cfgs))
	c.Count("te-programs", "executed", executed)
	if capped {
		c.Cap(fmt.Sprintf("internal deadline during the test-engine sweep: %d of %d programs executed", executed, total))
	}
}

func runUnit(c *vh.Check, cf config, jobs []*teJob, sampled *atomic.Int64) {
	ps := make([]*prog, len(jobs))
	for i, j := range jobs {
		ps[i] = j.p
	}
	t0 := time.Now()
	obs, err := cf.kit.RunTE(cf.native.mod, ps)
	c.Evals.Add(1)
	if timing {
		c.Count("te-ms", cf.kit.Info().name+":"+jobs[0].part+":"+jobs[0].p.steps[len(jobs[0].p.steps)-1].op.name, time.Since(t0).Microseconds())
	}
	if err != "" && len(jobs) > 1 {
		// attribute the failure: bisect
		c.Count("te-programs", "batches-bisected", 1)
		runUnit(c, cf, jobs[:len(jobs)/2], sampled)
		runUnit(c, cf, jobs[len(jobs)/2:], sampled)
		return
	}
	for i, j := range jobs {
		judgeTE(c, cf, j, obs[i], err, sampled)
	}
}

func judgeTE(c *vh.Check, cf config, j *teJob, obs *observed, err string, sampled *atomic.Int64) {
	fi := cf.kit.Info()
	p, ref, part := j.p, j.ref, j.part
	c.Traces.Add(1)
	sig := errSig(err)
	order := partRank(part)<<40 | int64(fi.q.BitLen())<<28 | (j.idx & (1<<28 - 1))
	first := p.steps[0].op.name
	if p.fam.kind != "" {
		first = p.fam.kind + "^k;op"
		c.Outcome("family-op:" + p.steps[0].op.name)
	}
	class := ""
	bad := func(cl string, extra map[string]any) {
		extra["program"] = p.String()
		extra["field"] = fi.name
		extra["native"] = cf.native.name
		extra["engine"] = "test engine"
		extra["modulus"] = fi.q.String()
		extra["operand_values"] = operandValues(fi, p)
		if err != "" {
			extra["error"] = short(err)
		}
		report(groupOf(fi, cf.native.name, "te", p, cl, sig, err), order, keyOf(fi, cf.native.name, "te", p, cl), extra)
		class = "VIOLATION-" + cl
	}
	switch {
	case ref.verd == verdUndef:
		class = "undefined-or-unjudged"
	case err != "":
		switch {
		case ref.precond && sig == "precond-overflow":
			class = "refused-documented-precondition"
		case ref.verd == verdFail:
			class = "false-statement-rejected"
		default:
			bad("sat-rejected", map[string]any{"reference": refString(ref)})
		}
	case ref.verd == verdFail:
		bad("unsat-accepted", map[string]any{"reference": "no witness exists / assertion false"})
	default:
		class = "ok"
		if ref.hasOut {
			if cl, extra := compareObserved(fi, p, ref, obs); cl != "" {
				bad(cl, extra)
			}
		}
	}
	c.Outcome("te:" + first + ":" + class)
	c.Outcome("te:" + fi.name + "/" + cf.native.name + ":" + class)
	if class == "ok" && part != "d1" && j.idx%4001 == 7 && sampled.Add(1) <= 8 {
		s := map[string]any{"part": "test-engine", "field": fi.name, "native": cf.native.name, "program": p.String(), "operand_values": operandValues(fi, p), "reference": refString(ref)}
		if obs.hasE {
			s["result_integer_from_limbs"] = obs.resInt.String()
			s["result_limbs"] = obs.nLimbs
		}
		c.Sample(s)
	}
}

// compareObserved applies the value oracle to what the test engine computed.
func compareObserved(fi *finfo, p *prog, ref refResult, obs *observed) (string, map[string]any) {
	last := p.steps[len(p.steps)-1].op.name
	switch ref.final.t {
	case tE:
		if !obs.hasE {
			return "no-result", map[string]any{}
		}
		got := fi.mod(obs.resInt)
		want := ref.final.v
		if got.Cmp(want) != 0 && !(last == "Sqrt" && fi.mod(new(big.Int).Neg(got)).Cmp(want) == 0) {
			return "wrong-result", map[string]any{"got_integer": obs.resInt.String(), "got_mod_q": got.String(), "want_mod_q": want.String()}
		}
		if last == "ReduceStrict" && obs.resInt.Cmp(fi.q) >= 0 {
			return "not-canonical", map[string]any{"got_integer": obs.resInt.String()}
		}
	case tB:
		x := new(big.Int)
		for i := len(obs.bits) - 1; i >= 0; i-- {
			if obs.bits[i].Sign() < 0 || obs.bits[i].Cmp(one) > 0 {
				return "non-boolean-bit", map[string]any{"bit": i}
			}
			x.Lsh(x, 1).Add(x, obs.bits[i])
		}
		if fi.mod(x).Cmp(ref.final.v) != 0 {
			return "wrong-bits", map[string]any{"got_integer": x.String(), "want_mod_q": ref.final.v.String()}
		}
		if last == "ToBitsCanonical" {
			nb := fi.q.BitLen()
			if fi.q.TrailingZeroBits() == uint(nb-1) {
				nb--
			}
			if x.Cmp(ref.final.v) != 0 || len(obs.bits) != nb {
				return "bits-not-canonical", map[string]any{"got_integer": x.String(), "want": ref.final.v.String(), "nbits": len(obs.bits)}
			}
		}
	case tb:
		if !obs.hasb || obs.bval.Cmp(ref.final.v) != 0 {
			return "wrong-boolean", map[string]any{"got": fmt.Sprint(obs.bval), "want": ref.final.v.String()}
		}
	}
	return "", nil
}

func refString(r refResult) string {
	switch r.verd {
	case verdFail:
		return "false statement (must be rejected)"
	case verdUndef:
		return "undefined"
	}
	if !r.hasOut {
		return "satisfiable, no result"
	}
	return "satisfiable, result = " + r.final.v.String()
}

func operandValues(fi *finfo, p *prog) map[string]string {
	m := map[string]string{}
	for _, s := range p.steps {
		for _, a := range s.args {
			switch a.src {
			case srcW, srcC, srcXC, srcBits:
				m[valNames[a.v]] = p.val(fi, a).String()
			}
		}
	}
	return m
}
