package main

import (
	"fmt"
	"math/big"
	"strings"

	"github.com/consensys/gnark/backend/witness"
	"github.com/consensys/gnark/constraint"
	"github.com/consensys/gnark/constraint/solver"
	"github.com/consensys/gnark/frontend"
	"github.com/consensys/gnark/internal/verifh/circ"
	"github.com/consensys/gnark/internal/verifh/hintenv"
	"github.com/consensys/gnark/internal/verifh/vh"
	"github.com/consensys/gnark/std/math/emulated"
	"github.com/consensys/gnark/test"
)

// Kit hides the type parameter.
type Kit interface {
	Info() *finfo
	// RunTE executes p in the test engine over the native field.
	RunTE(native *big.Int, ps []*prog) (obs []*observed, err string)
	// Compile compiles the exposure circuit of p.
	Compile(native *big.Int, builder string, p *prog) (constraint.ConstraintSystem, string)
	// Witness builds the full witness for a compiled exposure circuit.
	Witness(native *big.Int, p *prog, expE *big.Int, expBits []*big.Int, expBool *big.Int) (witness.Witness, error)
}

type kit[T emulated.FieldParams] struct{ fi *finfo }

func newKit[T emulated.FieldParams](name string) Kit {
	var t T
	return &kit[T]{fi: newFinfo(name, t.Modulus(), t.BitsPerLimb(), t.NbLimbs())}
}

func (k *kit[T]) Info() *finfo { return k.fi }

func (k *kit[T]) RunTE(native *big.Int, ps []*prog) ([]*observed, string) {
	obs := make([]*observed, len(ps))
	for i := range obs {
		obs[i] = &observed{}
	}
	c := teCircuit[T](k.fi, ps, obs)
	a := teAssignment[T](k.fi, ps)
	var err error
	pan := vh.Recover(func() { err = test.IsSolved(c, a, native) })
	if pan != "" {
		return obs, "panic: " + pan
	}
	if err != nil {
		return obs, err.Error()
	}
	return obs, ""
}

func (k *kit[T]) Compile(native *big.Int, builder string, p *prog) (constraint.ConstraintSystem, string) {
	c := csCircuit[T](k.fi, p)
	cs, err, pan := circ.Compile(native, builder, c, frontend.IgnoreUnconstrainedInputs())
	if pan != "" {
		return nil, "panic: " + pan
	}
	if err != nil {
		return nil, err.Error()
	}
	return cs, ""
}

func (k *kit[T]) Witness(native *big.Int, p *prog, expE *big.Int, expBits []*big.Int, expBool *big.Int) (witness.Witness, error) {
	a := assignment[T](k.fi, p, true, expE, expBits, expBool)
	return frontend.NewWitness(a, native)
}

// solve runs the real solver deterministically (commitment = hash of the committed values).
func solve(cs constraint.ConstraintSystem, w witness.Witness, extra ...solver.Option) string {
	opts := []solver.Option{solver.WithNbTasks(1)}
	for id, h := range hintenv.Det() {
		opts = append(opts, solver.OverrideHint(id, h))
	}
	opts = append(opts, extra...)
	var err error
	pan := vh.Recover(func() { _, err = cs.Solve(w, opts...) })
	if pan != "" {
		return "panic: " + pan
	}
	if err != nil {
		return err.Error()
	}
	return ""
}

// errSig abstracts an error text to its kind.
func errSig(e string) string {
	switch {
	case e == "":
		return "ok"
	case strings.Contains(e, "inputs must have 0 overflow"):
		return "precond-overflow"
	case strings.Contains(e, "trying to reduce a constant"):
		return "panic-reduce-constant"
	case strings.Contains(e, "nil limb") || strings.Contains(e, "nil pointer") || strings.Contains(e, "unrecognized type") || strings.Contains(e, "<nil>"):
		return "panic-nil-limb"
	case strings.Contains(e, "inputs missing"):
		return "hint-inverse-inputs-missing"
	case strings.Contains(e, "slice bounds out of range"):
		return "panic-slice-bounds"
	case strings.Contains(e, "no modular inverse") || strings.Contains(e, "not relatively primes"):
		return "hint-no-inverse"
	case strings.Contains(e, "no square root"):
		return "hint-no-sqrt"
	case strings.Contains(e, "does not fit"):
		return "hint-decompose-overflow"
	case strings.Contains(e, "wider than emulated parameter"):
		return "limb-too-wide"
	case strings.Contains(e, "index out of range"):
		return "panic-index"
	case strings.HasPrefix(e, "panic"):
		return "panic-other"
	case strings.Contains(e, "[assertIsEqual]") || strings.Contains(e, "!="):
		return "assert-eq"
	case strings.Contains(e, "range") || strings.Contains(e, "bits"):
		return "range-or-bits"
	case strings.Contains(e, "is not satisfied") || strings.Contains(e, "constraint"):
		return "constraint"
	}
	return "other"
}

func short(e string) string {
	if i := strings.Index(e, "\ngoroutine"); i > 0 {
		e = e[:i]
	}
	if len(e) > 400 {
		e = e[:400]
	}
	return e
}

var _ = fmt.Sprint
