package main

import (
	"fmt"
	"math/big"
	"strings"
	"sync"
	"sync/atomic"

	"github.com/consensys/gnark/constraint/solver"
	"github.com/consensys/gnark/internal/verifh/hintenv"
	"github.com/consensys/gnark/internal/verifh/vh"
)

// ---------------------------------------------------------------------------------------
// (E) dishonest prover: every call of an emulated / bit-decomposition hint during Solve is a
// choice point: honest output, generic edits (+1/-1 on every output, swap neighbours, all zero)
// or a derived dishonest answer computed by the harness.
// ---------------------------------------------------------------------------------------

type hintInfo struct {
	id   solver.HintID
	name string
	fn   solver.Hint
	kind string // mul, div, inv, sqrt, pad, bits, invzero, rc, ""
	high bool   // may take part in two-departure executions
}

var (
	hintOnce sync.Once
	hintReg  []hintInfo
)

func registry() []hintInfo {
	hintOnce.Do(func() {
		for _, h := range solver.GetRegisteredHints() {
			n := solver.GetHintName(h)
			hi := hintInfo{id: solver.GetHintID(h), name: n, fn: h}
			switch {
			case strings.HasSuffix(n, "math/emulated.mulHint"):
				hi.kind, hi.high = "mul", true
			case strings.HasSuffix(n, "math/emulated.DivHint"):
				hi.kind, hi.high = "div", true
			case strings.HasSuffix(n, "math/emulated.InverseHint"):
				hi.kind, hi.high = "inv", true
			case strings.HasSuffix(n, "math/emulated.SqrtHint"):
				hi.kind, hi.high = "sqrt", true
			case strings.HasSuffix(n, "math/emulated.subPaddingHint"):
				hi.kind, hi.high = "pad", true
			case strings.HasSuffix(n, "math/bits.nBits"):
				hi.kind = "bits"
			case strings.HasSuffix(n, "solver.InvZeroHint"):
				hi.kind = "invzero"
			case strings.HasSuffix(n, "rangecheck.DecomposeHint"):
				hi.kind = "rc"
			}
			if hi.id == hintenv.BsbID || hi.id == hintenv.RandID {
				continue
			}
			hintReg = append(hintReg, hi)
		}
	})
	return hintReg
}

func recomp(ls []*big.Int, w uint) *big.Int {
	r := new(big.Int)
	for i := len(ls) - 1; i >= 0; i-- {
		r.Lsh(r, w)
		r.Add(r, ls[i])
	}
	return r
}

// decompTop decomposes x on n limbs of w bits; the top limb absorbs whatever does not fit.
func decompTop(x *big.Int, w uint, n int) []*big.Int {
	out := make([]*big.Int, n)
	if n == 0 {
		return out
	}
	mask := new(big.Int).Sub(new(big.Int).Lsh(one, w), one)
	t := new(big.Int).Set(x)
	for i := 0; i < n-1; i++ {
		out[i] = new(big.Int).And(t, mask)
		t.Rsh(t, w)
	}
	out[n-1] = t
	return out
}

func limbMulInt(a, b []*big.Int) []*big.Int {
	if len(a) == 0 || len(b) == 0 {
		return nil
	}
	res := make([]*big.Int, len(a)+len(b)-1)
	for i := range res {
		res[i] = new(big.Int)
	}
	t := new(big.Int)
	for i := range a {
		for j := range b {
			res[i+j].Add(res[i+j], t.Mul(a[i], b[j]))
		}
	}
	return res
}

// carriesInt: the honest carries over the integers for given a,b,k,r,p limbs.
func carriesInt(a, b, k, p, r []*big.Int, n int, w uint) []*big.Int {
	lhs := limbMulInt(a, b)
	rhs := limbMulInt(k, p)
	for i := range r {
		if i < len(rhs) {
			rhs[i].Add(rhs[i], r[i])
		} else {
			rhs = append(rhs, new(big.Int).Set(r[i]))
		}
	}
	out := make([]*big.Int, n)
	carry := new(big.Int)
	for i := range out {
		if i < len(lhs) {
			carry.Add(carry, lhs[i])
		}
		if i < len(rhs) {
			carry.Sub(carry, rhs[i])
		}
		carry.Rsh(carry, w)
		out[i] = new(big.Int).Set(carry)
	}
	return out
}

// carriesModN: c(X) = (a(X)b(X) - r(X) - k(X)p(X)) / (2^w - X) over the NATIVE field (exists with
// degree n-1 whenever the identity holds at X = 2^w modulo N).
func carriesModN(a, b, k, p, r []*big.Int, n int, w uint, N *big.Int) []*big.Int {
	lhs := limbMulInt(a, b)
	rhs := limbMulInt(k, p)
	for i := range r {
		if i < len(rhs) {
			rhs[i].Add(rhs[i], r[i])
		} else {
			rhs = append(rhs, new(big.Int).Set(r[i]))
		}
	}
	inv := new(big.Int).ModInverse(new(big.Int).Lsh(one, w), N)
	out := make([]*big.Int, n)
	c := new(big.Int)
	for i := range out {
		if i < len(lhs) {
			c.Add(c, lhs[i])
		}
		if i < len(rhs) {
			c.Sub(c, rhs[i])
		}
		c.Mul(c, inv).Mod(c, N)
		out[i] = new(big.Int).Set(c)
	}
	return out
}

const nDerived = 6

func derivedName(kind string, d int) string {
	names := map[string][]string{
		"mul":  {"k-1,r+q", "k-2,r+2q", "k+1,r-q(limbwise mod N)", "r+1,k:=(ab-r-1)/q mod N,carries mod N", "r:=0,k:=ab/q mod N,carries mod N", "r+1,carries mod N"},
		"div":  {"v+q", "q-v", "2v", "a/(b+1)", "v+1 mod q", "1"},
		"inv":  {"v+q", "q-v", "2v", "1/(a+1)", "v+1 mod q", "1"},
		"sqrt": {"v+q", "q-v (other root)", "2v", "sqrt of a+1", "v+1 mod q", "1"},
		"pad":  {"pad+q", "2^(w+overflow) limbs without correction", "canonical limbs of a multiple of q", "pad+1", "pad+2q", "limbwise 2*pad"},
	}
	if l, ok := names[kind]; ok {
		return l[d]
	}
	return fmt.Sprint("derived", d)
}

func nAlternatives(hi *hintInfo, nOut int) int {
	n := 3 * nOut // +1, -1 on each output; swap neighbours (nOut-1); all zero
	if hi.high {
		n += nDerived
	}
	return n
}

func altName(hi *hintInfo, nOut, idx int) string {
	switch {
	case idx < 2*nOut:
		if idx%2 == 0 {
			return fmt.Sprintf("out[%d]+1", idx/2)
		}
		return fmt.Sprintf("out[%d]-1", idx/2)
	case idx < 3*nOut-1:
		return fmt.Sprintf("swap(out[%d],out[%d])", idx-2*nOut, idx-2*nOut+1)
	case idx == 3*nOut-1:
		return "all-zero"
	}
	return derivedName(hi.kind, idx-3*nOut)
}

// applyAlt overwrites out with alternative idx (0-based, honest output given in out).
func applyAlt(hi *hintInfo, N *big.Int, in, out []*big.Int, idx int) {
	m := len(out)
	set := func(vals []*big.Int) {
		for i := range out {
			if i < len(vals) && vals[i] != nil {
				out[i].Mod(vals[i], N)
			}
		}
	}
	switch {
	case idx < 2*m:
		d := int64(1)
		if idx%2 == 1 {
			d = -1
		}
		out[idx/2].Add(out[idx/2], big.NewInt(d))
		out[idx/2].Mod(out[idx/2], N)
		return
	case idx < 3*m-1:
		j := idx - 2*m
		t := new(big.Int).Set(out[j])
		out[j].Set(out[j+1])
		out[j+1].Set(t)
		return
	case idx == 3*m-1:
		for i := range out {
			out[i].SetInt64(0)
		}
		return
	}
	d := idx - 3*m
	switch hi.kind {
	case "mul":
		w := uint(in[0].Uint64())
		n := int(in[1].Int64())
		na := int(in[2].Int64())
		nq := int(in[3].Int64())
		p := in[4 : 4+n]
		a := in[4+n : 4+n+na]
		b := in[4+n+na:]
		k := out[:nq]
		r := out[nq : nq+n]
		nc := len(out) - nq - n
		P, A, B, K, R := recomp(p, w), recomp(a, w), recomp(b, w), recomp(k, w), recomp(r, w)
		if P.Sign() == 0 {
			return
		}
		emit := func(k2, r2, c2 []*big.Int) {
			set(append(append(append([]*big.Int{}, k2...), r2...), c2...))
		}
		switch d {
		case 0, 1:
			t := big.NewInt(int64(d + 1))
			K2 := new(big.Int).Sub(K, t)
			R2 := new(big.Int).Add(R, new(big.Int).Mul(P, t))
			if K2.Sign() < 0 || nq == 0 {
				return
			}
			k2, r2 := decompTop(K2, w, nq), decompTop(R2, w, n)
			emit(k2, r2, carriesInt(a, b, k2, p, r2, nc, w))
		case 2:
			K2 := new(big.Int).Add(K, one)
			if nq == 0 {
				return
			}
			k2 := decompTop(K2, w, nq)
			r2 := make([]*big.Int, n)
			for i := range r2 {
				r2[i] = new(big.Int).Sub(r[i], p[i])
				r2[i].Mod(r2[i], N)
			}
			emit(k2, r2, carriesModN(a, b, k2, p, r2, nc, w, N))
		case 3, 4:
			if nq == 0 {
				return
			}
			R2 := new(big.Int).Add(R, one)
			if d == 4 {
				R2 = new(big.Int)
			}
			pinv := new(big.Int).ModInverse(new(big.Int).Mod(P, N), N)
			if pinv == nil {
				return
			}
			K2 := new(big.Int).Mul(A, B)
			K2.Sub(K2, R2).Mod(K2, N).Mul(K2, pinv).Mod(K2, N)
			k2, r2 := decompTop(K2, w, nq), decompTop(R2, w, n)
			emit(k2, r2, carriesModN(a, b, k2, p, r2, nc, w, N))
		case 5:
			r2 := decompTop(new(big.Int).Add(R, one), w, n)
			emit(k, r2, carriesModN(a, b, k, p, r2, nc, w, N))
		}
	case "div", "inv", "sqrt":
		w := uint(in[0].Uint64())
		n := int(in[1].Int64())
		var P, X, Y *big.Int // X: operand (numerator), Y: denominator
		switch hi.kind {
		case "div":
			nd, nn := int(in[2].Int64()), int(in[3].Int64())
			P = recomp(in[4:4+n], w)
			X = recomp(in[4+n:4+n+nn], w)
			Y = recomp(in[4+n+nn:4+n+nn+nd], w)
		case "inv":
			P = recomp(in[2:2+n], w)
			X = recomp(in[2+n:], w)
		case "sqrt":
			P = recomp(in[2:2+n], w)
			l := int(in[3+n].Int64())
			X = recomp(in[4+n:4+n+l], w)
		}
		V := recomp(out, w)
		var V2 *big.Int
		switch d {
		case 0:
			V2 = new(big.Int).Add(V, P)
		case 1:
			V2 = new(big.Int).Sub(P, V)
		case 2:
			V2 = new(big.Int).Lsh(V, 1)
			V2.Mod(V2, P)
		case 3:
			switch hi.kind {
			case "inv":
				V2 = new(big.Int).ModInverse(new(big.Int).Add(X, one), P)
			case "div":
				if i := new(big.Int).ModInverse(new(big.Int).Add(Y, one), P); i != nil {
					V2 = i.Mul(i, X).Mod(i, P)
				}
			case "sqrt":
				V2 = new(big.Int).ModSqrt(new(big.Int).Mod(new(big.Int).Add(X, one), P), P)
			}
		case 4:
			V2 = new(big.Int).Add(V, one)
			V2.Mod(V2, P)
		case 5:
			V2 = big.NewInt(1)
		}
		if V2 == nil || V2.Sign() < 0 {
			return
		}
		set(decompTop(V2, w, len(out)))
	case "pad":
		n := int(in[0].Int64())
		w := uint(in[1].Uint64())
		of := uint(in[2].Uint64())
		p := in[4 : 4+n]
		P := recomp(p, w)
		v := make([]*big.Int, len(out))
		for i := range v {
			v[i] = new(big.Int).Set(out[i])
		}
		switch d {
		case 0, 4:
			for i := range v {
				if i < len(p) {
					v[i].Add(v[i], new(big.Int).Mul(p[i], big.NewInt(int64(1+d/4))))
				}
			}
		case 1:
			for i := range v {
				v[i] = new(big.Int).Lsh(one, w+of)
			}
		case 2:
			t := new(big.Int).Mul(P, big.NewInt(3))
			v = decompTop(t, w, len(out))
		case 3:
			v[0].Add(v[0], one)
		case 5:
			for i := range v {
				v[i].Lsh(v[i], 1)
			}
		}
		set(v)
	}
}

// advOptions installs the adversary for one execution.
type advState struct {
	x     *vh.Ctx
	calls map[string]int
	names []string // description of every non-default choice
	useRC bool
	noLow bool
	errs  int
}

func (st *advState) options(native *big.Int) []solver.Option {
	var opts []solver.Option
	for i := range registry() {
		hi := &registry()[i]
		if hi.kind == "" || (hi.kind == "rc" && !st.useRC) || (st.noLow && !hi.high) {
			continue
		}
		opts = append(opts, solver.OverrideHint(hi.id, func(q *big.Int, in, out []*big.Int) error {
			err := hi.fn(q, in, out)
			if err != nil {
				// a dishonest prover is not bound by the honest hint failing
				for i := range out {
					out[i].SetInt64(0)
				}
			}
			no := st.calls[hi.kind]
			st.calls[hi.kind] = no + 1
			label := fmt.Sprintf("%s#%d", hi.kind, no)
			n := nAlternatives(hi, len(out))
			ch := st.x.Choose(label, 1+n)
			if ch == 0 {
				return err
			}
			applyAlt(hi, q, in, out, ch-1)
			st.names = append(st.names, label+":"+altName(hi, len(out), ch-1))
			return nil
		}))
	}
	return opts
}

func lowPrio(label string) bool {
	return strings.HasPrefix(label, "bits#") || strings.HasPrefix(label, "rc#") || strings.HasPrefix(label, "invzero#")
}

type advExp struct {
	cf      config
	builder string
	p       *prog
	bound   int
	useRC   bool
	noLow   bool // only the emulated hints are choice points (bit-decomposition hints honest)
}

// advPrograms: one circuit per basic operation (true statements; the false variants are derived).
func advPrograms(ops []*opDef, fi *finfo, withExp bool) []*prog {
	mk := func(steps ...step) *prog { return (&prog{steps: steps}).finalize() }
	o := func(n string) *opDef { return opByName(ops, n) }
	P := []*prog{
		mk(step{o("Mul"), []arg{W(vGen), W(vGen2)}}),
		mk(step{o("Mul"), []arg{W(vQm1), W(vSmax)}}),
		mk(step{o("MulNoReduce+Reduce"), []arg{W(vGen), W(vGen2)}}),
		mk(step{o("Div"), []arg{W(vGen), W(vGen2)}}),
		mk(step{o("Div"), []arg{W(vGen), W(vQ)}}), // division by zero: nothing may solve
		mk(step{o("Inverse"), []arg{W(vGen)}}),
		mk(step{o("Inverse"), []arg{W(v0)}}), // no inverse: nothing may solve
		mk(step{o("Sqrt"), []arg{W(vSq)}}),
		mk(step{o("Add"), []arg{W(vGen), W(vQm1)}}, step{o("Reduce"), []arg{{src: srcPrev}}}),
		mk(step{o("Sub"), []arg{W(vGen), W(vGen2)}}, step{o("Reduce"), []arg{{src: srcPrev}}}),
		mk(step{o("Sub"), []arg{W(v1), W(vSmax)}}),
		mk(step{o("Neg"), []arg{W(vGen)}}),
		mk(step{o("MulConst[-3]"), []arg{W(vGen)}}, step{o("Mul"), []arg{{src: srcPrev}, W(vGen)}}),
		mk(step{o("ReduceStrict"), []arg{W(vQ)}}),
		mk(step{o("ReduceStrict"), []arg{W(vGen)}}),
		mk(step{o("ToBits"), []arg{W(vGen)}}),
		mk(step{o("ToBitsCanonical"), []arg{W(vGen)}}),
		mk(step{o("ToBitsCanonical"), []arg{W(vQ)}}),
		// (q-1)+2 = q+1: the honest reduction answers (k=1,r=1); (k=0,r=q+1) is congruent but not canonical,
		// and 1+q still fits bitlen(q) bits: the bits of v+q must be rejected by the comparison with q
		mk(step{o("Add"), []arg{W(vQm1), W(v2)}}, step{o("ToBitsCanonical"), []arg{{src: srcPrev}}}),
		mk(step{o("IsZero"), []arg{W(v0)}}),
		mk(step{o("IsZero"), []arg{W(vQ)}}),
		mk(step{o("IsZero"), []arg{W(vGen)}}),
		mk(step{o("AssertIsEqual"), []arg{W(vGen), W(vGen)}}),
		mk(step{o("AssertIsEqual"), []arg{W(v0), W(vQ)}}),
		mk(step{o("AssertIsEqual"), []arg{W(vGen), W(vGen2)}}), // false
		mk(step{o("AssertIsDifferent"), []arg{W(vGen), W(vGen2)}}),
		mk(step{o("AssertIsDifferent"), []arg{W(vGen), W(vGen)}}), // false
		mk(step{o("AssertIsDifferent"), []arg{W(v0), W(vQ)}}),     // false
		mk(step{o("AssertIsLessOrEqual"), []arg{W(v2), W(vGen)}}),
		mk(step{o("AssertIsLessOrEqual"), []arg{W(vQ), W(vQm1)}}), // false: compares the integers
		mk(step{o("AssertIsInRange"), []arg{W(vQm1)}}),
		mk(step{o("AssertIsInRange"), []arg{W(vQ)}}),    // false
		mk(step{o("AssertIsInRange"), []arg{W(vSmax)}}), // false
		mk(step{o("Select"), []arg{{src: srcNat, v: 1}, W(vGen), W(vGen2)}}),
	}
	if withExp {
		P = append(P, mk(step{o("Exp"), []arg{W(vGen), W(v2)}}))
	}
	return P
}

func adversary(c *vh.Check, ops []*opDef) {
	var exps []advExp
	type fb struct {
		field, native, builder string
		bound                  int
		rc                     bool
	}
	var plan []fb
	if c.Quick() {
		plan = []fb{
			{"Tiny13", "bn254", "r1cs", 2, false},
			{"Secp256k1Fp", "bn254", "r1cs", 2, false}, {"Secp256k1Fp", "bn254", "scs", 1, false},
			{"Goldilocks", "bn254", "scs", 2, false},
			{"BLS12381Fp", "bls12-377", "scs", 1, false},
			{"BW6761Fp", "bn254", "r1cs", 1, false},
		}
	} else {
		for _, n := range []string{"bn254", "bls12-377", "bw6-761"} {
			for _, b := range []string{"r1cs", "scs"} {
				for _, f := range kitList {
					bound := 1
					if n == "bn254" && b == "r1cs" && (f == "Tiny13" || f == "Goldilocks" || f == "Secp256k1Fp" || f == "BN254Fr") {
						bound = 2
					}
					plan = append(plan, fb{f, n, b, bound, n == "bn254" && b == "r1cs" && allKits[f].Info().q.BitLen() <= 256})
				}
			}
		}
	}
	nats := map[string]nativeF{"bn254": natBN, "bls12-377": natBLS, "bw6-761": natBW6}
	for _, e := range plan {
		kt := allKits[e.field]
		cf := config{kit: kt, native: nats[e.native]}
		for _, p := range advPrograms(ops, kt.Info(), e.field == "Tiny13") {
			b := e.bound
			if c.Quick() && b == 2 && !keyCircuit(p) {
				b = 1
			}
			noLow := kt.Info().q.BitLen() > 256 || (c.Quick() && e.builder == "scs" && e.field == "Secp256k1Fp")
			exps = append(exps, advExp{cf, e.builder, p, b, e.rc, noLow})
		}
	}
	fmt.Printf("adv: %d (circuit, field, native, builder) experiments\n", len(exps))
	var sampled atomic.Int64
	for i, e := range exps {
		if c.Expired() {
			c.Cap(fmt.Sprintf("internal deadline during the dishonest-prover exploration: %d of %d circuits explored", i, len(exps)))
			break
		}
		runAdv(c, e, int64(i), &sampled)
	}
}

// wrong exposures for a program with a result
type target struct {
	name  string
	expE  *big.Int
	bits  []*big.Int
	b     *big.Int
	wrong bool
}

func runAdv(c *vh.Check, e advExp, idx int64, sampled *atomic.Int64) {
	fi := e.cf.kit.Info()
	p := e.p
	ref := refProg(fi, modeCS, p)
	cs, cerr := e.cf.kit.Compile(e.cf.native.mod, e.builder, p)
	if cerr != "" {
		c.Fatal("adversary circuit %s does not compile: %s", p, short(cerr))
	}
	last := p.steps[len(p.steps)-1].op.name
	var targets []target
	canonBits := func(v *big.Int) []*big.Int {
		nb := fi.q.BitLen()
		out := make([]*big.Int, nb)
		for i := range out {
			out[i] = big.NewInt(int64(v.Bit(i)))
		}
		return out
	}
	switch {
	case ref.verd == verdFail:
		targets = []target{{name: "false-statement", wrong: true}}
	case !ref.hasOut:
		targets = []target{{name: "true-statement"}}
	case ref.final.t == tE || (ref.final.t == tB && last != "ToBitsCanonical"):
		v := ref.final.v
		targets = []target{{name: "reference", expE: v}, {name: "reference+1", expE: fi.mod(new(big.Int).Add(v, one)), wrong: true}}
		if !c.Quick() {
			targets = append(targets, target{name: "reference-1", expE: fi.mod(new(big.Int).Sub(v, one)), wrong: true})
		}
	case ref.final.t == tB:
		v := ref.final.v
		targets = []target{{name: "reference-bits", bits: canonBits(v)}}
		wb := canonBits(v)
		wb[0] = new(big.Int).Sub(one, wb[0])
		targets = append(targets, target{name: "flipped-bit0", bits: wb, wrong: true})
		if vq := new(big.Int).Add(v, fi.q); vq.BitLen() <= fi.q.BitLen() {
			targets = append(targets, target{name: "bits-of-v+q", bits: canonBits(vq), wrong: true})
		}
	case ref.final.t == tb:
		targets = []target{{name: "reference-bool", b: ref.final.v}, {name: "negated-bool", b: new(big.Int).Sub(one, ref.final.v), wrong: true}}
	}
	for _, tg := range targets {
		w, err := e.cf.kit.Witness(e.cf.native.mod, p, tg.expE, tg.bits, tg.b)
		if err != nil {
			c.Fatal("witness: %v", err)
		}
		var nExec, nAcc, nRej atomic.Int64
		honestFailed := atomic.Bool{}
		bound := e.bound
		if !tg.wrong {
			bound = 1 // congruent exposure: only the honest run is judged; single edits are classified
		}
		ex := &vh.Explorer{Bound: bound, Workers: vh.NumWorkers(), Stop: c.Expired}
		ex.Prune = func(x *vh.Ctx, i int) bool {
			for j := 0; j < i; j++ {
				if x.Choices[j] != 0 && (lowPrio(x.Labels[j]) || lowPrio(x.Labels[i])) {
					return true
				}
			}
			return false
		}
		ex.OnNondet = func(x *vh.Ctx) { c.Count("adv", "nondeterministic-replays", 1) }
		ex.Run = func(x *vh.Ctx) {
			st := &advState{x: x, calls: map[string]int{}, useRC: e.useRC, noLow: e.noLow}
			r := solve(cs, w, st.options(e.cf.native.mod)...)
			c.Evals.Add(1)
			c.Traces.Add(1)
			nExec.Add(1)
			dev := len(st.names)
			class := ""
			switch {
			case dev == 0 && !tg.wrong:
				if r != "" {
					honestFailed.Store(true)
					report(groupOf(fi, e.cf.native.name, e.builder, p, "honest-rejected", errSig(r), r), 3<<40|idx, keyOf(fi, e.cf.native.name, e.builder, p, "honest-rejected:"+tg.name),
						map[string]any{"program": p.String(), "field": fi.name, "native": e.cf.native.name, "builder": e.builder, "target": tg.name, "error": short(r), "operand_values": operandValues(fi, p)})
					class = "VIOLATION-honest-rejected"
				} else {
					class = "honest-solves"
				}
			case tg.wrong && r == "":
				report(fmt.Sprintf("%s:dishonest-accepted:%s", fi.name, attackKinds(st.names)), 3<<40|idx*4+int64(len(st.names)),
					keyOf(fi, e.cf.native.name, e.builder, p, "dishonest-accepted:"+tg.name+":"+strings.Join(st.names, "+")),
					map[string]any{"program": p.String(), "field": fi.name, "native": e.cf.native.name, "builder": e.builder, "exposed_value": tg.name, "reference": refString(ref),
						"hint_substitutions": st.names, "choices": x.Trace(), "operand_values": operandValues(fi, p), "modulus": fi.q.String()})
				class = "VIOLATION-dishonest-accepted"
				nAcc.Add(1)
			case tg.wrong:
				class = "incongruent-rejected:" + errSig(r)
				nRej.Add(1)
			case r == "":
				class = "congruent-edit-accepted" // e.g. k-1,r+q or the other square root: still the right value
				nAcc.Add(1)
			default:
				class = "edit-rejected:" + errSig(r)
				nRej.Add(1)
			}
			c.Outcome("adv:" + p.steps[0].op.name + ":" + tgClass(tg) + ":" + strings.SplitN(class, ":", 2)[0])
			c.Outcome("adv:" + fi.name + "/" + e.builder + ":" + strings.SplitN(class, ":", 2)[0])
		}
		ok := ex.Explore()
		c.States.Add(ex.Points.Load())
		c.Count("adv", "executions", nExec.Load())
		c.Count("adv", "circuits-x-targets", 1)
		c.Count("adv-executions", fi.name+"/"+e.cf.native.name+"/"+e.builder, nExec.Load())
		if !ok {
			return
		}
		if tg.wrong && sampled.Add(1)%9 == 1 {
			c.Sample(map[string]any{"part": "dishonest-prover", "field": fi.name, "native": e.cf.native.name, "builder": e.builder, "program": p.String(), "exposed_value": tg.name,
				"bound": e.bound, "executions": nExec.Load(), "rejected": nRej.Load(), "accepted": nAcc.Load()})
		}
		if honestFailed.Load() {
			return
		}
	}
}

func tgClass(t target) string {
	if t.wrong {
		return "incongruent-target"
	}
	return "congruent-target"
}

func attackKinds(names []string) string {
	var ks []string
	defer func() { _ = ks }()
	for _, n := range names { // answers computed modulo the native field first
		if strings.Contains(n, "carries mod N") {
			return n[:strings.Index(n, "#")] + ":" + n[strings.Index(n, ":")+1:]
		}
	}
	for _, n := range names { // a derived answer identifies the attack; accompanying generic edits do not
		alt := n[strings.Index(n, ":")+1:]
		if !strings.HasPrefix(alt, "out[") && !strings.HasPrefix(alt, "swap") && alt != "all-zero" {
			return n[:strings.Index(n, "#")] + ":" + alt
		}
	}
	for _, n := range names {
		i := strings.Index(n, "#")
		j := strings.Index(n, ":")
		k := n[:i]
		alt := n[j+1:]
		if strings.HasPrefix(alt, "out[") {
			alt = "edit" + alt[strings.Index(alt, "]")+1:]
		}
		if strings.HasPrefix(alt, "swap") {
			alt = "swap"
		}
		ks = append(ks, k+":"+alt)
	}
	return strings.Join(ks, "+")
}

// keyCircuit: circuits explored with two departures in the quick tier.
func keyCircuit(p *prog) bool {
	switch p.seq() {
	case "Mul", "Div", "Add;Reduce@0", "AssertIsEqual", "ToBitsCanonical", "Add;ToBitsCanonical@0", "IsZero", "Inverse":
		return true
	}
	return false
}
