package main

import (
	"fmt"
	"math/big"
	"strings"
	"sync/atomic"

	"github.com/consensys/gnark-crypto/ecc"
	"github.com/consensys/gnark/constraint"
	"github.com/consensys/gnark/frontend"
	"github.com/consensys/gnark/internal/verifh/circ"
	"github.com/consensys/gnark/internal/verifh/vh"
	"github.com/consensys/gnark/std/math/emulated"
	"github.com/consensys/gnark/std/math/emulated/emparams"
	"github.com/consensys/gnark/test"
)

// ---------------------------------------------------------------------------------------
// Variable-modulus operations: ModAdd / ModMul / ModExp / ModAssertIsEqual, sequences of depth <= 2.
// ---------------------------------------------------------------------------------------

type vmProg struct {
	op1, op2 string // op2 == "" : depth 1
	pos      int    // position of the first result in op2
	a, b, c  int    // value indices (relative to the modulus)
	m        int    // modulus index
}

func (p vmProg) seq() string {
	if p.op2 == "" {
		return p.op1
	}
	return fmt.Sprintf("%s;%s@%d", p.op1, p.op2, p.pos)
}

var vmValNames = []string{"0", "1", "2", "m-1", "m", "m+1", "max", "gen", "gen2"}

func (p vmProg) operands() string {
	s := fmt.Sprintf("m%d:%s,%s", p.m, vmValNames[p.a], vmValNames[p.b])
	if p.op2 != "" {
		s += ";" + vmValNames[p.c]
	}
	return s
}

func vmModuli() []*big.Int {
	comp := new(big.Int).Mul(new(big.Int).Add(new(big.Int).Lsh(one, 100), big.NewInt(277)), new(big.Int).Add(new(big.Int).Lsh(one, 100), big.NewInt(331))) // composite, 201 bits
	p25519 := new(big.Int).Sub(new(big.Int).Lsh(one, 255), big.NewInt(19))
	return []*big.Int{big.NewInt(3), new(big.Int).Lsh(one, 64), comp, ecc.SECP256K1.BaseField(), p25519}
}

func vmVal(idx int, m *big.Int, bits uint) *big.Int {
	switch idx {
	case 0, 1, 2:
		return big.NewInt(int64(idx))
	case 3:
		return new(big.Int).Sub(m, one)
	case 4:
		return new(big.Int).Set(m)
	case 5:
		return new(big.Int).Add(m, one)
	case 6:
		return new(big.Int).Sub(new(big.Int).Lsh(one, bits), one)
	case 7:
		return generic(new(big.Int).Lsh(one, bits-1), "c12-generic-1")
	}
	return generic(new(big.Int).Lsh(one, bits-3), "c12-generic-2")
}

type VMCirc[T emulated.FieldParams] struct {
	M, A, B, C, X emulated.Element[T]
	d             *defn
}

func (c *VMCirc[T]) Define(api frontend.API) error { return c.d.f(api, c) }

func vmApply[T emulated.FieldParams](f *emulated.Field[T], op string, x, y, m *emulated.Element[T]) *emulated.Element[T] {
	switch op {
	case "ModAdd":
		return f.ModAdd(x, y, m)
	case "ModMul":
		return f.ModMul(x, y, m)
	case "ModExp":
		return f.ModExp(x, y, m)
	case "ModAssertIsEqual":
		f.ModAssertIsEqual(x, y, m)
		return nil
	}
	panic(op)
}

func vmRun[T emulated.FieldParams](f *emulated.Field[T], p vmProg, c *VMCirc[T]) *emulated.Element[T] {
	r := vmApply(f, p.op1, &c.A, &c.B, &c.M)
	if p.op2 == "" {
		return r
	}
	if p.pos == 0 {
		return vmApply(f, p.op2, r, &c.C, &c.M)
	}
	return vmApply(f, p.op2, &c.C, r, &c.M)
}

// reference: value mod m (nil: no result), exact integer of the representation when determined, verdict
func vmRef(p vmProg, m *big.Int, bits uint) (*big.Int, int) {
	type rvv struct{ v, rep *big.Int }
	in := func(i int) rvv {
		x := vmVal(i, m, bits)
		return rvv{new(big.Int).Mod(x, m), x}
	}
	step := func(op string, x, y rvv) (rvv, int) {
		switch op {
		case "ModAdd":
			r := rvv{v: new(big.Int).Mod(new(big.Int).Add(x.v, y.v), m)}
			if x.rep != nil && y.rep != nil {
				r.rep = new(big.Int).Add(x.rep, y.rep)
			}
			return r, verdOK
		case "ModMul":
			v := new(big.Int).Mod(new(big.Int).Mul(x.v, y.v), m)
			return rvv{v, v}, verdOK
		case "ModExp":
			if y.rep == nil || (x.v.Sign() == 0 && y.rep.Sign() == 0) {
				return rvv{}, verdUndef
			}
			v := new(big.Int).Exp(x.v, y.rep, m)
			return rvv{v, v}, verdOK
		case "ModAssertIsEqual":
			if x.v.Cmp(y.v) != 0 {
				return rvv{}, verdFail
			}
			return rvv{}, verdOK
		}
		panic(op)
	}
	r, vd := step(p.op1, in(p.a), in(p.b))
	if vd != verdOK || p.op2 == "" {
		return r.v, vd
	}
	if p.op1 == "ModAssertIsEqual" {
		return nil, verdUndef
	}
	if p.pos == 0 {
		r, vd = step(p.op2, r, in(p.c))
	} else {
		r, vd = step(p.op2, in(p.c), r)
	}
	return r.v, vd
}

func vmPrograms(quick bool) []vmProg {
	return vmProgramsFor(quick)
}

func vmProgramsFor(quick bool) []vmProg {
	var out []vmProg
	ops := []string{"ModAdd", "ModMul", "ModExp", "ModAssertIsEqual"}
	mods := vmModuli()
	vals := []int{0, 1, 2, 3, 4, 5, 6, 7}
	for mi := range mods {
		for _, op := range ops {
			for _, a := range vals {
				for _, b := range vals {
					if op == "ModExp" {
						// exponentiation is two multiplications per bit of the container: declared subset
						keep := a == 7 && b == 4
						if mi == 0 {
							keep = keep || (a == 7 && b <= 5) || (a == 0 && b <= 1) || (a == 3 && b == 2)
						}
						if !quick {
							keep = keep || mi == 0 || ((a == 3 || a == 7) && b != 6)
						}
						if !keep {
							continue
						}
					}
					out = append(out, vmProg{op1: op, a: a, b: b, m: mi})
				}
			}
		}
		// depth 2
		ab := [][2]int{{7, 8}, {3, 4}, {6, 6}, {0, 5}}
		cs := []int{8, 4, 1}
		if quick {
			ab, cs = ab[:3], cs[:2]
		}
		for _, op1 := range ops[:3] {
			for _, op2 := range ops {
				for pos := 0; pos < 2; pos++ {
					if op1 == "ModExp" || op2 == "ModExp" {
						if mi != 0 && (quick || mi != 3 || pos == 1) {
							continue // exponentiation is two multiplications per bit of the container
						}
					}
					for xi, x := range ab {
						for ci, cc := range cs {
							if quick && (op1 == "ModExp" || op2 == "ModExp") && (xi > 0 || ci > 0) {
								continue
							}
							out = append(out, vmProg{op1: op1, op2: op2, pos: pos, a: x[0], b: x[1], c: cc, m: mi})
						}
					}
				}
			}
		}
	}
	return out
}

type vmKit[T emulated.FieldParams] struct{ name string }

func (k vmKit[T]) bits() uint {
	var t T
	return t.NbLimbs() * t.BitsPerLimb()
}

func (k vmKit[T]) assign(p vmProg, x *big.Int) *VMCirc[T] {
	m := vmModuli()[p.m]
	b := k.bits()
	a := &VMCirc[T]{M: emulated.ValueOf[T](m), A: emulated.ValueOf[T](vmVal(p.a, m, b)), B: emulated.ValueOf[T](vmVal(p.b, m, b)), C: emulated.ValueOf[T](vmVal(p.c, m, b))}
	if x == nil {
		x = big.NewInt(0)
	}
	a.X = emulated.ValueOf[T](x)
	return a
}

// runTE executes p in the test engine and returns the integer recomposed from the result limbs.
func (k vmKit[T]) runTE(native *big.Int, p vmProg) (*big.Int, string) {
	var got *big.Int
	var t T
	c := &VMCirc[T]{d: &defn{f: func(api frontend.API, ci any) error {
		cc := ci.(*VMCirc[T])
		f, err := emulated.NewField[T](api)
		if err != nil {
			return err
		}
		r := vmRun(f, p, cc)
		if r != nil {
			got = new(big.Int)
			for i := len(r.Limbs) - 1; i >= 0; i-- {
				got.Lsh(got, t.BitsPerLimb())
				got.Add(got, valueOf(api, r.Limbs[i]))
			}
		}
		return nil
	}}}
	var err error
	pan := vh.Recover(func() { err = test.IsSolved(c, k.assign(p, nil), native) })
	if pan != "" {
		return nil, "panic: " + pan
	}
	if err != nil {
		return nil, err.Error()
	}
	return got, ""
}

func (k vmKit[T]) compile(native *big.Int, builder string, p vmProg) (constraint.ConstraintSystem, string) {
	c := &VMCirc[T]{d: &defn{f: func(api frontend.API, ci any) error {
		cc := ci.(*VMCirc[T])
		f, err := emulated.NewField[T](api)
		if err != nil {
			return err
		}
		if r := vmRun(f, p, cc); r != nil {
			f.ModAssertIsEqual(r, &cc.X, &cc.M)
		}
		return nil
	}}}
	cs, err, pan := circ.Compile(native, builder, c, frontend.IgnoreUnconstrainedInputs())
	if pan != "" {
		return nil, "panic: " + pan
	}
	if err != nil {
		return nil, err.Error()
	}
	return cs, ""
}

type vmRunner interface {
	runTE(native *big.Int, p vmProg) (*big.Int, string)
	compile(native *big.Int, builder string, p vmProg) (constraint.ConstraintSystem, string)
	solveWith(native *big.Int, cs constraint.ConstraintSystem, p vmProg, x *big.Int, st *advState) string
	bits() uint
	nm() string
}

func (k vmKit[T]) nm() string { return k.name }

func (k vmKit[T]) solveWith(native *big.Int, cs constraint.ConstraintSystem, p vmProg, x *big.Int, st *advState) string {
	w, err := frontend.NewWitness(k.assign(p, x), native)
	if err != nil {
		return "witness: " + err.Error()
	}
	if st != nil {
		return solve(cs, w, st.options(native)...)
	}
	return solve(cs, w)
}

func varMod(c *vh.Check) {
	kits := []vmRunner{vmKit[emparams.Mod1e256]{"Mod1e256"}}
	nats := []nativeF{natBN}
	if !c.Quick() {
		kits = append(kits, vmKit[emparams.Mod1e512]{"Mod1e512"})
		nats = append(nats, natBLS, natBW6)
	}
	if !c.Want("vm.sweep") {
		vmAdversary(c, kits[0])
		return
	}
	progs := vmPrograms(c.Quick())
	type job struct {
		k   vmRunner
		n   nativeF
		p   vmProg
		idx int64
	}
	var jobs []job
	for ki, k := range kits {
		for ni, n := range nats {
			ps := progs
			if ki > 0 || ni > 0 {
				ps = vmProgramsFor(true) // wider container / other native fields: the quick program set
			}
			for _, p := range ps {
				jobs = append(jobs, job{k, n, p, int64(len(jobs))})
			}
		}
	}
	fmt.Printf("vm: %d variable-modulus programs x (test engine + 2 builders on a subset)\n", len(jobs))
	var done atomic.Int64
	var sampled atomic.Int64
	mods := vmModuli()
	// slow (ModExp) first
	ordered := make([]job, 0, len(jobs))
	for _, j := range jobs {
		if strings.Contains(j.p.seq(), "ModExp") {
			ordered = append(ordered, j)
		}
	}
	for _, j := range jobs {
		if !strings.Contains(j.p.seq(), "ModExp") {
			ordered = append(ordered, j)
		}
	}
	ok := c.Par(len(ordered), func(i int) {
		j := ordered[i]
		m := mods[j.p.m]
		want, vd := vmRef(j.p, m, j.k.bits())
		key := func(eng, cl string) string {
			return fmt.Sprintf("c12:%s/%s/%s:%s:%s:%s", j.k.nm(), j.n.name, eng, j.p.seq(), j.p.operands(), cl)
		}
		det := func(extra map[string]any) map[string]any {
			extra["program"] = j.p.seq() + "(" + j.p.operands() + ")"
			extra["modulus"] = m.String()
			extra["a"], extra["b"], extra["c"] = vmVal(j.p.a, m, j.k.bits()).String(), vmVal(j.p.b, m, j.k.bits()).String(), vmVal(j.p.c, m, j.k.bits()).String()
			return extra
		}
		judge := func(eng string, e string, got *big.Int) string {
			switch {
			case vd == verdUndef:
				return "undefined-or-unjudged"
			case vd == verdFail && e != "":
				return "false-statement-rejected"
			case vd == verdFail:
				report(eng+":"+j.p.seq()+":unsat-accepted", 4<<40|j.idx, key(eng, "unsat-accepted"), det(map[string]any{}))
				return "VIOLATION-unsat-accepted"
			case e != "":
				report(eng+":"+j.p.seq()+":sat-rejected:"+errSig(e), 4<<40|j.idx, key(eng, "sat-rejected"), det(map[string]any{"error": short(e)}))
				return "VIOLATION-sat-rejected"
			case got != nil && want != nil && new(big.Int).Mod(got, m).Cmp(want) != 0:
				report(eng+":"+j.p.seq()+":wrong-result", 4<<40|j.idx, key(eng, "wrong-result"), det(map[string]any{"got": got.String(), "want_mod_m": want.String()}))
				return "VIOLATION-wrong-result"
			}
			return "ok"
		}
		got, e := j.k.runTE(j.n.mod, j.p)
		c.Evals.Add(1)
		c.Traces.Add(1)
		cl := judge("te", e, got)
		c.Outcome("vm:te:" + j.p.op1 + ":" + cl)
		if cl == "ok" && j.p.op2 != "" && sampled.Add(1) <= 2 {
			c.Sample(det(map[string]any{"part": "variable-modulus test engine", "container": j.k.nm(), "native": j.n.name, "result_integer": fmt.Sprint(got), "reference_mod_m": fmt.Sprint(want)}))
		}
		// compiled: a deterministic subset (no exponentiation: two multiplications per container bit)
		if !strings.Contains(j.p.seq(), "ModExp") && (j.p.op2 == "" && (j.p.a == 7 || j.p.b == 4 || j.p.a == j.p.b) || j.idx%7 == 0) && (!c.Quick() || j.p.m >= 2) {
			for _, b := range []string{"r1cs", "scs"} {
				cs, ce := j.k.compile(j.n.mod, b, j.p)
				c.Evals.Add(1)
				cl := ""
				if ce != "" {
					cl = judge(b, ce, nil)
				} else {
					cl = judge(b, j.k.solveWith(j.n.mod, cs, j.p, want, nil), nil)
					c.Evals.Add(1)
					if cl == "ok" && want != nil {
						if e2 := j.k.solveWith(j.n.mod, cs, j.p, new(big.Int).Add(want, one), nil); e2 == "" {
							report(b+":"+j.p.seq()+":wrong-result-accepted", 4<<40|j.idx, key(b, "wrong-result-accepted"), det(map[string]any{"exposed": "reference+1"}))
							cl = "VIOLATION-wrong-result-accepted"
						}
					}
				}
				c.Traces.Add(1)
				c.Outcome("vm:" + b + ":" + j.p.op1 + ":" + cl)
				c.Count("vm", "compiled-programs", 1)
			}
		}
		done.Add(1)
	})
	c.Count("vm", "programs", done.Load())
	if !ok {
		c.Cap(fmt.Sprintf("internal deadline during the variable-modulus sweep: %d of %d", done.Load(), len(ordered)))
		return
	}
	if c.Want("vm.adv") {
		vmAdversary(c, kits[0])
	}
}

// vmAdversary: dishonest hint outputs (mulHint with the variable modulus, subPaddingHint) for
// ModMul / ModAdd / ModAssertIsEqual; nothing exposing reference+1 (or a false equality) may solve.
func vmAdversary(c *vh.Check, k vmRunner) {
	mods := vmModuli()
	progs := []vmProg{
		{op1: "ModMul", a: 7, b: 8, m: 3}, {op1: "ModMul", a: 7, b: 8, m: 0}, {op1: "ModAdd", a: 7, b: 3, m: 3},
		{op1: "ModAssertIsEqual", a: 7, b: 7, m: 3}, {op1: "ModAssertIsEqual", a: 0, b: 4, m: 3}, {op1: "ModAssertIsEqual", a: 7, b: 8, m: 3}, {op1: "ModAssertIsEqual", a: 1, b: 2, m: 0},
	}
	bound := 1
	if !c.Quick() {
		bound = 2
	}
	for pi, p := range progs {
		for _, b := range []string{"r1cs", "scs"} {
			if c.Quick() && b == "scs" && pi%2 == 1 {
				continue
			}
			if c.Expired() {
				c.Cap("internal deadline during the variable-modulus dishonest-prover exploration")
				return
			}
			m := mods[p.m]
			want, vd := vmRef(p, m, k.bits())
			cs, ce := k.compile(natBN.mod, b, p)
			if ce != "" {
				c.Fatal("vm adversary circuit: %s", short(ce))
			}
			type tgt struct {
				name  string
				x     *big.Int
				wrong bool
			}
			var tgts []tgt
			switch {
			case vd == verdFail:
				tgts = []tgt{{"false-statement", nil, true}}
			case want == nil:
				tgts = []tgt{{"true-statement", nil, false}}
			default:
				tgts = []tgt{{"reference", want, false}, {"reference+1", new(big.Int).Add(want, one), true}}
			}
			for _, tg := range tgts {
				bd := bound
				if !tg.wrong {
					bd = 1
				}
				var n atomic.Int64
				ex := &vh.Explorer{Bound: bd, Workers: vh.NumWorkers(), Stop: c.Expired}
				ex.Prune = func(x *vh.Ctx, i int) bool {
					for j := 0; j < i; j++ {
						if x.Choices[j] != 0 && (lowPrio(x.Labels[j]) || lowPrio(x.Labels[i])) {
							return true
						}
					}
					return false
				}
				ex.Run = func(x *vh.Ctx) {
					st := &advState{x: x, calls: map[string]int{}}
					r := k.solveWith(natBN.mod, cs, p, tg.x, st)
					c.Evals.Add(1)
					c.Traces.Add(1)
					n.Add(1)
					cl := ""
					switch {
					case len(st.names) == 0 && !tg.wrong && r != "":
						report(b+":"+p.seq()+":honest-rejected", 5<<40|int64(pi), fmt.Sprintf("c12:%s/bn254/%s:%s:%s:honest-rejected", k.nm(), b, p.seq(), p.operands()), map[string]any{"error": short(r)})
						cl = "VIOLATION-honest-rejected"
					case tg.wrong && r == "":
						report(fmt.Sprintf("%s:dishonest-accepted:%s", k.nm(), attackKinds(st.names)), 5<<40|int64(pi)*4+int64(len(st.names)),
							fmt.Sprintf("c12:%s/bn254/%s:%s:%s:dishonest-accepted:%s:%s", k.nm(), b, p.seq(), p.operands(), tg.name, strings.Join(st.names, "+")),
							map[string]any{"program": p.seq() + "(" + p.operands() + ")", "modulus": m.String(), "exposed_value": tg.name, "hint_substitutions": st.names, "builder": b})
						cl = "VIOLATION-dishonest-accepted"
					case tg.wrong:
						cl = "incongruent-rejected"
					case r == "":
						cl = "congruent-accepted"
					default:
						cl = "edit-rejected"
					}
					c.Outcome("vm:adv:" + p.op1 + ":" + cl)
				}
				if !ex.Explore() {
					c.Cap("internal deadline during the variable-modulus dishonest-prover exploration")
					return
				}
				c.Count("vm", "adversary-executions", n.Load())
			}
		}
	}
}
