package main

import (
	"crypto/sha256"
	"math/big"
)

// ---------------------------------------------------------------------------------------
// Boring big.Int reference of the documented meaning of every operation.
// ---------------------------------------------------------------------------------------

type finfo struct {
	name string
	q    *big.Int
	w    uint // bits per limb
	n    uint // number of limbs
	vals [nVals]*big.Int
}

var one = big.NewInt(1)

func newFinfo(name string, q *big.Int, w, n uint) *finfo {
	fi := &finfo{name: name, q: new(big.Int).Set(q), w: w, n: n}
	fi.vals[v0] = big.NewInt(0)
	fi.vals[v1] = big.NewInt(1)
	fi.vals[v2] = big.NewInt(2)
	fi.vals[vQm1] = new(big.Int).Sub(q, one)
	fi.vals[vQ] = new(big.Int).Set(q)
	fi.vals[vSmax] = new(big.Int).Sub(new(big.Int).Lsh(one, uint(q.BitLen())), one)
	fi.vals[vGen] = generic(q, "c12-generic-1")
	fi.vals[vGen2] = generic(q, "c12-generic-2")
	fi.vals[vSq] = new(big.Int).Mod(new(big.Int).Mul(fi.vals[vGen], fi.vals[vGen]), q)
	lmax := new(big.Int).Sub(new(big.Int).Lsh(one, w*n), one)
	if lmax.Cmp(fi.vals[vSmax]) != 0 {
		fi.vals[vLmax] = lmax
	}
	tq := new(big.Int).Sub(new(big.Int).Lsh(q, 1), one)
	if tq.BitLen() <= int(w*n) {
		fi.vals[v2Qm1] = tq
	}
	return fi
}

// generic derives a fixed "random looking" value in [3, q-2] from a label.
func generic(q *big.Int, label string) *big.Int {
	var buf []byte
	for i := 0; len(buf) < (q.BitLen()+7)/8+8; i++ {
		h := sha256.Sum256([]byte{byte(i), label[len(label)-1], 'c', '1', '2'})
		buf = append(buf, h[:]...)
	}
	x := new(big.Int).SetBytes(buf)
	m := new(big.Int).Sub(q, big.NewInt(5))
	if m.Sign() <= 0 {
		return big.NewInt(3)
	}
	x.Mod(x, m)
	return x.Add(x, big.NewInt(3))
}

func (fi *finfo) limbsOf(x *big.Int, n int) []*big.Int {
	out := make([]*big.Int, n)
	mask := new(big.Int).Sub(new(big.Int).Lsh(one, fi.w), one)
	t := new(big.Int).Set(x)
	for i := range out {
		out[i] = new(big.Int).And(t, mask)
		t.Rsh(t, fi.w)
	}
	if t.Sign() != 0 {
		panic("limbsOf: value does not fit")
	}
	return out
}

func (fi *finfo) mod(x *big.Int) *big.Int { return new(big.Int).Mod(x, fi.q) }

// reference value
type rv struct {
	t       ty
	v       *big.Int // canonical value mod q (tE,tB) / 0,1 (tb) / selector (ts); nil = unknown (after an undefined operation)
	rep     *big.Int // exact integer of the representation when the documentation determines it; nil = unknown
	of0     bool     // overflow counter known to be zero
	isConst bool     // compile-time constant (compiled mode only)
}

const (
	verdOK    = iota
	verdFail  // the statement is false / has no witness: every execution must be rejected
	verdUndef // mathematically undefined (0/0, 0^0): any outcome accepted
)

const (
	modeTE = iota // test engine: nothing is a compile-time constant
	modeCS        // compiled: constants are folded
)

func canon(fi *finfo, v *big.Int) rv {
	return rv{t: tE, v: v, rep: new(big.Int).Set(v), of0: true}
}

// refStep evaluates one operation.
func refStep(fi *finfo, mode int, op *opDef, a []rv) (out rv, verd int) {
	q := fi.q
	for _, x := range a {
		if x.v == nil {
			return rv{t: op.out}, verdUndef
		}
	}
	allConst := mode == modeCS
	for i, t := range op.in {
		if t == tE && !a[i].isConst {
			allConst = false
		}
	}
	fold := func(x *big.Int) rv { // constant folding through newConstElement
		r := rv{t: tE, isConst: true, of0: true}
		if x.Cmp(q) == 0 {
			r.v, r.rep = big.NewInt(0), new(big.Int).Set(q)
		} else {
			r.v = fi.mod(x)
			r.rep = new(big.Int).Set(r.v)
		}
		return r
	}
	switch op.name {
	case "Add":
		if allConst {
			return fold(fi.mod(new(big.Int).Add(a[0].rep, a[1].rep))), verdOK
		}
		r := rv{t: tE, v: fi.mod(new(big.Int).Add(a[0].v, a[1].v))}
		if a[0].rep != nil && a[1].rep != nil {
			r.rep = new(big.Int).Add(a[0].rep, a[1].rep)
		}
		return r, verdOK
	case "Sub":
		if allConst {
			return fold(fi.mod(new(big.Int).Sub(a[0].rep, a[1].rep))), verdOK
		}
		return rv{t: tE, v: fi.mod(new(big.Int).Sub(a[0].v, a[1].v))}, verdOK
	case "Neg":
		if allConst {
			return fold(fi.mod(new(big.Int).Neg(a[0].rep))), verdOK
		}
		return rv{t: tE, v: fi.mod(new(big.Int).Neg(a[0].v))}, verdOK
	case "Mul", "MulNoReduce+Reduce":
		return canon(fi, fi.mod(new(big.Int).Mul(a[0].v, a[1].v))), verdOK
	case "MulNoReduce":
		r := rv{t: tE, v: fi.mod(new(big.Int).Mul(a[0].v, a[1].v))}
		if a[0].rep != nil && a[1].rep != nil {
			r.rep = new(big.Int).Mul(a[0].rep, a[1].rep)
		}
		return r, verdOK
	case "Div":
		if a[1].v.Sign() == 0 {
			if a[0].v.Sign() == 0 {
				return rv{t: tE}, verdUndef
			}
			return rv{t: tE}, verdFail
		}
		inv := new(big.Int).ModInverse(a[1].v, q)
		return canon(fi, fi.mod(inv.Mul(inv, a[0].v))), verdOK
	case "Inverse":
		if a[0].v.Sign() == 0 {
			return rv{t: tE}, verdFail
		}
		return canon(fi, new(big.Int).ModInverse(a[0].v, q)), verdOK
	case "Sqrt":
		s := new(big.Int).ModSqrt(a[0].v, q)
		if s == nil {
			return rv{t: tE}, verdFail
		}
		return canon(fi, s), verdOK // either root is accepted by the oracle
	case "Exp":
		if a[1].rep == nil {
			return rv{t: tE}, verdUndef
		}
		if a[0].v.Sign() == 0 && a[1].rep.Sign() == 0 {
			return rv{t: tE}, verdUndef // 0^0
		}
		return canon(fi, new(big.Int).Exp(a[0].v, a[1].rep, q)), verdOK
	case "Reduce":
		if a[0].of0 {
			return a[0], verdOK // documented fast path: returned as is
		}
		return canon(fi, a[0].v), verdOK
	case "ReduceStrict":
		return canon(fi, a[0].v), verdOK
	case "Select":
		if a[0].v.Sign() != 0 {
			return sel(a[1], a[1:3]), verdOK
		}
		return sel(a[2], a[1:3]), verdOK
	case "Lookup2":
		i := int(a[0].v.Int64() + 2*a[1].v.Int64())
		return sel(a[2+i], a[2:6]), verdOK
	case "Mux":
		i := int(a[0].v.Int64())
		return sel(a[1+i], a[1:4]), verdOK
	case "ToBits":
		return rv{t: tB, v: a[0].v, rep: a[0].rep}, verdOK
	case "ToBitsCanonical":
		return rv{t: tB, v: a[0].v, rep: new(big.Int).Set(a[0].v), of0: true}, verdOK
	case "FromBits":
		return rv{t: tE, v: a[0].v, rep: a[0].rep, of0: true}, verdOK
	case "IsZero":
		r := rv{t: tb, v: big.NewInt(0)}
		if a[0].v.Sign() == 0 {
			r.v = big.NewInt(1)
		}
		return r, verdOK
	case "AssertIsEqual":
		if a[0].v.Cmp(a[1].v) != 0 {
			return rv{}, verdFail
		}
		return rv{}, verdOK
	case "AssertIsDifferent":
		if a[0].v.Cmp(a[1].v) == 0 {
			return rv{}, verdFail
		}
		return rv{}, verdOK
	case "AssertIsLessOrEqual":
		if a[0].rep == nil || a[1].rep == nil {
			return rv{}, verdUndef
		}
		if a[0].rep.Cmp(a[1].rep) > 0 {
			return rv{}, verdFail
		}
		return rv{}, verdOK
	case "AssertIsInRange":
		if a[0].rep == nil {
			return rv{}, verdUndef
		}
		if a[0].rep.Cmp(q) >= 0 {
			return rv{}, verdFail
		}
		return rv{}, verdOK
	}
	if op.c != nil { // MulConst
		c := op.c
		if allConst {
			if c.Sign() == 0 {
				return fold(big.NewInt(0)), verdOK
			}
			if c.Sign() < 0 {
				n := fold(fi.mod(new(big.Int).Neg(a[0].rep)))
				return fold(new(big.Int).Mul(n.rep, new(big.Int).Neg(c))), verdOK
			}
			return fold(new(big.Int).Mul(a[0].rep, c)), verdOK
		}
		r := rv{t: tE, v: fi.mod(new(big.Int).Mul(a[0].v, c))}
		switch {
		case c.Sign() == 0:
			r.rep, r.of0, r.isConst = big.NewInt(0), true, mode == modeCS
		case c.Sign() > 0 && a[0].rep != nil:
			r.rep = new(big.Int).Mul(a[0].rep, c)
		}
		return r, verdOK
	}
	panic("refStep: unknown op " + op.name)
}

// sel models Select/Lookup2/Mux: the chosen operand; the overflow / constness are those of all candidates.
func sel(ch rv, all []rv) rv {
	r := rv{t: tE, v: ch.v, rep: ch.rep, of0: true}
	for _, x := range all {
		r.of0 = r.of0 && x.of0
	}
	return r
}

// refOperand gives the reference value of a program operand.
func refOperand(fi *finfo, mode int, p *prog, a arg) rv {
	switch a.src {
	case srcW:
		x := p.val(fi, a)
		return rv{t: tE, v: fi.mod(x), rep: new(big.Int).Set(x), of0: true}
	case srcC:
		x := fi.vals[a.v]
		r := rv{t: tE, v: fi.mod(x), of0: true, isConst: mode == modeCS}
		if x.Cmp(fi.q) == 0 {
			r.rep = new(big.Int).Set(x) // documented exception of ValueOf / NewElement
		} else {
			r.rep = fi.mod(x)
		}
		return r
	case srcXC:
		x := fi.vals[a.v]
		return rv{t: tE, v: fi.mod(x), rep: new(big.Int).Set(x), of0: true, isConst: mode == modeCS}
	case srcNat:
		return rv{t: tb, v: big.NewInt(int64(a.v)), of0: true}
	case srcBits:
		x := fi.vals[a.v]
		return rv{t: tB, v: fi.mod(x), rep: new(big.Int).Set(x), of0: true}
	}
	panic("refOperand")
}

type refResult struct {
	badWitness bool // a witness element wider than the modulus: must be rejected by the width check
	verd       int
	final      rv // result of the last step that has one
	hasOut     bool
	precond    bool // an AssertIsLessOrEqual/AssertIsInRange may legitimately refuse (operand overflow not known to be zero)
}

// refProg evaluates a whole program.
func refProg(fi *finfo, mode int, p *prog) refResult {
	var res refResult
	var prev rv
	var prevArg0 rv
	for si, s := range p.steps {
		args := make([]rv, len(s.args))
		for i, a := range s.args {
			switch a.src {
			case srcPrev:
				args[i] = prev
			case srcSame:
				args[i] = prevArg0
			case srcDup:
				args[i] = args[0]
			default:
				args[i] = refOperand(fi, mode, p, a)
				if a.src == srcW && p.val(fi, a).BitLen() > fi.q.BitLen() {
					res.badWitness = true
				}
			}
		}
		if si == 0 && p.fam.kind != "" {
			acc := args[p.fam.pos]
			for k := 0; k < p.fam.k; k++ {
				if acc.v == nil {
					break
				}
				var o rv
				if p.fam.kind == "add" {
					o, _ = refStep(fi, mode, &opDef{name: "Add", in: []ty{tE, tE}}, []rv{acc, acc})
				} else {
					o, _ = refStep(fi, mode, &opDef{name: "MulConst", in: []ty{tE}, c: p.fam.c}, []rv{acc})
				}
				// the automatic reduction may replace the representation by the canonical one at an
				// unspecified k: the exact representation is not determined once the family is used
				if !o.isConst {
					o.rep = nil
				}
				acc = o
			}
			args[p.fam.pos] = acc
		}
		if s.op.name == "AssertIsLessOrEqual" || s.op.name == "AssertIsInRange" {
			for i := range s.op.in {
				if !args[i].of0 {
					res.precond = true
				}
			}
		}
		out, verd := refStep(fi, mode, s.op, args)
		if s.op.name == "AssertIsInRange" && verd == verdOK {
			// documented side effect only concerns later reductions of the same element; value unchanged
		}
		if verd == verdFail && res.verd == verdOK {
			res.verd = verdFail
		}
		if verd == verdUndef && res.verd == verdOK {
			res.verd = verdUndef
		}
		if verd != verdOK {
			out = rv{t: s.op.out}
		}
		if len(args) > 0 {
			prevArg0 = args[0]
		}
		if s.op.out != tNone {
			prev = out
			res.final, res.hasOut = out, true
		} else {
			res.hasOut = false
		}
	}
	if res.badWitness && res.verd != verdUndef {
		res.verd = verdFail
	}
	if res.verd != verdOK {
		res.hasOut = false
	}
	return res
}
