// C12: emulated field arithmetic is correct and cannot be cheated.
//
// (P) bounded-exhaustive enumeration of operation sequences over the emulated.Field API (all
// sequences of depth <= 2, the families add^k;op and mulConst^k;op for every k across the
// automatic-reduction thresholds) over operand representations {0,1,2,q-1,q,max,generic,...} as
// witnesses and constants, on the test engine (result limbs read directly) and compiled + solved
// with both builders (result exposed through assertions against inputs), against a big.Int
// reference modulo q.
// (E) dishonest prover: the outputs of every emulated hint of compiled circuits are substituted
// (generic edits + derived dishonest answers, <= 2 departures); no execution exposing a value
// incongruent to the reference may solve.
package main

import (
	"fmt"
	"math/big"
	"os"
	"runtime/pprof"
	"sort"
	"strings"
	"sync"
	"time"

	"github.com/consensys/gnark-crypto/ecc"
	"github.com/consensys/gnark/internal/verifh/vh"
	"github.com/consensys/gnark/logger"
	"github.com/consensys/gnark/std/math/emulated/emparams"
)

type nativeF struct {
	name string
	mod  *big.Int
}

var (
	natBN   = nativeF{"bn254", ecc.BN254.ScalarField()}
	natBLS  = nativeF{"bls12-377", ecc.BLS12_377.ScalarField()}
	natBW6  = nativeF{"bw6-761", ecc.BW6_761.ScalarField()}
	allKits map[string]Kit
	kitList []string
)

func initKits() {
	allKits = map[string]Kit{
		"Tiny13":      newKit[Tiny13]("Tiny13"),
		"Goldilocks":  newKit[emparams.Goldilocks]("Goldilocks"),
		"Secp256k1Fp": newKit[emparams.Secp256k1Fp]("Secp256k1Fp"),
		"BN254Fp":     newKit[emparams.BN254Fp]("BN254Fp"),
		"BN254Fr":     newKit[emparams.BN254Fr]("BN254Fr"),
		"P384Fp":      newKit[emparams.P384Fp]("P384Fp"),
		"BLS12381Fp":  newKit[emparams.BLS12381Fp]("BLS12381Fp"),
		"BW6761Fp":    newKit[emparams.BW6761Fp]("BW6761Fp"),
	}
	kitList = []string{"Tiny13", "Goldilocks", "Secp256k1Fp", "BN254Fp", "BN254Fr", "P384Fp", "BLS12381Fp", "BW6761Fp"}
}

// ---------------------------------------------------------------------------------------
// violation aggregation: one reported example (the first in enumeration order) per failure group
// ---------------------------------------------------------------------------------------

type vioRec struct {
	order  int64
	key    string
	detail map[string]any
	n      int
}

var (
	vioMu  sync.Mutex
	vioMap = map[string]*vioRec{}
)

func report(group string, order int64, key string, detail map[string]any) {
	vioMu.Lock()
	defer vioMu.Unlock()
	r := vioMap[group]
	if r == nil {
		vioMap[group] = &vioRec{order: order, key: key, detail: detail, n: 1}
		return
	}
	r.n++
	if order < r.order {
		r.order, r.key, r.detail = order, key, detail
	}
}

func flushViolations(c *vh.Check) {
	vioMu.Lock()
	defer vioMu.Unlock()
	groups := make([]string, 0, len(vioMap))
	for g := range vioMap {
		groups = append(groups, g)
	}
	sort.Slice(groups, func(i, j int) bool {
		a, b := vioMap[groups[i]], vioMap[groups[j]]
		if a.order != b.order {
			return a.order < b.order
		}
		return groups[i] < groups[j]
	})
	for _, g := range groups {
		r := vioMap[g]
		r.detail["failure_group"] = g
		r.detail["cases_in_group"] = r.n
		c.Count("violations", g, int64(r.n))
		c.Violation(r.key, r.detail)
	}
}

func main() {
	c := vh.New("C12")
	logger.Disable()
	initKits()
	c.Rule("programs = every operation sequence of depth <= 2 over the emulated.Field API alphabet (Add, Sub, Neg, Mul, MulConst[0,1,2,-1,-3,2^16], MulNoReduce, MulNoReduce+Reduce, Div, Inverse, Sqrt, Exp, Reduce, ReduceStrict, Select, Lookup2, Mux, ToBits, ToBitsCanonical, FromBits, IsZero, AssertIsEqual, AssertIsDifferent, AssertIsLessOrEqual, AssertIsInRange; the second operation consumes the result of the first at every type-compatible position, or the very same element after an assertion) plus the families add^k;op (acc=Add(acc,acc)) and mulConst[2|-3|2^16]^k;op for EVERY k in [0, maxOverflow+2] (resp. maxOverflow/bitlen(c)+2) with the accumulator at every element position of op; operands from {0,1,2,q-1,q (non-canonical),2^bitlen(q)-1,generic,generic2, all-limbs-max and 2q-1 as explicit limbs} as witnesses and as constants (depth 1: the full alphabet on every operand and every selector value; depth 2 and families: the per-configuration primary x secondary alphabets listed under 'plan'); variable-modulus ModAdd/ModMul/ModExp/ModAssertIsEqual sequences of depth <= 2 over 5 moduli. Every program runs on the test engine (integer recomposed from the result limbs == big.Int reference mod q; ReduceStrict/ToBitsCanonical exactly canonical; booleans and verdicts those of the integers) and the compiled subset is compiled with both builders and solved (reference exposed: must solve; reference+1 / flipped bit exposed: must fail; witness wider than the modulus: must fail). Dishonest prover: every call of mulHint/DivHint/InverseHint/SqrtHint/subPaddingHint (and nBits/InvZero/range-check decomposition hints as single departures) is a choice point over {+1,-1 on each output, swap neighbours, all zero} and derived answers ((k-1,r+q), (k-2,r+2q), (k+1,r-q), r+1 with quotient and carries recomputed modulo the NATIVE field, zero remainder with quotient ab/q mod N, v+q, q-v, the inverse/quotient/root of a different element, paddings that are not multiples / too small), <= 2 departures, with a congruent and an incongruent value exposed. distinct = (part, first operation or configuration, verdict class).")
	c.Assume("AssertIsLessOrEqual/AssertIsInRange may refuse (panic) operands whose overflow counter is not known to be zero (documented)",
		"0/0 and 0^0 are undefined: any outcome accepted", "Exp/ModExp use the integer of the exponent's representation; when the documentation does not determine it (after Sub/Neg or an automatic reduction) the result is not judged",
		"Sqrt: either root accepted", "in compiled runs the commitment is a hash of the committed values (Fiat-Shamir in the harness); C12_CONFIRM=1 replays the main finding through real Groth16/PLONK proofs")
	c.Note("declared subsets: Exp (2 multiplications per modulus bit) uses a reduced operand alphabet on moduli > 64 bits, takes part in depth-2 sequences / families only on the configurations whose plan says so and then on the k listed by slowK; AssertIsLessOrEqual/AssertIsInRange in families (refused for every k>=1) use k in {0,1,2,every 16th,last 4}; compiled sweep = all depth-1 structures (constant x constant pairs restricted to second constant in {2,q} unless plan.csCCfull) + every csD2Mod-th depth-2 program + every csFamMod-th family program; Exp is compiled only for moduli <= 64 bits (thorough: one instance up to 256 bits)")
	c.Explain("failures are grouped by root cause (engine/builder, failing API method or sequence, verdict class, error kind); one violation (the first case in enumeration order) is reported per group and the number of cases per group is in sections.violations")
	ops := allOps()
	if os.Getenv("C12_CONFIRM") != "" {
		confirm()
		os.Exit(0)
	}
	if pf := os.Getenv("C12_PROF"); pf != "" {
		fh, _ := os.Create(pf)
		pprof.StartCPUProfile(fh)
		defer pprof.StopCPUProfile()
	}
	// every part gets a share of the budget (absolute cumulative deadlines: a part finishing early
	// leaves its time to the next ones); a part stopped by its deadline is reported as a cap.
	global := c.Deadline
	start := time.Now()
	share := func(f float64) {
		d := start.Add(time.Duration(f * float64(global.Sub(start))))
		if d.After(global) {
			d = global
		}
		c.Deadline = d
	}
	if c.Want("te.d1") || c.Want("te.d2") || c.Want("te.fam") {
		share(0.42)
		sweepTE(c, ops)
	}
	if c.Want("cs.d1") || c.Want("cs.d2") || c.Want("cs.fam") {
		share(0.68)
		sweepCS(c, ops)
	}
	if c.Want("adv") {
		share(0.90)
		adversary(c, ops)
	}
	if c.Want("vm.sweep") || c.Want("vm.adv") {
		share(1.0)
		varMod(c)
	}
	c.Deadline = global
	c.Extra("plan", planDesc)
	flushViolations(c)
	pprof.StopCPUProfile()
	c.Finish()
}

type config struct {
	kit    Kit
	native nativeF
	plan   *plan
}

var planDesc = map[string]string{}

func argList(as []arg) string {
	var l []string
	for _, a := range as {
		l = append(l, a.str())
	}
	return strings.Join(l, " ")
}

// configs: which (emulated field, native field) pairs are swept and with which alphabets.
func configs(c *vh.Check) []config {
	var out []config
	quick := c.Quick()
	nats := []nativeF{natBN, natBLS}
	if !quick {
		nats = append(nats, natBW6)
	}
	for ni, n := range nats {
		for _, k := range kitList {
			kt := allKits[k]
			fi := kt.Info()
			small := fi.q.BitLen() <= 64
			pl := &plan{full: fullAlphabet(fi), bits: bitsAlphabet(fi), expBases: expBases, expExps: expExps, builders: []string{"r1cs", "scs"}}
			if quick {
				if ni > 0 && !(k == "Tiny13" || k == "Secp256k1Fp") {
					continue
				}
				pl.d1, pl.d2 = true, ni == 0
				pl.fam = (ni == 0 && (k == "Tiny13" || k == "Secp256k1Fp")) || (ni == 1 && k == "Tiny13")
				pl.prim, pl.sec = primSmall, secSmall
				if ni == 0 && k == "Tiny13" {
					pl.prim, pl.sec = primMid, secMid
				}
				pl.famA = []arg{W(vGen)}
				if ni > 0 {
					pl.famA = []arg{W(vQm1)}
				}
				pl.expP, pl.expS = []arg{W(vGen)}, secSmall
				switch {
				case k == "Tiny13":
					pl.d1ExpFull, pl.d2Exp, pl.famExp = ni == 0, ni == 0, 1
				case k == "Goldilocks":
				case fi.q.BitLen() > 300 || ni > 0:
					pl.expBases, pl.expExps = []arg{W(vGen)}, []arg{W(vQ)}
				default:
					pl.expBases, pl.expExps = []arg{W(vGen), C(v2)}, []arg{W(vGen2), W(vQ)}
				}
				pl.cs = ni == 0 && k != "BN254Fp" && k != "P384Fp" && k != "BN254Fr"
				pl.csCCfull = ni == 0 && k == "Tiny13"
				pl.csD2Mod, pl.csFamMod = 13, 0
				if ni > 0 {
					pl.csD2Mod = 0
				}
			} else {
				pl.d1, pl.d2, pl.fam = true, true, true
				pl.prim, pl.sec = primMid, secMid
				if ni == 0 {
					pl.prim, pl.sec = pl.full, secBig
				}
				pl.famA = []arg{W(vGen), W(vQm1)}
				if ni == 0 {
					pl.famA = []arg{W(v1), W(vQm1), W(vSmax), W(vGen)}
				}
				pl.expP, pl.expS = []arg{W(vGen), W(vQm1)}, secSmall
				pl.d1ExpFull = small
				pl.d2Exp = ni == 0
				pl.famExp = 1
				if small {
					pl.famExp = 2
				}
				if ni > 0 && !small {
					pl.famExp = 0
					pl.expBases, pl.expExps = []arg{W(vGen), C(v2)}, []arg{W(vGen2), W(vQ), C(v2)}
				}
				pl.cs = true
				pl.csCCfull = ni == 0
				pl.csD2Mod, pl.csFamMod = 5, 23
				if ni > 0 {
					pl.csD2Mod, pl.csFamMod = 7, 0
				}
			}
			out = append(out, config{kt, n, pl})
			planDesc[k+"/"+n.name] = fmt.Sprintf("d1=%v(full=%d operand forms, expFull=%v) d2=%v(primary=%s secondary=%s exp=%v) families=%v(acc=%s expK=%d) compiled=%v(d2 every %d, families every %d, ccFull=%v)",
				pl.d1, len(pl.full), pl.d1ExpFull, pl.d2, argList(pl.prim), argList(pl.sec), pl.d2Exp, pl.fam, argList(pl.famA), pl.famExp, pl.cs, pl.csD2Mod, pl.csFamMod, pl.csCCfull)
		}
	}
	return out
}

func keyOf(fi *finfo, nat, builder string, p *prog, class string) string {
	return fmt.Sprintf("c12:%s/%s/%s:%s:%s:%s", fi.name, nat, builder, p.seq(), p.operands(), class)
}

// groupOf: failures are grouped by root cause: (engine, failing API method when the error text
// names it, else the operation names of the sequence, verdict class, error kind).
func groupOf(fi *finfo, nat, builder string, p *prog, class, sig string, errText string) string {
	if cu := culprit(errText, p); cu != "" {
		return fmt.Sprintf("%s:in-%s:%s:%s", builder, cu, class, sig)
	}
	names := ""
	if p.fam.kind != "" {
		names = p.fam.kind + "^k;"
	}
	for i, s := range p.steps {
		if i > 0 {
			names += ";"
		}
		names += s.op.name
	}
	return fmt.Sprintf("%s:%s:%s:%s", builder, names, class, sig)
}

// culprit extracts the emulated.Field method called by the harness in which a panic was raised.
func culprit(e string, p *prog) string {
	if errSig(e) == "hint-inverse-inputs-missing" {
		return "Inverse"
	}
	if errSig(e) == "panic-nil-limb" {
		for _, st := range p.steps {
			if st.op.name == "Lookup2" || st.op.name == "Mux" {
				return st.op.name
			}
		}
	}
	if strings.Contains(e, "nil limb in result") {
		return p.steps[len(p.steps)-1].op.name
	}
	lines := strings.Split(e, "\n")
	for i, l := range lines {
		if strings.HasPrefix(strings.TrimSpace(l), "main.applyOp") {
			for j := i - 1; j >= 0; j-- {
				t := strings.TrimSpace(lines[j])
				if k := strings.Index(t, "emulated.(*Field[...])."); k >= 0 {
					m := t[k+len("emulated.(*Field[...])."):]
					if x := strings.IndexAny(m, ".( "); x > 0 {
						m = m[:x]
					}
					return m
				}
			}
		}
	}
	return ""
}
