package main

import (
	"fmt"
	"math/big"

	"github.com/consensys/gnark-crypto/ecc"
	"github.com/consensys/gnark/backend"
	"github.com/consensys/gnark/backend/groth16"
	"github.com/consensys/gnark/backend/plonk"
	"github.com/consensys/gnark/constraint/solver"
	"github.com/consensys/gnark/frontend"
	"github.com/consensys/gnark/frontend/cs/r1cs"
	"github.com/consensys/gnark/frontend/cs/scs"
	"github.com/consensys/gnark/std/math/emulated"
	"github.com/consensys/gnark/std/math/emulated/emparams"
	"github.com/consensys/gnark/test/unsafekzg"
)

// Optional confirmation (C12_CONFIRM=1): an end-to-end Groth16 / PLONK proof, with the real
// commitment-derived challenge, of the FALSE public statement a*b == c (mod secp256k1 p) obtained by
// substituting the outputs of the first mulHint call only.
type confirmCircuit struct {
	A, B, C emulated.Element[emparams.Secp256k1Fp] `gnark:",public"`
}

func (c *confirmCircuit) Define(api frontend.API) error {
	f, err := emulated.NewField[emparams.Secp256k1Fp](api)
	if err != nil {
		return err
	}
	f.AssertIsEqual(f.Mul(&c.A, &c.B), &c.C)
	return nil
}

func confirm() {
	type S = emparams.Secp256k1Fp
	q := S{}.Modulus()
	a, b := big.NewInt(5), big.NewInt(7)
	wrong := big.NewInt(36) // 5*7 = 35
	_ = q
	var mul *hintInfo
	for i := range registry() {
		if registry()[i].kind == "mul" {
			mul = &registry()[i]
		}
	}
	forge := func() solver.Option {
		calls := 0
		return solver.OverrideHint(mul.id, func(N *big.Int, in, out []*big.Int) error {
			if err := mul.fn(N, in, out); err != nil {
				return err
			}
			if calls == 0 {
				applyAlt(mul, N, in, out, 3*len(out)+3) // r+1, k := (ab-r-1)/q mod N, carries mod N
			}
			calls++
			return nil
		})
	}
	assign := &confirmCircuit{A: emulated.ValueOf[S](a), B: emulated.ValueOf[S](b), C: emulated.ValueOf[S](wrong)}
	field := ecc.BN254.ScalarField()
	w, _ := frontend.NewWitness(assign, field)
	pw, _ := w.Public()
	{
		ccs, err := frontend.Compile(field, r1cs.NewBuilder, &confirmCircuit{})
		if err != nil {
			fmt.Println("confirm: compile:", err)
			return
		}
		pk, vk, _ := groth16.Setup(ccs)
		_, errH := groth16.Prove(ccs, pk, w)
		proof, err := groth16.Prove(ccs, pk, w, backend.WithSolverOptions(forge()))
		if err != nil {
			fmt.Println("confirm groth16: forged prove failed:", err)
		} else {
			fmt.Printf("confirm groth16: public statement 5*7 == 36 (mod secp256k1 p): honest prover error = %v; forged proof verifies: err = %v\n", errH != nil, groth16.Verify(proof, vk, pw))
		}
	}
	{
		ccs, err := frontend.Compile(field, scs.NewBuilder, &confirmCircuit{})
		if err != nil {
			fmt.Println("confirm: compile:", err)
			return
		}
		srs, lag, err := unsafekzg.NewSRS(ccs)
		if err != nil {
			fmt.Println("confirm: srs:", err)
			return
		}
		pk, vk, _ := plonk.Setup(ccs, srs, lag)
		proof, err := plonk.Prove(ccs, pk, w, backend.WithSolverOptions(forge()))
		if err != nil {
			fmt.Println("confirm plonk: forged prove failed:", err)
		} else {
			fmt.Printf("confirm plonk: forged proof of 5*7 == 36 verifies: err = %v\n", plonk.Verify(proof, vk, pw))
		}
	}
}
