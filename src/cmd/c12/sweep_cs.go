package main

import (
	"fmt"
	"math/big"
	"sort"
	"strings"
	"sync/atomic"

	"github.com/consensys/gnark/constraint"
	"github.com/consensys/gnark/internal/verifh/vh"
)

// ---------------------------------------------------------------------------------------
// Compiled path: every structure (sequence + constants) is compiled once per builder; every
// program of the structure is solved with the reference exposed (must solve) and with a wrong
// exposure (must not solve).
// ---------------------------------------------------------------------------------------

func structKey(p *prog) string {
	var sb strings.Builder
	sb.WriteString(p.seq())
	for _, s := range p.steps {
		sb.WriteString("|")
		for _, a := range s.args {
			switch a.src {
			case srcC:
				fmt.Fprintf(&sb, "c%d,", a.v)
			case srcXC:
				fmt.Fprintf(&sb, "x%d,", a.v)
			default:
				fmt.Fprintf(&sb, "s%d,", a.src)
			}
		}
	}
	return sb.String()
}

type csGroup struct {
	cfg   int
	part  string
	progs []*prog
	order int64
}

// badWitnessProgs: depth-1 programs whose enumerated operand is a witness wider than the modulus.
func badWitnessProgs(ops []*opDef, fi *finfo) []*prog {
	var out []*prog
	for _, v := range []int{vLmax, v2Qm1} {
		if fi.vals[v] == nil || fi.vals[v].BitLen() <= fi.q.BitLen() {
			continue
		}
		for _, op := range ops {
			if op.slow || (op.c != nil && op.c.Sign() == 0) {
				continue // MulConst by 0 never looks at its operand
			}
			for _, pos := range ePositions(op) {
				args := buildArgs(op, map[int]arg{pos: W(v)}, selectFor(op, pos), fillW)
				out = append(out, (&prog{steps: []step{{op, args}}}).finalize())
			}
		}
	}
	return out
}

func sweepCS(c *vh.Check, ops []*opDef) {
	cfgs := configs(c)
	perCfg := make([][]*csGroup, len(cfgs))
	perCfgN := make([]int, len(cfgs))
	vh.ParN(len(cfgs), 0, func(ci int) bool { // enumeration of the configurations in parallel
		cf := cfgs[ci]
		pl := cf.plan
		if !pl.cs {
			return true
		}
		fi := cf.kit.Info()
		type tagged struct {
			p    *prog
			part string
		}
		var ps []tagged
		keep := func(p *prog) bool {
			if !p.hasSlow() {
				return true
			}
			if fi.q.BitLen() <= 64 {
				return true
			}
			return !c.Quick() && fi.q.BitLen() <= 256 && p.fam.kind == "" && len(p.steps) == 1 && p.steps[0].args[0].src == srcW && p.steps[0].args[0].v == vGen && p.steps[0].args[1].src == srcW
		}
		if c.Want("cs.d1") {
			plc := *pl
			plc.csOnly = true
			for _, p := range depth1(ops, &plc) {
				if keep(p) {
					ps = append(ps, tagged{p, "d1"})
				}
			}
			for _, p := range badWitnessProgs(ops, fi) {
				ps = append(ps, tagged{p, "d1"})
			}
		}
		if c.Want("cs.d2") && pl.csD2Mod > 0 && pl.d2 {
			for i, p := range depth2(ops, pl, fi) {
				if i%pl.csD2Mod == 0 && keep(p) {
					ps = append(ps, tagged{p, "d2"})
				}
			}
		}
		if c.Want("cs.fam") && pl.csFamMod > 0 && pl.fam {
			for i, p := range families(ops, pl, fi, cf.native.mod.BitLen()) {
				if i%pl.csFamMod == 0 && keep(p) {
					ps = append(ps, tagged{p, "fam"})
				}
			}
		}
		byKey := map[string]*csGroup{}
		for _, t := range ps {
			k := t.part + "|" + structKey(t.p)
			g := byKey[k]
			if g == nil {
				g = &csGroup{cfg: ci, part: t.part}
				byKey[k] = g
				perCfg[ci] = append(perCfg[ci], g)
			}
			g.progs = append(g.progs, t.p)
			perCfgN[ci]++
			c.Count("cs-programs", fi.name+"/"+cf.native.name+":"+t.part, 1)
		}
		return true
	})
	var groups []*csGroup
	nProgs := 0
	for ci := range cfgs {
		for _, g := range perCfg[ci] {
			g.order = int64(len(groups))
			groups = append(groups, g)
		}
		nProgs += perCfgN[ci]
	}
	// big circuits first
	sort.SliceStable(groups, func(i, j int) bool {
		a, b := groups[i].progs[0].hasSlow(), groups[j].progs[0].hasSlow()
		return a && !b
	})
	fmt.Printf("cs: %d programs in %d circuit structures (x builders)\n", nProgs, len(groups))
	var done atomic.Int64
	var sampled atomic.Int64
	ok := c.Par(len(groups), func(i int) {
		g := groups[i]
		for _, b := range cfgs[g.cfg].plan.builders {
			runGroupCS(c, cfgs[g.cfg], g, b, &sampled)
		}
		done.Add(int64(len(g.progs)))
	})
	c.Count("cs-programs", "structures", int64(len(groups)))
	c.Count("cs-programs", "executed", done.Load())
	if !ok {
		c.Cap(fmt.Sprintf("internal deadline during the compiled sweep: %d of %d programs solved", done.Load(), nProgs))
	}
}

func runGroupCS(c *vh.Check, cf config, g *csGroup, builder string, sampled *atomic.Int64) {
	fi := cf.kit.Info()
	rep := g.progs[0]
	cs, cerr := cf.kit.Compile(cf.native.mod, builder, rep)
	c.Evals.Add(1)
	c.States.Add(1)
	for pi, p := range g.progs {
		ref := refProg(fi, modeCS, p)
		order := partRank(g.part)<<40 | int64(fi.q.BitLen())<<28 | ((g.order*64 + int64(pi)) & (1<<28 - 1))
		judgeCS(c, cf, builder, g.part, p, ref, cs, cerr, order, sampled)
	}
}

func judgeCS(c *vh.Check, cf config, builder, part string, p *prog, ref refResult, cs constraint.ConstraintSystem, cerr string, order int64, sampled *atomic.Int64) {
	fi := cf.kit.Info()
	first := p.steps[0].op.name
	if p.fam.kind != "" {
		first = p.fam.kind + "^k;op"
		c.Outcome("family-op:" + p.steps[0].op.name)
	}
	class := ""
	errText := cerr
	bad := func(cl string, extra map[string]any) {
		extra["program"] = p.String()
		extra["field"] = fi.name
		extra["native"] = cf.native.name
		extra["engine"] = "compiled " + builder
		extra["modulus"] = fi.q.String()
		extra["operand_values"] = operandValues(fi, p)
		if errText != "" {
			extra["error"] = short(errText)
		}
		sig := errSig(errText)
		report(groupOf(fi, cf.native.name, builder, p, cl, sig, errText), order, keyOf(fi, cf.native.name, builder, p, cl), extra)
		class = "VIOLATION-" + cl
	}
	defer func() {
		c.Outcome("cs:" + first + ":" + class)
		c.Outcome("cs:" + fi.name + "/" + builder + ":" + class)
	}()
	c.Traces.Add(1)
	if cerr != "" {
		sig := errSig(cerr)
		switch {
		case ref.verd == verdUndef:
			class = "undefined-or-unjudged"
		case ref.precond && sig == "precond-overflow":
			class = "refused-documented-precondition"
		case ref.verd == verdFail && !ref.badWitness:
			class = "false-statement-rejected-at-compile-time"
		default:
			bad("sat-rejected", map[string]any{"reference": refString(ref), "stage": "compile"})
		}
		return
	}
	if ref.verd == verdUndef {
		class = "undefined-or-unjudged"
		return
	}
	// exposures
	var expE *big.Int
	var expBits []*big.Int
	var expBool *big.Int
	last := p.steps[len(p.steps)-1].op.name
	if ref.verd == verdOK && ref.hasOut {
		switch ref.final.t {
		case tE:
			expE = ref.final.v
		case tB:
			if last == "ToBitsCanonical" {
				nb := fi.q.BitLen()
				if fi.q.TrailingZeroBits() == uint(nb-1) {
					nb--
				}
				for i := 0; i < nb; i++ {
					expBits = append(expBits, big.NewInt(int64(ref.final.v.Bit(i))))
				}
			} else {
				expE = ref.final.v
			}
		case tb:
			expBool = ref.final.v
		}
	}
	run := func(e *big.Int, bits []*big.Int, b *big.Int) string {
		w, err := cf.kit.Witness(cf.native.mod, p, e, bits, b)
		if err != nil {
			c.Fatal("witness for %s: %v", p, err)
		}
		c.Evals.Add(1)
		return solve(cs, w)
	}
	e := run(expE, expBits, expBool)
	if e != "" && ref.verd == verdOK && last == "Sqrt" && expE != nil && expE.Sign() != 0 {
		if e2 := run(fi.mod(new(big.Int).Neg(expE)), nil, nil); e2 == "" {
			e, expE = "", fi.mod(new(big.Int).Neg(expE))
		}
	}
	errText = e
	switch {
	case ref.verd == verdFail && e != "":
		class = "false-statement-rejected"
		if ref.badWitness {
			class = "wide-witness-rejected"
		}
	case ref.verd == verdFail:
		if ref.badWitness {
			bad("wide-witness-accepted", map[string]any{"reference": "a witness element wider than the modulus must be rejected by the width check"})
		} else {
			bad("unsat-accepted", map[string]any{"reference": "no witness exists / assertion false"})
		}
	case e != "":
		bad("sat-rejected", map[string]any{"reference": refString(ref), "stage": "solve"})
	default:
		class = "ok"
		if !ref.hasOut {
			break
		}
		// a wrong exposure must be rejected
		var e2 string
		switch {
		case expE != nil:
			e2 = run(fi.mod(new(big.Int).Add(expE, one)), nil, nil)
		case expBits != nil:
			wb := append([]*big.Int(nil), expBits...)
			wb[0] = new(big.Int).Sub(one, wb[0])
			e2 = run(nil, wb, nil)
		case expBool != nil:
			e2 = run(nil, nil, new(big.Int).Sub(one, expBool))
		}
		if e2 == "" {
			errText = ""
			bad("wrong-result-accepted", map[string]any{"reference": refString(ref), "exposed": "reference+1 (or a flipped bit)"})
		}
		if class == "ok" && part != "d1" && sampled.Load() < 4 && sampled.Add(1) <= 4 {
			c.Sample(map[string]any{"part": "compiled", "builder": builder, "field": fi.name, "native": cf.native.name, "program": p.String(), "operand_values": operandValues(fi, p),
				"reference": refString(ref), "constraints": cs.GetNbConstraints(), "verdict": "reference solves; reference+1 rejected: " + short(e2)})
		}
	}
}
