package main

import (
	"fmt"
	"math/big"
	"strings"
)

// ---------------------------------------------------------------------------------------
// Operation alphabet and program representation (independent of the emulated type parameter)
// ---------------------------------------------------------------------------------------

type ty int

const (
	tNone ty = iota // assertion, no result
	tE              // emulated element
	tB              // bit vector
	tb              // single boolean
	ts              // small selector (Mux)
)

type opDef struct {
	name string
	in   []ty
	out  ty
	c    *big.Int // MulConst constant
	slow bool     // Exp-like (thousands of multiplications on large fields)
}

func (o *opDef) String() string { return o.name }

var two16 = new(big.Int).Lsh(big.NewInt(1), 16)

var mulConsts = []*big.Int{big.NewInt(0), big.NewInt(1), big.NewInt(2), big.NewInt(-1), big.NewInt(-3), two16}

func allOps() []*opDef {
	ops := []*opDef{
		{name: "Add", in: []ty{tE, tE}, out: tE},
		{name: "Sub", in: []ty{tE, tE}, out: tE},
		{name: "Neg", in: []ty{tE}, out: tE},
		{name: "Mul", in: []ty{tE, tE}, out: tE},
	}
	for _, c := range mulConsts {
		n := c.String()
		if c.Cmp(two16) == 0 {
			n = "2^16"
		}
		ops = append(ops, &opDef{name: "MulConst[" + n + "]", in: []ty{tE}, out: tE, c: c})
	}
	ops = append(ops,
		&opDef{name: "MulNoReduce", in: []ty{tE, tE}, out: tE},
		&opDef{name: "MulNoReduce+Reduce", in: []ty{tE, tE}, out: tE},
		&opDef{name: "Div", in: []ty{tE, tE}, out: tE},
		&opDef{name: "Inverse", in: []ty{tE}, out: tE},
		&opDef{name: "Sqrt", in: []ty{tE}, out: tE},
		&opDef{name: "Exp", in: []ty{tE, tE}, out: tE, slow: true},
		&opDef{name: "Reduce", in: []ty{tE}, out: tE},
		&opDef{name: "ReduceStrict", in: []ty{tE}, out: tE},
		&opDef{name: "Select", in: []ty{tb, tE, tE}, out: tE},
		&opDef{name: "Lookup2", in: []ty{tb, tb, tE, tE, tE, tE}, out: tE},
		&opDef{name: "Mux", in: []ty{ts, tE, tE, tE}, out: tE},
		&opDef{name: "ToBits", in: []ty{tE}, out: tB},
		&opDef{name: "ToBitsCanonical", in: []ty{tE}, out: tB},
		&opDef{name: "FromBits", in: []ty{tB}, out: tE},
		&opDef{name: "IsZero", in: []ty{tE}, out: tb},
		&opDef{name: "AssertIsEqual", in: []ty{tE, tE}, out: tNone},
		&opDef{name: "AssertIsDifferent", in: []ty{tE, tE}, out: tNone},
		&opDef{name: "AssertIsLessOrEqual", in: []ty{tE, tE}, out: tNone},
		&opDef{name: "AssertIsInRange", in: []ty{tE}, out: tNone},
	)
	return ops
}

func opByName(ops []*opDef, n string) *opDef {
	for _, o := range ops {
		if o.name == n {
			return o
		}
	}
	panic("no op " + n)
}

// operand sources
const (
	srcW    = iota // witness element, value index v; slot = index into circuit W
	srcC           // constant via Field.NewElement(value)
	srcXC          // constant given by explicit limbs (may be wider than the modulus)
	srcPrev        // result of the previous step
	srcNat         // native witness (selector bit / small selector), value v
	srcBits        // native witness bits of value index v (FromBits at depth 1)
	srcSame        // the very same *Element as argument 0 of the previous step (after an assertion)
	srcDup         // the very same *Element as argument 0 of this step
)

type arg struct {
	src  int
	v    int // value index (srcW/srcC/srcXC/srcBits) or native value (srcNat); vFamRef = value of the family accumulator
	slot int // witness slot (srcW) / native slot (srcNat)
}

type step struct {
	op   *opDef
	args []arg
}

// family prefix applied to argument `pos` of step 0: k times acc=Add(acc,acc) or acc=MulConst(acc,c)
type family struct {
	kind string // "", "add", "mulc"
	k    int
	c    *big.Int
	pos  int
}

type prog struct {
	fam   family
	steps []step
	nW    int // witness element slots
	nNat  int // native selector slots
	bitsV int // value index whose bits are fed natively (-1 none)
}

var valNames = []string{"0", "1", "2", "q-1", "q", "smax", "gen", "gen2", "lmax", "2q-1", "gen^2", "acc"}

const (
	v0 = iota
	v1
	v2
	vQm1
	vQ
	vSmax // 2^bitlen(q)-1 : every limb maximal under the width enforced on witnesses
	vGen
	vGen2
	vLmax // all limbs 2^w-1 (wider than the modulus unless bitlen(q) is a multiple of w)
	v2Qm1 // 2q-1 (only if it fits nbLimbs*w bits)
	vSq   // gen^2 mod q (a quadratic residue)
	nVals
	vFamRef = nVals // witness holding the canonical value of the family accumulator (families only)
)

func (a arg) str() string {
	switch a.src {
	case srcW:
		return "w:" + valNames[a.v]
	case srcC:
		return "c:" + valNames[a.v]
	case srcXC:
		return "x:" + valNames[a.v]
	case srcPrev:
		return "r"
	case srcNat:
		return fmt.Sprintf("n:%d", a.v)
	case srcBits:
		return "bits:" + valNames[a.v]
	case srcSame:
		return "same"
	case srcDup:
		return "dup"
	}
	return "?"
}

// seq renders the operation sequence without operands; operands renders the operands.
func (p *prog) seq() string {
	var sb strings.Builder
	if p.fam.kind != "" {
		if p.fam.kind == "add" {
			fmt.Fprintf(&sb, "add^%d@%d;", p.fam.k, p.fam.pos)
		} else {
			fmt.Fprintf(&sb, "mulConst[%s]^%d@%d;", p.fam.c, p.fam.k, p.fam.pos)
		}
	}
	for i, s := range p.steps {
		if i > 0 {
			sb.WriteString(";")
		}
		sb.WriteString(s.op.name)
		if i > 0 {
			for j, a := range s.args {
				if a.src == srcPrev || a.src == srcSame {
					fmt.Fprintf(&sb, "@%d", j)
				}
			}
		}
	}
	return sb.String()
}

func (p *prog) operands() string {
	var parts []string
	for _, s := range p.steps {
		var as []string
		for _, a := range s.args {
			as = append(as, a.str())
		}
		parts = append(parts, strings.Join(as, ","))
	}
	return strings.Join(parts, ";")
}

func (p *prog) String() string { return p.seq() + "(" + p.operands() + ")" }

// finalize assigns witness/native slots.
func (p *prog) finalize() *prog {
	p.nW, p.nNat, p.bitsV = 0, 0, -1
	for si := range p.steps {
		p.steps[si].args = append([]arg(nil), p.steps[si].args...) // operand tuples are shared by the enumerators
		for ai := range p.steps[si].args {
			a := &p.steps[si].args[ai]
			switch a.src {
			case srcW:
				a.slot = p.nW
				p.nW++
			case srcNat:
				a.slot = p.nNat
				p.nNat++
			case srcBits:
				p.bitsV = a.v
			}
		}
	}
	return p
}

func (p *prog) hasSlow() bool {
	for _, s := range p.steps {
		if s.op.slow {
			return true
		}
	}
	return false
}

func (p *prog) usesW() bool { return p.nW > 0 }

// val gives the integer assigned to a value operand of p.
func (p *prog) val(fi *finfo, a arg) *big.Int {
	if a.v != vFamRef {
		return fi.vals[a.v]
	}
	x := new(big.Int).Set(fi.vals[p.steps[0].args[p.fam.pos].v])
	for k := 0; k < p.fam.k; k++ {
		if p.fam.kind == "add" {
			x.Lsh(x, 1)
		} else {
			x.Mul(x, p.fam.c)
		}
		x.Mod(x, fi.q)
	}
	return x
}
