package main

import "math/big"

// ---------------------------------------------------------------------------------------
// Exhaustive enumeration of the program space (deterministic order).
// ---------------------------------------------------------------------------------------

// plan: what is enumerated for one (emulated field, native field) configuration
type plan struct {
	d1, d2, fam bool
	full        []arg // depth 1: every operand representation
	bits        []int // values fed bitwise to FromBits at depth 1
	d1ExpFull   bool  // Exp at depth 1 over full x full (else expBases x expExps)
	expBases    []arg
	expExps     []arg
	prim, sec   []arg // depth 2: first operand of the first operation / every other free operand
	d2Exp       bool  // depth-2 sequences containing Exp
	expP, expS  []arg
	famA        []arg // families: the accumulated operand
	famExp      int   // Exp in families: 0 none, 1 declared subset of k, 2 every k
	// compiled sweep
	cs       bool
	csD2Mod  int // every csD2Mod-th depth-2 program is compiled (0 = none)
	csFamMod int
	csCCfull bool // constant x constant operand pairs over the full grid (else second constant in {2, q})
	builders []string
	csOnly   bool // enumerating for the compiled sweep
}

func W(v int) arg  { return arg{src: srcW, v: v} }
func C(v int) arg  { return arg{src: srcC, v: v} }
func XC(v int) arg { return arg{src: srcXC, v: v} }

func fullAlphabet(fi *finfo) []arg {
	var full []arg
	for _, v := range []int{v0, v1, v2, vQm1, vQ, vSmax, vGen} {
		full = append(full, W(v))
	}
	for _, v := range []int{v0, v1, v2, vQm1, vQ, vGen} {
		full = append(full, C(v))
	}
	for _, v := range []int{vSmax, vLmax, v2Qm1} {
		if fi.vals[v] != nil {
			full = append(full, XC(v))
		}
	}
	return full
}

func bitsAlphabet(fi *finfo) []int {
	b := []int{v0, v1, v2, vQm1, vQ, vSmax, vGen}
	if fi.vals[vLmax] != nil {
		b = append(b, vLmax)
	}
	return b
}

var (
	primSmall = []arg{W(vGen), W(vQ)}
	primMid   = []arg{W(v0), W(vQm1), W(vQ), W(vGen), C(v2), C(vQm1)}
	secSmall  = []arg{W(vGen2)}
	secMid    = []arg{W(vGen2), C(v2)}
	secBig    = []arg{W(vGen2), W(vQ), C(v2)}
	expBases  = []arg{W(v0), W(v1), W(vQm1), W(vQ), W(vGen), C(v2)}
	expExps   = []arg{W(v0), W(v1), W(v2), W(vQm1), W(vQ), W(vSmax), W(vGen2), C(v2)}
)

func ePositions(op *opDef) []int {
	var ps []int
	for i, t := range op.in {
		if t == tE {
			ps = append(ps, i)
		}
	}
	return ps
}

// selector values making position pos the selected one (Select/Lookup2/Mux); nil for other ops.
func selectFor(op *opDef, pos int) []int {
	switch op.name {
	case "Select":
		if pos == 1 {
			return []int{1}
		}
		return []int{0}
	case "Lookup2":
		i := pos - 2
		return []int{i & 1, i >> 1}
	case "Mux":
		return []int{pos - 1}
	}
	return nil
}

// natCombos enumerates every value of the native selector operands of op.
func natCombos(op *opDef) [][]int {
	out := [][]int{{}}
	for _, t := range op.in {
		var dom []int
		switch t {
		case tb:
			dom = []int{0, 1}
		case ts:
			dom = []int{0, 1, 2}
		default:
			continue
		}
		var next [][]int
		for _, c := range out {
			for _, d := range dom {
				next = append(next, append(append([]int{}, c...), d))
			}
		}
		out = next
	}
	return out
}

// fillers for the element operands of wide operations (Lookup2, Mux) other than the enumerated ones
var fillW = []arg{W(vGen2), W(vQm1), W(v2), W(v1)}
var fillC = []arg{C(vGen), C(v1), C(v2), C(vQm1)}

// buildArgs assembles the operand list of op: enumerated[pos] given, natives from nat, other element
// operands from filler.
func buildArgs(op *opDef, given map[int]arg, nat []int, filler []arg) []arg {
	args := make([]arg, len(op.in))
	ni, fi := 0, 0
	for i, t := range op.in {
		if g, ok := given[i]; ok {
			args[i] = g
			continue
		}
		switch t {
		case tb, ts:
			args[i] = arg{src: srcNat, v: nat[ni]}
			ni++
		case tE:
			args[i] = filler[fi%len(filler)]
			fi++
		case tB:
			args[i] = arg{src: srcBits, v: vGen}
		}
	}
	return args
}

// natIndex consumes native values only for positions not given.
func natFor(op *opDef, given map[int]arg, combo []int) []int { return combo }

func depth1(ops []*opDef, al *plan) []*prog {
	var out []*prog
	for _, op := range ops {
		eps := ePositions(op)
		switch {
		case len(op.in) == 1 && op.in[0] == tB:
			for _, v := range al.bits {
				out = append(out, (&prog{steps: []step{{op, []arg{{src: srcBits, v: v}}}}}).finalize())
			}
		case len(eps) == 1:
			for _, a := range al.full {
				out = append(out, (&prog{steps: []step{{op, []arg{a}}}}).finalize())
			}
		case len(eps) == 2 && len(op.in) == 2:
			for _, a := range al.full {
				for _, b := range al.full {
					if op.slow && !al.d1ExpFull && !(inArgs(al.expBases, a) && inArgs(al.expExps, b)) {
						continue
					}
					if al.csOnly && !al.csCCfull && a.src != srcW && b.src != srcW && !(b.src == srcC && (b.v == v2 || b.v == vQ)) {
						continue
					}
					out = append(out, (&prog{steps: []step{{op, []arg{a, b}}}}).finalize())
				}
				if a.src == srcW && (!op.slow || al.d1ExpFull || a.v == vGen) {
					out = append(out, (&prog{steps: []step{{op, []arg{a, {src: srcDup}}}}}).finalize())
				}
			}
		default: // Select, Lookup2, Mux: every selector value x every position enumerated over the full alphabet
			for _, nat := range natCombos(op) {
				for _, pos := range eps {
					for _, a := range al.full {
						for _, fl := range [][]arg{fillW, fillC} {
							out = append(out, (&prog{steps: []step{{op, buildArgs(op, map[int]arg{pos: a}, nat, fl)}}}).finalize())
						}
					}
				}
			}
		}
	}
	return out
}

// depth2 enumerates op1;op2 with op2 consuming the result of op1 at every compatible position
// (or, after an assertion, the very same element).
func depth2(ops []*opDef, al *plan, fi *finfo) []*prog {
	var out []*prog
	for _, op1 := range ops {
		for _, op2 := range ops {
			var conns []arg
			var poss []int
			if op1.out == tNone {
				eps := ePositions(op2)
				if len(eps) == 0 {
					continue
				}
				poss = []int{eps[0]}
				conns = []arg{{src: srcSame}}
			} else {
				for i, t := range op2.in {
					if t == op1.out {
						poss = append(poss, i)
						conns = append(conns, arg{src: srcPrev})
					}
				}
			}
			prim, sec := al.prim, al.sec
			if op1.slow || op2.slow {
				if !al.d2Exp {
					continue
				}
				prim, sec = al.expP, al.expS
			}
			for pi, pos := range poss {
				// operand tuples of op1
				var op1Args [][]arg
				eps1 := ePositions(op1)
				for _, nat := range natCombos(op1) {
					switch {
					case len(eps1) == 0: // FromBits
						for _, v := range []int{vGen, vQ, vSmax} {
							op1Args = append(op1Args, []arg{{src: srcBits, v: v}})
						}
					default:
						for _, a := range prim {
							if len(eps1) == 1 {
								op1Args = append(op1Args, buildArgs(op1, map[int]arg{eps1[0]: a}, nat, fillW))
								continue
							}
							for _, b := range sec {
								op1Args = append(op1Args, buildArgs(op1, map[int]arg{eps1[0]: a, eps1[1]: b}, nat, fillW))
							}
						}
					}
				}
				// free operands of op2
				var op2Args [][]arg
				var free []int
				for _, e := range ePositions(op2) {
					if e != pos {
						free = append(free, e)
					}
				}
				for _, nat := range natCombos2(op2, pos) {
					if len(free) == 0 {
						op2Args = append(op2Args, buildArgs(op2, map[int]arg{pos: conns[pi]}, nat, fillW))
						continue
					}
					for _, b := range sec {
						op2Args = append(op2Args, buildArgs(op2, map[int]arg{pos: conns[pi], free[0]: b}, nat, fillW))
					}
				}
				for _, a1 := range op1Args {
					for _, a2 := range op2Args {
						out = append(out, (&prog{steps: []step{{op1, a1}, {op2, a2}}}).finalize())
					}
				}
			}
		}
	}
	return out
}

// natCombos2: native selector values of op2 when position pos is fed by the previous result.
func natCombos2(op *opDef, pos int) [][]int {
	out := [][]int{{}}
	for i, t := range op.in {
		if i == pos {
			continue
		}
		var dom []int
		switch t {
		case tb:
			dom = []int{0, 1}
		case ts:
			dom = []int{0, 1, 2}
		default:
			continue
		}
		var next [][]int
		for _, c := range out {
			for _, d := range dom {
				next = append(next, append(append([]int{}, c...), d))
			}
		}
		out = next
	}
	return out
}

// families: add^k;op and mulConst[c]^k;op for every k in [0,K], the accumulated operand at every
// element position of op.
func families(ops []*opDef, al *plan, fi *finfo, nativeBits int) []*prog {
	var out []*prog
	maxOf := nativeBits - 2 - int(fi.w)
	type fam struct {
		kind string
		c    *big.Int
		K    int
	}
	fams := []fam{{"add", nil, maxOf + 2}, {"mulc", big.NewInt(2), maxOf/2 + 2}, {"mulc", big.NewInt(-3), maxOf/2 + 2}, {"mulc", two16, maxOf/17 + 2}}
	for _, op := range ops {
		for _, pos := range ePositions(op) {
			nat := selectFor(op, pos)
			for _, fm := range fams {
				for k := 0; k <= fm.K; k++ {
					if op.slow {
						// the exponent's integer is not determined after a possible automatic reduction
						if al.famExp == 0 || (pos == 1 && k > 0) {
							continue
						}
						if al.famExp == 1 && !slowK(k, fm.K, maxOf, int(fi.w), fm.kind == "add") {
							continue
						}
					}
					for ai, a := range al.famA {
						if op.slow && ai > 0 {
							continue
						}
						if k > 2 && k < fm.K-3 && k%16 != 0 && (op.name == "AssertIsLessOrEqual" || op.name == "AssertIsInRange") {
							continue // refused for every k >= 1 (operand overflow): declared subset of k
						}
						given := map[int]arg{pos: a}
						if op.name == "AssertIsEqual" {
							given[1-pos] = W(vFamRef) // a true statement: compared with the canonical value of the accumulator
						}
						args := buildArgs(op, given, nat, fillW)
						p := &prog{fam: family{kind: fm.kind, k: k, c: fm.c, pos: pos}, steps: []step{{op, args}}}
						out = append(out, p.finalize())
					}
				}
			}
		}
	}
	return out
}

// slowK: the subset of k used for Exp on large moduli: both ends, every 8th, and +-3 around every
// value where a reduction can start (k ~ maxOf, maxOf-w-lg, (maxOf-w-lg)/2 for lg in 1..5).
func slowK(k, K, maxOf, w int, isAdd bool) bool {
	if !isAdd {
		return k <= 2 || k >= K-3
	}
	if k <= 2 || k%8 == 0 || k >= K-5 {
		return true
	}
	for lg := 1; lg <= 5; lg++ {
		for _, t := range []int{maxOf - w - lg, (maxOf - w - lg) / 2} {
			if k >= t-3 && k <= t+3 {
				return true
			}
		}
	}
	return false
}

func inArgs(l []arg, a arg) bool {
	for _, x := range l {
		if x.src == a.src && x.v == a.v {
			return true
		}
	}
	return false
}
