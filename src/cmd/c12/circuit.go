package main

import (
	"fmt"
	"math/big"

	"github.com/consensys/gnark/frontend"
	"github.com/consensys/gnark/std/math/emulated"
)

// ---------------------------------------------------------------------------------------
// Generic circuit executing one program on the real emulated.Field[T].
// ---------------------------------------------------------------------------------------

// Tiny13 is a custom parameter set: 13-bit prime on four 4-bit limbs (top limb is one bit wide).
type Tiny13 struct{}

func (Tiny13) NbLimbs() uint     { return 4 }
func (Tiny13) BitsPerLimb() uint { return 4 }
func (Tiny13) IsPrime() bool     { return true }
func (Tiny13) Modulus() *big.Int { return big.NewInt(7919) }

type defn struct {
	f func(api frontend.API, c any) error
}

// Circ: W = witness element operands, X = expected element (compiled mode exposure),
// N = native witnesses: [selectors..., input bits..., expected natives...].
type Circ[T emulated.FieldParams] struct {
	W []emulated.Element[T]
	X []emulated.Element[T]
	N []frontend.Variable
	d *defn
}

func (c *Circ[T]) Define(api frontend.API) error { return c.d.f(api, c) }

// what a test-engine execution observed
type observed struct {
	hasE   bool
	resInt *big.Int // integer recomposed from the result limbs
	nLimbs int
	bits   []*big.Int
	hasB   bool
	bval   *big.Int
	hasb   bool
}

type val[T emulated.FieldParams] struct {
	t    ty
	e    *emulated.Element[T]
	bits []frontend.Variable
	b    frontend.Variable
}

// native layout
const natSel = 4 // first natSel entries of N: selectors

func natBitsOff() int         { return natSel }
func natExpOff(fi *finfo) int { return natSel + int(fi.w*fi.n) }
func natLen(fi *finfo) int    { return natSel + 2*int(fi.w*fi.n) + 2 }

func constElem[T emulated.FieldParams](f *emulated.Field[T], fi *finfo, a arg) *emulated.Element[T] {
	x := fi.vals[a.v]
	if a.src == srcC {
		return f.NewElement(new(big.Int).Set(x))
	}
	ls := fi.limbsOf(x, int(fi.n))
	e := emulated.Element[T]{Limbs: make([]frontend.Variable, len(ls))}
	for i := range ls {
		e.Limbs[i] = ls[i]
	}
	return f.NewElement(e)
}

func applyOp[T emulated.FieldParams](api frontend.API, f *emulated.Field[T], op *opDef, a []val[T]) val[T] {
	E := func(e *emulated.Element[T]) val[T] { return val[T]{t: tE, e: e} }
	switch op.name {
	case "Add":
		return E(f.Add(a[0].e, a[1].e))
	case "Sub":
		return E(f.Sub(a[0].e, a[1].e))
	case "Neg":
		return E(f.Neg(a[0].e))
	case "Mul":
		return E(f.Mul(a[0].e, a[1].e))
	case "MulNoReduce":
		return E(f.MulNoReduce(a[0].e, a[1].e))
	case "MulNoReduce+Reduce":
		return E(f.Reduce(f.MulNoReduce(a[0].e, a[1].e)))
	case "Div":
		return E(f.Div(a[0].e, a[1].e))
	case "Inverse":
		return E(f.Inverse(a[0].e))
	case "Sqrt":
		return E(f.Sqrt(a[0].e))
	case "Exp":
		return E(f.Exp(a[0].e, a[1].e))
	case "Reduce":
		return E(f.Reduce(a[0].e))
	case "ReduceStrict":
		return E(f.ReduceStrict(a[0].e))
	case "Select":
		return E(f.Select(a[0].b, a[1].e, a[2].e))
	case "Lookup2":
		return E(f.Lookup2(a[0].b, a[1].b, a[2].e, a[3].e, a[4].e, a[5].e))
	case "Mux":
		return E(f.Mux(a[0].b, a[1].e, a[2].e, a[3].e))
	case "ToBits":
		return val[T]{t: tB, bits: f.ToBits(a[0].e)}
	case "ToBitsCanonical":
		return val[T]{t: tB, bits: f.ToBitsCanonical(a[0].e)}
	case "FromBits":
		return E(f.FromBits(a[0].bits...))
	case "IsZero":
		return val[T]{t: tb, b: f.IsZero(a[0].e)}
	case "AssertIsEqual":
		f.AssertIsEqual(a[0].e, a[1].e)
		return val[T]{}
	case "AssertIsDifferent":
		f.AssertIsDifferent(a[0].e, a[1].e)
		return val[T]{}
	case "AssertIsLessOrEqual":
		f.AssertIsLessOrEqual(a[0].e, a[1].e)
		return val[T]{}
	case "AssertIsInRange":
		f.AssertIsInRange(a[0].e)
		return val[T]{}
	}
	if op.c != nil {
		return E(f.MulConst(a[0].e, new(big.Int).Set(op.c)))
	}
	panic("applyOp: " + op.name)
}

// runProgram executes p on the circuit inputs and returns the value of the last step that has a result.
func runProgram[T emulated.FieldParams](api frontend.API, f *emulated.Field[T], fi *finfo, p *prog, c *Circ[T], wOff, nOff int) (val[T], bool) {
	var prev val[T]
	var prevArg0 val[T]
	has := false
	for si, s := range p.steps {
		args := make([]val[T], len(s.args))
		for i, a := range s.args {
			switch a.src {
			case srcW:
				args[i] = val[T]{t: tE, e: &c.W[wOff+a.slot]}
			case srcC, srcXC:
				args[i] = val[T]{t: tE, e: constElem(f, fi, a)}
			case srcPrev:
				args[i] = prev
			case srcSame:
				args[i] = prevArg0
			case srcDup:
				args[i] = args[0]
			case srcNat:
				args[i] = val[T]{t: tb, b: c.N[nOff+a.slot]}
			case srcBits:
				nb := int(fi.w * fi.n)
				args[i] = val[T]{t: tB, bits: c.N[nOff+natBitsOff() : nOff+natBitsOff()+nb]}
			}
		}
		if si == 0 && p.fam.kind != "" {
			acc := args[p.fam.pos].e
			for k := 0; k < p.fam.k; k++ {
				if p.fam.kind == "add" {
					acc = f.Add(acc, acc)
				} else {
					acc = f.MulConst(acc, new(big.Int).Set(p.fam.c))
				}
			}
			args[p.fam.pos].e = acc
		}
		out := applyOp(api, f, s.op, args)
		if len(args) > 0 {
			prevArg0 = args[0]
		}
		if s.op.out != tNone {
			prev = out
			has = true
		} else {
			has = false
		}
	}
	return prev, has
}

func valueOf(api frontend.API, v frontend.Variable) *big.Int {
	if v == nil {
		panic("nil limb in result")
	}
	x, _ := api.Compiler().ConstantValue(v)
	return new(big.Int).Set(x)
}

// teCircuit: test-engine flavour; a batch of programs is executed in one run (each on its own
// witness / native slots) and every result is read directly from the limbs.
func teCircuit[T emulated.FieldParams](fi *finfo, ps []*prog, obs []*observed) *Circ[T] {
	nW := 0
	for _, p := range ps {
		nW += p.nW
	}
	c := &Circ[T]{W: make([]emulated.Element[T], nW), X: nil, N: make([]frontend.Variable, teNatLen(fi)*len(ps))}
	c.d = &defn{f: func(api frontend.API, ci any) error {
		cc := ci.(*Circ[T])
		f, err := emulated.NewField[T](api)
		if err != nil {
			return err
		}
		wOff := 0
		for pi, p := range ps {
			out, has := runProgram(api, f, fi, p, cc, wOff, pi*teNatLen(fi))
			wOff += p.nW
			if !has {
				continue
			}
			o := obs[pi]
			switch out.t {
			case tE:
				o.hasE = true
				o.nLimbs = len(out.e.Limbs)
				o.resInt = new(big.Int)
				for i := len(out.e.Limbs) - 1; i >= 0; i-- {
					o.resInt.Lsh(o.resInt, fi.w)
					o.resInt.Add(o.resInt, valueOf(api, out.e.Limbs[i]))
				}
			case tB:
				o.hasB = true
				for _, b := range out.bits {
					o.bits = append(o.bits, valueOf(api, b))
				}
			case tb:
				o.hasb = true
				o.bval = valueOf(api, out.b)
			}
		}
		return nil
	}}
	return c
}

func teNatLen(fi *finfo) int { return natSel + int(fi.w*fi.n) }

// teAssignment: witness of a batch.
func teAssignment[T emulated.FieldParams](fi *finfo, ps []*prog) *Circ[T] {
	nW := 0
	for _, p := range ps {
		nW += p.nW
	}
	a := &Circ[T]{W: make([]emulated.Element[T], nW), N: make([]frontend.Variable, teNatLen(fi)*len(ps))}
	for i := range a.N {
		a.N[i] = 0
	}
	wOff := 0
	for pi, p := range ps {
		nOff := pi * teNatLen(fi)
		for _, s := range p.steps {
			for _, ar := range s.args {
				switch ar.src {
				case srcW:
					a.W[wOff+ar.slot] = mkElem[T](fi, p.val(fi, ar))
				case srcNat:
					a.N[nOff+ar.slot] = ar.v
				case srcBits:
					x := fi.vals[ar.v]
					for i := 0; i < int(fi.w*fi.n); i++ {
						a.N[nOff+natBitsOff()+i] = x.Bit(i)
					}
				}
			}
		}
		wOff += p.nW
	}
	return a
}

func mkElem[T emulated.FieldParams](fi *finfo, x *big.Int) emulated.Element[T] {
	if x.Cmp(fi.q) <= 0 {
		return emulated.ValueOf[T](new(big.Int).Set(x))
	}
	ls := fi.limbsOf(x, int(fi.n))
	e := emulated.Element[T]{Limbs: make([]frontend.Variable, len(ls))}
	for i := range ls {
		e.Limbs[i] = ls[i]
	}
	return e
}

// csCircuit: compiled flavour; the result is exposed by assertions against inputs:
// element -> AssertIsEqual(res, X[0]); ToBits -> FromBits then as element; canonical bits /
// booleans -> native equality with N[exp...].
func csCircuit[T emulated.FieldParams](fi *finfo, p *prog) *Circ[T] {
	c := &Circ[T]{W: make([]emulated.Element[T], p.nW), X: make([]emulated.Element[T], 1), N: make([]frontend.Variable, natLen(fi))}
	c.d = &defn{f: func(api frontend.API, ci any) error {
		cc := ci.(*Circ[T])
		f, err := emulated.NewField[T](api)
		if err != nil {
			return err
		}
		out, has := runProgram(api, f, fi, p, cc, 0, 0)
		if !has {
			return nil
		}
		last := p.steps[len(p.steps)-1].op.name
		switch out.t {
		case tE:
			f.AssertIsEqual(out.e, &cc.X[0])
		case tB:
			if last == "ToBitsCanonical" {
				if len(out.bits) > int(fi.w*fi.n) {
					return fmt.Errorf("canonical bits longer than the limbs")
				}
				for i, b := range out.bits {
					api.AssertIsEqual(b, cc.N[natExpOff(fi)+i])
				}
				// the number of bits is part of the documented result
				api.AssertIsEqual(len(out.bits), cc.N[natExpOff(fi)+int(fi.w*fi.n)])
			} else {
				for _, b := range out.bits {
					api.AssertIsBoolean(b)
				}
				f.AssertIsEqual(f.FromBits(out.bits...), &cc.X[0])
			}
		case tb:
			api.AssertIsEqual(out.b, cc.N[natExpOff(fi)])
		}
		return nil
	}}
	return c
}

// assignment builds the witness assignment for p. expE / expNat are the exposed expectations (compiled mode).
func assignment[T emulated.FieldParams](fi *finfo, p *prog, compiled bool, expE *big.Int, expBits []*big.Int, expBool *big.Int) *Circ[T] {
	a := &Circ[T]{W: make([]emulated.Element[T], p.nW), N: make([]frontend.Variable, natLen(fi))}
	for i := range a.N {
		a.N[i] = 0
	}
	mk := func(x *big.Int) emulated.Element[T] {
		if x.Cmp(fi.q) <= 0 {
			return emulated.ValueOf[T](new(big.Int).Set(x))
		}
		ls := fi.limbsOf(x, int(fi.n))
		e := emulated.Element[T]{Limbs: make([]frontend.Variable, len(ls))}
		for i := range ls {
			e.Limbs[i] = ls[i]
		}
		return e
	}
	for _, s := range p.steps {
		for _, ar := range s.args {
			switch ar.src {
			case srcW:
				a.W[ar.slot] = mk(p.val(fi, ar))
			case srcNat:
				a.N[ar.slot] = ar.v
			case srcBits:
				x := fi.vals[ar.v]
				for i := 0; i < int(fi.w*fi.n); i++ {
					a.N[natBitsOff()+i] = x.Bit(i)
				}
			}
		}
	}
	if compiled {
		a.X = make([]emulated.Element[T], 1)
		if expE != nil {
			a.X[0] = mk(expE)
		} else {
			a.X[0] = mk(big.NewInt(0))
		}
		for i, b := range expBits {
			a.N[natExpOff(fi)+i] = b
		}
		if expBits != nil {
			a.N[natExpOff(fi)+int(fi.w*fi.n)] = len(expBits)
		}
		if expBool != nil {
			a.N[natExpOff(fi)] = expBool
		}
	}
	return a
}
