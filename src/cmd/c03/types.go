package main

import (
	"github.com/consensys/gnark-crypto/kzg"
	"github.com/consensys/gnark/backend/witness"
)

type witnessT = witness.Witness
type kzgSRS = kzg.SRS
