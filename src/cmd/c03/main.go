// C03: completeness (every satisfying assignment yields a proof that verifies, under every
// consistent option combination) and fail-fast (a non-satisfying assignment makes Prove return
// an error — no proof, no panic, no hang — under every schedule of the provers' goroutines
// and every single injected failure).
package main

import (
	"crypto/sha256"
	"crypto/sha512"
	"fmt"
	"hash"
	"math/big"
	"strings"

	"github.com/consensys/gnark-crypto/ecc"
	"github.com/consensys/gnark/backend"
	"github.com/consensys/gnark/backend/groth16"
	"github.com/consensys/gnark/backend/plonk"
	"github.com/consensys/gnark/constraint"
	"github.com/consensys/gnark/frontend"
	"github.com/consensys/gnark/internal/verifh/bk"
	"github.com/consensys/gnark/internal/verifh/bkcat"
	"github.com/consensys/gnark/internal/verifh/circ"
	"github.com/consensys/gnark/internal/verifh/vh"
	"github.com/consensys/gnark/internal/verifh/vsched"
	"github.com/consensys/gnark/logger"
	"github.com/consensys/gnark/test/unsafekzg"
)

func commit(api frontend.API, v ...frontend.Variable) frontend.Variable {
	c, err := api.(frontend.Committer).Commit(v...)
	if err != nil {
		panic(err)
	}
	return c
}

// edge shapes beyond the shared catalogue
func edgeCases() []bk.Case {
	B := bk.Big
	return []bk.Case{
		{Name: "no-secret", NP: 2, NS: 0, Def: func(api frontend.API, p, s []frontend.Variable) error {
			api.AssertIsEqual(api.Mul(p[0], p[0]), p[1])
			return nil
		}, Valid: [][2][]*big.Int{{B(3, 9), B()}, {B(4, 16), B()}}, Invalid: [][2][]*big.Int{{B(3, 10), B()}}},
		{Name: "one-row", NP: 0, NS: 2, Def: func(api frontend.API, p, s []frontend.Variable) error {
			api.AssertIsEqual(api.Mul(s[0], s[0]), s[1])
			return nil
		}, Valid: [][2][]*big.Int{{B(), B(3, 9)}, {B(), B(0, 0)}}, Invalid: [][2][]*big.Int{{B(), B(3, 8)}}},
		{Name: "single-gate", NP: 0, NS: 2, Def: func(api frontend.API, p, s []frontend.Variable) error {
			api.AssertIsEqual(s[0], s[1])
			return nil
		}, Valid: [][2][]*big.Int{{B(), B(3, 3)}, {B(), B(0, 0)}}, Invalid: [][2][]*big.Int{{B(), B(3, 8)}}},
		{Name: "constant-folded", NP: 1, NS: 1, Def: func(api frontend.API, p, s []frontend.Variable) error {
			api.AssertIsEqual(api.Mul(3, 4), 12)
			api.AssertIsEqual(api.Add(s[0], 1), p[0])
			return nil
		}, Valid: [][2][]*big.Int{{B(6), B(5)}, {B(1), B(0)}}, Invalid: [][2][]*big.Int{{B(7), B(5)}}},
		{Name: "only-commitments", NP: 1, NS: 1, NbCommit: 2, Def: func(api frontend.API, p, s []frontend.Variable) error {
			c1 := commit(api, s[0])
			c2 := commit(api, p[0], c1)
			api.AssertIsDifferent(c1, c2)
			return nil
		}, Valid: [][2][]*big.Int{{B(6), B(5)}, {B(0), B(0)}}},
		{Name: "three-commitments", NP: 1, NS: 2, NbCommit: 3, Def: func(api frontend.API, p, s []frontend.Variable) error {
			c1 := commit(api, s[0], s[1])
			c2 := commit(api, p[0])
			c3 := commit(api, c1, c2, s[0])
			api.AssertIsDifferent(c3, c1)
			api.AssertIsEqual(api.Mul(s[0], s[1]), p[0])
			return nil
		}, Valid: [][2][]*big.Int{{B(6), B(2, 3)}, {B(0), B(0, 7)}}, Invalid: [][2][]*big.Int{{B(7), B(2, 3)}}},
		{Name: "hint-and-div", NP: 1, NS: 2, Def: func(api frontend.API, p, s []frontend.Variable) error {
			q := api.Div(s[0], s[1])
			z := api.IsZero(api.Sub(q, p[0]))
			api.AssertIsEqual(z, 1)
			bits := api.ToBinary(s[1], 8)
			api.AssertIsEqual(bits[0], 1)
			return nil
		}, Valid: [][2][]*big.Int{{B(4), B(12, 3)}, {B(5), B(35, 7)}}, Invalid: [][2][]*big.Int{{B(4), B(12, 4)}, {B(0), B(0, 0)}}},
	}
}

type optTuple struct {
	name string
	p    func() []backend.ProverOption
	v    func() []backend.VerifierOption
}

func optTuples() []optTuple {
	h := func(f func() hash.Hash) func() hash.Hash { return f }
	_ = h
	return []optTuple{
		{"default", func() []backend.ProverOption { return nil }, func() []backend.VerifierOption { return nil }},
		{"hash-to-field=sha256", func() []backend.ProverOption {
			return []backend.ProverOption{backend.WithProverHashToFieldFunction(sha256.New())}
		}, func() []backend.VerifierOption {
			return []backend.VerifierOption{backend.WithVerifierHashToFieldFunction(sha256.New())}
		}},
		{"hash-to-field=sha512(64-byte digest)", func() []backend.ProverOption {
			return []backend.ProverOption{backend.WithProverHashToFieldFunction(sha512.New())}
		}, func() []backend.VerifierOption {
			return []backend.VerifierOption{backend.WithVerifierHashToFieldFunction(sha512.New())}
		}},
		{"hash-to-field=sha512/224(28-byte digest)", func() []backend.ProverOption {
			return []backend.ProverOption{backend.WithProverHashToFieldFunction(sha512.New512_224())}
		}, func() []backend.VerifierOption {
			return []backend.VerifierOption{backend.WithVerifierHashToFieldFunction(sha512.New512_224())}
		}},
		{"challenge=sha512", func() []backend.ProverOption {
			return []backend.ProverOption{backend.WithProverChallengeHashFunction(sha512.New())}
		}, func() []backend.VerifierOption {
			return []backend.VerifierOption{backend.WithVerifierChallengeHashFunction(sha512.New())}
		}},
		{"kzg-folding=sha512", func() []backend.ProverOption {
			return []backend.ProverOption{backend.WithProverKZGFoldingHashFunction(sha512.New())}
		}, func() []backend.VerifierOption {
			return []backend.VerifierOption{backend.WithVerifierKZGFoldingHashFunction(sha512.New())}
		}},
		{"statistical-zk", func() []backend.ProverOption { return []backend.ProverOption{backend.WithStatisticalZeroKnowledge()} }, func() []backend.VerifierOption { return nil }},
		{"all", func() []backend.ProverOption {
			return []backend.ProverOption{backend.WithProverHashToFieldFunction(sha256.New()), backend.WithProverChallengeHashFunction(sha512.New()), backend.WithProverKZGFoldingHashFunction(sha512.New()), backend.WithStatisticalZeroKnowledge()}
		}, func() []backend.VerifierOption {
			return []backend.VerifierOption{backend.WithVerifierHashToFieldFunction(sha256.New()), backend.WithVerifierChallengeHashFunction(sha512.New()), backend.WithVerifierKZGFoldingHashFunction(sha512.New())}
		}},
	}
}

func main() {
	c := vh.New("C03")
	logger.Disable()
	c.Rule("(P) every catalogue / edge-shape circuit x {Groth16, PLONK} x curve x consistent option tuple x assignment: Setup, Prove, Verify must all succeed for satisfying assignments and Prove must return an error for non-satisfying ones. (S) the instrumented PLONK and Groth16 provers run under the controlled scheduler: EVERY interleaving of their stage goroutines within the delay bound, for a valid witness (proof must verify), an invalid witness and every single injected failure at an `err != nil` site (error returned, every goroutine terminates — deadlock = no enabled thread). distinct = (backend, curve, option tuple, verdict) and (schedule class).")
	c.Assume("(S) on the bn254 instantiation of the generated prover; hint functions and gnark-crypto kernels are atomic steps")
	if unit, _, ok := vh.WorkerArgs(); ok {
		schedules(c, unit)
		c.WorkerDone()
	}
	if c.Want("P") {
		programs(c)
	}
	if c.Want("S") {
		var units []string
		for _, b := range []string{"plonk", "groth16"} {
			for _, w := range []string{"valid", "invalid"} {
				units = append(units, "S:"+b+":"+w)
			}
		}
		vh.ParN(len(units), 4, func(i int) bool {
			c.RunIsolated(units[i], 16<<20, func(cr vh.Crash) {
				c.Violation("c03:"+cr.Unit+":process-crash", map[string]any{"unit": cr.Unit, "frames": vh.FirstFrames(cr.Stderr, 8)})
			})
			return true
		})
	}
	c.Finish()
}

func programs(c *vh.Check) {
	cases := append(bkcat.Cases(), edgeCases()...)
	curves := []ecc.ID{ecc.BN254, ecc.BLS12_377, ecc.BLS12_381, ecc.BLS24_315, ecc.BLS24_317, ecc.BW6_633, ecc.BW6_761}
	type job struct {
		cse     bk.Case
		cv      ecc.ID
		backend string
	}
	var jobs []job
	keepQuick := map[string]bool{"commit-two": true, "cubic-1pub": true, "zero-pub": true, "single-gate": true, "three-commitments": true}
	for _, cse := range cases {
		for _, cv := range curves {
			if c.Quick() && cv != ecc.BN254 && !keepQuick[cse.Name] {
				continue // quick: full catalogue on bn254, representative circuits on the other six curves
			}
			for _, b := range []string{"groth16", "plonk"} {
				jobs = append(jobs, job{cse, cv, b})
			}
		}
	}
	ok := c.Par(len(jobs), func(i int) { runJob(c, jobs[i].cse, jobs[i].cv, jobs[i].backend) })
	if !ok {
		c.Cap("internal deadline in completeness sweep")
	}
}

func runJob(c *vh.Check, cse bk.Case, cv ecc.ID, be string) {
	field := cv.ScalarField()
	builder := circ.R1CS
	if be == "plonk" {
		builder = circ.SCS
	}
	name := fmt.Sprintf("%s:%s:%s", be, cv, cse.Name)
	ccs, err, pan := circ.Compile(field, builder, circ.New(cse.NP, cse.NS, cse.Def))
	if err != nil || pan != "" {
		c.Fatal("catalogue circuit %s does not compile: %v %s", name, err, pan)
	}
	var prove func(w frontendWitness, o []backend.ProverOption) (any, error)
	var verify func(proof any, w frontendWitness, o []backend.VerifierOption) error
	if be == "groth16" {
		pk, vk, err := groth16.Setup(ccs)
		if err != nil {
			c.Violation("c03:"+name+":setup-failed", map[string]any{"case": name, "error": err.Error()})
			return
		}
		prove = func(w frontendWitness, o []backend.ProverOption) (any, error) { return groth16.Prove(ccs, pk, w, o...) }
		verify = func(proof any, w frontendWitness, o []backend.VerifierOption) error {
			pw, _ := w.Public()
			return groth16.Verify(proof.(groth16.Proof), vk, pw, o...)
		}
	} else {
		if ccs.GetNbConstraints()+ccs.GetNbPublicVariables() < 2 {
			// unsafekzg (test helper) cannot build an SRS of size 1; call Setup with a size-2 SRS from a 2-row system
			c.Outcome("c03:plonk:fewer-than-2-rows")
		}
		srsFrom := ccs
		if ccs.GetNbConstraints()+ccs.GetNbPublicVariables() < 2 {
			// the unsafekzg test helper cannot build an SRS of size 1: hand Setup the SRS of a 2-row system
			two, _, _ := circ.Compile(field, circ.SCS, circ.New(0, 3, func(api frontend.API, p, s []frontend.Variable) error {
				api.AssertIsEqual(api.Mul(s[0], s[1]), s[2])
				api.AssertIsEqual(api.Mul(s[1], s[2]), s[0])
				return nil
			}))
			srsFrom = two
		}
		srs, srsL, err := safeSRS(srsFrom)
		if err != nil {
			c.Violation("c03:"+name+":setup-failed", map[string]any{"case": name, "error": "srs: " + err.Error(), "rows": ccs.GetNbConstraints() + ccs.GetNbPublicVariables()})
			return
		}
		pk, vk, err := plonk.Setup(ccs, srs, srsL)
		if err != nil {
			c.Violation("c03:"+name+":setup-failed", map[string]any{"case": name, "error": err.Error(), "rows": ccs.GetNbConstraints() + ccs.GetNbPublicVariables()})
			return
		}
		prove = func(w frontendWitness, o []backend.ProverOption) (any, error) { return plonk.Prove(ccs, pk, w, o...) }
		verify = func(proof any, w frontendWitness, o []backend.VerifierOption) error {
			pw, _ := w.Public()
			return plonk.Verify(proof.(plonk.Proof), vk, pw, o...)
		}
	}
	for _, ot := range optTuples() {
		for wi, a := range cse.Valid {
			w, err := circ.Witness(circ.Assign(a[0], a[1]), field)
			if err != nil {
				c.Fatal("witness: %v", err)
			}
			var proof any
			pan := vh.Recover(func() { proof, err = prove(w, ot.p()) })
			c.Evals.Add(1)
			key := fmt.Sprintf("c03:%s:%s:valid%d", name, ot.name, wi)
			if pan != "" || err != nil {
				c.Violation(key+":prove-failed", map[string]any{"case": name, "options": ot.name, "assignment": fmt.Sprint(a), "error": fmt.Sprint(err), "panic": pan})
				continue
			}
			var verr error
			pan = vh.Recover(func() { verr = verify(proof, w, ot.v()) })
			c.Traces.Add(1)
			if pan != "" || verr != nil {
				c.Violation(key+":verify-failed", map[string]any{"case": name, "options": ot.name, "assignment": fmt.Sprint(a), "error": fmt.Sprint(verr), "panic": pan})
				continue
			}
			c.Outcome("c03:" + be + ":" + ot.name + ":proved+verified")
		}
		for wi, a := range cse.Invalid {
			w, err := circ.Witness(circ.Assign(a[0], a[1]), field)
			if err != nil {
				c.Fatal("witness: %v", err)
			}
			var proof any
			pan := vh.Recover(func() { proof, err = prove(w, ot.p()) })
			c.Evals.Add(1)
			c.Traces.Add(1)
			key := fmt.Sprintf("c03:%s:%s:invalid%d", name, ot.name, wi)
			switch {
			case pan != "":
				c.Violation(key+":prove-panicked", map[string]any{"case": name, "options": ot.name, "assignment": fmt.Sprint(a), "panic": pan})
			case err == nil:
				c.Violation(key+":proof-produced", map[string]any{"case": name, "options": ot.name, "assignment": fmt.Sprint(a), "proof_nil": proof == nil})
			default:
				c.Outcome("c03:" + be + ":" + ot.name + ":invalid-refused")
			}
		}
	}
	if cse.Name == "commit-two" && cv == ecc.BN254 {
		c.Sample(map[string]any{"case": name, "option_tuples": len(optTuples()), "valid_assignments": len(cse.Valid), "invalid_assignments": len(cse.Invalid)})
	}
}

type frontendWitness = witnessT

func safeSRS(ccs constraint.ConstraintSystem) (s1, s2 kzgSRS, err error) {
	pan := vh.Recover(func() { s1, s2, err = unsafekzg.NewSRS(ccs) })
	if pan != "" {
		return nil, nil, fmt.Errorf("unsafekzg panicked: %s", firstLine(pan))
	}
	return
}

func firstLine(s string) string {
	if i := strings.IndexByte(s, '\n'); i >= 0 {
		s = s[:i]
	}
	return s
}

// ---------------------------------------------------------------- schedules

func schedules(c *vh.Check, unit string) {
	parts := strings.Split(unit, ":")
	be, which := parts[1], parts[2]
	field := ecc.BN254.ScalarField()
	builder := circ.R1CS
	if be == "plonk" {
		builder = circ.SCS
	}
	cse := bkcat.Cases()[7] // commit-two
	for _, cs := range bkcat.Cases() {
		if cs.Name == "commit-two" {
			cse = cs
		}
	}
	ccs, err, pan := circ.Compile(field, builder, circ.New(cse.NP, cse.NS, cse.Def))
	if err != nil || pan != "" {
		c.Fatal("compile: %v %s", err, pan)
	}
	a := cse.Valid[0]
	if which == "invalid" {
		a = cse.Invalid[0]
	}
	w, _ := circ.Witness(circ.Assign(a[0], a[1]), field)
	pw, _ := w.Public()
	var run func() string
	if be == "plonk" {
		srs, srsL, err := unsafekzg.NewSRS(ccs)
		if err != nil {
			c.Fatal("srs: %v", err)
		}
		pk, vk, err := plonk.Setup(ccs, srs, srsL)
		if err != nil {
			c.Fatal("setup: %v", err)
		}
		run = func() string {
			proof, err := plonk.Prove(ccs, pk, w)
			if err != nil {
				return "error"
			}
			if err := plonk.Verify(proof, vk, pw); err != nil {
				return "proof-does-not-verify"
			}
			return "ok"
		}
	} else {
		pk, vk, err := groth16.Setup(ccs)
		if err != nil {
			c.Fatal("setup: %v", err)
		}
		run = func() string {
			proof, err := groth16.Prove(ccs, pk, w)
			if err != nil {
				return "error"
			}
			if err := groth16.Verify(proof, vk, pw); err != nil {
				return "proof-does-not-verify"
			}
			return "ok"
		}
	}
	bound := 1
	if c.Tier == "thorough" {
		bound = 2
	}
	completed := -1
	for b := 0; b <= bound; b++ {
		var execs int64
		e := &vh.Explorer{Bound: b, Workers: 1, Stop: c.Expired}
		e.OnNondet = func(x *vh.Ctx) { c.Fatal("NONDETERMINISM in %s: %s", unit, x.Diverged) }
		e.Run = func(x *vh.Ctx) {
			var obs string
			res := vsched.Run(x, vsched.Options{Mode: vsched.Delay, Fail: true}, func() {
				p := vh.Recover(func() { obs = run() })
				if p != "" {
					obs = "panic: " + firstLine(p)
				}
			})
			execs++
			c.Evals.Add(1)
			c.Traces.Add(1)
			c.Transitions.Add(int64(res.Steps))
			injected := len(res.FailsInjected) > 0
			want := "ok"
			if which == "invalid" || injected {
				want = "error"
			}
			class := obs
			switch {
			case res.Deadlock:
				class = "DEADLOCK"
			case res.HorizonHit:
				class = "HORIZON"
			case len(res.Panics) > 0:
				class = "THREAD-PANIC"
			}
			fi := "no-fault"
			if injected {
				fi = "fault@" + res.FailsInjected[0]
			}
			c.Outcome(fmt.Sprintf("c03:S:%s:%s:%s:%s", be, which, fi, class))
			if class != want {
				kind := strings.ToLower(strings.Fields(class)[0])
				c.Violation(fmt.Sprintf("c03:%s:%s:%s", unit, fi, kind), map[string]any{"unit": unit, "deviation_bound": b, "non_default_choices": x.Trace(), "choices": x.Choices, "observed": class, "expected": want, "deadlock": res.DeadlockInfo, "panics": res.Panics, "injected": res.FailsInjected, "schedule": strings.Join(res.Trace, "")})
			}
			if execs == 2 {
				c.Sample(map[string]any{"unit": unit, "bound": b, "non_default_choices": x.Trace(), "scheduling_points": res.Steps, "threads": res.Threads, "observed": class})
			}
		}
		done := e.Explore()
		c.States.Add(e.Points.Load())
		if !done {
			c.Cap(fmt.Sprintf("%s: deadline during delay bound %d (bound %d completed)", unit, b, completed))
			break
		}
		completed = b
		c.Count("schedules:"+unit, fmt.Sprintf("bound<=%d", b), execs)
	}
	c.Count("bound-completed", unit, int64(completed))
}
