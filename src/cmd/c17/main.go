// Command c17 checks property C17: the recursive in-circuit verifiers (std/recursion/groth16,
// std/recursion/plonk and the KZG / Pedersen gadgets they use) accept exactly what the native
// verifiers configured with the matching recursion options accept.
//
// The prover is the environment: for each configuration a genuine inner (proof, verifying key,
// public witness) is built natively, and the genuine triple plus EVERY single structured edit of
// it (finite alphabet, see c17<curve>/common.go) is offered to both verifiers:
//
//	native  : backend Verify with GetNativeVerifierOptions(outer, inner)
//	circuit : is the outer circuit with the edited values as assignment satisfiable?
//	          (gnark test engine; for the 2-chain also compile + real solver)
//
// Oracle: the two verdicts are equal (both directions).
package main

import (
	"crypto/rand"
	"fmt"
	"os"
	"runtime/debug"
	"strconv"
	"sort"
	"sync/atomic"
	"time"

	"github.com/consensys/gnark/internal/verifh/c17"
	_ "github.com/consensys/gnark/internal/verifh/c17bls12377"
	_ "github.com/consensys/gnark/internal/verifh/c17bls12381"
	_ "github.com/consensys/gnark/internal/verifh/c17bls24315"
	_ "github.com/consensys/gnark/internal/verifh/c17bn254"
	"github.com/consensys/gnark/internal/verifh/vh"
	"github.com/consensys/gnark/logger"
)

type job struct {
	kit  string
	plan c17.Plan
}

func main() {
	c := vh.New("C17")
	logger.Disable()
	if g := os.Getenv("C17_GC"); g != "" {
		n, _ := strconv.Atoi(g)
		debug.SetGCPercent(n)
	}
	rand.Reader = &c17.DetReader{}

	c.Rule("cases = (pairing) x (verifier: groth16 | plonk | kzg-single | kzg-batch-single | kzg-multi | pedersen | key switch) x (inner circuit: without / with one commitment) x " +
		"(verifying key as witness | fixed constant) x (option: default | complete arithmetic | subgroup checks) x (engine: test engine | compiled r1cs/scs + solver) x " +
		"(genuine triple, or ONE edit of it: every proof point := infinity, generator, negation, double, v+G, non-subgroup point, v+small-order point, off-curve, same slot of another proof, another slot, a key element; " +
		"every proof scalar := 0, 1, v+1, -v, other proof's; list drop/append/swap/truncate; public input +-1, swap, other proof's inputs, length +-1; " +
		"verifying key := another circuit's key of the same shape, whole and field by field; selectors: every value x every proof); two cases are distinct when any of these differ")
	c.Assume(
		"the native verifiers (backend/groth16, backend/plonk, gnark-crypto kzg and pedersen) with GetNativeVerifierOptions(outer, inner) are the reference; they were themselves checked against textbook verifiers in C01/C02",
		"EXCLUDED (recorded under outcome classes 'excluded(...)', not judged): edits that move a point outside the prime-order subgroup (non-subgroup point, v + small-order point, off-curve point) in configurations without subgroup checks - the in-circuit Groth16 verifier and the Pedersen gadget check membership only under WithSubgroupCheck (documented option), the in-circuit PLONK verifier and the KZG gadget offer no such option and their pairing gadgets document 'doesn't check that the inputs are in the correct subgroups', whereas the native Groth16/PLONK/Pedersen verifiers always check; such edits ARE judged under WithSubgroupCheck",
		"EXCLUDED: off-curve points in the KZG gadget (neither the native kzg.Verify nor the gadget defines a result for them)",
		"EXCLUDED: PLONK default (incomplete) arithmetic when a selector/permutation commitment of the inner key is zero or equals (+-) another one - WithCompleteArithmetic is documented as necessary there; the inner circuits are chosen so that this does not occur, and the check records a note if it does",
		"EXCLUDED: WithSubgroupCheck for BLS24-315 inner proofs - sw_bls24315.AssertIsOnG1 panics 'not implemented', the option is not offered for that curve (only the genuine triple is run there, recorded under excluded(subgroup-check-not-implemented-for-this-curve))",
		"verifying-key edits: the key, or one field of it, replaced by that of another honest key of the same shape, plus the scalar alphabet on the PLONK key's scalar fields (Size*2, SizeInv+1, Generator squared, CosetShift+1, NbPublicVariables+1, commitment index+1) and group edits of its KZG key; a PLONK key whose Size is not a power of two is outside the documented domain of the in-circuit verifier ('n is power of two') and is not offered",
		"length-changing edits: the outer circuit is shaped like the offered assignment (the verifier's own length checks at circuit-definition time decide); for all other cases the shape comes from the Placeholder* helpers applied to the genuine inner constraint system",
		"setup toxic waste, prover blinding and the native batch-verification coefficients come from a deterministic SHA-256 counter stream installed as crypto/rand.Reader; no verdict depends on their values",
		"the test engine evaluates hints honestly; 'satisfiable' for the compiled path means the real solver (honest hints, hintenv.Det() overrides for the commitment placeholder) finds the assignment satisfying",
	)
	c.Explain("differential check of the accept sets of two verifiers over a finite single-edit alphabet; not offered: pairs of edits, BW6-761-in-BN254, PLONK AssertSameProofs, multiple commitments (rejected by the in-circuit Groth16 verifier by design)")

	var jobs []job
	if c.Quick() {
		jobs = []job{
			// native 2-chain: the full single-edit alphabet for both verifiers under the primary
			// configurations (every vk mode and every option) + the sub-alphabet under the remaining
			// ones, the compiled path, the gadgets and the key switches
			{"bls12377-in-bw6761", c17.Plan{Full: true, AllCfg: false, PlonkAllCfg: false, Compiled: 1, Gadgets: true, Switch: true}},
			// emulated: the ~10-edit sub-alphabet, configurations in rotation
			// (emulated gadgets alone and the full selector tables are left to the thorough tier)
			{"bn254-in-bn254", c17.Plan{Rotate: true, Gadgets: false, Switch: true}},
		}
	} else {
		jobs = []job{
			{"bls12377-in-bw6761", c17.Plan{Full: true, AllCfg: true, PlonkAllCfg: true, Compiled: 2, Gadgets: true, Switch: true}},
			{"bls24315-in-bw6633", c17.Plan{Full: true, AllCfg: true, PlonkAllCfg: true, Compiled: 1, Gadgets: true, Switch: true}},
			// emulated (an outer run costs 10-30 s): the full alphabets with every edit outside the
			// sub-alphabet under ONE primary configuration in rotation (the sub-alphabet under all)
			{"bn254-in-bn254", c17.Plan{Full: true, Spread: true, PlonkSpread: true, Gadgets: true, Switch: true}},
			{"bls12381-in-bn254", c17.Plan{Rotate: true, Gadgets: true, Switch: true}},
		}
	}
	var tasks []c17.Task
	tb := time.Now()
	for ji, j := range jobs {
		if !c17.WantKit(c, j.kit) {
			continue
		}
		k := c17.Get(j.kit)
		if k == nil {
			c.Fatal("kit %s not linked (have %v)", j.kit, c17.Names())
		}
		j.plan.Edits = os.Getenv("C17_EDITS")
		if os.Getenv("C17_ALLCFG") != "" {
			j.plan.Rotate, j.plan.AllCfg, j.plan.PlonkAllCfg = false, true, true
		}
		ts := k.Build(c, j.plan)
		for i := range ts {
			// later pairings never starve: their sub-alphabet runs before the full alphabets of earlier ones
			ts[i].Prio = ts[i].Prio*10 + ji
		}
		tasks = append(tasks, ts...)
		c.Count("tasks", j.kit, int64(len(ts)))
	}
	buildTime := time.Since(tb)
	// two queues: heavy (emulated pairings: 10 s and more per run) and light; half of the workers
	// prefer the heavy queue, the other half the light one, so that neither starves the other
	// before the deadline; inside a queue: genuine + sub-alphabet first
	sort.SliceStable(tasks, func(a, b int) bool { return tasks[a].Prio < tasks[b].Prio })
	var queues [2][]c17.Task
	for _, t := range tasks {
		q := 0
		if t.Cost >= 50 {
			q = 1
		}
		queues[q] = append(queues[q], t)
	}
	var next [2]atomic.Int64
	var done atomic.Int64
	workers := vh.NumWorkers()
	c.Par(workers, func(w int) {
		pref := 0
		if w%2 == 1 {
			pref = 1
		}
		for !c.Expired() {
			ran := false
			for _, q := range []int{pref, 1 - pref} {
				i := int(next[q].Add(1) - 1)
				if i < len(queues[q]) {
					queues[q][i].Run()
					done.Add(1)
					ran = true
					break
				}
			}
			if !ran {
				return
			}
		}
	})
	if int(done.Load()) < len(tasks) {
		c.Cap(fmt.Sprintf("internal deadline: %d of %d outer-circuit runs done (light queue %d/%d, heavy queue %d/%d; queues are ordered: genuine + sub-alphabet of every configuration first)",
			done.Load(), len(tasks), min64(next[0].Load(), int64(len(queues[0]))), len(queues[0]), min64(next[1].Load(), int64(len(queues[1]))), len(queues[1])))
	}
	c.Evals.Add(c17.NativeRuns.Load())
	c.Count("tasks", "native verifier runs", c17.NativeRuns.Load())
	c.Count("tasks", "done", done.Load())
	c.Extra("timing_core_seconds(informational)", map[string]any{
		"test_engine_runs": c17.NTE.Load(), "test_engine_s": float64(c17.TimeTE.Load()) / 1e9,
		"compilations": c17.NCompile.Load(), "compile_s": float64(c17.TimeCompile.Load()) / 1e9,
		"solves": c17.NSolve.Load(), "solve_s": float64(c17.TimeSolve.Load()) / 1e9,
		"fixtures_and_native_s": buildTime.Seconds(), "mean_run": c17.MeanTimes(),
	})
	c.Finish()
}


func min64(a, b int64) int64 {
	if a < b {
		return a
	}
	return b
}
