package main

import (
	"crypto/sha256"
	"fmt"
	"hash"
	"math/big"
	"sort"

	"github.com/consensys/gnark/frontend"
	ghash "github.com/consensys/gnark/std/hash"
	gripemd "github.com/consensys/gnark/std/hash/ripemd160"
	gsha2 "github.com/consensys/gnark/std/hash/sha2"
	gsha3 "github.com/consensys/gnark/std/hash/sha3"
	"github.com/consensys/gnark/std/math/uints"
	"golang.org/x/crypto/ripemd160" //nolint
	"golang.org/x/crypto/sha3"
)

// gadget describes one byte-oriented hash gadget and its native reference.
type gadget struct {
	name   string
	block  int // block size / sponge rate in bytes
	size   int // digest size
	fixed  bool
	maxLen int // two blocks + 1 (+1 more for the MD hashes so that 130 is reached)
	ref    func() hash.Hash
	mk     func(api frontend.API, opts ...ghash.Option) (ghash.BinaryHasher, error)
}

func fl(f func(frontend.API, ...ghash.Option) (ghash.BinaryFixedLengthHasher, error)) func(frontend.API, ...ghash.Option) (ghash.BinaryHasher, error) {
	return func(api frontend.API, opts ...ghash.Option) (ghash.BinaryHasher, error) { return f(api, opts...) }
}

var gadgets = []*gadget{
	{name: "sha256", block: 64, size: 32, fixed: true, maxLen: 130, ref: sha256.New, mk: fl(gsha2.New)},
	{name: "sha3-256", block: 136, size: 32, fixed: true, maxLen: 273, ref: sha3.New256, mk: fl(gsha3.New256)},
	{name: "sha3-384", block: 104, size: 48, fixed: true, maxLen: 209, ref: sha3.New384, mk: fl(gsha3.New384)},
	{name: "sha3-512", block: 72, size: 64, fixed: true, maxLen: 145, ref: sha3.New512, mk: fl(gsha3.New512)},
	{name: "keccak256", block: 136, size: 32, fixed: true, maxLen: 273, ref: sha3.NewLegacyKeccak256, mk: fl(gsha3.NewLegacyKeccak256)},
	{name: "keccak512", block: 72, size: 64, fixed: true, maxLen: 145, ref: sha3.NewLegacyKeccak512, mk: fl(gsha3.NewLegacyKeccak512)},
	{name: "ripemd160", block: 64, size: 20, fixed: false, maxLen: 130, ref: ripemd160.New,
		mk: func(api frontend.API, _ ...ghash.Option) (ghash.BinaryHasher, error) { return gripemd.New(api) }},
}

func gadgetByName(n string) *gadget {
	for _, g := range gadgets {
		if g.name == n {
			return g
		}
	}
	return nil
}

// padOverhead is the minimal number of padding bytes (0x80 + 8 length bytes for the MD
// hashes, 1 for the sponges): the lengths block-padOverhead-1 .. block+1 are the padding branches.
func (g *gadget) padOverhead() int {
	if g.name == "sha256" || g.name == "ripemd160" {
		return 9
	}
	return 1
}

// boundaries returns the padding-boundary lengths up to max: 0,1 and, for every block multiple
// kB, kB-overhead-1 .. kB-overhead+1 and kB-1 .. kB+1.
func (g *gadget) boundaries(max int) []int {
	set := map[int]bool{0: true, 1: true, max: true}
	for k := 1; k*g.block <= max+g.block; k++ {
		for _, c := range []int{k*g.block - g.padOverhead(), k * g.block} {
			for d := -1; d <= 1; d++ {
				if v := c + d; v >= 0 && v <= max {
					set[v] = true
				}
			}
		}
	}
	var r []int
	for v := range set {
		r = append(r, v)
	}
	sort.Ints(r)
	return r
}

// content returns the fixed message of length n for pattern id p.
func content(p, n int) []byte {
	b := make([]byte, n)
	for i := range b {
		switch p {
		case 0:
			b[i] = 0
		case 1:
			b[i] = 0xff
		default:
			b[i] = byte(i*7 + 1)
		}
	}
	return b
}

var contentName = []string{"zeros", "ff", "incr"}

// bspec is one enumerated case of a byte gadget; the circuit shape depends on it.
type bspec struct {
	g      *gadget
	mode   string // sum | chunks | fixed | reset | sum2
	L      int    // bytes written
	minLen int    // WithMinimalLength (fixed only; 0 = option absent)
	cuts   [2]int // chunks: write [0,a) [a,b) [b,L)
	junk   int    // reset: junk bytes written (and summed) before Reset
}

func (s *bspec) String() string {
	switch s.mode {
	case "chunks":
		return fmt.Sprintf("%s/chunks/L=%d/cut=%d,%d", s.g.name, s.L, s.cuts[0], s.cuts[1])
	case "fixed":
		return fmt.Sprintf("%s/fixed/L=%d/min=%d", s.g.name, s.L, s.minLen)
	case "reset":
		return fmt.Sprintf("%s/reset/L=%d/junk=%d", s.g.name, s.L, s.junk)
	}
	return fmt.Sprintf("%s/%s/L=%d", s.g.name, s.mode, s.L)
}

// byteCircuit: In = the L written bytes, Len = actual length (== L unless fixed), Exp = digest.
type byteCircuit struct {
	In  []uints.U8
	Len frontend.Variable
	Exp []uints.U8 `gnark:",public"`
	sp  *bspec
}

func newByteCircuit(sp *bspec) *byteCircuit {
	return &byteCircuit{In: make([]uints.U8, sp.L), Exp: make([]uints.U8, sp.g.size), sp: sp}
}

func assignByte(sp *bspec, in []byte, l int, exp []byte) *byteCircuit {
	return &byteCircuit{In: uints.NewU8Array(in), Len: l, Exp: uints.NewU8Array(exp), sp: sp}
}

// runGadget executes the case's operation sequence on the real gadget and returns the digest.
func runGadget(api frontend.API, sp *bspec, in []uints.U8, ln frontend.Variable) ([]uints.U8, error) {
	var opts []ghash.Option
	if sp.mode == "fixed" && sp.minLen > 0 {
		opts = append(opts, ghash.WithMinimalLength(sp.minLen))
	}
	h, err := sp.g.mk(api, opts...)
	if err != nil {
		return nil, err
	}
	var res []uints.U8
	switch sp.mode {
	case "sum":
		h.Write(in)
		res = h.Sum()
	case "chunks":
		a, b := sp.cuts[0], sp.cuts[1]
		h.Write(in[:a])
		h.Write(in[a:b])
		h.Write(in[b:])
		res = h.Sum()
	case "reset":
		r, ok := h.(interface{ Reset() })
		if !ok {
			return nil, fmt.Errorf("no Reset")
		}
		h.Write(in[:sp.junk])
		_ = h.Sum()
		r.Reset()
		h.Write(in)
		res = h.Sum()
	case "fixed":
		fh, ok := h.(ghash.BinaryFixedLengthHasher)
		if !ok {
			return nil, fmt.Errorf("no FixedLengthSum")
		}
		fh.Write(in)
		res = fh.FixedLengthSum(ln)
	default:
		return nil, fmt.Errorf("mode %s", sp.mode)
	}
	if len(res) != sp.g.size || h.Size() != sp.g.size {
		return nil, fmt.Errorf("digest size %d (Size()=%d), want %d", len(res), h.Size(), sp.g.size)
	}
	return res, nil
}

// Define of the asserting circuit: digest == Exp byte by byte.
func (c *byteCircuit) Define(api frontend.API) error {
	res, err := runGadget(api, c.sp, c.In, c.Len)
	if err != nil {
		return err
	}
	if c.sp.mode != "fixed" {
		api.AssertIsEqual(c.Len, c.sp.L)
	}
	uapi, err := uints.New[uints.U32](api)
	if err != nil {
		return err
	}
	for i := range res {
		uapi.ByteAssertEq(res[i], c.Exp[i])
	}
	return nil
}

// ---- batch circuit: many cases in one execution (the 2^16-entry lookup tables of the byte
// gadgets cost seconds per execution in the test engine); digests are handed to the harness
// through a hint call and judged natively, so every case gets its own verdict.

type bcase struct {
	sp  *bspec
	l   int // actual length
	pat int
}

func (k bcase) key() string { return fmt.Sprintf("%s/l=%d/%s", k.sp, k.l, contentName[k.pat]) }

// weight ~ number of compression / permutation calls (sponge permutations cost ~4 sha2 blocks)
func (k bcase) weight() int {
	g := k.sp.g
	var n int
	switch {
	case k.sp.mode == "fixed" && g.block == 64:
		n = (k.sp.L + 72) / 64
	case k.sp.mode == "fixed":
		n = k.sp.L/g.block + 1
	case g.block == 64:
		n = (k.sp.L+8)/64 + 1
	default:
		n = k.sp.L/g.block + 1
	}
	if k.sp.mode == "reset" {
		n *= 2
	}
	if g.block != 64 {
		n *= 3
	}
	return n
}

type batch struct {
	cv    curve
	cases []bcase
	out   [][]byte // captured digests
}

type batchCircuit struct {
	In  [][]uints.U8
	Len []frontend.Variable
	b   *batch
}

func (b *batch) circuit() *batchCircuit {
	c := &batchCircuit{In: make([][]uints.U8, len(b.cases)), Len: make([]frontend.Variable, len(b.cases)), b: b}
	for i, k := range b.cases {
		c.In[i] = make([]uints.U8, k.sp.L)
	}
	return c
}

func (b *batch) assignment() *batchCircuit {
	c := &batchCircuit{In: make([][]uints.U8, len(b.cases)), Len: make([]frontend.Variable, len(b.cases)), b: b}
	for i, k := range b.cases {
		c.In[i] = uints.NewU8Array(content(k.pat, k.sp.L))
		c.Len[i] = k.l
	}
	return c
}

func (c *batchCircuit) Define(api frontend.API) error {
	b := c.b
	b.out = make([][]byte, len(b.cases))
	for i, k := range b.cases {
		res, err := runGadget(api, k.sp, c.In[i], c.Len[i])
		if err != nil {
			return fmt.Errorf("case %d (%s): %w", i, k.key(), err)
		}
		vals := make([]frontend.Variable, len(res))
		for j := range res {
			vals[j] = res[j].Val
		}
		idx := i
		capture := func(_ *big.Int, in, out []*big.Int) error {
			d := make([]byte, len(in))
			for j := range in {
				if !in[j].IsUint64() || in[j].Uint64() > 255 {
					return fmt.Errorf("digest byte %d out of range: %s", j, in[j])
				}
				d[j] = byte(in[j].Uint64())
			}
			b.out[idx] = d
			out[0].SetUint64(0)
			return nil
		}
		if _, err := api.Compiler().NewHint(capture, 1, vals...); err != nil {
			return err
		}
	}
	return nil
}

func refDigest(g *gadget, msg []byte) []byte {
	h := g.ref()
	h.Write(msg)
	return h.Sum(nil)
}

func flip(d []byte, pos int) []byte {
	r := append([]byte(nil), d...)
	r[pos%len(r)] ^= 1 << uint(pos%8)
	return r
}

