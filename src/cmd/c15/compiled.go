package main

import (
	"encoding/hex"
	"fmt"
	"math/big"

	"github.com/consensys/gnark-crypto/ecc"
	"github.com/consensys/gnark/constraint/solver"
	"github.com/consensys/gnark/frontend"
	"github.com/consensys/gnark/internal/verifh/circ"
	"github.com/consensys/gnark/internal/verifh/hintenv"
	"github.com/consensys/gnark/internal/verifh/vh"
	"github.com/consensys/gnark/std/math/uints"
)

func detOpts() []solver.Option {
	var o []solver.Option
	for id, f := range hintenv.Det() {
		o = append(o, solver.OverrideHint(id, f))
	}
	return o
}

// multiCircuit: several byte-gadget cases with public expected digests in one compiled system
// (the lookup tables are paid once per system).
type multiCircuit struct {
	In  [][]uints.U8
	Len []frontend.Variable
	Exp [][]uints.U8 `gnark:",public"`
	ks  []bcase
}

func (c *multiCircuit) Define(api frontend.API) error {
	uapi, err := uints.New[uints.U32](api)
	if err != nil {
		return err
	}
	for i, k := range c.ks {
		res, err := runGadget(api, k.sp, c.In[i], c.Len[i])
		if err != nil {
			return err
		}
		if k.sp.mode != "fixed" {
			api.AssertIsEqual(c.Len[i], k.sp.L)
		}
		for j := range res {
			uapi.ByteAssertEq(res[j], c.Exp[i][j])
		}
	}
	return nil
}

func multiShape(ks []bcase) *multiCircuit {
	c := &multiCircuit{ks: ks}
	for _, k := range ks {
		c.In = append(c.In, make([]uints.U8, k.sp.L))
		c.Len = append(c.Len, nil)
		c.Exp = append(c.Exp, make([]uints.U8, k.sp.g.size))
	}
	return c
}

// multiAssign: flipAt = index of the case whose expected digest gets one flipped bit (-1: none)
func multiAssign(ks []bcase, flipAt int) *multiCircuit {
	c := &multiCircuit{ks: ks}
	for i, k := range ks {
		in := content(k.pat, k.sp.L)
		exp := refDigest(k.sp.g, in[:k.l])
		if i == flipAt {
			exp = flip(exp, k.l+3)
		}
		c.In = append(c.In, uints.NewU8Array(in))
		c.Len = append(c.Len, k.l)
		c.Exp = append(c.Exp, uints.NewU8Array(exp))
	}
	return c
}

// solveBoth compiles the circuit with the builder, solves good (must solve) and each bad
// assignment (must not).

func solveBoth(c *vh.Check, fam, key, builder string, field *big.Int, shape frontend.Circuit, good frontend.Circuit, bad []frontend.Circuit, badName []string) {
	ccs, err, pan := circ.Compile(field, builder, shape)
	c.Evals.Add(1)
	if err != nil || pan != "" {
		c.Outcome(fam + ":" + builder + ":compile-failed")
		c.Violation(key+"/"+builder+"/compile", map[string]any{"what": "the gadget does not compile", "error": fmt.Sprint(err, pan)})
		return
	}
	c.Count("compiled", "constraints:"+builder, int64(ccs.GetNbConstraints()))
	w, err := frontend.NewWitness(good, field)
	if err != nil {
		c.Fatal("witness: %v", err)
	}
	_, err = ccs.Solve(w, detOpts()...)
	c.Evals.Add(1)
	c.Traces.Add(1)
	c.Count(fam, "compiled-accept-side:"+builder, 1)
	if err != nil {
		c.Outcome(fam + ":" + builder + ":ref-rejected")
		c.Violation(key+"/"+builder, map[string]any{"what": "the compiled system rejects the native reference digests", "error": short(err)})
		return
	}
	c.Outcome(fam + ":" + builder + ":ref-accepted")
	for i, b := range bad {
		if c.Expired() {
			c.Cap("deadline during compiled negative solves of " + key)
			return
		}
		w, err := frontend.NewWitness(b, field)
		if err != nil {
			c.Fatal("witness: %v", err)
		}
		_, err = ccs.Solve(w, detOpts()...)
		c.Evals.Add(1)
		c.Count(fam, "compiled-reject-side:"+builder, 1)
		if err == nil {
			c.Outcome(fam + ":" + builder + ":wrong-value-accepted")
			c.Violation(key+"/"+builder+"/"+badName[i], map[string]any{"what": "the compiled system accepts a wrong digest"})
		} else {
			c.Outcome(fam + ":" + builder + ":wrong-value-rejected")
		}
	}
}

// compiledJobs: every padding-boundary length of every byte gadget (plus FixedLengthSum at the
// block boundary and the field hashers / Merkle / Fiat-Shamir) compiled for bn254 with both
// builders and solved in both directions.
func compiledJobs(c *vh.Check) []job {
	var jobs []job
	bn := allCurves[0]
	const group = 4
	for _, g := range gadgets {
		if !c.Want("compiled:" + g.name) {
			continue
		}
		var ks []bcase
		r, ov := g.block, g.padOverhead()
		cl := g.boundaries(g.maxLen)
		if c.Quick() {
			// every padding branch of the first block boundary + the two-block boundary
			cl = uniq(0, r-ov, r-ov+1, r-1, r, 2*r-ov)
		}
		for _, l := range cl {
			if l >= 0 {
				ks = append(ks, bcase{&bspec{g: g, mode: "sum", L: l}, l, 2})
			}
		}
		if g.fixed {
			L := r + 1
			fls := uniq(0, r-ov, r-ov+1, r)
			if c.Quick() {
				fls = uniq(r-ov, r)
			}
			for _, l := range fls {
				ks = append(ks, bcase{&bspec{g: g, mode: "fixed", L: L}, l, 2})
			}
			ks = append(ks, bcase{&bspec{g: g, mode: "fixed", L: L, minLen: r - ov}, r, 2})
		}
		blds := []string{circ.R1CS, circ.SCS}
		if c.Quick() && g.name != "sha256" {
			blds = []string{circ.SCS}
			c.Note(g.name + ": quick tier compiles with scs only (r1cs + scs in thorough)")
		}
		if c.Quick() && g.name == "ripemd160" {
			ks = ks[:3]
		}
		if c.Quick() && g.name != "sha256" && g.name != "keccak256" && g.name != "ripemd160" {
			// the other sponges differ from keccak256 by (domain byte, rate, output size) only
			blds = []string{circ.SCS}
			ks = nil
			for _, l := range []int{r - 1, r} {
				ks = append(ks, bcase{&bspec{g: g, mode: "sum", L: l}, l, 2})
			}
			ks = append(ks, bcase{&bspec{g: g, mode: "fixed", L: r + 1}, r - 1, 2})
			c.Note(g.name + ": quick tier compiles lengths rate-1, rate and one FixedLengthSum case with scs only (all boundaries, r1cs + scs in thorough)")
		}
		for _, b := range blds {
			// r1cs: compiling the three 2^16-entry lookup tables costs ~10 s per system whatever the
			// circuit, so all cases of a gadget share one system; scs: groups of `group` cases
			gs := len(ks)
			if b == circ.SCS {
				gs = 3 // an scs system costs ~1 kB of builder memory per constraint: keep systems < 2 M constraints
			}
			for s, gi := 0, 0; s < len(ks); s, gi = s+gs, gi+1 {
				e := s + gs
				if e > len(ks) {
					e = len(ks)
				}
				sub := ks[s:e]
				b := b
				gi := gi
				jobs = append(jobs, func() {
					var bad []frontend.Circuit
					var names []string
					for j := range sub {
						if c.Quick() && (b == circ.SCS && j != gi%3 || b == circ.R1CS && j%4 != 1) {
							continue
						}
						bad = append(bad, multiAssign(sub, j))
						names = append(names, "flipped:"+sub[j].key())
					}
					key := "compiled/" + sub[0].key() + fmt.Sprintf("+%d", len(sub)-1)
					solveBoth(c, g.name+":compiled", key, b, bn.q, multiShape(sub), multiAssign(sub, -1), bad, names)
					c.Count(g.name+":compiled", "cases:"+b, int64(len(sub)))
				})
			}
		}
	}
	if c.Want("compiled:field") {
		curvesC := []curve{bn}
		for _, cv := range curvesC {
			for _, kind := range []string{"mimc"} {
				for n := 0; n <= 5; n++ {
					sp := &fspec{kind: kind, cv: cv, mode: "chunks", n: n, a: n / 2, b: n}
					for _, b := range []string{circ.R1CS, circ.SCS} {
						b := b
						jobs = append(jobs, func() {
							in := fcontent(cv, 2, sp.n)
							exp := refField(sp, in)
							bad := new(big.Int).Add(exp, big.NewInt(1))
							solveBoth(c, kind+":compiled", "compiled/"+sp.String(), b, cv.q,
								&fieldCircuit{In: make([]frontend.Variable, sp.n), sp: sp},
								&fieldCircuit{In: bigs(in), Exp: exp, sp: sp},
								[]frontend.Circuit{&fieldCircuit{In: bigs(in), Exp: bad.Mod(bad, cv.q), sp: sp}}, []string{"plus1"})
						})
					}
				}
			}
		}
		// Poseidon2 Merkle-Damgard on bls12-377
		cv := curve{ecc.BLS12_377, ecc.BLS12_377.ScalarField()}
		for n := 0; n <= 5; n++ {
			sp := &fspec{kind: "poseidon2", cv: cv, mode: "chunks", n: n, a: n / 2, b: n}
			for _, b := range []string{circ.R1CS, circ.SCS} {
				b := b
				jobs = append(jobs, func() {
					in := fcontent(cv, 2, sp.n)
					exp := refField(sp, in)
					bad := new(big.Int).Add(exp, big.NewInt(1))
					solveBoth(c, "poseidon2:compiled", "compiled/"+sp.String(), b, cv.q,
						&fieldCircuit{In: make([]frontend.Variable, sp.n), sp: sp},
						&fieldCircuit{In: bigs(in), Exp: exp, sp: sp},
						[]frontend.Circuit{&fieldCircuit{In: bigs(in), Exp: bad.Mod(bad, cv.q), sp: sp}}, []string{"plus1"})
				})
			}
		}
	}
	return jobs
}

var _ = hex.EncodeToString
