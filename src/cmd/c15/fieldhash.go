package main

import (
	"bytes"
	"fmt"
	"math/big"

	"github.com/consensys/gnark-crypto/accumulator/merkletree"
	"github.com/consensys/gnark-crypto/ecc"
	fiatshamir "github.com/consensys/gnark-crypto/fiat-shamir"
	gchash "github.com/consensys/gnark-crypto/hash"
	"github.com/consensys/gnark/frontend"
	"github.com/consensys/gnark/internal/verifh/c15ref"
	"github.com/consensys/gnark/internal/verifh/vh"
	"github.com/consensys/gnark/std/accumulator/merkle"
	gfs "github.com/consensys/gnark/std/fiat-shamir"
	ghash "github.com/consensys/gnark/std/hash"
	"github.com/consensys/gnark/std/hash/mimc"
	gposeidon2 "github.com/consensys/gnark/std/hash/poseidon2"
	p2perm "github.com/consensys/gnark/std/permutation/poseidon2"
	"github.com/consensys/gnark/test"
)

var mimcNative = map[ecc.ID]gchash.Hash{
	ecc.BN254: gchash.MIMC_BN254, ecc.BLS12_377: gchash.MIMC_BLS12_377, ecc.BLS12_381: gchash.MIMC_BLS12_381,
	ecc.BW6_761: gchash.MIMC_BW6_761, ecc.BW6_633: gchash.MIMC_BW6_633, ecc.BLS24_315: gchash.MIMC_BLS24_315, ecc.BLS24_317: gchash.MIMC_BLS24_317,
}

// native returns the gnark-crypto hasher for (kind, curve).
func native(kind string, id ecc.ID) gchash.StateStorer {
	switch kind {
	case "mimc":
		return mimcNative[id].New().(gchash.StateStorer)
	case "poseidon2":
		if id == ecc.BLS12_377 {
			return gchash.POSEIDON2_BLS12_377.New().(gchash.StateStorer)
		}
	}
	panic("no native " + kind + " on " + id.String())
}

func newFieldHasher(api frontend.API, kind string) (ghash.FieldHasher, error) {
	switch kind {
	case "mimc":
		h, err := mimc.NewMiMC(api)
		return &h, err
	case "poseidon2":
		return gposeidon2.NewMerkleDamgardHasher(api)
	}
	return nil, fmt.Errorf("kind %s", kind)
}

func felemBytes(cv curve, v *big.Int) []byte {
	return v.FillBytes(make([]byte, (cv.q.BitLen()+7)/8))
}

// fcontent: field-element analogue of the three byte patterns.
func fcontent(cv curve, pat, n int) []*big.Int {
	r := make([]*big.Int, n)
	for i := range r {
		switch pat {
		case 0:
			r[i] = big.NewInt(0)
		case 1:
			r[i] = new(big.Int).Sub(cv.q, big.NewInt(1))
		default:
			r[i] = new(big.Int).Mul(big.NewInt(int64(i+1)), new(big.Int).Rsh(cv.q, 3))
			r[i].Add(r[i], big.NewInt(int64(7*i+1))).Mod(r[i], cv.q)
		}
	}
	return r
}

type fspec struct {
	kind string
	cv   curve
	mode string // chunks | reset | sumcont | state
	n    int
	a, b int
}

func (s *fspec) String() string {
	return fmt.Sprintf("%s/%s/%s/n=%d/a=%d,b=%d", s.kind, s.cv.id, s.mode, s.n, s.a, s.b)
}

type fieldCircuit struct {
	In  []frontend.Variable
	Exp frontend.Variable `gnark:",public"`
	sp  *fspec
}

func (c *fieldCircuit) Define(api frontend.API) error {
	sp := c.sp
	h, err := newFieldHasher(api, sp.kind)
	if err != nil {
		return err
	}
	var res frontend.Variable
	switch sp.mode {
	case "chunks":
		h.Write(c.In[:sp.a]...)
		h.Write(c.In[sp.a:sp.b]...)
		h.Write(c.In[sp.b:]...)
		res = h.Sum()
	case "reset":
		h.Write(c.In[:sp.a]...)
		_ = h.Sum()
		h.Reset()
		h.Write(c.In...)
		res = h.Sum()
	case "sumcont":
		h.Write(c.In[:sp.a]...)
		_ = h.Sum()
		h.Write(c.In[sp.a:]...)
		res = h.Sum()
	case "state":
		ss, ok := h.(ghash.StateStorer)
		if !ok {
			return fmt.Errorf("no StateStorer")
		}
		ss.Write(c.In[:sp.a]...)
		st := ss.State()
		h2, err := newFieldHasher(api, sp.kind)
		if err != nil {
			return err
		}
		s2 := h2.(ghash.StateStorer)
		if err := s2.SetState(st); err != nil {
			return err
		}
		s2.Write(c.In[sp.a:]...)
		res = s2.Sum()
		// the first hasher must still be usable after State()
		ss.Write(c.In[sp.a:]...)
		api.AssertIsEqual(ss.Sum(), res)
	default:
		return fmt.Errorf("mode %s", sp.mode)
	}
	api.AssertIsEqual(res, c.Exp)
	return nil
}

// refField performs the same operation sequence on the native hasher.
func refField(sp *fspec, in []*big.Int) *big.Int {
	h := native(sp.kind, sp.cv.id)
	w := func(h gchash.StateStorer, xs []*big.Int) {
		for _, x := range xs {
			if _, err := h.Write(felemBytes(sp.cv, x)); err != nil {
				panic(err)
			}
		}
	}
	var out []byte
	switch sp.mode {
	case "chunks":
		w(h, in[:sp.a])
		w(h, in[sp.a:sp.b])
		w(h, in[sp.b:])
		out = h.Sum(nil)
	case "reset":
		w(h, in[:sp.a])
		_ = h.Sum(nil)
		h.Reset()
		w(h, in)
		out = h.Sum(nil)
	case "sumcont":
		w(h, in[:sp.a])
		_ = h.Sum(nil)
		w(h, in[sp.a:])
		out = h.Sum(nil)
	case "state":
		w(h, in[:sp.a])
		st := append([]byte(nil), h.State()...)
		h2 := native(sp.kind, sp.cv.id)
		if err := h2.SetState(st); err != nil {
			panic(err)
		}
		w(h2, in[sp.a:])
		out = h2.Sum(nil)
	}
	return new(big.Int).SetBytes(out)
}

func bigs(v []*big.Int) []frontend.Variable {
	r := make([]frontend.Variable, len(v))
	for i := range v {
		r[i] = new(big.Int).Set(v[i])
	}
	return r
}

func hexs(v []*big.Int) []string {
	r := make([]string, len(v))
	for i := range v {
		r[i] = v[i].Text(16)
	}
	return r
}

// both runs circuit/assignment in the test engine with the expected value (must solve) and
// with expected+1 (must fail); mk builds the assignment from the expected value.
func both(c *vh.Check, fam, key string, cv curve, circuit frontend.Circuit, mk func(exp *big.Int) frontend.Circuit, exp *big.Int, detail map[string]any) {
	err := test.IsSolved(circuit, mk(exp), cv.q)
	c.Evals.Add(1)
	c.Traces.Add(1)
	c.Count(fam, "accept-side", 1)
	if err != nil {
		c.Outcome(fam + ":ref-rejected")
		detail["what"] = "the native reference value is rejected by the circuit"
		detail["expected"] = exp.Text(16)
		detail["error"] = short(err)
		c.Violation(key+"/engine", detail)
		return
	}
	c.Outcome(fam + ":ref-accepted")
	bad := new(big.Int).Add(exp, big.NewInt(1))
	bad.Mod(bad, cv.q)
	err = test.IsSolved(circuit, mk(bad), cv.q)
	c.Evals.Add(1)
	c.Count(fam, "reject-side", 1)
	if err == nil {
		c.Outcome(fam + ":wrong-value-accepted")
		detail["what"] = "reference+1 is accepted"
		c.Violation(key+"/engine/plus1", detail)
		return
	}
	c.Outcome(fam + ":wrong-value-" + errClass(err))
}

func runField(c *vh.Check, sp *fspec, pat int) {
	in := fcontent(sp.cv, pat, sp.n)
	exp := refField(sp, in)
	circuit := &fieldCircuit{In: make([]frontend.Variable, sp.n), sp: sp}
	both(c, sp.kind+":"+sp.mode, fmt.Sprintf("%s/%s", sp, contentName[pat]), sp.cv, circuit,
		func(e *big.Int) frontend.Circuit { return &fieldCircuit{In: bigs(in), Exp: e, sp: sp} }, exp,
		map[string]any{"inputs": hexs(in)})
}

// ---- Poseidon2 permutation (widths 2 and 3) and Compress on every curve

type permCircuit struct {
	In  []frontend.Variable
	Exp []frontend.Variable `gnark:",public"`
	sp  *pspec
}
type pspec struct {
	cv       curve
	t        int
	rf, rp   int
	compress bool
}

func (c *permCircuit) Define(api frontend.API) error {
	p, err := p2perm.NewPoseidon2FromParameters(api, c.sp.t, c.sp.rf, c.sp.rp)
	if err != nil {
		return err
	}
	if c.sp.compress {
		api.AssertIsEqual(p.Compress(c.In[0], c.In[1]), c.Exp[0])
		return nil
	}
	st := append([]frontend.Variable(nil), c.In...)
	if err := p.Permutation(st); err != nil {
		return err
	}
	for i := range st {
		api.AssertIsEqual(st[i], c.Exp[i])
	}
	return nil
}

func runPerm(c *vh.Check, sp *pspec, pat int) {
	in := fcontent(sp.cv, pat, sp.t)
	out, err := c15ref.Permute(sp.cv.id, sp.t, sp.rf, sp.rp, in)
	if err != nil {
		c.Fatal("native poseidon2: %v", err)
	}
	exp := out
	fam := "poseidon2-permutation"
	if sp.compress {
		// Compress = right lane of the permutation + right input (feed forward)
		e := new(big.Int).Add(out[1], in[1])
		e.Mod(e, sp.cv.q)
		exp = []*big.Int{e}
		fam = "poseidon2-compress"
	}
	circuit := &permCircuit{In: make([]frontend.Variable, sp.t), Exp: make([]frontend.Variable, len(exp)), sp: sp}
	key := fmt.Sprintf("%s/%s/t=%d/rf=%d/rp=%d/%s", fam, sp.cv.id, sp.t, sp.rf, sp.rp, contentName[pat])
	both(c, fam, key, sp.cv, circuit, func(e *big.Int) frontend.Circuit {
		ex := bigs(exp)
		ex[len(ex)-1] = e
		return &permCircuit{In: bigs(in), Exp: ex, sp: sp}
	}, exp[len(exp)-1], map[string]any{"inputs": hexs(in)})
}

// ---- Merkle proofs

type merkleCircuit struct {
	Root frontend.Variable `gnark:",public"`
	Path []frontend.Variable
	Leaf frontend.Variable
	sp   *mspec
}
type mspec struct {
	kind  string
	cv    curve
	depth int
}

func (c *merkleCircuit) Define(api frontend.API) error {
	h, err := newFieldHasher(api, c.sp.kind)
	if err != nil {
		return err
	}
	mp := merkle.MerkleProof{RootHash: c.Root, Path: c.Path}
	mp.VerifyProof(api, h, c.Leaf)
	return nil
}

func runMerkle(c *vh.Check, sp *mspec, pat int, allWrong bool) {
	n := 1 << sp.depth
	leaves := fcontent(sp.cv, pat, n)
	switch pat {
	case 0: // identical leaves would make every index valid: small distinct values
		for i := range leaves {
			leaves[i] = big.NewInt(int64(i))
		}
	case 1: // distinct values at the top of the field
		for i := range leaves {
			leaves[i] = new(big.Int).Sub(sp.cv.q, big.NewInt(int64(i+1)))
		}
	}
	seg := (sp.cv.q.BitLen() + 7) / 8
	var data bytes.Buffer
	for _, l := range leaves {
		data.Write(felemBytes(sp.cv, l))
	}
	fam := "merkle:" + sp.kind
	circuit := &merkleCircuit{Path: make([]frontend.Variable, sp.depth+1), sp: sp}
	for idx := 0; idx < n; idx++ {
		hn := native(sp.kind, sp.cv.id)
		root, path, nl, err := merkletree.BuildReaderProof(bytes.NewReader(data.Bytes()), hn, seg, uint64(idx))
		if err != nil {
			c.Fatal("merkletree: %v", err)
		}
		if !merkletree.VerifyProof(hn, root, path, uint64(idx), nl) || len(path) != sp.depth+1 {
			c.Fatal("native merkle proof invalid (depth %d idx %d len %d)", sp.depth, idx, len(path))
		}
		mk := func(root []byte, leaf int) frontend.Circuit {
			a := &merkleCircuit{Root: new(big.Int).SetBytes(root), Path: make([]frontend.Variable, len(path)), Leaf: leaf, sp: sp}
			for i := range path {
				a.Path[i] = new(big.Int).SetBytes(path[i])
			}
			return a
		}
		key := fmt.Sprintf("merkle/%s/%s/depth=%d/%s/leaf=%d", sp.kind, sp.cv.id, sp.depth, contentName[pat], idx)
		err = test.IsSolved(circuit, mk(root, idx), sp.cv.q)
		c.Evals.Add(1)
		c.Traces.Add(1)
		c.Count(fam, "valid-proofs", 1)
		if err != nil {
			c.Outcome(fam + ":valid-proof-rejected")
			c.Violation(key, map[string]any{"what": "native Merkle proof rejected in circuit", "error": short(err)})
			continue
		}
		c.Outcome(fam + ":valid-proof-accepted")
		// every other leaf index with the same path must be rejected, and so must a wrong root
		for w := 0; w < n; w++ {
			if w == idx || !allWrong && w != idx^1 && w != n-1-idx {
				continue
			}
			err := test.IsSolved(circuit, mk(root, w), sp.cv.q)
			c.Evals.Add(1)
			c.Count(fam, "wrong-index", 1)
			if err == nil {
				c.Outcome(fam + ":wrong-index-accepted")
				c.Violation(fmt.Sprintf("%s/as-index=%d", key, w), map[string]any{"what": "proof for leaf idx accepted at another index"})
			} else {
				c.Outcome(fam + ":wrong-index-" + errClass(err))
			}
		}
		badRoot := append([]byte(nil), root...)
		badRoot[len(badRoot)-1] ^= 1
		err = test.IsSolved(circuit, mk(badRoot, idx), sp.cv.q)
		c.Evals.Add(1)
		c.Count(fam, "wrong-root", 1)
		if err == nil {
			c.Outcome(fam + ":wrong-root-accepted")
			c.Violation(key+"/wrong-root", map[string]any{"what": "wrong root accepted"})
		} else {
			c.Outcome(fam + ":wrong-root-" + errClass(err))
		}
	}
}

// ---- Fiat-Shamir transcripts

var fsNames = []string{"alpha", "beta", "gamma"}

type fsCircuit struct {
	Bind [][]frontend.Variable
	Exp  []frontend.Variable `gnark:",public"`
	sp   *fsspec
}
type fsspec struct {
	kind string
	cv   curve
	nb   []int // bindings per challenge
	// split: bind the values of challenge i in two Bind calls (first k, then the rest)
	split bool
}

func (c *fsCircuit) Define(api frontend.API) error {
	h, err := newFieldHasher(api, c.sp.kind)
	if err != nil {
		return err
	}
	names := fsNames[:len(c.sp.nb)]
	ts := gfs.NewTranscript(api, h, names)
	for i, n := range names {
		b := c.Bind[i]
		if c.sp.split && len(b) > 1 {
			if err := ts.Bind(n, b[:1]); err != nil {
				return err
			}
			b = b[1:]
		}
		if err := ts.Bind(n, b); err != nil {
			return err
		}
	}
	for i, n := range names {
		ch, err := ts.ComputeChallenge(n)
		if err != nil {
			return err
		}
		api.AssertIsEqual(ch, c.Exp[i])
		// asking again returns the same value
		ch2, err := ts.ComputeChallenge(n)
		if err != nil {
			return err
		}
		api.AssertIsEqual(ch2, ch)
	}
	return nil
}

func runFS(c *vh.Check, sp *fsspec, pat int) {
	names := fsNames[:len(sp.nb)]
	ts := fiatshamir.NewTranscript(native(sp.kind, sp.cv.id), names...)
	binds := make([][]*big.Int, len(names))
	tot := 0
	for _, n := range sp.nb {
		tot += n
	}
	all := fcontent(sp.cv, pat, tot)
	for i, n := range names {
		binds[i] = all[:sp.nb[i]]
		all = all[sp.nb[i]:]
		for _, v := range binds[i] {
			if err := ts.Bind(n, felemBytes(sp.cv, v)); err != nil {
				c.Fatal("native fs bind: %v", err)
			}
		}
	}
	exp := make([]*big.Int, len(names))
	for i, n := range names {
		b, err := ts.ComputeChallenge(n)
		if err != nil {
			c.Fatal("native fs: %v", err)
		}
		exp[i] = new(big.Int).SetBytes(b)
	}
	circuit := &fsCircuit{Bind: make([][]frontend.Variable, len(names)), Exp: make([]frontend.Variable, len(names)), sp: sp}
	for i := range names {
		circuit.Bind[i] = make([]frontend.Variable, sp.nb[i])
	}
	fam := "fiat-shamir:" + sp.kind
	key := fmt.Sprintf("fiat-shamir/%s/%s/bindings=%v/split=%v/%s", sp.kind, sp.cv.id, sp.nb, sp.split, contentName[pat])
	// the flipped direction alters the LAST challenge, which depends on all previous ones
	both(c, fam, key, sp.cv, circuit, func(e *big.Int) frontend.Circuit {
		a := &fsCircuit{Bind: make([][]frontend.Variable, len(names)), Exp: bigs(exp), sp: sp}
		for i := range names {
			a.Bind[i] = bigs(binds[i])
		}
		a.Exp[len(exp)-1] = e
		return a
	}, exp[len(exp)-1], map[string]any{"bindings": fmt.Sprint(binds)})
}

// ---- job list

func fieldJobs(c *vh.Check) []job {
	var jobs []job
	cvs := allCurves
	sampled := false
	for _, kind := range []string{"mimc", "poseidon2"} {
		for _, cv := range cvs {
			if kind == "poseidon2" && cv.id != ecc.BLS12_377 {
				continue // the Merkle-Damgard Poseidon2 hasher has default parameters on BLS12-377 only
			}
			if !c.Want("field:" + kind) {
				continue
			}
			kind, cv := kind, cv
			// lengths 0..5, all chunkings into <= 3 writes, 3 contents
			for n := 0; n <= 5; n++ {
				for a := 0; a <= n; a++ {
					for b := a; b <= n; b++ {
						for pat := 0; pat < 3; pat++ {
							sp := &fspec{kind: kind, cv: cv, mode: "chunks", n: n, a: a, b: b}
							pat := pat
							jobs = append(jobs, func() { runField(c, sp, pat) })
						}
					}
				}
				// Reset after every junk prefix; Sum in the middle at every position; State/SetState at every position
				for a := 0; a <= n; a++ {
					modes := []string{"reset", "sumcont"}
					if kind == "mimc" {
						modes = append(modes, "state")
					}
					for _, m := range modes {
						for pat := 1; pat < 3; pat++ {
							sp := &fspec{kind: kind, cv: cv, mode: m, n: n, a: a}
							pat := pat
							jobs = append(jobs, func() { runField(c, sp, pat) })
						}
					}
				}
			}
			if !sampled {
				sampled = true
				sp := &fspec{kind: kind, cv: cv, mode: "chunks", n: 3, a: 1, b: 2}
				in := fcontent(cv, 2, 3)
				c.Sample(map[string]any{"gadget": kind, "curve": cv.id.String(), "case": sp.String(), "inputs": hexs(in), "reference_digest": refField(sp, in).Text(16)})
			}
			// Merkle proofs: depth 1..4, every leaf index
			if c.Want("field:merkle") {
				for d := 1; d <= 4; d++ {
					for pat := 0; pat < 3; pat++ {
						if c.Quick() && pat == 1 {
							continue
						}
						sp := &mspec{kind: kind, cv: cv, depth: d}
						pat := pat
						allWrong := !c.Quick() || cv.id == ecc.BN254 || cv.id == ecc.BLS12_377
						jobs = append(jobs, func() { runMerkle(c, sp, pat, allWrong) })
					}
				}
			}
			// Fiat-Shamir: 1..3 challenges x 0..3 bindings each
			if c.Want("field:fs") {
				for nch := 1; nch <= 3; nch++ {
					total := 1
					for i := 0; i < nch; i++ {
						total *= 4
					}
					for code := 0; code < total; code++ {
						nb := make([]int, nch)
						x := code
						for i := range nb {
							nb[i] = x % 4
							x /= 4
						}
						for pat := 0; pat < 3; pat++ {
							if c.Quick() && pat != 2 && cv.id != ecc.BN254 && cv.id != ecc.BLS12_377 {
								continue
							}
							for _, split := range []bool{false, true} {
								if split && (pat != 2 || c.Quick() && cv.id != ecc.BN254) {
									continue
								}
								sp := &fsspec{kind: kind, cv: cv, nb: nb, split: split}
								pat := pat
								jobs = append(jobs, func() { runFS(c, sp, pat) })
							}
						}
					}
				}
			}
		}
	}
	// Poseidon2 permutation on every curve, widths 2 and 3, default and a second round configuration
	if c.Want("field:perm") {
		for _, cv := range cvs {
			rf, rp := c15ref.DefaultRounds(cv.id)
			for _, cfg := range [][3]int{{2, rf, rp}, {3, rf, rp}, {2, 8, 3}, {3, 4, 1}} {
				for pat := 0; pat < 3; pat++ {
					sp := &pspec{cv: cv, t: cfg[0], rf: cfg[1], rp: cfg[2]}
					pat := pat
					jobs = append(jobs, func() { runPerm(c, sp, pat) })
					if cfg[0] == 2 {
						sp2 := &pspec{cv: cv, t: 2, rf: cfg[1], rp: cfg[2], compress: true}
						jobs = append(jobs, func() { runPerm(c, sp2, pat) })
					}
				}
			}
		}
	}
	return jobs
}
