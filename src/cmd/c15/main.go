// C15: in-circuit hash gadgets equal their native references for all messages.
//
// Bounded-exhaustive sweep: every message length from 0 to two blocks + 1 for every gadget,
// every (declared maximum, actual length) pair of the variable-length variants, every chunking
// of the writes into <= 3 chunks (small lengths and around the block boundaries), Reset /
// State / SetState round trips, Merkle proofs of depth 1..4 at every leaf index, Fiat-Shamir
// transcripts with 1..3 challenges x 0..3 bindings; test engine for the whole sweep and
// compile + solve (both builders, bn254) for every padding-boundary length.
package main

import (
	"encoding/hex"
	"fmt"
	"math/big"
	"runtime/debug"
	"sort"
	"strings"
	"sync"

	"github.com/consensys/gnark-crypto/ecc"
	"github.com/consensys/gnark/internal/verifh/vh"
	"github.com/consensys/gnark/logger"
	"github.com/consensys/gnark/test"
)

type curve struct {
	id ecc.ID
	q  *big.Int
}

func curves(ids ...ecc.ID) []curve {
	var r []curve
	for _, id := range ids {
		r = append(r, curve{id, id.ScalarField()})
	}
	return r
}

var allCurves = curves(ecc.BN254, ecc.BLS12_377, ecc.BLS12_381, ecc.BW6_761, ecc.BW6_633, ecc.BLS24_315, ecc.BLS24_317)

// short error class for outcome strings
func errClass(err error) string {
	if err == nil {
		return "solved"
	}
	s := err.Error()
	if i := strings.IndexByte(s, '\n'); i >= 0 {
		s = s[:i]
	}
	switch {
	case strings.Contains(s, "[assertIsEqual]"), strings.Contains(s, "!="):
		return "assert-fail"
	case strings.Contains(s, "define:"):
		return "define-error"
	}
	return "other-error"
}

func short(err error) string {
	if err == nil {
		return ""
	}
	s := err.Error()
	if i := strings.IndexByte(s, '\n'); i >= 0 {
		s = s[:i]
	}
	if len(s) > 300 {
		s = s[:300]
	}
	return s
}

// wantGroup: -only bytes, -only bytes:sha256, ... select the group
func wantGroup(c *vh.Check, g string) bool {
	if c.Only == "" {
		return true
	}
	for _, s := range strings.Split(c.Only, ",") {
		if s == g || strings.HasPrefix(s, g+":") {
			return true
		}
	}
	return false
}

// one work item of the test-engine sweep
type job func()

func main() {
	c := vh.New("C15")
	logger.Disable()
	debug.SetGCPercent(200)
	debug.SetMemoryLimit(28 << 30)
	c.Rule("a case = (gadget, native field, mode, written length L, actual length l, option / chunk cuts / junk length, content pattern). Every case is executed by the real gadget code (test engine: many cases per execution, every digest handed out through a hint call and compared natively; compile + Solve with r1cs and scs on bn254 for the padding-boundary lengths) against the native reference (crypto/sha256, x/crypto sha3 / ripemd160, gnark-crypto MiMC / Poseidon2 / merkletree / fiat-shamir); the reference digest must be accepted and a digest with one flipped bit rejected. thorough: every length 0..two blocks+1 of every byte gadget x 3 contents, every (L, l<=L) pair of sha256 FixedLengthSum and of the sponges for the boundary L, WithMinimalLength over boundary minima, every chunking into <=3 writes for l<=9 and over the cut alphabet around the blocks, Reset round trips, all 7 native fields. quick: the same enumeration restricted as listed in notes (all lengths for sha256, padding-branch lengths for the other gadgets; the five sponges share one implementation, keccak256 and sha3-512 are swept as primary). Field hashers (MiMC on 7 curves, Poseidon2 Merkle-Damgard on bls12-377, Poseidon2 permutation/compress on 7 curves): lengths 0..5 x every chunking x Reset / intermediate Sum / State+SetState at every position; Merkle depth 1..4 x every leaf index (+ every wrong index, wrong root); Fiat-Shamir 1..3 challenges x 0..3 bindings each. distinct = (gadget, mode, verdict).")
	c.Assume("contents are three fixed patterns per length (zeros, 0xff.., incrementing); byte/word primitives under the round functions are covered by C14",
		"the native references are correct")

	var fjobs, bjobs, cjobs []job
	if wantGroup(c, "compiled") {
		cjobs = compiledJobs(c)
	}
	if wantGroup(c, "field") {
		fjobs = fieldJobs(c)
	}
	if wantGroup(c, "bytes") {
		bjobs = byteJobs(c)
	}
	c.Extra("test_engine_jobs", len(fjobs)+len(bjobs))
	c.Extra("compiled_jobs", len(cjobs))
	// phase A: compiled systems (6 at a time, 1-3 GB each) next to the cheap field-hash sweep.
	// They must not run next to the byte-gadget batches: those keep GBs of big.Int alive and
	// the allocation-heavy compiler would spend its time assisting the garbage collector.
	var wg sync.WaitGroup
	wg.Add(1)
	go func() {
		defer wg.Done()
		if !vh.ParN(len(cjobs), 6, func(i int) bool {
			if c.Expired() {
				return false
			}
			cjobs[i]()
			return true
		}) {
			c.Cap("internal deadline before all compiled systems were built and solved")
		}
	}()
	if !vh.ParN(len(fjobs), 10, func(i int) bool {
		if c.Expired() {
			return false
		}
		fjobs[i]()
		return true
	}) {
		c.Cap("internal deadline during the field-hash sweep")
	}
	wg.Wait()
	// phase B: byte gadgets in the test engine
	if !c.Par(len(bjobs), func(i int) { bjobs[i]() }) {
		c.Cap("internal deadline during the byte-gadget test-engine sweep")
	}
	c.Finish()
}

// runAsserting runs one byte-gadget case with the asserting circuit in the test engine:
// the reference digest must be accepted, a digest with one flipped bit must be rejected.
func runAsserting(c *vh.Check, cv curve, k bcase) {
	sp := k.sp
	in := content(k.pat, sp.L)
	exp := refDigest(sp.g, in[:k.l])
	circuit := newByteCircuit(sp)
	key := fmt.Sprintf("%s/%s/engine-assert", k.key(), cv.id)
	fam := sp.g.name + ":" + sp.mode
	err := test.IsSolved(circuit, assignByte(sp, in, k.l, exp), cv.q)
	c.Evals.Add(1)
	c.Traces.Add(1)
	c.Count(fam, "asserting-accept-side", 1)
	if err != nil {
		c.Outcome(fam + ":ref-digest-rejected")
		c.Violation(key, map[string]any{"what": "the native reference digest is rejected by the circuit", "msg": hex.EncodeToString(in[:k.l]), "written": sp.L, "expected": hex.EncodeToString(exp), "error": short(err)})
		return
	}
	c.Outcome(fam + ":ref-digest-accepted")
	bad := flip(exp, k.l+k.pat)
	err = test.IsSolved(circuit, assignByte(sp, in, k.l, bad), cv.q)
	c.Evals.Add(1)
	c.Count(fam, "asserting-reject-side", 1)
	if err == nil {
		c.Outcome(fam + ":flipped-digest-accepted")
		c.Violation(key+"/flipped", map[string]any{"what": "a digest with one flipped bit is accepted", "msg": hex.EncodeToString(in[:k.l]), "bad": hex.EncodeToString(bad)})
	} else {
		c.Outcome(fam + ":flipped-digest-" + errClass(err))
	}
}

// runBatch executes all cases of the batch in one test-engine run and judges every captured
// digest; when the execution itself fails the batch is bisected down to the failing case(s).
func runBatch(c *vh.Check, b *batch) {
	err := test.IsSolved(b.circuit(), b.assignment(), b.cv.q)
	c.Evals.Add(1)
	if err != nil {
		if len(b.cases) == 1 {
			k := b.cases[0]
			fam := k.sp.g.name + ":" + k.sp.mode
			c.Outcome(fam + ":gadget-failed")
			c.Violation(k.key()+"/"+b.cv.id.String()+"/engine", map[string]any{"what": "the gadget does not execute on an in-domain input", "error": short(err), "msg": hex.EncodeToString(content(k.pat, k.sp.L)[:k.l])})
			return
		}
		if c.Expired() || c.NViolations() >= 40 {
			c.Cap(fmt.Sprintf("failing batch of %d cases starting at %s not bisected (deadline / enough violations)", len(b.cases), b.cases[0].key()))
			return
		}
		h := len(b.cases) / 2
		runBatch(c, &batch{cv: b.cv, cases: b.cases[:h]})
		runBatch(c, &batch{cv: b.cv, cases: b.cases[h:]})
		return
	}
	for i, k := range b.cases {
		fam := k.sp.g.name + ":" + k.sp.mode
		in := content(k.pat, k.sp.L)
		exp := refDigest(k.sp.g, in[:k.l])
		c.Traces.Add(1)
		c.Count(fam, "digests-compared", 1)
		if b.out[i] == nil {
			c.Fatal("digest of %s not captured", k.key())
		}
		if hex.EncodeToString(b.out[i]) == hex.EncodeToString(exp) {
			c.Outcome(fam + ":digest-equal")
			continue
		}
		c.Outcome(fam + ":digest-differs")
		c.Violation(k.key()+"/"+b.cv.id.String()+"/engine", map[string]any{"what": "gadget digest differs from the native reference", "msg": hex.EncodeToString(in[:k.l]), "written_bytes": hex.EncodeToString(in), "got": hex.EncodeToString(b.out[i]), "want": hex.EncodeToString(exp)})
	}
}

// batchWeight: cost units per test-engine execution (MD block = 1, sponge permutation = 3);
// one execution costs 1.5-3 s whatever it contains (2^16-entry tables), a unit ~0.2 s.
const batchWeight = 40

func stride(max, step, off int, also []int) []int {
	set := map[int]bool{}
	for _, v := range also {
		if v >= 0 && v <= max {
			set[v] = true
		}
	}
	for v := off; v <= max; v += step {
		set[v] = true
	}
	var r []int
	for v := 0; v <= max; v++ {
		if set[v] {
			r = append(r, v)
		}
	}
	return r
}

func seq(lo, hi int) []int {
	var r []int
	for v := lo; v <= hi; v++ {
		r = append(r, v)
	}
	return r
}

func byteJobs(c *vh.Check) []job {
	var jobs []job
	perCurve := map[ecc.ID][]bcase{}
	var order []curve
	add := func(cv curve, sp *bspec, l, pat int) {
		if _, ok := perCurve[cv.id]; !ok {
			order = append(order, cv)
		}
		perCurve[cv.id] = append(perCurve[cv.id], bcase{sp, l, pat})
	}
	bn := allCurves[0]
	others := allCurves[1:2]
	if !c.Quick() {
		others = allCurves[1:]
	}
	q := c.Quick()
	for _, g := range gadgets {
		if !c.Want("bytes:" + g.name) {
			continue
		}
		md := g.block == 64
		r, ov := g.block, g.padOverhead()
		bnd := g.boundaries(g.maxLen)
		isB := map[int]bool{}
		for _, b := range bnd {
			isB[b] = true
		}
		// (1) message lengths 0..two blocks+1.  Every length with the incrementing content; the
		// zero / 0xff contents at the boundary lengths (quick) or everywhere (thorough).  Quick tier,
		// sponges other than sha3-512: boundary lengths and every 13th length (cost: 0.6 core-s per permutation).
		// The five sponges are one implementation with parameters (domain byte, rate, output size):
		// quick treats keccak256 and sha3-512 as primary and sweeps the padding branches only on the others.
		primary := md || g.name == "keccak256" || g.name == "sha3-512"
		lens := seq(0, g.maxLen)
		if q && g.name != "sha256" {
			switch {
			case md:
				lens = bnd
			case primary:
				lens = bnd
			default:
				lens = []int{r - 1, r}
			}
			c.Note(g.name + ": quick tier sweeps " + fmt.Sprint(len(lens)) + " lengths around every padding branch (all lengths 0.." + fmt.Sprint(g.maxLen) + " in thorough)")
		}
		for _, l := range lens {
			add(bn, &bspec{g: g, mode: "sum", L: l}, l, 2)
			if !q || g.name == "sha256" && isB[l] || primary && !md && (l == r-1 || l == r) {
				add(bn, &bspec{g: g, mode: "sum", L: l}, l, 0)
				add(bn, &bspec{g: g, mode: "sum", L: l}, l, 1)
			}
		}
		// other native fields: boundary lengths; thorough: all lengths for the MD hashes
		for _, cv := range others {
			ol := bnd
			if q {
				ol = uniq(r-ov, r)
				if !primary {
					ol = nil
				}
			} else if g.name == "sha256" && cv.id == ecc.BLS12_377 {
				ol = seq(0, g.maxLen)
			}
			for _, l := range ol {
				add(cv, &bspec{g: g, mode: "sum", L: l}, l, 2)
			}
		}
		// asserting circuit, both directions
		ab := bnd
		if q {
			ab = []int{r - ov}
			if !primary {
				ab = nil
			}
		}
		for _, l := range ab {
			k := bcase{&bspec{g: g, mode: "sum", L: l}, l, 2}
			jobs = append(jobs, func() { runAsserting(c, bn, k) })
		}
		// (2) chunkings into <= 3 writes: all 0<=a<=b<=l for small l; cut alphabet around the blocks
		small := 9
		if q {
			small = 2
			if g.name == "sha256" {
				small = 4
			}
			if !md {
				small = 1
				if !primary {
					small = 0
				}
			}
			c.Note(fmt.Sprintf("%s: quick tier enumerates all chunkings for l<=%d (l<=9 in thorough)", g.name, small))
		}
		for l := 0; l <= small; l++ {
			for a := 0; a <= l; a++ {
				for b := a; b <= l; b++ {
					add(bn, &bspec{g: g, mode: "chunks", L: l, cuts: [2]int{a, b}}, l, 2)
				}
			}
		}
		cl := []int{r - 1, r, r + 1, 2 * r, 2*r + 1}
		if q {
			cl = nil
			if g.name == "sha256" {
				cl = []int{r + 1}
			}
		}
		for _, l := range cl {
			cutset := map[int]bool{}
			alphabet := []int{0, 1, r - ov, r - 1, r, r + 1, 2*r - 1, 2 * r, l - 1, l}
			if q {
				alphabet = []int{0, r, l}
			}
			for _, v := range alphabet {
				if v >= 0 && v <= l {
					cutset[v] = true
				}
			}
			for a := 0; a <= l; a++ {
				for b := a; b <= l; b++ {
					if cutset[a] && cutset[b] {
						add(bn, &bspec{g: g, mode: "chunks", L: l, cuts: [2]int{a, b}}, l, 2)
					}
				}
			}
		}
		// (3) Reset round trip: junk written and summed, Reset, message
		rl := bnd
		if q {
			rl = nil
			if primary {
				rl = []int{r}
			}
		}
		for _, l := range rl {
			js := uniq(0, 1, l/2, l)
			if q {
				js = uniq(l)
			}
			for _, j := range js {
				if j > l {
					continue
				}
				add(bn, &bspec{g: g, mode: "reset", L: l, junk: j}, l, 2)
			}
		}
		// (3') every gadget, both tiers: a SHORT prefix of a long caller buffer is written and summed (the
		// gadget pads its internal buffer), then Reset and the whole buffer: a gadget that keeps the
		// caller's slice instead of a copy pads INTO the caller's message
		for _, j := range []int{1, r - 1} {
			add(bn, &bspec{g: g, mode: "reset", L: 2*r + 3, junk: j}, 2*r+3, 2)
		}
		// (4) FixedLengthSum: (declared maximum L = bytes written, actual l <= L)
		if g.fixed {
			two := 2 * r
			type fl struct {
				L  int
				ls []int
			}
			var plan []fl
			bl := func(L int) []int { // boundary lengths <= L
				var v []int
				for _, b := range g.boundaries(L) {
					v = append(v, b)
				}
				return v
			}
			switch {
			case g.name == "sha256" && !q:
				for L := 1; L <= two; L++ {
					plan = append(plan, fl{L, seq(0, L)})
				}
			case g.name == "sha256":
				plan = []fl{{56, uniq(0, 55, 56)}, {65, seq(0, 65)}, {128, uniq(55, 64, 119, 120, 128)}}
			case !q:
				for _, L := range g.boundaries(two) {
					if L == 0 {
						continue
					}
					if L == r-1 || L == r || L == r+1 || L == two {
						plan = append(plan, fl{L, seq(0, L)})
					} else {
						plan = append(plan, fl{L, bl(L)})
					}
				}
			case primary:
				plan = []fl{{r + 1, bl(r + 1)}, {two, uniq(r, two)}}
			default:
				plan = []fl{{r + 1, uniq(r-1, r)}}
			}
			if q {
				c.Note(g.name + ": quick tier takes a boundary subset of the declared maximum lengths of FixedLengthSum")
			}
			npairs := 0
			for _, p := range plan {
				for _, l := range p.ls {
					add(bn, &bspec{g: g, mode: "fixed", L: p.L}, l, 2)
					npairs++
					if isB[l] && isB[p.L] && !q {
						add(bn, &bspec{g: g, mode: "fixed", L: p.L}, l, 0)
						add(bn, &bspec{g: g, mode: "fixed", L: p.L}, l, 1)
					}
				}
			}
			// WithMinimalLength(m): boundary m <= L; l in [m, L] over boundaries, m, m+1
			var mplan []int
			if q {
				mplan = []int{r + 1}
				if g.name == "sha256" {
					mplan = []int{65}
				}
			} else {
				for _, L := range g.boundaries(two) {
					if L > 0 {
						mplan = append(mplan, L)
					}
				}
			}
			for _, L := range mplan {
				for _, m := range g.boundaries(L) {
					if m == 0 || q && !md && m != 1 && m != r-1 && m != r+1 || q && !primary {
						continue
					}
					for l := m; l <= L; l++ {
						if !isB[l] && l != m && l != m+1 {
							continue
						}
						if q && !md && l != m && l != L {
							continue
						}
						add(bn, &bspec{g: g, mode: "fixed", L: L, minLen: m}, l, 2)
						npairs++
					}
				}
			}
			if !q || primary {
				k := bcase{&bspec{g: g, mode: "fixed", L: r + 1}, r - ov, 2}
				jobs = append(jobs, func() { runAsserting(c, bn, k) })
			}
			c.Count(g.name+":fixed", "declared-max-lengths", int64(len(plan)))
			c.Count(g.name+":fixed", "(L,min,l) triples", int64(npairs))
		}
		m := content(2, r-ov)
		c.Sample(map[string]any{"gadget": g.name, "mode": "sum", "len": len(m), "msg": hex.EncodeToString(m), "reference_digest": hex.EncodeToString(refDigest(g, m))})
	}
	// batches of about batchWeight cost units, same curve
	nb := 0
	for _, cv := range order {
		cases := perCurve[cv.id]
		// all gadgets' plain length sweeps first, then FixedLengthSum, then chunkings / Reset, then
		// WithMinimalLength: a deadline cuts the tail of the list, not whole gadgets
		rank := func(k bcase) int {
			switch {
			case k.sp.mode == "sum":
				return 0
			case k.sp.mode == "fixed" && k.sp.minLen == 0:
				return 1
			case k.sp.mode == "fixed":
				return 3
			}
			return 2
		}
		sort.SliceStable(cases, func(i, j int) bool { return rank(cases[i]) < rank(cases[j]) })
		c.Count("bytes", "cases:"+cv.id.String(), int64(len(cases)))
		var cur []bcase
		w := 0
		flush := func() {
			if len(cur) == 0 {
				return
			}
			b := &batch{cv: cv, cases: cur}
			jobs = append(jobs, func() { runBatch(c, b) })
			nb++
			cur, w = nil, 0
		}
		for _, k := range cases {
			cur = append(cur, k)
			w += k.weight()
			c.Count("bytes", "cost-units", int64(k.weight()))
			if w >= batchWeight {
				flush()
			}
		}
		flush()
	}
	c.Count("bytes", "batches", int64(nb))
	return jobs
}

func uniq(v ...int) []int {
	seen := map[int]bool{}
	var r []int
	for _, x := range v {
		if !seen[x] {
			seen[x] = true
			r = append(r, x)
		}
	}
	return r
}

