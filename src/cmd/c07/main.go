// C07: witness values bind to the circuit variables they were assigned to.  Every circuit
// struct SHAPE of a bounded grammar (tools/shapegen.py writes the Go source and, from the
// documented rules, the expected leaf order) x assignment value types x fields.
package main

import (
	"bytes"
	"fmt"
	"github.com/consensys/gnark-crypto/field/babybear"
	"github.com/consensys/gnark-crypto/field/koalabear"
	"hash/fnv"
	"math/big"
	"reflect"
	"regexp"
	"sort"
	"strings"

	"github.com/consensys/gnark-crypto/ecc"
	fr_bn254 "github.com/consensys/gnark-crypto/ecc/bn254/fr"
	"github.com/consensys/gnark/backend/witness"
	"github.com/consensys/gnark/frontend"
	"github.com/consensys/gnark/frontend/schema"
	"github.com/consensys/gnark/internal/verifh/c07shapes"
	"github.com/consensys/gnark/internal/verifh/circ"
	"github.com/consensys/gnark/internal/verifh/refsolve"
	"github.com/consensys/gnark/internal/verifh/vh"
	"github.com/consensys/gnark/logger"
)

var tVar = reflect.ValueOf(struct{ A frontend.Variable }{}).FieldByName("A").Type()

type valueKind struct {
	name string
	mk   func(v int64, p *big.Int) any
}

func valueKinds() []valueKind {
	return []valueKind{
		{"int", func(v int64, p *big.Int) any { return int(v) }},
		{"uint64", func(v int64, p *big.Int) any { return uint64(v) }},
		{"negative-int", func(v int64, p *big.Int) any {
			if p.IsInt64() {
				return int(v - p.Int64())
			}
			return new(big.Int).Sub(big.NewInt(v), p) // v - p as a negative big integer
		}},
		{"*big.Int", func(v int64, p *big.Int) any { return big.NewInt(v) }},
		{"big.Int", func(v int64, p *big.Int) any { return *big.NewInt(v) }},
		{"decimal-string", func(v int64, p *big.Int) any { return fmt.Sprint(v) }},
		{"hex-string", func(v int64, p *big.Int) any { return fmt.Sprintf("0x%x", v) }},
		{"over-modulus-string", func(v int64, p *big.Int) any { return new(big.Int).Add(big.NewInt(v), p).String() }},
		{"over-modulus-big", func(v int64, p *big.Int) any { return new(big.Int).Add(big.NewInt(v), new(big.Int).Lsh(p, 1)) }},
		{"bytes", func(v int64, p *big.Int) any { return big.NewInt(v).Bytes() }},
		{"fr.Element(bn254)", func(v int64, p *big.Int) any {
			if p.Cmp(ecc.BN254.ScalarField()) != 0 {
				return int(v)
			}
			var e fr_bn254.Element
			e.SetInt64(v)
			return e
		}},
	}
}

func main() {
	c := vh.New("C07")
	logger.Disable()
	c.Rule(fmt.Sprintf("%d circuit-struct shapes enumerated by tools/shapegen.py (all 1-field shapes over {Variable, [2]Variable, []Variable len 2/0, nested struct by value / pointer / embedded / as element of [2], [3] arrays and len-2 slices, with 8 inner bodies up to depth 3 incl. bodies mixing inheriting and explicitly tagged inner arrays} x tag set {none, name, public, secret, inherit, -, name+public}; all 2-field shapes over a reduced field set; 3-field shapes over 6 fields) + a custom type with init hook. Per shape: the witness vector must list the public leaves in declaration order then the secret ones (expected order computed by the generator from the documented rules), public-only witness = Public() = prefix, binary and JSON round trips, both builders solve with leaf_i asserted equal to its constant inside Define, and fail when two assigned values are swapped; shapes the rules make conflicting must be rejected. Value types: every accepted Go type on a 3-leaf shape x 4 fields. distinct = (shape class, verdict).", len(c07shapes.Shapes)))
	c.Assume("expected order derived from the doc comments of frontend/schema/tags.go")
	fields := map[string]*big.Int{"tiny": circ.P47, "bn254": ecc.BN254.ScalarField(), "bls12_381": ecc.BLS12_381.ScalarField(), "bw6_761": ecc.BW6_761.ScalarField()}
	shapes := c07shapes.Shapes
	ok := c.Par(len(shapes), func(i int) {
		s := shapes[i]
		// field and depth are chosen by the shape itself (not by its number), so that the same shape is
		// always checked the same way when the enumeration grows
		hh := fnv.New32a()
		hh.Write([]byte(s.Desc))
		hv := int(hh.Sum32() % 21)
		fname := "bn254"
		if hv%3 == 1 {
			fname = "bw6_761"
		}
		checkShape(c, s, fields[fname], fname, valueKinds()[3], hv%7 == 0 || c.Tier == "thorough")
	})
	if !ok {
		c.Cap("internal deadline in shape sweep")
	}
	// value types on selected shapes over every field
	var sel []c07shapes.Shape
	for _, s := range shapes {
		if !s.Conflict && s.NLeaves == 3 && len(s.Public) >= 1 && len(s.Secret) >= 1 {
			sel = append(sel, s)
			if len(sel) == 6 {
				break
			}
		}
	}
	sel = append(sel, shapes[len(shapes)-1])
	for _, s := range sel {
		for fname, f := range fields {
			if fname == "tiny" {
				continue // leaf constants 101.. exceed 47: order still checked below with reduced values
			}
			for _, vk := range valueKinds() {
				checkShape(c, s, f, fname, vk, true)
			}
		}
	}
	// the witness-vector side (order, Public(), public-only witness, binary / JSON round trips) on EVERY
	// supported field: the seven curve fields, the small fields and the tiny test field (values reduce
	// modulo the field)
	all := map[string]*big.Int{"tiny": circ.P47, "babybear": babybear.Modulus(), "koalabear": koalabear.Modulus()}
	for _, id := range []ecc.ID{ecc.BN254, ecc.BLS12_377, ecc.BLS12_381, ecc.BLS24_315, ecc.BLS24_317, ecc.BW6_633, ecc.BW6_761} {
		all[id.String()+"-vec"] = id.ScalarField()
	}
	var names []string
	for n := range all {
		names = append(names, n)
	}
	sort.Strings(names)
	for _, n := range names {
		for _, s := range sel[:3] {
			checkVector(c, s, all[n], n, valueKinds()[0])
		}
		c.Outcome("vector:" + n)
	}
	c.Finish()
}

func expectedVector(s c07shapes.Shape, p *big.Int) []*big.Int {
	var out []*big.Int
	for _, i := range append(append([]int(nil), s.Public...), s.Secret...) {
		out = append(out, new(big.Int).Mod(big.NewInt(int64(101+i)), p))
	}
	return out
}

func vecEq(a any, want []*big.Int) bool {
	got := refsolve.VecToBig(a)
	if len(got) != len(want) {
		return false
	}
	for i := range got {
		if got[i].Cmp(want[i]) != 0 {
			return false
		}
	}
	return true
}

// checkVector: only the witness-vector side (used for the tiny field).
// featureClass names the one shape feature known to be handled specially by gnark, so that a
// known finding identifies that feature and nothing else.
func featureClass(s c07shapes.Shape, kind string) string {
	if embTag.MatchString(s.Desc) {
		return "tagged-embedded-field"
	}
	if (strings.Contains(s.Desc, "ptr{") || strings.Contains(s.Desc, "emb{")) && (strings.HasPrefix(kind, "json") || strings.HasPrefix(kind, "schema")) {
		return "embedded-or-pointer-field-json"
	}
	return "plain"
}

// an embedded struct field carrying a non-empty gnark tag: emb{...}`<tag>`
var embTag = regexp.MustCompile("emb\\{[^}]*(\\{[^}]*\\}[^}]*)*\\}`[^`]+`")

func checkVector(c *vh.Check, s c07shapes.Shape, p *big.Int, fname string, vk valueKind) (witness.Witness, bool) {
	key := func(x string) string {
		return fmt.Sprintf("c07:%s:{%s}:%s:%s:%s", featureClass(s, x), s.Desc, fname, vk.name, x)
	} // keyed by the shape itself, not by its number
	det := map[string]any{"shape": s.Name, "fields": s.Desc, "field": fname, "value_type": vk.name}
	asg := s.Assign(func(i int) any { return vk.mk(int64(101+i), p) })
	var w witness.Witness
	var err error
	pan := vh.Recover(func() { w, err = frontend.NewWitness(asg, p) })
	c.Evals.Add(1)
	if pan != "" {
		c.Violation(key("witness-panic"), map[string]any{"shape": s.Name, "fields": s.Desc, "panic": pan})
		return nil, false
	}
	if s.Conflict {
		if err == nil {
			c.Violation(key("conflicting-visibility-accepted"), det)
		} else {
			c.Outcome("conflict:rejected")
		}
		return nil, false
	}
	if err != nil {
		det["error"] = err.Error()
		c.Violation(key("witness-error"), det)
		return nil, false
	}
	want := expectedVector(s, p)
	c.Traces.Add(1)
	if !vecEq(w.Vector(), want) {
		det["got"] = fmt.Sprint(refsolve.VecToBig(w.Vector()))
		det["want"] = fmt.Sprint(want)
		c.Violation(key("vector-order"), det)
		return nil, false
	}
	// public-only witness, Public(), prefix
	pubOnly, err := frontend.NewWitness(asg, p, frontend.PublicOnly())
	if err != nil {
		det["error"] = err.Error()
		c.Violation(key("public-only-error"), det)
		return nil, false
	}
	pw, _ := w.Public()
	if !vecEq(pubOnly.Vector(), want[:len(s.Public)]) || !vecEq(pw.Vector(), want[:len(s.Public)]) {
		c.Violation(key("public-prefix"), det)
	}
	// binary and JSON round trips
	b, _ := w.MarshalBinary()
	w2, _ := witness.New(p)
	if err := w2.UnmarshalBinary(b); err != nil || !vecEq(w2.Vector(), want) {
		c.Violation(key("binary-roundtrip"), det)
	}
	sch, err := schema.New(s.New(), tVar)
	if err == nil {
		var js []byte
		w3, _ := witness.New(p)
		if pan := vh.Recover(func() {
			js, err = w.ToJSON(sch)
			if err == nil {
				err = w3.FromJSON(sch, js)
			}
		}); pan != "" {
			err = fmt.Errorf("panic: %s", pan)
		}
		if err != nil || !vecEq(w3.Vector(), want) {
			det["json_error"] = fmt.Sprint(err)
			det["json"] = string(js)
			c.Violation(key("json-roundtrip"), det)
		}
		var b2 bytes.Buffer
		_ = b2
	} else {
		det["error"] = err.Error()
		c.Violation(key("schema-error"), det)
	}
	return w, true
}

func checkShape(c *vh.Check, s c07shapes.Shape, p *big.Int, fname string, vk valueKind, compile bool) {
	w, ok := checkVector(c, s, p, fname, vk)
	cls := "plain"
	if len(s.Public) > 0 && len(s.Secret) > 0 {
		cls = "mixed"
	}
	if !ok {
		return
	}
	c.Outcome("vector:" + cls + ":ok")
	if !compile {
		return
	}
	key := func(x string) string {
		return fmt.Sprintf("c07:%s:{%s}:%s:%s:%s", featureClass(s, x), s.Desc, fname, vk.name, x)
	} // keyed by the shape itself, not by its number
	if s.NLeaves == 0 {
		return // a circuit without any variable: nothing to bind
	}
	for _, b := range []string{circ.R1CS, circ.SCS} {
		ccs, err, pan := circ.Compile(p, b, s.New(), frontend.IgnoreUnconstrainedInputs())
		if err != nil || pan != "" {
			c.Violation(key("compile:"+b), map[string]any{"shape": s.Name, "fields": s.Desc, "error": fmt.Sprint(err, pan)})
			continue
		}
		if ccs.GetNbPublicVariables()-btoi(b == circ.R1CS) != len(s.Public) || ccs.GetNbSecretVariables() != len(s.Secret) {
			c.Violation(key("input-counts:"+b), map[string]any{"shape": s.Name, "fields": s.Desc, "public": ccs.GetNbPublicVariables(), "secret": ccs.GetNbSecretVariables(), "expected_public": len(s.Public), "expected_secret": len(s.Secret)})
		}
		var serr error
		pan = vh.Recover(func() { _, serr = ccs.Solve(w) })
		c.Evals.Add(1)
		if pan != "" || serr != nil {
			c.Violation(key("define-sees-other-values:"+b), map[string]any{"shape": s.Name, "fields": s.Desc, "builder": b, "error": fmt.Sprint(serr, pan)})
			continue
		}
		c.Outcome("define:" + b + ":leaf-values-bound")
		// swapping two assigned values must be noticed inside Define
		if s.NLeaves >= 2 {
			for _, sw := range [][2]int{{0, 1}, {0, s.NLeaves - 1}} {
				if sw[0] == sw[1] {
					continue
				}
				asg := s.Assign(func(i int) any {
					switch i {
					case sw[0]:
						i = sw[1]
					case sw[1]:
						i = sw[0]
					}
					return vk.mk(int64(101+i), p)
				})
				w2, err := frontend.NewWitness(asg, p)
				if err != nil {
					continue
				}
				var e2 error
				vh.Recover(func() { _, e2 = ccs.Solve(w2) })
				c.Evals.Add(1)
				if e2 == nil {
					c.Violation(key(fmt.Sprintf("swap-%d-%d-unnoticed:%s", sw[0], sw[1], b)), map[string]any{"shape": s.Name, "fields": s.Desc, "builder": b})
				} else {
					c.Outcome("define:" + b + ":swap-detected")
				}
			}
		}
	}
	if s.Name == "T40" || s.Name == "Custom" {
		c.Sample(map[string]any{"shape": s.Name, "fields": s.Desc, "public_leaves(decl index)": s.Public, "secret_leaves": s.Secret, "field": fname, "value_type": vk.name})
	}
}

func btoi(b bool) int {
	if b {
		return 1
	}
	return 0
}
