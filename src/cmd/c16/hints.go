package main

import (
	"fmt"
	"math/big"
	"strings"

	"github.com/consensys/gnark/constraint"
	"github.com/consensys/gnark/constraint/solver"
	"github.com/consensys/gnark/frontend"
	"github.com/consensys/gnark/internal/verifh/circ"
	"github.com/consensys/gnark/internal/verifh/hintenv"
	"github.com/consensys/gnark/internal/verifh/vh"
	"github.com/consensys/gnark/std/algebra/algopts"
	"github.com/consensys/gnark/std/algebra/emulated/sw_emulated"
	"github.com/consensys/gnark/std/math/emulated"
)

// Part E: a dishonest prover answers the scalar-multiplication hints.  The circuit asserts
// ScalarMul(P, s) == W for a public W that is NOT [s]P; whatever the hints answer (<= Bound
// departures from the honest answers, drawn from derived dishonest values), it must not solve.

type smCircuit[B, S emulated.FieldParams] struct {
	P        sw_emulated.AffinePoint[B]
	Sc       emulated.Element[S]
	W        sw_emulated.AffinePoint[B] `gnark:",public"`
	complete bool
}

func (c *smCircuit[B, S]) Define(api frontend.API) error {
	cr, err := sw_emulated.New[B, S](api, sw_emulated.GetCurveParams[B]())
	if err != nil {
		return err
	}
	var opts []algopts.AlgebraOption
	if c.complete {
		opts = append(opts, algopts.WithCompleteArithmetic())
	}
	res := cr.ScalarMul(&c.P, &c.Sc, opts...)
	cr.AssertIsEqual(res, &c.W)
	return nil
}

func hintByName(name string) (solver.HintID, solver.Hint, bool) {
	for _, h := range sw_emulated.GetHints() {
		if strings.HasSuffix(solver.GetHintName(h), "."+name) {
			return solver.GetHintID(h), h, true
		}
	}
	return 0, nil, false
}

func setLimbs(out []*big.Int, v *big.Int, w uint) {
	t := new(big.Int).Set(v)
	mask := new(big.Int).Sub(new(big.Int).Lsh(big.NewInt(1), w), big.NewInt(1))
	for i := range out {
		out[i].And(t, mask)
		t.Rsh(t, w)
	}
}

func dishonestFor[B, S emulated.FieldParams](c *vh.Check, ref *swCurve, glv bool) {
	var fb B
	nl, w := int(fb.NbLimbs()), fb.BitsPerLimb()
	field := bnField
	type hk struct {
		id   solver.HintID
		fn   solver.Hint
		name string
	}
	var hs []hk
	names := []string{"scalarMulHint", "halfGCD", "halfGCDSigns"}
	if glv {
		names = []string{"scalarMulHint", "halfGCDEisenstein", "halfGCDEisensteinSigns"}
	}
	for _, n := range names {
		id, fn, ok := hintByName(n)
		if !ok {
			c.Fatal("hint %s not found", n)
		}
		hs = append(hs, hk{id, fn, n})
	}
	fam := emuFamily[B, S](ref)
	ptsIn := pick(ref.points(), "G")
	scs := pickS(ref.scalars(), "t", "0")
	bound := 1
	if !c.Quick() {
		ptsIn = pick(ref.points(), "G", "R")
		scs = pickS(ref.scalars(), "t", "0", "2", "2^h")
		bound = 2
	}
	for _, complete := range []bool{true, false} {
		ccs, err, pan := circ.Compile(field, circ.R1CS, &smCircuit[B, S]{complete: complete})
		if err != nil || pan != "" {
			c.Fatal("compile scalar mul: %v %s", err, pan)
		}
		for _, P := range ptsIn {
			for _, s := range scs {
				if !complete && zeroModR(ref, s.v) {
					continue
				}
				E := ref.mul(P.p, s.v)
				cands := []namedPoint{{"P", P.p}, {"-P", ref.neg(P.p)}, {"O", inf()}, {"(Px,Py+1)", pt{X: P.p.X, Y: new(big.Int).Mod(new(big.Int).Add(P.p.Y, big.NewInt(1)), ref.p)}}, {"E+G", ref.add(E, ref.G)}}
				// honest statement first: must solve (validates the harness)
				if !solveSM(c, ccs, fam, field, P.p, s.v, E, complete, nil) {
					c.Outcome("hints:" + ref.name + ":honest:unsat")
					continue // a defect of the functional sweep, reported there
				}
				c.Outcome("hints:" + ref.name + ":honest:solved")
				for _, W := range cands {
					if W.p.eq(E) {
						continue
					}
					W := W
					if c.Expired() {
						c.Cap("deadline during dishonest-hint exploration")
						return
					}
					ex := &vh.Explorer{Bound: bound, Workers: 8, Stop: c.Expired, OnNondet: func(x *vh.Ctx) { c.Fatal("nondeterministic hint order: %s", x.Diverged) }}
					ex.Run = func(x *vh.Ctx) {
						over := map[solver.HintID]solver.Hint{}
						for _, h := range hs {
							h := h
							over[h.id] = func(mod *big.Int, in, out []*big.Int) error {
								if err := h.fn(mod, in, out); err != nil {
									return err
								}
								switch h.name {
								case "scalarMulHint":
									if x.Choose("scalarMulHint:claim-W", 2) == 1 {
										wx, wy := coordOf(W.p)
										setLimbs(out[:nl], wx, w)
										setLimbs(out[nl:2*nl], wy, w)
									}
								case "halfGCDEisensteinSigns", "halfGCDSigns":
									if k := x.Choose(h.name+":flip", len(out)+1); k > 0 {
										out[k-1].Sub(big.NewInt(1), out[k-1])
									}
								default: // sub-scalars
									switch x.Choose(h.name+":subscalars", 3) {
									case 1: // swap the first two sub-scalars
										n := len(out) / map[bool]int{true: 4, false: 2}[glv]
										for i := 0; i < n; i++ {
											out[i], out[n+i] = out[n+i], out[i]
										}
									case 2: // all zero
										for i := range out {
											out[i].SetUint64(0)
										}
									}
								}
								return nil
							}
						}
						ok := solveSM(c, ccs, fam, field, P.p, s.v, W.p, complete, over)
						c.Transitions.Add(1)
						cls := fmt.Sprintf("hints:%s:complete=%v", ref.name, complete)
						if ok {
							c.Outcome(cls + ":wrong-result-accepted")
							viol(c, cls+":wrong-result-accepted", fmt.Sprintf("hints:%s/scalarmul/complete=%v/P=%s/s=%s/claimed=%s/%s", ref.name, complete, P.name, s.name, W.name, strings.Join(x.Trace(), ";")),
								map[string]any{"what": "with dishonest hint answers the circuit accepts a result that is not [s]P", "P": P.p.String(), "s": s.v.Text(16), "accepted_result": W.p.String(), "true_result": E.String(), "hint_departures": x.Trace()})
						} else {
							c.Outcome(cls + ":wrong-result-rejected")
						}
					}
					if !ex.Explore() {
						c.Cap("deadline during dishonest-hint exploration")
						return
					}
					c.States.Add(ex.Execs.Load())
				}
			}
		}
	}
}

func solveSM[B, S emulated.FieldParams](c *vh.Check, ccs constraint.ConstraintSystem, fam *family[S, sw_emulated.AffinePoint[B]], field *big.Int, P pt, s *big.Int, W pt, complete bool, over map[solver.HintID]solver.Hint) bool {
	asg := &smCircuit[B, S]{P: fam.witness(P), Sc: scalarWitness[S](s), W: fam.witness(W), complete: complete}
	wit, err := frontend.NewWitness(asg, field)
	if err != nil {
		c.Fatal("witness: %v", err)
	}
	var opts []solver.Option
	for id, f := range hintenv.Det() {
		opts = append(opts, solver.OverrideHint(id, f))
	}
	for id, f := range over {
		opts = append(opts, solver.OverrideHint(id, f))
	}
	if over != nil {
		opts = append(opts, solver.WithNbTasks(1)) // sequential solving: the order of the choice points is deterministic
	}
	_, err = ccs.Solve(wit, opts...)
	c.Evals.Add(1)
	return err == nil
}

func dishonestHints(c *vh.Check) {
	dishonestFor[emulated.BN254Fp, emulated.BN254Fr](c, crvBN, true)
	if !c.Quick() {
		dishonestFor[emulated.Secp256k1Fp, emulated.Secp256k1Fr](c, crvSecp, true)
		dishonestFor[emulated.P256Fp, emulated.P256Fr](c, crvP256, false)
	}
}
