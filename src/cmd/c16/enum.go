package main

import "math/big"

type level int

const (
	lvQuick   level = iota // quick tier
	lvReduced              // thorough tier, expensive curve (P-384, BLS12-381, BW6-761)
	lvFull                 // thorough tier
)

func pick(all []namedPoint, names ...string) []namedPoint {
	var r []namedPoint
	for _, n := range names {
		for _, p := range all {
			if p.name == n {
				r = append(r, p)
			}
		}
	}
	return r
}

func pickS(all []namedScalar, names ...string) []namedScalar {
	var r []namedScalar
	for _, n := range names {
		for _, s := range all {
			if s.name == n {
				r = append(r, s)
			}
		}
	}
	return r
}

func zeroModR(c *swCurve, s *big.Int) bool { return new(big.Int).Mod(s, c.r).Sign() == 0 }

// enumCases enumerates, for one curve, every operation over its input alphabets (all pairs /
// triples), with the documented domain of every method encoded in inDomain.
func enumCases(c *swCurve, lv level, hasJSMB, hasOnCurve bool) []*opCase {
	var out []*opCase
	pts := c.points()
	scs := c.scalars()
	isSub := func(p namedPoint) bool { return p.name != "offsub" && p.name != "loworder" }
	var sub []namedPoint
	for _, p := range pts {
		if isSub(p) {
			sub = append(sub, p)
		}
	}

	// --- Add / AddUnified: all ordered pairs of the whole alphabet
	for _, P := range pts {
		for _, Q := range pts {
			e := c.add(P.p, Q.p)
			in := !P.p.Inf && !Q.p.Inf && !P.p.eq(Q.p) && !P.p.eq(c.neg(Q.p))
			why := ""
			if !in {
				why = "Add requires P != +-Q and both nonzero"
			}
			out = append(out, &opCase{sp: opSpec{op: "add"}, pts: []namedPoint{P, Q}, expect: e, inDomain: in, why: why})
			out = append(out, &opCase{sp: opSpec{op: "addunified"}, pts: []namedPoint{P, Q}, expect: e, inDomain: true})
		}
	}
	for _, P := range pts {
		out = append(out, &opCase{sp: opSpec{op: "neg"}, pts: []namedPoint{P}, expect: c.neg(P.p), inDomain: true})
	}

	// --- ScalarMul: points x scalars x {incomplete, complete}
	smP := sub
	smS := scs
	if lv == lvQuick {
		smP = pick(pts, "O", "G", "R", "phi(G)")
	} else if lv == lvReduced {
		smP = pick(pts, "O", "G", "R")
		smS = pickS(scs, "0", "1", "2", "r-1", "r", "r+1", "2^h", "t", "lambda", "-lambda", "lambda+1")
	}
	for _, complete := range []bool{false, true} {
		for _, P := range smP {
			for _, s := range smS {
				in := complete || (!P.p.Inf && !zeroModR(c, s.v))
				if lv == lvQuick && !in {
					continue // quick: outside-domain cases of the expensive operations are not enumerated
				}
				out = append(out, &opCase{sp: opSpec{op: "scalarmul", complete: complete}, pts: []namedPoint{P}, scs: []namedScalar{s},
					expect: c.mul(P.p, s.v), inDomain: in, why: "ScalarMul without complete arithmetic requires s != 0 and P != (0,0)"})
			}
		}
		for _, s := range smS {
			in := complete || !zeroModR(c, s.v)
			if lv == lvQuick && !in {
				continue
			}
			out = append(out, &opCase{sp: opSpec{op: "scalarmulbase", complete: complete}, scs: []namedScalar{s},
				expect: c.mul(c.G, s.v), inDomain: in, why: "ScalarMulBase without complete arithmetic requires s != 0"})
		}
	}

	// --- JointScalarMulBase(p, s2, s1) = [s1]G + [s2]p: points x scalars x scalars
	if hasJSMB {
		jP := pick(pts, "O", "G", "-G", "2G", "R", "-R")
		jS := pickS(scs, "0", "1", "2", "r-1", "r", "t", "lambda", "-lambda")
		if lv == lvQuick {
			jP = pick(pts, "2G", "R")
			jS = pickS(scs, "1", "r-1", "t", "lambda")
		} else if lv == lvReduced {
			jP = pick(pts, "O", "G", "2G", "R")
			jS = pickS(scs, "0", "1", "r-1", "t")
		}
		for _, complete := range []bool{false, true} {
			if lv != lvFull && complete {
				continue
			}
			for _, P := range jP {
				for _, s1 := range jS {
					for _, s2 := range jS {
						in := !P.p.Inf && !P.p.eq(c.G) && !P.p.eq(c.neg(c.G)) && !zeroModR(c, s1.v) && !zeroModR(c, s2.v)
						e := c.add(c.mul(c.G, s1.v), c.mul(P.p, s2.v))
						out = append(out, &opCase{sp: opSpec{op: "jsmb", complete: complete}, pts: []namedPoint{P}, scs: []namedScalar{s2, s1},
							expect: e, inDomain: in, why: "JointScalarMulBase requires p != (0,0), p != +-g, s1, s2 != 0"})
					}
				}
			}
		}
	}

	// JointScalarMulBase whose two partial products coincide / cancel: [2t]G + [t](2G) and
	// [-2t]G + [t](2G) (inside the documented domain: p != (0,0), p != +-g, scalars non-zero)
	if hasJSMB {
		t := c.scalar("t")
		tt := new(big.Int).Lsh(t.v, 1)
		tt.Mod(tt, c.r)
		P := c.point("2G")
		for _, complete := range []bool{false, true} {
			if lv != lvFull && complete {
				continue
			}
			for _, s1 := range []namedScalar{{"2t", tt}, {"-2t", new(big.Int).Sub(c.r, tt)}} {
				e := c.add(c.mul(c.G, s1.v), c.mul(P.p, t.v))
				out = append(out, &opCase{sp: opSpec{op: "jsmb", complete: complete}, pts: []namedPoint{P}, scs: []namedScalar{t, s1},
					expect: e, inDomain: true, why: ""})
			}
		}
	}

	// --- MultiScalarMul with 1..3 terms: all tuples of (point, scalar) terms
	type term struct {
		P namedPoint
		s namedScalar
	}
	mk := func(ps []namedPoint, ss []namedScalar) []term {
		var t []term
		for _, p := range ps {
			for _, s := range ss {
				t = append(t, term{p, s})
			}
		}
		return t
	}
	for _, complete := range []bool{false, true} {
		var t1, t2, t3 []term
		switch {
		case lv == lvFull:
			t1 = mk(pick(pts, "O", "G", "-G", "R"), pickS(scs, "0", "1", "r-1", "r", "t", "lambda"))
			t2 = mk(pick(pts, "O", "G", "R"), pickS(scs, "0", "1", "r-1", "t"))
			t3 = mk(pick(pts, "O", "G", "R"), pickS(scs, "0", "t"))
			t3 = append(t3, term{c.point("G"), c.scalar("1")})
		case complete:
			t1 = mk(pick(pts, "O", "G", "R"), pickS(scs, "0", "1", "t"))
			t2 = mk(pick(pts, "O", "R"), pickS(scs, "0", "t"))
			t2 = append(t2, term{c.point("G"), c.scalar("1")})
			t3 = []term{{c.point("G"), c.scalar("1")}, {c.point("R"), c.scalar("t")}, {c.point("O"), c.scalar("0")}}
		default:
			t1 = mk(pick(pts, "G", "R"), pickS(scs, "1", "t"))
			t2 = []term{{c.point("R"), c.scalar("t")}, {c.point("G"), c.scalar("t")}, {c.point("G"), c.scalar("1")}}
			t3 = []term{{c.point("G"), c.scalar("1")}, {c.point("R"), c.scalar("t")}}
		}
		emit := func(ts ...term) {
			k := &opCase{sp: opSpec{op: "msm", complete: complete}, expect: inf(), inDomain: true, why: "MultiScalarMul without complete arithmetic requires nonzero points and scalars"}
			for _, t := range ts {
				k.pts = append(k.pts, t.P)
				k.scs = append(k.scs, t.s)
				k.expect = c.add(k.expect, c.mul(t.P.p, t.s.v))
				if !complete && (t.P.p.Inf || zeroModR(c, t.s.v)) {
					k.inDomain = false
				}
			}
			out = append(out, k)
		}
		for _, a := range t1 {
			emit(a)
		}
		for _, a := range t2 {
			for _, b := range t2 {
				emit(a, b)
			}
		}
		for _, a := range t3 {
			for _, b := range t3 {
				for _, d := range t3 {
					emit(a, b, d)
				}
			}
		}
	}

	// --- Select / Lookup2 / Mux: every selector value
	sp := pick(pts, "O", "G", "R")
	for _, P := range sp {
		for _, Q := range sp {
			for sel := 0; sel < 2; sel++ {
				e := Q.p
				if sel == 1 {
					e = P.p
				}
				out = append(out, &opCase{sp: opSpec{op: "select"}, pts: []namedPoint{P, Q}, sel: sel, expect: e, inDomain: true})
			}
		}
	}
	l2 := pick(pts, "O", "G", "-G", "R")
	for b0 := 0; b0 < 2; b0++ {
		for b1 := 0; b1 < 2; b1++ {
			out = append(out, &opCase{sp: opSpec{op: "lookup2"}, pts: l2, sel: b0, sel2: b1, expect: l2[b0+2*b1].p, inDomain: true})
		}
	}
	mx := pick(pts, "O", "G", "-G", "R", "2G")
	for n := 2; n <= 5; n++ {
		for sel := 0; sel < n; sel++ {
			out = append(out, &opCase{sp: opSpec{op: "mux"}, pts: mx[:n], sel: sel, expect: mx[sel].p, inDomain: true})
		}
	}

	// --- AssertIsOnCurve
	if hasOnCurve {
		for _, P := range pts {
			out = append(out, &opCase{sp: opSpec{op: "oncurve"}, pts: []namedPoint{P}, accept: true, inDomain: true})
		}
		off := namedPoint{"offcurve", c.offCurve()}
		out = append(out, &opCase{sp: opSpec{op: "oncurve"}, pts: []namedPoint{off}, accept: false, inDomain: true})
		out = append(out, &opCase{sp: opSpec{op: "oncurve"}, pts: []namedPoint{{"(0,1)", pt{X: big.NewInt(0), Y: big.NewInt(1)}}}, accept: c.onCurve(pt{X: big.NewInt(0), Y: big.NewInt(1)}), inDomain: true})
	}
	return out
}
