package main

import (
	"fmt"
	"math/big"

	"github.com/consensys/gnark-crypto/ecc"
	bls12381 "github.com/consensys/gnark-crypto/ecc/bls12-381"
	blsfr "github.com/consensys/gnark-crypto/ecc/bls12-381/fr"
	"github.com/consensys/gnark/frontend"
	"github.com/consensys/gnark/internal/verifh/vh"
	"github.com/consensys/gnark/std/algebra/emulated/sw_bls12381"
	"github.com/consensys/gnark/std/evmprecompiles"
	"github.com/consensys/gnark/std/math/emulated"
	"github.com/consensys/gnark/test"
)

// G2 of BLS12-381 (the group behind the BLS precompiles): unified addition over ALL ordered pairs
// of {O, G, -G, 2G, R, -R} and multi-scalar multiplication with zero scalars, against
// gnark-crypto's (complete) affine addition / MultiExp.

type g2AddCircuit struct {
	P, Q, E sw_bls12381.G2Affine
	viaEVM  bool
}

func (c *g2AddCircuit) Define(api frontend.API) error {
	g2, err := sw_bls12381.NewG2(api)
	if err != nil {
		return err
	}
	var res *sw_bls12381.G2Affine
	if c.viaEVM {
		res = evmprecompiles.ECAddG2BLS(api, &c.P, &c.Q)
	} else {
		res = g2.AddUnified(&c.P, &c.Q)
	}
	g2.AssertIsEqual(res, &c.E)
	return nil
}

type g2MsmCircuit struct {
	P [2]sw_bls12381.G2Affine
	S [2]emulated.Element[emulated.BLS12381Fr]
	E sw_bls12381.G2Affine
}

func (c *g2MsmCircuit) Define(api frontend.API) error {
	g2, err := sw_bls12381.NewG2(api)
	if err != nil {
		return err
	}
	res := evmprecompiles.ECMSMG2BLS(api, []*sw_bls12381.G2Affine{&c.P[0], &c.P[1]}, []*emulated.Element[emulated.BLS12381Fr]{&c.S[0], &c.S[1]})
	g2.AssertIsEqual(res, &c.E)
	return nil
}

func g2Jobs(c *vh.Check) []job {
	if !wantGroup(c, "g2") {
		return nil
	}
	_, _, _, G := bls12381.Generators()
	r := ecc.BLS12_381.ScalarField()
	t := new(big.Int).Mod(genericT, r)
	var negG, twoG, R, negR, O bls12381.G2Affine
	negG.Neg(&G)
	twoG.Double(&G)
	R.ScalarMultiplication(&G, t)
	negR.Neg(&R)
	type np struct {
		n string
		p bls12381.G2Affine
	}
	pts := []np{{"O", O}, {"G", G}, {"-G", negG}, {"2G", twoG}, {"R", R}, {"-R", negR}}
	var jobs []job
	for _, via := range []bool{false, true} {
		for _, P := range pts {
			for _, Q := range pts {
				P, Q, via := P, Q, via
				if via && c.Quick() && P.n != "O" && Q.n != "O" && P.n != Q.n {
					continue // quick: the precompile wrapper on the exceptional pairs only
				}
				jobs = append(jobs, func() {
					var E bls12381.G2Affine
					E.Add(&P.p, &Q.p)
					name := "g2:bls12-381/addunified"
					if via {
						name = "g2:bls12-381/ECAddG2BLS"
					}
					key := fmt.Sprintf("%s/P=%s,%s", name, P.n, Q.n)
					asg := &g2AddCircuit{P: sw_bls12381.NewG2Affine(P.p), Q: sw_bls12381.NewG2Affine(Q.p), E: sw_bls12381.NewG2Affine(E)}
					var err error
					if guarded(runTimeout(c), func() {
						err = test.IsSolved(&g2AddCircuit{viaEVM: via}, asg, ecc.BN254.ScalarField())
					}) {
						viol(c, name+":hang", key+"/hang", map[string]any{"what": "did not return"})
						return
					}
					c.Evals.Add(1)
					c.Traces.Add(1)
					c.Count("g2", name, 1)
					if err != nil {
						c.Outcome(name + ":differs-from-native")
						viol(c, name+":wrong", key, map[string]any{"what": "the G2 gadget result differs from gnark-crypto's affine addition (or is unsatisfiable)", "P": P.n, "Q": Q.n, "error": shortErr(err)})
					} else {
						c.Outcome(name + ":equals-native")
					}
				})
			}
		}
	}
	// multi-scalar multiplication with zero scalars / equal terms
	type ms struct {
		n      string
		s0, s1 *big.Int
	}
	zero := big.NewInt(0)
	for _, m := range []ms{{"t,0", t, zero}, {"0,t", zero, t}, {"0,0", zero, zero}, {"t,t", t, t}, {"1,r-1", big.NewInt(1), new(big.Int).Sub(r, big.NewInt(1))}} {
		m := m
		if c.Quick() && (m.n == "t,t" || m.n == "1,r-1") {
			continue
		}
		jobs = append(jobs, func() {
			var E bls12381.G2Affine
			var sc [2]blsfr.Element
			sc[0].SetBigInt(m.s0)
			sc[1].SetBigInt(m.s1)
			if _, err := E.MultiExp([]bls12381.G2Affine{G, R}, sc[:], ecc.MultiExpConfig{}); err != nil {
				c.Fatal("g2 msm reference: %v", err)
			}
			key := "g2:bls12-381/ECMSMG2BLS/P=G,R/s=" + m.n
			asg := &g2MsmCircuit{P: [2]sw_bls12381.G2Affine{sw_bls12381.NewG2Affine(G), sw_bls12381.NewG2Affine(R)},
				S: [2]emulated.Element[emulated.BLS12381Fr]{emulated.ValueOf[emulated.BLS12381Fr](m.s0), emulated.ValueOf[emulated.BLS12381Fr](m.s1)}, E: sw_bls12381.NewG2Affine(E)}
			var err error
			if guarded(runTimeout(c), func() { err = test.IsSolved(&g2MsmCircuit{}, asg, ecc.BN254.ScalarField()) }) {
				viol(c, "g2:msm:hang", key+"/hang", map[string]any{"what": "did not return"})
				return
			}
			c.Evals.Add(1)
			c.Traces.Add(1)
			c.Count("g2", "ECMSMG2BLS", 1)
			if err != nil {
				c.Outcome("g2:ECMSMG2BLS:differs-from-native")
				viol(c, "g2:msm:wrong", key, map[string]any{"what": "ECMSMG2BLS differs from gnark-crypto's MultiExp (or is unsatisfiable)", "scalars": m.n, "error": shortErr(err)})
			} else {
				c.Outcome("g2:ECMSMG2BLS:equals-native")
			}
		})
	}
	return jobs
}
