package main

import (
	"bufio"
	"context"
	"fmt"
	"math/big"
	"os"
	"os/exec"
	"strings"
	"sync"
	"time"

	"github.com/consensys/gnark/constraint/solver"
	"github.com/consensys/gnark/frontend"
	"github.com/consensys/gnark/internal/verifh/vh"
	"github.com/consensys/gnark/std/algebra/emulated/sw_emulated"
	"github.com/consensys/gnark/std/math/emulated"
	"github.com/consensys/gnark/test"
)

// Screening for non-terminating decomposition hints.  gnark hints cannot be interrupted, so
// the screen runs in a child process (this binary re-executed with C16_CHILD=<curve>) that is
// killed afterwards: for every scalar of the alphabet the child calls the real hint
// (halfGCDEisenstein, taken from sw_emulated.GetHints()) through the real emulated-hint
// wrapper in the test engine, with a time limit; for the scalars that do not return it then
// runs the complete ScalarMul gadget with a (longer) time limit as confirmation.

type hintCircuit[S emulated.FieldParams] struct {
	Sc     emulated.Element[S]
	lambda *big.Int
	fn     *solver.Hint
}

func (c *hintCircuit[S]) Define(api frontend.API) error {
	sa, err := emulated.NewField[S](api)
	if err != nil {
		return err
	}
	_, err = sa.NewHint(*c.fn, 4, &c.Sc, sa.NewElement(c.lambda))
	return err
}

func findHint(name string) *solver.Hint {
	for _, h := range sw_emulated.GetHints() {
		if strings.HasSuffix(solver.GetHintName(h), "."+name) {
			h := h
			return &h
		}
	}
	return nil
}

var childFams = map[string]func(){}

func registerChild[B, S emulated.FieldParams](ref *swCurve) {
	childFams[ref.name] = func() {
		fn := findHint("halfGCDEisenstein")
		if fn == nil {
			fmt.Println("C16CHILD NOHINT")
			return
		}
		fam := emuFamily[B, S](ref)
		var mu sync.Mutex
		var hangs []namedScalar
		var wg sync.WaitGroup
		for _, s := range ref.scalars() {
			if zeroModR(ref, s.v) {
				continue // the gadget replaces a zero scalar before calling the hint / documents it as excluded
			}
			s := s
			wg.Add(1)
			go func() {
				defer wg.Done()
				if guarded(8*time.Second, func() {
					_ = test.IsSolved(&hintCircuit[S]{lambda: ref.lambda, fn: fn}, &hintCircuit[S]{Sc: scalarWitness[S](s.v), lambda: ref.lambda, fn: fn}, fam.field)
				}) {
					mu.Lock()
					hangs = append(hangs, s)
					mu.Unlock()
					fmt.Println("C16CHILD HINT-HANG", s.name)
				} else {
					fmt.Println("C16CHILD HINT-OK", s.name)
				}
			}()
		}
		wg.Wait()
		// confirmation on the whole gadget (incomplete arithmetic, P = G).  A control run with the
		// generic scalar t (which terminates) is timed under the same load, concurrently with the
		// suspects; a suspect is declared non-terminating only after max(40 s, 25 x control time).
		if len(hangs) > 0 {
			type res struct {
				s    namedScalar
				done chan struct{}
			}
			var rs []res
			t0 := time.Now()
			for _, s := range hangs {
				r := res{s, make(chan struct{})}
				rs = append(rs, r)
				k := &opCase{sp: opSpec{op: "scalarmul"}, pts: []namedPoint{ref.point("G")}, scs: []namedScalar{s}}
				go func() { defer close(r.done); execOp(fam, k) }()
			}
			c0 := time.Now()
			execOp(fam, &opCase{sp: opSpec{op: "scalarmul"}, pts: []namedPoint{ref.point("G")}, scs: []namedScalar{ref.scalar("t")}})
			ctrl := time.Since(c0)
			lim := 40 * time.Second
			if x := 25 * ctrl; x > lim {
				lim = x
			}
			fmt.Println("C16CHILD CONTROL", ctrl.Milliseconds(), "ms; limit", lim.Milliseconds(), "ms")
			for _, r := range rs {
				rem := lim - time.Since(t0)
				if rem < 0 {
					rem = 0
				}
				select {
				case <-r.done:
					fmt.Println("C16CHILD GADGET-RETURNED", r.s.name)
				case <-time.After(rem):
					fmt.Println("C16CHILD GADGET-HANG", r.s.name)
				}
			}
		}
	}
}

func init() {
	registerChild[emulated.Secp256k1Fp, emulated.Secp256k1Fr](crvSecp)
	registerChild[emulated.BN254Fp, emulated.BN254Fr](crvBN)
	registerChild[emulated.BLS12381Fp, emulated.BLS12381Fr](crvBLS381)
	registerChild[emulated.BW6761Fp, emulated.BW6761Fr](crvBW6)
}

// childMain is entered when C16_CHILD is set.
func childMain(name string) {
	f, ok := childFams[name]
	if !ok {
		fmt.Println("C16CHILD UNKNOWN", name)
		os.Exit(2)
	}
	f()
	fmt.Println("C16CHILD DONE")
	os.Exit(0)
}

// hanging[curve][scalar name] = true when the decomposition hint does not terminate.
var (
	hangMu  sync.Mutex
	hanging = map[string]map[string]bool{}
)

func isHanging(curve, scalar string) bool {
	hangMu.Lock()
	defer hangMu.Unlock()
	return hanging[curve][scalar]
}

// screen runs the child for the curve and records violations for non-terminating hints.
func screen(c *vh.Check, ref *swCurve) {
	if ref.lambda == nil || childFams[ref.name] == nil {
		return
	}
	ctx, cancel := context.WithTimeout(context.Background(), 30*time.Minute)
	defer cancel()
	cmd := exec.CommandContext(ctx, os.Args[0])
	cmd.Env = append(os.Environ(), "C16_CHILD="+ref.name, "GOMAXPROCS=6")
	out, err := cmd.StdoutPipe()
	if err != nil {
		c.Fatal("screen: %v", err)
	}
	if err := cmd.Start(); err != nil {
		c.Fatal("screen: %v", err)
	}
	done := false
	sc := bufio.NewScanner(out)
	for sc.Scan() {
		f := strings.Fields(sc.Text())
		if len(f) < 2 || f[0] != "C16CHILD" {
			continue
		}
		switch f[1] {
		case "HINT-OK":
			c.Outcome("emulated:" + ref.name + ":eisenstein-hint:returns")
			c.Evals.Add(1)
		case "HINT-HANG":
			c.Evals.Add(1)
			c.Outcome("emulated:" + ref.name + ":eisenstein-hint:does-not-terminate")
			hangMu.Lock()
			if hanging[ref.name] == nil {
				hanging[ref.name] = map[string]bool{}
			}
			hanging[ref.name][f[2]] = true
			hangMu.Unlock()
		case "GADGET-HANG":
			s := ref.scalar(f[2])
			c.Violation(fmt.Sprintf("emulated:%s/scalarmul/P=G/s=%s/hang", ref.name, f[2]), map[string]any{
				"what":   "ScalarMul does not terminate: the hint halfGCDEisenstein(s, lambda) loops forever (gnark-crypto eisenstein.HalfGCD), so no proof can be produced for this in-domain input",
				"curve":  ref.name,
				"scalar": s.v.Text(16),
				"point":  "G",
			})
		case "GADGET-RETURNED":
			c.Note("hint screen flagged s=" + f[2] + " on " + ref.name + " but the gadget returned within 40 s")
			hangMu.Lock()
			delete(hanging[ref.name], f[2])
			hangMu.Unlock()
		case "DONE":
			done = true
		case "NOHINT":
			c.Note("halfGCDEisenstein not found in sw_emulated.GetHints()")
			done = true
		}
	}
	_ = cmd.Wait()
	if !done {
		c.Cap("hint screening child for " + ref.name + " did not finish")
	}
}
