package main

import (
	"crypto/sha256"
	"fmt"
	"math/big"

	"github.com/consensys/gnark-crypto/ecc"
	tedwards "github.com/consensys/gnark-crypto/ecc/twistededwards"
	gchash "github.com/consensys/gnark-crypto/hash"
	gceddsa "github.com/consensys/gnark-crypto/signature/eddsa"
	"github.com/consensys/gnark/frontend"
	"github.com/consensys/gnark/internal/verifh/vh"
	"github.com/consensys/gnark/std/algebra/native/twistededwards"
	"github.com/consensys/gnark/std/hash/mimc"
	"github.com/consensys/gnark/std/signature/eddsa"
	"github.com/consensys/gnark/test"
)

// teCurve: a x^2 + y^2 = 1 + d x^2 y^2 over F_q, textbook affine arithmetic.
type teCurve struct {
	name  string
	id    tedwards.ID
	snark ecc.ID
	q     *big.Int
	p     *twistededwards.CurveParams
	mimc  gchash.Hash
}

type tpt struct{ X, Y *big.Int }

func (p tpt) String() string { return fmt.Sprintf("(%s,%s)", p.X.Text(16), p.Y.Text(16)) }
func (p tpt) eq(o tpt) bool  { return p.X.Cmp(o.X) == 0 && p.Y.Cmp(o.Y) == 0 }

func (c *teCurve) m(x *big.Int) *big.Int { return x.Mod(x, c.q) }
func (c *teCurve) id0() tpt              { return tpt{big.NewInt(0), big.NewInt(1)} }

func (c *teCurve) onCurve(p tpt) bool {
	x2 := c.m(new(big.Int).Mul(p.X, p.X))
	y2 := c.m(new(big.Int).Mul(p.Y, p.Y))
	l := c.m(new(big.Int).Add(new(big.Int).Mul(c.p.A, x2), y2))
	r := new(big.Int).Mul(c.p.D, x2)
	r.Mul(r, y2).Add(r, big.NewInt(1))
	return l.Cmp(c.m(r)) == 0
}

func (c *teCurve) add(p1, p2 tpt) (tpt, bool) {
	x1y2 := new(big.Int).Mul(p1.X, p2.Y)
	y1x2 := new(big.Int).Mul(p1.Y, p2.X)
	y1y2 := new(big.Int).Mul(p1.Y, p2.Y)
	x1x2 := new(big.Int).Mul(p1.X, p2.X)
	t := new(big.Int).Mul(x1x2, y1y2)
	t.Mul(t, c.p.D)
	c.m(t)
	dx := c.m(new(big.Int).Add(big.NewInt(1), t))
	dy := c.m(new(big.Int).Sub(big.NewInt(1), t))
	if dx.Sign() == 0 || dy.Sign() == 0 {
		return tpt{}, false // exceptional case of the addition law (points outside the prime-order subgroup)
	}
	nx := c.m(new(big.Int).Add(x1y2, y1x2))
	ny := c.m(new(big.Int).Sub(y1y2, new(big.Int).Mul(c.p.A, x1x2)))
	x := c.m(nx.Mul(nx, dx.ModInverse(dx, c.q)))
	y := c.m(ny.Mul(ny, dy.ModInverse(dy, c.q)))
	return tpt{x, y}, true
}

func (c *teCurve) neg(p tpt) tpt { return tpt{c.m(new(big.Int).Neg(p.X)), new(big.Int).Set(p.Y)} }

func (c *teCurve) mul(p tpt, k *big.Int) (tpt, bool) {
	acc := c.id0()
	ok := true
	for i := k.BitLen() - 1; i >= 0; i-- {
		var o bool
		acc, o = c.add(acc, acc)
		ok = ok && o
		if k.Bit(i) == 1 {
			acc, o = c.add(acc, p)
			ok = ok && o
		}
	}
	return acc, ok
}

type namedT struct {
	name string
	p    tpt
}

func (c *teCurve) base() tpt { return tpt{c.p.Base[0], c.p.Base[1]} }

func (c *teCurve) points() []namedT {
	B := c.base()
	R, _ := c.mul(B, new(big.Int).Mod(genericT, c.p.Order))
	B2, _ := c.add(B, B)
	RB, _ := c.add(R, B)
	ps := []namedT{{"I", c.id0()}, {"B", B}, {"-B", c.neg(B)}, {"2B", B2}, {"R", R}, {"-R", c.neg(R)}, {"R+B", RB},
		{"T2=(0,-1)", tpt{big.NewInt(0), c.m(big.NewInt(-1))}}}
	// a point of order 4: (x,0) with a x^2 = 1
	ainv := new(big.Int).ModInverse(c.m(new(big.Int).Set(c.p.A)), c.q)
	if x := new(big.Int).ModSqrt(ainv, c.q); x != nil {
		ps = append(ps, namedT{"T4=(1/sqrt(a),0)", tpt{x, big.NewInt(0)}})
	}
	// B + T2: a point outside the prime-order subgroup
	if bt, ok := c.add(B, tpt{big.NewInt(0), c.m(big.NewInt(-1))}); ok {
		ps = append(ps, namedT{"B+T2", bt})
	}
	return ps
}

func (c *teCurve) scalars() []namedScalar {
	o := c.p.Order
	h := uint(o.BitLen() / 2)
	s := []namedScalar{{"0", big.NewInt(0)}, {"1", big.NewInt(1)}, {"2", big.NewInt(2)}, {"3", big.NewInt(3)},
		{"l-1", new(big.Int).Sub(o, big.NewInt(1))}, {"l", new(big.Int).Set(o)}, {"l+1", new(big.Int).Add(o, big.NewInt(1))},
		{"2^h", new(big.Int).Lsh(big.NewInt(1), h)}, {"2^h-1", new(big.Int).Sub(new(big.Int).Lsh(big.NewInt(1), h), big.NewInt(1))},
		{"t", new(big.Int).Mod(genericT, o)}, {"q-1", new(big.Int).Sub(c.q, big.NewInt(1))}}
	return s
}

func newTE(name string, id tedwards.ID, snark ecc.ID, h gchash.Hash) *teCurve {
	p, err := twistededwards.GetCurveParams(id)
	if err != nil {
		panic(err)
	}
	return &teCurve{name: name, id: id, snark: snark, q: snark.ScalarField(), p: p, mimc: h}
}

func teCurves(quick bool) []*teCurve {
	r := []*teCurve{
		newTE("ed-bn254", tedwards.BN254, ecc.BN254, gchash.MIMC_BN254),
		newTE("bandersnatch", tedwards.BLS12_381_BANDERSNATCH, ecc.BLS12_381, gchash.MIMC_BLS12_381),
	}
	if !quick {
		r = append(r,
			newTE("ed-bls12-381", tedwards.BLS12_381, ecc.BLS12_381, gchash.MIMC_BLS12_381),
			newTE("ed-bls12-377", tedwards.BLS12_377, ecc.BLS12_377, gchash.MIMC_BLS12_377),
			newTE("ed-bw6-761", tedwards.BW6_761, ecc.BW6_761, gchash.MIMC_BW6_761),
			newTE("ed-bls24-315", tedwards.BLS24_315, ecc.BLS24_315, gchash.MIMC_BLS24_315),
			newTE("ed-bls24-317", tedwards.BLS24_317, ecc.BLS24_317, gchash.MIMC_BLS24_317),
			newTE("ed-bw6-633", tedwards.BW6_633, ecc.BW6_633, gchash.MIMC_BW6_633),
		)
	}
	return r
}

type teCircuit struct {
	P  []twistededwards.Point
	S  []frontend.Variable
	op string
	id tedwards.ID
	cp *capture
}

func (c *teCircuit) Define(api frontend.API) error {
	cr, err := twistededwards.NewEdCurve(api, c.id)
	if err != nil {
		return err
	}
	var res twistededwards.Point
	switch c.op {
	case "add":
		res = cr.Add(c.P[0], c.P[1])
	case "double":
		res = cr.Double(c.P[0])
	case "neg":
		res = cr.Neg(c.P[0])
	case "scalarmul":
		res = cr.ScalarMul(c.P[0], c.S[0])
	case "doublebase":
		res = cr.DoubleBaseScalarMul(c.P[0], c.P[1], c.S[0], c.S[1])
	case "oncurve":
		cr.AssertIsOnCurve(c.P[0])
		return nil
	}
	cp := c.cp
	_, err = api.Compiler().NewHint(func(_ *big.Int, in, out []*big.Int) error {
		cp.vals = []*big.Int{new(big.Int).Set(in[0]), new(big.Int).Set(in[1])}
		out[0].SetUint64(0)
		return nil
	}, 1, res.X, res.Y)
	return err
}

func runTE(c *vh.Check, cv *teCurve, op string, ps []namedT, ss []namedScalar, expect tpt, defined bool, accept bool) {
	shape := &teCircuit{P: make([]twistededwards.Point, len(ps)), S: make([]frontend.Variable, len(ss)), op: op, id: cv.id, cp: &capture{}}
	asg := &teCircuit{P: make([]twistededwards.Point, len(ps)), S: make([]frontend.Variable, len(ss)), op: op, id: cv.id, cp: shape.cp}
	key := "te:" + cv.name + "/" + op + "/P="
	for i, p := range ps {
		asg.P[i] = twistededwards.Point{X: p.p.X, Y: p.p.Y}
		if i > 0 {
			key += ","
		}
		key += p.name
	}
	key += "/s="
	for i, s := range ss {
		asg.S[i] = s.v
		if i > 0 {
			key += ","
		}
		key += s.name
	}
	var err error
	if guarded(runTimeout(c), func() { err = test.IsSolved(shape, asg, cv.q) }) {
		viol(c, "te:"+cv.name+":"+op+":hang", key+"/hang", map[string]any{"what": "did not return"})
		return
	}
	c.Evals.Add(1)
	cls := "te:" + cv.name + ":" + op
	c.Count("te:"+cv.name, op, 1)
	if op == "oncurve" {
		c.Traces.Add(1)
		if (err == nil) == accept {
			c.Outcome(fmt.Sprintf("%s:agree-accept=%v", cls, accept))
		} else {
			c.Outcome(cls + ":disagree")
			viol(c, cls+":disagree", key, map[string]any{"what": "AssertIsOnCurve verdict differs from the curve equation", "native_on_curve": accept, "error": shortErr(err)})
		}
		return
	}
	if !defined {
		// the reference addition law has a zero denominator (points outside the prime-order subgroup): not judged
		c.Outcome(cls + ":exceptional-denominator:" + map[bool]string{true: "solved", false: "unsat"}[err == nil])
		return
	}
	c.Traces.Add(1)
	if err != nil {
		c.Outcome(cls + ":unsatisfiable")
		viol(c, cls+":unsat", key, map[string]any{"what": "the complete twisted Edwards gadget cannot be satisfied", "error": shortErr(err), "expected": expect.String()})
		return
	}
	got := tpt{shape.cp.vals[0], shape.cp.vals[1]}
	if got.eq(expect) {
		c.Outcome(cls + ":equals-native")
		return
	}
	c.Outcome(cls + ":differs-from-native")
	viol(c, cls+":wrong-result", key, map[string]any{"what": "result differs from the native group law", "expected": expect.String(), "got": got.String()})
}

func teJobs(c *vh.Check) []job {
	var jobs []job
	for _, cv := range teCurves(c.Quick()) {
		cv := cv
		if !wantGroup(c, "te:"+cv.name) {
			continue
		}
		// validate the reference: [l]B = identity, B on curve
		if !cv.onCurve(cv.base()) {
			c.Fatal("te reference: base of %s not on curve", cv.name)
		}
		if lb, ok := cv.mul(cv.base(), cv.p.Order); !ok || !lb.eq(cv.id0()) {
			c.Fatal("te reference: [l]B != identity on %s", cv.name)
		}
		pts := cv.points()
		scs := cv.scalars()
		for _, P := range pts {
			P := P
			for _, Q := range pts {
				Q := Q
				e, ok := cv.add(P.p, Q.p)
				jobs = append(jobs, func() { runTE(c, cv, "add", []namedT{P, Q}, nil, e, ok, true) })
			}
			e, ok := cv.add(P.p, P.p)
			jobs = append(jobs, func() { runTE(c, cv, "double", []namedT{P}, nil, e, ok, true) })
			jobs = append(jobs, func() { runTE(c, cv, "neg", []namedT{P}, nil, cv.neg(P.p), true, true) })
			jobs = append(jobs, func() { runTE(c, cv, "oncurve", []namedT{P}, nil, tpt{}, true, cv.onCurve(P.p)) })
			for _, s := range scs {
				s := s
				if c.Quick() && (P.name == "-R" || P.name == "R+B" || P.name == "2B") {
					continue
				}
				e, ok := cv.mul(P.p, s.v)
				jobs = append(jobs, func() { runTE(c, cv, "scalarmul", []namedT{P}, []namedScalar{s}, e, ok, true) })
			}
		}
		off := namedT{"offcurve", tpt{new(big.Int).Set(cv.base().X), cv.m(new(big.Int).Add(cv.base().Y, big.NewInt(1)))}}
		jobs = append(jobs, func() { runTE(c, cv, "oncurve", []namedT{off}, nil, tpt{}, true, cv.onCurve(off.p)) })
		// DoubleBaseScalarMul: pairs of points x pairs of scalars
		var dp []namedT
		for _, P := range pts {
			if P.name == "I" || P.name == "B" || P.name == "R" || P.name == "-B" || P.name == "T2=(0,-1)" {
				dp = append(dp, P)
			}
		}
		ds := pickS(scs, "0", "1", "l-1", "t")
		if !c.Quick() {
			ds = pickS(scs, "0", "1", "2", "l-1", "l", "t", "2^h")
		}
		for _, P := range dp {
			for _, Q := range dp {
				for _, s1 := range ds {
					for _, s2 := range ds {
						P, Q, s1, s2 := P, Q, s1, s2
						a, ok1 := cv.mul(P.p, s1.v)
						b, ok2 := cv.mul(Q.p, s2.v)
						e, ok3 := cv.add(a, b)
						jobs = append(jobs, func() {
							runTE(c, cv, "doublebase", []namedT{P, Q}, []namedScalar{s1, s2}, e, ok1 && ok2 && ok3, true)
						})
					}
				}
			}
		}
		jobs = append(jobs, eddsaJobs(c, cv)...)
	}
	return jobs
}

// ---- EdDSA

type eddsaCircuit struct {
	Pub eddsa.PublicKey
	Sig eddsa.Signature
	Msg frontend.Variable
	id  tedwards.ID
}

func (c *eddsaCircuit) Define(api frontend.API) error {
	cr, err := twistededwards.NewEdCurve(api, c.id)
	if err != nil {
		return err
	}
	h, err := mimc.NewMiMC(api)
	if err != nil {
		return err
	}
	return eddsa.Verify(cr, c.Sig, c.Msg, c.Pub, &h)
}

type detReader struct {
	state [32]byte
}

func (r *detReader) Read(p []byte) (int, error) {
	for i := range p {
		if i%32 == 0 {
			r.state = sha256.Sum256(r.state[:])
		}
		p[i] = r.state[i%32]
	}
	return len(p), nil
}

func eddsaJobs(c *vh.Check, cv *teCurve) []job {
	if cv.name == "bandersnatch" || !wantGroup(c, "eddsa") {
		return nil // gnark-crypto's generic EdDSA signer has no Bandersnatch instance
	}
	signer, err := gceddsa.New(cv.id, &detReader{})
	if err != nil {
		c.Fatal("eddsa key: %v", err)
	}
	other, err := gceddsa.New(cv.id, &detReader{state: [32]byte{1}})
	if err != nil {
		c.Fatal("eddsa key: %v", err)
	}
	fb := (cv.q.BitLen() + 7) / 8
	msg := new(big.Int).Mod(genericT, cv.q).FillBytes(make([]byte, fb))
	msg2 := new(big.Int).Mod(new(big.Int).Add(genericT, big.NewInt(1)), cv.q).FillBytes(make([]byte, fb))
	sig, err := signer.Sign(msg, cv.mimc.New())
	if err != nil {
		c.Fatal("eddsa sign: %v", err)
	}
	pub := signer.Public()
	if ok, err := pub.Verify(sig, msg, cv.mimc.New()); !ok || err != nil {
		c.Fatal("native eddsa rejects its own signature: %v", err)
	}
	// sig = R (compressed, fb bytes) || S (fb bytes, big endian)
	type variant struct {
		name string
		sig  []byte
		pub  []byte
		msg  []byte
	}
	modS := func(f func(s *big.Int) *big.Int) []byte {
		r := append([]byte(nil), sig...)
		s := new(big.Int).SetBytes(r[fb:])
		s = f(s)
		if s.Sign() < 0 || s.BitLen() > 8*fb {
			return nil
		}
		copy(r[fb:], s.FillBytes(make([]byte, fb)))
		return r
	}
	vs := []variant{
		{"valid", sig, pub.Bytes(), msg},
		{"S+l", modS(func(s *big.Int) *big.Int { return s.Add(s, cv.p.Order) }), pub.Bytes(), msg},
		{"S+1", modS(func(s *big.Int) *big.Int { return s.Add(s, big.NewInt(1)) }), pub.Bytes(), msg},
		{"S-1", modS(func(s *big.Int) *big.Int { return s.Sub(s, big.NewInt(1)) }), pub.Bytes(), msg},
		{"S=0", modS(func(s *big.Int) *big.Int { return s.SetInt64(0) }), pub.Bytes(), msg},
		{"l-S", modS(func(s *big.Int) *big.Int { return s.Sub(cv.p.Order, s) }), pub.Bytes(), msg},
		{"wrong-key", sig, other.Public().Bytes(), msg},
		{"wrong-msg", sig, pub.Bytes(), msg2},
	}
	var jobs []job
	jobs = append(jobs, eddsaCraftedJobs(c, cv, msg, fb)...)
	for _, v := range vs {
		v := v
		if v.sig == nil {
			continue
		}
		jobs = append(jobs, func() {
			var nativeOK bool
			p2 := signer.Public()
			if _, err := p2.SetBytes(v.pub); err == nil {
				nativeOK, _ = p2.Verify(v.sig, v.msg, cv.mimc.New())
			}
			var w eddsaCircuit
			w.id = cv.id
			w.Msg = new(big.Int).SetBytes(v.msg)
			w.Pub.Assign(cv.id, v.pub)
			w.Sig.Assign(cv.id, v.sig)
			var err error
			key := "eddsa:" + cv.name + "/" + v.name
			if guarded(runTimeout(c), func() { err = test.IsSolved(&eddsaCircuit{id: cv.id}, &w, cv.q) }) {
				viol(c, "eddsa:hang", key+"/hang", map[string]any{"what": "did not return"})
				return
			}
			c.Evals.Add(1)
			c.Traces.Add(1)
			c.Count("eddsa", cv.name, 1)
			switch {
			case (err == nil) == nativeOK:
				c.Outcome(fmt.Sprintf("eddsa:%s:agree-accept=%v", cv.name, nativeOK))
			case nativeOK:
				c.Outcome("eddsa:" + cv.name + ":valid-rejected")
				viol(c, "eddsa:"+cv.name+":valid-rejected", key, map[string]any{"what": "circuit rejects a signature the native verifier accepts", "error": shortErr(err)})
			default:
				c.Outcome("eddsa:" + cv.name + ":invalid-accepted:" + v.name)
				viol(c, "eddsa:"+cv.name+":invalid-accepted", key, map[string]any{"what": "circuit accepts a signature the native verifier rejects", "variant": v.name, "sig": fmt.Sprintf("%x", v.sig)})
			}
		})
	}
	return jobs
}

// refEdDSA: the cofactored verification equation of gnark-crypto's verifier on big.Int points:
// [c*S]B == [c](R + [H(R,A,M)]A), H = MiMC over the canonical encodings.
func refEdDSA(cv *teCurve, A, R tpt, S *big.Int, msg []byte, fb int) (bool, *big.Int) {
	if !cv.onCurve(A) || !cv.onCurve(R) {
		return false, nil
	}
	h := cv.mimc.New()
	for _, x := range []*big.Int{R.X, R.Y, A.X, A.Y} {
		h.Write(x.FillBytes(make([]byte, fb)))
	}
	h.Write(msg)
	hram := new(big.Int).SetBytes(h.Sum(nil))
	cof := cv.p.Cofactor
	l1, ok1 := cv.mul(cv.base(), S)
	lhs, ok2 := cv.mul(l1, cof)
	hA, ok3 := cv.mul(A, hram)
	sum, ok4 := cv.add(hA, R)
	rhs, ok5 := cv.mul(sum, cof)
	if !(ok1 && ok2 && ok3 && ok4 && ok5) {
		return false, hram
	}
	return lhs.eq(rhs), hram
}

// torsionOfOrder returns a point of exact order n (n a power of two dividing the cofactor), found
// as [l * cofactor/n] P for curve points P obtained by solving the curve equation; nil if none is
// found or the textbook addition law hits an exceptional case on the way.
func (c *teCurve) torsionOfOrder(n int64) *tpt {
	cof := c.p.Cofactor.Int64()
	if n < 2 || cof%n != 0 {
		return nil
	}
	k := new(big.Int).Mul(c.p.Order, big.NewInt(cof/n))
	for x := int64(2); x < 400; x++ {
		// y^2 = (1 - a x^2) / (1 - d x^2)
		X := big.NewInt(x)
		x2 := new(big.Int).Mul(X, X)
		num := c.m(new(big.Int).Sub(big.NewInt(1), new(big.Int).Mul(c.p.A, x2)))
		den := c.m(new(big.Int).Sub(big.NewInt(1), new(big.Int).Mul(c.p.D, x2)))
		if den.Sign() == 0 {
			continue
		}
		y2 := c.m(num.Mul(num, den.ModInverse(den, c.q)))
		Y := new(big.Int).ModSqrt(y2, c.q)
		if Y == nil {
			continue
		}
		P := tpt{X, Y}
		if !c.onCurve(P) {
			continue
		}
		T, ok := c.mul(P, k)
		if !ok {
			continue
		}
		// exact order n: [n]T = I and [n/2]T != I
		tn, ok1 := c.mul(T, big.NewInt(n))
		th, ok2 := c.mul(T, big.NewInt(n/2))
		if ok1 && ok2 && tn.eq(c.id0()) && !th.eq(c.id0()) {
			return &T
		}
	}
	return nil
}

// eddsaCraftedJobs: signatures made by a key holder whose commitment R carries a torsion
// component: R = [r]B + T with T of order 2, 4, ... up to the cofactor, S = r + H(R,A,M) a.  The
// cofactored equation of the native verifier holds (the reference is validated against
// gnark-crypto on the honest signature); the defect [S]B - [H]A - R = -T is killed only by the FULL
// cofactor.
func eddsaCraftedJobs(c *vh.Check, cv *teCurve, msg []byte, fb int) []job {
	a := new(big.Int).Mod(new(big.Int).Rsh(genericT, 3), cv.p.Order)
	r := new(big.Int).Mod(new(big.Int).Add(genericT, big.NewInt(777)), cv.p.Order)
	A, okA := cv.mul(cv.base(), a)
	R0, okR := cv.mul(cv.base(), r)
	if !okA || !okR {
		c.Fatal("eddsa crafted: base multiples hit an exceptional case on %s", cv.name)
	}
	sign := func(R tpt) *big.Int {
		_, hram := refEdDSA(cv, A, R, big.NewInt(0), msg, fb)
		s := new(big.Int).Mul(hram, a)
		return s.Add(s, r).Mod(s, cv.p.Order)
	}
	// conformance of the reference: an honest signature (T = identity) verifies, S+1 does not
	if ok, _ := refEdDSA(cv, A, R0, sign(R0), msg, fb); !ok {
		c.Fatal("eddsa reference rejects an honest signature on %s", cv.name)
	}
	if ok, _ := refEdDSA(cv, A, R0, new(big.Int).Add(sign(R0), big.NewInt(1)), msg, fb); ok {
		c.Fatal("eddsa reference accepts S+1 on %s", cv.name)
	}
	type crafted struct {
		name string
		R    tpt
		S    *big.Int
	}
	cs := []crafted{{"keyholder:honest", R0, sign(R0)}}
	for n := int64(2); n <= cv.p.Cofactor.Int64(); n *= 2 {
		T := cv.torsionOfOrder(n)
		if T == nil {
			c.Count("eddsa", fmt.Sprintf("%s: no torsion point of order %d found", cv.name, n), 1)
			continue
		}
		R, ok := cv.add(R0, *T)
		if !ok {
			continue
		}
		cs = append(cs, crafted{fmt.Sprintf("keyholder:R+T(order %d of cofactor %d)", n, cv.p.Cofactor.Int64()), R, sign(R)})
	}
	var jobs []job
	for _, k := range cs {
		k := k
		jobs = append(jobs, func() {
			want, _ := refEdDSA(cv, A, k.R, k.S, msg, fb)
			var w eddsaCircuit
			w.id = cv.id
			w.Msg = new(big.Int).SetBytes(msg)
			w.Pub.A.X, w.Pub.A.Y = A.X, A.Y
			w.Sig.R.X, w.Sig.R.Y = k.R.X, k.R.Y
			w.Sig.S = k.S
			var err error
			key := "eddsa:" + cv.name + "/" + k.name
			if guarded(runTimeout(c), func() { err = test.IsSolved(&eddsaCircuit{id: cv.id}, &w, cv.q) }) {
				viol(c, "eddsa:hang", key+"/hang", map[string]any{"what": "did not return"})
				return
			}
			c.Evals.Add(1)
			c.Traces.Add(1)
			c.Count("eddsa", cv.name, 1)
			switch {
			case (err == nil) == want:
				c.Outcome(fmt.Sprintf("eddsa:%s:crafted:agree-accept=%v", cv.name, want))
			case want:
				c.Outcome("eddsa:" + cv.name + ":valid-rejected")
				viol(c, "eddsa:"+cv.name+":valid-rejected", key, map[string]any{"what": "circuit rejects a signature that satisfies the native (cofactored) verification equation", "error": shortErr(err), "R": k.R.String(), "S": k.S.String()})
			default:
				c.Outcome("eddsa:" + cv.name + ":invalid-accepted:" + k.name)
				viol(c, "eddsa:"+cv.name+":invalid-accepted", key, map[string]any{"what": "circuit accepts a signature the cofactored equation rejects"})
			}
		})
	}
	return jobs
}
