package main

import (
	"fmt"
	"math/big"

	"github.com/consensys/gnark-crypto/ecc"
	bls12377 "github.com/consensys/gnark-crypto/ecc/bls12-377"
	"github.com/consensys/gnark-crypto/ecc/bn254"
	"github.com/consensys/gnark/frontend"
	"github.com/consensys/gnark/internal/verifh/vh"
	"github.com/consensys/gnark/std/algebra/emulated/sw_bn254"
	"github.com/consensys/gnark/std/algebra/emulated/sw_emulated"
	"github.com/consensys/gnark/std/algebra/native/sw_bls12377"
	"github.com/consensys/gnark/std/evmprecompiles"
	"github.com/consensys/gnark/std/math/emulated"
	"github.com/consensys/gnark/test"
)

var bnField = ecc.BN254.ScalarField()

type bnP = sw_emulated.AffinePoint[emulated.BN254Fp]

func bnWitness(p pt) bnP {
	x, y := coordOf(p)
	return bnP{X: emulated.ValueOf[emulated.BN254Fp](x), Y: emulated.ValueOf[emulated.BN254Fp](y)}
}

// ---- ECAdd / ECMul through the generic op judge (family "evm:bnadd" / "evm:bnmul")

type evmECCircuit struct {
	P  []bnP
	S  []emulated.Element[emulated.BN254Fr]
	op string
	cp *capture
}

func (c *evmECCircuit) Define(api frontend.API) error {
	var res *bnP
	if c.op == "bnadd" {
		res = evmprecompiles.ECAdd(api, &c.P[0], &c.P[1])
	} else {
		res = evmprecompiles.ECMul(api, &c.P[0], &c.S[0])
	}
	fam := emuFamily[emulated.BN254Fp, emulated.BN254Fr](crvBN)
	vals := fam.coords(api, res)
	cp := c.cp
	_, err := api.Compiler().NewHint(func(_ *big.Int, in, out []*big.Int) error {
		cp.vals = make([]*big.Int, len(in))
		for i := range in {
			cp.vals[i] = new(big.Int).Set(in[i])
		}
		out[0].SetUint64(0)
		return nil
	}, 1, vals...)
	return err
}

func evmECJobs(c *vh.Check) []job {
	var jobs []job
	ref := crvBN
	fam := emuFamily[emulated.BN254Fp, emulated.BN254Fr](ref)
	run := func(k *opCase, op string) {
		shape := &evmECCircuit{P: make([]bnP, len(k.pts)), S: make([]emulated.Element[emulated.BN254Fr], len(k.scs)), op: op, cp: &capture{}}
		asg := &evmECCircuit{P: make([]bnP, len(k.pts)), S: make([]emulated.Element[emulated.BN254Fr], len(k.scs)), op: op, cp: shape.cp}
		for i, p := range k.pts {
			asg.P[i] = bnWitness(p.p)
		}
		for i, s := range k.scs {
			asg.S[i] = scalarWitness[emulated.BN254Fr](s.v)
		}
		var err error
		if guarded(runTimeout(c), func() { err = test.IsSolved(shape, asg, bnField) }) {
			viol(c, "evm:"+op+":hang", k.key("evm:"+op)+"/hang", map[string]any{"what": "the precompile circuit did not return"})
			return
		}
		var got pt
		if err == nil && shape.cp.vals != nil {
			got = fam.decode(shape.cp.vals)
		}
		judgeOp(c, "evm:"+op, ref, k, got, err == nil, err)
	}
	if wantGroup(c, "evm:bnadd") {
		for _, P := range ref.points() {
			for _, Q := range ref.points() {
				k := &opCase{sp: opSpec{op: "bnadd"}, pts: []namedPoint{P, Q}, expect: ref.add(P.p, Q.p), inDomain: true}
				jobs = append(jobs, func() { run(k, "bnadd") })
			}
		}
	}
	if wantGroup(c, "evm:bnmul") {
		ps := pick(ref.points(), "O", "G", "R", "phi(G)")
		if !c.Quick() {
			ps = ref.points()
		}
		for _, P := range ps {
			for _, s := range ref.scalars() {
				if isHanging(ref.name, s.name) && s.name != "r-1" {
					c.Count("skipped", "evm:bnmul:scalar-with-non-terminating-hint", 1)
					continue
				}
				k := &opCase{sp: opSpec{op: "bnmul"}, pts: []namedPoint{P}, scs: []namedScalar{s}, expect: ref.mul(P.p, s.v), inDomain: true}
				jobs = append(jobs, func() { run(k, "bnmul") })
			}
		}
	}
	return jobs
}

// ---- Expmod

type expmodCircuit struct {
	B, E, M emulated.Element[emulated.BN254Fp]
	R       emulated.Element[emulated.BN254Fp]
}

func (c *expmodCircuit) Define(api frontend.API) error {
	f, err := emulated.NewField[emulated.BN254Fp](api)
	if err != nil {
		return err
	}
	res := evmprecompiles.Expmod(api, &c.B, &c.E, &c.M)
	f.AssertIsEqual(res, &c.R)
	return nil
}

func rawEl(v *big.Int) emulated.Element[emulated.BN254Fp] {
	// exact (unreduced) limbs: Expmod treats the elements as plain integers
	limbs := make([]frontend.Variable, 4)
	t := new(big.Int).Set(v)
	mask := new(big.Int).Sub(new(big.Int).Lsh(big.NewInt(1), 64), big.NewInt(1))
	for i := range limbs {
		limbs[i] = new(big.Int).And(t, mask)
		t.Rsh(t, 64)
	}
	return emulated.Element[emulated.BN254Fp]{Limbs: limbs}
}

func expmodJobs(c *vh.Check) []job {
	if !wantGroup(c, "evm:expmod") {
		return nil
	}
	p := crvBN.p
	tt := new(big.Int).Mod(genericT, p)
	vals := []namedScalar{{"0", big.NewInt(0)}, {"1", big.NewInt(1)}, {"2", big.NewInt(2)}, {"3", big.NewInt(3)}, {"t", tt}, {"2^128", new(big.Int).Lsh(big.NewInt(1), 128)}, {"p-1", new(big.Int).Sub(p, big.NewInt(1))}}
	mods := append([]namedScalar{{"2^64", new(big.Int).Lsh(big.NewInt(1), 64)}, {"t|1", new(big.Int).Or(tt, big.NewInt(1))}}, vals...)
	if c.Quick() {
		vals = vals[:5]
		mods = mods[:7]
	}
	var jobs []job
	for _, b := range vals {
		for _, e := range vals {
			for _, m := range mods {
				b, e, m := b, e, m
				jobs = append(jobs, func() {
					want := new(big.Int)
					if m.v.Sign() != 0 && m.v.Cmp(big.NewInt(1)) != 0 {
						want.Exp(b.v, e.v, m.v)
					}
					key := fmt.Sprintf("evm:expmod/base=%s/exp=%s/mod=%s", b.name, e.name, m.name)
					mk := func(r *big.Int) *expmodCircuit {
						return &expmodCircuit{B: rawEl(b.v), E: rawEl(e.v), M: rawEl(m.v), R: rawEl(r)}
					}
					err := test.IsSolved(&expmodCircuit{}, mk(want), bnField)
					c.Evals.Add(1)
					c.Traces.Add(1)
					c.Count("evm", "expmod", 1)
					if err != nil {
						c.Outcome("evm:expmod:native-result-rejected")
						viol(c, "evm:expmod:rejected", key, map[string]any{"what": "math/big result rejected", "want": want.Text(16), "error": shortErr(err)})
						return
					}
					c.Outcome("evm:expmod:native-result-accepted")
					if b.name == "t" || e.name == "2" {
						bad := new(big.Int).Add(want, big.NewInt(1))
						err = test.IsSolved(&expmodCircuit{}, mk(bad), bnField)
						c.Evals.Add(1)
						if err == nil {
							c.Outcome("evm:expmod:wrong-result-accepted")
							viol(c, "evm:expmod:wrong-accepted", key+"/plus1", map[string]any{"what": "result+1 accepted"})
						} else {
							c.Outcome("evm:expmod:wrong-result-rejected")
						}
					}
				})
			}
		}
	}
	return jobs
}

// ---- ECRecover

type ecrecoverCircuit struct {
	Msg       emulated.Element[emulated.Secp256k1Fr]
	V         frontend.Variable
	R, S      emulated.Element[emulated.Secp256k1Fr]
	Strict    frontend.Variable
	IsFailure frontend.Variable
	Exp       sw_emulated.AffinePoint[emulated.Secp256k1Fp]
}

func (c *ecrecoverCircuit) Define(api frontend.API) error {
	cr, err := sw_emulated.New[emulated.Secp256k1Fp, emulated.Secp256k1Fr](api, sw_emulated.GetSecp256k1Params())
	if err != nil {
		return err
	}
	res := evmprecompiles.ECRecover(api, c.Msg, c.V, c.R, c.S, c.Strict, c.IsFailure)
	cr.AssertIsEqual(res, &c.Exp)
	return nil
}

// refRecover: Q = r^-1 (s R - m G) with R = (r, y of parity v); ok=false when r is not the
// x coordinate of a curve point or the result is infinity.
func refRecover(m, r, s *big.Int, v int) (pt, bool) {
	c := crvSecp
	if r.Sign() == 0 || r.Cmp(c.r) >= 0 || s.Sign() == 0 || s.Cmp(c.r) >= 0 {
		return inf(), false
	}
	rhs := new(big.Int).Mul(r, r)
	rhs.Mul(rhs, r).Add(rhs, c.b).Mod(rhs, c.p)
	y := new(big.Int).ModSqrt(rhs, c.p)
	if y == nil {
		return inf(), false
	}
	if int(y.Bit(0)) != v {
		y.Sub(c.p, y)
	}
	R := pt{X: new(big.Int).Set(r), Y: y}
	Q := c.mul(c.add(c.mul(R, s), c.neg(c.mul(c.G, m))), new(big.Int).ModInverse(r, c.r))
	return Q, !Q.Inf
}

func ecrecoverJobs(c *vh.Check) []job {
	if !wantGroup(c, "evm:ecrecover") {
		return nil
	}
	ref := crvSecp
	n := ref.r
	d := new(big.Int).Mod(new(big.Int).Lsh(genericT, 3), n)
	m := new(big.Int).Mod(new(big.Int).Rsh(genericT, 1), n)
	Q := ref.mul(ref.G, d)
	half := new(big.Int).Rsh(new(big.Int).Sub(n, big.NewInt(1)), 1)
	type rc struct {
		name             string
		m, r, s          *big.Int
		v                int
		strict, fail     int
		exp              pt
		accept, judgeRej bool
	}
	var cases []rc
	for i := int64(0); i < 2; i++ {
		k := new(big.Int).Mod(new(big.Int).Add(genericT, big.NewInt(777+i)), n)
		R := ref.mul(ref.G, k)
		r := new(big.Int).Mod(R.X, n)
		s := new(big.Int).Mul(r, d)
		s.Add(s, m).Mul(s, new(big.Int).ModInverse(k, n)).Mod(s, n)
		v := int(R.Y.Bit(0))
		tag := fmt.Sprintf("sig%d", i)
		cases = append(cases, rc{tag + "/valid", m, r, s, v, 0, 0, Q, true, true})
		// the other parity recovers another key
		if q2, ok := refRecover(m, r, s, 1-v); ok {
			cases = append(cases, rc{tag + "/other-v", m, r, s, 1 - v, 0, 0, q2, true, true})
		}
		cases = append(cases, rc{tag + "/valid-but-wrong-expected-key", m, r, s, v, 0, 0, ref.add(Q, ref.G), false, true})
		cases = append(cases, rc{tag + "/valid-claimed-failure", m, r, s, v, 0, 1, inf(), false, true})
		// malleated (r, n-s) with flipped v recovers the same key; strict range accepts only the low s
		ns := new(big.Int).Sub(n, s)
		low, high, vl, vh := s, ns, v, 1-v
		if s.Cmp(half) > 0 {
			low, high, vl, vh = ns, s, 1-v, v
		}
		cases = append(cases, rc{tag + "/low-s-strict", m, r, low, vl, 1, 0, Q, true, true})
		cases = append(cases, rc{tag + "/high-s-strict", m, r, high, vh, 1, 0, Q, false, true})
		cases = append(cases, rc{tag + "/high-s-nonstrict", m, r, high, vh, 0, 0, Q, true, true})
		cases = append(cases, rc{tag + "/r=0", m, big.NewInt(0), s, v, 0, 0, inf(), false, true})
		cases = append(cases, rc{tag + "/s=0", m, r, big.NewInt(0), v, 0, 0, Q, false, true})
	}
	// the boundary of the strict range, made by the signer: fix d and k, r = x([k]G), choose s and
	// solve the (already hashed) message m = s*k - r*d: s = (n-1)/2 is the largest low s, s = (n+1)/2 the
	// smallest high one
	{
		k := new(big.Int).Mod(new(big.Int).Add(genericT, big.NewInt(4242)), n)
		R := ref.mul(ref.G, k)
		r := new(big.Int).Mod(R.X, n)
		v := int(R.Y.Bit(0))
		for _, b := range []struct {
			name string
			s    *big.Int
			low  bool
		}{{"s=(n-1)/2", half, true}, {"s=(n+1)/2", new(big.Int).Add(half, big.NewInt(1)), false}, {"s=(n-3)/2", new(big.Int).Sub(half, big.NewInt(1)), true}} {
			mm := new(big.Int).Mul(b.s, k)
			mm.Sub(mm, new(big.Int).Mul(r, d)).Mod(mm, n)
			if q, ok := refRecover(mm, r, b.s, v); !ok || !q.eq(Q) {
				c.Fatal("ecrecover boundary case %s: the reference does not recover the signer's key", b.name)
			}
			cases = append(cases, rc{"boundary/" + b.name + "/strict", mm, r, b.s, v, 1, 0, Q, b.low, true})
			cases = append(cases, rc{"boundary/" + b.name + "/nonstrict", mm, r, b.s, v, 0, 0, Q, true, true})
		}
	}
	// r not an x coordinate (quadratic non-residue): failure must be claimed, output (0,0)
	for x := int64(1); x < 50; x++ {
		r := big.NewInt(x)
		if _, ok := refRecover(m, r, big.NewInt(5), 0); !ok {
			cases = append(cases, rc{"qnr/claimed-failure", m, r, big.NewInt(5), 0, 0, 1, inf(), true, true})
			cases = append(cases, rc{"qnr/claimed-success", m, r, big.NewInt(5), 0, 0, 0, inf(), false, true})
			break
		}
	}
	var jobs []job
	for _, k := range cases {
		k := k
		jobs = append(jobs, func() {
			x, y := coordOf(k.exp)
			asg := &ecrecoverCircuit{Msg: scalarWitness[emulated.Secp256k1Fr](k.m), V: k.v + 27, R: scalarWitness[emulated.Secp256k1Fr](k.r), S: scalarWitness[emulated.Secp256k1Fr](k.s),
				Strict: k.strict, IsFailure: k.fail,
				Exp: sw_emulated.AffinePoint[emulated.Secp256k1Fp]{X: emulated.ValueOf[emulated.Secp256k1Fp](x), Y: emulated.ValueOf[emulated.Secp256k1Fp](y)}}
			var err error
			key := "evm:ecrecover/" + k.name
			if guarded(runTimeout(c), func() { err = test.IsSolved(&ecrecoverCircuit{}, asg, bnField) }) {
				viol(c, "evm:ecrecover:hang", key+"/hang", map[string]any{"what": "did not return", "r": k.r.Text(16), "s": k.s.Text(16), "m": k.m.Text(16)})
				return
			}
			c.Evals.Add(1)
			c.Traces.Add(1)
			c.Count("evm", "ecrecover", 1)
			d := map[string]any{"r": k.r.Text(16), "s": k.s.Text(16), "m": k.m.Text(16), "v": k.v + 27, "strict": k.strict, "isFailure": k.fail, "expected_key": k.exp.String(), "error": shortErr(err)}
			switch {
			case (err == nil) == k.accept:
				c.Outcome(fmt.Sprintf("evm:ecrecover:agree-accept=%v", k.accept))
			case k.accept:
				c.Outcome("evm:ecrecover:valid-rejected")
				d["what"] = "a correct recovery statement cannot be satisfied"
				viol(c, "evm:ecrecover:valid-rejected", key, d)
			default:
				c.Outcome("evm:ecrecover:invalid-accepted")
				d["what"] = "a wrong recovery statement is satisfied"
				viol(c, "evm:ecrecover:invalid-accepted", key, d)
			}
		})
	}
	return jobs
}

// ---- pairing checks: bn254 precompile (emulated) and the native bls12-377 pairing

type ecpairCircuit struct {
	P []sw_bn254.G1Affine
	Q []sw_bn254.G2Affine
}

func (c *ecpairCircuit) Define(api frontend.API) error {
	evmprecompiles.ECPair(api, ptrs(c.P), ptrs(c.Q))
	return nil
}

type pair377Circuit struct {
	P []sw_bls12377.G1Affine
	Q []sw_bls12377.G2Affine
}

func (c *pair377Circuit) Define(api frontend.API) error {
	return sw_bls12377.NewPairing(api).PairingCheck(ptrs(c.P), ptrs(c.Q))
}

func pairingJobs(c *vh.Check) []job {
	var jobs []job
	judge := func(name string, err error, want bool, key string) {
		c.Evals.Add(1)
		c.Traces.Add(1)
		c.Count("pairing", name, 1)
		switch {
		case (err == nil) == want:
			c.Outcome(fmt.Sprintf("pairing:%s:agree-accept=%v", name, want))
		case want:
			c.Outcome("pairing:" + name + ":valid-rejected")
			viol(c, "pairing:"+name+":valid-rejected", key, map[string]any{"what": "pairing equation that holds natively is rejected", "error": shortErr(err)})
		default:
			c.Outcome("pairing:" + name + ":invalid-accepted")
			viol(c, "pairing:"+name+":invalid-accepted", key, map[string]any{"what": "pairing equation that fails natively is accepted"})
		}
	}
	if wantGroup(c, "pairing:bn254") {
		_, _, g1, g2 := bn254.Generators()
		var a, na, b, zero1 bn254.G1Affine
		a.ScalarMultiplication(&g1, big.NewInt(5))
		na.Neg(&a)
		b.ScalarMultiplication(&g1, big.NewInt(7))
		var q, q2, nq bn254.G2Affine
		q.ScalarMultiplication(&g2, big.NewInt(3))
		q2.ScalarMultiplication(&g2, big.NewInt(11))
		nq.Neg(&q)
		type pc struct {
			name string
			P    []bn254.G1Affine
			Q    []bn254.G2Affine
		}
		cases := []pc{
			{"valid:(a,q)(-a,q)", []bn254.G1Affine{a, na}, []bn254.G2Affine{q, q}},
			{"valid-swapped:(-a,q)(a,q)", []bn254.G1Affine{na, a}, []bn254.G2Affine{q, q}},
			{"valid:(a,q)(a,-q)", []bn254.G1Affine{a, a}, []bn254.G2Affine{q, nq}},
			{"invalid:(a,q)(a,q)", []bn254.G1Affine{a, a}, []bn254.G2Affine{q, q}},
			{"invalid:(a,q)(-b,q)", []bn254.G1Affine{a, b}, []bn254.G2Affine{q, q}},
			{"invalid-points-swapped:(a,q)(-a,q2)", []bn254.G1Affine{a, na}, []bn254.G2Affine{q, q2}},
			{"valid:(O,q)(O,q2)", []bn254.G1Affine{zero1, zero1}, []bn254.G2Affine{q, q2}},
			{"invalid:(O,q)(a,q2)", []bn254.G1Affine{zero1, a}, []bn254.G2Affine{q, q2}},
		}
		if c.Quick() {
			cases = []pc{cases[0], cases[3], cases[5], cases[6]}
		}
		for _, k := range cases {
			k := k
			jobs = append(jobs, func() {
				want, err := bn254.PairingCheck(k.P, k.Q)
				if err != nil {
					c.Fatal("native pairing: %v", err)
				}
				asg := &ecpairCircuit{}
				for i := range k.P {
					asg.P = append(asg.P, sw_bn254.NewG1Affine(k.P[i]))
					asg.Q = append(asg.Q, sw_bn254.NewG2Affine(k.Q[i]))
				}
				shape := &ecpairCircuit{P: make([]sw_bn254.G1Affine, len(k.P)), Q: make([]sw_bn254.G2Affine, len(k.Q))}
				var e error
				if guarded(runTimeout(c), func() { e = test.IsSolved(shape, asg, bnField) }) {
					viol(c, "pairing:bn254:hang", "evm:bnpairing/"+k.name+"/hang", map[string]any{"what": "did not return"})
					return
				}
				judge("evm-bnpairing", e, want, "evm:bnpairing/"+k.name)
			})
		}
	}
	if wantGroup(c, "pairing:bls12-377") {
		_, _, g1, g2 := bls12377.Generators()
		var a, na, b, zero1 bls12377.G1Affine
		a.ScalarMultiplication(&g1, big.NewInt(5))
		na.Neg(&a)
		b.ScalarMultiplication(&g1, big.NewInt(7))
		var q, q2, nq bls12377.G2Affine
		q.ScalarMultiplication(&g2, big.NewInt(3))
		q2.ScalarMultiplication(&g2, big.NewInt(11))
		nq.Neg(&q)
		type pc struct {
			name string
			P    []bls12377.G1Affine
			Q    []bls12377.G2Affine
		}
		cases := []pc{
			{"valid:(a,q)(-a,q)", []bls12377.G1Affine{a, na}, []bls12377.G2Affine{q, q}},
			{"valid-swapped:(-a,q)(a,q)", []bls12377.G1Affine{na, a}, []bls12377.G2Affine{q, q}},
			{"valid:(a,q)(a,-q)", []bls12377.G1Affine{a, a}, []bls12377.G2Affine{q, nq}},
			{"invalid:(a,q)(a,q)", []bls12377.G1Affine{a, a}, []bls12377.G2Affine{q, q}},
			{"invalid:(a,q)(-b,q)", []bls12377.G1Affine{a, b}, []bls12377.G2Affine{q, q}},
			{"invalid-points-swapped:(a,q)(-a,q2)", []bls12377.G1Affine{a, na}, []bls12377.G2Affine{q, q2}},
			{"valid:(O,q)(O,q2)", []bls12377.G1Affine{zero1, zero1}, []bls12377.G2Affine{q, q2}},
			{"invalid:(O,q)(a,q2)", []bls12377.G1Affine{zero1, a}, []bls12377.G2Affine{q, q2}},
			{"valid-3:(a,q)(b,q)(-(a+b),q)", nil, nil},
		}
		var ab bls12377.G1Affine
		ab.Add(&a, &b)
		ab.Neg(&ab)
		cases[8].P = []bls12377.G1Affine{a, b, ab}
		cases[8].Q = []bls12377.G2Affine{q, q, q}
		for _, k := range cases {
			k := k
			jobs = append(jobs, func() {
				want, err := bls12377.PairingCheck(k.P, k.Q)
				if err != nil {
					c.Fatal("native pairing: %v", err)
				}
				asg := &pair377Circuit{}
				for i := range k.P {
					asg.P = append(asg.P, sw_bls12377.NewG1Affine(k.P[i]))
					asg.Q = append(asg.Q, sw_bls12377.NewG2Affine(k.Q[i]))
				}
				shape := &pair377Circuit{P: make([]sw_bls12377.G1Affine, len(k.P)), Q: make([]sw_bls12377.G2Affine, len(k.Q))}
				var e error
				if guarded(runTimeout(c), func() { e = test.IsSolved(shape, asg, ecc.BW6_761.ScalarField()) }) {
					viol(c, "pairing:bls12-377:hang", "pairing:bls12-377/"+k.name+"/hang", map[string]any{"what": "did not return"})
					return
				}
				judge("native-bls12-377", e, want, "pairing:bls12-377/"+k.name)
			})
		}
	}
	return jobs
}
