package main

import (
	"crypto/elliptic"
	"fmt"
	"math/big"
	"sync"

	bls12377 "github.com/consensys/gnark-crypto/ecc/bls12-377"
	fr377 "github.com/consensys/gnark-crypto/ecc/bls12-377/fr"
	bls12381 "github.com/consensys/gnark-crypto/ecc/bls12-381"
	bls24315 "github.com/consensys/gnark-crypto/ecc/bls24-315"
	fr315 "github.com/consensys/gnark-crypto/ecc/bls24-315/fr"
	"github.com/consensys/gnark-crypto/ecc/bn254"
	bw6761 "github.com/consensys/gnark-crypto/ecc/bw6-761"
	"github.com/consensys/gnark-crypto/ecc/secp256k1"
	"github.com/consensys/gnark/std/algebra/emulated/sw_emulated"
	"github.com/consensys/gnark/std/math/emulated"
)

// pt is an affine point of the reference; Inf encodes the point at infinity, which the gadgets
// represent as (0,0).
type pt struct {
	X, Y *big.Int
	Inf  bool
}

func inf() pt { return pt{X: new(big.Int), Y: new(big.Int), Inf: true} }

func (p pt) String() string {
	if p.Inf {
		return "O"
	}
	return fmt.Sprintf("(%s,%s)", p.X.Text(16), p.Y.Text(16))
}

func (p pt) eq(q pt) bool {
	if p.Inf || q.Inf {
		return p.Inf == q.Inf
	}
	return p.X.Cmp(q.X) == 0 && p.Y.Cmp(q.Y) == 0
}

// swCurve: y^2 = x^3 + a x + b over F_p, subgroup order r, generator G. Boring textbook
// affine arithmetic with big.Int; validated against gnark-crypto / crypto/elliptic in validate().
type swCurve struct {
	name       string
	p, a, b, r *big.Int
	G          pt
	lambda     *big.Int // [lambda]P = (omega x, y) on the subgroup (j = 0 curves), else nil
	omega      *big.Int
	cofactor1  bool
	// native [k]G for validation
	nativeBase func(k *big.Int) pt
	ptsOnce    sync.Once
	pts        []namedPoint
}

func (c *swCurve) mod(x *big.Int) *big.Int { return x.Mod(x, c.p) }

func (c *swCurve) onCurve(q pt) bool {
	if q.Inf {
		return true
	}
	l := new(big.Int).Mul(q.Y, q.Y)
	r := new(big.Int).Mul(q.X, q.X)
	r.Mul(r, q.X)
	r.Add(r, new(big.Int).Mul(c.a, q.X))
	r.Add(r, c.b)
	return c.mod(l).Cmp(c.mod(r)) == 0
}

func (c *swCurve) neg(q pt) pt {
	if q.Inf {
		return inf()
	}
	y := new(big.Int).Neg(q.Y)
	return pt{X: new(big.Int).Set(q.X), Y: c.mod(y)}
}

func (c *swCurve) add(p1, p2 pt) pt {
	if p1.Inf {
		return p2
	}
	if p2.Inf {
		return p1
	}
	var l *big.Int
	if p1.X.Cmp(p2.X) == 0 {
		s := new(big.Int).Add(p1.Y, p2.Y)
		if c.mod(s).Sign() == 0 {
			return inf()
		}
		// doubling
		n := new(big.Int).Mul(p1.X, p1.X)
		n.Mul(n, big.NewInt(3)).Add(n, c.a)
		d := new(big.Int).Lsh(p1.Y, 1)
		l = n.Mul(n, d.ModInverse(c.mod(d), c.p))
	} else {
		n := new(big.Int).Sub(p2.Y, p1.Y)
		d := new(big.Int).Sub(p2.X, p1.X)
		l = n.Mul(n, d.ModInverse(c.mod(d), c.p))
	}
	c.mod(l)
	x := new(big.Int).Mul(l, l)
	x.Sub(x, p1.X).Sub(x, p2.X)
	c.mod(x)
	y := new(big.Int).Sub(p1.X, x)
	y.Mul(y, l).Sub(y, p1.Y)
	return pt{X: x, Y: c.mod(y)}
}

// mul computes [k]q by double-and-add for any integer k >= 0 (no reduction of k: the group law
// does that).
func (c *swCurve) mul(q pt, k *big.Int) pt {
	acc := inf()
	for i := k.BitLen() - 1; i >= 0; i-- {
		acc = c.add(acc, acc)
		if k.Bit(i) == 1 {
			acc = c.add(acc, q)
		}
	}
	return acc
}

func (c *swCurve) phi(q pt) pt {
	if q.Inf {
		return q
	}
	x := new(big.Int).Mul(q.X, c.omega)
	return pt{X: c.mod(x), Y: new(big.Int).Set(q.Y)}
}

// firstPointOffSubgroup returns the curve point with the smallest x >= 1 that is not in the
// r-torsion (only for curves with cofactor != 1).
func (c *swCurve) firstPointOffSubgroup() (pt, bool) {
	if c.cofactor1 {
		return pt{}, false
	}
	for x := int64(1); x < 200; x++ {
		X := big.NewInt(x)
		rhs := new(big.Int).Mul(X, X)
		rhs.Mul(rhs, X).Add(rhs, new(big.Int).Mul(c.a, X)).Add(rhs, c.b)
		c.mod(rhs)
		y := new(big.Int).ModSqrt(rhs, c.p)
		if y == nil {
			continue
		}
		q := pt{X: X, Y: y}
		if !c.mul(q, c.r).Inf {
			return q, true
		}
	}
	return pt{}, false
}

// offCurve returns a point that does not satisfy the curve equation.
func (c *swCurve) offCurve() pt {
	y := new(big.Int).Add(c.G.Y, big.NewInt(1))
	return pt{X: new(big.Int).Set(c.G.X), Y: c.mod(y)}
}

func fromParams(name string, p, r *big.Int, cp sw_emulated.CurveParams, cof1 bool) *swCurve {
	return &swCurve{name: name, p: p, r: r, a: cp.A, b: cp.B, G: pt{X: cp.Gx, Y: cp.Gy}, lambda: cp.Eigenvalue, omega: cp.ThirdRootOne, cofactor1: cof1}
}

func modOf[T emulated.FieldParams]() *big.Int { var t T; return t.Modulus() }

var (
	crvSecp   = fromParams("secp256k1", modOf[emulated.Secp256k1Fp](), modOf[emulated.Secp256k1Fr](), sw_emulated.GetSecp256k1Params(), true)
	crvBN     = fromParams("bn254", modOf[emulated.BN254Fp](), modOf[emulated.BN254Fr](), sw_emulated.GetBN254Params(), true)
	crvP256   = fromParams("p256", modOf[emulated.P256Fp](), modOf[emulated.P256Fr](), sw_emulated.GetP256Params(), true)
	crvP384   = fromParams("p384", modOf[emulated.P384Fp](), modOf[emulated.P384Fr](), sw_emulated.GetP384Params(), true)
	crvBLS381 = fromParams("bls12-381", modOf[emulated.BLS12381Fp](), modOf[emulated.BLS12381Fr](), sw_emulated.GetBLS12381Params(), false)
	crvBW6    = fromParams("bw6-761", modOf[emulated.BW6761Fp](), modOf[emulated.BW6761Fr](), sw_emulated.GetBW6761Params(), false)
	crv377    = new377()
	crv315    = new315()
)

// findEndo finds (lambda, omega) with [lambda]G = (omega Gx, Gy) for a j=0 curve.
func (c *swCurve) findEndo() {
	cube := func(m *big.Int) []*big.Int {
		e := new(big.Int).Sub(m, big.NewInt(1))
		e.Div(e, big.NewInt(3))
		for g := int64(2); ; g++ {
			w := new(big.Int).Exp(big.NewInt(g), e, m)
			if w.Cmp(big.NewInt(1)) != 0 {
				w2 := new(big.Int).Mul(w, w)
				return []*big.Int{w, w2.Mod(w2, m)}
			}
		}
	}
	for _, l := range cube(c.r) {
		q := c.mul(c.G, l)
		for _, w := range cube(c.p) {
			x := new(big.Int).Mul(c.G.X, w)
			if c.mod(x).Cmp(q.X) == 0 && q.Y.Cmp(c.G.Y) == 0 {
				c.lambda, c.omega = l, w
				return
			}
		}
	}
	panic("no endomorphism found for " + c.name)
}

func new377() *swCurve {
	_, _, g377, _ := bls12377.Generators()
	crv377 := &swCurve{name: "bls12-377", p: bls12377.ID.BaseField(), r: fr377.Modulus(), a: big.NewInt(0), b: big.NewInt(1),
		G: pt{X: g377.X.BigInt(new(big.Int)), Y: g377.Y.BigInt(new(big.Int))}}
	crv377.findEndo()
	crv377.nativeBase = func(k *big.Int) pt {
		var q bls12377.G1Affine
		q.ScalarMultiplicationBase(k)
		return pt{X: q.X.BigInt(new(big.Int)), Y: q.Y.BigInt(new(big.Int)), Inf: q.IsInfinity()}
	}
	return crv377
}

func new315() *swCurve {
	_, _, g315, _ := bls24315.Generators()
	crv315 := &swCurve{name: "bls24-315", p: bls24315.ID.BaseField(), r: fr315.Modulus(), a: big.NewInt(0), b: big.NewInt(1),
		G: pt{X: g315.X.BigInt(new(big.Int)), Y: g315.Y.BigInt(new(big.Int))}}
	crv315.findEndo()
	crv315.nativeBase = func(k *big.Int) pt {
		var q bls24315.G1Affine
		q.ScalarMultiplicationBase(k)
		return pt{X: q.X.BigInt(new(big.Int)), Y: q.Y.BigInt(new(big.Int)), Inf: q.IsInfinity()}
	}
	return crv315
}

func init() {
	crvSecp.nativeBase = func(k *big.Int) pt {
		var q secp256k1.G1Affine
		q.ScalarMultiplicationBase(k)
		return pt{X: q.X.BigInt(new(big.Int)), Y: q.Y.BigInt(new(big.Int)), Inf: q.IsInfinity()}
	}
	crvBN.nativeBase = func(k *big.Int) pt {
		var q bn254.G1Affine
		q.ScalarMultiplicationBase(k)
		return pt{X: q.X.BigInt(new(big.Int)), Y: q.Y.BigInt(new(big.Int)), Inf: q.IsInfinity()}
	}
	crvBLS381.nativeBase = func(k *big.Int) pt {
		var q bls12381.G1Affine
		q.ScalarMultiplicationBase(k)
		return pt{X: q.X.BigInt(new(big.Int)), Y: q.Y.BigInt(new(big.Int)), Inf: q.IsInfinity()}
	}
	crvBW6.nativeBase = func(k *big.Int) pt {
		var q bw6761.G1Affine
		q.ScalarMultiplicationBase(k)
		return pt{X: q.X.BigInt(new(big.Int)), Y: q.Y.BigInt(new(big.Int)), Inf: q.IsInfinity()}
	}
	ell := func(e elliptic.Curve) func(k *big.Int) pt {
		return func(k *big.Int) pt {
			kk := new(big.Int).Mod(k, e.Params().N)
			if kk.Sign() == 0 {
				return inf()
			}
			x, y := e.ScalarBaseMult(kk.Bytes())
			return pt{X: x, Y: y}
		}
	}
	crvP256.nativeBase = ell(elliptic.P256())
	crvP384.nativeBase = ell(elliptic.P384())
}

// validate checks the reference against the native library on honest values; any disagreement
// is a harness error.
func (c *swCurve) validate() error {
	if !c.onCurve(c.G) {
		return fmt.Errorf("%s: generator not on curve", c.name)
	}
	if !c.mul(c.G, c.r).Inf {
		return fmt.Errorf("%s: [r]G != O", c.name)
	}
	for _, k := range c.scalars() {
		want := c.nativeBase(k.v)
		got := c.mul(c.G, k.v)
		if !want.eq(got) {
			return fmt.Errorf("%s: reference [%s]G = %v, native %v", c.name, k.name, got, want)
		}
	}
	if c.lambda != nil {
		if !c.mul(c.G, c.lambda).eq(c.phi(c.G)) {
			return fmt.Errorf("%s: [lambda]G != phi(G)", c.name)
		}
	}
	return nil
}

type namedScalar struct {
	name string
	v    *big.Int
}

type namedPoint struct {
	name string
	p    pt
}

var genericT, _ = new(big.Int).SetString("1f3a5c7e9b2d4f6081a3c5e7092b4d6f8e1a3c5b7d9f20416385a7c9eb0d2f41", 16)

// scalars: the boundary alphabet of scalars for the curve (values may exceed r).
func (c *swCurve) scalars() []namedScalar {
	r := c.r
	sub := func(a *big.Int, k int64) *big.Int { return new(big.Int).Sub(a, big.NewInt(k)) }
	half := uint(r.BitLen() / 2)
	s := []namedScalar{
		{"0", big.NewInt(0)}, {"1", big.NewInt(1)}, {"2", big.NewInt(2)}, {"3", big.NewInt(3)},
		{"r-1", sub(r, 1)}, {"r-2", sub(r, 2)}, {"r", new(big.Int).Set(r)}, {"r+1", sub(r, -1)},
		{"2^h", new(big.Int).Lsh(big.NewInt(1), half)}, {"2^h-1", sub(new(big.Int).Lsh(big.NewInt(1), half), 1)},
		{"t", new(big.Int).Mod(genericT, r)},
	}
	if c.lambda != nil {
		l := c.lambda
		l1 := new(big.Int).Add(l, big.NewInt(1))
		s = append(s, namedScalar{"lambda", new(big.Int).Set(l)}, namedScalar{"-lambda", new(big.Int).Sub(r, l)},
			namedScalar{"lambda+1", l1}, namedScalar{"5(lambda+1)", new(big.Int).Mod(new(big.Int).Mul(l1, big.NewInt(5)), r)})
	}
	return s
}

func (c *swCurve) scalar(name string) namedScalar {
	for _, s := range c.scalars() {
		if s.name == name {
			return s
		}
	}
	panic("no scalar " + name + " on " + c.name)
}

// points: the exceptional alphabet of points.
func (c *swCurve) points() []namedPoint {
	c.ptsOnce.Do(func() { c.pts = c.computePoints() })
	return c.pts
}

func (c *swCurve) computePoints() []namedPoint {
	G := c.G
	R := c.mul(G, new(big.Int).Mod(genericT, c.r))
	ps := []namedPoint{
		{"O", inf()}, {"G", G}, {"-G", c.neg(G)}, {"2G", c.add(G, G)}, {"R", R}, {"-R", c.neg(R)}, {"R+G", c.add(R, G)},
	}
	if c.lambda != nil {
		ps = append(ps, namedPoint{"phi(G)", c.phi(G)}, namedPoint{"-phi(G)", c.neg(c.phi(G))})
	}
	if q, ok := c.firstPointOffSubgroup(); ok {
		ps = append(ps, namedPoint{"offsub", q}, namedPoint{"loworder", c.mul(q, c.r)})
	}
	return ps
}

func (c *swCurve) point(name string) namedPoint {
	for _, p := range c.points() {
		if p.name == name {
			return p
		}
	}
	panic("no point " + name + " on " + c.name)
}
