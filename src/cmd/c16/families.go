package main

import (
	"math/big"

	"github.com/consensys/gnark-crypto/ecc"
	"github.com/consensys/gnark/frontend"
	"github.com/consensys/gnark/std/algebra"
	"github.com/consensys/gnark/std/algebra/algopts"
	"github.com/consensys/gnark/std/algebra/emulated/sw_emulated"
	"github.com/consensys/gnark/std/algebra/native/sw_bls12377"
	"github.com/consensys/gnark/std/algebra/native/sw_bls24315"
	"github.com/consensys/gnark/std/math/emulated"
)

func coordOf(p pt) (*big.Int, *big.Int) {
	if p.Inf {
		return new(big.Int), new(big.Int)
	}
	return p.X, p.Y
}

// emuFamily: sw_emulated.Curve[B,S], executed over the bn254 scalar field.
func emuFamily[B, S emulated.FieldParams](ref *swCurve) *family[S, sw_emulated.AffinePoint[B]] {
	type P = sw_emulated.AffinePoint[B]
	var fp B
	w := fp.BitsPerLimb()
	return &family[S, P]{
		name:  "emulated:" + ref.name,
		ref:   ref,
		field: ecc.BN254.ScalarField(),
		newCurve: func(api frontend.API) (algebra.Curve[S, P], error) {
			return sw_emulated.New[B, S](api, sw_emulated.GetCurveParams[B]())
		},
		witness: func(p pt) P {
			x, y := coordOf(p)
			return P{X: emulated.ValueOf[B](x), Y: emulated.ValueOf[B](y)}
		},
		coords: func(api frontend.API, p *P) []frontend.Variable {
			f, err := emulated.NewField[B](api)
			if err != nil {
				panic(err)
			}
			x, y := f.Reduce(&p.X), f.Reduce(&p.Y)
			v := []frontend.Variable{len(x.Limbs)}
			v = append(v, x.Limbs...)
			return append(v, y.Limbs...)
		},
		decode: func(v []*big.Int) pt {
			n := int(v[0].Int64())
			rec := func(l []*big.Int) *big.Int {
				r := new(big.Int)
				for i := len(l) - 1; i >= 0; i-- {
					r.Lsh(r, w).Add(r, l[i])
				}
				return r.Mod(r, ref.p)
			}
			x, y := rec(v[1:1+n]), rec(v[1+n:])
			if x.Sign() == 0 && y.Sign() == 0 {
				return inf()
			}
			return pt{X: x, Y: y}
		},
		jsmb: func(cr algebra.Curve[S, P], p *P, s2, s1 *emulated.Element[S], opts ...algopts.AlgebraOption) *P {
			return cr.(*sw_emulated.Curve[B, S]).JointScalarMulBase(p, s2, s1, opts...)
		},
		onCurve: func(api frontend.API, cr algebra.Curve[S, P], p *P) error {
			cr.(*sw_emulated.Curve[B, S]).AssertIsOnCurve(p)
			return nil
		},
	}
}

func nativeDecode(v []*big.Int) pt {
	if v[0].Sign() == 0 && v[1].Sign() == 0 {
		return inf()
	}
	return pt{X: v[0], Y: v[1]}
}

var fam377 = &family[sw_bls12377.ScalarField, sw_bls12377.G1Affine]{
	name:  "native:bls12-377",
	ref:   crv377,
	field: ecc.BW6_761.ScalarField(),
	newCurve: func(api frontend.API) (algebra.Curve[sw_bls12377.ScalarField, sw_bls12377.G1Affine], error) {
		return sw_bls12377.NewCurve(api)
	},
	witness: func(p pt) sw_bls12377.G1Affine {
		x, y := coordOf(p)
		return sw_bls12377.G1Affine{X: x, Y: y}
	},
	coords: func(api frontend.API, p *sw_bls12377.G1Affine) []frontend.Variable {
		return []frontend.Variable{p.X, p.Y}
	},
	decode: nativeDecode,
	onCurve: func(api frontend.API, _ algebra.Curve[sw_bls12377.ScalarField, sw_bls12377.G1Affine], p *sw_bls12377.G1Affine) error {
		sw_bls12377.NewPairing(api).AssertIsOnCurve(p)
		return nil
	},
}

var fam315 = &family[sw_bls24315.ScalarField, sw_bls24315.G1Affine]{
	name:  "native:bls24-315",
	ref:   crv315,
	field: ecc.BW6_633.ScalarField(),
	newCurve: func(api frontend.API) (algebra.Curve[sw_bls24315.ScalarField, sw_bls24315.G1Affine], error) {
		return sw_bls24315.NewCurve(api)
	},
	witness: func(p pt) sw_bls24315.G1Affine {
		x, y := coordOf(p)
		return sw_bls24315.G1Affine{X: x, Y: y}
	},
	coords: func(api frontend.API, p *sw_bls24315.G1Affine) []frontend.Variable {
		return []frontend.Variable{p.X, p.Y}
	},
	decode: nativeDecode,
}
