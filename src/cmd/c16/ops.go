package main

import (
	"fmt"
	"math/big"
	"strings"
	"sync/atomic"
	"time"

	"github.com/consensys/gnark/frontend"
	"github.com/consensys/gnark/internal/verifh/vh"
	"github.com/consensys/gnark/std/algebra"
	"github.com/consensys/gnark/std/algebra/algopts"
	"github.com/consensys/gnark/std/math/emulated"
	"github.com/consensys/gnark/test"
)

// family adapts one curve gadget (emulated short Weierstrass over (B,S), or a native 2-chain
// inner curve) to the generic operation circuit.
type family[FR emulated.FieldParams, G1El any] struct {
	name     string
	ref      *swCurve
	field    *big.Int // native field of the test engine / compiled system
	newCurve func(api frontend.API) (algebra.Curve[FR, G1El], error)
	witness  func(p pt) G1El
	coords   func(api frontend.API, p *G1El) []frontend.Variable
	decode   func(v []*big.Int) pt
	jsmb     func(cr algebra.Curve[FR, G1El], p *G1El, s2, s1 *emulated.Element[FR], opts ...algopts.AlgebraOption) *G1El
	onCurve  func(api frontend.API, cr algebra.Curve[FR, G1El], p *G1El) error
}

type opSpec struct {
	op       string
	complete bool
	nP, nS   int
}

func (s opSpec) String() string {
	if s.complete {
		return s.op + "/complete"
	}
	return s.op
}

type capture struct{ vals []*big.Int }

type opCircuit[FR emulated.FieldParams, G1El any] struct {
	P    []G1El
	S    []emulated.Element[FR]
	Sel  frontend.Variable
	Sel2 frontend.Variable
	sp   *opSpec
	fam  *family[FR, G1El]
	cap  *capture
}

func ptrs[T any](v []T) []*T {
	r := make([]*T, len(v))
	for i := range v {
		r[i] = &v[i]
	}
	return r
}

func (c *opCircuit[FR, G1El]) Define(api frontend.API) error {
	cr, err := c.fam.newCurve(api)
	if err != nil {
		return err
	}
	var opts []algopts.AlgebraOption
	if c.sp.complete {
		opts = append(opts, algopts.WithCompleteArithmetic())
	}
	var res *G1El
	switch c.sp.op {
	case "add":
		res = cr.Add(&c.P[0], &c.P[1])
	case "addunified":
		res = cr.AddUnified(&c.P[0], &c.P[1])
	case "neg":
		res = cr.Neg(&c.P[0])
	case "scalarmul":
		res = cr.ScalarMul(&c.P[0], &c.S[0], opts...)
	case "scalarmulbase":
		res = cr.ScalarMulBase(&c.S[0], opts...)
	case "jsmb":
		res = c.fam.jsmb(cr, &c.P[0], &c.S[0], &c.S[1], opts...)
	case "msm":
		res, err = cr.MultiScalarMul(ptrs(c.P), ptrs(c.S), opts...)
		if err != nil {
			return err
		}
	case "select":
		res = cr.Select(c.Sel, &c.P[0], &c.P[1])
	case "lookup2":
		res = cr.Lookup2(c.Sel, c.Sel2, &c.P[0], &c.P[1], &c.P[2], &c.P[3])
	case "mux":
		res = cr.Mux(c.Sel, ptrs(c.P)...)
	case "oncurve":
		return c.fam.onCurve(api, cr, &c.P[0])
	default:
		return fmt.Errorf("op %s", c.sp.op)
	}
	vals := c.fam.coords(api, res)
	cp := c.cap
	_, err = api.Compiler().NewHint(func(_ *big.Int, in, out []*big.Int) error {
		cp.vals = make([]*big.Int, len(in))
		for i := range in {
			cp.vals[i] = new(big.Int).Set(in[i])
		}
		out[0].SetUint64(0)
		return nil
	}, 1, vals...)
	return err
}

// scalarWitness builds an emulated element holding exactly v (not reduced: v may be r or r+1).
func scalarWitness[FR emulated.FieldParams](v *big.Int) emulated.Element[FR] {
	var fr FR
	if v.Cmp(fr.Modulus()) <= 0 {
		return emulated.ValueOf[FR](v) // ValueOf keeps r itself unreduced
	}
	n, w := int(fr.NbLimbs()), fr.BitsPerLimb()
	limbs := make([]frontend.Variable, n)
	t := new(big.Int).Set(v)
	mask := new(big.Int).Sub(new(big.Int).Lsh(big.NewInt(1), w), big.NewInt(1))
	for i := 0; i < n; i++ {
		limbs[i] = new(big.Int).And(t, mask)
		t.Rsh(t, w)
	}
	if t.Sign() != 0 {
		panic("scalar does not fit the limbs")
	}
	return emulated.Element[FR]{Limbs: limbs}
}

// opCase is one enumerated input of an operation.
type opCase struct {
	sp       opSpec
	pts      []namedPoint
	scs      []namedScalar
	sel      int
	sel2     int
	expect   pt
	inDomain bool
	why      string // why it is outside the documented domain
	// oncurve: expected accept
	accept bool
}

func (k *opCase) key(fam string) string {
	var pn, sn []string
	for _, p := range k.pts {
		pn = append(pn, p.name)
	}
	for _, s := range k.scs {
		sn = append(sn, s.name)
	}
	key := fmt.Sprintf("%s/%s/P=%s/s=%s", fam, k.sp, strings.Join(pn, ","), strings.Join(sn, ","))
	if k.sp.op == "select" || k.sp.op == "lookup2" || k.sp.op == "mux" {
		key += fmt.Sprintf("/sel=%d,%d", k.sel, k.sel2)
	}
	return key
}

func shortErr(err error) string {
	if err == nil {
		return ""
	}
	s := err.Error()
	if i := strings.IndexByte(s, '\n'); i >= 0 {
		s = s[:i]
	}
	if len(s) > 300 {
		s = s[:300]
	}
	return s
}

// execOp runs the case in the test engine; returns the decoded result (when solved).
func execOp[FR emulated.FieldParams, G1El any](fam *family[FR, G1El], k *opCase) (got pt, captured bool, err error) {
	sp := k.sp
	shape := &opCircuit[FR, G1El]{P: make([]G1El, len(k.pts)), S: make([]emulated.Element[FR], len(k.scs)), sp: &sp, fam: fam, cap: &capture{}}
	asg := &opCircuit[FR, G1El]{P: make([]G1El, len(k.pts)), S: make([]emulated.Element[FR], len(k.scs)), Sel: k.sel, Sel2: k.sel2, sp: &sp, fam: fam, cap: shape.cap}
	for i, p := range k.pts {
		asg.P[i] = fam.witness(p.p)
	}
	for i, s := range k.scs {
		asg.S[i] = scalarWitness[FR](s.v)
	}
	err = test.IsSolved(shape, asg, fam.field)
	if err == nil && shape.cap.vals != nil {
		return fam.decode(shape.cap.vals), true, nil
	}
	return pt{}, false, err
}

var hung atomic.Int64

// viol reports EVERY violating case (the known findings of C16 are listed by exact input, so a
// case that newly fails is reported even when its (gadget, method) class already has recorded
// findings); the per-class totals go to the evidence.
func viol(c *vh.Check, class, key string, detail any) {
	c.Count("violating-cases-per-class", class, 1)
	c.Violation(key, detail)
}

// slowest completed guarded run of this process: the time limit of a run adapts to the machine
// load (a run is abandoned only after max(d, 25 x the slowest run that did return)).
var slowest atomic.Int64

// guarded runs f with a time limit; a run that does not return is abandoned (its goroutine keeps
// spinning: gnark hints cannot be interrupted).
func guarded(d time.Duration, f func()) (timedOut bool) {
	done := make(chan struct{})
	t0 := time.Now()
	go func() { defer close(done); f() }()
	tick := time.NewTicker(250 * time.Millisecond)
	defer tick.Stop()
	for {
		select {
		case <-done:
			el := int64(time.Since(t0))
			for {
				cur := slowest.Load()
				if el <= cur || slowest.CompareAndSwap(cur, el) {
					break
				}
			}
			return false
		case <-tick.C:
			lim := d
			if s := 25 * time.Duration(slowest.Load()); s > lim {
				lim = s
			}
			if time.Since(t0) > lim {
				hung.Add(1)
				return true
			}
		}
	}
}

// runOp executes one case in the test engine and judges it.
func runOp[FR emulated.FieldParams, G1El any](c *vh.Check, fam *family[FR, G1El], k *opCase) {
	if c.Expired() {
		return
	}
	if hung.Load() >= 12 {
		c.Count("skipped", "after-12-abandoned-runs", 1)
		c.Count("skipped-after-abandoned-runs", fam.name, 1)
		return
	}
	var got pt
	var captured bool
	var err error
	if guarded(runTimeout(c), func() { got, captured, err = execOp(fam, k) }) {
		c.Outcome(fam.name + ":" + k.sp.String() + ":does-not-terminate")
		viol(c, fam.name+":"+k.sp.String()+":hang", k.key(fam.name)+"/hang", map[string]any{"what": "the gadget (a hint) did not return within the time limit", "limit": runTimeout(c).String()})
		return
	}
	judgeOp(c, fam.name, fam.ref, k, got, captured, err)
}

func runTimeout(c *vh.Check) time.Duration {
	if c.Quick() {
		return 100 * time.Second
	}
	return 5 * time.Minute
}

func judgeOp(c *vh.Check, famName string, ref *swCurve, k *opCase, got pt, captured bool, err error) {
	sp := k.sp
	c.Evals.Add(1)
	key := k.key(famName)
	cls := famName + ":" + sp.String()
	c.Count(famName, sp.String(), 1)
	detail := func(what string) map[string]any {
		d := map[string]any{"what": what, "curve": ref.name, "op": sp.String()}
		for i, p := range k.pts {
			d[fmt.Sprintf("P%d", i)] = p.name + " = " + p.p.String()
		}
		for i, s := range k.scs {
			d[fmt.Sprintf("s%d", i)] = s.name + " = " + s.v.Text(16)
		}
		d["expected"] = k.expect.String()
		if err != nil {
			d["error"] = shortErr(err)
		}
		return d
	}
	if sp.op == "oncurve" {
		c.Traces.Add(1)
		switch {
		case (err == nil) == k.accept:
			c.Outcome(fmt.Sprintf("%s:agree-accept=%v", cls, k.accept))
		case k.accept:
			c.Outcome(cls + ":valid-point-rejected")
			viol(c, cls+":valid-rejected", key, detail("AssertIsOnCurve rejects a point of the curve"))
		default:
			c.Outcome(cls + ":invalid-point-accepted")
			viol(c, cls+":invalid-accepted", key, detail("AssertIsOnCurve accepts a point off the curve"))
		}
		return
	}
	dom := "in-domain"
	if !k.inDomain {
		dom = "outside-doc-domain"
	}
	if err != nil {
		c.Outcome(cls + ":" + dom + ":unsatisfiable")
		if k.inDomain {
			c.Traces.Add(1)
			viol(c, cls+":unsat", key, detail("the gadget cannot be satisfied on an input inside its documented domain"))
		}
		return
	}
	if !captured {
		c.Fatal("result of %s not captured", key)
	}
	if got.eq(k.expect) {
		c.Outcome(cls + ":" + dom + ":equals-native")
		c.Traces.Add(1)
		return
	}
	c.Outcome(cls + ":" + dom + ":differs-from-native")
	if k.inDomain {
		c.Traces.Add(1)
		d := detail("the gadget result differs from the native group law")
		d["got"] = got.String()
		viol(c, cls+":wrong-result", key, d)
	}
}
