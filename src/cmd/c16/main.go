// C16: curve and signature gadgets match native results, exceptional cases included.
package main

import (
	"crypto/elliptic"
	"fmt"
	"sync"
	"os"
	"runtime/debug"
	"strings"

	"github.com/consensys/gnark/internal/verifh/vh"
	"github.com/consensys/gnark/logger"
	"github.com/consensys/gnark/std/math/emulated"
)

type job func()

func wantGroup(c *vh.Check, g string) bool {
	if c.Only == "" {
		return true
	}
	for _, s := range strings.Split(c.Only, ",") {
		if s == g || strings.HasPrefix(s, g+":") || strings.HasPrefix(g, s) {
			return true
		}
	}
	return false
}

// famJobs enumerates the cases of one curve family; scalar-multiplication cases whose scalar
// makes the decomposition hint loop (found by screen) are reported once and skipped.
func famJobs[FR emulated.FieldParams, G1El any](c *vh.Check, fam *family[FR, G1El], lv level) []job {
	if !wantGroup(c, "sw:"+fam.ref.name) {
		return nil
	}
	cases := enumCases(fam.ref, lv, fam.jsmb != nil, fam.onCurve != nil)
	var jobs []job
	for _, k := range cases {
		k := k
		if strings.HasPrefix(fam.name, "emulated:") && (k.sp.op == "scalarmul" || k.sp.op == "scalarmulbase" || k.sp.op == "msm" || k.sp.op == "jsmb" && k.sp.complete) {
			skip := false
			for _, s := range k.scs {
				// complete arithmetic replaces s = -1 by 1 before the hint
				if isHanging(fam.ref.name, s.name) && !(k.sp.complete && s.name == "r-1") {
					skip = true
				}
			}
			if skip {
				c.Count("skipped", fam.name+":"+k.sp.String()+":scalar-with-non-terminating-hint", 1)
				continue
			}
		}
		jobs = append(jobs, func() { runOp(c, fam, k) })
	}
	c.Count("cases", fam.name, int64(len(cases)))
	return jobs
}

// cheapFirst moves the expensive scalar-multiplication cases behind the cheap ones is not
// needed: Par hands out jobs in order and every job is independent.

func main() {
	if ch := os.Getenv("C16_CHILD"); ch != "" {
		logger.Disable()
		childMain(ch)
	}
	c := vh.New("C16")
	logger.Disable()
	debug.SetGCPercent(200)
	c.Rule("a case = (curve gadget, method, complete-arithmetic flag, tuple of inputs drawn from the point alphabet {O=(0,0), G, -G, 2G, R, -R, R+G, phi(G), -phi(G), off-subgroup, low-order, off-curve} and the scalar alphabet {0,1,2,3,r-1,r-2,r,r+1,2^h,2^h-1,t,lambda,-lambda,lambda+1,5(lambda+1)}); all pairs / triples of the tier's alphabets are enumerated for Add, AddUnified, Neg, ScalarMul, ScalarMulBase, JointScalarMulBase, MultiScalarMul (1..3 terms), Select, Lookup2, Mux, AssertIsOnCurve; signatures and precompile inputs over their own alphabets. Each case runs the real gadget (test engine; a subset compiled and solved) and its output is compared with textbook big.Int group arithmetic validated against gnark-crypto / crypto/elliptic; inside the method's documented domain the result must be the native one, outside it the behaviour is only recorded. distinct = (gadget, method, domain side, verdict).")
	c.Assume("the big.Int reference group law is validated against gnark-crypto / crypto/elliptic on the scalar alphabet at start-up", "hints are honest in the functional sweep; dishonest hints are explored separately (sub-check hints)")

	q := c.Quick()
	lv := lvFull
	if q {
		lv = lvQuick
	}
	red := lvReduced
	refs := []*swCurve{crvSecp, crvBN, crvP256, crv377}
	if !q {
		refs = append(refs, crv315, crvP384, crvBLS381, crvBW6)
	}
	// validate the reference arithmetic; screen the decomposition hints for non-termination
	// (child processes, in parallel)
	var wg sync.WaitGroup
	for _, r := range refs {
		if err := r.validate(); err != nil {
			c.Fatal("reference arithmetic: %v", err)
		}
		if wantGroup(c, "sw:"+r.name) || (r == crvBN && wantGroup(c, "evm:bnmul")) {
			r := r
			wg.Add(1)
			go func() { defer wg.Done(); screen(c, r) }()
		}
	}
	// the dishonest-hint exploration runs next to the functional sweep (own workers)
	var hw sync.WaitGroup
	if wantGroup(c, "hints") {
		hw.Add(1)
		go func() { defer hw.Done(); dishonestHints(c) }()
	}
	// phase 1 (while the screens run): everything that does not depend on them
	var jobs []job
	if wantGroup(c, "ecdsa") {
		jobs = append(jobs, ecdsaJobs[emulated.Secp256k1Fp, emulated.Secp256k1Fr](c, crvSecp, !q, nativeSecp)...)
		// the NIST curves take the code path without endomorphism: in quick only the valid / crafted cases
		jobs = append(jobs, ecdsaJobs[emulated.P256Fp, emulated.P256Fr](c, crvP256, false, nativeNIST(elliptic.P256(), crvP256))...)
		if !q {
			jobs = append(jobs, ecdsaJobs[emulated.P384Fp, emulated.P384Fr](c, crvP384, false, nativeNIST(elliptic.P384(), crvP384))...)
		}
	}
	jobs = append(jobs, ecrecoverJobs(c)...)
	jobs = append(jobs, g2Jobs(c)...)
	jobs = append(jobs, pairingJobs(c)...)
	jobs = append(jobs, expmodJobs(c)...)
	if wantGroup(c, "te") || wantGroup(c, "eddsa") {
		jobs = append(jobs, teJobs(c)...)
	}
	c.Extra("phase1_jobs", len(jobs))
	if !c.Par(len(jobs), func(i int) { jobs[i]() }) {
		c.Cap("internal deadline during phase 1 (signatures, precompiles, pairings, twisted Edwards)")
	}
	wg.Wait()
	// phase 2: group operations of the short Weierstrass gadgets
	jobs = nil
	jobs = append(jobs, famJobs(c, emuFamily[emulated.Secp256k1Fp, emulated.Secp256k1Fr](crvSecp), lv)...)
	jobs = append(jobs, famJobs(c, emuFamily[emulated.BN254Fp, emulated.BN254Fr](crvBN), lv)...)
	jobs = append(jobs, evmECJobs(c)...)
	jobs = append(jobs, famJobs(c, emuFamily[emulated.P256Fp, emulated.P256Fr](crvP256), lv)...)
	jobs = append(jobs, famJobs(c, fam377, lv)...)
	if !q {
		jobs = append(jobs, famJobs(c, fam315, lv)...)
		jobs = append(jobs, famJobs(c, emuFamily[emulated.P384Fp, emulated.P384Fr](crvP384), red)...)
		jobs = append(jobs, famJobs(c, emuFamily[emulated.BLS12381Fp, emulated.BLS12381Fr](crvBLS381), red)...)
		jobs = append(jobs, famJobs(c, emuFamily[emulated.BW6761Fp, emulated.BW6761Fr](crvBW6), red)...)
	}
	c.Extra("phase2_jobs", len(jobs))
	if !c.Par(len(jobs), func(i int) { jobs[i]() }) {
		c.Cap("internal deadline during phase 2 (group operations)")
	}
	hw.Wait()
	if hung.Load() >= 12 {
		c.Cap("12 executions had to be abandoned (non-terminating hints); the remaining group-operation cases were skipped, see sections.skipped-after-abandoned-runs")
	}
	if hung.Load() > 0 {
		c.Note(fmt.Sprintf("%d executions were abandoned after the time limit (non-terminating hint); their goroutines kept spinning", hung.Load()))
	}
	c.Sample(map[string]any{"curve": "secp256k1", "R = [t]G": crvSecp.point("R").p.String(), "t": crvSecp.scalar("t").v.Text(16)})
	c.Finish()
}
