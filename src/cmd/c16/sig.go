package main

import (
	"crypto/ecdsa"
	"crypto/elliptic"
	"fmt"
	"math/big"

	"github.com/consensys/gnark-crypto/ecc"
	"github.com/consensys/gnark-crypto/ecc/secp256k1"
	secpecdsa "github.com/consensys/gnark-crypto/ecc/secp256k1/ecdsa"
	"github.com/consensys/gnark/frontend"
	"github.com/consensys/gnark/internal/verifh/vh"
	"github.com/consensys/gnark/std/algebra/emulated/sw_emulated"
	"github.com/consensys/gnark/std/math/emulated"
	gecdsa "github.com/consensys/gnark/std/signature/ecdsa"
	"github.com/consensys/gnark/test"
)

// refECDSA: textbook verification (x(R) mod n == r with 0 < r,s < n).
func refECDSA(c *swCurve, Q pt, m, r, s *big.Int) bool {
	n := c.r
	if r.Sign() <= 0 || s.Sign() <= 0 || r.Cmp(n) >= 0 || s.Cmp(n) >= 0 {
		return false
	}
	if Q.Inf || !c.onCurve(Q) {
		return false
	}
	si := new(big.Int).ModInverse(s, n)
	u1 := new(big.Int).Mul(m, si)
	u1.Mod(u1, n)
	u2 := new(big.Int).Mul(r, si)
	u2.Mod(u2, n)
	R := c.add(c.mul(c.G, u1), c.mul(Q, u2))
	if R.Inf {
		return false
	}
	return new(big.Int).Mod(R.X, n).Cmp(r) == 0
}

type ecdsaCircuit[T, S emulated.FieldParams] struct {
	Sig gecdsa.Signature[S]
	Msg emulated.Element[S]
	Pub gecdsa.PublicKey[T, S]
}

func (c *ecdsaCircuit[T, S]) Define(api frontend.API) error {
	c.Pub.Verify(api, sw_emulated.GetCurveParams[T](), &c.Msg, &c.Sig)
	return nil
}

type ecdsaCase struct {
	name    string
	Q       pt
	m, r, s *big.Int
}

// ecdsaCases: the signature alphabet for a curve: every pair (r variant, s variant) x {key, wrong
// key} x {message, wrong message}, plus a valid signature whose R has x(R) >= n.
func ecdsaCases(c *swCurve, full bool) []ecdsaCase {
	n := c.r
	d := new(big.Int).Mod(new(big.Int).Lsh(genericT, 3), n)
	k := new(big.Int).Mod(new(big.Int).Add(genericT, big.NewInt(12345)), n)
	m := new(big.Int).Mod(new(big.Int).Rsh(genericT, 1), n)
	Q := c.mul(c.G, d)
	R := c.mul(c.G, k)
	r := new(big.Int).Mod(R.X, n)
	s := new(big.Int).Mul(r, d)
	s.Add(s, m).Mul(s, new(big.Int).ModInverse(k, n)).Mod(s, n)
	Q2 := c.mul(c.G, new(big.Int).Add(d, big.NewInt(1)))
	m2 := new(big.Int).Add(m, big.NewInt(1))
	type nv struct {
		n string
		v *big.Int
	}
	add := func(a *big.Int, k int64) *big.Int { return new(big.Int).Add(a, big.NewInt(k)) }
	rv := []nv{{"r", r}, {"0", big.NewInt(0)}, {"n", new(big.Int).Set(n)}, {"r+1", add(r, 1)}, {"r-1", add(r, -1)}}
	sv := []nv{{"s", s}, {"0", big.NewInt(0)}, {"n", new(big.Int).Set(n)}, {"n-s", new(big.Int).Sub(n, s)}, {"s+1", add(s, 1)}, {"s-1", add(s, -1)}}
	var out []ecdsaCase
	for _, a := range rv {
		for _, b := range sv {
			out = append(out, ecdsaCase{"r=" + a.n + "/s=" + b.n + "/key/msg", Q, m, a.v, b.v})
			if full || (a.n == "r" && (b.n == "s" || b.n == "n-s")) {
				out = append(out, ecdsaCase{"r=" + a.n + "/s=" + b.n + "/wrong-key/msg", Q2, m, a.v, b.v})
				out = append(out, ecdsaCase{"r=" + a.n + "/s=" + b.n + "/key/wrong-msg", Q, m2, a.v, b.v})
			}
		}
	}
	// crafted by the key holder: message m' = r*d makes the two halves [m'/s]G and [r/s]Q of the
	// verification equation EQUAL (valid signature, s = 2m'/k); m' = -r*d makes them OPPOSITE (R = O: invalid)
	{
		mEq := new(big.Int).Mul(r, d)
		mEq.Mod(mEq, n)
		sEq := new(big.Int).Lsh(mEq, 1)
		sEq.Mul(sEq, new(big.Int).ModInverse(k, n)).Mod(sEq, n)
		out = append(out, ecdsaCase{"equal-halves(m=r*d,s=2m/k)", Q, mEq, r, sEq})
		mOp := new(big.Int).Sub(n, mEq)
		out = append(out, ecdsaCase{"opposite-halves(m=-r*d)", Q, mOp, r, s})
	}
	out = append(out, ecdsaCase{"r=r/s=s/key=(0,0)/msg", inf(), m, r, s})
	out = append(out, ecdsaCase{"r=r/s=s/key=offcurve/msg", c.offCurve(), m, r, s})
	// a valid signature with x(R) >= n: choose R with n <= x < p, then Q = r^-1 (s R - m G)
	for x := new(big.Int).Set(n); x.Cmp(c.p) < 0; x.Add(x, big.NewInt(1)) {
		rhs := new(big.Int).Mul(x, x)
		rhs.Mul(rhs, x).Add(rhs, new(big.Int).Mul(c.a, x)).Add(rhs, c.b).Mod(rhs, c.p)
		y := new(big.Int).ModSqrt(rhs, c.p)
		if y == nil {
			continue
		}
		Rb := pt{X: new(big.Int).Set(x), Y: y}
		rb := new(big.Int).Mod(x, n)
		if rb.Sign() == 0 {
			continue
		}
		sb := new(big.Int).Set(s)
		// Q = r^-1 (s R - m G)
		Qb := c.mul(c.add(c.mul(Rb, sb), c.neg(c.mul(c.G, m))), new(big.Int).ModInverse(rb, n))
		out = append(out, ecdsaCase{"valid-with-x(R)>=n", Qb, m, rb, sb})
		break
	}
	return out
}

func pubWitness[T, S emulated.FieldParams](q pt) gecdsa.PublicKey[T, S] {
	x, y := coordOf(q)
	return gecdsa.PublicKey[T, S]{X: emulated.ValueOf[T](x), Y: emulated.ValueOf[T](y)}
}

func ecdsaJobs[T, S emulated.FieldParams](c *vh.Check, ref *swCurve, full bool, nativeCheck func(Q pt, m, r, s *big.Int) (bool, bool)) []job {
	if !wantGroup(c, "ecdsa:"+ref.name) {
		return nil
	}
	var jobs []job
	for _, k := range ecdsaCases(ref, full) {
		k := k
		jobs = append(jobs, func() {
			want := refECDSA(ref, k.Q, k.m, k.r, k.s)
			if nativeCheck != nil {
				if nat, ok := nativeCheck(k.Q, k.m, k.r, k.s); ok && nat != want {
					c.Fatal("ecdsa reference (%v) and native library (%v) disagree on %s/%s", want, nat, ref.name, k.name)
				}
			}
			asg := &ecdsaCircuit[T, S]{Sig: gecdsa.Signature[S]{R: scalarWitness[S](k.r), S: scalarWitness[S](k.s)}, Msg: scalarWitness[S](k.m), Pub: pubWitness[T, S](k.Q)}
			var err error
			key := "ecdsa:" + ref.name + "/" + k.name
			if guarded(runTimeout(c), func() { err = test.IsSolved(&ecdsaCircuit[T, S]{}, asg, ecc.BN254.ScalarField()) }) {
				viol(c, "ecdsa:"+ref.name+":hang", key+"/hang", map[string]any{"what": "verification did not return (a hint loops)", "r": k.r.Text(16), "s": k.s.Text(16), "m": k.m.Text(16), "Q": k.Q.String()})
				c.Outcome("ecdsa:" + ref.name + ":does-not-terminate")
				return
			}
			c.Evals.Add(1)
			c.Traces.Add(1)
			c.Count("ecdsa", ref.name, 1)
			d := map[string]any{"r": k.r.Text(16), "s": k.s.Text(16), "m": k.m.Text(16), "Q": k.Q.String(), "native_accepts": want, "error": shortErr(err)}
			switch {
			case (err == nil) == want:
				c.Outcome(fmt.Sprintf("ecdsa:%s:agree-accept=%v", ref.name, want))
			case want:
				c.Outcome("ecdsa:" + ref.name + ":valid-rejected")
				d["what"] = "the circuit rejects a signature that is valid for the native verifier"
				viol(c, "ecdsa:"+ref.name+":valid-rejected", key, d)
			default:
				c.Outcome("ecdsa:" + ref.name + ":invalid-accepted")
				d["what"] = "the circuit accepts a signature that the native verifier rejects"
				viol(c, "ecdsa:"+ref.name+":invalid-accepted", key, d)
			}
		})
	}
	return jobs
}

// native verifiers used to validate the reference on every case they can express
func nativeSecp(Q pt, m, r, s *big.Int) (bool, bool) {
	n := crvSecp.r
	if Q.Inf || !crvSecp.onCurve(Q) || r.Sign() <= 0 || s.Sign() <= 0 || r.Cmp(n) >= 0 || s.Cmp(n) >= 0 {
		return false, false // not expressible with the library's typed API
	}
	var pk secpecdsa.PublicKey
	pk.A = secp256k1.G1Affine{}
	pk.A.X.SetBigInt(Q.X)
	pk.A.Y.SetBigInt(Q.Y)
	sig := make([]byte, 64)
	r.FillBytes(sig[:32])
	s.FillBytes(sig[32:])
	ok, err := pk.Verify(sig, m.FillBytes(make([]byte, 32)), nil)
	if err != nil {
		return false, false
	}
	return ok, true
}

func nativeNIST(e elliptic.Curve, ref *swCurve) func(Q pt, m, r, s *big.Int) (bool, bool) {
	return func(Q pt, m, r, s *big.Int) (bool, bool) {
		if Q.Inf || !ref.onCurve(Q) {
			return false, false
		}
		pk := &ecdsa.PublicKey{Curve: e, X: Q.X, Y: Q.Y}
		return ecdsa.Verify(pk, m.FillBytes(make([]byte, (ref.r.BitLen()+7)/8)), r, s), true
	}
}
