package main

import (
	"fmt"
	"math/big"
	"sort"
	"strings"
	"time"

	"github.com/consensys/gnark-crypto/ecc"
	"github.com/consensys/gnark/constraint/solver"
	"github.com/consensys/gnark/frontend"
	"github.com/consensys/gnark/internal/verifh/circ"
	"github.com/consensys/gnark/internal/verifh/vh"
	"github.com/consensys/gnark/std/lookup/logderivlookup"
	"github.com/consensys/gnark/std/math/uints"
	"github.com/consensys/gnark/std/rangecheck"
)

var curves = []ecc.ID{ecc.BN254, ecc.BLS12_377}
var builders = []string{circ.R1CS, circ.SCS}

func widthSet(c *vh.Check) []int {
	w := []int{1, 2, 3, 5, 8, 9, 16, 17, 31, 64, 65, 253, 254}
	if !c.Quick() {
		w = append(w, 255)
	}
	return w
}

// multisets of size k over ws (non-decreasing index sequences)
func multisets(ws []int, k int) [][]int {
	var out [][]int
	var rec func(start int, cur []int)
	rec = func(start int, cur []int) {
		if len(cur) == k {
			out = append(out, append([]int(nil), cur...))
			return
		}
		for i := start; i < len(ws); i++ {
			rec(i, append(cur, ws[i]))
		}
	}
	rec(0, nil)
	return out
}

type job struct {
	name   string
	weight int
	run    func()
}

func funcPart(c *vh.Check) {
	var jobs []job
	funcMulti(c, &jobs)
	funcBulk(c, &jobs)
	funcRange(c, &jobs)
	funcLookup(c, &jobs)
	sort.SliceStable(jobs, func(i, j int) bool { return jobs[i].weight > jobs[j].weight })
	timed(c, "func", func() {
		if !c.Par(len(jobs), func(i int) {
			t0 := time.Now()
			jobs[i].run()
			if d := time.Since(t0); d > 5*time.Second {
				c.Count("slow_jobs_ms", jobs[i].name, d.Milliseconds())
			}
		}) {
			c.Cap("func: deadline before all circuits ran")
		}
	})
}

// ---- range check: every multiset of <= 3 checked variables ---------------------------------

func funcRange(c *vh.Check, jobs *[]job) {
	type task struct {
		cv     ecc.ID
		b      string
		widths []int
	}
	var tasks []task
	ws := widthSet(c)
	for k := 3; k >= 1; k-- {
		for _, m := range multisets(ws, k) {
			for _, cv := range curves {
				for _, b := range builders {
					tasks = append(tasks, task{cv, b, m})
				}
			}
		}
	}
	for _, t := range tasks {
		t := t
		*jobs = append(*jobs, job{fmt.Sprint(t), len(t.widths) * len(t.widths), func() {
			name := "range:w=" + joinInts(t.widths)
			strategy := ""
			k := compileOn(c, t.cv, t.b, name, rcCircuit(t.widths, &strategy))
			if !strings.HasSuffix(strategy, "commitChecker") || nbCommit(k.ccs) != 1 {
				c.Fatal("%s: strategy %s / %d commitments, expected the commitment checker", k.name, strategy, nbCommit(k.ccs))
			}
			vals := make([][]*big.Int, len(t.widths))
			names := make([][]string, len(t.widths))
			for j, n := range t.widths {
				vals[j], names[j] = rangeValues(n, k.field)
			}
			idx := make([]int, len(t.widths))
			for {
				// skip permutations of equal widths (multiset of (width,value) pairs)
				canon := true
				for j := 1; j < len(idx); j++ {
					if t.widths[j] == t.widths[j-1] && idx[j] < idx[j-1] {
						canon = false
					}
				}
				if canon {
					sec := make([]*big.Int, len(idx))
					want := true
					var vn []string
					for j := range idx {
						sec[j] = vals[j][idx[j]]
						vn = append(vn, names[j][idx[j]])
						if !inRange(sec[j], t.widths[j]) {
							want = false
						}
					}
					e := k.solve(c, nil, sec)
					c.Traces.Add(1)
					judge(c, "c13:func:"+k.name+":v="+strings.Join(vn, ","), "func:range:"+k.builder, want, e, map[string]any{"widths": t.widths, "values": fmt.Sprint(sec)})
					if len(idx) == 2 && t.widths[0] == 9 && t.widths[1] == 17 && idx[0] == 3 && idx[1] == 2 {
						c.Sample(map[string]any{"part": "func", "case": k.name, "values": vn, "documented_accept": want, "solver": e})
					}
				}
				j := 0
				for ; j < len(idx); j++ {
					idx[j]++
					if idx[j] < len(vals[j]) {
						break
					}
					idx[j] = 0
				}
				if j == len(idx) {
					break
				}
			}
			// one checked variable holds k/2^s (the others 1): out of range although its scaled copies are small
			fv, fn := fracValues(k.field)
			for j := range t.widths {
				if j > 0 && t.widths[j] == t.widths[j-1] {
					continue
				}
				for vi, v := range fv {
					sec := make([]*big.Int, len(t.widths))
					for i := range sec {
						sec[i] = big.NewInt(1)
					}
					sec[j] = v
					e := k.solve(c, nil, sec)
					c.Traces.Add(1)
					judge(c, fmt.Sprintf("c13:func:%s:pos=%d:v=%s", k.name, j, fn[vi]), "func:range-frac:"+k.builder, inRange(v, t.widths[j]), e, map[string]any{"widths": t.widths, "position": j, "value": fn[vi]})
				}
			}
			c.Count("func", fmt.Sprintf("range-circuits:k=%d", len(t.widths)), 1)
		}})
	}
}

// judge compares the honest solver's outcome with the documented acceptance.
func judge(c *vh.Check, key, family string, want bool, solveErr string, detail map[string]any) {
	got := solveErr == ""
	switch {
	case want && got:
		c.Outcome(family + ":accepted")
	case !want && !got:
		c.Outcome(family + ":rejected")
	case want && !got:
		c.Outcome(family + ":honest-unsolved")
		detail["solver_error"] = solveErr
		detail["note"] = "in-range values / true entries but the honest prover cannot solve"
		c.Violation(key+":honest-unsolved", detail)
	default:
		c.Outcome(family + ":surplus")
		detail["note"] = "out-of-range value / false entry accepted by the honest solver"
		c.Violation(key+":surplus", detail)
	}
}

func joinInts(a []int) string {
	s := make([]string, len(a))
	for i, x := range a {
		s[i] = fmt.Sprint(x)
	}
	return strings.Join(s, ",")
}

// ---- bulk: many checked variables so that the automatically chosen limb width grows ---------

func funcBulk(c *vh.Check, jobs *[]job) {
	type task struct {
		cv    ecc.ID
		b     string
		m, w  int
		extra int // one more variable of this width (0 = none)
	}
	var tasks []task
	counts := []int{20, 48, 300, 3000}
	if !c.Quick() {
		counts = append(counts, 10000)
	}
	for _, m := range counts {
		for _, w := range []int{17, 64, 65} {
			for _, extra := range []int{0, 9, 3, 1} {
				if extra > 0 && extra < 9 && (m >= 3000 || w == 65) {
					continue
				}
				if m == 48 && w != 64 {
					continue
				}
				for _, cv := range curves {
					for _, b := range builders {
						if (c.Quick() && m >= 3000 || m >= 10000) && (cv != ecc.BN254 || extra == 0 || w == 65) {
							continue
						}
						tasks = append(tasks, task{cv, b, m, w, extra})
					}
				}
			}
		}
	}
	sort.SliceStable(tasks, func(i, j int) bool { return tasks[i].m > tasks[j].m })
	for _, t := range tasks {
		t := t
		*jobs = append(*jobs, job{fmt.Sprint(t), t.m / 10, func() {
			widths := make([]int, t.m)
			for j := range widths {
				widths[j] = t.w
			}
			if t.extra > 0 {
				widths = append(widths, t.extra)
			}
			name := fmt.Sprintf("bulk:m=%d:w=%d:extra=%d", t.m, t.w, t.extra)
			k := compileOn(c, t.cv, t.b, name, rcCircuit(widths, nil))
			// filler values: deterministic in-range values with all limb positions exercised
			fill := func() []*big.Int {
				sec := make([]*big.Int, len(widths))
				for j, n := range widths {
					x := new(big.Int).Mul(big.NewInt(int64(j)*2654435761+12345), big.NewInt(0x9e3779b97f4a7c15>>1))
					x.Mul(x, x)
					sec[j] = x.Mod(x, pow2(n))
				}
				return sec
			}
			positions := []int{0, len(widths) / 2, len(widths) - 1}
			// observe the limb width the gadget chose (inputs of the decomposition hint)
			base := 0
			k.setHook(func(id solver.HintID, q *big.Int, in, out []*big.Int, err error) error {
				if id == decompID {
					base = int(in[1].Int64())
				}
				return err
			})
			e := k.solve(c, nil, fill())
			k.setHook(nil)
			if t.extra > 0 {
				rel := "wider-than"
				if t.extra > base {
					rel = "not-wider-than"
				}
				c.Count("func", fmt.Sprintf("bulk limb width %s the narrowest checked variable (single partially filled limb)", rel), 1)
				c.Outcome("func:bulk:limb-" + rel + "-narrowest-variable")
			}
			c.Traces.Add(1)
			judge(c, "c13:func:"+k.name+":all-in-range", "func:bulk:"+k.builder, true, e, map[string]any{"widths": name})
			for _, pos := range positions {
				vals, names := rangeValues(widths[pos], k.field)
				for vi, v := range vals {
					sec := fill()
					sec[pos] = v
					e := k.solve(c, nil, sec)
					c.Traces.Add(1)
					judge(c, fmt.Sprintf("c13:func:%s:pos=%d:v=%s", k.name, pos, names[vi]), "func:bulk:"+k.builder, inRange(v, widths[pos]), e, map[string]any{"widths": name, "position": pos, "value": v.String()})
				}
				if t.m >= 3000 && pos != len(widths)-1 {
					continue
				}
				fv, fn := fracValues(k.field)
				for vi, v := range fv {
					sec := fill()
					sec[pos] = v
					e := k.solve(c, nil, sec)
					c.Traces.Add(1)
					judge(c, fmt.Sprintf("c13:func:%s:pos=%d:v=%s", k.name, pos, fn[vi]), "func:bulk-frac:"+k.builder, inRange(v, widths[pos]), e, map[string]any{"widths": name, "position": pos, "value": fn[vi]})
				}
			}
			c.Count("func", "bulk-circuits", 1)
		}})
	}
}

// ---- lookup tables ----------------------------------------------------------------------------

func entryVal(i int) int64 { return int64(1000 + 7*i + (i*i)%5) }

// lookupCircuit: table of size T (constant or variable entries), nq queries; results asserted
// equal to the claimed results.  Secret inputs: [entries (if variable)] ++ indices ++ claimed.
func lookupCircuit(T, nq int, variable bool) *circ.C {
	ns := 2 * nq
	if variable {
		ns += T
	}
	if ns == 0 {
		ns = 1 // a dummy input keeps the witness non-empty
	}
	return circ.New(0, ns, func(api frontend.API, p, s []frontend.Variable) error {
		t := logderivlookup.New(api)
		off := 0
		for i := 0; i < T; i++ {
			if variable {
				t.Insert(s[i])
			} else {
				t.Insert(entryVal(i))
			}
		}
		if variable {
			off = T
		}
		if nq == 0 {
			if !variable {
				api.AssertIsEqual(s[0], s[0])
			}
			return nil
		}
		r := t.Lookup(s[off : off+nq]...)
		for j := range r {
			api.AssertIsEqual(r[j], s[off+nq+j])
		}
		return nil
	})
}

type lookupCase struct {
	name    string
	idx     []*big.Int
	claimed []*big.Int
	want    bool
}

func lookupCases(T, nq int, p *big.Int) []lookupCase {
	e := func(i int) *big.Int { return big.NewInt(entryVal(i)) }
	I := func(i int) *big.Int { return big.NewInt(int64(i)) }
	var out []lookupCase
	add := func(name string, idx []*big.Int, want bool, falseAt int, falseVal *big.Int) {
		cl := make([]*big.Int, len(idx))
		for j, ix := range idx {
			if ix.IsInt64() && ix.Int64() < int64(T) {
				cl[j] = e(int(ix.Int64()))
			} else {
				cl[j] = e(0)
			}
		}
		if falseAt >= 0 {
			cl[falseAt] = falseVal
		}
		out = append(out, lookupCase{name, idx, cl, want})
	}
	oob := []*big.Int{I(T), I(T + 1), new(big.Int).Sub(p, big.NewInt(1)), new(big.Int).Add(pow2(64), I(0)), new(big.Int).Add(pow2(32), I(T-1))}
	oobN := []string{"n", "n+1", "p-1", "2^64", "2^32+n-1"}
	pos := uniq([]int{0, T / 2, T - 1})
	switch {
	case nq == 0:
		out = append(out, lookupCase{"none", nil, nil, true})
	case nq == 1:
		for _, i := range pos {
			add(fmt.Sprintf("one@%d", i), []*big.Int{I(i)}, true, -1, nil)
			add(fmt.Sprintf("one@%d:claimed+1", i), []*big.Int{I(i)}, false, 0, new(big.Int).Add(e(i), I(1)))
			if T > 1 {
				add(fmt.Sprintf("one@%d:claimed-next", i), []*big.Int{I(i)}, false, 0, e((i+1)%T))
				add(fmt.Sprintf("one@%d:claimed-prev", i), []*big.Int{I(i)}, false, 0, e((i+T-1)%T))
			}
		}
		for k, o := range oob {
			for _, cl := range []*big.Int{e(0), e(T - 1), I(0)} {
				add(fmt.Sprintf("oob=%s:claimed=%v", oobN[k], cl), []*big.Int{o}, false, 0, cl)
			}
		}
	case nq == 3:
		for _, i := range pos {
			add(fmt.Sprintf("repeated@%d", i), []*big.Int{I(i), I(i), I(i)}, true, -1, nil)
			for f := 0; f < 3; f++ {
				add(fmt.Sprintf("repeated@%d:false@%d", i, f), []*big.Int{I(i), I(i), I(i)}, false, f, new(big.Int).Add(e(i), I(1)))
			}
		}
		add("mixed", []*big.Int{I(0), I(T - 1), I(T / 2)}, true, -1, nil)
		for k, o := range oob {
			for f := 0; f < 3; f++ {
				idx := []*big.Int{I(0), I(T - 1), I(T / 2)}
				idx[f] = o
				add(fmt.Sprintf("mixed:oob=%s@%d", oobN[k], f), idx, false, -1, nil)
			}
		}
	default: // all
		all := make([]*big.Int, nq)
		rev := make([]*big.Int, nq)
		for i := 0; i < nq; i++ {
			all[i] = I(i % T)
			rev[i] = I((nq - 1 - i) % T)
		}
		add("all", all, true, -1, nil)
		add("all-reversed", rev, true, -1, nil)
		for _, f := range uniq([]int{0, nq / 2, nq - 1}) {
			add(fmt.Sprintf("all:false@%d", f), all, false, f, new(big.Int).Add(e(f%T), I(1)))
			if T > 1 {
				add(fmt.Sprintf("all:next@%d", f), all, false, f, e((f+1)%T))
			}
			for k, o := range oob[:3] {
				idx := append([]*big.Int(nil), all...)
				idx[f] = o
				add(fmt.Sprintf("all:oob=%s@%d", oobN[k], f), idx, false, -1, nil)
			}
		}
	}
	return out
}

func uniq(a []int) []int {
	var out []int
	seen := map[int]bool{}
	for _, x := range a {
		if x >= 0 && !seen[x] {
			seen[x] = true
			out = append(out, x)
		}
	}
	return out
}

func funcLookup(c *vh.Check, jobs *[]job) {
	type task struct {
		cv       ecc.ID
		b        string
		T, nq    int
		variable bool
	}
	var tasks []task
	for _, T := range []int{257, 256, 255, 4, 3, 2, 1} {
		nqs := uniq([]int{0, 1, 3, T})
		if T == 1 || T == 3 {
			nqs = []int{0, 1, 3, 5} // "all" with a size that differs from the repeated pattern
		}
		for _, nq := range nqs {
			for _, variable := range []bool{false, true} {
				for _, cv := range curves {
					for _, b := range builders {
						tasks = append(tasks, task{cv, b, T, nq, variable})
					}
				}
			}
		}
	}
	for _, t := range tasks {
		t := t
		*jobs = append(*jobs, job{fmt.Sprint(t), t.T/50 + t.nq/50 + 1, func() {
			kind := "const"
			if t.variable {
				kind = "var"
			}
			name := fmt.Sprintf("lookup:T=%d:%s:q=%d", t.T, kind, t.nq)
			k := compileOn(c, t.cv, t.b, name, lookupCircuit(t.T, t.nq, t.variable))
			for _, lc := range lookupCases(t.T, t.nq, k.field) {
				var sec []*big.Int
				if t.variable {
					for i := 0; i < t.T; i++ {
						sec = append(sec, big.NewInt(entryVal(i)))
					}
				}
				sec = append(sec, lc.idx...)
				sec = append(sec, lc.claimed...)
				if len(sec) == 0 {
					sec = bigs(5)
				}
				e := k.solve(c, nil, sec)
				c.Traces.Add(1)
				key := "c13:func:" + k.name + ":" + lc.name
				if t.nq == 0 {
					key = "c13:func:lookup-none:" + k.name
				}
				judge(c, key, "func:lookup:"+k.builder+":"+kind, lc.want, e, map[string]any{"table_size": t.T, "indices": fmt.Sprint(lc.idx), "claimed": fmt.Sprint(lc.claimed)})
				if t.T == 3 && t.nq == 1 && lc.name == "oob=n:claimed=1000" && t.cv == ecc.BN254 {
					c.Sample(map[string]any{"part": "func", "case": k.name, "pattern": lc.name, "documented_accept": lc.want, "solver": e})
				}
			}
			c.Count("func", "lookup-circuits", 1)
		}})
	}
}

// ---- several independent gadgets in one circuit -----------------------------------------------

// gadget = a circuit fragment consuming some secret inputs, with valid and invalid assignments.
type gadget struct {
	name    string
	nIn     int
	define  func(api frontend.API, in []frontend.Variable) error
	valid   [][]int64
	invalid [][]int64
}

func gadgetPool(withPrecomp bool) []gadget {
	g := []gadget{
		{"RC", 2, func(api frontend.API, in []frontend.Variable) error {
			rc := rangecheck.New(api)
			rc.Check(in[0], 8)
			rc.Check(in[1], 13)
			return nil
		}, [][]int64{{255, 8191}, {0, 1}}, [][]int64{{256, 5}, {7, 8192}}},
		{"LA", 7, func(api frontend.API, in []frontend.Variable) error { // variable table of 4, two queries
			t := logderivlookup.New(api)
			for i := 0; i < 4; i++ {
				t.Insert(in[i])
			}
			r := t.Lookup(in[4], in[5])
			api.AssertIsEqual(api.Add(r[0], r[1]), in[6])
			return nil
		}, [][]int64{{10, 20, 30, 40, 0, 3, 50}, {10, 20, 30, 40, 2, 2, 60}}, [][]int64{{10, 20, 30, 40, 0, 4, 50}, {10, 20, 30, 40, 1, 2, 51}}},
		{"LB", 2, func(api frontend.API, in []frontend.Variable) error { // constant table of 3, one query
			t := logderivlookup.New(api)
			for i := 0; i < 3; i++ {
				t.Insert(entryVal(i))
			}
			r := t.Lookup(in[0])
			api.AssertIsEqual(r[0], in[1])
			return nil
		}, [][]int64{{2, entryVal(2)}, {0, entryVal(0)}}, [][]int64{{3, entryVal(0)}, {1, entryVal(2)}}},
	}
	if withPrecomp {
		g = append(g, gadget{"PX", 3, func(api frontend.API, in []frontend.Variable) error { // precomputed xor table (logderivprecomp)
			bf, err := uints.New[uints.U32](api)
			if err != nil {
				return err
			}
			a := bf.ByteValueOf(in[0])
			b := bf.ByteValueOf(in[1])
			x := bf.Xor(bf.PackLSB(a, a, a, a), bf.PackLSB(b, b, b, b))
			api.AssertIsEqual(x[0].Val, in[2])
			return nil
		}, [][]int64{{0xa5, 0x0f, 0xaa}, {0, 0, 0}}, [][]int64{{0xa5, 0x0f, 0xab}, {256, 0, 0}}})
	}
	return g
}

func funcMulti(c *vh.Check, jobs *[]job) {
	pool := gadgetPool(true)
	var combos [][]int
	n := len(pool)
	for a := 0; a < n; a++ {
		for b := 0; b < n; b++ {
			if a != b {
				combos = append(combos, []int{a, b})
			}
			for d := 0; d < n; d++ {
				if a != b && b != d && a != d && (a < b || b < d) { // all but one of the orders of each triple
					combos = append(combos, []int{a, b, d})
				}
			}
		}
	}
	// two instances of the same gadget kind (two tables / the shared range checker used twice)
	combos = append(combos, []int{1, 1}, []int{0, 0}, []int{2, 2, 1})
	type task struct {
		cv    ecc.ID
		b     string
		combo []int
		heavy bool
	}
	var tasks []task
	quickHeavy := map[string]bool{"3,0": true, "0,3,2": true}
	for _, cb := range combos {
		for _, cv := range curves {
			for _, b := range builders {
				heavy := false
				for _, g := range cb {
					if pool[g].name == "PX" {
						heavy = true
					}
				}
				if heavy && c.Quick() && (cv != ecc.BN254 || !quickHeavy[joinInts(cb)]) {
					continue
				}
				tasks = append(tasks, task{cv, b, cb, heavy})
			}
		}
	}
	sort.SliceStable(tasks, func(i, j int) bool { return tasks[i].heavy && !tasks[j].heavy })
	for _, t := range tasks {
		t := t
		*jobs = append(*jobs, job{fmt.Sprint(t), 20 + 100000*boolInt(t.heavy), func() {
			var names []string
			total := 0
			for _, g := range t.combo {
				names = append(names, pool[g].name)
				total += pool[g].nIn
			}
			name := "multi:" + strings.Join(names, "+")
			k := compileOn(c, t.cv, t.b, name, circ.New(0, total, func(api frontend.API, p, s []frontend.Variable) error {
				off := 0
				for _, g := range t.combo {
					if err := pool[g].define(api, s[off:off+pool[g].nIn]); err != nil {
						return err
					}
					off += pool[g].nIn
				}
				return nil
			}))
			if nbCommit(k.ccs) != 1 {
				c.Fatal("%s: %d commitments, expected exactly one shared commitment", k.name, nbCommit(k.ccs))
			}
			// every combination of (valid_0, valid_1, invalid_0, invalid_1) per gadget
			choice := make([]int, len(t.combo))
			for {
				var sec []*big.Int
				want := true
				var tag []string
				for gi, g := range t.combo {
					var a []int64
					if choice[gi] < 2 {
						a = pool[g].valid[choice[gi]]
						tag = append(tag, fmt.Sprintf("ok%d", choice[gi]))
					} else {
						a = pool[g].invalid[choice[gi]-2]
						want = false
						tag = append(tag, fmt.Sprintf("bad%d", choice[gi]-2))
					}
					sec = append(sec, bigs(a...)...)
				}
				e := k.solve(c, nil, sec)
				c.Traces.Add(1)
				judge(c, "c13:func:"+k.name+":"+strings.Join(tag, ","), fmt.Sprintf("func:multi%d:%s", len(t.combo), k.builder), want, e, map[string]any{"gadgets": names, "assignment": fmt.Sprint(sec)})
				j := 0
				for ; j < len(choice); j++ {
					choice[j]++
					if t.heavy && c.Quick() && choice[j] == 1 {
						choice[j] = 2 // 64k-row tables: one valid and one invalid assignment per gadget in the quick tier
					}
					if choice[j] < 4-boolInt(t.heavy && c.Quick()) {
						break
					}
					choice[j] = 0
				}
				if j == len(choice) {
					break
				}
			}
			c.Count("func", fmt.Sprintf("multi-circuits:%d-gadgets", len(t.combo)), 1)
		}})
	}
}

func boolInt(b bool) int {
	if b {
		return 1
	}
	return 0
}
