package main

import (
	"fmt"
	"math/big"
	"sort"
	"strings"

	"github.com/consensys/gnark-crypto/ecc"
	"github.com/consensys/gnark/constraint/solver"
	"github.com/consensys/gnark/frontend"
	"github.com/consensys/gnark/internal/verifh/circ"
	"github.com/consensys/gnark/internal/verifh/hintenv"
	"github.com/consensys/gnark/internal/verifh/vh"
	"github.com/consensys/gnark/std/lookup/logderivlookup"
	"github.com/consensys/gnark/std/multicommit"
	"github.com/consensys/gnark/std/rangecheck"
)

// valueHint supplies a checked value as an internal wire (so that the harness can move the value
// and its limbs together); probeHint echoes the challenge a multicommit callback received.
func valueHint(_ *big.Int, in, out []*big.Int) error { out[0].Set(in[0]); return nil }
func probeHint(_ *big.Int, in, out []*big.Int) error { out[0].Set(in[1]); return nil }

var (
	valueID = solver.GetHintID(valueHint)
	probeID = solver.GetHintID(probeHint)
)

func init() { solver.RegisterHint(valueHint, probeHint) }

// coverage circuit description
type covGadget struct {
	kind   string // "RC", "LV" (variable table), "LC" (constant table), "probe"
	widths []int  // RC
	T, nq  int    // tables
	consts map[int]bool // LV: entries inserted as CONSTANTS (mixed table); nil = all variable
}

type covCircuit struct {
	name    string
	gadgets []covGadget
}

func covCircuits(quick bool) []covCircuit {
	pr := covGadget{kind: "probe"}
	rc := covGadget{kind: "RC", widths: []int{9, 16, 31}}
	rc1 := covGadget{kind: "RC", widths: []int{17}}
	lv := covGadget{kind: "LV", T: 5, nq: 3}
	lc := covGadget{kind: "LC", T: 3, nq: 2}
	lv2 := covGadget{kind: "LV", T: 2, nq: 1}
	// mixed tables: variable and constant entries; last entry constant / first entry constant
	lmLast := covGadget{kind: "LV", T: 4, nq: 2, consts: map[int]bool{1: true, 3: true}}
	lmFirst := covGadget{kind: "LV", T: 3, nq: 2, consts: map[int]bool{0: true}}
	out := []covCircuit{
		{"RC", []covGadget{rc}},
		{"LV", []covGadget{lv}},
		{"LC", []covGadget{lc}},
		{"p+RC+LV+p+LC+p", []covGadget{pr, rc, lv, pr, lc, pr}},
		{"LC+p+LV+RC+p", []covGadget{lc, pr, lv, rc, pr}},
		{"p+LV+p+LV2+p", []covGadget{pr, lv, pr, lv2, pr}},
		{"RC1+p+LV2", []covGadget{rc1, pr, lv2}},
		{"LMlast", []covGadget{lmLast}},
		{"p+LMfirst+RC1+LMlast+p", []covGadget{pr, lmFirst, rc1, lmLast, pr}},
	}
	if !quick {
		out = append(out,
			covCircuit{"p+LV+LC+RC+p", []covGadget{pr, lv, lc, rc, pr}},
			covCircuit{"RC+p+LC", []covGadget{rc, pr, lc}},
			covCircuit{"p+LC+p+RC1+p+LV+p", []covGadget{pr, lc, pr, rc1, pr, lv, pr}},
		)
	}
	return out
}

// layout of the secret inputs of a coverage circuit
type covLayout struct {
	nSec    int
	seedOf  map[string]int // "g.w" -> seed constant passed to valueHint
	entryAt map[string]int // "g.i" -> secret index of table entry
	indexAt map[string]int // "g.q" -> secret index of query index
}

func (cc covCircuit) build() (*circ.C, covLayout) {
	lay := covLayout{seedOf: map[string]int{}, entryAt: map[string]int{}, indexAt: map[string]int{}}
	seed := 100
	for g, gd := range cc.gadgets {
		switch gd.kind {
		case "RC":
			for w := range gd.widths {
				lay.seedOf[fmt.Sprintf("%d.%d", g, w)] = seed
				seed++
			}
		case "LV":
			for i := 0; i < gd.T; i++ {
				if gd.consts[i] {
					continue
				}
				lay.entryAt[fmt.Sprintf("%d.%d", g, i)] = lay.nSec
				lay.nSec++
			}
			fallthrough
		case "LC":
			for q := 0; q < gd.nq; q++ {
				lay.indexAt[fmt.Sprintf("%d.%d", g, q)] = lay.nSec
				lay.nSec++
			}
		}
	}
	if lay.nSec == 0 {
		lay.nSec = 1
	}
	ci := circ.New(0, lay.nSec, func(api frontend.API, p, s []frontend.Variable) error {
		nProbe := 0
		for g, gd := range cc.gadgets {
			g, gd := g, gd
			switch gd.kind {
			case "probe":
				id := nProbe
				nProbe++
				// registered from a deferred function, like the gadgets do (WithCommitment must not be
				// called before the gadgets' own deferred commits have run)
				api.Compiler().Defer(func(api frontend.API) error {
					multicommit.WithCommitment(api, func(api frontend.API, cmt frontend.Variable) error {
						o, err := api.Compiler().NewHint(probeHint, 1, id, cmt)
						if err != nil {
							return err
						}
						api.AssertIsEqual(o[0], cmt)
						return nil
					})
					return nil
				})
			case "RC":
				// a private checker instance per gadget is not possible (the checker is a per-circuit
				// singleton); the deferred commit of the singleton is registered at its first New
				rc := rangecheck.New(api)
				for w, n := range gd.widths {
					v, err := api.Compiler().NewHint(valueHint, 1, lay.seedOf[fmt.Sprintf("%d.%d", g, w)])
					if err != nil {
						return err
					}
					rc.Check(v[0], n)
				}
			case "LV", "LC":
				t := logderivlookup.New(api)
				for i := 0; i < gd.T; i++ {
					if gd.kind == "LV" && !gd.consts[i] {
						t.Insert(s[lay.entryAt[fmt.Sprintf("%d.%d", g, i)]])
					} else {
						t.Insert(entryVal(i + 10*g))
					}
				}
				var idx []frontend.Variable
				for q := 0; q < gd.nq; q++ {
					idx = append(idx, s[lay.indexAt[fmt.Sprintf("%d.%d", g, q)]])
				}
				t.Lookup(idx...)
			}
		}
		if len(lay.entryAt)+len(lay.indexAt) == 0 {
			api.AssertIsEqual(s[0], s[0])
		}
		return nil
	})
	return ci, lay
}

// one observed execution
type covRun struct {
	p           *big.Int
	values      map[int]*big.Int      // seed -> value supplied by valueHint
	forceCount  map[string][]*big.Int // count-hint shape -> forced multiplicities
	forceResult map[string]*big.Int   // "table.q" -> forced result
	limbs       map[int][]*big.Int    // seed-independent: keyed by the ordinal of the decomposition hint
	limbsByVal  map[string][]*big.Int // "n/v" -> limbs
	counts      map[string][]*big.Int // shape -> multiplicities
	results     map[string]*big.Int   // "table.q" -> result
	commitIn    []*big.Int
	root        *big.Int
	probes      map[int]*big.Int
	nCommit     int
}

func newCovRun(p *big.Int) *covRun {
	return &covRun{p: p, values: map[int]*big.Int{}, forceCount: map[string][]*big.Int{}, forceResult: map[string]*big.Int{},
		limbsByVal: map[string][]*big.Int{}, counts: map[string][]*big.Int{}, results: map[string]*big.Int{}, probes: map[int]*big.Int{}}
}

// countShape identifies the gadget a count hint belongs to: table size and row length (the
// coverage circuits never hold two tables of equal size).
func countShape(in []*big.Int) string {
	T, R := int(in[0].Int64()), int(in[1].Int64())
	return fmt.Sprintf("T=%d/R=%d", T, R)
}

func (r *covRun) hook(id solver.HintID, q *big.Int, in, out []*big.Int, err error) error {
	switch id {
	case valueID:
		out[0].Set(r.values[int(in[0].Int64())])
		return nil
	case probeID:
		r.probes[int(in[0].Int64())] = new(big.Int).Set(in[1])
		return err
	case decompID:
		r.limbsByVal[fmt.Sprintf("%v/%v", in[0], in[2])] = cloneVec(out)
		return err
	case countID:
		sh := countShape(in)
		if f, ok := r.forceCount[sh]; ok {
			setOut(out, f)
		} else if err != nil {
			m, _, _ := lenientCount(in)
			setOut(out, m)
		}
		if _, dup := r.counts[sh]; dup {
			panic("cover: two count hints of shape " + sh)
		}
		r.counts[sh] = cloneVec(out)
		return nil
	case hintenv.BsbID:
		r.nCommit++
		r.commitIn = cloneVec(in)
		if len(out) == 1 {
			r.root = new(big.Int).Set(out[0])
		}
	}
	return err
}

func (r *covRun) lookup(table, q int, idx *big.Int, inRange bool, entries []*big.Int, honest *big.Int) *big.Int {
	k := fmt.Sprintf("%d.%d", table, q)
	v := honest
	if f, ok := r.forceResult[k]; ok {
		v = f
	}
	if v == nil {
		v = new(big.Int)
	}
	r.results[k] = new(big.Int).Set(v)
	return v
}

func coverPart(c *vh.Check) {
	var jobs []job
	for _, cc := range covCircuits(c.Quick()) {
		for _, cv := range curves {
			for _, b := range builders {
				cc, cv, b := cc, cv, b
				jobs = append(jobs, job{"cover:" + cc.name, len(cc.gadgets), func() { coverJob(c, cc, cv, b) }})
			}
		}
	}
	sort.SliceStable(jobs, func(i, j int) bool { return jobs[i].weight > jobs[j].weight })
	timed(c, "cover", func() {
		if !c.Par(len(jobs), func(i int) { jobs[i].run() }) {
			c.Cap("cover: deadline before all coverage circuits ran")
		}
	})
}

func coverJob(c *vh.Check, cc covCircuit, cv ecc.ID, b string) {
	ci, lay := cc.build()
	k := compileOn(c, cv, b, "cover:"+cc.name, ci)
	defer k.setHook(nil)
	if nbCommit(k.ccs) != 1 {
		c.Fatal("%s: %d commitments", k.name, nbCommit(k.ccs))
	}
	setChoice, _ := installLookupTamper(k.ccs)
	p := k.field
	// baseline assignment
	baseVals := map[int]*big.Int{}
	sec := make([]*big.Int, lay.nSec)
	for i := range sec {
		sec[i] = big.NewInt(3)
	}
	tableOf := map[int]int{} // gadget -> table ordinal (blueprint order = creation order)
	nt := 0
	for g, gd := range cc.gadgets {
		switch gd.kind {
		case "RC":
			for w, n := range gd.widths {
				// ...0101 pattern: every limb of every base width is neither 0 nor maximal
				v := new(big.Int)
				for i := 0; i < n-1; i += 2 {
					v.SetBit(v, i, 1)
				}
				baseVals[lay.seedOf[fmt.Sprintf("%d.%d", g, w)]] = v
			}
		case "LV", "LC":
			tableOf[g] = nt
			nt++
			for i := 0; i < gd.T; i++ {
				if gd.kind == "LV" && !gd.consts[i] {
					sec[lay.entryAt[fmt.Sprintf("%d.%d", g, i)]] = big.NewInt(entryVal(i + 10*g))
				}
			}
			for q := 0; q < gd.nq; q++ {
				sec[lay.indexAt[fmt.Sprintf("%d.%d", g, q)]] = big.NewInt(int64((2*q + 1) % gd.T))
			}
		}
	}
	run := func(mut func(r *covRun, sec []*big.Int)) (*covRun, string) {
		r := newCovRun(p)
		for s, v := range baseVals {
			r.values[s] = v
		}
		s2 := cloneVec(sec)
		if mut != nil {
			mut(r, s2)
		}
		k.setHook(r.hook)
		setChoice(r.lookup)
		e := k.solve(c, nil, s2)
		c.Traces.Add(1)
		return r, e
	}
	base, e := run(nil)
	if e != "" {
		c.Fatal("%s: baseline does not solve: %s", k.name, e)
	}
	if base.nCommit != 1 || base.root == nil {
		c.Fatal("%s: commitment hint observed %d times", k.name, base.nCommit)
	}
	nProbes := len(base.probes)
	// documented by multicommit: every callback receives a distinct value derived from one root
	seen := map[string]int{}
	for i, v := range base.probes {
		if j, dup := seen[v.String()]; dup {
			c.Violation(fmt.Sprintf("c13:cover:%s:probes-%d-%d:challenges-not-distinct", k.name, j, i), map[string]any{"circuit": k.name, "note": "two multicommit callbacks received the same challenge"})
		}
		seen[v.String()] = i
	}
	force := func(r *covRun) { // pin every multiplicity vector and every lookup result to the baseline
		for sh, m := range base.counts {
			r.forceCount[sh] = m
		}
		for kq, v := range base.results {
			r.forceResult[kq] = v
		}
	}
	type target struct {
		name     string
		isolated bool // exactly one committed variable moves (the argument then fails AFTER the commitment)
		mut      func(r *covRun, sec []*big.Int)
		moved    func(r *covRun) bool // harness self-check: the intended variable really moved
	}
	var targets []target
	for g, gd := range cc.gadgets {
		g, gd := g, gd
		switch gd.kind {
		case "RC":
			for w, n := range gd.widths {
				seed := lay.seedOf[fmt.Sprintf("%d.%d", g, w)]
				v0 := baseVals[seed]
				bl := base.limbsByVal[fmt.Sprintf("%d/%v", n, v0)]
				if bl == nil {
					c.Fatal("%s: no decomposition observed for width %d", k.name, n)
				}
				// recover the base width from the limbs: L limbs for n bits
				L := len(bl)
				bw := 0
				for cand := 2; cand < 18; cand++ {
					if (n+cand-1)/cand == L {
						bw = cand
						break
					}
				}
				for j := 0; j < L; j++ {
					j := j
					bit := -1
					for cand := j * bw; cand < (j+1)*bw && cand < n; cand++ {
						if v0.Bit(cand) == 0 {
							bit = cand
							break
						}
					}
					if bit < 0 {
						c.Fatal("%s: no clear bit in limb %d of width %d", k.name, j, n)
					}
					nv := new(big.Int).SetBit(new(big.Int).Set(v0), bit, 1) // only limb j moves
					targets = append(targets, target{fmt.Sprintf("g%d:RC:w=%d:limb[%d]", g, n, j), true, func(r *covRun, sec []*big.Int) {
						force(r)
						r.values[seed] = nv
					}, func(r *covRun) bool {
						nl := r.limbsByVal[fmt.Sprintf("%d/%v", n, nv)]
						if nl == nil {
							return false
						}
						diff := 0
						for i := range nl {
							if nl[i].Cmp(bl[i]) != 0 {
								diff++
							}
						}
						return diff == 1 && nl[j].Cmp(bl[j]) != 0
					}})
				}
				// consistent move of the value (limbs and multiplicities follow): solves, probes observed
				nv := new(big.Int).Xor(v0, big.NewInt(1))
				targets = append(targets, target{fmt.Sprintf("g%d:RC:w=%d:value", g, n), false, func(r *covRun, sec []*big.Int) { r.values[seed] = nv }, nil})
			}
		case "LV", "LC":
			t := tableOf[g]
			for q := 0; q < gd.nq; q++ {
				q := q
				kq := fmt.Sprintf("%d.%d", t, q)
				targets = append(targets, target{fmt.Sprintf("g%d:%s:result[%d]", g, gd.kind, q), true, func(r *covRun, sec []*big.Int) {
					force(r)
					r.forceResult[kq] = mod(new(big.Int).Add(base.results[kq], big.NewInt(1)), p)
				}, func(r *covRun) bool { return r.results[kq].Cmp(base.results[kq]) != 0 }})
				at := lay.indexAt[fmt.Sprintf("%d.%d", g, q)]
				targets = append(targets, target{fmt.Sprintf("g%d:%s:index[%d]", g, gd.kind, q), false, func(r *covRun, sec []*big.Int) {
					sec[at] = big.NewInt((sec[at].Int64() + 1) % int64(gd.T))
				}, nil})
			}
			if gd.kind == "LV" {
				for i := 0; i < gd.T; i++ {
					if gd.consts[i] {
						continue
					}
					at := lay.entryAt[fmt.Sprintf("%d.%d", g, i)]
					queried := false
					for q := 0; q < gd.nq; q++ {
						if (2*q+1)%gd.T == i {
							queried = true
						}
					}
					nm := fmt.Sprintf("g%d:LV:entry[%d]:unqueried", g, i)
					if queried {
						nm = fmt.Sprintf("g%d:LV:entry[%d]", g, i)
					}
					targets = append(targets, target{nm, true, func(r *covRun, sec []*big.Int) {
						force(r)
						sec[at] = new(big.Int).Add(sec[at], big.NewInt(1))
					}, nil})
					targets = append(targets, target{fmt.Sprintf("g%d:LV:entry[%d]:consistent", g, i), false, func(r *covRun, sec []*big.Int) {
						sec[at] = new(big.Int).Add(sec[at], big.NewInt(1))
					}, nil})
				}
			}
		}
	}
	// multiplicities of every count hint (one per gadget with queries)
	var shapes []string
	for sh := range base.counts {
		shapes = append(shapes, sh)
	}
	sort.Strings(shapes)
	for _, sh := range shapes {
		sh := sh
		m0 := base.counts[sh]
		pos := make([]int, 0, len(m0))
		for i := range m0 {
			pos = append(pos, i)
		}
		if len(pos) > 10 && c.Quick() {
			pos = uniq([]int{0, 1, 2, len(m0) / 2, len(m0) - 2, len(m0) - 1})
		}
		for _, i := range pos {
			i := i
			targets = append(targets, target{fmt.Sprintf("count{%s}:multiplicity[%d]", sh, i), true, func(r *covRun, sec []*big.Int) {
				force(r)
				m := cloneVec(m0)
				m[i].Add(m[i], big.NewInt(1))
				r.forceCount[sh] = m
			}, func(r *covRun) bool { return r.counts[sh] != nil && r.counts[sh][i].Cmp(m0[i]) != 0 }})
		}
	}
	for _, tg := range targets {
		r, e := run(tg.mut)
		key := fmt.Sprintf("c13:cover:%s:%s", k.name, tg.name)
		if tg.moved != nil && !tg.moved(r) {
			c.Fatal("%s: the perturbation did not move the intended variable", key)
		}
		if r.root == nil {
			c.Fatal("%s: commitment hint not reached (%s)", key, e)
		}
		same := len(r.commitIn) == len(base.commitIn)
		if same {
			for i := range r.commitIn {
				if r.commitIn[i].Cmp(base.commitIn[i]) != 0 {
					same = false
				}
			}
		}
		cls := "isolated"
		if !tg.isolated {
			cls = "consistent"
		}
		if same || r.root.Cmp(base.root) == 0 {
			c.Outcome("cover:" + cls + ":NOT-COMMITTED")
			c.Violation(key+":not-committed", map[string]any{"circuit": k.name, "variable": tg.name,
				"note": "changing this committed variable leaves the values handed to the commitment (hence every gadget's challenge) unchanged", "commit_inputs": len(base.commitIn)})
			continue
		}
		c.Outcome("cover:" + cls + ":challenge-moves")
		if tg.isolated {
			if e == "" && !strings.HasSuffix(tg.name, ":unqueried") { // an entry no query reads may change freely
				c.Violation(key+":isolated-change-accepted", map[string]any{"circuit": k.name, "variable": tg.name, "note": "one committed variable changed alone and the circuit is still satisfied"})
			}
			c.Count("cover", "isolated-variables", 1)
			continue
		}
		// consistent move: the execution solves and every probe position received a new challenge
		if e != "" {
			c.Fatal("%s: consistent perturbation does not solve: %s", key, e)
		}
		if len(r.probes) != nProbes {
			c.Fatal("%s: %d probes observed, baseline %d", key, len(r.probes), nProbes)
		}
		for i, v := range r.probes {
			if v.Cmp(base.probes[i]) == 0 {
				c.Violation(fmt.Sprintf("%s:probe%d:challenge-unchanged", key, i), map[string]any{"circuit": k.name, "variable": tg.name, "probe": i,
					"note": "the multicommit callback at this position received the same challenge although a committed value of another gadget changed"})
			}
		}
		c.Count("cover", "consistent-moves", 1)
		c.Count("cover", "probe-observations", int64(len(r.probes)))
	}
	c.Count("cover", "circuits", 1)
	if cc.name == "p+RC+LV+p+LC+p" && cv == ecc.BN254 {
		c.Sample(map[string]any{"part": "cover", "circuit": k.name, "committed_values_seen_by_commit_hint": len(base.commitIn), "variables_perturbed": len(targets), "probes": nProbes, "root": base.root.String()[:12] + "…"})
	}
}
