package main

import (
	"fmt"
	"math/big"
	"sort"
	"strings"
	"time"

	"github.com/consensys/gnark-crypto/ecc"
	"github.com/consensys/gnark/constraint/solver"
	"github.com/consensys/gnark/frontend"
	"github.com/consensys/gnark/internal/verifh/circ"
	"github.com/consensys/gnark/internal/verifh/hintenv"
	"github.com/consensys/gnark/internal/verifh/vh"
	"github.com/consensys/gnark/std/lookup/logderivlookup"
)

// ---- alphabets -------------------------------------------------------------------------------

type alt struct {
	name string
	vals []*big.Int
}

func decompose(x *big.Int, b, L int, trunc bool) []*big.Int {
	out := make([]*big.Int, L)
	base := pow2(b)
	t := new(big.Int).Set(x)
	for i := 0; i < L; i++ {
		if i == L-1 && !trunc {
			out[i] = new(big.Int).Set(t)
			break
		}
		out[i] = new(big.Int).Mod(t, base)
		t.Rsh(t, uint(b))
	}
	return out
}

func cloneVec(v []*big.Int) []*big.Int {
	o := make([]*big.Int, len(v))
	for i := range v {
		o[i] = new(big.Int).Set(v[i])
	}
	return o
}

// decompAlts: candidate limb tuples for DecomposeHint(n, b, v); honest first.
func decompAlts(n, b int, v, p *big.Int, L int, allPos bool) []alt {
	base := pow2(b)
	var out []alt
	seen := map[string]bool{}
	add := func(name string, l []*big.Int) {
		for i := range l {
			l[i] = mod(l[i], p)
		}
		k := fmt.Sprint(l)
		if !seen[k] {
			seen[k] = true
			out = append(out, alt{name, l})
		}
	}
	add("honest", decompose(v, b, L, true))
	full := decompose(v, b, L, false)
	add("full", cloneVec(full))
	vp := new(big.Int).Add(v, p)
	add("v+p", decompose(vp, b, L, false))
	add("v+p:trunc", decompose(vp, b, L, true))
	vm := mod(new(big.Int).Sub(v, pow2(n)), p)
	m := decompose(vm, b, L, true)
	add("v-2^n", cloneVec(m))
	if n >= b*(L-1) {
		m2 := cloneVec(m)
		m2[L-1].Add(m2[L-1], pow2(n-b*(L-1)))
		add("v-2^n:top+carry", m2)
	}
	topW := pow2(b * (L - 1))
	inv := new(big.Int).ModInverse(topW, p)
	z := make([]*big.Int, L)
	for i := range z {
		z[i] = new(big.Int)
	}
	z[L-1] = mod(new(big.Int).Mul(v, inv), p)
	add("low=0:top=v/2^(b(L-1))", z)
	if L >= 2 {
		// the top limb made small (fits the shifted check), the defect pushed into limb L-2 in the field
		w := cloneVec(full)
		w[L-1].Mod(w[L-1], pow2(imax(n-b*(L-1), 0)))
		rest := new(big.Int).Sub(v, new(big.Int).Mul(w[L-1], topW))
		for i := 0; i < L-2; i++ {
			rest.Sub(rest, new(big.Int).Mul(w[i], pow2(b*i)))
		}
		w[L-2] = mod(new(big.Int).Mul(mod(rest, p), new(big.Int).ModInverse(pow2(b*(L-2)), p)), p)
		add("top-small:defect-in-L-2", w)
	}
	var pos []int
	for j := 0; j < L-1; j++ {
		pos = append(pos, j)
	}
	if (!allPos && len(pos) > 8) || len(pos) > 24 {
		pos = uniq([]int{0, 1, 2, L / 2, L - 4, L - 3, L - 2})
	}
	for _, j := range pos {
		cp := cloneVec(full)
		cp[j].Add(cp[j], base)
		cp[j+1].Sub(cp[j+1], big.NewInt(1))
		add(fmt.Sprintf("carry+@%d", j), cp)
		cm := cloneVec(full)
		cm[j].Sub(cm[j], base)
		cm[j+1].Add(cm[j+1], big.NewInt(1))
		add(fmt.Sprintf("carry-@%d", j), cm)
		bj := cloneVec(full)
		d := new(big.Int).Sub(bj[j], base)
		d.Mul(d, pow2(b*j))
		d.Mul(d, inv)
		bj[j] = new(big.Int).Set(base)
		bj[L-1] = new(big.Int).Add(bj[L-1], d)
		add(fmt.Sprintf("2^b@%d", j), bj)
	}
	return out
}

func imax(a, b int) int {
	if a > b {
		return a
	}
	return b
}

// lenientCount: multiplicities of the table rows among the queries; queries matching no row are
// returned in `outside` (the honest hint errors on them).  inputs = [nbTable, nbRow, table.., queries..]
func lenientCount(in []*big.Int) (m []*big.Int, table, outside [][]*big.Int) {
	T := int(in[0].Int64())
	R := int(in[1].Int64())
	idx := map[string]int{}
	m = make([]*big.Int, T)
	for i := 0; i < T; i++ {
		row := in[2+R*i : 2+R*i+R]
		table = append(table, row)
		if _, dup := idx[fmt.Sprint(row)]; !dup {
			idx[fmt.Sprint(row)] = i
		}
		m[i] = new(big.Int)
	}
	for o := 2 + R*T; o+R <= len(in); o += R {
		row := in[o : o+R]
		if i, ok := idx[fmt.Sprint(row)]; ok {
			m[i].Add(m[i], big.NewInt(1))
		} else {
			outside = append(outside, cloneVec(row))
		}
	}
	return
}

// countAlts: candidate multiplicity vectors; default first.
func countAlts(in []*big.Int, p *big.Int, allPos bool) []alt {
	m, table, outside := lenientCount(in)
	T := len(m)
	out := []alt{{"honest", m}}
	if len(outside) > 0 {
		// count an outside query as the row whose first column equals it modulo the table size
		w := cloneVec(m)
		for _, q := range outside {
			j := int(new(big.Int).Mod(q[0], big.NewInt(int64(T))).Int64())
			w[j].Add(w[j], big.NewInt(1))
		}
		out = append(out, alt{"wrap-outsiders", w})
		w0 := cloneVec(m)
		w0[0].Add(w0[0], big.NewInt(int64(len(outside))))
		out = append(out, alt{"outsiders-as-row0", w0})
	}
	_ = table
	var pos []int
	for i := 0; i < T; i++ {
		pos = append(pos, i)
	}
	if (!allPos && T > 8) || T > 32 {
		pos = uniq([]int{0, 1, 2, T / 2, T - 2, T - 1})
	}
	for _, i := range pos {
		a := cloneVec(m)
		a[i].Add(a[i], big.NewInt(1))
		out = append(out, alt{fmt.Sprintf("+1@%d", i), a})
		s := cloneVec(m)
		s[i] = mod(s[i].Sub(s[i], big.NewInt(1)), p)
		out = append(out, alt{fmt.Sprintf("-1@%d", i), s})
	}
	zero := make([]*big.Int, T)
	for i := range zero {
		zero[i] = new(big.Int)
	}
	out = append(out, alt{"all-zero", zero})
	return out
}

func setOut(out []*big.Int, vals []*big.Int) {
	for i := range out {
		out[i].Set(vals[i])
	}
}

// ---- the dishonest prover ---------------------------------------------------------------------

type advRun struct {
	x        *vh.Ctx
	p        *big.Int
	allPos   bool
	tainted  bool // a lookup result differs from the true entry / an index is outside the table
	root     *big.Int
	nDecomp  int
	nCount   int
	forged   func(in []*big.Int) []*big.Int // when set, replaces the multiplicity choice
	fixLimbs map[int]int                    // decomp hint ordinal -> forced alternative (two-pass attack)
	chosen   []string
}

func (r *advRun) hook(id solver.HintID, q *big.Int, in, out []*big.Int, err error) error {
	switch id {
	case decompID:
		n, b := int(in[0].Int64()), int(in[1].Int64())
		alts := decompAlts(n, b, in[2], r.p, len(out), r.allPos)
		ch := 0
		if r.fixLimbs != nil {
			ch = r.fixLimbs[r.nDecomp]
			if ch >= len(alts) {
				ch = 0
			}
		} else {
			ch = r.x.Choose(fmt.Sprintf("limbs#%d", r.nDecomp), len(alts))
		}
		r.nDecomp++
		if ch != 0 {
			r.chosen = append(r.chosen, "limbs="+alts[ch].name)
		}
		setOut(out, alts[ch].vals)
		return nil
	case countID:
		if r.forged != nil {
			setOut(out, r.forged(in))
			r.nCount++
			return nil
		}
		alts := countAlts(in, r.p, r.allPos)
		ch := 0
		if r.x != nil {
			ch = r.x.Choose(fmt.Sprintf("mult#%d", r.nCount), len(alts))
		}
		r.nCount++
		if ch != 0 {
			r.chosen = append(r.chosen, "mult="+alts[ch].name)
		}
		setOut(out, alts[ch].vals)
		return nil // the honest hint's "query element not in table" is the honest prover's problem only
	case hintenv.BsbID:
		if err == nil && len(out) == 1 {
			r.root = new(big.Int).Set(out[0])
		}
	}
	return err
}

func (r *advRun) lookup(table, q int, idx *big.Int, inRange bool, entries []*big.Int, honest *big.Int) *big.Int {
	T := len(entries)
	var alts []*big.Int
	add := func(v *big.Int) {
		for _, a := range alts {
			if a.Cmp(v) == 0 {
				return
			}
		}
		alts = append(alts, v)
	}
	if inRange {
		i := int(idx.Int64())
		add(honest)
		add(entries[(i+1)%T])
		add(entries[(i+T-1)%T])
		add(mod(new(big.Int).Add(honest, big.NewInt(1)), r.p))
		add(new(big.Int))
	} else {
		r.tainted = true
		add(entries[0])
		add(entries[T-1])
		add(entries[int(new(big.Int).Mod(idx, big.NewInt(int64(T))).Int64())])
		add(new(big.Int))
	}
	ch := r.x.Choose(fmt.Sprintf("result#%d.%d", table, q), len(alts))
	if ch != 0 {
		r.chosen = append(r.chosen, fmt.Sprintf("result#%d.%d=%v", table, q, alts[ch]))
		if inRange {
			r.tainted = true
		}
	}
	return alts[ch]
}

type advStats struct {
	execs, solved, rejected int64
}

func advPart(c *vh.Check) {
	var jobs []job
	advRange(c, &jobs)
	advLookup(c, &jobs)
	sort.SliceStable(jobs, func(i, j int) bool { return jobs[i].weight > jobs[j].weight })
	timed(c, "adv", func() {
		if !c.Par(len(jobs), func(i int) {
			t0 := time.Now()
			jobs[i].run()
			if d := time.Since(t0); d > 5*time.Second {
				c.Count("slow_jobs_ms", jobs[i].name, d.Milliseconds())
			}
		}) {
			c.Cap("adv: deadline before all dishonest-prover scenarios ran")
		}
	})
}

// advRange: range-check scenarios with at least one out-of-range value.
func advRange(c *vh.Check, jobs *[]job) {
	single := []int{1, 2, 3, 5, 8, 9, 16, 17, 31, 64, 65, 253, 254}
	mixes := [][]int{{8, 9}, {3, 17}, {16, 16}, {5, 64}, {1, 2, 3}, {9, 9, 31}}
	if !c.Quick() {
		single = append(single, 4, 6, 7, 10, 12, 13, 32, 33, 63, 127, 128, 129, 252, 255)
		mixes = append(mixes, []int{17, 65}, []int{64, 253}, []int{2, 8, 16}, []int{253, 253}, []int{5, 9, 17})
	}
	var sets [][]int
	for _, n := range single {
		sets = append(sets, []int{n})
	}
	sets = append(sets, mixes...)
	for _, ws := range sets {
		for _, cv := range curves {
			for _, b := range builders {
				ws, cv, b := ws, cv, b
				maxw := 0
				for _, n := range ws {
					maxw = imax(maxw, n)
				}
				*jobs = append(*jobs, job{fmt.Sprintf("adv:range:%v:%s:%s", ws, curveName(cv), b), maxw * len(ws), func() { advRangeJob(c, cv, b, ws) }})
			}
		}
	}
}

func advRangeJob(c *vh.Check, cv ecc.ID, b string, ws []int) {
	k := compileOn(c, cv, b, "range:w="+joinInts(ws), rcCircuit(ws, nil))
	defer k.setHook(nil)
	p := k.field
	allPos := !c.Quick()
	// honest plumbing check: in-range values with every choice at its default must solve
	{
		sec := make([]*big.Int, len(ws))
		for i, n := range ws {
			sec[i] = mod(new(big.Int).Sub(pow2(n), big.NewInt(1)), p)
			if !inRange(sec[i], n) {
				sec[i] = big.NewInt(1)
			}
		}
		r := &advRun{x: vh.RunOnce(func(*vh.Ctx) {}, nil), p: p, allPos: allPos}
		k.setHook(r.hook)
		if e := k.solve(c, nil, sec); e != "" {
			c.Fatal("adv %s: honest run through the substitution hook fails: %s", k.name, e)
		}
		c.Outcome("adv:range:honest-solves")
	}
	for bad := range ws {
		vals, names := rangeValues(ws[bad], p)
		if !c.Quick() {
			fv, fn := fracValues(p)
			vals, names = append(vals, fv...), append(names, fn...)
		}
		for vi, v := range vals {
			if inRange(v, ws[bad]) {
				continue
			}
			if c.Expired() {
				c.Cap("adv: deadline inside " + k.name)
				return
			}
			sec := make([]*big.Int, len(ws))
			for i, n := range ws {
				sec[i] = mod(new(big.Int).Sub(pow2(n), big.NewInt(2+int64(i))), p)
				if !inRange(sec[i], n) || sec[i].Sign() < 0 {
					sec[i] = big.NewInt(1)
				}
			}
			sec[bad] = v
			scen := fmt.Sprintf("c13:adv:%s:bad=%d:v=%s", k.name, bad, names[vi])
			var st advStats
			ex := &vh.Explorer{Bound: 2, Workers: 1, Stop: c.Expired}
			ex.Run = func(x *vh.Ctx) {
				r := &advRun{x: x, p: p, allPos: allPos}
				k.setHook(r.hook)
				e := k.solve(c, nil, sec)
				st.execs++
				if e == "" {
					st.solved++
					c.Violation(scen+":"+strings.Join(r.chosen, "+"), map[string]any{"scenario": scen, "widths": ws, "values": fmt.Sprint(sec), "choices": x.Trace(), "substituted": r.chosen,
						"note": "out-of-range value accepted with these hint outputs (commitment = hash of all committed values)"})
				} else {
					st.rejected++
				}
			}
			ex.OnNondet = func(x *vh.Ctx) { c.Fatal("adv %s: nondeterministic choice sequence: %s", scen, x.Diverged) }
			if !ex.Explore() {
				c.Cap("adv: deadline inside " + scen)
			}
			// two-pass attack: learn the challenge with the chosen limbs, then forge multiplicities
			// for that challenge (fails iff the challenge depends on the multiplicities)
			if len(ws) == 1 {
				for a := 0; ; a++ {
					r1 := &advRun{p: p, allPos: allPos, fixLimbs: map[int]int{0: a}}
					k.setHook(r1.hook)
					e1 := k.solve(c, nil, sec)
					st.execs++
					if len(r1.chosen) == 0 && a > 0 {
						break // alternative index beyond the alphabet
					}
					if r1.root == nil {
						continue // an earlier constraint (recomposition) failed before the commitment
					}
					_ = e1
					x := r1.root
					r2 := &advRun{p: p, allPos: allPos, fixLimbs: map[int]int{0: a}}
					r2.forged = func(in []*big.Int) []*big.Int {
						m, _, outside := lenientCount(in)
						acc := new(big.Int)
						for _, q := range outside {
							d := mod(new(big.Int).Sub(x, q[0]), p)
							if d.Sign() == 0 {
								continue
							}
							acc.Add(acc, new(big.Int).ModInverse(d, p))
						}
						acc.Mul(acc, x) // table row 0 is the value 0: multiplier (x - 0)
						m[0] = mod(new(big.Int).Add(m[0], acc), p)
						return m
					}
					k.setHook(r2.hook)
					e2 := k.solve(c, nil, sec)
					st.execs++
					if e2 == "" {
						st.solved++
						c.Violation(scen+":forged-multiplicities:"+strings.Join(r2.chosen, "+"), map[string]any{"scenario": scen, "values": fmt.Sprint(sec), "limbs": r2.chosen,
							"note": "multiplicities computed from the challenge of a first run satisfy the argument: the challenge does not depend on them"})
					} else {
						st.rejected++
					}
					c.Outcome("adv:range:forged:rejected")
				}
			}
			c.Traces.Add(st.execs)
			c.Count("adv", "range-scenarios", 1)
			c.Count("adv", "range-executions", st.execs)
			if st.solved == 0 {
				c.Outcome("adv:range:" + b + ":all-rejected")
			} else {
				c.Outcome("adv:range:" + b + ":ACCEPTED")
			}
			if len(ws) == 1 && ws[0] == 9 && names[vi] == "2^n" && cv == ecc.BN254 {
				c.Sample(map[string]any{"part": "adv", "scenario": scen, "executions": st.execs, "accepted": st.solved, "alphabet_limbs": altNames(decompAlts(9, 2, v, p, 5, allPos))})
			}
		}
	}
}

func altNames(a []alt) []string {
	var s []string
	for _, x := range a {
		s = append(s, x.name)
	}
	return s
}

// advLookup: lookup scenarios; results are NOT asserted against inputs, the argument alone has to
// reject a false result.
func advLookup(c *vh.Check, jobs *[]job) {
	sizes := []int{1, 2, 3, 4}
	if !c.Quick() {
		sizes = append(sizes, 5, 8, 255, 256, 257)
	}
	for _, T := range sizes {
		for _, variable := range []bool{false, true} {
			for _, cv := range curves {
				for _, b := range builders {
					T, variable, cv, b := T, variable, cv, b
					*jobs = append(*jobs, job{fmt.Sprintf("adv:lookup:T=%d:%v:%s:%s", T, variable, curveName(cv), b), T, func() { advLookupJob(c, cv, b, T, variable) }})
				}
			}
		}
	}
}

func advLookupJob(c *vh.Check, cv ecc.ID, b string, T int, variable bool) {
	kind := "const"
	if variable {
		kind = "var"
	}
	I := func(i int) *big.Int { return big.NewInt(int64(i)) }
	pm1 := new(big.Int).Sub(cv.ScalarField(), big.NewInt(1))
	patterns := []struct {
		name string
		idx  []*big.Int
	}{
		{"one@0", []*big.Int{I(0)}},
		{"one@last", []*big.Int{I(T - 1)}},
		{"repeated", []*big.Int{I(T / 2), I(T / 2), I(T / 2)}},
		{"mixed", []*big.Int{I(0), I(T - 1), I(T / 2)}},
		{"oob=n", []*big.Int{I(T)}},
		{"oob=n+1", []*big.Int{I(T + 1)}},
		{"oob=p-1", []*big.Int{pm1}},
		{"mixed+oob", []*big.Int{I(0), I(T), I(T - 1)}},
	}
	if T <= 8 {
		all := make([]*big.Int, T)
		for i := range all {
			all[i] = I(i)
		}
		patterns = append(patterns, struct {
			name string
			idx  []*big.Int
		}{"all", all})
	}
	for _, pt := range patterns {
		if c.Expired() {
			c.Cap("adv: deadline inside lookup scenarios")
			return
		}
		nq := len(pt.idx)
		ns := nq
		if variable {
			ns += T
		}
		ci := circ.New(0, ns, func(api frontend.API, p, s []frontend.Variable) error {
			t := logderivlookup.New(api)
			off := 0
			for i := 0; i < T; i++ {
				if variable {
					t.Insert(s[i])
				} else {
					t.Insert(entryVal(i))
				}
			}
			if variable {
				off = T
			}
			t.Lookup(s[off : off+nq]...)
			return nil
		})
		k := compileOn(c, cv, b, fmt.Sprintf("lookup:T=%d:%s:%s", T, kind, pt.name), ci)
		setChoice, nT := installLookupTamper(k.ccs)
		if nT != 1 {
			c.Fatal("adv %s: %d lookup blueprints found", k.name, nT)
		}
		var sec []*big.Int
		if variable {
			for i := 0; i < T; i++ {
				sec = append(sec, big.NewInt(entryVal(i)))
			}
		}
		sec = append(sec, pt.idx...)
		scen := "c13:adv:" + k.name
		var st advStats
		honestSolved := false
		ex := &vh.Explorer{Bound: 2, Workers: 1, Stop: c.Expired}
		ex.Run = func(x *vh.Ctx) {
			r := &advRun{x: x, p: k.field, allPos: !c.Quick()}
			k.setHook(r.hook)
			setChoice(r.lookup)
			e := k.solve(c, nil, sec)
			st.execs++
			switch {
			case e == "" && r.tainted:
				st.solved++
				c.Violation(scen+":"+strings.Join(r.chosen, "+"), map[string]any{"scenario": scen, "indices": fmt.Sprint(pt.idx), "choices": x.Trace(), "substituted": r.chosen,
					"note": "a lookup result that is not the entry stored at the queried index (or an index outside the table) is accepted"})
			case e == "":
				if x.Deviations() == 0 {
					honestSolved = true
				}
			default:
				st.rejected++
			}
		}
		ex.OnNondet = func(x *vh.Ctx) { c.Fatal("adv %s: nondeterministic choice sequence: %s", scen, x.Diverged) }
		done := ex.Explore()
		k.setHook(nil)
		setChoice(nil)
		if !done {
			c.Cap("adv: deadline inside " + scen)
		}
		oob := strings.Contains(pt.name, "oob")
		if !oob && !honestSolved && done {
			c.Violation(scen+":honest-unsolved", map[string]any{"scenario": scen, "note": "valid indices, true results, honest multiplicities: not solved"})
		}
		// the real blueprint code (no wrapper choice) must agree with the default execution
		e := k.solve(c, nil, sec)
		if (e == "") == oob {
			c.Violation(scen+":real-blueprint", map[string]any{"scenario": scen, "solver": e, "note": "real lookup blueprint: valid indices must solve, an index outside the table must fail"})
		}
		c.Traces.Add(st.execs + 1)
		c.Count("adv", "lookup-scenarios", 1)
		c.Count("adv", "lookup-executions", st.execs)
		if st.solved == 0 {
			c.Outcome("adv:lookup:" + b + ":" + kind + ":false-results-rejected")
		} else {
			c.Outcome("adv:lookup:" + b + ":" + kind + ":ACCEPTED")
		}
		if T == 3 && pt.name == "mixed" && cv == ecc.BN254 && !variable {
			c.Sample(map[string]any{"part": "adv", "scenario": scen, "executions": st.execs, "false_results_accepted": st.solved})
		}
	}
}
