package main

import (
	"fmt"
	"math/big"
	"regexp"
	"sort"

	"github.com/consensys/gnark-crypto/ecc"
	"github.com/consensys/gnark/constraint/solver"
	"github.com/consensys/gnark/frontend"
	"github.com/consensys/gnark/internal/verifh/circ"
	"github.com/consensys/gnark/internal/verifh/hintenv"
	"github.com/consensys/gnark/internal/verifh/vh"
	"github.com/consensys/gnark/std/lookup/logderivlookup"
)

// Part "indep": challenge-INDEPENDENT forgeries of the log-derivative argument.
//
// For a false lookup (an index outside the table, or a value that is not the stored entry) the
// acceptance equation  sum_i m_i / (x - row_i) = sum_j 1 / (x - query_j)  is AFFINE in the
// prover's multiplicities m once the challenge is fixed.  The multiplicities are committed before
// the challenge exists, so a dishonest prover needs ONE vector m that works for (almost) every
// challenge.  With row-compression coefficients that are independent functions of the challenge
// no such vector exists for a false statement; if the coefficients are algebraically related
// (e.g. successive powers of the challenge) structured tables admit one.
//
// Per scenario (table, false query) the REAL compiled circuit is solved by the REAL solver with
// the commitment hint forced to K = T+2 different challenge values and the multiplicity hint
// forced to 0 and to each unit vector; the residual of the failing final equation is read from
// the solver's error ("a . b != c"), which gives K affine equations in the T unknowns; Gaussian
// elimination over the field decides whether they have a common solution.  A solution is then
// offered to the real solver with the GENUINE (hash-derived) challenge: accepted = violation.

var unsatRe = regexp.MustCompile(`is not satisfied: (\d+) ⋅ (\d+) != (\d+)`)

type indepCircuit struct {
	k         *compiled
	T         int
	setChoice func(lookupChoice)
}

func newIndepCircuit(c *vh.Check, cv ecc.ID, T int) *indepCircuit {
	ci := circ.New(0, T+1, func(api frontend.API, p, s []frontend.Variable) error {
		t := logderivlookup.New(api)
		for i := 0; i < T; i++ {
			t.Insert(s[i])
		}
		t.Lookup(s[T])
		return nil
	})
	k := compileOn(c, cv, circ.R1CS, fmt.Sprintf("indep:T=%d", T), ci)
	set, n := installLookupTamper(k.ccs)
	if n != 1 {
		c.Fatal("indep: %d lookup blueprints", n)
	}
	return &indepCircuit{k, T, set}
}

// run solves with forced lookup result, forced multiplicities and (when chal != nil) a forced
// commitment value; returns "" when solved, else the solver's error.
func (ic *indepCircuit) run(c *vh.Check, table []int64, idx, val *big.Int, m []*big.Int, chal *big.Int) string {
	ic.setChoice(func(_, _ int, _ *big.Int, _ bool, _ []*big.Int, _ *big.Int) *big.Int { return val })
	ic.k.setHook(func(id solver.HintID, q *big.Int, in, out []*big.Int, err error) error {
		switch id {
		case countID:
			if len(out) != len(m) {
				return fmt.Errorf("indep: count hint has %d outputs, expected %d", len(out), len(m))
			}
			setOut(out, m)
			return nil
		case hintenv.BsbID:
			if chal != nil && err == nil {
				out[0].Set(chal)
			}
		}
		return err
	})
	sec := make([]*big.Int, ic.T+1)
	for i, e := range table {
		sec[i] = big.NewInt(e)
	}
	sec[ic.T] = idx
	e := ic.k.solve(c, nil, sec)
	ic.k.setHook(nil)
	ic.setChoice(nil)
	return e
}

// residual = a*b - c of the failing constraint (0 when solved); ok=false if the error has another form.
func residual(e string, p *big.Int) (*big.Int, bool) {
	if e == "" {
		return new(big.Int), true
	}
	mm := unsatRe.FindStringSubmatch(e)
	if mm == nil {
		return nil, false
	}
	a, _ := new(big.Int).SetString(mm[1], 10)
	b, _ := new(big.Int).SetString(mm[2], 10)
	cc, _ := new(big.Int).SetString(mm[3], 10)
	r := new(big.Int).Mul(a, b)
	return r.Sub(r, cc).Mod(r, p), true
}

// solveLinear: a common solution of rows[k] . m = rhs[k] over F_p, or nil.
func solveLinear(rows [][]*big.Int, rhs []*big.Int, p *big.Int) []*big.Int {
	K, T := len(rows), len(rows[0])
	M := make([][]*big.Int, K)
	for k := range M {
		M[k] = make([]*big.Int, T+1)
		for i := 0; i < T; i++ {
			M[k][i] = new(big.Int).Set(rows[k][i])
		}
		M[k][T] = new(big.Int).Set(rhs[k])
	}
	piv := make([]int, 0, T)
	r := 0
	for col := 0; col < T && r < K; col++ {
		s := -1
		for k := r; k < K; k++ {
			if M[k][col].Sign() != 0 {
				s = k
				break
			}
		}
		if s < 0 {
			continue
		}
		M[r], M[s] = M[s], M[r]
		inv := new(big.Int).ModInverse(M[r][col], p)
		for j := col; j <= T; j++ {
			M[r][j].Mul(M[r][j], inv).Mod(M[r][j], p)
		}
		for k := 0; k < K; k++ {
			if k != r && M[k][col].Sign() != 0 {
				f := new(big.Int).Set(M[k][col])
				for j := col; j <= T; j++ {
					t := new(big.Int).Mul(f, M[r][j])
					M[k][j].Sub(M[k][j], t).Mod(M[k][j], p)
				}
			}
		}
		piv = append(piv, col)
		r++
	}
	for k := r; k < K; k++ {
		if M[k][T].Sign() != 0 {
			return nil // inconsistent
		}
	}
	sol := make([]*big.Int, T)
	for i := range sol {
		sol[i] = new(big.Int)
	}
	for i, col := range piv {
		sol[col] = M[i][T]
	}
	return sol
}

type indepScenario struct {
	table    []int64
	idx, val int64
}

func indepScenarios(quick bool) []indepScenario {
	var out []indepScenario
	entries := []int64{0, 1, 2, 3}
	var tables [][]int64
	var rec func(cur []int64, n int)
	rec = func(cur []int64, n int) {
		if len(cur) == n {
			tables = append(tables, append([]int64(nil), cur...))
			return
		}
		for _, e := range entries {
			rec(append(cur, e), n)
		}
	}
	rec(nil, 3)
	rec(nil, 4)
	tables = append(tables, []int64{9, 0, 1, 2}, []int64{8, 9, 1, 5})
	for ti, t := range tables {
		if quick && len(t) == 4 && ti%4 != 0 && t[0] != 9 && t[0] != 8 {
			continue // quick: every size-3 table, a quarter of the size-4 tables
		}
		T := int64(len(t))
		for idx := int64(-7); idx < T+3; idx++ {
			for val := int64(0); val <= 6; val++ {
				if idx >= 0 && idx < T && t[idx] == val {
					continue // a true statement
				}
				if quick && (idx+val)%2 != 0 && idx != -6 {
					continue
				}
				out = append(out, indepScenario{t, idx, val})
			}
		}
	}
	return out
}

func indepPart(c *vh.Check) {
	cv := ecc.BN254
	p := cv.ScalarField()
	scs := indepScenarios(c.Quick())
	// one compiled circuit per table size and worker (the hooks are per compiled system)
	type slot struct{ ic map[int]*indepCircuit }
	var jobs []job
	const chunk = 64
	for lo := 0; lo < len(scs); lo += chunk {
		lo := lo
		hi := lo + chunk
		if hi > len(scs) {
			hi = len(scs)
		}
		jobs = append(jobs, job{fmt.Sprintf("indep:%d", lo), 1, func() {
			ics := map[int]*indepCircuit{}
			for _, sc := range scs[lo:hi] {
				if c.Expired() {
					return
				}
				T := len(sc.table)
				ic := ics[T]
				if ic == nil {
					ic = newIndepCircuit(c, cv, T)
					ics[T] = ic
				}
				indepScenarioRun(c, ic, sc, p)
			}
		}})
	}
	sort.SliceStable(jobs, func(i, j int) bool { return jobs[i].name < jobs[j].name })
	timed(c, "indep", func() {
		if !c.Par(len(jobs), func(i int) { jobs[i].run() }) {
			c.Cap("indep: deadline before all scenarios ran")
		}
	})
	c.Count("indep", "scenarios", int64(len(scs)))
}

func indepScenarioRun(c *vh.Check, ic *indepCircuit, sc indepScenario, p *big.Int) {
	T := ic.T
	idx := mod(big.NewInt(sc.idx), p)
	val := big.NewInt(sc.val)
	name := fmt.Sprintf("c13:indep:table=%v:query=(%d,%d)", sc.table, sc.idx, sc.val)
	zero := make([]*big.Int, T)
	for i := range zero {
		zero[i] = new(big.Int)
	}
	K := T + 2
	rows := make([][]*big.Int, 0, K)
	rhs := make([]*big.Int, 0, K)
	for k := 0; k < K; k++ {
		chal := new(big.Int).Exp(big.NewInt(int64(7+3*k)), big.NewInt(int64(5+k)), p) // arbitrary fixed challenges
		chal.Add(chal, big.NewInt(int64(1000003*(k+1))))
		b, ok := residual(ic.run(c, sc.table, idx, val, zero, chal), p)
		c.Traces.Add(1)
		if !ok {
			c.Outcome("indep:solver-error-of-another-form")
			c.Count("indep", "scenarios whose failing constraint could not be read", 1)
			return
		}
		row := make([]*big.Int, T)
		for i := 0; i < T; i++ {
			m := make([]*big.Int, T)
			for j := range m {
				m[j] = new(big.Int)
			}
			m[i] = big.NewInt(1)
			r, ok := residual(ic.run(c, sc.table, idx, val, m, chal), p)
			c.Traces.Add(1)
			if !ok {
				c.Outcome("indep:solver-error-of-another-form")
				return
			}
			row[i] = r.Sub(r, b).Mod(r, p)
		}
		rows = append(rows, row)
		rhs = append(rhs, new(big.Int).Mod(new(big.Int).Neg(b), p))
	}
	sol := solveLinear(rows, rhs, p)
	if sol == nil {
		c.Outcome("indep:no-multiplicities-work-for-T+2-challenges")
		return
	}
	// offer the challenge-independent multiplicities with the genuine challenge
	e := ic.run(c, sc.table, idx, val, sol, nil)
	c.Traces.Add(1)
	if e == "" {
		c.Outcome("indep:FALSE-LOOKUP-ACCEPTED")
		c.Violation(name+":challenge-independent-multiplicities-accepted", map[string]any{"table": sc.table, "index": sc.idx, "claimed_value": sc.val, "multiplicities": fmt.Sprint(sol),
			"note": "one multiplicity vector satisfies the acceptance equation for T+2 forced challenges AND for the genuine hash-derived challenge: the lookup returns a value that is not stored at the queried index"})
	} else {
		c.Outcome("indep:common-solution-but-genuine-challenge-rejects")
	}
}
