package main

import (
	"fmt"
	"math/big"
	"sync"
	"time"

	"github.com/consensys/gnark-crypto/ecc"
	"github.com/consensys/gnark/constraint"
	"github.com/consensys/gnark/constraint/solver"
	"github.com/consensys/gnark/frontend"
	"github.com/consensys/gnark/internal/verifh/circ"
	"github.com/consensys/gnark/internal/verifh/hintenv"
	"github.com/consensys/gnark/internal/verifh/refsolve"
	"github.com/consensys/gnark/internal/verifh/vh"
	"github.com/consensys/gnark/std/rangecheck"
)

var (
	decompID = solver.GetHintID(rangecheck.DecomposeHint)
	countID  solver.HintID // resolved by name (countHint is unexported)
)

func init() {
	for _, h := range solver.GetRegisteredHints() {
		if solver.GetHintName(h) == "github.com/consensys/gnark/std/internal/logderivarg.countHint" {
			countID = solver.GetHintID(h)
		}
	}
}

// hook dispatch keyed by the system pointer, so that independent systems can be solved in
// parallel although constraint.VerifHintHook is a process global.
type hookFn func(id solver.HintID, q *big.Int, in, out []*big.Int, err error) error

var hooks sync.Map // sysKey(cs) -> hookFn

// sysKey identifies a compiled system by the address of its first instruction: the solver may
// work on a shallow copy of the system header (private blueprint list per Solve), whose pointer
// differs from the compiled system's, but the instruction slice is shared.
func sysKey(cs any) any {
	sys := refsolve.SystemOf(cs)
	if len(sys.Instructions) == 0 {
		return cs
	}
	return &sys.Instructions[0]
}

func init() {
	constraint.VerifHintHook = func(cs any, id solver.HintID, q *big.Int, in, out []*big.Int, err error) error {
		if h, ok := hooks.Load(sysKey(cs)); ok {
			return h.(hookFn)(id, q, in, out, err)
		}
		return err
	}
}

type compiled struct {
	ccs     constraint.ConstraintSystem
	curve   ecc.ID
	builder string
	field   *big.Int
	name    string
}

func compileOn(c *vh.Check, curve ecc.ID, builder, name string, ci *circ.C) *compiled {
	ccs, err, pan := circ.Compile(curve.ScalarField(), builder, ci)
	if err != nil || pan != "" {
		c.Fatal("%s does not compile on %s/%s: %v %s", name, curve, builder, err, pan)
	}
	return &compiled{ccs, curve, builder, curve.ScalarField(), fmt.Sprintf("%s:%s:%s", curveName(curve), builder, name)}
}

func curveName(id ecc.ID) string {
	switch id {
	case ecc.BN254:
		return "bn254"
	case ecc.BLS12_377:
		return "bls12-377"
	}
	return id.String()
}

var detOpts = func() []solver.Option {
	o := []solver.Option{solver.WithNbTasks(1)}
	for id, h := range hintenv.Det() {
		o = append(o, solver.OverrideHint(id, h))
	}
	return o
}()

// solve runs the real solver single-threaded with the deterministic commitment; "" = solved.
func (k *compiled) solve(c *vh.Check, pub, sec []*big.Int) string {
	w, err := circ.Witness(circ.Assign(pub, sec), k.field)
	if err != nil {
		c.Fatal("witness for %s: %v", k.name, err)
	}
	pan := vh.Recover(func() { _, err = k.ccs.Solve(w, detOpts...) })
	c.Evals.Add(1)
	if pan != "" {
		return "panic: " + pan
	}
	if err != nil {
		return err.Error()
	}
	return ""
}

func (k *compiled) setHook(h hookFn) {
	if h == nil {
		hooks.Delete(sysKey(k.ccs))
	} else {
		hooks.Store(sysKey(k.ccs), h)
	}
}

// lookup blueprint interception -----------------------------------------------------------

// lookupTamper replaces every BlueprintLookupHint of a compiled system by a wrapper that lets
// the harness choose the value written to each result wire.  choose(table, query index in
// solve order, idx value (nil if not a small integer), in-range?, entries, honest) returns the
// value to write.
type lookupChoice func(table, q int, idx *big.Int, inRange bool, entries []*big.Int, honest *big.Int) *big.Int

type lookupBP struct {
	*constraint.BlueprintLookupHint[constraint.U64]
	table  int
	choose *lookupChoice
	nq     int // queries answered so far in this solve (per table, instruction order)
}

// CloneForSolve: newer solvers give every Solve a private instance of a stateful blueprint; the
// wrapper has to survive that (the method overrides the one promoted from the embedded blueprint,
// if that exists in the tree under test).
func (b *lookupBP) CloneForSolve() constraint.BlueprintStateful[constraint.U64] {
	type cloner interface {
		CloneForSolve() constraint.BlueprintStateful[constraint.U64]
	}
	inner := b.BlueprintLookupHint
	if cl, ok := any(inner).(cloner); ok {
		if in2, ok := cl.CloneForSolve().(*constraint.BlueprintLookupHint[constraint.U64]); ok {
			inner = in2
		}
	}
	return &lookupBP{inner, b.table, b.choose, 0}
}

func (b *lookupBP) Solve(s constraint.Solver[constraint.U64], inst constraint.Instruction) error {
	if b.choose == nil || *b.choose == nil {
		return b.BlueprintLookupHint.Solve(s, inst)
	}
	nbEntries := int(inst.Calldata[1])
	entries := make([]*big.Int, nbEntries)
	raw := make([]constraint.U64, nbEntries)
	off := 0
	for i := 0; i < nbEntries; i++ {
		e, d := s.Read(b.EntriesCalldata[off:])
		off += d
		raw[i] = e
		entries[i] = s.ToBigInt(e)
	}
	nbInputs := int(inst.Calldata[2])
	o := 3
	for i := 0; i < nbInputs; i++ {
		in, d := s.Read(inst.Calldata[o:])
		o += d
		idx, isU := s.Uint64(in)
		inRange := isU && idx < uint64(nbEntries)
		var honest *big.Int
		if inRange {
			honest = entries[idx]
		}
		v := (*b.choose)(b.table, b.nq, s.ToBigInt(in), inRange, entries, honest)
		b.nq++
		if v == nil {
			return fmt.Errorf("lookup query too large")
		}
		s.SetValue(uint32(i+int(inst.WireOffset)), s.FromInterface(v))
	}
	return nil
}

// installLookupTamper wraps the lookup blueprints; returns the setter for the choice function
// (nil = real blueprint code) and the number of tables.
func installLookupTamper(ccs constraint.ConstraintSystem) (set func(lookupChoice), nTables int) {
	sys := refsolve.SystemOf(ccs)
	var cur lookupChoice
	var all []*lookupBP
	for i, bp := range sys.Blueprints {
		if lb, ok := bp.(*constraint.BlueprintLookupHint[constraint.U64]); ok {
			w := &lookupBP{lb, nTables, &cur, 0}
			all = append(all, w)
			sys.Blueprints[i] = w
			nTables++
		}
	}
	return func(f lookupChoice) {
		cur = f
		for _, w := range all {
			w.nq = 0
		}
	}, nTables
}

// helpers ----------------------------------------------------------------------------------

func pow2(n int) *big.Int { return new(big.Int).Lsh(big.NewInt(1), uint(n)) }

func mod(x, p *big.Int) *big.Int { return new(big.Int).Mod(x, p) }

func bigs(v ...int64) []*big.Int {
	out := make([]*big.Int, len(v))
	for i := range v {
		out[i] = big.NewInt(v[i])
	}
	return out
}

// rangeValues returns the boundary values for width n over field p (reduced), with names.
func rangeValues(n int, p *big.Int) (vals []*big.Int, names []string) {
	t := pow2(n)
	pm1 := new(big.Int).Sub(p, big.NewInt(1))
	cands := []struct {
		n string
		v *big.Int
	}{
		{"0", big.NewInt(0)}, {"1", big.NewInt(1)},
		{"2^n-1", new(big.Int).Sub(t, big.NewInt(1))}, {"2^n", t}, {"2^n+1", new(big.Int).Add(t, big.NewInt(1))}, {"p-1", pm1},
	}
	for _, cd := range cands {
		vals = append(vals, mod(cd.v, p))
		names = append(names, cd.n)
	}
	return
}

func inRange(v *big.Int, n int) bool { return v.BitLen() <= n }

// fracValues: field elements k/2^s mod p.  They are full-width integers (out of every range below
// the field size), but k/2^s * 2^s is SMALL: exactly the values that pass when a width check is done
// on a scaled copy of the value ("v << shift fits the limb") instead of on the value itself.
func fracValues(p *big.Int) (vals []*big.Int, names []string) {
	for _, s := range []uint{1, 2, 3, 4, 5, 6, 7, 8, 12, 16} {
		inv := new(big.Int).ModInverse(pow2(int(s)), p)
		for _, k := range []int64{1, 5} {
			vals = append(vals, mod(new(big.Int).Mul(big.NewInt(k), inv), p))
			names = append(names, fmt.Sprintf("%d/2^%d", k, s))
		}
	}
	return
}

// rcCircuit checks s[i] against widths[i] with the commitment range checker.
func rcCircuit(widths []int, strategy *string) *circ.C {
	return circ.New(0, len(widths), func(api frontend.API, p, s []frontend.Variable) error {
		rc := rangecheck.New(api)
		if strategy != nil {
			*strategy = fmt.Sprintf("%T", rc)
		}
		for i, n := range widths {
			rc.Check(s[i], n)
		}
		return nil
	})
}

func timed(c *vh.Check, name string, f func()) {
	t0 := time.Now()
	e0 := c.Evals.Load()
	f()
	c.Count("wall_ms", name, time.Since(t0).Milliseconds())
	c.Count("evals", name, c.Evals.Load()-e0)
}
