package main

import (
	"fmt"
	"math/big"
	"strings"

	"github.com/consensys/gnark/constraint"
	"github.com/consensys/gnark/frontend"
	"github.com/consensys/gnark/internal/verifh/circ"
	"github.com/consensys/gnark/internal/verifh/satmc"
	"github.com/consensys/gnark/internal/verifh/vh"
	"github.com/consensys/gnark/std/rangecheck"
)

// plainAPI exposes frontend.API only: neither frontend.Committer nor frontend.Rangechecker can
// be asserted on it, so rangecheck.New selects the bit-decomposition strategy.
type plainAPI struct{ frontend.API }

type plainShape struct {
	name string
	pub  bool
	// operand built from the input; val = integer value of the operand for input x
	build func(api frontend.API, x frontend.Variable) frontend.Variable
	val   func(x int) int
	// widths checked on the operand, given the nominal width n
	widths func(n int) []int
}

func plainShapes() []plainShape {
	id := func(api frontend.API, x frontend.Variable) frontend.Variable { return x }
	idv := func(x int) int { return x }
	one := func(n int) []int { return []int{n} }
	return []plainShape{
		{"S", false, id, idv, one},
		{"P", true, id, idv, one},
		{"L", false, func(api frontend.API, x frontend.Variable) frontend.Variable { return api.Add(api.Mul(x, 3), 5) },
			func(x int) int { return (3*x + 5) % 47 }, one},
		{"D", false, id, idv, func(n int) []int { return []int{n + 1, n} }},
	}
}

func plainPart(c *vh.Check) {
	// what happens WITHOUT the wrapper over F_47 (informational: which route really selects the plain strategy)
	for _, b := range []string{circ.R1CS, circ.SCS} {
		ci := circ.New(0, 1, func(api frontend.API, p, s []frontend.Variable) error {
			rangecheck.New(api).Check(s[0], 3)
			return nil
		})
		ccs, err, pan := circ.CompileTiny(b, ci)
		what := "compiles"
		switch {
		case pan != "":
			what = "panic"
		case err != nil:
			what = "error"
		default:
			if nbCommit(ccs) > 0 {
				what = "compiles-with-commitment"
			}
		}
		c.Outcome("plain:unwrapped-tiny:" + b + ":" + what)
		c.Count("plain", "unwrapped-tiny:"+b+":"+what, 1)
		c.Note(fmt.Sprintf("plain: rangecheck.New(api) with the bare %s builder over F_47 (no wrapper): %s: %.60s %.60s", b, what, firstLine(fmt.Sprint(err)), pan))
	}
	type task struct {
		b  string
		n  int
		sh plainShape
	}
	var tasks []task
	for _, b := range []string{circ.R1CS, circ.SCS} {
		for n := 1; n <= 7; n++ {
			for _, sh := range plainShapes() {
				tasks = append(tasks, task{b, n, sh})
			}
		}
	}
	ok := c.Par(len(tasks), func(i int) {
		t := tasks[i]
		name := fmt.Sprintf("c13:plain:%s:%s:n=%d", t.b, t.sh.name, t.n)
		strategy := ""
		np, ns := 0, 1
		if t.sh.pub {
			np, ns = 1, 0
		}
		ci := circ.New(np, ns, func(api frontend.API, p, s []frontend.Variable) error {
			x := append(append([]frontend.Variable{}, p...), s...)[0]
			w := plainAPI{api}
			rc := rangecheck.New(w)
			strategy = fmt.Sprintf("%T", rc)
			op := t.sh.build(api, x)
			for _, n := range t.sh.widths(t.n) {
				rc.Check(op, n)
			}
			return nil
		})
		ccs, err, pan := circ.CompileTiny(t.b, ci)
		if err != nil || pan != "" {
			c.Fatal("%s does not compile: %v %s", name, err, pan)
		}
		if !strings.HasSuffix(strategy, "plainChecker") {
			c.Fatal("%s: strategy %s selected, expected the plain checker", name, strategy)
		}
		if nbCommit(ccs) != 0 {
			c.Fatal("%s: system has a commitment", name)
		}
		var sys *satmc.Sys
		if t.b == circ.R1CS {
			sys = satmc.FromR1CS[constraint.U32](ccs)
		} else {
			sys = satmc.FromSCS[constraint.U32](ccs)
		}
		wire := circ.WireSec(t.b, 0, 0)
		if t.sh.pub {
			wire = circ.WirePub(t.b, 0)
		}
		var states, trans int64
		for x := 0; x < 47; x++ {
			res := sys.Search(map[int]uint8{wire: uint8(x)}, nil, 0)
			c.Evals.Add(1)
			states += res.Stats.States
			trans += res.Stats.Transitions
			if res.Stats.Capped {
				c.Cap("state cap in " + name)
				continue
			}
			for _, full := range res.Tuples {
				if err := sys.Validate(full); err != nil {
					c.Fatal("satmc leaf failed validation in %s x=%d: %v", name, x, err)
				}
			}
			v := t.sh.val(x)
			want := true
			for _, n := range t.sh.widths(t.n) {
				if v >= 1<<uint(n) {
					want = false
				}
			}
			got := len(res.Tuples) > 0
			cls := "rejected"
			if want {
				cls = "accepted"
			}
			if t.n >= 6 {
				cls += "-whole-field"
			}
			c.Outcome("plain:" + t.b + ":" + cls)
			if got && !want {
				c.Violation(fmt.Sprintf("%s:v=%d:surplus", name, v), map[string]any{"case": name, "input": x, "operand": v, "widths": t.sh.widths(t.n), "note": "out-of-range operand has a satisfying assignment", "assignment": res.Tuples[""]})
			}
			if !got && want {
				c.Violation(fmt.Sprintf("%s:v=%d:deficit", name, v), map[string]any{"case": name, "input": x, "operand": v, "widths": t.sh.widths(t.n), "note": "in-range operand has no satisfying assignment"})
			}
			// conformance with the real solver
			var pv, sv []int
			if t.sh.pub {
				pv = []int{x}
			} else {
				sv = []int{x}
			}
			w, _ := circ.Witness(circ.AssignInts(pv, sv), circ.P47)
			var serr error
			p := vh.Recover(func() { _, serr = ccs.Solve(w) })
			c.Traces.Add(1)
			solved := p == "" && serr == nil
			if solved != want {
				kind := "honest-unsolved"
				if solved {
					kind = "solver-accepts"
				}
				c.Violation(fmt.Sprintf("%s:v=%d:%s", name, v, kind), map[string]any{"case": name, "input": x, "operand": v, "error": fmt.Sprint(serr, p)})
			}
			if x == 9 && t.n == 3 && t.sh.name == "S" {
				c.Sample(map[string]any{"part": "plain", "case": name, "v": v, "satisfiable": got, "documented": want, "states": res.Stats.States, "rows": len(sys.Cons), "wires": sys.NW})
			}
		}
		c.States.Add(states)
		c.Transitions.Add(trans)
		c.Count("plain", "searches:"+t.b, 47)
	})
	if !ok {
		c.Cap("plain: deadline before all (builder,width,shape) tasks ran")
	}
}

func nbCommit(ccs interface{ GetCommitments() constraint.Commitments }) int {
	switch ci := ccs.GetCommitments().(type) {
	case constraint.Groth16Commitments:
		return len(ci)
	case constraint.PlonkCommitments:
		return len(ci)
	}
	return 0
}

func bi(x int64) *big.Int { return big.NewInt(x) }

func firstLine(s string) string {
	if i := strings.IndexByte(s, '\n'); i >= 0 {
		return s[:i]
	}
	return s
}
