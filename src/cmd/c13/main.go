// C13: range checks and lookup tables accept only in-range values and true entries.
//
//	plain   (X) bit-decomposition strategy, exhaustive over F_47 with satmc
//	func    (E) commitment strategy over bn254 / bls12-377, honest-solver outcome for every
//	            enumerated mix of checked variables / tables / query patterns / gadget mixes
//	adv     (E) dishonest prover: hint / lookup-result substitution with <= 2 departures
//	cover   (E) challenge coverage: every committed variable of every gadget reaches the commitment
package main

import (
	"github.com/consensys/gnark/internal/verifh/vh"
	"github.com/consensys/gnark/logger"
)

func main() {
	c := vh.New("C13")
	logger.Disable()
	c.Rule("plain: for each (builder, width n in 1..7, operand shape) the circuit rangecheck.New(api without Committer).Check(v,n) is compiled over F_47 and for EVERY v in F_47 the explicit-state search decides satisfiability (all hint/internal wires free); " +
		"func: every multiset of <=3 checked variables (widths x boundary values), every (table size, constant/variable table, query pattern), every mix of 2..3 gadgets, compiled per (curve, builder) and solved honestly; " +
		"adv: for every out-of-range / false-entry scenario every sequence of hint answers (limb tuples, multiplicities, lookup results; commitment = hash of all committed values recomputed after substitution) with <=2 departures from the honest prover; " +
		"cover: per committed variable (limb, multiplicity, result, variable table entry) of every gadget, one perturbation and comparison of the commitment hint's inputs/outputs and of every gadget's challenge. Cases are distinct per (part, curve, builder, shape, value/alternative tuple).")
	c.Assume("the log-derivative argument is sound for a challenge that is a collision-resistant hash of all committed values (modelled by SHA-256 of the commitment hint's inputs); soundness over F_47 is not claimed by gnark and is not examined for the commitment strategy",
		"constraints read through GetR1Cs/GetSparseR1Cs are the ones the backends prove (C01/C02)",
		"the Pedersen/BSB22 commitment binds the values handed to the commitment hint (C01/C02/C03)")
	c.Explain("plain decides satisfiability of the bit-decomposition checker for all 47 field elements per width with no reference to the solver; func/adv/cover run the real compiler and solver on bn254 and bls12-377 for both builders. " +
		"A violation key names part, curve, builder, circuit shape and the failing values / substituted hint outputs. Known characteristics recorded as violations on the unchanged tree: a logderivlookup table that is never queried makes the circuit unsolvable for the honest prover (keys c13:func:lookup-none:...).")
	if c.Want("plain") {
		plainPart(c)
	}
	if c.Want("func") {
		funcPart(c)
	}
	if c.Want("cover") {
		coverPart(c)
	}
	if c.Want("adv") {
		advPart(c)
	}
	if c.Want("indep") {
		indepPart(c)
	}
	c.Finish()
}
