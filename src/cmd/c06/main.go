// C06: the solver returns only satisfying assignments and fails only on a violated constraint
// or failing hint.  Every enumerated system x assignment is solved by the real solver and by
// the sequential big.Int reference (refsolve); solutions are re-evaluated row by row; the
// (level size, task count) grid of the level-parallel scheduler is enumerated exhaustively.
package main

import (
	"bytes"
	"fmt"
	"math/big"
	"sync"

	"github.com/consensys/gnark-crypto/ecc"
	"github.com/consensys/gnark/constraint"
	"github.com/consensys/gnark/constraint/solver"
	"github.com/consensys/gnark/frontend"
	"github.com/consensys/gnark/internal/verifh/circ"
	"github.com/consensys/gnark/internal/verifh/ops"
	"github.com/consensys/gnark/internal/verifh/progen"
	"github.com/consensys/gnark/internal/verifh/refsolve"
	"github.com/consensys/gnark/internal/verifh/vh"
	"github.com/consensys/gnark/logger"
)

// wire vectors captured by the post-solve hook, keyed by system pointer
var captured sync.Map

func init() {
	constraint.VerifPostSolveHook = func(cs any, values any, solution any) {
		captured.Store(cs, refsolve.VecToBig(values))
	}
}

var b7 = []int64{0, 1, 2, 3, 23, 45, 46}

func main() {
	c := vh.New("C06")
	logger.Disable()
	c.Rule("every (system, witness, option) case runs the real Solve and the sequential big.Int reference solver; on success the returned W/A/B/C or L/R/O and the hooked wire vector are re-evaluated against every row/gate and compared with the reference values; on failure the reference must fail too. Systems: all API programs up to the depth bound (both builders, F_47 and bn254), a catalogue with hints/lookups/range checks/commitments incl. serialization round trips, and the exhaustive (level size L, nbTasks n) grid. distinct = (system family, builder, field, verdict class).")
	c.Assume("hint functions are deterministic", "reference solver handles generic R1C / sparse gates, hints, lookup blueprint; other blueprints are reported as unsupported and skipped")
	if c.Want("prog") {
		programs(c)
	}
	if c.Want("cat") {
		catalogue(c)
	}
	if c.Want("grid") {
		grid(c)
	}
	c.Finish()
}

func programs(c *vh.Check) {
	all := ops.All(6)
	var progs []*progen.Prog
	progen.Enumerate(progen.Config{Ops: all, Depth: 1, Consts: []int{0, 2, 3}, Inputs: []int{0, 1}, SCS: true}, func(p *progen.Prog) bool {
		progs = append(progs, p)
		return true
	})
	cfg := progen.Config{Ops: all, Depth: 2, Consts: []int{3}, Inputs: []int{0, 1}, SCS: true,
		StepOps: [][]string{{"Add", "Mul", "MulAcc", "DivUnchecked", "Inverse", "Xor", "Select", "IsZero", "Cmp", "ToBinary3", "Hint"},
			{"Sub", "Mul", "MulAcc", "Div", "FromBinary3", "Or", "Select", "Lookup2", "IsZero", "Cmp", "ToBinaryFull", "AssertIsEqual", "AssertIsDifferent", "AssertIsLessOrEqual"}}}
	if c.Tier == "thorough" {
		cfg.StepOps = nil
		cfg.Consts = []int{2, 3}
	}
	progen.Enumerate(cfg, func(p *progen.Prog) bool {
		progs = append(progs, p)
		return true
	})
	c.Extra("programs", len(progs))
	bn := ecc.BN254.ScalarField()
	ok := c.Par(len(progs), func(i int) {
		p := progs[i]
		runProgram[constraint.U32](c, p, circ.P47, "tiny")
		if i%4 == 0 || c.Tier == "thorough" {
			runProgram[constraint.U64](c, p, bn, "bn254")
		}
	})
	if !ok {
		c.Cap("internal deadline during program sweep")
	}
}

func compile[E constraint.Element](field *big.Int, builder string, ci frontend.Circuit, opts ...frontend.CompileOption) (constraint.ConstraintSystemGeneric[E], error, string) {
	var z E
	switch any(z).(type) {
	case constraint.U32:
		cs, err, pan := circ.CompileTiny(builder, ci, opts...)
		if cs == nil {
			return nil, err, pan
		}
		return any(cs).(constraint.ConstraintSystemGeneric[E]), err, pan
	default:
		cs, err, pan := circ.Compile(field, builder, ci, opts...)
		if cs == nil {
			return nil, err, pan
		}
		return any(cs).(constraint.ConstraintSystemGeneric[E]), err, pan
	}
}

func runProgram[E constraint.Element](c *vh.Check, p *progen.Prog, field *big.Int, fname string) {
	ci := p.Circuit(field)
	u := p.UsedInputs()
	dom := b7
	vals := func(v int64) *big.Int {
		if fname == "tiny" {
			return big.NewInt(v)
		}
		// map the F_47 boundary alphabet onto the large field's boundary
		switch v {
		case 45:
			return new(big.Int).Sub(field, big.NewInt(2))
		case 46:
			return new(big.Int).Sub(field, big.NewInt(1))
		case 23:
			return new(big.Int).Rsh(field, 1)
		}
		return big.NewInt(v)
	}
	for _, b := range []string{circ.R1CS, circ.SCS} {
		scsOnly := false
		for _, s := range p.Steps {
			scsOnly = scsOnly || s.Op.SCSOnly
		}
		if scsOnly && b == circ.R1CS {
			continue
		}
		ccs, err, pan := compile[E](field, b, ci, frontend.IgnoreUnconstrainedInputs())
		if err != nil || pan != "" {
			c.Outcome("prog:" + b + ":" + fname + ":compile-reject")
			continue
		}
		levelInvariant[E](c, ccs, fmt.Sprintf("prog:%s:%s:%s", b, fname, p))
		for _, a0 := range dom {
			for _, a1 := range dom {
				if (!u[0] && a0 != 0) || (!u[1] && a1 != 0) {
					continue
				}
				in := [progen.NInputs]*big.Int{vals(a0), vals(a1), big.NewInt(0)}
				outs, _, sat := p.Ref(field, in)
				sv := []*big.Int{in[1], in[2]}
				for i := 0; i < p.NOut(); i++ {
					if sat {
						sv = append(sv, outs[i])
					} else {
						sv = append(sv, big.NewInt(1))
					}
				}
				copies := []*big.Int{in[0], in[1], in[2]}
				sv = append(sv, copies...)
				name := fmt.Sprintf("prog:%s:%s:%s", b, fname, p)
				checkSolve[E](c, ccs, name, "prog:"+b+":"+fname, []*big.Int{in[0]}, sv, nil)
				if !sat && p.NOut() > 0 {
					// the reference gives no value for an unsatisfiable program: also offer 0 as the claimed
					// outputs (what a solver that wrongly "solves" a degenerate gate is likely to produce)
					sv0 := []*big.Int{in[1], in[2]}
					for i := 0; i < p.NOut(); i++ {
						sv0 = append(sv0, big.NewInt(0))
					}
					sv0 = append(sv0, copies...)
					checkSolve[E](c, ccs, name, "prog:"+b+":"+fname, []*big.Int{in[0]}, sv0, nil)
				}
				if sat && p.NOut() > 0 {
					// an invalid witness: last exposed value off by one
					sv2 := append([]*big.Int(nil), sv...)
					li := 2 + p.NOut() - 1 // last exposed value (the input copies follow)
					sv2[li] = new(big.Int).Mod(new(big.Int).Add(sv2[li], big.NewInt(1)), field)
					checkSolve[E](c, ccs, name, "prog:"+b+":"+fname, []*big.Int{in[0]}, sv2, nil)
				}
			}
		}
	}
}

// checkSolve runs the real solver and the reference on one witness and applies the oracle.
// Returns the serialized real solution (nil on failure).
func checkSolve[E constraint.Element](c *vh.Check, ccs constraint.ConstraintSystemGeneric[E], name, family string, pub, sec []*big.Int, overrides map[solver.HintID]solver.Hint, sopts ...solver.Option) []byte {
	field := ccs.Field()
	w, err := circ.Witness(circ.Assign(pub, sec), field)
	if err != nil {
		c.Fatal("witness: %v", err)
	}
	for id, h := range overrides {
		sopts = append(sopts, solver.OverrideHint(id, h))
	}
	var sol any
	captured.Delete(ccs)
	pan := vh.Recover(func() { sol, err = ccs.Solve(w, sopts...) })
	c.Evals.Add(1)
	wit := append(append([]*big.Int(nil), pub...), sec...)
	ref := refsolve.Solve[E](ccs, wit, refsolve.Hints(overrides))
	c.Traces.Add(1)
	key := func(class string) string { return fmt.Sprintf("%s:%s:pub=%v:sec=%v", class, name, pub, sec) }
	detail := func(extra map[string]any) map[string]any {
		extra["system"] = name
		extra["public"] = fmt.Sprint(pub)
		extra["secret"] = fmt.Sprint(sec)
		return extra
	}
	if pan != "" {
		c.Violation(key("solver-panic"), detail(map[string]any{"panic": pan}))
		return nil
	}
	if ref.Kind == "unsupported" {
		c.Outcome(family + ":ref-unsupported")
		c.Count("ref", "unsupported", 1)
		return nil
	}
	if err != nil {
		c.Outcome(family + ":fail:" + ref.Kind)
		if c.Evals.Load()%9973 == 2 {
			c.Sample(map[string]any{"system": name, "public": fmt.Sprint(pub), "secret": fmt.Sprint(sec), "verdict": "rejected", "solver_error": err.Error(), "reference_error": fmt.Sprint(ref.Err)})
		}
		if ref.Err == nil {
			c.Violation(key("unjustified-failure"), detail(map[string]any{"solver_error": err.Error(), "reference": "all instructions solved and satisfied"}))
		}
		return nil
	}
	c.Outcome(family + ":ok")
	if c.Evals.Load()%9973 == 1 {
		c.Sample(map[string]any{"system": name, "public": fmt.Sprint(pub), "secret": fmt.Sprint(sec), "verdict": "solved; W/A/B/C (L/R/O) equal reference and satisfy every row", "wires": len(ref.Vals)})
	}
	if ref.Err != nil {
		c.Violation(key("accepted-unsatisfied"), detail(map[string]any{"reference_error": ref.Err.Error()}))
		return nil
	}
	parts := refsolve.SolutionParts(sol)
	sys := refsolve.SystemOf(ccs)
	bad := func(what string, extra map[string]any) {
		extra["what"] = what
		c.Violation(key("bad-solution:"+what), detail(extra))
	}
	cmpVec := func(what string, got, want []*big.Int) bool {
		if len(got) != len(want) {
			bad(what+"-length", map[string]any{"got": len(got), "want": len(want)})
			return false
		}
		for i := range got {
			if got[i].Cmp(want[i]) != 0 {
				bad(what, map[string]any{"index": i, "got": got[i].String(), "want": want[i].String()})
				return false
			}
		}
		return true
	}
	var full []*big.Int
	if v, ok := captured.Load(ccs); ok {
		full = v.([]*big.Int)
	}
	if sys.Type == constraint.SystemR1CS {
		W := parts["W"]
		if !cmpVec("W", W, ref.Vals) {
			return nil
		}
		if W[0].Cmp(big.NewInt(1)) != 0 {
			bad("one-wire", map[string]any{})
		}
		for i, x := range wit {
			if W[1+i].Cmp(new(big.Int).Mod(x, field)) != 0 {
				bad("witness-not-extended", map[string]any{"index": i})
			}
		}
		a, b, cc, everr := refsolve.EvalR1CS[E](ccs, W)
		if everr != nil {
			bad("row-violated", map[string]any{"error": everr.Error()})
		}
		cmpVec("A", parts["A"], a)
		cmpVec("B", parts["B"], b)
		cmpVec("C", parts["C"], cc)
		if full != nil {
			cmpVec("hooked-values", full, W)
		}
	} else {
		if full == nil {
			c.Fatal("post-solve hook did not fire for %s", name)
		}
		if !cmpVec("values", full, ref.Vals) {
			return nil
		}
		for i, x := range wit {
			if full[i].Cmp(new(big.Int).Mod(x, field)) != 0 {
				bad("witness-not-extended", map[string]any{"index": i})
			}
		}
		if everr := refsolve.EvalSCS[E](ccs, full); everr != nil {
			bad("gate-violated", map[string]any{"error": everr.Error()})
		}
		gates := ccs.(constraint.SparseR1CS[E]).GetSparseR1Cs()
		npub := len(sys.Public)
		n := int(ecc.NextPowerOfTwo(uint64(len(gates) + npub)))
		L, R, O := parts["L"], parts["R"], parts["O"]
		wantL, wantR, wantO := make([]*big.Int, n), make([]*big.Int, n), make([]*big.Int, n)
		for i := 0; i < n; i++ {
			switch {
			case i < npub:
				wantL[i], wantR[i], wantO[i] = full[i], full[0], full[0]
			case i < npub+len(gates):
				g := gates[i-npub]
				wantL[i], wantR[i], wantO[i] = full[g.XA], full[g.XB], full[g.XC]
			default:
				wantL[i], wantR[i], wantO[i] = full[0], full[0], full[0]
			}
		}
		cmpVec("L", L, wantL)
		cmpVec("R", R, wantR)
		cmpVec("O", O, wantO)
	}
	var buf bytes.Buffer
	if wt, ok := sol.(interface {
		WriteTo(w *bytes.Buffer) (int64, error)
	}); ok {
		wt.WriteTo(&buf)
	} else {
		for _, k := range []string{"W", "A", "B", "C", "L", "R", "O"} {
			for _, x := range parts[k] {
				buf.Write(x.Bytes())
				buf.WriteByte(0)
			}
		}
	}
	return buf.Bytes()
}
