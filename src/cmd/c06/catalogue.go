package main

import (
	"bytes"
	"fmt"
	"math/big"

	"github.com/consensys/gnark-crypto/ecc"
	"github.com/consensys/gnark/backend/groth16"
	"github.com/consensys/gnark/backend/plonk"
	"github.com/consensys/gnark/constraint"
	"github.com/consensys/gnark/constraint/solver"
	"github.com/consensys/gnark/frontend"
	"github.com/consensys/gnark/internal/verifh/circ"
	"github.com/consensys/gnark/internal/verifh/hintenv"
	"github.com/consensys/gnark/internal/verifh/ops"
	"github.com/consensys/gnark/internal/verifh/vh"
	"github.com/consensys/gnark/std/lookup/logderivlookup"
	"github.com/consensys/gnark/std/rangecheck"
)

type catEntry struct {
	name   string
	nP, nS int
	def    func(api frontend.API, p, s []frontend.Variable) error
	// witnesses: valid ones and invalid ones
	wits [][2][]int64
}

func catalogueEntries() []catEntry {
	return []catEntry{
		{name: "hints", nP: 1, nS: 2, def: func(api frontend.API, p, s []frontend.Variable) error {
			h, err := api.Compiler().NewHint(ops.DoubleHint, 1, s[0])
			if err != nil {
				return err
			}
			api.AssertIsEqual(h[0], api.Mul(s[0], 2))
			h2, _ := api.Compiler().NewHint(ops.DoubleHint, 1, h[0])
			api.AssertIsEqual(api.Add(h2[0], s[1]), p[0])
			return nil
		}, wits: [][2][]int64{{{13}, {3, 1}}, {{4}, {0, 4}}, {{13}, {3, 2}}, {{0}, {1, 0}}}},
		{name: "lookup", nP: 1, nS: 4, def: func(api frontend.API, p, s []frontend.Variable) error {
			t := logderivlookup.New(api)
			t.Insert(s[0])
			t.Insert(api.Add(s[1], 1))
			t.Insert(7)
			r := t.Lookup(s[2], s[3])
			t.Insert(api.Mul(s[0], s[1]))
			r2 := t.Lookup(api.Add(s[2], 1))
			api.AssertIsEqual(api.Add(r[0], r[1], r2[0]), p[0])
			return nil
		}, wits: [][2][]int64{{{5 + 7 + 7}, {5, 6, 0, 1}}, {{7 + 5 + 30}, {5, 6, 2, 0}}, {{0}, {5, 6, 4, 0}}, {{19}, {5, 6, 0, 2}}, {{20}, {5, 6, 0, 1}}}},
		{name: "rangecheck", nP: 1, nS: 2, def: func(api frontend.API, p, s []frontend.Variable) error {
			rc := rangecheck.New(api)
			rc.Check(s[0], 8)
			rc.Check(s[1], 11)
			api.AssertIsEqual(api.Add(s[0], s[1]), p[0])
			return nil
		}, wits: [][2][]int64{{{255 + 2047}, {255, 2047}}, {{1}, {0, 1}}, {{256}, {256, 0}}, {{2048}, {0, 2048}}, {{3}, {1, 1}}}},
		{name: "commit", nP: 1, nS: 2, def: func(api frontend.API, p, s []frontend.Variable) error {
			cm, err := api.(frontend.Committer).Commit(s[0], p[0])
			if err != nil {
				return err
			}
			cm2, err := api.(frontend.Committer).Commit(s[1], cm)
			if err != nil {
				return err
			}
			api.AssertIsDifferent(cm, cm2)
			api.AssertIsEqual(api.Mul(s[0], s[1]), p[0])
			return nil
		}, wits: [][2][]int64{{{6}, {2, 3}}, {{0}, {0, 5}}, {{7}, {2, 3}}}},
	}
}

func catalogue(c *vh.Check) {
	curves := []ecc.ID{ecc.BN254, ecc.BLS12_377}
	if c.Tier == "thorough" {
		curves = []ecc.ID{ecc.BN254, ecc.BLS12_377, ecc.BLS12_381, ecc.BLS24_315, ecc.BLS24_317, ecc.BW6_633, ecc.BW6_761}
	}
	type job struct {
		e  catEntry
		cv ecc.ID
		b  string
	}
	var jobs []job
	for _, e := range catalogueEntries() {
		for _, cv := range curves {
			for _, b := range []string{circ.R1CS, circ.SCS} {
				jobs = append(jobs, job{e, cv, b})
			}
		}
	}
	c.Par(len(jobs), func(i int) {
		j := jobs[i]
		field := j.cv.ScalarField()
		ccs, err, pan := circ.Compile(field, j.b, circ.New(j.e.nP, j.e.nS, j.e.def))
		if err != nil || pan != "" {
			c.Fatal("catalogue %s/%s does not compile: %v %s", j.e.name, j.b, err, pan)
		}
		levelInvariant[constraint.U64](c, ccs, fmt.Sprintf("cat:%s:%s:%s", j.e.name, j.b, j.cv))
		// restored from bytes
		var buf bytes.Buffer
		if _, err := ccs.WriteTo(&buf); err != nil {
			c.Fatal("WriteTo: %v", err)
		}
		var restored constraint.ConstraintSystem
		if j.b == circ.R1CS {
			restored = groth16.NewCS(j.cv)
		} else {
			restored = plonk.NewCS(j.cv)
		}
		if _, err := restored.ReadFrom(bytes.NewReader(buf.Bytes())); err != nil {
			c.Fatal("ReadFrom: %v", err)
		}
		for _, w := range j.e.wits {
			pub, sec := bigs(w[0]), bigs(w[1])
			for _, nt := range []int{1, 4} {
				name := fmt.Sprintf("cat:%s:%s:%s:tasks%d", j.e.name, j.b, j.cv, nt)
				a := checkSolve[constraint.U64](c, ccs, name, "cat:"+j.e.name+":"+j.b, pub, sec, hintenv.Det(), solver.WithNbTasks(nt))
				b := checkSolve[constraint.U64](c, restored, name+":restored", "cat:"+j.e.name+":"+j.b+":restored", pub, sec, hintenv.Det(), solver.WithNbTasks(nt))
				if (a == nil) != (b == nil) || !bytes.Equal(a, b) {
					c.Violation("restored-differs:"+name+fmt.Sprint(pub, sec), map[string]any{"system": name, "public": fmt.Sprint(pub), "secret": fmt.Sprint(sec)})
				}
			}
		}
	})
}

func bigs(v []int64) []*big.Int {
	out := make([]*big.Int, len(v))
	for i := range v {
		out[i] = big.NewInt(v[i])
	}
	return out
}
