package main

import (
	"bytes"
	"fmt"
	"math/big"

	"github.com/consensys/gnark/constraint"
	"github.com/consensys/gnark/constraint/solver"
	"github.com/consensys/gnark/frontend"
	"github.com/consensys/gnark/internal/verifh/circ"
	"github.com/consensys/gnark/internal/verifh/ops"
	"github.com/consensys/gnark/internal/verifh/refsolve"
	"github.com/consensys/gnark/internal/verifh/vh"
)

// wide builds a circuit whose first level holds L independent instructions (multiplications
// and hints alternating), followed by a second level that sums them up.
func wide(L int) *circ.C {
	return circ.New(1, 2, func(api frontend.API, p, s []frontend.Variable) error {
		var acc frontend.Variable = 0
		for i := 0; i < L; i++ {
			var v frontend.Variable
			if i%5 == 4 {
				h, err := api.Compiler().NewHint(ops.DoubleHint, 1, api.Add(s[0], i))
				if err != nil {
					return err
				}
				v = h[0]
			} else {
				v = api.Mul(api.Add(s[0], i), api.Add(s[1], i+1))
			}
			acc = api.Add(acc, v)
		}
		api.AssertIsEqual(acc, p[0])
		return nil
	})
}

func wideExpected(L int, a, b int64, p int64) int64 {
	acc := int64(0)
	for i := int64(0); i < int64(L); i++ {
		if i%5 == 4 {
			acc += 2 * (a + i)
		} else {
			acc += (a + i) % p * ((b + i + 1) % p)
		}
		acc %= p
	}
	return acc
}

// grid enumerates every (L, nbTasks) pair of the chunking arithmetic in solver.run.
func grid(c *vh.Check) {
	var Ls, Ns []int
	if c.Quick() {
		Ls = []int{51, 52, 99, 100, 101, 149, 150, 151, 255, 256, 257}
		for n := 1; n <= 16; n++ {
			Ns = append(Ns, n)
		}
		Ns = append(Ns, 31, 32, 33, 50, 51, 52, 100, 101, 511, 512)
	} else {
		for l := 51; l <= 300; l++ {
			Ls = append(Ls, l)
		}
		for n := 1; n <= 512; n++ {
			Ns = append(Ns, n)
		}
	}
	type job struct {
		L int
		b string
	}
	var jobs []job
	for _, l := range Ls {
		for _, b := range []string{circ.R1CS, circ.SCS} {
			jobs = append(jobs, job{l, b})
		}
	}
	ok := c.Par(len(jobs), func(i int) {
		j := jobs[i]
		ccs, err, pan := circ.CompileTiny(j.b, wide(j.L))
		if err != nil || pan != "" {
			c.Fatal("wide(%d) does not compile: %v %s", j.L, err, pan)
		}
		sys := refsolve.SystemOf(ccs)
		maxLevel := 0
		for _, lv := range sys.Levels {
			if len(lv) > maxLevel {
				maxLevel = len(lv)
			}
		}
		c.Count("grid", fmt.Sprintf("maxlevel>=%d", (maxLevel/50)*50), 1)
		levelInvariant(c, ccs, fmt.Sprintf("wide(%d)/%s", j.L, j.b))
		for _, valid := range []bool{true, false} {
			a, b := int64(3), int64(5)
			out := wideExpected(j.L, a, b, 47)
			if !valid {
				out = (out + 1) % 47
			}
			pub, sec := []*big.Int{big.NewInt(out)}, []*big.Int{big.NewInt(a), big.NewInt(b)}
			name := fmt.Sprintf("grid:%s:L=%d", j.b, j.L)
			base := checkSolve[constraint.U32](c, ccs, name+":n=1", "grid:"+j.b, pub, sec, nil, solver.WithNbTasks(1))
			if valid && base == nil {
				c.Violation("grid-valid-unsolved:"+name, map[string]any{"system": name})
			}
			for _, n := range Ns[1:] {
				var sol any
				var err error
				w, _ := circ.Witness(circ.Assign(pub, sec), circ.P47)
				pan := vh.Recover(func() { sol, err = ccs.Solve(w, solver.WithNbTasks(n)) })
				c.Evals.Add(1)
				c.Outcome(fmt.Sprintf("grid:%s:valid=%v", j.b, valid))
				var got []byte
				if pan == "" && err == nil {
					var buf bytes.Buffer
					parts := refsolve.SolutionParts(sol)
					for _, k := range []string{"W", "A", "B", "C", "L", "R", "O"} {
						for _, x := range parts[k] {
							buf.Write(x.Bytes())
							buf.WriteByte(0)
						}
					}
					got = buf.Bytes()
				}
				if pan != "" || (got == nil) != (base == nil) || !bytes.Equal(got, base) {
					c.Violation(fmt.Sprintf("grid-differs:%s:n=%d:valid=%v", name, n, valid), map[string]any{"system": name, "nbTasks": n, "panic": pan, "err": fmt.Sprint(err), "valid_witness": valid})
				}
			}
		}
	})
	if !ok {
		c.Cap("internal deadline during (L, nbTasks) grid")
	}
	c.Extra("grid_L", len(Ls))
	c.Extra("grid_nbTasks", len(Ns))
}

// levelInvariant checks that no instruction reads a wire written by an instruction of the
// same or a later level — the invariant that makes worker schedules irrelevant.
func levelInvariant[E constraint.Element](c *vh.Check, ccs constraint.ConstraintSystemGeneric[E], name string) {
	sys := refsolve.SystemOf(ccs)
	levelOf := make([]int, len(sys.Instructions))
	for l, lv := range sys.Levels {
		for _, i := range lv {
			levelOf[i] = l
		}
	}
	reads, writes := refsolve.ReadWrite[E](ccs)
	writer := map[uint32]int{}
	for i, ws := range writes {
		for _, w := range ws {
			writer[w] = i
		}
	}
	for i, rs := range reads {
		for _, w := range rs {
			if j, ok := writer[w]; ok && j != i && levelOf[j] >= levelOf[i] {
				c.Violation(fmt.Sprintf("level-invariant:%s:inst=%d", name, i), map[string]any{"system": name, "instruction": i, "level": levelOf[i], "reads_wire": w, "written_by": j, "writer_level": levelOf[j]})
				return
			}
		}
	}
	c.States.Add(int64(len(sys.Instructions)))
}
