// C04: compiled R1CS and sparse R1CS compute exactly what the circuit specifies.
// Bounded-exhaustive enumeration of straight-line API programs (depth bound), each compiled by
// the real builders and solved by the real solver on every assignment of F_47 (or a boundary
// alphabet), against a big.Int reference of the documented meaning.
package main

import (
	"fmt"
	"math/big"
	"strings"
	"sync/atomic"

	"github.com/consensys/gnark-crypto/ecc"
	"github.com/consensys/gnark/backend/witness"
	"github.com/consensys/gnark/constraint"
	"github.com/consensys/gnark/frontend"
	"github.com/consensys/gnark/internal/smallfields/tinyfield"
	"github.com/consensys/gnark/internal/verifh/circ"
	"github.com/consensys/gnark/internal/verifh/ops"
	"github.com/consensys/gnark/internal/verifh/progen"
	"github.com/consensys/gnark/internal/verifh/vh"
	"github.com/consensys/gnark/logger"
)

var b7 = []int{0, 1, 2, 3, 23, 45, 46}
var b11 = []int{0, 1, 2, 3, 22, 23, 24, 31, 32, 45, 46}

func main() {
	c := vh.New("C04")
	logger.Disable()
	c.Rule("programs = all straight-line sequences over the API alphabet up to the depth bound with operands from {constants, public, secret, earlier results} (connected); each is compiled with both builders and every compress threshold, and solved on all of F_47^k (k<=2 used inputs, depth 1) or a boundary alphabet; verdict and every exposed value must equal the big.Int reference, and any exposed value off by one must fail. distinct = (first op, second op, builder, verdict class).")
	c.Assume("reference semantics = the doc comments of frontend.API", "MulAcc's documented aliasing hazard excluded: a value passed as accumulator is not used again", "compile-time rejection of constant operands counts as rejecting every assignment")
	all := ops.All(6)
	quickTier = c.Quick()

	type job struct {
		p     *progen.Prog
		depth int
	}
	var progs []job
	if c.Want("d1") {
		progen.Enumerate(progen.Config{Ops: all, Depth: 1, Consts: []int{0, 1, 2, 3, 4}, Inputs: []int{0, 1, 2}, SCS: true}, func(p *progen.Prog) bool {
			progs = append(progs, job{p, 1})
			return true
		})
	}
	nd1 := len(progs)
	if c.Want("d2") {
		cfg := progen.Config{Ops: all, Depth: 2, Consts: []int{2, 3}, Inputs: []int{0, 1}, SCS: true}
		if c.Quick() {
			cfg.Consts = []int{3}
			cfg.StepOps = [][]string{{"Add", "Mul", "Mul3", "DivUnchecked", "Xor", "IsZero", "ToBinary3", "Select", "Hint"},
				{"Sub", "MulAcc", "Div", "Or", "Select", "Cmp", "IsZero", "AssertIsEqual", "AssertIsLessOrEqual", "FromBinary3"}}
		}
		progen.Enumerate(cfg, func(p *progen.Prog) bool {
			progs = append(progs, job{p, 2})
			return true
		})
	}
	nd2 := len(progs) - nd1
	if c.Want("d3") {
		lin := []string{"Add", "Sub", "Neg", "Mul", "MulAcc", "Select"}
		cfg := progen.Config{Ops: all, Depth: 3, Consts: []int{2}, Inputs: []int{0, 1}, StepOps: [][]string{lin, lin, append(lin, "AssertIsEqual", "IsZero")}}
		if c.Quick() {
			cfg.Consts = nil
			l2 := []string{"Add", "Sub"}
			cfg.StepOps = [][]string{l2, l2, {"MulAcc", "Mul"}}
		}
		progen.Enumerate(cfg, func(p *progen.Prog) bool {
			progs = append(progs, job{p, 3})
			return true
		})
	}
	nd3 := len(progs) - nd1 - nd2
	c.Extra("programs_depth1", nd1)
	c.Extra("programs_depth2", nd2)
	c.Extra("programs_depth3", nd3)
	fmt.Printf("programs: d1=%d d2=%d d3=%d\n", nd1, nd2, nd3)
	var doneN atomic.Int64
	ok := c.Par(len(progs), func(i int) {
		runProg(c, progs[i].p, progs[i].depth)
		doneN.Add(1)
	})
	if !ok {
		c.Cap(fmt.Sprintf("internal deadline: %d of %d programs run (depth-1 complete: %v)", doneN.Load(), len(progs), doneN.Load() >= int64(nd1)))
	}
	c.Extra("programs", doneN.Load())
	if c.Want("big") {
		bigFields(c, all)
	}
	c.Finish()
}

var quickTier bool

func assignments(p *progen.Prog, depth int) [][progen.NInputs]int {
	u := p.UsedInputs()
	k := 0
	for _, b := range u {
		if b {
			k++
		}
	}
	var dom []int
	switch {
	case depth == 1 && k <= 2 && !(quickTier && k == 2):
		dom = make([]int, 47)
		for i := range dom {
			dom[i] = i
		}
	case depth == 1:
		dom = b11
	default:
		dom = b7
	}
	out := [][progen.NInputs]int{{}}
	for i := 0; i < progen.NInputs; i++ {
		if !u[i] {
			continue
		}
		var next [][progen.NInputs]int
		for _, a := range out {
			for _, v := range dom {
				a[i] = v
				next = append(next, a)
			}
		}
		out = next
	}
	return out
}

type compiled struct {
	name string
	cs   constraint.ConstraintSystemU32
	w    witness.Witness
	vec  tinyfield.Vector
	rej  string
}

func runProg(c *vh.Check, p *progen.Prog, depth int) {
	ci := p.Circuit(circ.P47)
	nout := p.NOut()
	var sys []compiled
	thresholds := []int{300}
	if depth >= 2 || c.Tier == "thorough" {
		thresholds = []int{300, 2, 3}
	}
	for _, b := range []string{circ.R1CS, circ.SCS} {
		scsOnly := false
		for _, s := range p.Steps {
			if s.Op.SCSOnly {
				scsOnly = true
			}
		}
		if scsOnly && b == circ.R1CS {
			continue
		}
		for _, th := range thresholds {
			if b == circ.SCS && th != 300 {
				continue // the sparse builder has no linear-expression compression
			}
			ccs, err, pan := circ.CompileTiny(b, ci, frontend.IgnoreUnconstrainedInputs(), frontend.WithCompressThreshold(th))
			cc := compiled{name: fmt.Sprintf("%s/t%d", b, th), cs: ccs}
			if err != nil || pan != "" {
				cc.rej = fmt.Sprint(err, pan)
			} else {
				w, _ := witness.New(circ.P47)
				ch := make(chan any, 3+nout+progen.NCopies)
				for i := 0; i < 3+nout+progen.NCopies; i++ {
					ch <- 0
				}
				close(ch)
				if err := w.Fill(1, 2+nout+progen.NCopies, ch); err != nil {
					c.Fatal("witness fill: %v", err)
				}
				cc.w = w
				cc.vec = w.Vector().(tinyfield.Vector)
			}
			sys = append(sys, cc)
		}
	}
	first := ""
	if len(p.Steps) > 1 {
		first = p.Steps[1].Op.Name
	}
	as := assignments(p, depth)
	sampled := false
	for _, a := range as {
		var in [progen.NInputs]*big.Int
		for i := range in {
			in[i] = big.NewInt(int64(a[i]))
		}
		outs, free, sat := p.Ref(circ.P47, in)
		class := "unsat"
		if sat {
			class = "sat"
		}
		anyFree := false
		for _, f := range free {
			anyFree = anyFree || f
		}
		for si := range sys {
			s := &sys[si]
			c.Evals.Add(1)
			c.Outcome(p.Steps[0].Op.Name + ";" + first + ":" + s.name[:3] + ":" + class)
			if s.rej != "" {
				if sat && !anyFree {
					c.Violation(fmt.Sprintf("compile-reject:%s:%s", s.name, p), map[string]any{"program": p.String(), "system": s.name, "error": s.rej, "satisfiable_assignment": a})
				}
				continue
			}
			s.vec[0].SetUint64(uint64(a[0]))
			s.vec[1].SetUint64(uint64(a[1]))
			s.vec[2].SetUint64(uint64(a[2]))
			for k := 0; k < progen.NCopies; k++ {
				s.vec[3+nout+k].SetUint64(uint64(a[k]))
			}
			for i := 0; i < nout; i++ {
				if sat {
					s.vec[3+i].SetUint64(outs[i].Uint64())
				} else {
					s.vec[3+i].SetUint64(0)
				}
			}
			err := solve(s)
			c.Traces.Add(1)
			if sat && err != "" {
				c.Violation(fmt.Sprintf("sat-rejected:%s:%s:%s", s.name, errClass(err), p), map[string]any{"program": p.String(), "system": s.name, "inputs[P0,S0,S1]": a, "expected_outputs": fmt.Sprint(outs), "solver_error": err})
			}
			if !sat && err == "" {
				c.Violation(fmt.Sprintf("unsat-accepted:%s:%s", s.name, p), map[string]any{"program": p.String(), "system": s.name, "inputs[P0,S0,S1]": a})
			}
			if sat {
				for i := 0; i < nout; i++ {
					if free[i] {
						continue
					}
					s.vec[3+i].SetUint64((outs[i].Uint64() + 1) % 47)
					if e := solve(s); e == "" {
						c.Violation(fmt.Sprintf("wrong-value-accepted:%s:%s", s.name, p), map[string]any{"program": p.String(), "system": s.name, "inputs[P0,S0,S1]": a, "output_index": i, "expected": outs[i].String()})
					}
					s.vec[3+i].SetUint64(outs[i].Uint64())
					c.Evals.Add(1)
				}
			}
		}
		if !sampled && sat && a[0]+a[1] > 3 {
			sampled = true
			if depth > 1 || p.Steps[0].Op.NIn > 2 {
				c.Sample(map[string]any{"program": p.String(), "inputs[P0,S0,S1]": a, "reference_outputs": fmt.Sprint(outs), "systems": len(sys), "assignments": len(as)})
			}
		}
	}
	c.Count("programs", fmt.Sprintf("depth%d", depth), 1)
	c.States.Add(1)
}

func solve(s *compiled) string {
	var err error
	p := vh.Recover(func() { _, err = s.cs.Solve(s.w) })
	if p != "" {
		return "panic: " + p
	}
	if err != nil {
		return err.Error()
	}
	return ""
}

// bigFields runs the depth-1 programs over curve scalar fields on a boundary alphabet.
func bigFields(c *vh.Check, all []ops.Op) {
	curves := []ecc.ID{ecc.BN254, ecc.BLS12_377}
	if c.Tier == "thorough" {
		curves = []ecc.ID{ecc.BN254, ecc.BLS12_377, ecc.BLS12_381, ecc.BLS24_315, ecc.BLS24_317, ecc.BW6_633, ecc.BW6_761}
	}
	for _, cv := range curves {
		field := cv.ScalarField()
		allF := ops.All(field.BitLen())
		var progs []*progen.Prog
		progen.Enumerate(progen.Config{Ops: allF, Depth: 1, Consts: []int{0, 2, 3, 4}, Inputs: []int{0, 1}, SCS: true}, func(p *progen.Prog) bool {
			progs = append(progs, p)
			return true
		})
		if c.Tier == "thorough" {
			progen.Enumerate(progen.Config{Ops: allF, Depth: 2, Consts: []int{3}, Inputs: []int{0, 1}, SCS: true,
				StepOps: [][]string{{"Add", "Sub", "Mul", "MulAcc", "DivUnchecked", "Xor", "Select", "IsZero", "Cmp"}, {"Add", "Sub", "Mul", "MulAcc", "Div", "Select", "IsZero", "Cmp", "ToBinaryFull", "AssertIsLessOrEqual"}}}, func(p *progen.Prog) bool {
				progs = append(progs, p)
				return true
			})
		}
		pm1 := new(big.Int).Sub(field, big.NewInt(1))
		half := new(big.Int).Rsh(pm1, 1)
		k := uint(field.BitLen() - 1)
		dom := []*big.Int{big.NewInt(0), big.NewInt(1), big.NewInt(2), pm1, new(big.Int).Sub(pm1, big.NewInt(1)), half, new(big.Int).Add(half, big.NewInt(1)),
			new(big.Int).Lsh(big.NewInt(1), k), new(big.Int).Sub(new(big.Int).Lsh(big.NewInt(1), k), big.NewInt(1)), new(big.Int).Lsh(big.NewInt(1), 64), big.NewInt(7)}
		ok := c.Par(len(progs), func(i int) { runBig(c, cv, field, progs[i], dom) })
		if !ok {
			c.Cap("internal deadline during large-field sweep on " + cv.String())
		}
		c.Count("programs", "bigfield:"+cv.String(), int64(len(progs)))
	}
}

func runBig(c *vh.Check, cv ecc.ID, field *big.Int, p *progen.Prog, dom []*big.Int) {
	ci := p.Circuit(field)
	nout := p.NOut()
	type bc struct {
		name string
		cs   constraint.ConstraintSystem
		rej  string
	}
	var sys []bc
	for _, b := range []string{circ.R1CS, circ.SCS} {
		scsOnly := false
		for _, s := range p.Steps {
			scsOnly = scsOnly || s.Op.SCSOnly
		}
		if scsOnly && b == circ.R1CS {
			continue
		}
		ccs, err, pan := circ.Compile(field, b, ci, frontend.IgnoreUnconstrainedInputs())
		x := bc{name: b + "/" + cv.String(), cs: ccs}
		if err != nil || pan != "" {
			x.rej = fmt.Sprint(err, pan)
		}
		sys = append(sys, x)
	}
	u := p.UsedInputs()
	for _, a0 := range dom {
		for _, a1 := range dom {
			if !u[0] && a0 != dom[0] {
				continue
			}
			if !u[1] && a1 != dom[0] {
				continue
			}
			in := [progen.NInputs]*big.Int{a0, a1, big.NewInt(0)}
			outs, free, sat := p.Ref(field, in)
			anyFree := false
			for _, f := range free {
				anyFree = anyFree || f
			}
			for _, s := range sys {
				c.Evals.Add(1)
				cl := "unsat"
				if sat {
					cl = "sat"
				}
				c.Outcome(p.Steps[0].Op.Name + ":big:" + s.name[:3] + ":" + cl)
				if s.rej != "" {
					if sat && !anyFree {
						c.Violation(fmt.Sprintf("compile-reject:%s:%s", s.name, p), map[string]any{"program": p.String(), "error": s.rej})
					}
					continue
				}
				sv := []*big.Int{a1, big.NewInt(0)}
				for i := 0; i < nout; i++ {
					if sat {
						sv = append(sv, outs[i])
					} else {
						sv = append(sv, big.NewInt(0))
					}
				}
				sv = append(sv, a0, a1, big.NewInt(0)) // copies of P0,S0,S1
				try := func(sv []*big.Int) string {
					w, err := circ.Witness(circ.Assign([]*big.Int{a0}, sv), field)
					if err != nil {
						return "witness: " + err.Error()
					}
					pn := vh.Recover(func() { _, err = s.cs.Solve(w) })
					if pn != "" {
						return "panic: " + pn
					}
					if err != nil {
						return err.Error()
					}
					return ""
				}
				e := try(sv)
				c.Traces.Add(1)
				if sat && e != "" {
					c.Violation(fmt.Sprintf("sat-rejected:%s:%s:%s", s.name, errClass(e), p), map[string]any{"program": p.String(), "inputs": fmt.Sprint(a0, a1), "expected": fmt.Sprint(outs), "solver_error": e})
				}
				if !sat && e == "" {
					c.Violation(fmt.Sprintf("unsat-accepted:%s:%s", s.name, p), map[string]any{"program": p.String(), "inputs": fmt.Sprint(a0, a1)})
				}
				if sat {
					for i := 0; i < nout; i++ {
						if free[i] {
							continue
						}
						sv2 := append([]*big.Int(nil), sv...)
						sv2[2+i] = new(big.Int).Mod(new(big.Int).Add(outs[i], big.NewInt(1)), field)
						if try(sv2) == "" {
							c.Violation(fmt.Sprintf("wrong-value-accepted:%s:%s", s.name, p), map[string]any{"program": p.String(), "inputs": fmt.Sprint(a0, a1), "output_index": i})
						}
						c.Evals.Add(1)
					}
				}
			}
		}
	}
}

// errClass abstracts a solver error to its kind (used in violation keys so that a known
// finding identifies one failure mode, not a whole family of programs).
func errClass(e string) string {
	switch {
	case strings.Contains(e, "more than one wire to instantiate"):
		return "panic-more-than-one-wire"
	case strings.HasPrefix(e, "panic"):
		return "panic"
	case strings.Contains(e, "division by 0"):
		return "division-by-0"
	case strings.Contains(e, "is not satisfied") || strings.Contains(e, "!="):
		return "constraint-not-satisfied"
	case strings.Contains(e, "didn't assign"):
		return "unsolved-wires"
	}
	return "other"
}
