// C10: solving and proving are independent of scheduling and of concurrent use.
// The real solver / provers / verifiers (instrumented copies of the current tree, see
// instr.json) run under the controlled scheduler vsched; every interleaving of the scenario's
// threads within the deviation bound is executed and each call's result is compared with the
// same call running alone on a fresh object.
package main

import (
	"bytes"
	"crypto/sha256"
	"fmt"
	"math/big"
	"strings"
	"time"

	"github.com/consensys/gnark-crypto/ecc"
	"github.com/consensys/gnark/backend"
	"github.com/consensys/gnark/backend/groth16"
	"github.com/consensys/gnark/backend/plonk"
	"github.com/consensys/gnark/backend/witness"
	"github.com/consensys/gnark/constraint"
	"github.com/consensys/gnark/constraint/solver"
	"github.com/consensys/gnark/frontend"
	"github.com/consensys/gnark/internal/verifh/circ"
	"github.com/consensys/gnark/internal/verifh/hintenv"
	"github.com/consensys/gnark/internal/verifh/ops"
	"github.com/consensys/gnark/internal/verifh/refsolve"
	"github.com/consensys/gnark/internal/verifh/vh"
	"github.com/consensys/gnark/internal/verifh/vsched"
	"github.com/consensys/gnark/internal/verifh/vsync"
	"github.com/consensys/gnark/logger"
	"github.com/consensys/gnark/std/lookup/logderivlookup"
	"github.com/consensys/gnark/test/unsafekzg"
)

var field = ecc.BN254.ScalarField()

// wantExpect: setup() also computes what each call returns alone on fresh objects (done once per scenario)
var wantExpect bool

// a scenario builds fresh shared objects and returns the thread bodies; each body returns an
// observation string; alone() gives what each body returns running alone on fresh objects.
type scenario struct {
	name  string
	mode  vsched.Mode
	bound [2]int // quick, thorough
	setup func() (threads []func() string, expect []string)
	fail  bool
	local bool // channels / wait groups are private to each call (partial-order reduction)
	after bool // a point also AFTER every completed channel receive (a worker may be descheduled between taking a task and starting on it)
}

// controlled runs f as the only thread of a default-schedule run (instrumented provers use
// select, which exists only under the scheduler).
func controlled(f func()) {
	res := vsched.Run(&vh.Ctx{}, vsched.Options{Mode: vsched.Delay}, f)
	if res.Deadlock || len(res.Panics) > 0 {
		panic(fmt.Sprint("controlled run failed: ", res.DeadlockInfo, res.Panics))
	}
}

func detOpts() []solver.Option {
	var o []solver.Option
	for id, h := range hintenv.Det() {
		o = append(o, solver.OverrideHint(id, h))
	}
	return o
}

func solObs(sol any, err error, pan string) string {
	if pan != "" {
		return "panic: " + firstLine(pan)
	}
	if err != nil {
		return "error: " + errClass(err.Error())
	}
	h := sha256.New()
	parts := refsolve.SolutionParts(sol)
	for _, k := range []string{"W", "A", "B", "C", "L", "R", "O"} {
		for _, x := range parts[k] {
			h.Write(x.Bytes())
			h.Write([]byte{0})
		}
	}
	return fmt.Sprintf("ok:%x", h.Sum(nil)[:8])
}

func errClass(s string) string {
	switch {
	case strings.Contains(s, "lookup query too large"):
		return "lookup query too large"
	case strings.Contains(s, "is not satisfied") || strings.Contains(s, "!="):
		return "constraint not satisfied"
	case strings.Contains(s, "injected failure"):
		return "injected failure"
	}
	if len(s) > 60 {
		s = s[:60]
	}
	return s
}

func firstLine(s string) string {
	if i := strings.IndexByte(s, '\n'); i >= 0 {
		s = s[:i]
	}
	if len(s) > 100 {
		s = s[:100]
	}
	return s
}

func lookupCircuit() *circ.C {
	return circ.New(1, 4, func(api frontend.API, p, s []frontend.Variable) error {
		t := logderivlookup.New(api)
		t.Insert(s[0])
		t.Insert(api.Add(s[1], 1))
		t.Insert(7)
		r := t.Lookup(s[2], s[3])
		t.Insert(api.Mul(s[0], s[1]))
		r2 := t.Lookup(api.Add(s[2], 1))
		api.AssertIsEqual(api.Add(r[0], r[1], r2[0]), p[0])
		return nil
	})
}

func mustCompile(builder string, c frontend.Circuit) constraint.ConstraintSystem {
	ccs, err, pan := circ.Compile(field, builder, c)
	if err != nil || pan != "" {
		panic(fmt.Sprint("compile: ", err, pan))
	}
	return ccs
}

func mustWitness(pub, sec []int64) witness.Witness {
	bp, bs := make([]*big.Int, len(pub)), make([]*big.Int, len(sec))
	for i := range pub {
		bp[i] = big.NewInt(pub[i])
	}
	for i := range sec {
		bs[i] = big.NewInt(sec[i])
	}
	w, err := circ.Witness(circ.Assign(bp, bs), field)
	if err != nil {
		panic(err)
	}
	return w
}

func solveObs(ccs constraint.ConstraintSystem, w witness.Witness, opts ...solver.Option) string {
	var sol any
	var err error
	pan := vh.Recover(func() { sol, err = ccs.Solve(w, append(detOpts(), opts...)...) })
	return solObs(sol, err, pan)
}

// S1: two concurrent Solve on one system with a lookup table, distinct witnesses.
func s1(builder string) scenario {
	wits := [][2][]int64{{{5 + 7 + 7}, {5, 6, 0, 1}}, {{7 + 9 + 90}, {9, 10, 2, 0}}}
	return scenario{name: "S1-solve||solve-lookup-" + builder, mode: vsched.Preemption, bound: [2]int{1, 2}, local: true,
		setup: func() ([]func() string, []string) {
			ccs := mustCompile(builder, lookupCircuit())
			var th []func() string
			var exp []string
			for _, wt := range wits {
				w := mustWitness(wt[0], wt[1])
				th = append(th, func() string { return solveObs(ccs, w, solver.WithNbTasks(1)) })
				if wantExpect {
					exp = append(exp, solveObs(mustCompile(builder, lookupCircuit()), w, solver.WithNbTasks(1)))
				}
			}
			return th, exp
		}}
}

// S5: the solver's own workers on a wide level with hints and lookups.
func s5(builder string, L, nbTasks int) scenario {
	mk := func() *circ.C {
		return circ.New(1, 2, func(api frontend.API, p, s []frontend.Variable) error {
			t := logderivlookup.New(api)
			for i := 0; i < 4; i++ {
				t.Insert(api.Add(s[0], i))
			}
			var acc frontend.Variable = 0
			for i := 0; i < L; i++ {
				var v frontend.Variable
				switch i % 5 {
				case 4:
					h, _ := api.Compiler().NewHint(ops.DoubleHint, 1, api.Add(s[0], i))
					v = h[0]
				case 3:
					v = t.Lookup(i % 4)[0]
				default:
					v = api.Mul(api.Add(s[0], i), api.Add(s[1], i+1))
				}
				acc = api.Add(acc, v)
			}
			api.AssertIsEqual(acc, p[0])
			return nil
		})
	}
	expected := func(a, b int64) int64 {
		acc := int64(0)
		for i := int64(0); i < int64(L); i++ {
			switch i % 5 {
			case 4:
				acc += 2 * (a + i)
			case 3:
				acc += a + i%4
			default:
				acc += (a + i) * (b + i + 1)
			}
		}
		return acc
	}
	bq := 1
	if nbTasks > 2 {
		bq = 0 // with 3 workers the forced-switch orders alone are hundreds of schedules
	}
	return scenario{name: fmt.Sprintf("S5-workers-%s-L%d-n%d", builder, L, nbTasks), mode: vsched.Preemption, bound: [2]int{bq, bq + 1}, after: true,
		setup: func() ([]func() string, []string) {
			ccs := mustCompile(builder, mk())
			wOK := mustWitness([]int64{expected(3, 5)}, []int64{3, 5})
			var exp []string
			if wantExpect {
				exp = []string{solveObs(mustCompile(builder, mk()), wOK, solver.WithNbTasks(1))}
			}
			return []func() string{func() string { return solveObs(ccs, wOK, solver.WithNbTasks(nbTasks)) }}, exp
		}}
}

// S5L: a lookup table whose entries are COMPUTED wires (products of inputs), queried at input
// indices, next to a wide level of independent products: the lookups must wait for the level that
// produces the entries, whatever the workers' schedule.
func s5lookupCircuit(L int) *circ.C {
	return circ.New(1, 4, func(api frontend.API, p, s []frontend.Variable) error {
		t := logderivlookup.New(api)
		for i := 0; i < 4; i++ {
			t.Insert(api.Mul(api.Add(s[0], i), api.Add(s[1], i)))
		}
		var acc frontend.Variable = 0
		for i := 0; i < L; i++ {
			acc = api.Add(acc, api.Mul(api.Add(s[0], i), api.Add(s[1], i+1)))
		}
		r := t.Lookup(s[2], s[3])
		api.AssertIsEqual(api.Add(acc, r[0], r[1]), p[0])
		return nil
	})
}

func s5lookup(builder string, L, nbTasks int) scenario {
	expected := func(a, b, i0, i1 int64) int64 {
		acc := int64(0)
		for i := int64(0); i < int64(L); i++ {
			acc += (a + i) * (b + i + 1)
		}
		return acc + (a+i0)*(b+i0) + (a+i1)*(b+i1)
	}
	return scenario{name: fmt.Sprintf("S5L-workers-computed-table-%s-L%d-n%d", builder, L, nbTasks), mode: vsched.Preemption, bound: [2]int{1, 2}, after: true,
		setup: func() ([]func() string, []string) {
			ccs := mustCompile(builder, s5lookupCircuit(L))
			wOK := mustWitness([]int64{expected(3, 5, 2, 0)}, []int64{3, 5, 2, 0})
			var exp []string
			if wantExpect {
				exp = []string{solveObs(mustCompile(builder, s5lookupCircuit(L)), wOK, solver.WithNbTasks(1))}
			}
			return []func() string{func() string { return solveObs(ccs, wOK, solver.WithNbTasks(nbTasks)) }}, exp
		}}
}

// S5i: the solver's workers on a wide level of pure CHECKS with an invalid witness whose failures
// fall into different task chunks (several workers report an error in the same level).
func s5invalid(builder string, L, nbTasks int, wrong []int) scenario {
	mk := func() *circ.C {
		return circ.New(L, 2, func(api frontend.API, p, s []frontend.Variable) error {
			for i := 0; i < L; i++ {
				api.AssertIsEqual(api.Mul(api.Add(s[0], i), s[1]), p[i])
			}
			return nil
		})
	}
	pub := make([]int64, L)
	for i := range pub {
		pub[i] = (3 + int64(i)) * 5
	}
	for _, w := range wrong {
		pub[w]++
	}
	return scenario{name: fmt.Sprintf("S5i-workers-invalid-%s-L%d-n%d-wrong%v", builder, L, nbTasks, wrong), mode: vsched.Preemption, bound: [2]int{0, 1}, after: true,
		setup: func() ([]func() string, []string) {
			ccs := mustCompile(builder, mk())
			w := mustWitness(pub, []int64{3, 5})
			var exp []string
			if wantExpect {
				exp = []string{solveObs(mustCompile(builder, mk()), w, solver.WithNbTasks(1))}
			}
			return []func() string{func() string { return solveObs(ccs, w, solver.WithNbTasks(nbTasks)) }}, exp
		}}
}

func commitCircuit() *circ.C {
	return circ.New(1, 2, func(api frontend.API, p, s []frontend.Variable) error {
		cm, err := api.(frontend.Committer).Commit(s[0], p[0])
		if err != nil {
			return err
		}
		api.AssertIsDifferent(cm, s[1])
		api.AssertIsEqual(api.Mul(s[0], s[1]), p[0])
		return nil
	})
}

// S2 / S3: two concurrent Prove sharing one []solver.Option with spare capacity.
func sProve(backendName string) scenario {
	var cached struct {
		ccs    constraint.ConstraintSystem
		ppk    plonk.ProvingKey
		pvk    plonk.VerifyingKey
		gpk    groth16.ProvingKey
		gvk    groth16.VerifyingKey
	}
	return scenario{name: "S2-prove||prove-shared-options-" + backendName, mode: vsched.Delay, bound: [2]int{1, 2}, local: true,
		setup: func() ([]func() string, []string) {
			wits := []witness.Witness{mustWitness([]int64{6}, []int64{2, 3}), mustWitness([]int64{20}, []int64{4, 5})}
			shared := make([]solver.Option, 0, 8)
			shared = append(shared, solver.WithNbTasks(1))
			var th []func() string
			var exp []string
			if backendName == "plonk" {
				if cached.ccs == nil {
					cached.ccs = mustCompile(circ.SCS, commitCircuit())
					srs, srsL, err := unsafekzg.NewSRS(cached.ccs)
					if err != nil {
						panic(err)
					}
					cached.ppk, cached.pvk, err = plonk.Setup(cached.ccs, srs, srsL)
					if err != nil {
						panic(err)
					}
				}
				ccs, pk, vk := cached.ccs, cached.ppk, cached.pvk
				for _, w := range wits {
					w := w
					th = append(th, func() string {
						var proof plonk.Proof
						var err error
						pan := vh.Recover(func() { proof, err = plonk.Prove(ccs, pk, w, backend.WithSolverOptions(shared...)) })
						if pan != "" {
							return "panic: " + firstLine(pan)
						}
						if err != nil {
							return "error: " + errClass(err.Error())
						}
						pw, _ := w.Public()
						if err := plonk.Verify(proof, vk, pw); err != nil {
							return "proof-does-not-verify"
						}
						return "ok"
					})
					exp = append(exp, "ok")
				}
			} else {
				if cached.ccs == nil {
					cached.ccs = mustCompile(circ.R1CS, commitCircuit())
					var err error
					cached.gpk, cached.gvk, err = groth16.Setup(cached.ccs)
					if err != nil {
						panic(err)
					}
				}
				ccs, pk, vk := cached.ccs, cached.gpk, cached.gvk
				for _, w := range wits {
					w := w
					th = append(th, func() string {
						var proof groth16.Proof
						var err error
						pan := vh.Recover(func() { proof, err = groth16.Prove(ccs, pk, w, backend.WithSolverOptions(shared...)) })
						if pan != "" {
							return "panic: " + firstLine(pan)
						}
						if err != nil {
							return "error: " + errClass(err.Error())
						}
						pw, _ := w.Public()
						if err := groth16.Verify(proof, vk, pw); err != nil {
							return "proof-does-not-verify"
						}
						return "ok"
					})
					exp = append(exp, "ok")
				}
			}
			return th, exp
		}}
}

// S4: Prove || Verify and Verify || Verify sharing one option VALUE that carries a hash.Hash.
func sSharedHash(backendName string) scenario {
	var vk groth16.VerifyingKey
	var p1, p2 groth16.Proof
	return scenario{name: "S4-verify||verify-shared-hash-option-" + backendName, mode: vsched.Preemption, bound: [2]int{1, 2}, local: true,
		setup: func() ([]func() string, []string) {
			w1, w2 := mustWitness([]int64{6}, []int64{2, 3}), mustWitness([]int64{20}, []int64{4, 5})
			h := sha256.New()
			var th []func() string
			if backendName == "groth16" {
				if vk == nil {
					ccs := mustCompile(circ.R1CS, commitCircuit())
					pk, vk0, err := groth16.Setup(ccs)
					if err != nil {
						panic(err)
					}
					vk = vk0
					var err1, err2 error
					controlled(func() {
						p1, err1 = groth16.Prove(ccs, pk, w1, backend.WithProverHashToFieldFunction(sha256.New()))
						p2, err2 = groth16.Prove(ccs, pk, w2, backend.WithProverHashToFieldFunction(sha256.New()))
					})
					if err1 != nil || err2 != nil {
						panic(fmt.Sprint("honest prove: ", err1, err2))
					}
				}
				vopt := backend.WithVerifierHashToFieldFunction(h)
				for i, pw := range []struct {
					p groth16.Proof
					w witness.Witness
				}{{p1, w1}, {p2, w2}} {
					_ = i
					pw := pw
					th = append(th, func() string {
						pub, _ := pw.w.Public()
						var err error
						pan := vh.Recover(func() { err = groth16.Verify(pw.p, vk, pub, vopt) })
						if pan != "" {
							return "panic: " + firstLine(pan)
						}
						if err != nil {
							return "rejected"
						}
						return "ok"
					})
				}
			}
			return th, []string{"ok", "ok"}
		}}
}

func scenarios() []scenario {
	return []scenario{
		s1(circ.R1CS), s1(circ.SCS),
		s5(circ.R1CS, 51, 2), s5(circ.SCS, 52, 3), s5(circ.R1CS, 103, 3),
		s5lookup(circ.R1CS, 60, 2), s5lookup(circ.SCS, 60, 2),
		s5invalid(circ.R1CS, 102, 2, []int{0, 101}), s5invalid(circ.SCS, 153, 3, []int{0, 76, 152}), s5invalid(circ.R1CS, 102, 3, []int{40}),
		sProve("plonk"), sProve("groth16"),
		sSharedHash("groth16"),
	}
}

func main() {
	c := vh.New("C10")
	logger.Disable()
	c.Rule("per scenario: threads sharing one compiled system / key / option slice / option value run the real (instrumented) Solve, Prove, Verify under the controlled scheduler; ALL schedules within the deviation bound (preemption bound for 2-3 thread scenarios, delay bound for the provers' pipelines) are executed; each call's observation (solution hash / error class / proof verifies) must equal the same call alone on fresh objects; panics and deadlocks (no enabled thread) are violations. Plus every call history of length <= 3. distinct = (scenario, observation tuple).")
	c.Assume("threads are serialised at synchronisation operations and at statement-level points of the files that touch shared state (instr.json); data races below that granularity are the business of a separate free-running -race pass", "bn254 instantiation of the generated per-curve code")
	if d := c.ReplayDetail(); d != nil {
		// re-execute exactly the recorded schedule, without the explorer, five times
		name, _ := d["scenario"].(string)
		for _, s := range scenarios() {
			if s.name != name {
				continue
			}
			wantExpect = true
			_, expect := s.setup()
			wantExpect = false
			for rep := 0; rep < 5; rep++ {
				threads, _ := s.setup()
				obs := make([]string, len(threads))
				x := vh.RunOnce(func(x *vh.Ctx) {
					vsched.Run(x, vsched.Options{Mode: s.mode, Fail: s.fail, LocalSync: s.local, AfterRecv: s.after}, func() {
						var wg vsync.WaitGroup
						for i := range threads {
							i := i
							wg.Add(1)
							vsched.Go(func() { defer wg.Done(); obs[i] = threads[i]() })
						}
						wg.Wait()
					})
				}, vh.ReplayChoices(d))
				fmt.Printf("  replay %d: observed %v expected %v diverged=%q\n", rep+1, obs, expect, x.Diverged)
				if fmt.Sprint(obs) != fmt.Sprint(expect) {
					c.Violation(fmt.Sprint(d["__key"]), d)
				}
			}
		}
		c.Outcome("replay")
		c.Outcome("replay-done")
		c.Finish()
	}
	if unit, _, ok := vh.WorkerArgs(); ok {
		for _, s := range scenarios() {
			if s.name == unit {
				explore(c, s)
			}
		}
		if unit == "histories" {
			histories(c)
		}
		c.WorkerDone()
	}
	if c.Want("levels") {
		// static side of "the outcome does not depend on the number of tasks": the level structure of
		// the compiled scenario systems respects every data dependency (lookup entries included)
		for _, b := range []string{circ.R1CS, circ.SCS} {
			for name, ci := range map[string]*circ.C{"lookup": lookupCircuit(), "computed-table-L60": s5lookupCircuit(60), "computed-table-L3": s5lookupCircuit(3), "commit": commitCircuit()} {
				ccs := mustCompile(b, ci)
				g, ok := ccs.(constraint.ConstraintSystemGeneric[constraint.U64])
				if !ok {
					c.Fatal("levels: %s/%s is not a U64 system", name, b)
				}
				c.Evals.Add(1)
				if d := refsolve.LevelConflict[constraint.U64](g); d != nil {
					d["system"] = name + "/" + b
					c.Violation("c10:levels:"+name+"/"+b, d)
					c.Outcome("levels:CONFLICT")
				} else {
					c.Outcome("levels:respect-dependencies")
				}
			}
		}
	}
	var units []string
	for _, s := range scenarios() {
		if c.Want(s.name) {
			units = append(units, s.name)
		}
	}
	if c.Want("histories") {
		units = append(units, "histories")
	}
	vh.ParN(len(units), 12, func(i int) bool {
		c.RunIsolated(units[i], 16<<20, func(cr vh.Crash) {
			c.Violation("c10:"+cr.Unit+":process-crash", map[string]any{"unit": cr.Unit, "frames": vh.FirstFrames(cr.Stderr, 8), "stderr_tail": tailStr(cr.Stderr, 1500)})
		})
		return true
	})
	c.Finish()
}

func tailStr(s string, n int) string {
	if len(s) > n {
		return s[len(s)-n:]
	}
	return s
}

func explore(c *vh.Check, s scenario) {
	bound := s.bound[0]
	if c.Tier == "thorough" {
		bound = s.bound[1]
	}
	completed := -1
	wantExpect = true
	_, expectOnce := s.setup()
	wantExpect = false
	for b := 0; b <= bound; b++ {
		t0 := time.Now()
		var execs int64
		e := &vh.Explorer{Bound: b, Workers: 1, Stop: c.Expired}
		e.OnNondet = func(x *vh.Ctx) {
			c.Fatal("NONDETERMINISM in %s: %s", s.name, x.Diverged)
		}
		e.Run = func(x *vh.Ctx) {
			if x.Deviations() < b && b > 0 {
				// executions with fewer deviations were covered at a lower bound; still run (prefix replay) but do not re-judge
			}
			threads, _ := s.setup()
			expect := expectOnce
			obs := make([]string, len(threads))
			res := vsched.Run(x, vsched.Options{Mode: s.mode, Fail: s.fail, LocalSync: s.local, AfterRecv: s.after}, func() {
				var wg vsync.WaitGroup
				for i := range threads {
					i := i
					wg.Add(1)
					vsched.Go(func() {
						defer wg.Done()
						obs[i] = threads[i]()
					})
				}
				wg.Wait()
			})
			execs++
			c.Evals.Add(1)
			c.Traces.Add(1)
			c.Transitions.Add(int64(res.Steps))
			class := strings.Join(obs, " | ")
			switch {
			case res.Deadlock:
				class = "DEADLOCK " + res.DeadlockInfo
			case res.HorizonHit:
				class = "HORIZON"
			case len(res.Panics) > 0:
				class = "THREAD-PANIC " + firstLine(res.Panics[0])
			}
			c.Outcome(s.name + ": " + abbreviate(class))
			bad := res.Deadlock || res.HorizonHit || len(res.Panics) > 0
			for i := range obs {
				if obs[i] != expect[i] {
					bad = true
				}
			}
			if res.Uncontrolled > 0 {
				c.Count("uncontrolled-ops", s.name, res.Uncontrolled)
			}
			if bad {
				kind := "wrong-result"
				switch {
				case res.Deadlock:
					kind = "deadlock"
				case len(res.Panics) > 0 || strings.Contains(class, "panic"):
					kind = "panic"
				}
				c.Violation(fmt.Sprintf("c10:%s:%s", s.name, kind), map[string]any{"scenario": s.name, "deviation_bound": b, "deviations": x.Deviations(), "choices": x.Choices, "non_default_choices": x.Trace(), "observed": obs, "expected_alone": expect, "deadlock": res.DeadlockInfo, "panics": res.Panics, "schedule": strings.Join(res.Trace, "")})
			}
			if execs == 3 {
				c.Sample(map[string]any{"scenario": s.name, "bound": b, "non_default_choices": x.Trace(), "scheduling_points": res.Steps, "threads": res.Threads, "observed": obs})
			}
		}
		done := e.Explore()
		c.States.Add(e.Points.Load())
		if !done {
			c.Cap(fmt.Sprintf("%s: deadline during deviation bound %d (bound %d completed)", s.name, b, completed))
			break
		}
		completed = b
		c.Count("schedules:"+s.name, fmt.Sprintf("bound<=%d", b), execs)
		c.Count("millis:"+s.name, fmt.Sprintf("bound<=%d", b), time.Since(t0).Milliseconds())
	}
	c.Count("bound-completed", s.name, int64(completed))
}

func abbreviate(s string) string {
	if len(s) > 160 {
		return s[:160]
	}
	return s
}

// histories: every call history of length <= 3 over {valid w1, valid w2, invalid w3} x
// {Solve, Prove} on ONE shared system / key; call k must equal the same call on fresh objects.
func histories(c *vh.Check) {
	type call struct {
		name string
		run  func(ccs constraint.ConstraintSystem, pk any) string
	}
	wits := map[string]witness.Witness{"w1": mustWitness([]int64{19}, []int64{5, 6, 0, 1}), "w2": mustWitness([]int64{106}, []int64{9, 10, 2, 0}), "bad": mustWitness([]int64{20}, []int64{5, 6, 0, 1}), "oob": mustWitness([]int64{0}, []int64{5, 6, 4, 0})}
	for _, builder := range []string{circ.R1CS, circ.SCS} {
		var calls []call
		for _, wn := range []string{"w1", "w2", "bad", "oob"} {
			w := wits[wn]
			calls = append(calls, call{"Solve(" + wn + ")", func(ccs constraint.ConstraintSystem, pk any) string { return solveObs(ccs, w) }})
			calls = append(calls, call{"Prove(" + wn + ")", func(ccs constraint.ConstraintSystem, pk any) string {
				var err error
				var pan string
				if builder == circ.R1CS {
					pan = vh.Recover(func() { _, err = groth16.Prove(ccs, pk.(groth16.ProvingKey), w) })
				} else {
					pan = vh.Recover(func() { _, err = plonk.Prove(ccs, pk.(plonk.ProvingKey), w) })
				}
				if pan != "" {
					return "panic: " + firstLine(pan)
				}
				if err != nil {
					return "error: " + errClass(err.Error())
				}
				return "ok"
			}})
		}
		fresh := func() (constraint.ConstraintSystem, any) {
			ccs := mustCompile(builder, lookupCircuit())
			if builder == circ.R1CS {
				pk, _, err := groth16.Setup(ccs)
				if err != nil {
					panic(err)
				}
				return ccs, pk
			}
			srs, srsL, err := unsafekzg.NewSRS(ccs)
			if err != nil {
				panic(err)
			}
			pk, _, err := plonk.Setup(ccs, srs, srsL)
			if err != nil {
				panic(err)
			}
			return ccs, pk
		}
		alone := make([]string, len(calls))
		for i, cl := range calls {
			ccs, pk := fresh()
			controlled(func() { alone[i] = cl.run(ccs, pk) })
		}
		maxLen := 2
		if c.Tier == "thorough" {
			maxLen = 3
		}
		var rec func(h []int)
		rec = func(h []int) {
			if len(h) > 0 {
				ccs, pk := fresh()
				var names []string
				for k, ci := range h {
					var got string
					controlled(func() { got = calls[ci].run(ccs, pk) })
					names = append(names, calls[ci].name)
					c.Evals.Add(1)
					if k == len(h)-1 {
						c.Outcome("history:" + builder + ":" + got)
						if got != alone[ci] {
							c.Violation(fmt.Sprintf("c10:history:%s:%s", builder, strings.Join(names, ";")), map[string]any{"builder": builder, "history": names, "last_call_returned": got, "alone_on_fresh_object": alone[ci]})
						}
					}
				}
				c.Traces.Add(1)
				c.States.Add(1)
			}
			if len(h) == maxLen || c.Expired() {
				return
			}
			for i := range calls {
				rec(append(append([]int(nil), h...), i))
			}
		}
		rec(nil)
	}
	c.Sample(map[string]any{"histories": "all sequences of length<=2 (quick) / 3 (thorough) over Solve/Prove x {w1,w2,bad,oob} on one shared lookup-table system"})
	_ = bytes.Equal
}
