package main

import (
	"reflect"

	"github.com/consensys/gnark/frontend"
)

var tVar = reflect.ValueOf(struct{ A frontend.Variable }{}).FieldByName("A").Type()
