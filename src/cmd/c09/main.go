// C09: serialized artifacts decode to objects that behave identically.  Enumerated product:
// objects {constraint system, proving key, verifying key, proof, witness} x encodings x
// encode/decode chains of length 1 and 2 x cross-use of original and decoded objects.
package main

import (
	"bytes"
	"crypto/sha256"
	"fmt"
	"io"
	"math/big"

	"github.com/consensys/gnark-crypto/ecc"
	"github.com/consensys/gnark/backend/groth16"
	"github.com/consensys/gnark/backend/plonk"
	"github.com/consensys/gnark/backend/witness"
	"github.com/consensys/gnark/constraint"
	cs_babybear "github.com/consensys/gnark/constraint/babybear"
	cs_koalabear "github.com/consensys/gnark/constraint/koalabear"
	"github.com/consensys/gnark/constraint/solver"
	cs_tiny "github.com/consensys/gnark/constraint/tinyfield"
	"github.com/consensys/gnark/frontend"
	"github.com/consensys/gnark/frontend/cs/r1cs"
	"github.com/consensys/gnark/frontend/cs/scs"
	"github.com/consensys/gnark/frontend/schema"
	"github.com/consensys/gnark/internal/verifh/bk"
	"github.com/consensys/gnark/internal/verifh/bkcat"
	"github.com/consensys/gnark/internal/verifh/circ"
	"github.com/consensys/gnark/internal/verifh/gkrreg"
	"github.com/consensys/gnark/internal/verifh/hintenv"
	"github.com/consensys/gnark/internal/verifh/ops"
	"github.com/consensys/gnark/internal/verifh/refsolve"
	"github.com/consensys/gnark/internal/verifh/vh"
	gnarkio "github.com/consensys/gnark/io"
	"github.com/consensys/gnark/logger"
	"github.com/consensys/gnark/std/gkr"
	"github.com/consensys/gnark/std/lookup/logderivlookup"
	"github.com/consensys/gnark/std/rangecheck"
	"github.com/consensys/gnark/test/unsafekzg"
)

var sentinel = []byte{0xAB, 0xCD, 0xEF, 0x01, 0x23, 0x45, 0x67}

type codec struct {
	name string
	enc  func(o any, w io.Writer) (int64, error) // n < 0: the encoding does not report a count
	dec  func(o any, r io.Reader) (int64, error)
	ok   func(o any) bool
}

func codecs() []codec {
	return []codec{
		{"WriteTo/ReadFrom", func(o any, w io.Writer) (int64, error) { return o.(io.WriterTo).WriteTo(w) }, func(o any, r io.Reader) (int64, error) { return o.(io.ReaderFrom).ReadFrom(r) },
			func(o any) bool { _, a := o.(io.WriterTo); _, b := o.(io.ReaderFrom); return a && b }},
		{"WriteRawTo/ReadFrom", func(o any, w io.Writer) (int64, error) { return o.(gnarkio.WriterRawTo).WriteRawTo(w) }, func(o any, r io.Reader) (int64, error) { return o.(io.ReaderFrom).ReadFrom(r) },
			func(o any) bool { _, a := o.(gnarkio.WriterRawTo); _, b := o.(io.ReaderFrom); return a && b }},
		{"WriteTo/UnsafeReadFrom", func(o any, w io.Writer) (int64, error) { return o.(io.WriterTo).WriteTo(w) }, func(o any, r io.Reader) (int64, error) { return o.(gnarkio.UnsafeReaderFrom).UnsafeReadFrom(r) },
			func(o any) bool { _, a := o.(io.WriterTo); _, b := o.(gnarkio.UnsafeReaderFrom); return a && b }},
		{"WriteRawTo/UnsafeReadFrom", func(o any, w io.Writer) (int64, error) { return o.(gnarkio.WriterRawTo).WriteRawTo(w) }, func(o any, r io.Reader) (int64, error) { return o.(gnarkio.UnsafeReaderFrom).UnsafeReadFrom(r) },
			func(o any) bool { _, a := o.(gnarkio.WriterRawTo); _, b := o.(gnarkio.UnsafeReaderFrom); return a && b }},
		{"WriteDump/ReadDump", func(o any, w io.Writer) (int64, error) { return -1, o.(gnarkio.BinaryDumper).WriteDump(w) }, func(o any, r io.Reader) (int64, error) { return -1, o.(gnarkio.BinaryDumper).ReadDump(r) },
			func(o any) bool { _, a := o.(gnarkio.BinaryDumper); return a }},
	}
}

// roundTrips runs every applicable codec with chains of length 1 and 2 on one object and
// returns the decoded variants (name -> object).
func roundTrips(c *vh.Check, what string, obj any, fresh func() any) map[string]any {
	out := map[string]any{}
	for _, cd := range codecs() {
		if !cd.ok(obj) {
			continue
		}
		key := func(s string) string { return fmt.Sprintf("c09:%s:%s:%s", what, cd.name, s) }
		cur := obj
		var firstBytes []byte
		for chain := 1; chain <= 2; chain++ {
			var buf bytes.Buffer
			var n int64
			var err error
			pan := vh.Recover(func() { n, err = cd.enc(cur, &buf) })
			c.Evals.Add(1)
			if pan != "" || err != nil {
				c.Violation(key("encode-failed"), map[string]any{"object": what, "codec": cd.name, "chain": chain, "error": fmt.Sprint(err), "panic": pan})
				break
			}
			if n >= 0 && n != int64(buf.Len()) {
				c.Violation(key("written-count"), map[string]any{"object": what, "codec": cd.name, "reported": n, "actually_written": buf.Len()})
			}
			if chain == 1 {
				firstBytes = append([]byte(nil), buf.Bytes()...)
			} else if !bytes.Equal(firstBytes, buf.Bytes()) {
				c.Violation(key("re-encoding-differs"), map[string]any{"object": what, "codec": cd.name, "len_first": len(firstBytes), "len_second": buf.Len(), "first_difference": firstDiff(firstBytes, buf.Bytes())})
			}
			stream := bytes.NewReader(append(append([]byte(nil), buf.Bytes()...), sentinel...))
			dst := fresh()
			var m int64
			pan = vh.Recover(func() { m, err = cd.dec(dst, stream) })
			if pan != "" || err != nil {
				c.Violation(key("decode-failed"), map[string]any{"object": what, "codec": cd.name, "chain": chain, "error": fmt.Sprint(err), "panic": pan})
				break
			}
			consumed := int64(buf.Len()+len(sentinel)) - int64(stream.Len())
			if m >= 0 && m != int64(buf.Len()) {
				c.Violation(key("read-count"), map[string]any{"object": what, "codec": cd.name, "reported": m, "encoded_length": buf.Len()})
			}
			if consumed != int64(buf.Len()) {
				c.Violation(key("consumed-count"), map[string]any{"object": what, "codec": cd.name, "consumed_from_stream": consumed, "encoded_length": buf.Len()})
			}
			c.Traces.Add(1)
			c.Outcome("c09:roundtrip:" + cd.name + ":ok")
			cur = dst
			if chain == 1 {
				out[cd.name] = dst
			}
		}
	}
	return out
}

func firstDiff(a, b []byte) int {
	for i := 0; i < len(a) && i < len(b); i++ {
		if a[i] != b[i] {
			return i
		}
	}
	return min(len(a), len(b))
}

// extra circuits covering instruction / metadata kinds beyond the backend catalogue
func extraCases() []bk.Case {
	B := bk.Big
	return []bk.Case{
		{Name: "hints+logs", NP: 1, NS: 2, Def: func(api frontend.API, p, s []frontend.Variable) error {
			h, err := api.Compiler().NewHint(ops.DoubleHint, 1, s[0])
			if err != nil {
				return err
			}
			api.Println("h =", h[0], "s1 =", s[1])
			api.AssertIsEqual(h[0], api.Mul(s[0], 2))
			api.AssertIsEqual(api.Add(h[0], api.Mul(s[1], s[1])), p[0])
			api.AssertIsBoolean(api.IsZero(s[1]))
			return nil
		}, Valid: [][2][]*big.Int{{B(6 + 16), B(3, 4)}, {B(0), B(0, 0)}}, Invalid: [][2][]*big.Int{{B(23), B(3, 4)}}},
		{Name: "lookup+rangecheck", NP: 1, NS: 3, NbCommit: 1, Def: func(api frontend.API, p, s []frontend.Variable) error {
			t := logderivlookup.New(api)
			t.Insert(s[0])
			t.Insert(api.Add(s[1], 1))
			t.Insert(7)
			r := t.Lookup(s[2])
			rangecheck.New(api).Check(s[0], 9)
			api.AssertIsEqual(api.Add(r[0], s[0]), p[0])
			return nil
		}, Valid: [][2][]*big.Int{{B(10), B(5, 4, 1)}, {B(12), B(5, 4, 2)}}, Invalid: [][2][]*big.Int{{B(10), B(5, 4, 3)}, {B(1029), B(1024, 4, 1)}}},
		{Name: "gkr", NP: 0, NS: 4, NbCommit: 1, Def: func(api frontend.API, p, s []frontend.Variable) error {
			g := gkr.NewApi()
			x, err := g.Import(s[:2])
			if err != nil {
				return err
			}
			y, err := g.Import(s[2:4])
			if err != nil {
				return err
			}
			z := g.Mul(g.Add(x, y), x)
			sol, err := g.Solve(api)
			if err != nil {
				return err
			}
			Z := sol.Export(z)
			for i := range Z {
				api.AssertIsEqual(Z[i], api.Mul(api.Add(s[i], s[2+i]), s[i]))
			}
			return sol.Verify(gkrreg.Name)
		}, Valid: [][2][]*big.Int{{B(), B(1, 2, 3, 4)}, {B(), B(0, 5, 7, 0)}}},
	}
}

func solHash(ccs constraint.ConstraintSystem, w witness.Witness) string {
	var opts []solver.Option
	for id, h := range hintenv.Det() {
		opts = append(opts, solver.OverrideHint(id, h))
	}
	var sol any
	var err error
	pan := vh.Recover(func() { sol, err = ccs.Solve(w, opts...) })
	if pan != "" {
		return "panic"
	}
	if err != nil {
		return "error"
	}
	h := sha256.New()
	parts := refsolve.SolutionParts(sol)
	for _, k := range []string{"W", "A", "B", "C", "L", "R", "O"} {
		for _, x := range parts[k] {
			h.Write(x.Bytes())
			h.Write([]byte{0})
		}
	}
	return fmt.Sprintf("%x", h.Sum(nil)[:10])
}

func main() {
	c := vh.New("C09")
	logger.Disable()
	c.Rule("for every (curve, circuit covering generic/specialised gates, hints, logs, lookup blueprint, range checks, commitments, GKR metadata) x {R1CS+Groth16, sparse R1CS+PLONK}: every object (constraint system, proving key, verifying key, proof, full and public witness) x every encoding it offers (WriteTo, WriteRawTo, UnsafeReadFrom, WriteDump/ReadDump, witness binary+JSON) x chains of length 1 and 2: written count = bytes written = read count = bytes consumed from a stream with trailing sentinel bytes; re-encoding reproduces the same bytes; decoded systems solve every valid/invalid witness to the same solution bytes; and the full cross-use product {original, decoded...} system x proving key x proof encoding x verifying key proves and verifies, rejecting a tampered public input. distinct = (object, encoding, verdict).")
	c.Assume("Setup randomness irrelevant to the verdicts; unsafekzg SRS")
	cases := append(bkcat.Cases(), extraCases()...)
	curves := []ecc.ID{ecc.BN254, ecc.BLS12_377, ecc.BLS12_381, ecc.BLS24_315, ecc.BLS24_317, ecc.BW6_633, ecc.BW6_761}
	if c.Quick() {
		curves = curves[:2] // bn254, bls12-377 (thorough: all 7)
	}
	type job struct {
		cse bk.Case
		cv  ecc.ID
		be  string
	}
	var jobs []job
	for _, cse := range cases {
		for _, cv := range curves {
			for _, be := range []string{"groth16", "plonk"} {
				jobs = append(jobs, job{cse, cv, be})
			}
		}
	}
	ok := c.Par(len(jobs), func(i int) { runJob(c, jobs[i].cse, jobs[i].cv, jobs[i].be) })
	if !ok {
		c.Cap("internal deadline in C09 product")
	}
	smallFields(c)
	largeSystems(c)
	c.Finish()
}

// largeSystems: constraint systems whose serialized form contains LONG arrays (a 2^16-entry lookup
// table, 140 000 public inputs): a decoder-side size limit below what the encoder writes only shows
// on such objects.  Constraint-system round trips only (no keys, no proofs).
func largeSystems(c *vh.Check) {
	type bigCase struct {
		name   string
		np, ns int
		def    func(api frontend.API, p, s []frontend.Variable) error
		pub    func() []*big.Int
		sec    []*big.Int
	}
	cases := []bigCase{
		{name: "lookup-2^16-constants", np: 1, ns: 2, def: func(api frontend.API, p, s []frontend.Variable) error {
			t := logderivlookup.New(api)
			for i := 0; i < 1<<16; i++ {
				t.Insert(3*i + 1)
			}
			r := t.Lookup(s[0], s[1])
			api.AssertIsEqual(api.Add(r[0], r[1]), p[0])
			return nil
		}, pub: func() []*big.Int { return bk.Big(3*5 + 1 + 3*65535 + 1) }, sec: bk.Big(5, 65535)},
	}
	if !c.Quick() {
		cases = append(cases, bigCase{name: "140000-public-inputs", np: 140000, ns: 1, def: func(api frontend.API, p, s []frontend.Variable) error {
			api.AssertIsEqual(api.Mul(s[0], s[0]), p[0])
			api.AssertIsEqual(p[len(p)-1], p[len(p)-2])
			return nil
		}, pub: func() []*big.Int {
			v := make([]*big.Int, 140000)
			for i := range v {
				v[i] = big.NewInt(9)
			}
			return v
		}, sec: bk.Big(3)})
	}
	cv := ecc.BN254
	type jb struct {
		b  bigCase
		be string
	}
	var jobs []jb
	for _, b := range cases {
		for _, be := range []string{"groth16", "plonk"} {
			jobs = append(jobs, jb{b, be})
		}
	}
	c.Par(len(jobs), func(i int) {
		b, be := jobs[i].b, jobs[i].be
		builder := circ.R1CS
		if be == "plonk" {
			builder = circ.SCS
		}
		name := fmt.Sprintf("%s/%s/large:%s", be, cv, b.name)
		ccs, err, pan := circ.Compile(cv.ScalarField(), builder, circ.New(b.np, b.ns, b.def))
		if err != nil || pan != "" {
			c.Fatal("compile %s: %v %s", name, err, pan)
		}
		newCS := func() any {
			if be == "groth16" {
				return groth16.NewCS(cv)
			}
			return plonk.NewCS(cv)
		}
		w, err := circ.Witness(circ.Assign(b.pub(), b.sec), cv.ScalarField())
		if err != nil {
			c.Fatal("witness %s: %v", name, err)
		}
		want := solHash(ccs, w)
		if want == "error" || want == "panic" {
			c.Fatal("%s: the original system does not solve its witness (%s)", name, want)
		}
		for k, v := range roundTrips(c, name+":cs", ccs, newCS) {
			if got := solHash(v.(constraint.ConstraintSystem), w); got != want {
				c.Violation(fmt.Sprintf("c09:%s:cs:%s:decoded-system-solves-differently", name, k), map[string]any{"object": name, "codec": k, "original": want, "decoded": got})
			}
		}
		c.Outcome("c09:large-system:" + b.name)
		c.Count("large-systems", name, 1)
	})
}

func runJob(c *vh.Check, cse bk.Case, cv ecc.ID, be string) {
	field := cv.ScalarField()
	name := fmt.Sprintf("%s/%s/%s", be, cv, cse.Name)
	builder := circ.R1CS
	if be == "plonk" {
		builder = circ.SCS
	}
	ccs, err, pan := circ.Compile(field, builder, circ.New(cse.NP, cse.NS, cse.Def))
	if err != nil || pan != "" {
		c.Fatal("compile %s: %v %s", name, err, pan)
	}
	// constraint system
	newCS := func() any {
		if be == "groth16" {
			return groth16.NewCS(cv)
		}
		return plonk.NewCS(cv)
	}
	csVars := map[string]constraint.ConstraintSystem{"original": ccs}
	for k, v := range roundTrips(c, name+":cs", ccs, newCS) {
		csVars["decoded:"+k] = v.(constraint.ConstraintSystem)
	}
	// witnesses
	var wits []witness.Witness
	var valid []bool
	for _, a := range cse.Valid {
		w, _ := circ.Witness(circ.Assign(a[0], a[1]), field)
		wits = append(wits, w)
		valid = append(valid, true)
	}
	for _, a := range cse.Invalid {
		w, _ := circ.Witness(circ.Assign(a[0], a[1]), field)
		wits = append(wits, w)
		valid = append(valid, false)
	}
	for wi, w := range wits {
		want := solHash(ccs, w)
		for vn, v := range csVars {
			got := solHash(v, w)
			c.Evals.Add(1)
			if got != want {
				c.Violation(fmt.Sprintf("c09:%s:cs:%s:solution-differs:w%d", name, vn, wi), map[string]any{"case": name, "system": vn, "witness": wi, "original": want, "decoded": got})
			}
		}
		checkWitness(c, name, w, wi, cse, field)
	}
	// keys and proofs
	w0 := wits[0]
	pub0, _ := w0.Public()
	var bad witness.Witness
	if cse.NP > 0 {
		a := cse.Valid[0]
		p2 := append([]*big.Int(nil), a[0]...)
		p2[0] = new(big.Int).Add(p2[0], big.NewInt(1))
		bw, _ := circ.Witness(circ.Assign(p2, a[1]), field)
		bad, _ = bw.Public()
	}
	if be == "groth16" {
		pk, vk, err := groth16.Setup(ccs)
		if err != nil {
			c.Fatal("setup %s: %v", name, err)
		}
		pks := map[string]groth16.ProvingKey{"original": pk}
		for k, v := range roundTrips(c, name+":pk", pk, func() any { return groth16.NewProvingKey(cv) }) {
			pks["decoded:"+k] = v.(groth16.ProvingKey)
		}
		vks := map[string]groth16.VerifyingKey{"original": vk}
		for k, v := range roundTrips(c, name+":vk", vk, func() any { return groth16.NewVerifyingKey(cv) }) {
			vks["decoded:"+k] = v.(groth16.VerifyingKey)
		}
		first := true
		for cn, cv2 := range csVars {
			for pn, pkv := range pks {
				proof, err := groth16.Prove(cv2, pkv, w0)
				c.Evals.Add(1)
				if err != nil {
					c.Violation(fmt.Sprintf("c09:%s:prove-failed:cs=%s:pk=%s", name, cn, pn), map[string]any{"case": name, "system": cn, "pk": pn, "error": err.Error()})
					continue
				}
				proofs := map[string]groth16.Proof{"original": proof}
				if first {
					for k, v := range roundTrips(c, name+":proof", proof, func() any { return groth16.NewProof(cv) }) {
						proofs["decoded:"+k] = v.(groth16.Proof)
					}
					first = false
				} else {
					var buf bytes.Buffer
					proof.WriteTo(&buf)
					p2 := groth16.NewProof(cv)
					p2.ReadFrom(&buf)
					proofs["decoded:WriteTo/ReadFrom"] = p2
				}
				for prn, pr := range proofs {
					for vn, vkv := range vks {
						err := groth16.Verify(pr, vkv, pub0)
						c.Traces.Add(1)
						if err != nil {
							c.Violation(fmt.Sprintf("c09:%s:cross-use:cs=%s:pk=%s:proof=%s:vk=%s", name, cn, pn, prn, vn), map[string]any{"case": name, "system": cn, "pk": pn, "proof": prn, "vk": vn, "error": err.Error()})
						} else {
							c.Outcome("c09:cross-use:groth16:accepted")
						}
						if bad != nil {
							if groth16.Verify(pr, vkv, bad) == nil {
								c.Violation(fmt.Sprintf("c09:%s:tampered-accepted:vk=%s", name, vn), map[string]any{"case": name, "vk": vn})
							} else {
								c.Outcome("c09:cross-use:groth16:tampered-rejected")
							}
						}
					}
				}
			}
		}
	} else {
		if ccs.GetNbConstraints()+ccs.GetNbPublicVariables() < 2 {
			return
		}
		srs, srsL, err := unsafekzg.NewSRS(ccs)
		if err != nil {
			c.Fatal("srs: %v", err)
		}
		pk, vk, err := plonk.Setup(ccs, srs, srsL)
		if err != nil {
			c.Fatal("setup %s: %v", name, err)
		}
		pks := map[string]plonk.ProvingKey{"original": pk}
		for k, v := range roundTrips(c, name+":pk", pk, func() any { return plonk.NewProvingKey(cv) }) {
			pks["decoded:"+k] = v.(plonk.ProvingKey)
		}
		vks := map[string]plonk.VerifyingKey{"original": vk}
		for k, v := range roundTrips(c, name+":vk", vk, func() any { return plonk.NewVerifyingKey(cv) }) {
			vks["decoded:"+k] = v.(plonk.VerifyingKey)
		}
		first := true
		for cn, cv2 := range csVars {
			for pn, pkv := range pks {
				proof, err := plonk.Prove(cv2, pkv, w0)
				c.Evals.Add(1)
				if err != nil {
					c.Violation(fmt.Sprintf("c09:%s:prove-failed:cs=%s:pk=%s", name, cn, pn), map[string]any{"case": name, "system": cn, "pk": pn, "error": err.Error()})
					continue
				}
				proofs := map[string]plonk.Proof{"original": proof}
				if first {
					for k, v := range roundTrips(c, name+":proof", proof, func() any { return plonk.NewProof(cv) }) {
						proofs["decoded:"+k] = v.(plonk.Proof)
					}
					first = false
				}
				for prn, pr := range proofs {
					for vn, vkv := range vks {
						err := plonk.Verify(pr, vkv, pub0)
						c.Traces.Add(1)
						if err != nil {
							c.Violation(fmt.Sprintf("c09:%s:cross-use:cs=%s:pk=%s:proof=%s:vk=%s", name, cn, pn, prn, vn), map[string]any{"case": name, "system": cn, "pk": pn, "proof": prn, "vk": vn, "error": err.Error()})
						} else {
							c.Outcome("c09:cross-use:plonk:accepted")
						}
						if bad != nil {
							if plonk.Verify(pr, vkv, bad) == nil {
								c.Violation(fmt.Sprintf("c09:%s:tampered-accepted:vk=%s", name, vn), map[string]any{"case": name, "vk": vn})
							} else {
								c.Outcome("c09:cross-use:plonk:tampered-rejected")
							}
						}
					}
				}
			}
		}
	}
	if cse.Name == "commit-two" && cv == ecc.BN254 {
		c.Sample(map[string]any{"case": name, "system_variants": len(csVars), "witnesses": len(wits)})
	}
}

// checkWitness: binary and JSON encodings of the full and the public witness round-trip to the same vector.
func checkWitness(c *vh.Check, name string, w witness.Witness, wi int, cse bk.Case, field *big.Int) {
	pubW, _ := w.Public()
	for kind, x := range map[string]witness.Witness{"full": w, "public": pubW} {
		what := fmt.Sprintf("%s:witness-%s%d", name, kind, wi)
		rt := roundTrips(c, what, x, func() any { n, _ := witness.New(field); return n })
		for cn, d := range rt {
			if fmt.Sprint(d.(witness.Witness).Vector()) != fmt.Sprint(x.Vector()) {
				c.Violation("c09:"+what+":"+cn+":vector-differs", map[string]any{"witness": what, "codec": cn})
			}
		}
		// MarshalBinary / UnmarshalBinary
		b, err := x.MarshalBinary()
		y, _ := witness.New(field)
		if err == nil {
			err = y.UnmarshalBinary(b)
		}
		if err != nil || fmt.Sprint(y.Vector()) != fmt.Sprint(x.Vector()) {
			c.Violation("c09:"+what+":MarshalBinary", map[string]any{"witness": what, "error": fmt.Sprint(err)})
		}
		// JSON through the circuit schema
		sch, err := schema.New(circ.New(cse.NP, cse.NS, nil), tVar)
		if err != nil {
			c.Fatal("schema: %v", err)
		}
		js, err := x.ToJSON(sch)
		c.Evals.Add(1)
		if err != nil {
			c.Violation("c09:"+what+":ToJSON", map[string]any{"witness": what, "error": err.Error()})
			continue
		}
		z, _ := witness.New(field)
		if err := z.FromJSON(sch, js); err != nil {
			c.Violation("c09:"+what+":FromJSON", map[string]any{"witness": what, "error": err.Error(), "json": string(js)})
			continue
		}
		if fmt.Sprint(z.Vector()) != fmt.Sprint(x.Vector()) {
			c.Violation("c09:"+what+":json-vector-differs", map[string]any{"witness": what, "json": string(js), "got": fmt.Sprint(z.Vector()), "want": fmt.Sprint(x.Vector())})
		}
		js2, _ := z.ToJSON(sch)
		if !bytes.Equal(js, js2) {
			c.Violation("c09:"+what+":json-re-encoding-differs", map[string]any{"witness": what})
		}
		c.Outcome("c09:witness:" + kind + ":ok")
	}
}

// smallFields: constraint systems and witnesses over tinyfield / babybear / koalabear.
func smallFields(c *vh.Check) {
	type sf struct {
		name  string
		field *big.Int
		newR  func() any
		newS  func() any
	}
	fields := []sf{
		// like groth16.NewCS / plonk.NewCS: decode into the zero value (NewR1CS is the frontend's constructor)
		{"tinyfield", circ.P47, func() any { return new(cs_tiny.R1CS) }, func() any { return new(cs_tiny.SparseR1CS) }},
		{"babybear", big.NewInt(2013265921), func() any { return new(cs_babybear.R1CS) }, func() any { return new(cs_babybear.SparseR1CS) }},
		{"koalabear", big.NewInt(2130706433), func() any { return new(cs_koalabear.R1CS) }, func() any { return new(cs_koalabear.SparseR1CS) }},
	}
	cse := extraCases()[0]
	for _, f := range fields {
		for _, b := range []string{circ.R1CS, circ.SCS} {
			name := "smallfield/" + f.name + "/" + b
			var ccs constraint.ConstraintSystemU32
			var err error
			if b == circ.R1CS {
				ccs, err = frontend.CompileU32(f.field, r1cs.NewBuilder, circ.New(cse.NP, cse.NS, cse.Def))
			} else {
				ccs, err = frontend.CompileU32(f.field, scs.NewBuilder, circ.New(cse.NP, cse.NS, cse.Def))
			}
			if err != nil {
				c.Fatal("compile %s: %v", name, err)
			}
			fresh := f.newR
			if b == circ.SCS {
				fresh = f.newS
			}
			vars := roundTrips(c, name+":cs", ccs, fresh)
			for wi, a := range append(append([][2][]*big.Int(nil), cse.Valid...), cse.Invalid...) {
				// the catalogue values are chosen for large fields; reduce into the small field and recompute the public value
				s0, s1 := new(big.Int).Mod(a[1][0], f.field), new(big.Int).Mod(a[1][1], f.field)
				pv := new(big.Int).Mod(new(big.Int).Add(new(big.Int).Lsh(s0, 1), new(big.Int).Mul(s1, s1)), f.field)
				if wi >= len(cse.Valid) {
					pv.Add(pv, big.NewInt(1)).Mod(pv, f.field)
				}
				w, err := circ.Witness(circ.Assign([]*big.Int{pv}, []*big.Int{s0, s1}), f.field)
				if err != nil {
					c.Fatal("witness: %v", err)
				}
				solve := func(s constraint.ConstraintSystemU32) string {
					var sol any
					var err error
					pan := vh.Recover(func() { sol, err = s.Solve(w) })
					if pan != "" || err != nil {
						return "error"
					}
					return fmt.Sprint(refsolve.SolutionParts(sol))
				}
				want := solve(ccs)
				c.Outcome("c09:smallfield:" + want[:5])
				for vn, v := range vars {
					c.Evals.Add(1)
					if got := solve(v.(constraint.ConstraintSystemU32)); got != want {
						c.Violation(fmt.Sprintf("c09:%s:%s:solution-differs:w%d", name, vn, wi), map[string]any{"case": name, "codec": vn})
					}
				}
				checkWitness(c, name, w, wi, cse, f.field)
			}
		}
	}
}
