// C08: decoders and verifiers of untrusted data return errors, never crash.
package main

import (
	"github.com/consensys/gnark/internal/verifh/bk"
	_ "github.com/consensys/gnark/internal/verifh/bkall"
	"github.com/consensys/gnark/internal/verifh/bkcat"
	"github.com/consensys/gnark/internal/verifh/vh"
	"github.com/consensys/gnark/logger"
)

func main() {
	c := vh.New("C08")
	logger.Disable()
	c.Rule("environment = the bytes and objects an untrusted prover sends. From genuine Groth16 and PLONK proofs and public witnesses (catalogue circuits, each curve): EVERY prefix of every encoding, every single-byte substitution (quick: 4 values per position; thorough: all 255), every rewrite of every list-length field with and without matching payload, every list length 0..n+2 re-encoded, every witness header (nbPublic, nbSecret, length) combination from the alphabet, and pairs proof edit x witness edit; each is decoded with ReadFrom / UnmarshalBinary (with and without Witness.Public()) and handed to the generic Verify. Oracle: no panic; verdict equals the reference verifier (Groth16) or 'only the genuine pair' (PLONK); structurally inconsistent objects yield an error. distinct = (input class, outcome).")
	c.Assume("length prefixes above 2^20 are not in the alphabet (allocation inside gnark-crypto decoders is a resource question, not the panic property)")
	cases := bkcat.Cases()
	for _, id := range bk.Curves(c.Quick()) {
		if !c.Want(id.String()) {
			continue
		}
		bk.Kits[id].Run["c08"](c, bk.CasesFor(id, c.Quick(), cases, 1))
	}
	c.Finish()
}
