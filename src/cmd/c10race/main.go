// c10race: AUXILIARY free-running pass for C10 (never the deciding step): the same scenario
// bodies as src/cmd/c10 run natively (no instrumentation, real goroutines) under the Go race
// detector.  The controlled scheduler serialises threads at synchronisation operations, which
// is only sufficient if there are no unsynchronised conflicting accesses below that granularity;
// this pass reports them.  Output: one line per scenario; the race reports go to GORACE log_path.
package main

import (
	"crypto/sha256"
	"fmt"
	"math/big"
	"os"
	"sync"

	"github.com/consensys/gnark-crypto/ecc"
	"github.com/consensys/gnark/backend"
	"github.com/consensys/gnark/backend/groth16"
	"github.com/consensys/gnark/backend/plonk"
	"github.com/consensys/gnark/backend/witness"
	"github.com/consensys/gnark/constraint"
	"github.com/consensys/gnark/constraint/solver"
	"github.com/consensys/gnark/frontend"
	"github.com/consensys/gnark/internal/verifh/circ"
	"github.com/consensys/gnark/internal/verifh/hintenv"
	"github.com/consensys/gnark/logger"
	"github.com/consensys/gnark/std/lookup/logderivlookup"
	"github.com/consensys/gnark/test/unsafekzg"
)

var field = ecc.BN254.ScalarField()

func wit(pub, sec []int64) witness.Witness {
	bp, bs := make([]*big.Int, len(pub)), make([]*big.Int, len(sec))
	for i := range pub {
		bp[i] = big.NewInt(pub[i])
	}
	for i := range sec {
		bs[i] = big.NewInt(sec[i])
	}
	w, err := circ.Witness(circ.Assign(bp, bs), field)
	if err != nil {
		panic(err)
	}
	return w
}

func compile(b string, c frontend.Circuit) constraint.ConstraintSystem {
	ccs, err, pan := circ.Compile(field, b, c)
	if err != nil || pan != "" {
		panic(fmt.Sprint(err, pan))
	}
	return ccs
}

func par(n int, f func(i int)) {
	var wg sync.WaitGroup
	for i := 0; i < n; i++ {
		wg.Add(1)
		go func(i int) { defer wg.Done(); defer func() { recover() }(); f(i) }(i)
	}
	wg.Wait()
}

func main() {
	logger.Disable()
	reps := 30
	var det []solver.Option
	for id, h := range hintenv.Det() {
		det = append(det, solver.OverrideHint(id, h))
	}
	lookup := circ.New(1, 4, func(api frontend.API, p, s []frontend.Variable) error {
		t := logderivlookup.New(api)
		t.Insert(s[0])
		t.Insert(api.Add(s[1], 1))
		t.Insert(7)
		r := t.Lookup(s[2], s[3])
		api.AssertIsEqual(api.Add(r[0], r[1]), p[0])
		return nil
	})
	commit := circ.New(1, 2, func(api frontend.API, p, s []frontend.Variable) error {
		cm, err := api.(frontend.Committer).Commit(s[0], p[0])
		if err != nil {
			return err
		}
		api.AssertIsDifferent(cm, s[1])
		api.AssertIsEqual(api.Mul(s[0], s[1]), p[0])
		return nil
	})
	ws := []witness.Witness{wit([]int64{12}, []int64{5, 6, 0, 1}), wit([]int64{16}, []int64{9, 10, 2, 0})}
	for _, b := range []string{circ.R1CS, circ.SCS} {
		ccs := compile(b, lookup)
		for r := 0; r < reps; r++ {
			par(2, func(i int) { ccs.Solve(ws[i], det...) })
		}
		fmt.Println("scenario S1 solve||solve lookup", b, "done")
	}
	cw := []witness.Witness{wit([]int64{6}, []int64{2, 3}), wit([]int64{20}, []int64{4, 5})}
	{
		ccs := compile(circ.R1CS, commit)
		pk, vk, _ := groth16.Setup(ccs)
		shared := make([]solver.Option, 0, 8)
		shared = append(shared, solver.WithNbTasks(2))
		var proofs [2]groth16.Proof
		for r := 0; r < reps; r++ {
			par(2, func(i int) { proofs[i], _ = groth16.Prove(ccs, pk, cw[i], backend.WithSolverOptions(shared...)) })
		}
		fmt.Println("scenario S2 prove||prove groth16 shared option slice done")
		h := sha256.New()
		p0, _ := groth16.Prove(ccs, pk, cw[0], backend.WithProverHashToFieldFunction(sha256.New()))
		p1, _ := groth16.Prove(ccs, pk, cw[1], backend.WithProverHashToFieldFunction(sha256.New()))
		ps := []groth16.Proof{p0, p1}
		vopt := backend.WithVerifierHashToFieldFunction(h)
		for r := 0; r < reps; r++ {
			par(2, func(i int) { pw, _ := cw[i].Public(); groth16.Verify(ps[i], vk, pw, vopt) })
		}
		fmt.Println("scenario S4 verify||verify shared hash option done")
	}
	{
		ccs := compile(circ.SCS, commit)
		srs, srsL, _ := unsafekzg.NewSRS(ccs)
		pk, _, _ := plonk.Setup(ccs, srs, srsL)
		shared := make([]solver.Option, 0, 8)
		shared = append(shared, solver.WithNbTasks(2))
		for r := 0; r < reps; r++ {
			par(2, func(i int) { plonk.Prove(ccs, pk, cw[i], backend.WithSolverOptions(shared...)) })
		}
		fmt.Println("scenario S2 prove||prove plonk shared option slice done")
	}
	os.Exit(0)
}
