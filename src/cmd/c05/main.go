// C05: the constraints emitted for each API operation admit exactly the documented relation.
// Decided by explicit-state search (satmc) over F_47 on the systems the real compiler emits.
package main

import (
	"fmt"
	"math/big"
	"sort"
	"strconv"
	"strings"

	"github.com/consensys/gnark/constraint"
	cs_tiny "github.com/consensys/gnark/constraint/tinyfield"
	"github.com/consensys/gnark/frontend"
	"github.com/consensys/gnark/internal/verifh/circ"
	"github.com/consensys/gnark/internal/verifh/ops"
	"github.com/consensys/gnark/internal/verifh/satmc"
	"github.com/consensys/gnark/internal/verifh/vh"
	"github.com/consensys/gnark/logger"
)

var boundary = []int{0, 1, 2, 3, 22, 23, 24, 31, 32, 45, 46}
var consts = []int{0, 1, 2, 46, 23}

type task struct {
	op      ops.Op
	pat     []string
	builder string
}

func patterns(n int, quick bool) [][]string {
	var out [][]string
	kinds := []string{"S", "D"}
	for _, c := range consts {
		kinds = append(kinds, "C"+strconv.Itoa(c))
	}
	all := func(k string) []string {
		p := make([]string, n)
		for i := range p {
			p[i] = k
		}
		return p
	}
	out = append(out, all("S"), all("P"))
	if n >= 2 {
		out = append(out, all("D"))
		a := all("S")
		a[1] = "A"
		out = append(out, a)
	}
	if n <= 2 {
		var rec func(p []string)
		rec = func(p []string) {
			if len(p) == n {
				nc, ns := 0, 0
				for _, k := range p {
					if k[0] == 'C' {
						nc++
					}
					if k == "S" {
						ns++
					}
				}
				if nc == n || ns == n || (n >= 2 && nc == 0 && ns == 0) {
					return
				}
				out = append(out, append([]string(nil), p...))
				return
			}
			for _, k := range kinds {
				rec(append(p, k))
			}
		}
		rec(nil)
	} else {
		for i := 0; i < n; i++ {
			for _, k := range kinds[1:] {
				p := all("S")
				p[i] = k
				out = append(out, p)
			}
		}
		// two constants at once (exercises constant folding of partial products)
		if n == 3 {
			for i := 0; i < n; i++ {
				for _, c1 := range []string{"C0", "C1", "C2"} {
					for _, c2 := range []string{"C0", "C1", "C46"} {
						p := all("S")
						p[(i+1)%3] = c1
						p[(i+2)%3] = c2
						out = append(out, p)
					}
				}
			}
		}
	}
	return out
}

func main() {
	c := vh.New("C05")
	logger.Disable()
	c.Rule("for each (operation, operand-kind pattern, builder) the circuit AssertIsEqual(op(X..),Z..) is compiled over F_47 by the real compiler; for every input tuple x the explicit-state search enumerates all assignments of every other wire and yields S(x)={z satisfiable}; S(x) must equal the documented relation. A case is non-trivial/distinct per (operation,pattern,builder,verdict-class).")
	c.Assume("constraints read through the exported GetR1Cs/GetSparseR1Cs accessors are the ones the backends prove (C01/C02 setup-structure checks cover that link)",
		"F_47 exhausts algebraic gadgets only; hint-substitution over large fields is the second half of this check")
	all := ops.All(6)
	var tasks []task
	for _, op := range all {
		for _, pat := range patterns(op.NIn, c.Quick()) {
			for _, b := range []string{circ.R1CS, circ.SCS} {
				if op.SCSOnly && b == circ.R1CS {
					continue
				}
				if !c.Want(op.Name) {
					continue
				}
				tasks = append(tasks, task{op, pat, b})
			}
		}
	}
	// heavier tasks first for better packing
	sort.SliceStable(tasks, func(i, j int) bool { return weight(tasks[i]) > weight(tasks[j]) })
	done := c.Par(len(tasks), func(i int) { runTask(c, tasks[i]) })
	if !done {
		c.Cap("internal deadline reached before all (op,pattern,builder) tasks ran")
	}
	c.Extra("tasks", len(tasks))
	hintAdversary(c)
	c.Finish()
}

func weight(t task) int {
	w := 1
	switch {
	case strings.HasPrefix(t.op.Name, "Cmp"), t.op.Name == "AssertIsLessOrEqual":
		w = 100
	case strings.HasPrefix(t.op.Name, "ToBinaryFull"):
		w = 50
	case t.op.Name == "Lookup2":
		w = 80
	}
	return w
}

// operand values from an input tuple
func operands(pat []string, x []int) []*big.Int {
	in := make([]*big.Int, len(pat))
	xi := 0
	for k, kind := range pat {
		switch {
		case kind == "S" || kind == "P":
			in[k] = big.NewInt(int64(x[xi]))
			xi++
		case kind == "D":
			in[k] = big.NewInt(int64((2*x[xi] + 1) % 47))
			xi++
		case kind == "A":
			in[k] = in[k-1]
		default:
			v, _ := strconv.Atoi(kind[1:])
			in[k] = big.NewInt(int64(v))
		}
	}
	return in
}

func nvars(pat []string) (nv, np int) {
	for _, k := range pat {
		if k == "S" || k == "D" {
			nv++
		}
		if k == "P" {
			nv++
			np++
		}
	}
	return
}

func buildCircuit(t task) *circ.C {
	nv, np := nvars(t.pat)
	op := t.op
	return circ.New(np, nv-np+op.NOut, func(api frontend.API, p, s []frontend.Variable) error {
		in := make([]frontend.Variable, len(t.pat))
		si, pi := 0, 0
		for k, kind := range t.pat {
			switch {
			case kind == "S":
				in[k] = s[si]
				si++
			case kind == "P":
				in[k] = p[pi]
				pi++
			case kind == "D":
				in[k] = api.Add(api.Mul(s[si], 2), 1)
				si++
			case kind == "A":
				in[k] = in[k-1]
			default:
				v, _ := strconv.Atoi(kind[1:])
				in[k] = v
			}
		}
		out := op.Build(api, in)
		for i, o := range out {
			api.AssertIsEqual(o, s[si+i])
		}
		return nil
	})
}

func tuples(nv int) [][]int {
	var out [][]int
	switch {
	case nv == 0:
		out = append(out, []int{})
	case nv == 1:
		for a := 0; a < 47; a++ {
			out = append(out, []int{a})
		}
	case nv == 2:
		for a := 0; a < 47; a++ {
			for b := 0; b < 47; b++ {
				out = append(out, []int{a, b})
			}
		}
	case nv == 3:
		for _, a := range boundary {
			for _, b := range boundary {
				for _, d := range boundary {
					out = append(out, []int{a, b, d})
				}
			}
		}
	default:
		rest := [][]int{{5, 7, 11, 13, 17, 19}, {0, 0, 0, 0, 0, 0}, {46, 1, 46, 2, 3, 4}}
		for a := 0; a < 47; a++ {
			for b := 0; b < 47; b++ {
				for _, r := range rest {
					t := []int{a, b}
					t = append(t, r[:nv-2]...)
					out = append(out, t)
				}
			}
		}
	}
	return out
}

func runTask(c *vh.Check, t task) {
	name := fmt.Sprintf("%s/%s/%s", t.op.Name, strings.Join(t.pat, ""), t.builder)
	nv, np := nvars(t.pat)
	ci := buildCircuit(t)
	ccs, err, panicked := circ.CompileTiny(t.builder, ci, frontend.IgnoreUnconstrainedInputs())
	xs := tuples(nv)
	if err != nil || panicked != "" {
		// compile-time rejection: documented for constant operands that make the operation
		// unsatisfiable for every input; anything else is a completeness problem
		for _, x := range xs {
			r := t.op.Ref(circ.P47, operands(t.pat, x))
			// rejecting at compile time is the conservative direction; it contradicts the
			// documented relation only if some input has a *determinate* documented result
			// (the unconstrained 0/0 of DivUnchecked with a literal zero divisor does not)
			if r.Sat && !r.Free {
				c.Violation("compile-reject:"+name, map[string]any{"task": name, "error": fmt.Sprint(err, panicked), "satisfiable_input": x})
				break
			}
		}
		c.Outcome("compile-reject:" + t.op.Name)
		c.Evals.Add(1)
		return
	}
	var sys *satmc.Sys
	if t.builder == circ.R1CS {
		sys = satmc.FromR1CS[constraint.U32](ccs)
	} else {
		sys = satmc.FromSCS[constraint.U32](ccs)
	}
	wire := func(i int) int { // i-th variable / output in declaration order
		// variables: publics first (kinds P), then secrets in order, then outputs
		return -1
	}
	_ = wire
	// map variable index (order of appearance among S/D/P kinds) to wire
	var varWire []int
	si, pi := 0, 0
	for _, k := range t.pat {
		switch k {
		case "S", "D":
			varWire = append(varWire, circ.WireSec(t.builder, np, si))
			si++
		case "P":
			varWire = append(varWire, circ.WirePub(t.builder, pi))
			pi++
		}
	}
	var outWire []int
	for i := 0; i < t.op.NOut; i++ {
		outWire = append(outWire, circ.WireSec(t.builder, np, si+i))
	}
	var states, trans int64
	sampled := false
	for _, x := range xs {
		fixed := map[int]uint8{}
		for i, w := range varWire {
			fixed[w] = uint8(x[i])
		}
		res := sys.Search(fixed, outWire, 0)
		states += res.Stats.States
		trans += res.Stats.Transitions
		c.Evals.Add(1)
		if res.Stats.Capped {
			c.Cap("state cap hit in " + name)
			continue
		}
		ref := t.op.Ref(circ.P47, operands(t.pat, x))
		// validate every leaf with the independent big-int evaluator
		for _, full := range res.Tuples {
			if err := sys.Validate(full); err != nil {
				c.Fatal("satmc leaf failed validation in %s x=%v: %v", name, x, err)
			}
			c.Traces.Add(1)
		}
		got := make([]string, 0, len(res.Tuples))
		for k := range res.Tuples {
			got = append(got, fmtTuple(k))
		}
		sort.Strings(got)
		var want string
		class := "unsat"
		if ref.Sat {
			class = "sat"
			b := make([]byte, len(ref.Out))
			for i, o := range ref.Out {
				b[i] = byte(o.Int64())
			}
			want = fmtTuple(string(b))
		}
		if ref.Free {
			class = "free"
		}
		c.Outcome(t.op.Name + ":" + t.builder + ":" + class)
		bad := ""
		switch {
		case !ref.Sat && len(got) != 0:
			bad = "surplus"
		case ref.Sat && !ref.Free && (len(got) != 1 || got[0] != want):
			if len(got) == 0 {
				bad = "deficit"
			} else {
				bad = "surplus"
			}
		case ref.Free && !contains(got, want):
			bad = "deficit"
		}
		if bad != "" {
			c.Violation(fmt.Sprintf("%s:%s:x=%v", bad, name, x), map[string]any{"task": name, "x": x, "satisfiable_outputs": got, "documented": want, "documented_sat": ref.Sat,
				"replay": fmt.Sprintf("bin/c05 -only %s (pattern %s builder %s)", t.op.Name, strings.Join(t.pat, ""), t.builder)})
		}
		// conformance with the real solver: honest outputs solve and the produced assignment is a model path
		if ref.Sat {
			vals := make([]int, 0, len(x)+len(ref.Out))
			var pv, sv []int
			xi := 0
			for _, k := range t.pat {
				switch k {
				case "S", "D":
					sv = append(sv, x[xi])
					xi++
				case "P":
					pv = append(pv, x[xi])
					xi++
				}
			}
			for _, o := range ref.Out {
				sv = append(sv, int(o.Int64()))
			}
			_ = vals
			serr := solveTiny(ccs, pv, sv, sys, t.builder)
			if serr != "" {
				c.Violation(fmt.Sprintf("honest-unsolved:%s:x=%v", name, x), map[string]any{"task": name, "x": x, "error": serr})
			}
			c.Traces.Add(1)
			if !ref.Free && len(ref.Out) > 0 {
				sv[len(sv)-1] = (sv[len(sv)-1] + 1) % 47
				if serr := solveTiny(ccs, pv, sv, nil, t.builder); serr == "" {
					c.Violation(fmt.Sprintf("wrong-output-solved:%s:x=%v", name, x), map[string]any{"task": name, "x": x, "wrong_out": sv})
				}
			}
		}
		if !sampled && ref.Sat && len(x) > 0 && x[0] > 2 {
			sampled = true
			c.Sample(map[string]any{"task": name, "x": x, "S(x)": got, "documented": want, "states": res.Stats.States, "transitions": res.Stats.Transitions, "rows": len(sys.Cons), "wires": sys.NW})
		}
	}
	c.States.Add(states)
	c.Transitions.Add(trans)
	c.Count("searches", t.op.Name, int64(len(xs)))
}

func contains(l []string, s string) bool {
	for _, x := range l {
		if x == s {
			return true
		}
	}
	return false
}

func fmtTuple(k string) string {
	p := make([]string, len(k))
	for i := 0; i < len(k); i++ {
		if k[i] == 255 {
			p[i] = "*"
		} else {
			p[i] = strconv.Itoa(int(k[i]))
		}
	}
	return "(" + strings.Join(p, ",") + ")"
}

// solveTiny runs the real solver; when sys != nil the produced assignment is replayed against
// the model (every row must hold).  Returns "" on success.
func solveTiny(ccs constraint.ConstraintSystemU32, pv, sv []int, sys *satmc.Sys, builder string) string {
	w, err := circ.Witness(circ.AssignInts(pv, sv), circ.P47)
	if err != nil {
		return "witness: " + err.Error()
	}
	var sol any
	p := vh.Recover(func() { sol, err = ccs.Solve(w) })
	if p != "" {
		return "panic: " + p
	}
	if err != nil {
		return err.Error()
	}
	if sys == nil {
		return ""
	}
	full := make([]int16, sys.NW)
	for i := range full {
		full[i] = -1
	}
	switch s := sol.(type) {
	case *cs_tiny.R1CSSolution:
		if len(s.W) != sys.NW {
			return fmt.Sprintf("solution has %d wires, system %d", len(s.W), sys.NW)
		}
		for i := range s.W {
			full[i] = int16(s.W[i].Uint64())
		}
	case *cs_tiny.SparseR1CSSolution:
		npub := ccs.GetNbPublicVariables()
		set := func(w int, v int16) string {
			if full[w] >= 0 && full[w] != v {
				return fmt.Sprintf("wire %d has two values %d,%d", w, full[w], v)
			}
			full[w] = v
			return ""
		}
		for i, g := range sys.Cons {
			row := npub + i
			if e := set(g.XA, int16(s.L[row].Uint64())); e != "" {
				return e
			}
			if e := set(g.XB, int16(s.R[row].Uint64())); e != "" {
				return e
			}
			if e := set(g.XC, int16(s.O[row].Uint64())); e != "" {
				return e
			}
		}
	default:
		return fmt.Sprintf("unexpected solution type %T", sol)
	}
	if err := sys.Validate(full); err != nil {
		return "real solver's assignment is not a model path: " + err.Error()
	}
	return ""
}
