package main

import (
	"fmt"
	"math/big"
	"strings"
	"sync"

	"github.com/consensys/gnark-crypto/ecc"
	"github.com/consensys/gnark/constraint"
	"github.com/consensys/gnark/constraint/solver"
	"github.com/consensys/gnark/frontend"
	"github.com/consensys/gnark/internal/verifh/circ"
	"github.com/consensys/gnark/internal/verifh/ops"
	"github.com/consensys/gnark/internal/verifh/vh"
)

// Part E of C05: over the pairing-curve fields the dishonest prover is explored through its
// hint answers.  Every hint call of the solve is a choice point (default: the honest answer);
// all executions with <= 2 departures from a finite alphabet are run on the REAL solver of the
// REAL compiled system; with a wrong claimed output no execution may solve.

var hookCtx sync.Map // compiled system (pointer) -> *vh.Ctx

func init() {
	constraint.VerifHintHook = func(cs any, id solver.HintID, q *big.Int, in, out []*big.Int, err error) error {
		v, ok := hookCtx.Load(cs)
		if !ok || err != nil || len(out) == 0 {
			return err
		}
		x := v.(*vh.Ctx)
		name := hintName(id)
		n := len(out)
		bits := n >= 2
		for _, o := range out {
			if o.Sign() != 0 && !(o.IsInt64() && o.Int64() == 1) {
				bits = false
			}
		}
		modes := 8
		if bits {
			modes = 12
		}
		m := x.Choose(fmt.Sprintf("hint:%s/%d", name, n), modes)
		one := big.NewInt(1)
		flip := func(i int) {
			if i >= 0 && i < n {
				out[i] = new(big.Int).Xor(out[i], one)
			}
		}
		setBits := func(v *big.Int) bool {
			if v.Sign() < 0 || v.BitLen() > n {
				return false
			}
			for i := range out {
				out[i] = big.NewInt(int64(v.Bit(i)))
			}
			return true
		}
		switch m {
		case 1:
			out[0] = new(big.Int).Mod(new(big.Int).Add(out[0], one), q)
		case 2:
			out[0] = new(big.Int).Mod(new(big.Int).Sub(out[0], one), q)
		case 3:
			out[n-1] = new(big.Int).Mod(new(big.Int).Add(out[n-1], one), q)
		case 4:
			for i := range out {
				out[i] = new(big.Int)
			}
		case 5:
			for i := range out {
				out[i] = big.NewInt(1)
			}
		case 6:
			out[0] = new(big.Int).Sub(q, one)
		case 7:
			out[0] = new(big.Int).Lsh(one, 64)
		case 8: // aliased decomposition: the bits of input + p (fits when the input is small)
			if len(in) == 0 || !setBits(new(big.Int).Add(in[0], q)) {
				flip(0)
			}
		case 9: // decomposition of a neighbouring value
			if len(in) == 0 || !setBits(new(big.Int).Add(in[0], one)) {
				flip(1)
			}
		case 10:
			flip(n / 2)
		case 11:
			flip(n - 1)
		}
		return err
	}
}

var (
	hintNamesOnce sync.Once
	hintNames     map[solver.HintID]string
)

func hintName(id solver.HintID) string {
	hintNamesOnce.Do(func() {
		hintNames = map[solver.HintID]string{}
		for _, h := range solver.GetRegisteredHints() {
			n := solver.GetHintName(h)
			if i := strings.LastIndex(n, "."); i >= 0 {
				n = n[i+1:]
			}
			hintNames[solver.GetHintID(h)] = n
		}
	})
	if n, ok := hintNames[id]; ok {
		return n
	}
	return fmt.Sprint(uint32(id))
}

func hintAdversary(c *vh.Check) {
	if !c.Want("E") && c.Only != "" {
		return
	}
	curves := []ecc.ID{ecc.BN254, ecc.BLS12_377}
	type job struct {
		cv      ecc.ID
		op      ops.Op
		pat     []string
		builder string
	}
	var jobs []job
	for _, cv := range curves {
		for _, op := range ops.All(cv.ScalarField().BitLen()) {
			if op.Name == "Lookup2" || op.NIn > 3 {
				continue
			}
			pats := [][]string{}
			all := func(k string) []string {
				p := make([]string, op.NIn)
				for i := range p {
					p[i] = k
				}
				return p
			}
			pats = append(pats, all("S"))
			if c.Tier == "thorough" {
				pats = append(pats, all("D"))
			}
			for _, pat := range pats {
				for _, b := range []string{circ.R1CS, circ.SCS} {
					if op.SCSOnly && b == circ.R1CS {
						continue
					}
					jobs = append(jobs, job{cv, op, pat, b})
				}
			}
		}
	}
	ok := c.Par(len(jobs), func(i int) {
		j := jobs[i]
		adversaryTask(c, j.cv, j.op, j.pat, j.builder)
	})
	if !ok {
		c.Cap("internal deadline in hint-adversary part (E)")
	}
}

func adversaryTask(c *vh.Check, cv ecc.ID, op ops.Op, pat []string, builder string) {
	field := cv.ScalarField()
	t := task{op: op, pat: pat, builder: builder}
	name := fmt.Sprintf("E:%s:%s/%s/%s", cv, op.Name, strings.Join(pat, ""), builder)
	ccs, err, pan := circ.Compile(field, builder, buildCircuit(t), frontend.IgnoreUnconstrainedInputs())
	if err != nil || pan != "" {
		return
	}
	pm1 := new(big.Int).Sub(field, big.NewInt(1))
	dom := []*big.Int{big.NewInt(0), big.NewInt(1), big.NewInt(5), new(big.Int).Rsh(field, 1), pm1}
	if c.Quick() {
		dom = []*big.Int{big.NewInt(0), big.NewInt(5), pm1}
		if strings.HasPrefix(op.Name, "Cmp") || op.Name == "AssertIsLessOrEqual" {
			dom = []*big.Int{big.NewInt(5), pm1} // two full-width decompositions per call: the most expensive tasks
		}
	}
	nv, _ := nvars(pat)
	var tuples [][]*big.Int
	var rec func(cur []*big.Int)
	rec = func(cur []*big.Int) {
		if len(cur) == nv {
			tuples = append(tuples, append([]*big.Int(nil), cur...))
			return
		}
		for _, d := range dom {
			rec(append(cur, d))
		}
	}
	rec(nil)
	if nv == 3 && c.Quick() {
		tuples = tuples[:len(tuples):len(tuples)]
		var sub [][]*big.Int
		for i := 0; i < len(tuples); i += 4 {
			sub = append(sub, tuples[i])
		}
		tuples = sub
	}
	var execs, solved int64
	for _, x := range tuples {
		in := make([]*big.Int, len(pat))
		xi := 0
		for k, kind := range pat {
			switch kind {
			case "S":
				in[k] = x[xi]
				xi++
			case "D":
				in[k] = new(big.Int).Mod(new(big.Int).Add(new(big.Int).Lsh(x[xi], 1), big.NewInt(1)), field)
				xi++
			}
		}
		ref := op.Ref(field, in)
		if !ref.Sat || ref.Free {
			continue
		}
		// claimed outputs: correct, and wrong variants
		type claim struct {
			name  string
			out   []*big.Int
			wrong bool
		}
		claims := []claim{{"correct", ref.Out, false}}
		if len(ref.Out) > 0 {
			w1 := append([]*big.Int(nil), ref.Out...)
			w1[0] = new(big.Int).Mod(new(big.Int).Add(w1[0], big.NewInt(1)), field)
			claims = append(claims, claim{"out[0]+1", w1, true})
			if len(ref.Out) > 2 {
				// the aliased decomposition of x+p as claimed bits (ToBinary)
				v := new(big.Int).Add(in[0], field)
				if v.BitLen() <= len(ref.Out) {
					w2 := make([]*big.Int, len(ref.Out))
					for i := range w2 {
						w2[i] = big.NewInt(int64(v.Bit(i)))
					}
					claims = append(claims, claim{"bits-of-x+p", w2, true})
				}
				w3 := append([]*big.Int(nil), ref.Out...)
				w3[len(w3)-1] = new(big.Int).Xor(w3[len(w3)-1], big.NewInt(1))
				claims = append(claims, claim{"top-bit-flipped", w3, true})
			}
		}
		for _, cl := range claims {
			sec := append(append([]*big.Int(nil), x...), cl.out...)
			w, err := circ.Witness(circ.Assign(nil, sec), field)
			if err != nil {
				c.Fatal("witness: %v", err)
			}
			honestSolved := false
			bound := 2
			if c.Quick() {
				bound = 1 // quick: every single dishonest hint answer; thorough: every pair
			}
			e := &vh.Explorer{Bound: bound, Workers: 1, Stop: c.Expired}
			e.Run = func(xc *vh.Ctx) {
				hookCtx.Store(ccs, xc)
				var serr error
				p := vh.Recover(func() { _, serr = ccs.Solve(w, solver.WithNbTasks(1)) })
				hookCtx.Delete(ccs)
				execs++
				ok := p == "" && serr == nil
				if ok {
					solved++
				}
				if xc.Deviations() == 0 {
					honestSolved = ok
				}
				if cl.wrong && ok {
					c.Violation(fmt.Sprintf("c05:%s:claim=%s:x=%v:hints=%v", name, cl.name, x, xc.Trace()), map[string]any{"task": name, "inputs": fmt.Sprint(x), "claimed_outputs": fmt.Sprint(cl.out), "documented_outputs": fmt.Sprint(ref.Out), "dishonest_hint_answers": xc.Trace()})
				}
			}
			if !e.Explore() {
				c.Cap("deadline inside " + name)
				return
			}
			if !cl.wrong && !honestSolved {
				c.Violation(fmt.Sprintf("c05:%s:honest-unsolved:x=%v", name, x), map[string]any{"task": name, "inputs": fmt.Sprint(x)})
			}
		}
	}
	c.Evals.Add(execs)
	c.Traces.Add(execs)
	c.Transitions.Add(execs)
	cls := "no-hints"
	if execs > int64(2*len(tuples)) {
		cls = "hints-explored"
	}
	c.Outcome("E:" + op.Name + ":" + builder + ":" + cls)
	c.Count("E-executions", op.Name, execs)
	c.Count("E-solved-with-correct-claim", op.Name, solved)
	if op.Name == "ToBinaryFull" && builder == circ.R1CS && cv == ecc.BN254 {
		c.Sample(map[string]any{"part": "E", "task": name, "input_tuples": len(tuples), "executions": execs, "alphabet": "per hint call: honest, out[0]+-1, out[last]+1, all 0, all 1, p-1, 2^64, bits(in+p), bits(in+1), 3 bit flips; <=1 departure quick, <=2 thorough"})
	}
}
