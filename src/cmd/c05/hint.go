package main

import "github.com/consensys/gnark/internal/verifh/vh"

func hintAdversary(c *vh.Check) {}
