// C01: Groth16 Verify accepts only proofs of the stated public inputs.  The prover is the
// environment: every structured departure (<= 2 simultaneous edits) from the honest proof /
// public witness is offered to the real verifier in memory and through both encodings, and
// judged by a textbook reference verifier.
package main

import (
	"github.com/consensys/gnark/internal/verifh/bk"
	_ "github.com/consensys/gnark/internal/verifh/bkall"
	"github.com/consensys/gnark/internal/verifh/bkcat"
	"github.com/consensys/gnark/internal/verifh/vh"
	"github.com/consensys/gnark/logger"
)

func main() {
	c := vh.New("C01")
	logger.Disable()
	c.Rule("per (curve, catalogue circuit): real Setup, real Prove for two witnesses; every single edit of every proof slot / commitment list / public witness from the alphabet, every pair {witness edit} x {list edit, forging-vector edit} (thorough: all pairs), plus every single-wire corruption of the solved assignment pushed through the real prover; each offered in memory, via WriteTo/ReadFrom and via WriteRawTo/ReadFrom; accept/reject must equal the textbook reference verifier. distinct = (encoding, verdict class, number of edits).")
	c.Assume("adversary restricted to the structured edit alphabet with <=2 simultaneous departures (not all polynomial-time adversaries)", "gnark-crypto pairings / subgroup checks trusted as oracle arithmetic")
	cases := bkcat.Cases()
	for _, id := range bk.Curves(c.Quick()) {
		if !c.Want(id.String()) {
			continue
		}
		bk.Kits[id].Run["c01"](c, bk.CasesFor(id, c.Quick(), cases, 5))
	}
	c.Finish()
}
