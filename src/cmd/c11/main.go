// C11: compilation is deterministic.  (E) every typed `range` over a map on the compile path
// (found by a go/types scan of the current tree and rewritten by goinstr) becomes a choice of
// iteration order; ALL orders within the deviation bound are executed and the serialized
// constraint system must be byte-identical.  (H) every history of <= 3 compilations is
// compared with compilations in fresh processes.  (S) two compilations interleaved under the
// controlled scheduler at every operation of the process-global hint registry.
package main

import (
	"bytes"
	"crypto/sha256"
	"fmt"
	"os"
	"os/exec"
	"sort"
	"strings"
	"sync"

	"github.com/consensys/gnark-crypto/ecc"
	"github.com/consensys/gnark/constraint"
	"github.com/consensys/gnark/frontend"
	"github.com/consensys/gnark/internal/verifh/circ"
	"github.com/consensys/gnark/internal/verifh/gkrreg"
	"github.com/consensys/gnark/internal/verifh/ops"
	"github.com/consensys/gnark/internal/verifh/progen"
	"github.com/consensys/gnark/internal/verifh/vchoice"
	"github.com/consensys/gnark/internal/verifh/vh"
	"github.com/consensys/gnark/internal/verifh/vsched"
	"github.com/consensys/gnark/internal/verifh/vsync"
	"github.com/consensys/gnark/logger"
	"github.com/consensys/gnark/std/algebra/emulated/fields_bn254"
	"github.com/consensys/gnark/std/gkr"
	"github.com/consensys/gnark/std/lookup/logderivlookup"
	"github.com/consensys/gnark/std/math/emulated"
	"github.com/consensys/gnark/std/math/emulated/emparams"
	"github.com/consensys/gnark/std/multicommit"
	"github.com/consensys/gnark/std/rangecheck"
)

var field = ecc.BN254.ScalarField()

type family struct {
	name    string
	nP, nS  int
	def     func(api frontend.API, p, s []frontend.Variable) error
	scsOnly bool
	opts    []frontend.CompileOption
}

func families() []family {
	wireQuery := func(nMissing int, exact bool) func(api frontend.API, p, s []frontend.Variable) error {
		return func(api frontend.API, p, s []frontend.Variable) error {
			// s[0..nMissing) are never used in a constraint before the query
			used := api.Mul(s[4], s[5])
			api.AssertIsEqual(used, p[0])
			type wc interface {
				GetWireConstraints(wires []frontend.Variable, addMissing bool) ([][2]int, error)
				GetWiresConstraintExact(wires []frontend.Variable, addMissing bool) ([][2]int, error)
			}
			q, ok := api.Compiler().(wc)
			if !ok {
				return fmt.Errorf("builder does not offer the wire query interface")
			}
			wires := append([]frontend.Variable{s[4]}, s[:nMissing]...)
			var err error
			if exact {
				_, err = q.GetWiresConstraintExact(wires, true)
			} else {
				_, err = q.GetWireConstraints(wires, true)
			}
			return err
		}
	}
	f := []family{
		{name: "hints", nP: 1, nS: 2, def: func(api frontend.API, p, s []frontend.Variable) error {
			h, err := api.Compiler().NewHint(ops.DoubleHint, 1, s[0])
			if err != nil {
				return err
			}
			api.AssertIsEqual(h[0], api.Mul(s[0], 2))
			z := api.IsZero(api.Sub(h[0], s[1]))
			b := api.ToBinary(s[1], 9)
			api.AssertIsEqual(api.Add(z, b[0], api.Cmp(s[0], s[1])), p[0])
			return nil
		}},
		{name: "commitments", nP: 1, nS: 2, def: func(api frontend.API, p, s []frontend.Variable) error {
			c1, err := api.(frontend.Committer).Commit(s[0], p[0])
			if err != nil {
				return err
			}
			c2, err := api.(frontend.Committer).Commit(s[1], c1)
			if err != nil {
				return err
			}
			api.AssertIsDifferent(c1, c2)
			return nil
		}},
		{name: "lookup", nP: 1, nS: 4, def: func(api frontend.API, p, s []frontend.Variable) error {
			t := logderivlookup.New(api)
			t.Insert(s[0])
			t.Insert(api.Add(s[1], 1))
			t.Insert(7)
			r := t.Lookup(s[2], s[3])
			t2 := logderivlookup.New(api)
			t2.Insert(r[0])
			t2.Insert(r[1])
			api.AssertIsEqual(api.Add(t2.Lookup(s[2])[0], r[1]), p[0])
			return nil
		}},
		{name: "rangecheck", nP: 1, nS: 3, def: func(api frontend.API, p, s []frontend.Variable) error {
			rc := rangecheck.New(api)
			rc.Check(s[0], 8)
			rc.Check(s[1], 11)
			rc.Check(s[2], 65)
			api.AssertIsEqual(api.Add(s[0], s[1], s[2]), p[0])
			return nil
		}},
		{name: "emulated", nP: 1, nS: 8, def: func(api frontend.API, p, s []frontend.Variable) error {
			f, err := emulated.NewField[emulated.Secp256k1Fp](api)
			if err != nil {
				return err
			}
			a := f.NewElement(s[0:4])
			b := f.NewElement(s[4:8])
			c := f.Mul(a, b)
			d := f.Add(c, a)
			e := f.Mul(d, d)
			f.AssertIsEqual(e, f.Mul(f.Mul(d, f.One()), d))
			api.AssertIsEqual(f.ToBits(f.Reduce(e))[0], p[0])
			return nil
		}},
		{name: "deferred", nP: 1, nS: 2, def: func(api frontend.API, p, s []frontend.Variable) error {
			api.Compiler().Defer(func(api frontend.API) error {
				api.AssertIsEqual(api.Mul(s[0], s[1]), p[0])
				api.Compiler().Defer(func(api frontend.API) error {
					api.AssertIsDifferent(s[0], 0)
					return nil
				})
				return nil
			})
			api.Compiler().Defer(func(api frontend.API) error {
				api.AssertIsBoolean(api.IsZero(s[1]))
				return nil
			})
			return nil
		}},
		{name: "multicommit", nP: 1, nS: 3, def: func(api frontend.API, p, s []frontend.Variable) error {
			multicommit.WithCommitment(api, func(api frontend.API, cm frontend.Variable) error {
				api.AssertIsDifferent(cm, s[0])
				return nil
			}, s[0], s[1])
			multicommit.WithCommitment(api, func(api frontend.API, cm frontend.Variable) error {
				api.AssertIsDifferent(cm, s[2])
				return nil
			}, s[2], p[0])
			return nil
		}},
		{name: "gkr", nP: 0, nS: 4, def: func(api frontend.API, p, s []frontend.Variable) error {
			g := gkr.NewApi()
			x, err := g.Import(s[:2])
			if err != nil {
				return err
			}
			y, err := g.Import(s[2:4])
			if err != nil {
				return err
			}
			z := g.Mul(g.Add(x, y), x)
			sol, err := g.Solve(api)
			if err != nil {
				return err
			}
			Z := sol.Export(z)
			for i := range Z {
				api.AssertIsEqual(Z[i], api.Mul(api.Add(s[i], s[2+i]), s[i]))
			}
			return sol.Verify(gkrreg.Name)
		}},
		{name: "ext2-constants", nP: 1, nS: 8, def: func(api frontend.API, p, s []frontend.Variable) error {
			e, err := emulated.NewField[emulated.BN254Fp](api)
			if err != nil {
				return err
			}
			ext := fields_bn254.NewExt2(api)
			a := fields_bn254.E2{A0: *e.NewElement(s[0:4]), A1: *e.NewElement(s[4:8])}
			b := ext.MulByNonResidue1Power2(&a)
			c := ext.Mul(b, &a)
			api.AssertIsEqual(e.ToBits(e.Reduce(&c.A0))[0], p[0])
			return nil
		}},
	}
	for n := 0; n <= 3; n++ {
		f = append(f, family{name: fmt.Sprintf("wirequery-%dmissing", n), nP: 1, nS: 6, def: wireQuery(n, false), scsOnly: true, opts: []frontend.CompileOption{frontend.IgnoreUnconstrainedInputs()}})
		f = append(f, family{name: fmt.Sprintf("wirequery-exact-%dmissing", n), nP: 1, nS: 6, def: wireQuery(n, true), scsOnly: true, opts: []frontend.CompileOption{frontend.IgnoreUnconstrainedInputs()}})
	}
	return f
}

// varModCircuit uses the variable-modulus emulated API with the modulus held in a circuit field.
type varModCircuit struct {
	A, B, M, R emulated.Element[emparams.Mod1e256]
}

func (c *varModCircuit) Define(api frontend.API) error {
	f, err := emulated.NewField[emparams.Mod1e256](api)
	if err != nil {
		return err
	}
	p := f.ModMul(&c.A, &c.B, &c.M)
	q := f.ModAdd(p, &c.A, &c.M)
	f.ModAssertIsEqual(q, &c.R, &c.M)
	return nil
}

type target struct {
	name    string
	builder string
	mk      func() frontend.Circuit
	opts    []frontend.CompileOption
}

func targets(quick bool) []target {
	var t []target
	optSets := []struct {
		n string
		o []frontend.CompileOption
	}{{"default", nil}, {"capacity", []frontend.CompileOption{frontend.WithCapacity(1 << 10)}}, {"compress2", []frontend.CompileOption{frontend.WithCompressThreshold(2)}}}
	for _, f := range append(families(), siblingFamilies()...) {
		f := f
		for _, b := range []string{circ.R1CS, circ.SCS} {
			if f.scsOnly && b == circ.R1CS {
				continue
			}
			for _, os := range optSets {
				if os.n == "compress2" && b == circ.SCS {
					continue
				}
				if os.n != "default" && strings.HasPrefix(f.name, "sib:") {
					continue
				}
				t = append(t, target{name: f.name + "/" + b + "/" + os.n, builder: b, mk: func() frontend.Circuit { return circ.New(f.nP, f.nS, f.def) }, opts: append(append([]frontend.CompileOption(nil), f.opts...), os.o...)})
			}
		}
	}
	for _, b := range []string{circ.R1CS, circ.SCS} {
		t = append(t, target{name: "emulated-varmod/" + b + "/default", builder: b, mk: func() frontend.Circuit { return &varModCircuit{} }})
	}
	// API programs of the C04 generator
	all := ops.All(field.BitLen())
	var progs []*progen.Prog
	progen.Enumerate(progen.Config{Ops: all, Depth: 1, Consts: []int{2, 3}, Inputs: []int{0, 1}, SCS: true}, func(p *progen.Prog) bool {
		progs = append(progs, p)
		return true
	})
	stride := 1
	if quick {
		stride = 5
	}
	for i := 0; i < len(progs); i += stride {
		p := progs[i]
		for _, b := range []string{circ.R1CS, circ.SCS} {
			scsOnly := false
			for _, s := range p.Steps {
				scsOnly = scsOnly || s.Op.SCSOnly
			}
			if scsOnly && b == circ.R1CS {
				continue
			}
			t = append(t, target{name: "prog:" + p.String() + "/" + b, builder: b, mk: func() frontend.Circuit { return p.Circuit(field) }, opts: []frontend.CompileOption{frontend.IgnoreUnconstrainedInputs()}})
		}
	}
	return t
}

func compileHash(t target, c frontend.Circuit) string {
	var ccs constraint.ConstraintSystem
	var err error
	var pan string
	ccs, err, pan = circ.Compile(field, t.builder, c, t.opts...)
	if pan != "" {
		return "panic:" + firstLine(pan)
	}
	if err != nil {
		return "error:" + firstLine(err.Error())
	}
	var buf bytes.Buffer
	if _, err := ccs.WriteTo(&buf); err != nil {
		return "writeerror:" + err.Error()
	}
	return fmt.Sprintf("%x", sha256.Sum256(buf.Bytes()))[:24]
}

func firstLine(s string) string {
	if i := strings.IndexByte(s, '\n'); i >= 0 {
		s = s[:i]
	}
	if len(s) > 120 {
		s = s[:120]
	}
	return s
}

func main() {
	c := vh.New("C11")
	logger.Disable()
	if sel := os.Getenv("VERIF_C11_REF"); sel != "" {
		// fresh-process reference.  "prog": the API programs (no gadget state), one process for all;
		// otherwise the name of ONE target: a gadget target's reference is its compilation as the
		// first and only compilation of a process.
		for _, t := range targets(c.Quick()) {
			if (sel == "prog" && strings.HasPrefix(t.name, "prog:")) || sel == t.name {
				fmt.Printf("REF\t%s\t%s\n", t.name, compileHash(t, t.mk()))
			}
		}
		os.Exit(0)
	}
	c.Rule("targets = one circuit per gadget family that keeps per-compilation state (hints, commitments, lookup tables, range checks, emulated arithmetic, deferred callbacks, multicommit, GKR, Ext2 constant tables, the wire->constraint query with 0..3 missing wires) x builders x compile options, plus the API programs of the C04 generator. (E) every map-range site on the compile path is a choice of order: all k! orders for k<=4 keys (identity/reverse/rotations/adjacent transpositions above), <= 2 sites departing; serialized bytes must be identical in every execution. (H) all histories of <= 3 compilations (same circuit value compiled again, different values in between) against fresh-process references (every gadget target's reference is the first and only compilation of its own process, taken three times); sibling groups (range checks with equal count and total bits but different distributions, emulated multiplication over three 4-limb fields, lookup tables of equal size, neighbouring bit widths, multiplexer sizes, 32/64-bit byte gadgets): all ordered histories over each group. (S) two compilations under the controlled scheduler with a point at every statement of the global hint registry, preemption bound 2. distinct = (target family, part, verdict / number of orders explored).")
	c.Assume("single-threaded compilation has no other nondeterminism than map iteration order (typed scan lists every such site; none uses time, randomness or pointer order)")
	ts := targets(c.Quick())
	if unit, _, ok := vh.WorkerArgs(); ok && unit == "S" {
		concurrent(c, ts)
		c.WorkerDone()
	}
	// fresh-process references (three processes; their agreement is part of the check)
	refs := make([]map[string]string, 3)
	for i := range refs {
		refs[i] = freshProcess(c, ts)
	}
	for name, h := range refs[0] {
		if strings.HasPrefix(h, "error:") || strings.HasPrefix(h, "panic:") {
			if !strings.HasPrefix(name, "prog:") && !strings.Contains(name, ":FAILS-") { // programs with constant operands may be rejected at compile time; FAILS- targets are meant to
				c.Fatal("target %s does not compile: %s", name, h)
			}
		}
		if refs[1][name] != h || refs[2][name] != h {
			c.Violation("c11:cross-process:"+name, map[string]any{"target": name, "hashes": []string{h, refs[1][name], refs[2][name]}})
		}
	}
	c.Evals.Add(int64(3 * len(refs[0])))
	ref := refs[0]
	if c.Want("E") {
		mapOrders(c, ts, ref)
	}
	if c.Want("H") {
		histories(c, ts, ref)
	}
	if c.Want("S") {
		c.RunIsolated("S", 16<<20, func(cr vh.Crash) {
			c.Violation("c11:S:process-crash", map[string]any{"frames": vh.FirstFrames(cr.Stderr, 8)})
		})
	}
	var sites []string
	for s, n := range vchoice.Sites {
		sites = append(sites, fmt.Sprintf("%s x%d", s, n))
	}
	sort.Strings(sites)
	c.Extra("map_range_sites_reached_with_2+_keys", sites)
	c.Finish()
}

func freshProcess(c *vh.Check, ts []target) map[string]string {
	exe, _ := os.Executable()
	run := func(sel string) map[string]string {
		cmd := exec.Command(exe, "-tier", c.Tier)
		cmd.Env = append(os.Environ(), "VERIF_C11_REF="+sel)
		out, err := cmd.Output()
		if err != nil {
			c.Fatal("fresh reference process (%s) failed: %v", sel, err)
		}
		m := map[string]string{}
		for _, l := range strings.Split(string(out), "\n") {
			p := strings.Split(l, "\t")
			if len(p) == 3 && p[0] == "REF" {
				m[p[1]] = p[2]
			}
		}
		return m
	}
	var mu sync.Mutex
	all := run("prog")
	var single []string
	for _, t := range ts {
		if !strings.HasPrefix(t.name, "prog:") {
			single = append(single, t.name)
		}
	}
	c.Par(len(single), func(i int) {
		m := run(single[i])
		mu.Lock()
		for k, v := range m {
			all[k] = v
		}
		mu.Unlock()
	})
	for _, n := range single {
		if _, ok := all[n]; !ok {
			c.Fatal("no fresh-process reference for %s", n)
		}
	}
	return all
}

func mapOrders(c *vh.Check, ts []target, ref map[string]string) {
	for _, t := range ts {
		if strings.HasPrefix(t.name, "sib:") {
			continue // sibling circuits repeat the gadgets of the families; they serve the histories
		}
		if c.Expired() {
			c.Cap("internal deadline in map-order exploration")
			return
		}
		var execs, maxPoints int64
		e := &vh.Explorer{Bound: 2, Workers: 1, Stop: c.Expired}
		e.OnNondet = func(x *vh.Ctx) {
			// the number of keys may legitimately depend on an earlier order only if the output differs too; report as violation
			c.Violation("c11:E:"+t.name+":choice-structure-depends-on-order", map[string]any{"target": t.name, "diverged": x.Diverged})
		}
		e.Run = func(x *vh.Ctx) {
			vchoice.Set(x)
			h := compileHash(t, t.mk())
			vchoice.Set(nil)
			execs++
			if int64(len(x.Choices)) > maxPoints {
				maxPoints = int64(len(x.Choices))
			}
			c.Evals.Add(1)
			c.Traces.Add(1)
			if h != ref[t.name] {
				c.Violation("c11:E:"+t.name, map[string]any{"target": t.name, "map_orders": x.Trace(), "hash": h, "fresh_process_hash": ref[t.name]})
			}
		}
		if !e.Explore() {
			c.Cap("deadline inside " + t.name)
		}
		fam := strings.SplitN(t.name, "/", 2)[0]
		if strings.HasPrefix(fam, "prog:") {
			fam = "prog"
		}
		c.Outcome(fmt.Sprintf("E:%s:orders=%d", fam, execs))
		c.States.Add(execs)
		c.Transitions.Add(e.Points.Load())
		if execs > 1 {
			c.Count("map-order-executions", t.name, execs)
			c.Sample(map[string]any{"target": t.name, "executions": execs, "map_range_points_per_compile": maxPoints})
		}
	}
}

func histories(c *vh.Check, ts []target, ref map[string]string) {
	// three circuit VALUES per history alphabet: gadget families cache state inside circuit objects
	pick := []int{}
	for i, t := range ts {
		if strings.HasPrefix(t.name, "prog:") || strings.HasPrefix(t.name, "sib:") {
			continue
		}
		if strings.HasSuffix(t.name, "/default") {
			pick = append(pick, i)
		}
	}
	maxLen := 2
	if c.Tier == "thorough" {
		maxLen = 3
	}
	defer siblingHistories(c, ts, ref, maxLen)
	// every family: the SAME circuit object compiled three times (gadgets cache state in circuit fields)
	for _, i := range pick {
		obj := ts[i].mk()
		for k := 1; k <= 3; k++ {
			h := compileHash(ts[i], obj)
			c.Evals.Add(1)
			c.Traces.Add(1)
			c.Outcome(fmt.Sprintf("H:recompile-same-object:%v", h == ref[ts[i].name]))
			if h != ref[ts[i].name] {
				c.Violation(fmt.Sprintf("c11:H:recompile-same-object:%s:compilation#%d", ts[i].name, k), map[string]any{"target": ts[i].name, "compilation": k, "hash": h, "fresh_process_hash": ref[ts[i].name]})
			}
		}
	}
	// alphabets of 3 targets sliding over the families
	for a := 0; a+2 < len(pick); a += 2 {
		if c.Expired() {
			c.Cap("internal deadline in histories")
			return
		}
		abc := []int{pick[a], pick[a+1], pick[a+2]}
		vals := make([]frontend.Circuit, 3)
		var rec func(h []int)
		rec = func(h []int) {
			if len(h) > 0 {
				for i := range vals {
					vals[i] = ts[abc[i]].mk() // fresh circuit values per history
				}
				var last string
				for _, k := range h {
					last = compileHash(ts[abc[k]], vals[k])
					c.Evals.Add(1)
				}
				k := h[len(h)-1]
				c.Traces.Add(1)
				c.States.Add(1)
				c.Outcome(fmt.Sprintf("H:len%d:%v", len(h), last == ref[ts[abc[k]].name]))
				if last != ref[ts[abc[k]].name] {
					var names []string
					for _, j := range h {
						names = append(names, ts[abc[j]].name)
					}
					c.Violation("c11:H:"+strings.Join(names, ";"), map[string]any{"history": names, "hash": last, "fresh_process_hash": ref[ts[abc[k]].name]})
				}
			}
			if len(h) == maxLen {
				return
			}
			for i := 0; i < 3; i++ {
				rec(append(append([]int(nil), h...), i))
			}
		}
		rec(nil)
	}
}

// concurrent: two threads compile different circuits under the controlled scheduler.
func concurrent(c *vh.Check, ts []target) {
	var sel []target
	for _, t := range ts {
		if t.name == "hints/r1cs/default" || t.name == "lookup/scs/default" || t.name == "rangecheck/r1cs/default" {
			sel = append(sel, t)
		}
	}
	alone := make([]string, len(sel))
	for i, t := range sel {
		alone[i] = compileHash(t, t.mk())
	}
	for i := 0; i < len(sel); i++ {
		for j := i + 1; j < len(sel); j++ {
			pair := []int{i, j}
			for b := 0; b <= 2; b++ {
				var execs int64
				e := &vh.Explorer{Bound: b, Workers: 1, Stop: c.Expired}
				e.OnNondet = func(x *vh.Ctx) { c.Fatal("NONDETERMINISM in concurrent compile: %s", x.Diverged) }
				e.Run = func(x *vh.Ctx) {
					got := make([]string, 2)
					res := vsched.Run(x, vsched.Options{Mode: vsched.Preemption}, func() {
						var wg vsync.WaitGroup
						for k := range pair {
							k := k
							wg.Add(1)
							vsched.Go(func() {
								defer wg.Done()
								got[k] = compileHash(sel[pair[k]], sel[pair[k]].mk())
							})
						}
						wg.Wait()
					})
					execs++
					c.Evals.Add(1)
					c.Traces.Add(1)
					c.Transitions.Add(int64(res.Steps))
					bad := res.Deadlock || len(res.Panics) > 0
					for k := range pair {
						bad = bad || got[k] != alone[pair[k]]
					}
					c.Outcome(fmt.Sprintf("S:%v", !bad))
					if bad {
						c.Violation(fmt.Sprintf("c11:S:%s||%s", sel[i].name, sel[j].name), map[string]any{"threads": []string{sel[i].name, sel[j].name}, "non_default_choices": x.Trace(), "got": got, "alone": []string{alone[i], alone[j]}, "deadlock": res.DeadlockInfo, "panics": res.Panics})
					}
				}
				if !e.Explore() {
					c.Cap("deadline in concurrent compile")
					return
				}
				c.Count("S-schedules", fmt.Sprintf("%s||%s bound<=%d", sel[i].name, sel[j].name, b), execs)
			}
		}
	}
	c.Sample(map[string]any{"part": "S", "pairs": len(sel) * (len(sel) - 1) / 2})
}
