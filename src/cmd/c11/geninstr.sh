#!/bin/bash
# Typed scan of the CURRENT /repo tree for `range` over maps on the compile path; writes the
# goinstr config ($1). Cached by (HEAD, diff of the scanned directories).
. /verif/env.sh
out=$1
[ -x /verif/bin/maprange ] || ( cd /verif/tools/maprange && go build -o /verif/bin/maprange . ) || exit 1
dirs="frontend constraint std internal/kvstore internal/circuitdefer internal/utils"
key=$( (git -C /repo rev-parse HEAD; git -C /repo diff HEAD -- $dirs; git -C /repo status --porcelain -- $dirs) | sha256sum | cut -c1-16)
cache=/verif/.work/maprange-$key.json
if [ ! -s $cache ]; then
  ( cd /repo && /verif/bin/maprange -dir /repo ./frontend/... ./constraint ./constraint/solver ./std/... ./internal/kvstore/... ./internal/circuitdefer/... ./internal/utils/... ) > $cache.tmp || { echo "maprange failed"; exit 1; }
  mv $cache.tmp $cache
fi
python3 - $cache $out <<'PY'
import json,sys,collections
sites=json.load(open(sys.argv[1]))
by=collections.defaultdict(list)
for s in sites:
    by[s['file'].replace('/repo/','')].append(s['line'])
files=[{"path":f,"maplines":sorted(l)} for f,l in sorted(by.items())]
# scheduling points for the concurrent-compile scenario: the process-global hint registry
have={f['path'] for f in files}
reg='constraint/solver/hint_registry.go'
for f in files:
    if f['path']==reg: f['points']=['*']
if reg not in have: files.append({"path":reg,"points":["*"]})
json.dump({"files":files},open(sys.argv[2],'w'),indent=1)
print("maprange sites:",len(sites),"files:",len(files))
PY
