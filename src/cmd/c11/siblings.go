package main

import (
	"math/big"
	"fmt"
	"strings"

	"github.com/consensys/gnark/frontend"
	"github.com/consensys/gnark/internal/verifh/circ"
	"github.com/consensys/gnark/internal/verifh/vh"
	"github.com/consensys/gnark/std/lookup/logderivlookup"
	"github.com/consensys/gnark/std/math/bits"
	"github.com/consensys/gnark/std/math/cmp"
	"github.com/consensys/gnark/std/math/emulated"
	"github.com/consensys/gnark/std/math/uints"
	"github.com/consensys/gnark/std/rangecheck"
	"github.com/consensys/gnark/std/selector"
)

// Sibling groups: circuits that agree on every coarse statistic of a gadget (number of calls,
// total sizes, shapes) and differ in ONE parameter.  A per-process cache keyed too coarsely makes
// the second of two siblings compile differently from its compilation in a fresh process; all
// ordered histories over each group are compared with fresh-process compilations.
func siblingFamilies() []family {
	var f []family
	add := func(group, variant string, nS int, def func(api frontend.API, p, s []frontend.Variable) error) {
		f = append(f, family{name: "sib:" + group + ":" + variant, nP: 1, nS: nS, def: def})
	}
	// range checks: 16 checks, 512 bits in total, three distributions
	rc := func(widths []int) func(api frontend.API, p, s []frontend.Variable) error {
		return func(api frontend.API, p, s []frontend.Variable) error {
			r := rangecheck.New(api)
			for i, w := range widths {
				r.Check(s[i], w)
			}
			api.AssertIsEqual(p[0], s[0])
			return nil
		}
	}
	rep := func(n, w int) []int {
		o := make([]int, n)
		for i := range o {
			o[i] = w
		}
		return o
	}
	add("rangecheck", "16x32", 16, rc(rep(16, 32)))
	add("rangecheck", "8x30+8x34", 16, rc(append(rep(8, 30), rep(8, 34)...)))
	add("rangecheck", "15x33+1x17", 16, rc(append(rep(15, 33), 17)))
	// emulated multiplication over three 4-limb fields
	add("emulated", "secp256k1-fp", 8, emuMul[emulated.Secp256k1Fp])
	add("emulated", "secp256k1-fr", 8, emuMul[emulated.Secp256k1Fr])
	add("emulated", "bn254-fp", 8, emuMul[emulated.BN254Fp])
	// lookup tables of 8 constants, two queries; different contents / different query positions
	lk := func(mul, off int, q0, q1 int) func(api frontend.API, p, s []frontend.Variable) error {
		return func(api frontend.API, p, s []frontend.Variable) error {
			t := logderivlookup.New(api)
			for i := 0; i < 8; i++ {
				t.Insert(mul*i + off)
			}
			r := t.Lookup(s[q0], s[q1])
			api.AssertIsEqual(api.Add(r[0], r[1]), p[0])
			return nil
		}
	}
	add("lookup", "3i+1", 2, lk(3, 1, 0, 1))
	add("lookup", "5i+2", 2, lk(5, 2, 0, 1))
	add("lookup", "3i+1-swapped", 2, lk(3, 1, 1, 0))
	// binary decompositions / comparisons of neighbouring widths
	tb := func(n int) func(api frontend.API, p, s []frontend.Variable) error {
		return func(api frontend.API, p, s []frontend.Variable) error {
			b := bits.ToBinary(api, s[0], bits.WithNbDigits(n))
			api.AssertIsEqual(b[0], p[0])
			c := cmp.NewBoundedComparator(api, bigPow2(n), false)
			c.AssertIsLess(s[1], s[2])
			return nil
		}
	}
	add("bits", "n=20", 3, tb(20))
	add("bits", "n=21", 3, tb(21))
	add("bits", "n=22", 3, tb(22))
	// multiplexers of neighbouring sizes
	mx := func(n int) func(api frontend.API, p, s []frontend.Variable) error {
		return func(api frontend.API, p, s []frontend.Variable) error {
			api.AssertIsEqual(selector.Mux(api, s[0], s[1:1+n]...), p[0])
			return nil
		}
	}
	add("mux", "n=3", 6, mx(3))
	add("mux", "n=4", 6, mx(4))
	add("mux", "n=5", 6, mx(5))
	// byte-table gadgets on 32- and 64-bit words
	add("uints", "u32-xor-add", 2, func(api frontend.API, p, s []frontend.Variable) error {
		u, err := uints.New[uints.U32](api)
		if err != nil {
			return err
		}
		a, b := u.ValueOf(s[0]), u.ValueOf(s[1])
		api.AssertIsEqual(u.ToValue(u.Add(u.Xor(a, b), a)), p[0])
		return nil
	})
	add("uints", "u64-xor-add", 2, func(api frontend.API, p, s []frontend.Variable) error {
		u, err := uints.New[uints.U64](api)
		if err != nil {
			return err
		}
		a, b := u.ValueOf(s[0]), u.ValueOf(s[1])
		api.AssertIsEqual(u.ToValue(u.Add(u.Xor(a, b), a)), p[0])
		return nil
	})
	add("uints", "u32-and-add", 2, func(api frontend.API, p, s []frontend.Variable) error {
		u, err := uints.New[uints.U32](api)
		if err != nil {
			return err
		}
		a, b := u.ValueOf(s[0]), u.ValueOf(s[1])
		api.AssertIsEqual(u.ToValue(u.Add(u.And(a, b), a)), p[0])
		return nil
	})
	// the wire -> constraint query of the sparse builder: successful queries next to queries that FAIL
	// (a compilation that ends in an error must leave nothing behind for the next one)
	type wc interface {
		GetWireConstraints(wires []frontend.Variable, addMissing bool) ([][2]int, error)
		GetWiresConstraintExact(wires []frontend.Variable, addMissing bool) ([][2]int, error)
	}
	wq := func(exact, addMissing bool, nMissing int) func(api frontend.API, p, s []frontend.Variable) error {
		return func(api frontend.API, p, s []frontend.Variable) error {
			api.AssertIsEqual(api.Mul(s[4], s[5]), p[0])
			q, ok := api.Compiler().(wc)
			if !ok {
				return fmt.Errorf("builder does not offer the wire query interface")
			}
			wires := append([]frontend.Variable{s[4]}, s[:nMissing]...)
			var err error
			if exact {
				_, err = q.GetWiresConstraintExact(wires, addMissing)
			} else {
				_, err = q.GetWireConstraints(wires, addMissing)
			}
			return err
		}
	}
	addQ := func(variant string, def func(api frontend.API, p, s []frontend.Variable) error) {
		f = append(f, family{name: "sib:wirequery:" + variant, nP: 1, nS: 6, def: def, scsOnly: true, opts: []frontend.CompileOption{frontend.IgnoreUnconstrainedInputs()}})
	}
	addQ("ok-2missing", wq(false, true, 2))
	addQ("ok-exact-1missing", wq(true, true, 1))
	addQ("FAILS-2missing-not-added", wq(false, false, 2))
	addQ("FAILS-exact-3missing-not-added", wq(true, false, 3))
	return f
}

func emuMul[T emulated.FieldParams](api frontend.API, p, s []frontend.Variable) error {
	e, err := emulated.NewField[T](api)
	if err != nil {
		return err
	}
	a, b := e.NewElement(s[0:4]), e.NewElement(s[4:8])
	c := e.Mul(a, b)
	d := e.Reduce(e.Add(c, a))
	api.AssertIsEqual(e.ToBits(d)[0], p[0])
	return nil
}

// siblingHistories: for every group and builder, ALL histories of <= maxLen compilations over
// the group's members (fresh circuit values each), the last compilation compared with the
// fresh-process reference.
func siblingHistories(c *vh.Check, ts []target, ref map[string]string, maxLen int) {
	groups := map[string][]int{}
	var order []string
	for i, t := range ts {
		if !strings.HasPrefix(t.name, "sib:") {
			continue
		}
		parts := strings.SplitN(t.name, "/", 2) // sib:group:variant / builder/default
		g := strings.Split(parts[0], ":")[1] + "/" + parts[1]
		if _, ok := groups[g]; !ok {
			order = append(order, g)
		}
		groups[g] = append(groups[g], i)
	}
	for _, g := range order {
		idx := groups[g]
		var rec func(h []int)
		rec = func(h []int) {
			if c.Expired() {
				return
			}
			if len(h) > 1 { // single compilations are the references themselves (checked across three processes)
				var last string
				var names []string
				for _, k := range h {
					last = compileHash(ts[idx[k]], ts[idx[k]].mk())
					names = append(names, ts[idx[k]].name)
					c.Evals.Add(1)
				}
				k := h[len(h)-1]
				c.Traces.Add(1)
				c.States.Add(1)
				same := last == ref[ts[idx[k]].name]
				if len(h) == 2 && h[0] == 0 && h[1] == 1 {
					c.Sample(map[string]any{"part": "H:siblings", "history": names, "last_compilation_equals_fresh_process_reference": same})
				}
				c.Outcome(fmt.Sprintf("H:siblings:%s:len%d:%v", strings.SplitN(g, "/", 2)[0], len(h), same))
				if !same {
					c.Violation("c11:H:siblings:"+strings.Join(names, ";"), map[string]any{"history": names, "hash": last, "fresh_process_hash": ref[ts[idx[k]].name],
						"note": "the last circuit of the history compiles differently after its sibling(s) than in a fresh process"})
				}
			}
			if len(h) == maxLen {
				return
			}
			for i := range idx {
				rec(append(append([]int(nil), h...), i))
			}
		}
		rec(nil)
		c.Count("H-sibling-groups", g, int64(len(idx)))
	}
	if c.Expired() {
		c.Cap("internal deadline in sibling histories")
	}
}

var _ = circ.R1CS

func bigPow2(n int) *big.Int { return new(big.Int).Lsh(big.NewInt(1), uint(n)) }
