// C19: GKR-delegated computation equals direct computation and cannot be forged.
//
// (P) every GKR circuit of <= 4 wires over the gates the API offers is delegated through
// std/gkr inside an outer circuit that also evaluates the same gates with plain api calls and
// asserts equality with the exported values, for every instance; one compile + solve decides.
// (E) the solving hint and the proving hint are the environment: their outputs are choice
// points of a vh.Explorer (<= 2 departures); any departure that changes an exported value or a
// proof element must make the outer circuit (delegation + in-circuit GKR verifier only)
// unsatisfiable.
package main

import (
	"bufio"
	"encoding/json"
	"errors"
	"fmt"
	"math/big"
	"os"
	"os/exec"
	"runtime"
	"runtime/debug"
	"sort"
	"strconv"
	"strings"
	"sync"
	"sync/atomic"
	"time"

	fiatshamir "github.com/consensys/gnark-crypto/fiat-shamir"
	"github.com/consensys/gnark/constraint"
	"github.com/consensys/gnark/constraint/solver"
	"github.com/consensys/gnark/internal/verifh/c19k"
	"github.com/consensys/gnark/internal/verifh/circ"
	"github.com/consensys/gnark/internal/verifh/hintenv"
	"github.com/consensys/gnark/internal/verifh/vh"
	"github.com/consensys/gnark/logger"
)

// ---------------------------------------------------------------- work list

type job struct {
	kind  string // "P" | "E"
	curve int
	cs    *c19k.Case
	pats  int // P: number of input patterns solved (5 = every slot takes every alphabet value)
	pairs int // E: 0 = single departures only; 1 = pairs containing an exported-value departure; 2 = all pairs
}

func (j *job) key(curves []c19k.Curve) string {
	return fmt.Sprintf("%s:%s:%s", j.kind, curves[j.curve].Name, j.cs)
}

var allGates = []int{0, 1, 2, 3, 4, 5}

// plan lists the jobs of a tier (deterministic order).
func plan(c *vh.Check, curves []c19k.Curve) (jobs []job, desc map[string]any) {
	topo4 := c19k.Enumerate(4, allGates)
	var topo3 []*c19k.Topo
	for _, t := range topo4 {
		if len(t.Wires) <= 3 {
			topo3 = append(topo3, t)
		}
	}
	// 4-wire circuits over the multiplicative core of the alphabet
	core4 := []*c19k.Topo{}
	for _, t := range c19k.Enumerate(4, []int{0, 2, 5}) {
		if len(t.Wires) == 4 {
			core4 = append(core4, t)
		}
	}
	desc = map[string]any{"topologies<=4wires": len(topo4), "topologies<=3wires": len(topo3), "4wire-over-add/mul/cubic": len(core4)}
	addP := func(cu int, ts []*c19k.Topo, ns []int, deps []string, hashes []string, pats int) {
		for _, t := range ts {
			for _, n := range ns {
				for _, d := range deps {
					if n == 1 && d != c19k.DepNone {
						continue
					}
					if n == 2 && (d == c19k.DepSingle || d == c19k.DepFan) {
						continue // identical to chain-fwd for two instances
					}
					for _, h := range hashes {
						jobs = append(jobs, job{kind: "P", curve: cu, cs: &c19k.Case{T: t, N: n, Dep: d, Hash: h}, pats: pats})
					}
				}
			}
		}
	}
	addE := func(cu int, ts []*c19k.Topo, ns []int, deps []string, pairs int) {
		for _, t := range ts {
			for _, n := range ns {
				for _, d := range deps {
					if n == 1 && d != c19k.DepNone {
						continue
					}
					jobs = append(jobs, job{kind: "E", curve: cu, cs: &c19k.Case{T: t, N: n, Dep: d, Hash: "mimc"}, pairs: pairs})
				}
			}
		}
	}
	allDeps := []string{c19k.DepNone, c19k.DepFwd, c19k.DepBwd, c19k.DepSingle, c19k.DepFan}
	// explicit dependency patterns: EVERY acyclic assignment of "explicit value or output of another
	// instance" to the (input wire, instance) slots, up to a number of edges
	topoNamed := func(name string) *c19k.Topo {
		for _, t := range topo4 {
			if t.String() == name {
				return t
			}
		}
		c.Fatal("topology %s not in the enumeration", name)
		return nil
	}
	nX := 0
	addX := func(kind string, cu int, name string, n, maxEdges, pats int) {
		t := topoNamed(name)
		for _, es := range c19k.EdgePatterns(t, n, maxEdges) {
			cs := c19k.WithEdges(t, n, "mimc", es)
			if kind == "P" {
				jobs = append(jobs, job{kind: "P", curve: cu, cs: cs, pats: pats})
			} else {
				jobs = append(jobs, job{kind: "E", curve: cu, cs: cs, pairs: 0})
			}
			nX++
		}
	}
	const oneIn, twoIn, twoInAdd = "w0=in;w1=mul(w0,w0)", "w0=in;w1=in;w2=mul(w0,w1)", "w0=in;w1=in;w2=add(w0,w1)"
	if c.Want("P") {
		if c.Quick() {
			addX("P", 0, oneIn, 4, 4, 2)
			addX("P", 0, twoIn, 2, 4, 2)
			addX("P", 0, twoIn, 4, 2, 1)
			addX("P", 0, twoInAdd, 4, 2, 1)
		} else {
			addX("P", 0, oneIn, 4, 4, 5)
			addX("P", 0, oneIn, 8, 2, 2)
			addX("P", 0, twoIn, 2, 4, 5)
			addX("P", 0, twoIn, 4, 8, 2)
			addX("P", 0, twoInAdd, 4, 3, 2)
			addX("P", 1, oneIn, 4, 4, 2)
			addX("P", 1, twoIn, 4, 2, 2)
		}
	}
	if c.Want("E") {
		addX("E", 0, twoIn, 2, 4, 0)
		if c.Quick() {
			addX("E", 0, oneIn, 4, 1, 0)
		} else {
			addX("E", 0, oneIn, 4, 4, 0)
			addX("E", 0, twoIn, 4, 2, 0)
		}
	}
	defer func() { desc["explicit-dependency-patterns"] = nX }()
	if c.Quick() {
		if c.Want("P") {
			// every circuit of <= 3 wires: every instance count, every dependency pattern; MiMC, and the
			// constant pseudo-hash for two instances
			addP(0, topo3, []int{1, 2, 4, 8}, allDeps, []string{"mimc"}, 5)
			addP(0, topo3, []int{2}, []string{c19k.DepNone, c19k.DepFwd, c19k.DepBwd}, []string{"-20"}, 5)
			// every circuit of 4 wires: 2 instances, no dependency, constant pseudo-hash, 2 input patterns; those over
			// add/mul/cubic also with the backward chain
			// (the exported values do not depend on the Fiat-Shamir hash)
			var only4 []*c19k.Topo
			for _, t := range topo4 {
				if len(t.Wires) == 4 {
					only4 = append(only4, t)
				}
			}
			addP(0, only4, []int{2}, []string{c19k.DepNone}, []string{"-20"}, 2)
			addP(0, core4, []int{2}, []string{c19k.DepBwd}, []string{"-20"}, 2)
			// 4-wire circuits over add/mul/cubic with MiMC
			addP(0, core4, []int{4}, []string{c19k.DepFwd}, []string{"mimc"}, 2)
		}
		if c.Want("E") {
			var e2, e3 []*c19k.Topo
			for _, t := range topo3 {
				if len(t.Wires) == 2 {
					e2 = append(e2, t)
				} else {
					e3 = append(e3, t)
				}
			}
			addE(0, e2, []int{1, 2, 4}, []string{c19k.DepNone, c19k.DepFwd, c19k.DepBwd}, 2)
			var e3core, e3rest []*c19k.Topo
			for _, t := range e3 {
				core := true
				for _, w := range t.Wires {
					if w.Gate >= 0 && w.Gate != 0 && w.Gate != 2 && w.Gate != 5 {
						core = false
					}
				}
				if core {
					e3core = append(e3core, t)
				} else {
					e3rest = append(e3rest, t)
				}
			}
			addE(0, e3core, []int{2}, []string{c19k.DepNone}, 1)
			addE(0, e3rest, []int{2}, []string{c19k.DepNone}, 0)
			addE(0, e3, []int{2}, []string{c19k.DepBwd}, 0)
		}
	} else {
		var only4 []*c19k.Topo
		for _, t := range topo4 {
			if len(t.Wires) == 4 {
				only4 = append(only4, t)
			}
		}
		chains := []string{c19k.DepNone, c19k.DepFwd, c19k.DepBwd}
		if c.Want("P") {
			// bn254: the full product with MiMC; the constant pseudo-hash for two instances
			addP(0, topo4, []int{1, 2, 4, 8}, allDeps, []string{"mimc"}, 5)
			addP(0, topo4, []int{2}, chains, []string{"-20"}, 5)
			// bls12-377: <= 3 wires: the full product with every hash; 4 wires: 2 and 4 instances, chains, MiMC
			addP(1, topo3, []int{1, 2, 4, 8}, allDeps, curves[1].Hashes, 5)
			addP(1, only4, []int{2, 4}, chains, []string{"mimc"}, 5)
		}
		if c.Want("E") {
			addE(0, topo3, []int{1, 2}, chains, 2)
			var t3 []*c19k.Topo
			for _, t := range topo3 {
				if len(t.Wires) == 3 {
					t3 = append(t3, t)
				} else {
					addE(0, []*c19k.Topo{t}, []int{4}, chains, 2)
				}
			}
			addE(0, t3, []int{4}, []string{c19k.DepNone, c19k.DepBwd}, 1)
			addE(0, core4, []int{2}, []string{c19k.DepNone, c19k.DepBwd}, 0)
		}
	}
	// interleave P and E jobs proportionally, so that a run stopped by the deadline has covered both
	nk := map[string]int{}
	for _, j := range jobs {
		nk[j.kind]++
	}
	pos := map[string]int{}
	frac := make([]float64, len(jobs))
	for i, j := range jobs {
		frac[i] = float64(pos[j.kind]) / float64(nk[j.kind])
		pos[j.kind]++
	}
	idx := make([]int, len(jobs))
	for i := range idx {
		idx[i] = i
	}
	sort.SliceStable(idx, func(a, b int) bool { return frac[idx[a]] < frac[idx[b]] })
	sorted := make([]job, len(jobs))
	for i, k := range idx {
		sorted[i] = jobs[k]
	}
	jobs = sorted
	return
}

// ---------------------------------------------------------------- P

var genericValue, _ = new(big.Int).SetString("1234567890123456789012345678901234567890123456789012345678901", 10)

func alphabet(q *big.Int) []*big.Int {
	return []*big.Int{big.NewInt(0), big.NewInt(1), big.NewInt(2), new(big.Int).Sub(q, big.NewInt(1)), new(big.Int).Mod(genericValue, q)}
}

// pattern j assigns value (2*wire + instance + j) mod 5 of the alphabet to slot (wire, instance):
// over j = 0..4 every explicit input takes each of the five values.
func pattern(cs *c19k.Case, q *big.Int, j int) []*big.Int {
	a := alphabet(q)
	var in []*big.Int
	for _, s := range cs.Slots() {
		in = append(in, a[(2*s[0]+s[1]+j)%5])
	}
	return in
}

func solve(ccs constraint.ConstraintSystem, q *big.Int, sec []*big.Int) (err error, pan string) {
	w, werr := circ.Witness(circ.Assign(nil, sec), q)
	if werr != nil {
		return werr, ""
	}
	if hung.Load() >= maxHung {
		return errTooManyHung, ""
	}
	type res struct {
		err error
		pan string
	}
	ch := make(chan res, 1)
	go func() {
		var r res
		r.pan = vh.Recover(func() {
			_, r.err = ccs.Solve(w, solver.OverrideHint(hintenv.BsbID, hintenv.CommitHash), solver.WithNbTasks(1))
		})
		ch <- r
	}()
	t0 := time.Now()
	tick := time.NewTicker(500 * time.Millisecond)
	defer tick.Stop()
	for {
		select {
		case r := <-ch:
			el := int64(time.Since(t0))
			for {
				cur := slowestSolve.Load()
				if el <= cur || slowestSolve.CompareAndSwap(cur, el) {
					break
				}
			}
			return r.err, r.pan
		case <-tick.C:
			// a solve of these circuits takes milliseconds; the limit follows the machine load
			// (25 x the slowest solve that did return); the goroutine cannot be killed and keeps a core busy
			lim := hangAfter
			if x := 25 * time.Duration(slowestSolve.Load()); x > lim {
				lim = x
			}
			if time.Since(t0) > lim {
				hung.Add(1)
				return nil, hangMark
			}
		}
	}
}

var slowestSolve atomic.Int64

const (
	hangAfter = 2 * time.Minute
	hangMark  = "HANG: the solver did not return within max(2 minutes, 25 x the slowest solve that returned); a solve of this circuit takes milliseconds"
	maxHung   = 2
)

var (
	hung           atomic.Int64
	errTooManyHung = errors.New("skipped: too many hung solver goroutines in this process")
)

func short(s string) string {
	if i := strings.IndexByte(s, '\n'); i >= 0 {
		s = s[:i]
	}
	if len(s) > 90 {
		s = s[:90]
	}
	return s
}

func runP(c *vh.Check, cu c19k.Curve, cs *c19k.Case, key string, pats, idx int) {
	q := cu.Field
	nSec, def := cs.Build(true)
	ccs, err, pan := circ.Compile(q, circ.R1CS, circ.New(0, nSec, def))
	c.Evals.Add(1)
	fam := fmt.Sprintf("P:%s:wires=%d:n=%d:dep=%s:hash=%s", cu.Name, len(cs.T.Wires), cs.N, cs.Dep, cs.Hash)
	if pan != "" {
		// the API does not accept this configuration (not a delegated computation): recorded, not judged
		c.Outcome(fmt.Sprintf("P:%s:n=%d:dep=%s:api-panics", cu.Name, cs.N, cs.Dep))
		c.Count("P-api-panic", fmt.Sprintf("n=%d:dep=%s: %s", cs.N, cs.Dep, short(pan)), 1)
		return
	}
	if err != nil {
		c.Outcome(fmt.Sprintf("P:%s:n=%d:dep=%s:api-error", cu.Name, cs.N, cs.Dep))
		c.Count("P-api-error", fmt.Sprintf("n=%d:dep=%s: %s", cs.N, cs.Dep, short(err.Error())), 1)
		return
	}
	outs := cs.T.Outputs()
	c.Count("P-cases", fmt.Sprintf("wires=%d:n=%d:dep=%s:hash=%s:patterns=%d", len(cs.T.Wires), cs.N, cs.Dep, cs.Hash, pats), 1)
	for jj := 0; jj < pats; jj++ {
		j := jj
		if pats < 5 {
			j = (idx + 2*jj) % 5 // fewer patterns: rotate with the job index
		}
		in := pattern(cs, q, j)
		vals := cs.Ref(q, in)
		sec := append([]*big.Int(nil), in...)
		for _, o := range outs {
			sec = append(sec, vals[o]...)
		}
		err, pan := solve(ccs, q, sec)
		c.Evals.Add(1)
		c.Traces.Add(1)
		det := map[string]any{"case": cs.String(), "curve": cu.Name, "inputs(slot order)": fmt.Sprint(in), "expected outputs": fmt.Sprint(sec[len(in):])}
		if err == errTooManyHung {
			c.Cap("P: " + err.Error())
			return
		}
		if pan == hangMark {
			det["panic"] = pan
			c.Outcome(fam + ":solver-hang")
			c.Violation(fmt.Sprintf("%s:pattern=%d:solver-hang", key, j), det)
			return
		}
		if pan != "" {
			det["panic"] = pan
			c.Violation(fmt.Sprintf("%s:pattern=%d:solver-panic", key, j), det)
			continue
		}
		if err != nil {
			det["error"] = err.Error()
			c.Violation(fmt.Sprintf("%s:pattern=%d:honest-unsat", key, j), det)
			continue
		}
		c.Outcome(fam + ":delegated==direct")
		if jj == 0 {
			if cs.N == 4 && cs.Dep == c19k.DepBwd && cs.T.String() == "w0=in;w1=in;w2=cubic(w0,w1)" {
				c.Sample(map[string]any{"check": "P", "case": cs.String(), "inputs(slot order)": fmt.Sprint(in), "exported==direct==reference": fmt.Sprint(sec[len(in):])})
			}
			// expected value off by one: must be unsatisfiable
			bad := append([]*big.Int(nil), sec...)
			bad[len(bad)-1] = new(big.Int).Add(bad[len(bad)-1], big.NewInt(1))
			err, pan := solve(ccs, q, bad)
			c.Evals.Add(1)
			if err == nil && pan == "" {
				c.Violation(fmt.Sprintf("%s:pattern=%d:expected+1-accepted", key, j), det)
			} else {
				c.Outcome(fmt.Sprintf("P:%s:expected+1:rejected", cu.Name))
			}
		}
	}
}

// ---------------------------------------------------------------- E

type advState struct {
	solveID, proveID solver.HintID
	x                *vh.Ctx // nil: record the honest outputs
	q                *big.Int
	nInst            int
	hOut, hProof     []*big.Int
	hChal            []*big.Int // initial challenges handed to the proving hint in the genuine run
	shift            []*big.Int // when set: added to the solve-hint outputs instead of consulting the explorer
	changedOut       bool
	changedProof     bool
	calls            int
}

var adv sync.Map // *system -> *advState

func init() {
	constraint.VerifHintHook = func(cs any, id solver.HintID, q *big.Int, inputs, outputs []*big.Int, err error) error {
		v, ok := adv.Load(cs)
		if !ok || err != nil {
			return err
		}
		st := v.(*advState)
		switch id {
		case st.solveID:
			st.calls++
			if st.shift != nil {
				for i := range outputs {
					outputs[i].Add(outputs[i], st.shift[i]).Mod(outputs[i], st.q)
				}
				st.changedOut = true
				return nil
			}
			st.changedOut = st.depart("solve.out", outputs, &st.hOut, st.nInst, false)
		case st.proveID:
			st.calls++
			if st.shift != nil {
				return nil
			}
			if st.x == nil {
				st.hChal = nil
				for _, v := range inputs[1:] {
					st.hChal = append(st.hChal, new(big.Int).Set(v))
				}
			}
			st.changedProof = st.depart("prove.el", outputs, &st.hProof, len(outputs), true)
		}
		return nil
	}
}

// depart applies the chosen departures to vals (blocks of `block` elements; swaps stay inside a block).
func (st *advState) depart(label string, vals []*big.Int, honest *[]*big.Int, block int, zero bool) (changed bool) {
	h := make([]*big.Int, len(vals))
	for i := range vals {
		h[i] = new(big.Int).Set(vals[i])
	}
	if st.x == nil {
		*honest = h
		return false
	}
	nAlt := 4
	if zero {
		nAlt = 5
	}
	for j := range vals {
		k := st.x.Choose(fmt.Sprintf("%s[%d]", label, j), nAlt)
		switch {
		case k == 1:
			vals[j].Add(vals[j], big.NewInt(1)).Mod(vals[j], st.q)
		case k == 2:
			vals[j].Sub(vals[j], big.NewInt(1)).Mod(vals[j], st.q)
		case k == 3: // swap with the next element of the block (cyclic)
			b0 := j - j%block
			j2 := b0 + (j-b0+1)%block
			if b0+block > len(vals) {
				j2 = j
			}
			vals[j].Set(h[j2])
			vals[j2].Set(h[j])
		case k == 4:
			vals[j].SetInt64(0)
		}
	}
	for i := range vals {
		if vals[i].Cmp(h[i]) != 0 {
			changed = true
		}
	}
	return
}

func runE(c *vh.Check, cu c19k.Curve, cs *c19k.Case, key string, pairs int) {
	q := cu.Field
	nSec, def := cs.Build(false)
	ccs, err, pan := circ.Compile(q, circ.R1CS, circ.New(0, nSec, def))
	c.Evals.Add(1)
	if pan != "" || err != nil {
		c.Outcome(fmt.Sprintf("E:%s:n=%d:dep=%s:api-rejects", cu.Name, cs.N, cs.Dep))
		return
	}
	gi := gkrInfoOf(ccs)
	if gi == nil {
		c.Fatal("%s: compiled system carries no GkrInfo", key)
	}
	st := &advState{solveID: gi.SolveHintID, proveID: gi.ProveHintID, q: q, nInst: cs.N}
	adv.Store(ccs, st)
	defer adv.Delete(ccs)
	in := pattern(cs, q, 4)
	// honest run: records the genuine hint outputs
	if err, pan := solve(ccs, q, in); err != nil || pan != "" {
		if err == errTooManyHung {
			c.Cap("E: " + err.Error())
			return
		}
		kind := ":honest-unsat"
		if pan == hangMark {
			kind = ":solver-hang"
		}
		c.Violation(key+kind, map[string]any{"case": cs.String(), "error": fmt.Sprint(err), "panic": pan})
		return
	}
	if st.calls != 2 {
		c.Fatal("%s: hook saw %d GKR hint calls in the honest run (ids %v %v)", key, st.calls, gi.SolveHintID, gi.ProveHintID)
	}
	c.Count("E-choice-points", fmt.Sprintf("wires=%d:n=%d:dep=%s", len(cs.T.Wires), cs.N, cs.Dep), int64(len(st.hOut)+len(st.hProof)))
	var sampled atomic.Bool
	ex := &vh.Explorer{Bound: 2, Workers: 1, Stop: c.Expired}
	if pairs == 0 {
		ex.Bound = 1
	}
	if pairs == 1 {
		// two departures: at least one of them on an exported value
		ex.Prune = func(x *vh.Ctx, i int) bool {
			if !strings.HasPrefix(x.Labels[i], "prove") {
				return false
			}
			for j := 0; j < i; j++ {
				if x.Choices[j] != 0 && strings.HasPrefix(x.Labels[j], "prove") {
					return true
				}
			}
			return false
		}
	}
	ex.Run = func(x *vh.Ctx) {
		st.x, st.changedOut, st.changedProof = x, false, false
		err, pan := solve(ccs, q, in)
		c.Evals.Add(1)
		c.Transitions.Add(1)
		c.Traces.Add(1)
		tr := x.Trace()
		fam := fmt.Sprintf("E:%s:wires=%d:n=%d:dep=%s", cu.Name, len(cs.T.Wires), cs.N, cs.Dep)
		det := map[string]any{"case": cs.String(), "curve": cu.Name, "inputs(slot order)": fmt.Sprint(in), "departures": tr,
			"honest solve-hint outputs": fmt.Sprint(st.hOut), "honest proof": fmt.Sprint(st.hProof), "choices": x.Choices}
		switch {
		case pan != "":
			det["panic"] = pan
			c.Violation(fmt.Sprintf("%s:%v:solver-panic", key, tr), det)
		case !st.changedOut && !st.changedProof:
			if err != nil {
				det["error"] = err.Error()
				c.Violation(fmt.Sprintf("%s:%v:unchanged-hint-outputs-rejected", key, tr), det)
			}
			c.Outcome(fam + ":no-effective-departure:solved")
		case err == nil && st.changedOut:
			c.Violation(fmt.Sprintf("%s:%v:forged-exported-value-accepted", key, tr), det)
		case err == nil:
			c.Violation(fmt.Sprintf("%s:%v:altered-proof-accepted", key, tr), det)
		default:
			what := "proof"
			if st.changedOut {
				what = "exported"
				if st.changedProof {
					what = "exported+proof"
				}
			}
			c.Outcome(fam + ":" + what + "-altered:unsat")
			if st.changedOut && len(tr) == 2 && cs.Dep == c19k.DepBwd && (len(cs.T.Wires) == 3 || cs.T.String() == "w0=in;w1=mul(w0,w0)") && cs.T.Wires[len(cs.T.Wires)-1].Gate == 2 && sampled.CompareAndSwap(false, true) {
				c.Sample(map[string]any{"check": "E", "case": cs.String(), "departures": tr, "verdict": short(err.Error())})
			}
		}
	}
	if !ex.Explore() {
		c.Cap("deadline during dishonest-prover exploration of " + key)
	}
	// weak Fiat-Shamir adversary (2 instances, one output wire, no dependency): shift the exported
	// vector along the kernel of "evaluate at the first challenge", the challenge being computed
	// (a) from the genuine initial challenge, (b) as if nothing were bound into the transcript
	if cs.N == 2 && cs.Dep == c19k.DepNone && len(cs.T.Outputs()) == 1 && len(st.hChal) == 1 && cu.MiMC != nil {
		for _, bound := range []bool{true, false} {
			tr := fiatshamir.NewTranscript(cu.MiMC(), "fC.0")
			if bound {
				b := make([]byte, (q.BitLen()+7)/8)
				st.hChal[0].FillBytes(b)
				if err := tr.Bind("fC.0", b); err != nil {
					c.Fatal("fiat-shamir bind: %v", err)
				}
			}
			rb, err := tr.ComputeChallenge("fC.0")
			if err != nil {
				c.Fatal("fiat-shamir: %v", err)
			}
			r := new(big.Int).SetBytes(rb)
			r.Mod(r, q)
			r1 := new(big.Int).Sub(r, big.NewInt(1)) // r-1 = -(1-r)
			for o, v := range [][]*big.Int{{r, r1}, {r1, r}} {
				st.x, st.shift, st.changedOut, st.changedProof = nil, v, false, false
				err, pan := solve(ccs, q, in)
				st.shift = nil
				c.Evals.Add(1)
				c.Transitions.Add(1)
				name := fmt.Sprintf("weak-fiat-shamir-shift(first challenge computed %s the initial challenge, orientation %d)", map[bool]string{true: "with", false: "without"}[bound], o)
				if err == nil && pan == "" {
					c.Violation(fmt.Sprintf("%s:[%s]:forged-exported-value-accepted", key, name), map[string]any{"case": cs.String(), "curve": cu.Name, "inputs(slot order)": fmt.Sprint(in), "departure": name, "shift": fmt.Sprint(v), "honest solve-hint outputs": fmt.Sprint(st.hOut)})
				} else {
					c.Outcome(fmt.Sprintf("E:%s:weak-fiat-shamir-shift:unsat", cu.Name))
				}
			}
		}
	}
	c.States.Add(ex.Points.Load())
	c.Count("E-executions", fmt.Sprintf("wires=%d:n=%d:dep=%s", len(cs.T.Wires), cs.N, cs.Dep), ex.Execs.Load())
	c.Count("E-cases", fmt.Sprintf("wires=%d:n=%d:dep=%s", len(cs.T.Wires), cs.N, cs.Dep), 1)
}

func gkrInfoOf(ccs constraint.ConstraintSystem) *constraint.GkrInfo { return c19k.GkrInfo(ccs) }

// ---------------------------------------------------------------- sharding

// A Solve of a GKR system that fails before the proving hint runs leaves its worker pool behind
// (NumCPU+2 parked goroutines; only Prove stops the pool), so the long thorough work list is cut
// into shards run by short-lived subprocesses.
var nShards = 1 // quick: one process; thorough: see main

func init() {
	if s := os.Getenv("VERIF_C19_SHARDS"); s != "" {
		if n, err := strconv.Atoi(s); err == nil && n > 0 {
			nShards = n
		}
	}
}

func runShard(c *vh.Check, curves []c19k.Curve, jobs []job, shard int) {
	var mine []int
	for i := range jobs {
		if i%nShards == shard {
			mine = append(mine, i)
		}
	}
	ok := c.Par(len(mine), func(k int) {
		j := &jobs[mine[k]]
		if j.kind == "P" {
			runP(c, curves[j.curve], j.cs, j.key(curves), j.pats, mine[k])
		} else {
			runE(c, curves[j.curve], j.cs, j.key(curves), j.pairs)
		}
	})
	if !ok {
		c.Cap(fmt.Sprintf("deadline inside shard %d", shard))
	}
	c.Count("goroutines-left-behind-by-gkr-solves", "total", int64(runtime.NumGoroutine()))
}

func main() {
	c := vh.New("C19")
	logger.Disable()
	// thousands of short solves over ~1 MB systems: a small heap is much cheaper here than the
	// runtime default of the harness (fresh pages are expensive in this VM)
	debug.SetGCPercent(100)
	curves := c19k.Register()
	if c.Quick() {
		curves = curves[:1]
	}
	if !c.Quick() && os.Getenv("VERIF_C19_SHARDS") == "" {
		nShards = 23 // prime: no aliasing with the inner loops of the plan
	}
	jobs, desc := plan(c, curves)
	if unit, _, ok := vh.WorkerArgs(); ok {
		shard, _ := strconv.Atoi(unit)
		runShard(c, curves, jobs, shard)
		c.WorkerDone()
	}
	c.Rule("P: circuits = all wire lists (inputs first, then gates over earlier wires; gates add, sub, mul, neg, identity, a registered custom degree-3 gate x*y*y+x; add/mul with one argument order; every input used; <= 2 distinct consumers per wire; inputs numbered by first use) x instances {1,2,4,8} x dependency pattern between instances (none / forward chain / backward chain / single / fan-in from instance 0: the first input of an instance is fed by the last wire of another) x Fiat-Shamir hash; in addition EXPLICIT dependency patterns: every acyclic assignment of 'explicit value or last wire of another instance' to the (input wire, instance) slots up to an edge bound (quick: one-input circuit x 4 instances: all 125 forests; two-input mul circuit: 2 instances all, 4 instances <= 2 edges; two-input add circuit 4 instances <= 2 edges; thorough: two-input circuit x 4 instances without edge bound, 8 instances <= 2 edges, bls12-377); a solve that does not return within 2 minutes is reported as a hang. quick (bn254): all circuits <= 3 wires x all instance counts x all dependency patterns with MiMC (5 input patterns) and, for 2 instances, with the constant pseudo-hash; all 4-wire circuits with 2 instances, no dependency, constant pseudo-hash, 2 input patterns; 4-wire circuits over add/mul/cubic also with the backward chain (2 instances) and with MiMC on 4 instances in a forward chain. thorough: bn254: the full product for <= 4 wires with MiMC, the constant pseudo-hash for 2 instances; bls12-377: <= 3 wires full product with MiMC, Poseidon2 and the constant pseudo-hash, 4 wires with 2 and 4 instances (none / forward / backward) with MiMC; 5 patterns. Each case: one compile of the outer circuit (delegation + the same gates with plain api calls + equality for every instance; initial challenge = commitment to all inputs and exported values), one solve per input pattern (pattern j gives slot (w,i) the value #(2w+i+j mod 5) of {0,1,2,p-1,generic}; the expected values come from a big.Int reference), one solve with an expected value off by one. E (MiMC): per case the genuine outputs of the solve hint (each: +1, -1, swapped with the next instance) and of the prove hint (each: +1, -1, swapped with the next element, 0) are choice points of an explorer; the outer circuit contains only delegation + commitment + GKR verifier. quick: 2-wire circuits x {2,4} instances x {none, forward, backward}: all combinations of <= 2 departures; 3-wire circuits, 2 instances: single departures without dependency and with the backward chain; 3-wire circuits over add/mul/cubic without dependency also pairs containing an exported-value departure; for 2 instances, one output wire, no dependency additionally the weak-Fiat-Shamir adversary (exported vector shifted along the kernel of the evaluation at the first challenge, that challenge computed with / without the initial challenge). thorough: <= 3 wires x 2 instances and 2 wires x 4 instances x {none, forward, backward}: all pairs; 3 wires x 4 instances (none / backward): pairs containing an exported-value departure; 4-wire add/mul/cubic circuits x 2 instances (none / backward): single departures. distinct = (sub-check, curve, wires, instances, dependency, hash, verdict).")
	c.Assume("Fiat-Shamir hash MiMC behaves as a random oracle (a forged run is accepted with negligible probability); the commitment placeholder is replaced by a hash of the committed values (hintenv.CommitHash)",
		"the constant pseudo-hash '-20' of gnark's own tests is used for honest runs only",
		"hash names are registered by the harness (the library registers none by default): mimc on both sides for bn254 / bls12-377, poseidon2 for bls12-377")
	c.Extra("plan", desc)
	c.Extra("jobs", len(jobs))
	if nShards == 1 {
		runShard(c, curves, jobs, 0)
		c.Finish()
	}
	// coordinator: run the shards in subprocesses, two at a time with 8 workers each
	conc := 2
	var next atomic.Int64
	var wg sync.WaitGroup
	exe, _ := os.Executable()
	for w := 0; w < conc; w++ {
		wg.Add(1)
		go func() {
			defer wg.Done()
			for {
				s := int(next.Add(1) - 1)
				if s >= nShards {
					return
				}
				if c.Expired() {
					c.Cap(fmt.Sprintf("deadline before shard %d", s))
					continue
				}
				args := []string{"-tier", c.Tier}
				if c.Only != "" {
					args = append(args, "-only", c.Only)
				}
				cmd := exec.Command(exe, args...)
				cmd.Env = append(os.Environ(), "VERIF_WORKER_UNIT="+strconv.Itoa(s), "VERIF_WORKERS=8", fmt.Sprintf("VERIF_DEADLINE_UNIX=%d", c.Deadline.Unix()))
				var stderr strings.Builder
				cmd.Stderr = &stderr
				out, _ := cmd.StdoutPipe()
				if err := cmd.Start(); err != nil {
					c.Fatal("start shard: %v", err)
				}
				sc := bufio.NewScanner(out)
				sc.Buffer(make([]byte, 1<<20), 1<<28)
				done := false
				for sc.Scan() {
					line := sc.Text()
					if strings.HasPrefix(line, "DONE ") {
						var st vh.State
						if err := json.Unmarshal([]byte(line[5:]), &st); err != nil {
							c.Fatal("shard state: %v", err)
						}
						c.Merge(st)
						done = true
					} else if strings.HasPrefix(line, "HARNESS-ERROR") {
						fmt.Println(line)
						os.Exit(3)
					}
				}
				cmd.Wait()
				if !done {
					e := stderr.String()
					if len(e) > 3000 {
						e = e[:3000]
					}
					c.Fatal("shard %d died:\n%s", s, e)
				}
			}
		}()
	}
	wg.Wait()
	c.Finish()
}
