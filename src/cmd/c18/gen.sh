#!/bin/bash
# Derive the per-curve C18 kits from the bn254 template by path substitution (run by hand after
# editing src/c18k/bn254/kit.go; the generated files are kept in the tree).
set -e
src=/verif/src/c18k/bn254
gen() { # dir eccname pkgsuffix
  d=/verif/src/c18k/$1; mkdir -p $d
  for f in $src/*.go; do
    sed -e "s#gnark-crypto/ecc/bn254#gnark-crypto/ecc/$1#g" \
        -e "s#gnark/backend/groth16/bn254#gnark/backend/groth16/$1#g" \
        -e "s#gnark/constraint/bn254#gnark/constraint/$1#g" \
        -e "s#ecc\.BN254#ecc.$2#g" \
        -e "s#package c18kbn254#package c18k$3#g" \
        -e "s#const curveName = \"bn254\"#const curveName = \"$1\"#" \
        -e "s#THIS FILE IS THE TEMPLATE#GENERATED from src/c18k/bn254 by src/cmd/c18/gen.sh; DO NOT EDIT#" \
        $f > $d/$(basename $f)
  done
}
gen bls12-377 BLS12_377 bls12377
gen bls12-381 BLS12_381 bls12381
gen bls24-315 BLS24_315 bls24315
gen bls24-317 BLS24_317 bls24317
gen bw6-633 BW6_633 bw6633
gen bw6-761 BW6_761 bw6761
