// C18: MPC setup accepts only valid contribution chains and yields working keys.
//
// The ceremony verifier is explored as a protocol state machine: the state is the last accepted
// contribution, the transition function is the REAL Phase1.Verify / Phase2.Verify (and the
// top-level VerifyPhase1 / VerifyPhase2).  (H) every offer sequence of bounded length over a
// pool of two independent honest transcripts is compared with the reference machine; (E) every
// field of every serialized contribution is edited over a finite alphabet and offered in the
// state where the genuine one is accepted; (O) the keys extracted from every accepted chain
// prove and verify with the real Groth16 prover / verifier.
package main

import (
	"fmt"
	"strings"
	"sync"

	"github.com/consensys/gnark/internal/verifh/c18k"
	_ "github.com/consensys/gnark/internal/verifh/c18k/bls12-377"
	_ "github.com/consensys/gnark/internal/verifh/c18k/bls12-381"
	_ "github.com/consensys/gnark/internal/verifh/c18k/bls24-315"
	_ "github.com/consensys/gnark/internal/verifh/c18k/bls24-317"
	_ "github.com/consensys/gnark/internal/verifh/c18k/bn254"
	_ "github.com/consensys/gnark/internal/verifh/c18k/bw6-633"
	_ "github.com/consensys/gnark/internal/verifh/c18k/bw6-761"
	"github.com/consensys/gnark/internal/verifh/vh"
	"github.com/consensys/gnark/logger"
)

func main() {
	c := vh.New("C18")
	logger.Disable()
	c.Rule("per (curve, phase, domain size N, circuit with k commitments): pool = honest transcripts A=a1,a2,a3 and B=b1,b2 produced by the real Contribute (crypto/rand), each as the in-memory object and as its WriteTo/ReadFrom image. H: ALL offer sequences of length <= L over the pool (5 symbols on fresh decoded copies + top-level VerifyPhaseN; 10 symbols = 2 forms on objects shared by the whole enumeration) run through the real Verify; reference machine: offer x accepted in state s iff s is x's predecessor in its own transcript; a rejected offer leaves the state. E: every group element of every serialized contribution x {infinity, generator, negation, double, neighbouring element of the same group, same field of the other transcript}, challenge bytes flipped / replaced / emptied, every length counter +-1, offered in the state where the genuine image is accepted (thorough: also pairs on small layouts). O: for every accepted phase-1 chain x phase-2 chain the keys from VerifyPhase2/Seal prove and verify a valid witness; the same proof is rejected for a wrong public input; an invalid witness yields no proof. states = distinct accepted prefixes, transitions = offers. distinct = (sub-check, phase, field class, edit, verdict class).")
	c.Assume("the pairing-based ratio checks use fresh random linear-combination coefficients: an inconsistent contribution is accepted with probability ~2^-250 (verdicts do not depend on the ceremony's randomness otherwise)",
		"a contribution whose Challenge field was emptied is the same contribution (Verify recomputes the field by design); the check requires that after acceptance it re-serializes to the genuine image",
		"the harness-side layout parser of the serialized images is validated against the real encoder (must consume exactly the WriteTo image)")
	o := c18k.Opts{Ns: []int{2, 4, 8}, Ks: []int{0, 1, 2}, SeqLen: 3, PairSlot: 16}
	curves := []string{"bn254", "bls12-377"}
	if !c.Quick() {
		curves = c18k.Curves()
		o.Pairs = true
	}
	if c.Only != "" {
		// -only may also name curves, e.g. -only bn254,H
		var cs []string
		for _, cu := range c18k.Curves() {
			for _, s := range strings.Split(c.Only, ",") {
				if s == cu {
					cs = append(cs, cu)
				}
			}
		}
		if len(cs) > 0 {
			curves = cs
			var rest []string
			for _, s := range strings.Split(c.Only, ",") {
				if _, ok := c18k.Get(s); !ok {
					rest = append(rest, s)
				}
			}
			c.Only = strings.Join(rest, ",")
		}
	}
	c.Extra("curves", curves)
	c.Extra("bounds", map[string]any{"N": o.Ns, "commitments": o.Ks, "sequence_length": o.SeqLen, "pairs": o.Pairs})
	type pass struct {
		curve string
		o     c18k.Opts
	}
	var passes []pass
	for _, cu := range curves {
		oo := o
		oo.Pairs = false
		if c.Quick() && cu != "bn254" {
			oo.Ns = []int{2, 4} // second curve of the quick tier: the two small domains
		}
		if strings.HasPrefix(cu, "bw6") {
			oo.Ns = []int{2, 4} // the two slowest curves
		}
		passes = append(passes, pass{cu, oo})
	}
	if !c.Quick() {
		// extras after every curve had its standard pass: longer sequences, pairs of departures
		for _, cu := range curves {
			if cu == "bn254" {
				oo := o
				oo.Pairs, oo.SeqLen, oo.Sub = false, 4, "H"
				passes = append(passes, pass{cu, oo})
			}
		}
		for _, cu := range curves {
			if cu == "bn254" || cu == "bls12-377" {
				oo := o
				oo.Pairs, oo.Sub, oo.Ns = true, "E", []int{2, 4}
				passes = append(passes, pass{cu, oo})
			}
		}
	}
	// the standard passes of all curves run side by side (the shared-object enumeration of a
	// phase is sequential by nature), then the extras
	run := func(ps []pass) {
		var wg sync.WaitGroup
		for _, p := range ps {
			k, ok := c18k.Get(p.curve)
			if !ok {
				c.Fatal("no kit for curve %s", p.curve)
			}
			if c.Expired() {
				c.Cap(fmt.Sprintf("deadline before pass %s %+v", p.curve, p.o))
				continue
			}
			wg.Add(1)
			go func() { defer wg.Done(); k.Run(c, p.o) }()
		}
		wg.Wait()
	}
	run(passes[:len(curves)])
	run(passes[len(curves):])
	c.Finish()
}
