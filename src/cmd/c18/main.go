// C18: MPC setup accepts only valid contribution chains and yields working keys.
//
// The ceremony verifier is explored as a protocol state machine: the state is the last accepted
// contribution, the transition function is the REAL Phase1.Verify / Phase2.Verify (and the
// top-level VerifyPhase1 / VerifyPhase2).  (H) every offer sequence of bounded length over a
// pool of two independent honest transcripts is compared with the reference machine; (E) every
// field of every serialized contribution is edited over a finite alphabet and offered in the
// state where the genuine one is accepted; (O) the keys extracted from every accepted chain
// prove and verify with the real Groth16 prover / verifier.
package main

import (
	"bufio"
	"encoding/json"
	"fmt"
	"os"
	"os/exec"
	"strconv"
	"strings"
	"sync"

	"github.com/consensys/gnark/internal/verifh/c18k"
	_ "github.com/consensys/gnark/internal/verifh/c18k/bls12-377"
	_ "github.com/consensys/gnark/internal/verifh/c18k/bls12-381"
	_ "github.com/consensys/gnark/internal/verifh/c18k/bls24-315"
	_ "github.com/consensys/gnark/internal/verifh/c18k/bls24-317"
	_ "github.com/consensys/gnark/internal/verifh/c18k/bn254"
	_ "github.com/consensys/gnark/internal/verifh/c18k/bw6-633"
	_ "github.com/consensys/gnark/internal/verifh/c18k/bw6-761"
	"github.com/consensys/gnark/internal/verifh/vh"
	"github.com/consensys/gnark/logger"
)

func main() {
	c := vh.New("C18")
	logger.Disable()
	c.Rule("per (curve, phase, domain size N, circuit with k commitments): pool = honest transcripts A=a1,a2,a3 and B=b1,b2 produced by the real Contribute (crypto/rand), each as the in-memory object and as its WriteTo/ReadFrom image. H: ALL offer sequences of length <= L over the pool (5 symbols on fresh decoded copies + top-level VerifyPhaseN; 10 symbols = 2 forms on objects shared by the whole enumeration) run through the real Verify; reference machine: offer x accepted in state s iff s is x's predecessor in its own transcript; a rejected offer leaves the state. E: every group element of every serialized contribution x {infinity, generator, negation, double, neighbouring element of the same group, same field of the other transcript}, challenge bytes flipped / replaced / emptied, every length counter +-1, offered in the state where the genuine image is accepted (thorough: also pairs on small layouts). O: for every accepted phase-1 chain x phase-2 chain the keys from VerifyPhase2/Seal prove and verify a valid witness; the same proof is rejected for a wrong public input; an invalid witness yields no proof. states = distinct accepted prefixes, transitions = offers. distinct = (sub-check, phase, field class, edit, verdict class).")
	c.Assume("the pairing-based ratio checks use fresh random linear-combination coefficients: an inconsistent contribution is accepted with probability ~2^-250 (verdicts do not depend on the ceremony's randomness otherwise)",
		"a contribution whose Challenge field was emptied is the same contribution (Verify recomputes the field by design); the check requires that after acceptance it re-serializes to the genuine image",
		"the harness-side layout parser of the serialized images is validated against the real encoder (must consume exactly the WriteTo image)")
	o := c18k.Opts{Ns: []int{2, 4, 8}, Ks: []int{0, 1, 2}, SeqLen: 3, PairSlot: 16}
	curves := []string{"bn254", "bls12-377"} // quick: full passes on two curves; element edits on the other five (below)
	if !c.Quick() {
		curves = c18k.Curves()
		o.Pairs = true
	}
	if c.Only != "" {
		// -only may also name curves, e.g. -only bn254,H
		var cs []string
		for _, cu := range c18k.Curves() {
			for _, s := range strings.Split(c.Only, ",") {
				if s == cu {
					cs = append(cs, cu)
				}
			}
		}
		if len(cs) > 0 {
			curves = cs
			var rest []string
			for _, s := range strings.Split(c.Only, ",") {
				if _, ok := c18k.Get(s); !ok {
					rest = append(rest, s)
				}
			}
			c.Only = strings.Join(rest, ",")
		}
	}
	c.Extra("curves", curves)
	c.Extra("bounds", map[string]any{"N": o.Ns, "commitments": o.Ks, "sequence_length": o.SeqLen, "pairs": o.Pairs})
	type pass struct {
		curve string
		o     c18k.Opts
	}
	var passes []pass
	for _, cu := range curves {
		oo := o
		oo.Pairs = false
		if c.Quick() && cu != "bn254" {
			oo.Ns = []int{2, 4} // second curve of the quick tier: the two small domains
		}
		if strings.HasPrefix(cu, "bw6") {
			oo.Ns = []int{2, 4} // the two slowest curves
		}
		passes = append(passes, pass{cu, oo})
	}
	if c.Quick() && c.Only == "" {
		// the other five curves: the element-edit part on the smallest layout (per-curve generated code)
		for _, cu := range c18k.Curves() {
			if cu == "bn254" || cu == "bls12-377" {
				continue
			}
			oo := o
			oo.Pairs, oo.Sub, oo.Ns, oo.Ks = false, "E", []int{2}, []int{0, 1}
			passes = append(passes, pass{cu, oo})
		}
	}
	if !c.Quick() {
		// extras after every curve had its standard pass: longer sequences, pairs of departures
		for _, cu := range curves {
			if cu == "bn254" {
				oo := o
				oo.Pairs, oo.SeqLen, oo.Sub = false, 4, "H"
				passes = append(passes, pass{cu, oo})
			}
		}
		for _, cu := range curves {
			if cu == "bn254" || cu == "bls12-377" {
				oo := o
				oo.Pairs, oo.Sub, oo.Ns = true, "E", []int{2, 4}
				passes = append(passes, pass{cu, oo})
			}
		}
	}
	// Every pass runs in a worker subprocess under an address-space limit: gnark-crypto's decoders
	// allocate whatever a length prefix claims, so a (changed) reader that gets past an altered
	// element can ask for hundreds of GB; a worker that dies is reported as a violation of its
	// pass (on the unchanged tree no edit of the alphabet makes a reader crash) and the other passes
	// go on.
	if unit, _, ok := vh.WorkerArgs(); ok {
		i, err := strconv.Atoi(unit)
		if err != nil || i < 0 || i >= len(passes) {
			c.Fatal("bad pass index %q", unit)
		}
		k, ok := c18k.Get(passes[i].curve)
		if !ok {
			c.Fatal("no kit for curve %s", passes[i].curve)
		}
		k.Run(c, passes[i].o)
		c.WorkerDone()
	}
	exe, _ := os.Executable()
	runPass := func(i int) {
		p := passes[i]
		desc := fmt.Sprintf("%s:N=%v:k=%v:len=%d:pairs=%v:sub=%s", p.curve, p.o.Ns, p.o.Ks, p.o.SeqLen, p.o.Pairs, p.o.Sub)
		args := []string{"-tier", c.Tier}
		if c.Only != "" {
			args = append(args, "-only", c.Only)
		}
		cmd := exec.Command("bash", "-c", fmt.Sprintf("ulimit -v %d; exec %q %s", 24<<20, exe, strings.Join(args, " ")))
		cmd.Env = append(os.Environ(), "VERIF_WORKER_UNIT="+strconv.Itoa(i), fmt.Sprintf("VERIF_DEADLINE_UNIX=%d", c.Deadline.Unix()))
		var stderr strings.Builder
		cmd.Stderr = &stderr
		out, err := cmd.StdoutPipe()
		if err != nil {
			c.Fatal("pipe: %v", err)
		}
		if err := cmd.Start(); err != nil {
			c.Fatal("start pass worker: %v", err)
		}
		sc := bufio.NewScanner(out)
		sc.Buffer(make([]byte, 1<<20), 1<<28)
		done := false
		for sc.Scan() {
			line := sc.Text()
			if strings.HasPrefix(line, "DONE ") {
				var st vh.State
				if err := json.Unmarshal([]byte(line[5:]), &st); err != nil {
					c.Fatal("pass state: %v", err)
				}
				c.Merge(st)
				done = true
			} else if strings.HasPrefix(line, "HARNESS-ERROR") {
				fmt.Println(line)
				os.Exit(3)
			}
		}
		cmd.Wait()
		if !done {
			e := stderr.String()
			c.Outcome("pass:worker-died")
			c.Violation("c18:"+desc+":process-crash", map[string]any{"pass": desc, "first_line": firstLineOf(e), "frames": vh.FirstFrames(e, 8),
				"note": "the process running this pass died (fatal error / out of memory) while reading or verifying an offered contribution; on the unchanged tree every edit of the alphabet is answered with an error"})
		}
	}
	run := func(lo, hi int) {
		var wg sync.WaitGroup
		for i := lo; i < hi; i++ {
			if c.Expired() {
				c.Cap(fmt.Sprintf("deadline before pass %s %+v", passes[i].curve, passes[i].o))
				continue
			}
			wg.Add(1)
			go func(i int) { defer wg.Done(); runPass(i) }(i)
		}
		wg.Wait()
	}
	run(0, len(curves))
	run(len(curves), len(passes))
	c.Finish()
}

func firstLineOf(s string) string {
	if i := strings.IndexByte(s, '\n'); i >= 0 {
		return s[:i]
	}
	return s
}
