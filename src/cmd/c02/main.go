// C02: PLONK Verify accepts only proofs of the stated public inputs.  The prover is the
// environment: every structured departure (<= 2 simultaneous edits) from the honest proof /
// public witness is offered to the real verifier in memory and through both encodings, and
// judged by a textbook reference verifier.
package main

import (
	"github.com/consensys/gnark/internal/verifh/bk"
	_ "github.com/consensys/gnark/internal/verifh/bkall"
	"github.com/consensys/gnark/internal/verifh/bkcat"
	"github.com/consensys/gnark/internal/verifh/vh"
	"github.com/consensys/gnark/logger"
)

func main() {
	c := vh.New("C02")
	logger.Disable()
	c.Rule("per (curve, catalogue circuit): real Setup (unsafekzg SRS), real Prove for two witnesses; (1) setup structure: every selector column and the three permutation columns recomputed from the constraint list and committed with the Lagrange SRS must equal the vk digests, and for every pair of the 3n wire positions 'same permutation cycle' <=> 'same wire' (also on the sparse systems of the API program generator); (2) every single edit of every proof element / claimed value / list / public witness and every pair {witness edit} x {list edit} (thorough: x every single edit) offered in memory and through both encodings must be rejected, genuine pairs accepted; (3) every single-row corruption of L/R/O (gate violated, or copy constraint violated with all gates satisfied) pushed through the real prover must be rejected. distinct = (encoding, verdict, number of edits) and corruption classes.")
	c.Assume("adversary restricted to the structured edit alphabet with <=2 simultaneous departures", "Fiat-Shamir binding used as a-priori oracle: any non-identity edit of a bound element must be rejected", "gnark-crypto KZG commit trusted for recomputing digests")
	cases := bkcat.Cases()
	for _, id := range bk.Curves(c.Quick()) {
		if !c.Want(id.String()) {
			continue
		}
		bk.Kits[id].Run["c02"](c, bk.CasesFor(id, c.Quick(), cases, 5))
	}
	c.Finish()
}
