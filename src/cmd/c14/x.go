package main

import (
	"fmt"
	"sort"
	"strings"

	"github.com/consensys/gnark/constraint"
	"github.com/consensys/gnark/frontend"
	"github.com/consensys/gnark/internal/verifh/circ"
	"github.com/consensys/gnark/internal/verifh/satmc"
	"github.com/consensys/gnark/internal/verifh/vh"
)

const P = 47

// plainAPI hides frontend.Committer / frontend.Rangechecker so that rangecheck.New picks the
// bit-decomposition checker (the commitment checker does not compile over F_47).
type plainAPI struct{ frontend.API }

// expect describes the documented behaviour for one input tuple.
type expect struct {
	ok       func(out []int) bool // nil: every output is allowed
	nonEmpty bool                 // the documentation promises a proof exists
	max      int                  // >0: at most this many distinct satisfiable outputs
	want     []int                // the mathematical result (honest solve / reporting); nil if none
	zone     string               // behaviour class for the outcome statistics
}

func eq(a, b []int) bool {
	if len(a) != len(b) {
		return false
	}
	for i := range a {
		if a[i] != b[i] {
			return false
		}
	}
	return true
}

func exact(out []int, zone string) expect {
	return expect{ok: func(o []int) bool { return eq(o, out) }, nonEmpty: true, want: out, zone: zone}
}
func unsat(zone string) expect { return expect{ok: func([]int) bool { return false }, zone: zone} }
func either(out []int, zone string) expect {
	return expect{ok: func(o []int) bool { return eq(o, out) }, zone: zone}
}
func unique(zone string) expect   { return expect{max: 1, zone: zone} }
func anything(zone string) expect { return expect{zone: zone} }

type xcase struct {
	gadget      string // family (outcome classes)
	params      string
	nIn, nOut   int
	build       func(api frontend.API, in []frontend.Variable) []frontend.Variable
	inputs      [][]int
	oracle      func(in []int) expect
	expectPanic bool // the documentation / constructor contract says this parameter choice is rejected
	weight      int
	// multi: several documented relations judged on the same compiled circuit (the circuit does
	// not depend on the parameter that distinguishes them); params of each is appended to the key
	multi []subOracle
}

type subOracle struct {
	params string
	oracle func(in []int) expect
}

func (x xcase) name() string { return x.gadget + ":" + x.params }

func xPart(c *vh.Check) {
	var cases []xcase
	cases = append(cases, boundedCases()...)
	cases = append(cases, genericCmpCases(c)...)
	cases = append(cases, selectorCases()...)
	cases = append(cases, bitsliceCases()...)
	type task struct {
		x xcase
		b string
	}
	var tasks []task
	for _, x := range cases {
		if !c.Want("x:" + x.gadget) {
			continue
		}
		for _, b := range []string{circ.R1CS, circ.SCS} {
			tasks = append(tasks, task{x, b})
		}
	}
	var jobs []job
	for _, t := range tasks {
		t := t
		jobs = append(jobs, job{"x:" + t.x.name() + ":" + t.b, 100000 + t.x.weight*len(t.x.inputs)/40, func() { runX(c, t.x, t.b) }})
	}
	c.Count("x", "tasks", int64(len(tasks)))
	runJobs(c, "x", jobs)
}

func runX(c *vh.Check, x xcase, b string) {
	name := fmt.Sprintf("c14:x:%s:%s", x.name(), b)
	ci := circ.New(0, x.nIn+x.nOut, func(api frontend.API, p, s []frontend.Variable) error {
		out := x.build(api, s[:x.nIn])
		if len(out) != x.nOut {
			panic(fmt.Sprintf("harness: %s returns %d outputs, declared %d", name, len(out), x.nOut))
		}
		for i, o := range out {
			api.AssertIsEqual(o, s[x.nIn+i])
		}
		return nil
	})
	ccs, err, pan := circ.CompileTiny(b, ci, frontend.IgnoreUnconstrainedInputs())
	c.Evals.Add(1)
	if strings.HasPrefix(pan, "harness:") {
		c.Fatal("%s", pan)
	}
	if err != nil || pan != "" {
		if x.expectPanic {
			c.Outcome(x.gadget + ":rejected-at-compile-time-as-documented")
			c.Count("x", "compile-rejects:"+x.gadget, 1)
			return
		}
		// rejecting is the conservative direction; it contradicts the documentation only when a
		// proof is promised for some input
		promised := false
		for _, in := range x.inputs {
			if x.oracle != nil && x.oracle(in).nonEmpty {
				promised = true
				break
			}
		}
		if promised {
			c.Violation(name+":compile-reject", map[string]any{"case": name, "error": firstLine(fmt.Sprint(err, " ", pan)), "note": "the gadget cannot be compiled for parameters inside its documented domain"})
		}
		c.Outcome(x.gadget + ":rejected-at-compile-time")
		c.Count("x", "compile-rejects:"+x.gadget, 1)
		return
	}
	if x.expectPanic {
		c.Violation(name+":illegal-parameters-accepted", map[string]any{"case": name, "note": "the constructor contract rejects these parameters but the circuit compiled"})
	}
	var sys *satmc.Sys
	if b == circ.R1CS {
		sys = satmc.FromR1CS[constraint.U32](ccs)
	} else {
		sys = satmc.FromSCS[constraint.U32](ccs)
	}
	inW := make([]int, x.nIn)
	for i := range inW {
		inW[i] = circ.WireSec(b, 0, i)
	}
	outW := make([]int, x.nOut)
	for i := range outW {
		outW[i] = circ.WireSec(b, 0, x.nIn+i)
	}
	var states, trans int64
	sampled := false
	for _, in := range x.inputs {
		fixed := make(map[int]uint8, len(in))
		for i, w := range inW {
			fixed[w] = uint8(in[i])
		}
		res := sys.Search(fixed, outW, 0)
		c.Evals.Add(1)
		states += res.Stats.States
		trans += res.Stats.Transitions
		if res.Stats.Capped {
			c.Cap("x: state cap hit in " + name)
			continue
		}
		var got [][]int
		for k, full := range res.Tuples {
			if err := sys.Validate(full); err != nil {
				c.Fatal("satmc leaf failed validation in %s in=%v: %v", name, in, err)
			}
			o := make([]int, len(k))
			for i := range o {
				o[i] = int(k[i])
			}
			got = append(got, o)
		}
		sort.Slice(got, func(i, j int) bool { return fmt.Sprint(got[i]) < fmt.Sprint(got[j]) })
		subs := x.multi
		if subs == nil {
			subs = []subOracle{{"", x.oracle}}
		}
		var ex expect
		solved := false
		for _, sub := range subs {
			ex = sub.oracle(in)
			c.Outcome(x.gadget + ":" + ex.zone)
			key := func(kind string) string {
				return fmt.Sprintf("c14:x:%s:%s%s:%s:in=%s:%s", x.gadget, x.params, sub.params, b, joinInts(in), kind)
			}
			detail := func(note string) map[string]any {
				return map[string]any{"case": name + sub.params, "inputs": in, "satisfiable_outputs": got, "documented_output": ex.want, "documented_zone": ex.zone, "note": note}
			}
			if ex.ok != nil {
				for _, g := range got {
					if !ex.ok(g) {
						c.Violation(key("surplus"), detail("an output the documentation excludes is satisfiable"))
						break
					}
				}
			}
			if ex.nonEmpty && len(got) == 0 {
				c.Violation(key("deficit"), detail("the documentation promises a proof, the constraints are unsatisfiable"))
			}
			if ex.max > 0 && len(got) > ex.max {
				c.Violation(key("ambiguous"), detail("more than one output is satisfiable where the documentation promises a well-defined result"))
			}
			// conformance with the real solver: the documented result must be provable by the honest prover
			if ex.nonEmpty && ex.want != nil && !solved {
				solved = true
				w, _ := circ.Witness(circ.AssignInts(nil, append(append([]int{}, in...), ex.want...)), circ.P47)
				var serr error
				p := vh.Recover(func() { _, serr = ccs.Solve(w) })
				c.Traces.Add(1)
				if (p != "" || serr != nil) && strings.HasPrefix(x.gadget, "bounded.") && straddlesHalfField(x.gadget, in) {
					// one root cause, keyed separately: the hints of BoundedComparator compare the operands as
					// signed residues (cmpInField) instead of looking at the difference
					// NOT a violation: BoundedComparator is documented for SIGNED integers ("a and b can be any
					// signed integers, as long as |a - b| <= absDiffUpp"): operands on different sides of (P-1)/2
					// are a positive and a negative number whose signed distance exceeds the bound, where the
					// documentation allows "either proof can't be generated or the methods work correctly".
					c.Outcome("x:bounded:outside-signed-domain:honest-prover-fails")
					c.Count("x", "bounded: inputs outside the documented signed domain (straddling (P-1)/2)", 1)
				} else if p != "" || serr != nil {
					c.Violation(key("honest-unsolved"), detail("the documented result is satisfiable but the honest prover (library hints) cannot solve: "+firstLine(fmt.Sprint(serr, p))))
				}
			}
		}
		if !sampled && ex.nonEmpty && len(in) > 0 && in[0] > 2 {
			sampled = true
			if strings.HasSuffix(x.params, "n=3") || strings.Contains(x.params, "U=5:nd=false") {
				c.Sample(map[string]any{"part": "x", "case": name, "inputs": in, "S(x)": got, "documented": ex.want, "zone": ex.zone, "rows": len(sys.Cons), "wires": sys.NW, "states": res.Stats.States})
			}
		}
	}
	c.States.Add(states)
	c.Transitions.Add(trans)
	c.Count("x", "searches:"+x.gadget, int64(len(x.inputs)))
}

func joinInts(a []int) string {
	s := make([]string, len(a))
	for i, x := range a {
		s[i] = fmt.Sprint(x)
	}
	return strings.Join(s, ",")
}

func firstLine(s string) string {
	if i := strings.IndexByte(s, '\n'); i >= 0 {
		return s[:i]
	}
	return s
}

// all pairs over F_47
func allPairs() [][]int {
	out := make([][]int, 0, P*P)
	for a := 0; a < P; a++ {
		for b := 0; b < P; b++ {
			out = append(out, []int{a, b})
		}
	}
	return out
}

var dataAlphabet = []int{3, 17, 46}

// dataVectors: every vector of length n over the 3-element data alphabet
func dataVectors(n int) [][]int {
	out := [][]int{{}}
	for i := 0; i < n; i++ {
		var next [][]int
		for _, v := range out {
			for _, d := range dataAlphabet {
				next = append(next, append(append([]int{}, v...), d))
			}
		}
		out = next
	}
	return out
}

func bitLen(x int) int {
	n := 0
	for ; x > 0; x >>= 1 {
		n++
	}
	return n
}

func b2i(b bool) int {
	if b {
		return 1
	}
	return 0
}

// straddlesHalfField: cmpInField reverses the order exactly when one operand is > (P-1)/2 and the
// other < (P-1)/2 (IsLessEq(a,b) calls IsLess(a,b+1)).
func straddlesHalfField(gadget string, in []int) bool {
	a, b := in[0], in[1]
	if gadget == "bounded.IsLessEq" {
		b = (b + 1) % P
	}
	h := (P - 1) / 2
	return (a < h && b > h) || (a > h && b < h)
}
