package main

import (
	"fmt"
	"math/big"
	"sort"
	"strings"
	"sync"
	"time"

	"github.com/consensys/gnark-crypto/ecc"
	"github.com/consensys/gnark/constraint"
	"github.com/consensys/gnark/constraint/solver"
	"github.com/consensys/gnark/internal/verifh/circ"
	"github.com/consensys/gnark/internal/verifh/hintenv"
	"github.com/consensys/gnark/internal/verifh/refsolve"
	"github.com/consensys/gnark/internal/verifh/vh"
)

var bn = ecc.BN254.ScalarField()

// hint ids of unexported library hints, resolved by registered name suffix
func hintByName(suffix string) solver.HintID {
	for _, h := range solver.GetRegisteredHints() {
		if strings.HasSuffix(solver.GetHintName(h), suffix) {
			return solver.GetHintID(h)
		}
	}
	panic("hint not registered: " + suffix)
}

type hookFn func(id solver.HintID, q *big.Int, in, out []*big.Int, err error) error

var hooks sync.Map // sysKey(cs) -> hookFn

// sysKey identifies a compiled system by the address of its first instruction: the solver may
// work on a shallow copy of the system header (private blueprint list per Solve), whose pointer
// differs from the compiled system's, but the instruction slice is shared.
func sysKey(cs any) any {
	sys := refsolve.SystemOf(cs)
	if len(sys.Instructions) == 0 {
		return cs
	}
	return &sys.Instructions[0]
}

func init() {
	constraint.VerifHintHook = func(cs any, id solver.HintID, q *big.Int, in, out []*big.Int, err error) error {
		if h, ok := hooks.Load(sysKey(cs)); ok {
			return h.(hookFn)(id, q, in, out, err)
		}
		return err
	}
}

type compiled struct {
	ccs     constraint.ConstraintSystem
	builder string
	name    string
}

func compileBN(c *vh.Check, builder, name string, ci *circ.C) *compiled {
	ccs, err, pan := circ.Compile(bn, builder, ci)
	if err != nil || pan != "" {
		c.Fatal("%s does not compile on bn254/%s: %v %s", name, builder, err, pan)
	}
	return &compiled{ccs, builder, "bn254:" + builder + ":" + name}
}

var detOpts = func() []solver.Option {
	o := []solver.Option{solver.WithNbTasks(1)}
	for id, h := range hintenv.Det() {
		o = append(o, solver.OverrideHint(id, h))
	}
	return o
}()

// solve runs the real solver single-threaded with the deterministic commitment; "" = solved.
func (k *compiled) solve(c *vh.Check, sec []*big.Int) string {
	w, err := circ.Witness(circ.Assign(nil, sec), bn)
	if err != nil {
		c.Fatal("witness for %s: %v", k.name, err)
	}
	pan := vh.Recover(func() { _, err = k.ccs.Solve(w, detOpts...) })
	c.Evals.Add(1)
	if pan != "" {
		return "panic: " + pan
	}
	if err != nil {
		return firstLine(err.Error())
	}
	return ""
}

func (k *compiled) setHook(h hookFn) {
	if h == nil {
		hooks.Delete(sysKey(k.ccs))
	} else {
		hooks.Store(sysKey(k.ccs), h)
	}
}

type job struct {
	name   string
	weight int // rough cost (ordering only)
	run    func()
}

var jobPart = map[string]string{} // job name -> part

// pool collects the jobs of every selected part; they run in ONE parallel pool, heaviest first, so
// that the few long single-threaded jobs (65 536-row lookup tables) overlap with everything else.
var pool []job

func runJobs(c *vh.Check, part string, jobs []job) {
	for i := range jobs {
		jobPart[jobs[i].name] = part
	}
	pool = append(pool, jobs...)
}

func runPool(c *vh.Check) {
	jobs := pool
	sort.SliceStable(jobs, func(i, j int) bool { return jobs[i].weight > jobs[j].weight })
	var mu sync.Mutex
	cpu := map[string]time.Duration{}
	left := map[string]int{}
	for _, j := range jobs {
		left[jobPart[j.name]]++
	}
	if !c.Par(len(jobs), func(i int) {
		t1 := time.Now()
		jobs[i].run()
		d := time.Since(t1)
		mu.Lock()
		cpu[jobPart[jobs[i].name]] += d
		left[jobPart[jobs[i].name]]--
		mu.Unlock()
		if d > 10*time.Second {
			c.Count("slow_jobs_ms", jobs[i].name, d.Milliseconds())
		}
	}) {
		var parts []string
		for p, n := range left {
			if n > 0 {
				parts = append(parts, fmt.Sprintf("%s (%d jobs)", p, n))
			}
		}
		sort.Strings(parts)
		c.Cap("deadline before all jobs ran; unfinished: " + strings.Join(parts, ", "))
	}
	for p, d := range cpu {
		c.Count("job_seconds_by_part", p, int64(d.Seconds()))
	}
	c.Count("jobs", "total", int64(len(jobs)))
}

func pow2(n int) *big.Int        { return new(big.Int).Lsh(big.NewInt(1), uint(n)) }
func mod(x *big.Int) *big.Int    { return new(big.Int).Mod(x, bn) }
func bi(x int64) *big.Int        { return big.NewInt(x) }
func add(a, b *big.Int) *big.Int { return mod(new(big.Int).Add(a, b)) }
func sub(a, b *big.Int) *big.Int { return mod(new(big.Int).Sub(a, b)) }
func bstr(v []*big.Int) string   { return fmt.Sprint(v) }
func short(v *big.Int) string    { return shortStr(v.String()) }
func cloneVec(v []*big.Int) []*big.Int {
	o := make([]*big.Int, len(v))
	for i := range v {
		o[i] = new(big.Int).Set(v[i])
	}
	return o
}

func shortStr(s string) string {
	if len(s) > 14 {
		return s[:6] + "…" + s[len(s)-6:]
	}
	return s
}

func shortVec(v []*big.Int) string {
	s := make([]string, len(v))
	for i := range v {
		s[i] = short(v[i])
	}
	return strings.Join(s, ",")
}

func setOut(out []*big.Int, vals []*big.Int) {
	for i := range out {
		out[i].Set(vals[i])
	}
}
