// C14: comparison, selection, bit-slice and small-integer gadgets have exact semantics.
//
//	x      explicit-state (satmc) over F_47: for every input tuple the set of satisfiable outputs of
//	       the compiled gadget against the documented relation
//	hint   bn254: hinted indicators / masks / minima / partitions under hint substitution
//	bytes  bn254: uints byte operations on all 65 536 byte pairs
//	words  bn254: uints 32/64-bit word operations against Go's integer arithmetic
//	uadv   bn254: uints under hint substitution (bytes of ValueOf, partition of Add, table results)
package main

import (
	"github.com/consensys/gnark/internal/verifh/vh"
	"github.com/consensys/gnark/logger"
	"strings"
)

func main() {
	c := vh.New("C14")
	logger.Disable()
	c.Rule("x: for each (gadget, parameters, builder) the circuit out=gadget(in) is compiled over F_47 (range checks through the bit-decomposition checker) and for EVERY enumerated input tuple (all of F_47 for operands/selectors/pivots, a 3-element alphabet for data vectors, all boolean vectors for bit inputs) the explicit-state search enumerates every assignment of all other wires: S(x) = set of satisfiable outputs, compared with the documented relation of the doc comments; " +
		"hint: per (gadget, boundary input tuple over bn254, claimed output) every sequence of hint answers with <=2 departures from the honest hint; " +
		"bytes: And/Or/Xor/Not on every (a,b) in [0,256)^2, 256 pairs per solved circuit; words: {0,1,0x7f..f,0x80..0,0xff..f}^k operands, every rotation and shift amount, compiled and solved on bn254; " +
		"uadv: wrong claimed results with every hint alternative (<=2 departures). Cases are distinct per (part, gadget, parameters, builder, input tuple / alternative tuple).")
	c.Assume("constraints read through GetR1Cs/GetSparseR1Cs are the ones the backends prove (C01/C02)",
		"gadgets that sit on commitment-based range checks / lookups (uints, bitslice with the commit checker) are not exhausted over F_47: they are compiled over bn254 and attacked through their hints, with the commitment modelled as SHA-256 of all committed values (C13)",
		"U8 values entering uints operations are bytes (the package documents that witness bytes are not range checked); every byte in the harness is created with ByteValueOf or NewU8")
	c.Explain("x decides the full relation of each compiled gadget over F_47 with no reference to the solver and then checks that the honest prover can prove the documented result; hint/bytes/words/uadv compile and solve on bn254 (both builders). " +
		"Violation keys name part, gadget, parameters, builder and the input tuple (plus claimed output for the adversarial parts). Families seen on the unchanged tree: " +
		"c14:x:bounded-hint-half-field-straddle / c14:hint:bounded-hint-half-field-straddle (BoundedComparator hints order operands as signed residues: honest prover fails for |a-b|<=absDiffUpp when the operands lie on different sides of (P-1)/2); " +
		"c14:x:selector.Map:...:adjacent-subslices (generateDecoder appends the query to the caller's keys slice and overwrites the element that follows it in the backing array); " +
		"c14:uadv:Add* (uints.Add: the low word returned by bitslice.Partition(WithUnconstrainedOutputs) is not tied to the sum, any 32/64-bit value is accepted); " +
		"c14:uadv:byte* (logderivprecomp results are not range checked: a field element that makes the packed query equal to another table row is accepted as the result of a byte operation).")
	c.Note("selector.Slice / selector.Partition with a 1-element input and bitslice.Partition with split == number of digits (or split == field bit length) panic while the circuit is defined; recorded as compile-time rejections, not as violations")
	if c.Want("x") || strings.HasPrefix(c.Only, "x:") || strings.Contains(c.Only, ",x:") {
		xPart(c)
	}
	if c.Want("hint") {
		hintPart(c)
	}
	if c.Want("bytes") {
		bytesPart(c)
	}
	if c.Want("words") {
		wordsPart(c)
	}
	if c.Want("uadv") {
		uadvPart(c)
	}
	runPool(c)
	c.Finish()
}
