package main

import (
	"fmt"
	"math/big"

	"github.com/consensys/gnark/frontend"
	"github.com/consensys/gnark/internal/verifh/vh"
	"github.com/consensys/gnark/std/math/bitslice"
	"github.com/consensys/gnark/std/math/cmp"
	"github.com/consensys/gnark/std/selector"
)

// ---- cmp.BoundedComparator -------------------------------------------------------------------

// boundedLegal: the constructor contract of NewBoundedComparator over F_47.
func boundedLegal(U int, nd bool) bool {
	if U < 1 || U >= P {
		return false
	}
	if bitLen(P-U-1) <= bitLen(U) {
		return false
	}
	if !nd && !(P > 1<<uint(bitLen(U)+1)) {
		return false
	}
	return true
}

// boundedExpect merges what the documentation says for every integer representation (a',b') of
// the field elements (a,b): b'-a' = delta (a' <= b') and a'-b' = 47-delta (a' > b').
//
//	|a'-b'| <= U                       all methods work correctly
//	U < |a'-b'| < P - 2^bitlen(U)      no proof, or correct
//	|a'-b'| >= P - 2^bitlen(U)         no proof or reversed but well defined (unique), unless
//	                                   allowNonDeterministicBehaviour (then undefined)
func boundedExpect(method string, U int, nd bool, a, b int) expect {
	L := bitLen(U)
	thr := P - 1<<uint(L)
	delta := ((b-a)%P + P) % P
	type rep struct {
		D      int
		lt, le bool
		min    int
	}
	reps := []rep{{delta, delta > 0, true, a}, {P - delta, false, false, b}}
	var oks []func([]int) bool
	nonEmpty := false
	max := 0
	var want []int
	zone := ""
	for _, r := range reps {
		var res []int
		sat := true
		switch method {
		case "AssertIsLessEq":
			sat = r.le
		case "AssertIsLess":
			sat = r.lt
		case "IsLess":
			res = []int{b2i(r.lt)}
		case "IsLessEq":
			res = []int{b2i(r.le)}
		case "Min":
			res = []int{r.min}
		}
		isAssert := method == "AssertIsLessEq" || method == "AssertIsLess"
		match := func(o []int) bool {
			if isAssert {
				return sat
			}
			return eq(o, res)
		}
		switch {
		case r.D <= U:
			oks = append(oks, match)
			if !isAssert || sat {
				nonEmpty = true
				want = res
				if isAssert {
					want = []int{}
				}
			}
			zone = "within-bound"
		case r.D < thr:
			oks = append(oks, match)
			if zone == "" {
				zone = "above-bound:no-proof-or-correct"
			}
		default:
			if !nd {
				max = 1
			}
			if zone == "" {
				zone = "failure-zone:unique-or-no-proof"
				if nd {
					zone = "failure-zone:undefined"
				}
			}
		}
	}
	ex := expect{nonEmpty: nonEmpty, max: max, want: want, zone: zone}
	if len(oks) > 0 {
		ex.ok = func(o []int) bool {
			for _, f := range oks {
				if !f(o) {
					return false
				}
			}
			return true
		}
	}
	return ex
}

func boundedCases() []xcase {
	var out []xcase
	methods := []string{"AssertIsLessEq", "AssertIsLess", "IsLess", "IsLessEq", "Min"}
	build := func(m string, U int, nd bool) func(api frontend.API, in []frontend.Variable) []frontend.Variable {
		return func(api frontend.API, in []frontend.Variable) []frontend.Variable {
			bc := cmp.NewBoundedComparator(api, big.NewInt(int64(U)), nd)
			switch m {
			case "AssertIsLessEq":
				bc.AssertIsLessEq(in[0], in[1])
				return nil
			case "AssertIsLess":
				bc.AssertIsLess(in[0], in[1])
				return nil
			case "IsLess":
				return []frontend.Variable{bc.IsLess(in[0], in[1])}
			case "IsLessEq":
				return []frontend.Variable{bc.IsLessEq(in[0], in[1])}
			}
			return []frontend.Variable{bc.Min(in[0], in[1])}
		}
	}
	nOut := func(m string) int {
		if m == "AssertIsLessEq" || m == "AssertIsLess" {
			return 0
		}
		return 1
	}
	// the constructor contract for every absDiffUpp and both settings (compile only)
	for U := 1; U < P; U++ {
		for _, nd := range []bool{false, true} {
			U, nd := U, nd
			out = append(out, xcase{gadget: "bounded.constructor", params: fmt.Sprintf("U=%d:nd=%v", U, nd), nIn: 2, nOut: 1, weight: 1,
				build: build("IsLess", U, nd), inputs: [][]int{{1, 2}}, expectPanic: !boundedLegal(U, nd),
				oracle: func(in []int) expect { return boundedExpect("IsLess", U, nd, in[0], in[1]) }})
		}
	}
	// the emitted constraints depend on bitlen(absDiffUpp) only (and not on
	// allowNonDeterministicBehaviour): one search per (bit length, method, input pair), judged
	// against the documentation of every legal absDiffUpp of that bit length and both settings
	for L := 1; L <= 5; L++ {
		var subs []struct {
			U  int
			nd bool
		}
		for U := 1 << uint(L-1); U < 1<<uint(L) && U < P; U++ {
			for _, nd := range []bool{false, true} {
				if boundedLegal(U, nd) {
					subs = append(subs, struct {
						U  int
						nd bool
					}{U, nd})
				}
			}
		}
		if len(subs) == 0 {
			continue
		}
		for _, m := range methods {
			m := m
			x := xcase{gadget: "bounded." + m, params: fmt.Sprintf("bitlen=%d", L), nIn: 2, nOut: nOut(m), weight: 3 + L,
				build: build(m, subs[0].U, subs[0].nd), inputs: allPairs()}
			for _, sb := range subs {
				sb := sb
				x.multi = append(x.multi, subOracle{fmt.Sprintf(":U=%d:nd=%v", sb.U, sb.nd), func(in []int) expect { return boundedExpect(m, sb.U, sb.nd, in[0], in[1]) }})
			}
			x.oracle = x.multi[0].oracle
			out = append(out, x)
		}
		// the other legal parameters of this bit length must compile to the same constraints:
		// checked on one more parameter choice with a reduced input set
		if len(subs) > 1 {
			last := subs[len(subs)-1]
			for _, m := range methods {
				m := m
				var diag [][]int
				for a := 0; a < P; a++ {
					diag = append(diag, []int{a, (a + last.U) % P}, []int{a, (a + last.U + 1) % P}, []int{(a + last.U) % P, a}, []int{a, a})
				}
				out = append(out, xcase{gadget: "bounded." + m, params: fmt.Sprintf("U=%d:nd=%v:spot", last.U, last.nd), nIn: 2, nOut: nOut(m), weight: 3 + L,
					build: build(m, last.U, last.nd), inputs: diag,
					oracle: func(in []int) expect { return boundedExpect(m, last.U, last.nd, in[0], in[1]) }})
			}
		}
	}
	// absDiffUpp = 0 and absDiffUpp >= P are rejected by the constructor
	for _, U := range []int{0, -1, P, P + 5} {
		U := U
		out = append(out, xcase{gadget: "bounded.IsLess", params: fmt.Sprintf("U=%d:nd=true", U), nIn: 2, nOut: 1, inputs: [][]int{{1, 2}}, expectPanic: true, weight: 1,
			build: func(api frontend.API, in []frontend.Variable) []frontend.Variable {
				return []frontend.Variable{cmp.NewBoundedComparator(api, big.NewInt(int64(U)), true).IsLess(in[0], in[1])}
			}, oracle: func([]int) expect { return anything("illegal") }})
	}
	return out
}

// ---- cmp generic -----------------------------------------------------------------------------

func genericCmpCases(c *vh.Check) []xcase {
	var out []xcase
	type fn struct {
		name string
		f    func(api frontend.API, a, b frontend.Variable) frontend.Variable
		ref  func(a, b int) bool
	}
	for _, f := range []fn{
		{"IsLess", cmp.IsLess, func(a, b int) bool { return a < b }},
		{"IsLessOrEqual", cmp.IsLessOrEqual, func(a, b int) bool { return a <= b }},
		{"IsEqual", cmp.IsEqual, func(a, b int) bool { return a == b }},
	} {
		f := f
		out = append(out, xcase{gadget: "cmp." + f.name, params: "vars", nIn: 2, nOut: 1, inputs: allPairs(), weight: 40,
			build: func(api frontend.API, in []frontend.Variable) []frontend.Variable {
				return []frontend.Variable{f.f(api, in[0], in[1])}
			},
			oracle: func(in []int) expect { return exact([]int{b2i(f.ref(in[0], in[1]))}, "in-domain") }})
		// one constant operand (different code path: bit-by-bit comparison)
		for _, k := range []int{0, 1, 23, 31, 32, 46} {
			k := k
			all := make([][]int, P)
			for a := range all {
				all[a] = []int{a}
			}
			out = append(out, xcase{gadget: "cmp." + f.name, params: fmt.Sprintf("const-b=%d", k), nIn: 1, nOut: 1, inputs: all, weight: 20,
				build: func(api frontend.API, in []frontend.Variable) []frontend.Variable {
					return []frontend.Variable{f.f(api, in[0], k)}
				},
				oracle: func(in []int) expect { return exact([]int{b2i(f.ref(in[0], k))}, "in-domain:constant-operand") }})
			out = append(out, xcase{gadget: "cmp." + f.name, params: fmt.Sprintf("const-a=%d", k), nIn: 1, nOut: 1, inputs: all, weight: 20,
				build: func(api frontend.API, in []frontend.Variable) []frontend.Variable {
					return []frontend.Variable{f.f(api, k, in[0])}
				},
				oracle: func(in []int) expect { return exact([]int{b2i(f.ref(k, in[0]))}, "in-domain:constant-operand") }})
		}
	}
	maxK := 6
	if !c.Quick() {
		maxK = 7
	}
	type bfn struct {
		name string
		f    func(api frontend.API, a, b []frontend.Variable) frontend.Variable
		ref  func(a, b int) bool
	}
	for _, f := range []bfn{
		{"IsLessBinary", cmp.IsLessBinary, func(a, b int) bool { return a < b }},
		{"IsLessOrEqualBinary", cmp.IsLessOrEqualBinary, func(a, b int) bool { return a <= b }},
	} {
		f := f
		for k := 1; k <= maxK; k++ {
			k := k
			var inputs [][]int
			for m := 0; m < 1<<uint(2*k); m++ {
				v := make([]int, 2*k)
				for i := range v {
					v[i] = (m >> uint(i)) & 1
				}
				inputs = append(inputs, v)
			}
			// one non-boolean digit at every position, on all-zero and all-one backgrounds
			for pos := 0; pos < 2*k; pos++ {
				for _, bad := range []int{2, 24, 46} {
					for _, bg := range []int{0, 1} {
						v := make([]int, 2*k)
						for i := range v {
							v[i] = bg
						}
						v[pos] = bad
						inputs = append(inputs, v)
					}
				}
			}
			val := func(bits []int) (x int, boolean bool) {
				boolean = true
				for i, b := range bits {
					if b > 1 {
						boolean = false
					}
					x += b << uint(i)
				}
				return
			}
			out = append(out, xcase{gadget: "cmp." + f.name, params: fmt.Sprintf("k=%d", k), nIn: 2 * k, nOut: 1, inputs: inputs, weight: 5 * k,
				build: func(api frontend.API, in []frontend.Variable) []frontend.Variable {
					return []frontend.Variable{f.f(api, in[:k], in[k:])}
				},
				oracle: func(in []int) expect {
					a, ba := val(in[:k])
					b, bb := val(in[k:])
					if !ba || !bb {
						return unsat("non-boolean-digit:rejected") // assertBits: "defines boolean constraints for every element of bits"
					}
					return exact([]int{b2i(f.ref(a, b))}, "in-domain")
				}})
		}
	}
	return out
}

// ---- selector --------------------------------------------------------------------------------

// withSel: every selector value; the full data product for selectors up to inRangeMax+1 (the
// documented range and its first neighbour), three representative data vectors (all equal,
// first/last differ, mixed) for the selectors the documentation rejects.
func withSel(sels []int, data [][]int, inRangeMax int) [][]int {
	var out [][]int
	for _, s := range sels {
		dv := data
		if s > inRangeMax+1 && len(dv) > 3 {
			dv = [][]int{data[0], data[len(data)/2+1], data[len(data)-2]}
		}
		for _, d := range dv {
			out = append(out, append([]int{s}, d...))
		}
	}
	return out
}

func field() []int {
	f := make([]int, P)
	for i := range f {
		f[i] = i
	}
	return f
}

func oneHot(n, i int) []int {
	o := make([]int, n)
	if i >= 0 && i < n {
		o[i] = 1
	}
	return o
}

func selectorCases() []xcase {
	var out []xcase
	distinctKeys := []int{5, 0, 46, 23, 9}
	dupKeys := []int{5, 0, 5, 23, 5}
	seqKeys := []int{1, 2, 3, 4, 5}
	for n := 1; n <= 5; n++ {
		n := n
		// Mux
		out = append(out, xcase{gadget: "selector.Mux", params: fmt.Sprintf("n=%d", n), nIn: 1 + n, nOut: 1, inputs: withSel(field(), dataVectors(n), n-1), weight: 4 * n,
			build: func(api frontend.API, in []frontend.Variable) []frontend.Variable {
				return []frontend.Variable{selector.Mux(api, in[0], in[1:]...)}
			},
			oracle: func(in []int) expect {
				if in[0] < n {
					return exact([]int{in[1+in[0]]}, "selector-in-range")
				}
				return unsat("selector-out-of-range:no-proof")
			}})
		// Map / KeyDecoder with several key tuples
		keySets := map[string][]int{"distinct": distinctKeys[:n], "sequential": seqKeys[:n]}
		if n >= 3 {
			keySets["duplicates"] = dupKeys[:n]
		}
		for kn, keys := range keySets {
			kn, keys := kn, keys
			matches := func(q int) []int {
				var m []int
				for i, k := range keys {
					if k == q {
						m = append(m, i)
					}
				}
				return m
			}
			var mapIn [][]int
			dvs := dataVectors(n)
			if kn != "distinct" && len(dvs) > 27 {
				dvs = dvs[:27] // the last three positions vary
			}
			for _, q := range field() {
				dq := dvs
				if len(matches(q)) == 0 && q != keys[0]+1 && len(dq) > 3 {
					dq = [][]int{dvs[0], dvs[len(dvs)/2+1], dvs[len(dvs)-2]} // absent key: three data vectors
				}
				for _, d := range dq {
					mapIn = append(mapIn, append(append([]int{q}, keys...), d...))
				}
			}
			out = append(out, xcase{gadget: "selector.Map", params: fmt.Sprintf("n=%d:keys=%s", n, kn), nIn: 1 + 2*n, nOut: 1, inputs: mapIn, weight: 4 * n,
				build: func(api frontend.API, in []frontend.Variable) []frontend.Variable {
					return []frontend.Variable{selector.Map(api, in[0], in[1:1+n:1+n], in[1+n:])}
				},
				oracle: func(in []int) expect {
					m := matches(in[0])
					switch len(m) {
					case 0:
						return unsat("key-absent:no-proof")
					case 1:
						return exact([]int{in[1+n+m[0]]}, "key-present")
					}
					return anything("duplicate-keys:undefined")
				}})
			if kn == "distinct" && n == 3 {
				// the same call with keys and values being adjacent sub-slices of one backing array
				// (keys has spare capacity): the documented relation is the same
				var al [][]int
				for _, q := range []int{5, 0, 46, 7} {
					for _, d := range [][]int{{3, 17, 46}, {17, 17, 3}} {
						al = append(al, append(append([]int{q}, keys...), d...))
					}
				}
				out = append(out, xcase{gadget: "selector.Map", params: "n=3:keys=distinct:adjacent-subslices", nIn: 1 + 2*n, nOut: 1, inputs: al, weight: 1,
					build: func(api frontend.API, in []frontend.Variable) []frontend.Variable {
						return []frontend.Variable{selector.Map(api, in[0], in[1:1+n], in[1+n:])}
					},
					oracle: func(in []int) expect {
						m := matches(in[0])
						if len(m) == 0 {
							return unsat("key-absent:no-proof")
						}
						return exact([]int{in[1+n+m[0]]}, "key-present")
					}})
			}
			var kdIn [][]int
			for _, q := range field() {
				kdIn = append(kdIn, append([]int{q}, keys...))
			}
			out = append(out, xcase{gadget: "selector.KeyDecoder", params: fmt.Sprintf("n=%d:keys=%s", n, kn), nIn: 1 + n, nOut: n, inputs: kdIn, weight: 4 * n,
				build: func(api frontend.API, in []frontend.Variable) []frontend.Variable {
					return selector.KeyDecoder(api, in[0], in[1:len(in):len(in)])
				},
				oracle: func(in []int) expect {
					m := matches(in[0])
					switch len(m) {
					case 0:
						return either(oneHot(n, -1), "key-absent:no-proof-or-all-zero")
					case 1:
						return exact(oneHot(n, m[0]), "key-present")
					}
					// "the output is guaranteed to be zero for the wires that are associated with a key which is not equal to queryKey"
					return expect{ok: func(o []int) bool {
						for i := range o {
							if keys[i] != in[0] && o[i] != 0 {
								return false
							}
						}
						return true
					}, zone: "duplicate-keys:zero-on-other-wires"}
				}})
		}
		// Decoder
		var decIn [][]int
		for _, s := range field() {
			decIn = append(decIn, []int{s})
		}
		out = append(out, xcase{gadget: "selector.Decoder", params: fmt.Sprintf("n=%d", n), nIn: 1, nOut: n, inputs: decIn, weight: 4 * n,
			build: func(api frontend.API, in []frontend.Variable) []frontend.Variable {
				return selector.Decoder(api, n, in[0])
			},
			oracle: func(in []int) expect {
				if in[0] < n {
					return exact(oneHot(n, in[0]), "selector-in-range")
				}
				return unsat("selector-out-of-range:no-proof")
			}})
		// BinaryMux: len(inputs) must be 2^len(selBits)
		k := bitLen(n - 1)
		pow2 := n&(n-1) == 0
		var sels [][]int
		if pow2 {
			sels = [][]int{{}}
			for i := 0; i < k; i++ {
				var next [][]int
				for _, s := range sels {
					for _, v := range field() {
						next = append(next, append(append([]int{}, s...), v))
					}
				}
				sels = next
			}
		} else {
			sels = [][]int{make([]int, k)}
		}
		var bmIn [][]int
		for _, s := range sels {
			boolean := true
			for _, v := range s {
				if v > 1 {
					boolean = false
				}
			}
			dv := dataVectors(n)
			if !boolean && len(dv) > 3 {
				dv = [][]int{dv[0], dv[len(dv)/2+1], dv[len(dv)-2]} // non-boolean selector bits: three data vectors
			}
			for _, d := range dv {
				bmIn = append(bmIn, append(append([]int{}, s...), d...))
			}
		}
		out = append(out, xcase{gadget: "selector.BinaryMux", params: fmt.Sprintf("n=%d", n), nIn: k + n, nOut: 1, inputs: bmIn, weight: 2 * n, expectPanic: !pow2,
			build: func(api frontend.API, in []frontend.Variable) []frontend.Variable {
				return []frontend.Variable{selector.BinaryMux(api, in[:k], in[k:])}
			},
			oracle: func(in []int) expect {
				idx := 0
				for i := 0; i < k; i++ {
					if in[i] > 1 {
						return unsat("non-boolean-selector-bit:rejected")
					}
					idx += in[i] << uint(i)
				}
				return exact([]int{in[k+idx]}, "selector-in-range")
			}})
		// Slice / Partition (selector): the step mask needs an output length >= 2
		dataSlice := [][]int{[]int{3, 17, 46, 3, 17}[:n], []int{46, 0, 17, 3, 3}[:n]}
		var slIn [][]int
		for _, pr := range allPairs() {
			for _, d := range dataSlice {
				slIn = append(slIn, append(append([]int{}, pr...), d...))
			}
		}
		out = append(out, xcase{gadget: "selector.Slice", params: fmt.Sprintf("n=%d", n), nIn: 2 + n, nOut: n, inputs: slIn, weight: 8 * n, expectPanic: n < 2,
			build: func(api frontend.API, in []frontend.Variable) []frontend.Variable {
				return selector.Slice(api, in[0], in[1], in[2:])
			},
			oracle: func(in []int) expect {
				s, e := in[0], in[1]
				res := make([]int, n)
				for i := 0; i < n; i++ {
					if i >= s && i < e {
						res[i] = in[2+i]
					}
				}
				switch {
				case e > n:
					return unsat("end-beyond-length:no-proof")
				case s > n:
					return either(res, "start-beyond-length:no-proof-or-all-zero")
				case e < s:
					return exact(res, "in-domain:empty-slice")
				}
				return exact(res, "in-domain")
			}})
		for _, right := range []bool{false, true} {
			right := right
			out = append(out, xcase{gadget: "selector.Partition", params: fmt.Sprintf("n=%d:right=%v", n, right), nIn: 1 + n, nOut: n, inputs: withSel(field(), dataVectors(n), n), weight: 5 * n, expectPanic: n < 2,
				build: func(api frontend.API, in []frontend.Variable) []frontend.Variable {
					return selector.Partition(api, in[0], right, in[1:])
				},
				oracle: func(in []int) expect {
					pv := in[0]
					if pv > n {
						return unsat("pivot-beyond-length:no-proof")
					}
					res := make([]int, n)
					for i := 0; i < n; i++ {
						if (i < pv) != right {
							res[i] = in[1+i]
						}
					}
					return exact(res, "in-domain")
				}})
		}
	}
	return out
}

// ---- bitslice.Partition ---------------------------------------------------------------------

func bitsliceCases() []xcase {
	var out []xcase
	var vIn [][]int
	for _, v := range field() {
		vIn = append(vIn, []int{v})
	}
	for split := 0; split <= 6; split++ {
		split := split
		ref := func(v int) []int { return []int{v & (1<<uint(split) - 1), v >> uint(split)} }
		// no option: full binary decomposition
		out = append(out, xcase{gadget: "bitslice.Partition", params: fmt.Sprintf("split=%d:digits=field", split), nIn: 1, nOut: 2, inputs: vIn, weight: 30, expectPanic: split == 6,
			build: func(api frontend.API, in []frontend.Variable) []frontend.Variable {
				l, u := bitslice.Partition(plainAPI{api}, in[0], uint(split))
				return []frontend.Variable{l, u}
			},
			oracle: func(in []int) expect { return exact(ref(in[0]), "in-domain") }})
		for d := 1; d <= 7; d++ {
			d := d
			// upper < 2^(d-split): split <= d is the documented parameter domain
			out = append(out, xcase{gadget: "bitslice.Partition", params: fmt.Sprintf("split=%d:digits=%d", split, d), nIn: 1, nOut: 2, inputs: vIn, weight: 20, expectPanic: degenerate(split, d),
				build: func(api frontend.API, in []frontend.Variable) []frontend.Variable {
					l, u := bitslice.Partition(plainAPI{api}, in[0], uint(split), bitslice.WithNbDigits(d))
					return []frontend.Variable{l, u}
				},
				oracle: func(in []int) expect {
					if d < 6 && in[0] >= 1<<uint(d) {
						return unsat("input-wider-than-digits:no-proof")
					}
					return exact(ref(in[0]), "in-domain")
				}})
			out = append(out, xcase{gadget: "bitslice.Partition", params: fmt.Sprintf("split=%d:digits=%d:unconstrained-outputs", split, d), nIn: 1, nOut: 2, inputs: vIn, weight: 20, expectPanic: d >= 6 && split == 6,
				build: func(api frontend.API, in []frontend.Variable) []frontend.Variable {
					l, u := bitslice.Partition(plainAPI{api}, in[0], uint(split), bitslice.WithNbDigits(d), bitslice.WithUnconstrainedOutputs())
					return []frontend.Variable{l, u}
				},
				oracle: func(in []int) expect {
					if split == 0 {
						if d < 6 && in[0] >= 1<<uint(d) {
							return unsat("input-wider-than-digits:no-proof")
						}
						return exact(ref(in[0]), "in-domain")
					}
					if d >= 6 {
						return exact(ref(in[0]), "in-domain") // falls back to the full decomposition
					}
					if in[0] >= 1<<uint(d) {
						return unsat("input-wider-than-digits:no-proof")
					}
					e := anything("unconstrained-outputs:documented")
					e.nonEmpty = true
					return e
				}})
		}
		// constant input: folded at compile time
		for _, cst := range field() {
			cst := cst
			for _, d := range []int{0, 3, 5} {
				d := d
				out = append(out, xcase{gadget: "bitslice.Partition", params: fmt.Sprintf("split=%d:digits=%d:const=%d", split, d, cst), nIn: 1, nOut: 2, inputs: [][]int{{0}}, weight: 1,
					expectPanic: d > 0 && bitLen(cst) > d,
					build: func(api frontend.API, in []frontend.Variable) []frontend.Variable {
						var l, u frontend.Variable
						if d == 0 {
							l, u = bitslice.Partition(plainAPI{api}, cst, uint(split))
						} else {
							l, u = bitslice.Partition(plainAPI{api}, cst, uint(split), bitslice.WithNbDigits(d))
						}
						return []frontend.Variable{l, u}
					},
					oracle: func(in []int) expect { return exact(ref(cst), "in-domain:constant") }})
			}
		}
	}
	return out
}

// degenerate: parameter choices bitslice.Partition rejects with a panic while the circuit is being
// defined: a split above the number of digits, and a split AT the number of digits (the upper part
// would have zero bits: Check(upper, 0) / FromBinary of no digits panic).  Nothing is proved for
// them, so they are recorded as compile-time rejections, not as semantic violations.
func degenerate(split, d int) bool {
	if d >= 6 {
		return split == 6
	}
	return split >= d
}
