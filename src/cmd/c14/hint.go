package main

import (
	"fmt"
	"math/big"
	"strings"

	"github.com/consensys/gnark/constraint/solver"
	"github.com/consensys/gnark/frontend"
	"github.com/consensys/gnark/internal/verifh/circ"
	"github.com/consensys/gnark/internal/verifh/vh"
	"github.com/consensys/gnark/std/math/bitslice"
	"github.com/consensys/gnark/std/math/cmp"
	"github.com/consensys/gnark/std/selector"
)

var (
	isLessID    = hintByName("std/math/cmp.isLessOutputHint")
	minID       = hintByName("std/math/cmp.minOutputHint")
	muxIndID    = hintByName("std/selector.muxIndicators")
	mapIndID    = hintByName("std/selector.mapIndicators")
	stepID      = hintByName("std/selector.stepOutput")
	partitionID = hintByName("std/math/bitslice.partitionHint")
	nBitsID     = hintByName("std/math/bits.nBits")
)

type alt struct {
	name string
	vals []*big.Int
}

func vecAlts(h []*big.Int) []alt {
	n := len(h)
	out := []alt{{"honest", h}}
	mk := func(name string, f func(i int) *big.Int) {
		v := make([]*big.Int, n)
		for i := range v {
			v[i] = mod(f(i))
		}
		out = append(out, alt{name, v})
	}
	mk("complement", func(i int) *big.Int { return new(big.Int).Sub(bi(1), h[i]) })
	if n > 1 {
		mk("shift+1", func(i int) *big.Int { return h[(i+n-1)%n] })
		mk("shift-1", func(i int) *big.Int { return h[(i+1)%n] })
	}
	mk("all-zero", func(i int) *big.Int { return bi(0) })
	mk("all-one", func(i int) *big.Int { return bi(1) })
	pos := []int{0, n / 2, n - 1}
	seen := map[int]bool{}
	for _, p := range pos {
		if seen[p] {
			continue
		}
		seen[p] = true
		p := p
		mk(fmt.Sprintf("+1@%d", p), func(i int) *big.Int {
			if i == p {
				return new(big.Int).Add(h[i], bi(1))
			}
			return h[i]
		})
		mk(fmt.Sprintf("-1@%d", p), func(i int) *big.Int {
			if i == p {
				return new(big.Int).Sub(h[i], bi(1))
			}
			return h[i]
		})
	}
	return out
}

// hintAlts: the substitution alphabet of one hint call (honest first; duplicates of honest removed)
func hintAlts(id solver.HintID, in, honest []*big.Int) (string, []alt) {
	h := cloneVec(honest)
	var name string
	var alts []alt
	one := func(nm string, v ...*big.Int) {
		for i := range v {
			v[i] = mod(v[i])
		}
		alts = append(alts, alt{nm, v})
	}
	switch id {
	case isLessID:
		name = "isLess"
		one("honest", h[0])
		one("complement", new(big.Int).Sub(bi(1), h[0]))
		one("2", bi(2))
		one("-1", bi(-1))
	case minID:
		name = "min"
		one("honest", h[0])
		one("other-operand", new(big.Int).Sub(new(big.Int).Add(in[0], in[1]), h[0]))
		one("+1", new(big.Int).Add(h[0], bi(1)))
		one("-1", new(big.Int).Sub(h[0], bi(1)))
		one("0", bi(0))
	case muxIndID:
		name, alts = "muxIndicators", vecAlts(h)
	case mapIndID:
		name, alts = "mapIndicators", vecAlts(h)
	case stepID:
		name, alts = "stepOutput", vecAlts(h)
		for _, d := range []int64{1, -1} {
			pos := new(big.Int).Add(in[0], bi(d))
			v := make([]*big.Int, len(h))
			for i := range v {
				if pos.IsInt64() && int64(i) < pos.Int64() {
					v[i] = new(big.Int).Set(in[1])
				} else {
					v[i] = new(big.Int).Set(in[2])
				}
			}
			alts = append(alts, alt{fmt.Sprintf("step%+d", d), v})
		}
	case partitionID:
		name = "partition"
		s := int(in[0].Int64())
		one("honest", h[0], h[1])
		one("carry-down", new(big.Int).Sub(h[0], bi(1)), new(big.Int).Add(h[1], pow2(s)))
		one("carry-up", new(big.Int).Add(h[0], bi(1)), new(big.Int).Sub(h[1], pow2(s)))
		one("upper=0", bi(0), in[1])
		one("lower=0", new(big.Int).Mul(in[1], new(big.Int).ModInverse(pow2(s), bn)), bi(0))
		one("lower+1", h[0], new(big.Int).Add(h[1], bi(1)))
	case nBitsID:
		// built lazily (254-element vectors): see nBitsAlt
		return "nBits", nil
	default:
		return "", nil
	}
	// drop alternatives equal to honest
	out := alts[:1]
	for _, a := range alts[1:] {
		if bstr(a.vals) != bstr(alts[0].vals) {
			out = append(out, a)
		}
	}
	return name, out
}

type hintRun struct {
	x      *vh.Ctx
	n      int
	chosen []string
	only   map[solver.HintID]bool // nil = every known hint
}

func (r *hintRun) hook(id solver.HintID, q *big.Int, in, out []*big.Int, err error) error {
	if err != nil {
		return err
	}
	if r.only != nil && !r.only[id] {
		return nil
	}
	if id == nBitsID {
		ch := r.x.Choose(fmt.Sprintf("nBits#%d", r.n), nBitsCount(in, out))
		r.n++
		if ch != 0 {
			r.chosen = append(r.chosen, "nBits="+nBitsAlt(in, out, ch))
		}
		return nil
	}
	name, alts := hintAlts(id, in, out)
	if len(alts) < 2 {
		return nil
	}
	ch := r.x.Choose(fmt.Sprintf("%s#%d", name, r.n), len(alts))
	r.n++
	if ch != 0 {
		r.chosen = append(r.chosen, name+"="+alts[ch].name)
		setOut(out, alts[ch].vals)
	}
	return nil
}

// ---- cases -------------------------------------------------------------------------------------

type hverdict struct {
	want      []*big.Int              // documented output (nil: no proof must exist / undefined)
	mustSolve bool                    // honest prover must succeed with `want`
	allowed   func(o []*big.Int) bool // outputs the documentation allows (nil together with skip)
	skip      bool                    // documented failure zone: nothing is claimed
	zone      string
}

type hcase struct {
	gadget, params string
	nIn, nOut      int
	build          func(api frontend.API, in []frontend.Variable) []frontend.Variable
	inputs         [][]*big.Int
	judge          func(in []*big.Int) hverdict
	claims         func(in []*big.Int, v hverdict) [][]*big.Int // candidate claimed outputs (wrong ones are attacked)
	straddle       func(in []*big.Int) bool
	weight         int
}

func hintPart(c *vh.Check) {
	var cases []hcase
	cases = append(cases, hintBounded(c)...)
	cases = append(cases, hintGeneric(c)...)
	cases = append(cases, hintSelector(c)...)
	cases = append(cases, hintBitslice(c)...)
	var jobs []job
	for _, hc := range cases {
		for _, b := range []string{circ.R1CS, circ.SCS} {
			// chunks of inputs: each job compiles its own system (the hint hook is keyed by system)
			const chunk = 24
			for lo := 0; lo < len(hc.inputs); lo += chunk {
				hi := lo + chunk
				if hi > len(hc.inputs) {
					hi = len(hc.inputs)
				}
				part := hc
				part.inputs = hc.inputs[lo:hi]
				b := b
				jobs = append(jobs, job{fmt.Sprintf("hint:%s:%s:%s:%d", hc.gadget, hc.params, b, lo), hc.weight * len(part.inputs) * 8, func() { runHint(c, part, b, lo == 0) }})
			}
		}
	}
	runJobs(c, "hint", jobs)
}

func veq(a, b []*big.Int) bool { return bstr(a) == bstr(b) }

func runHint(c *vh.Check, hc hcase, b string, first bool) {
	ci := circ.New(0, hc.nIn+hc.nOut, func(api frontend.API, p, s []frontend.Variable) error {
		out := hc.build(api, s[:hc.nIn])
		for i, o := range out {
			api.AssertIsEqual(o, s[hc.nIn+i])
		}
		return nil
	})
	k := compileBN(c, b, hc.gadget+":"+hc.params, ci)
	defer k.setHook(nil)
	var execs, scen int64
	for _, in := range hc.inputs {
		if c.Expired() {
			c.Cap("hint: deadline inside " + k.name)
			break
		}
		v := hc.judge(in)
		c.Outcome("hint:" + hc.gadget + ":" + v.zone)
		if v.skip {
			continue
		}
		base := fmt.Sprintf("c14:hint:%s:%s:%s:in=%s", hc.gadget, hc.params, b, shortVec(in))
		if v.mustSolve {
			k.setHook(nil)
			e := k.solve(c, append(cloneVec(in), v.want...))
			c.Traces.Add(1)
			if e != "" {
				if hc.straddle != nil && hc.straddle(in) {
					// outside the documented (signed) domain of BoundedComparator, see x.go
					c.Outcome("hint:bounded:outside-signed-domain:honest-prover-fails")
				} else {
					c.Violation(base+":honest-unsolved", map[string]any{"case": k.name, "inputs": bstr(in), "documented_output": bstr(v.want), "solver": e})
				}
			}
		}
		for _, cl := range hc.claims(in, v) {
			if v.allowed != nil && v.allowed(cl) {
				continue
			}
			scen++
			sec := append(cloneVec(in), cl...)
			ex := &vh.Explorer{Bound: 2, Workers: 1, Stop: c.Expired}
			ex.Run = func(x *vh.Ctx) {
				r := &hintRun{x: x}
				k.setHook(r.hook)
				e := k.solve(c, sec)
				execs++
				if e == "" {
					c.Violation(fmt.Sprintf("%s:claimed=%s:%s", base, shortVec(cl), strings.Join(r.chosen, "+")), map[string]any{"case": k.name, "inputs": bstr(in), "claimed_output": bstr(cl), "documented_output": bstr(v.want), "zone": v.zone,
						"substituted_hints": r.chosen, "choices": x.Trace(), "note": "an output the documentation excludes is accepted with these hint outputs"})
					c.Outcome("hint:" + hc.gadget + ":WRONG-OUTPUT-ACCEPTED")
				}
			}
			ex.OnNondet = func(x *vh.Ctx) { c.Fatal("hint %s: nondeterministic choice sequence: %s", base, x.Diverged) }
			if !ex.Explore() {
				c.Cap("hint: deadline inside " + base)
			}
		}
	}
	c.Traces.Add(execs)
	c.Count("hint", "executions:"+hc.gadget, execs)
	c.Count("hint", "wrong-claim-scenarios:"+hc.gadget, scen)
	if first && hc.gadget == "bounded.IsLess" && strings.HasPrefix(hc.params, "U=5:") {
		c.Sample(map[string]any{"part": "hint", "case": k.name, "inputs": len(hc.inputs), "wrong_claim_scenarios": scen, "executions": execs})
	}
}

func vec(x ...*big.Int) []*big.Int { return x }
func ivec(x ...int64) []*big.Int {
	o := make([]*big.Int, len(x))
	for i := range x {
		o[i] = mod(bi(x[i]))
	}
	return o
}

// ---- bounded comparator over bn254 ----------------------------------------------------------------

func hintBounded(c *vh.Check) []hcase {
	var out []hcase
	half := new(big.Int).Rsh(bn, 1) // (p-1)/2
	type par struct {
		U  *big.Int
		nd bool
	}
	ps := []par{{bi(1), false}, {bi(5), false}, {new(big.Int).Sub(pow2(16), bi(1)), false}, {pow2(64), true}, {new(big.Int).Sub(pow2(252), bi(1)), false}, {pow2(252), true}}
	if c.Quick() {
		ps = []par{{bi(5), false}, {pow2(64), true}, {new(big.Int).Sub(pow2(252), bi(1)), false}}
	}
	for _, pr := range ps {
		U, nd := pr.U, pr.nd
		L := U.BitLen()
		thr := new(big.Int).Sub(bn, pow2(L))
		var inputs [][]*big.Int
		as := []*big.Int{bi(0), bi(1), bi(7), U, sub(pow2(L), bi(1)), sub(half, bi(1)), half, sub(bn, add(U, bi(1))), sub(bn, bi(1))}
		ds := []*big.Int{bi(0), bi(1), bi(2), U, add(U, bi(1)), sub(pow2(L), bi(1)), pow2(L), add(pow2(L), bi(1))}
		seen := map[string]bool{}
		for _, a := range as {
			for _, d := range ds {
				for _, bb := range []*big.Int{add(a, d), sub(a, d)} {
					key := a.String() + "," + bb.String()
					if !seen[key] {
						seen[key] = true
						inputs = append(inputs, vec(mod(a), bb))
					}
				}
			}
		}
		for _, m := range []string{"IsLess", "IsLessEq", "Min", "AssertIsLessEq"} {
			m := m
			nOut := 1
			if m == "AssertIsLessEq" {
				nOut = 0
			}
			judge := func(in []*big.Int) hverdict {
				a, b := in[0], in[1]
				delta := sub(b, a)
				type rep struct {
					D      *big.Int
					lt, le bool
					min    *big.Int
				}
				reps := []rep{{delta, delta.Sign() > 0, true, a}, {new(big.Int).Sub(bn, delta), false, false, b}}
				var oks []func(o []*big.Int) bool
				v := hverdict{}
				for _, r := range reps {
					var res []*big.Int
					sat := true
					switch m {
					case "IsLess":
						res = ivec(int64(b2i(r.lt)))
					case "IsLessEq":
						res = ivec(int64(b2i(r.le)))
					case "Min":
						res = vec(r.min)
					case "AssertIsLessEq":
						sat = r.le
					}
					match := func(o []*big.Int) bool {
						if nOut == 0 {
							return sat
						}
						return veq(o, res)
					}
					switch {
					case r.D.Cmp(U) <= 0:
						oks = append(oks, match)
						if nOut > 0 || sat {
							v.mustSolve = true
							v.want = res
						}
						v.zone = "within-bound"
					case r.D.Cmp(thr) < 0:
						oks = append(oks, match)
						if v.zone == "" {
							v.zone = "above-bound:no-proof-or-correct"
						}
					}
				}
				if len(oks) == 0 {
					return hverdict{skip: true, zone: "failure-zone:documented"}
				}
				v.allowed = func(o []*big.Int) bool {
					for _, f := range oks {
						if !f(o) {
							return false
						}
					}
					return true
				}
				return v
			}
			out = append(out, hcase{gadget: "bounded." + m, params: fmt.Sprintf("U=%s:nd=%v", short(U), nd), nIn: 2, nOut: nOut, inputs: inputs, weight: 2 + L/16,
				build: func(api frontend.API, in []frontend.Variable) []frontend.Variable {
					bc := cmp.NewBoundedComparator(api, U, nd)
					switch m {
					case "IsLess":
						return []frontend.Variable{bc.IsLess(in[0], in[1])}
					case "IsLessEq":
						return []frontend.Variable{bc.IsLessEq(in[0], in[1])}
					case "Min":
						return []frontend.Variable{bc.Min(in[0], in[1])}
					}
					bc.AssertIsLessEq(in[0], in[1])
					return nil
				},
				judge: judge,
				claims: func(in []*big.Int, v hverdict) [][]*big.Int {
					switch m {
					case "AssertIsLessEq":
						return [][]*big.Int{{}}
					case "Min":
						return [][]*big.Int{vec(in[0]), vec(in[1]), vec(add(in[0], bi(1))), vec(bi(0))}
					}
					return [][]*big.Int{ivec(0), ivec(1), ivec(2)}
				},
				straddle: func(in []*big.Int) bool {
					a, b := in[0], in[1]
					if m == "IsLessEq" {
						b = add(b, bi(1))
					}
					return (a.Cmp(half) < 0 && b.Cmp(half) > 0) || (a.Cmp(half) > 0 && b.Cmp(half) < 0)
				}})
		}
	}
	return out
}

// ---- generic comparison over bn254 ----------------------------------------------------------------

func boundaryValues(quick bool) []*big.Int {
	half := new(big.Int).Rsh(bn, 1)
	v := []*big.Int{bi(0), bi(1), bi(2), half, add(half, bi(1)), sub(bn, bi(2)), sub(bn, bi(1))}
	ks := []int{8, 64, 128, 252, 253}
	if quick {
		ks = []int{252}
		v = []*big.Int{bi(0), bi(1), half, add(half, bi(1)), sub(bn, bi(1)), sub(pow2(253), bi(1)), mod(pow2(253))}
	}
	for _, k := range ks {
		v = append(v, sub(pow2(k), bi(1)), mod(pow2(k)), add(pow2(k), bi(1)))
	}
	return v
}

func hintGeneric(c *vh.Check) []hcase {
	var out []hcase
	bv := boundaryValues(c.Quick())
	var pairs [][]*big.Int
	for _, a := range bv {
		for _, b := range bv {
			pairs = append(pairs, vec(a, b))
		}
	}
	type fn struct {
		name string
		f    func(api frontend.API, a, b frontend.Variable) frontend.Variable
		ref  func(cmp int) bool
	}
	for _, f := range []fn{
		{"IsLess", cmp.IsLess, func(c int) bool { return c < 0 }},
		{"IsLessOrEqual", cmp.IsLessOrEqual, func(c int) bool { return c <= 0 }},
		{"IsEqual", cmp.IsEqual, func(c int) bool { return c == 0 }},
	} {
		f := f
		out = append(out, hcase{gadget: "cmp." + f.name, params: "vars", nIn: 2, nOut: 1, inputs: pairs, weight: 30,
			build: func(api frontend.API, in []frontend.Variable) []frontend.Variable {
				return []frontend.Variable{f.f(api, in[0], in[1])}
			},
			judge: func(in []*big.Int) hverdict {
				res := ivec(int64(b2i(f.ref(in[0].Cmp(in[1])))))
				return hverdict{want: res, mustSolve: true, allowed: func(o []*big.Int) bool { return veq(o, res) }, zone: "in-domain"}
			},
			claims: func(in []*big.Int, v hverdict) [][]*big.Int { return [][]*big.Int{ivec(0), ivec(1), ivec(2)} }})
	}
	return out
}

// ---- selector over bn254 ------------------------------------------------------------------------

func hintSelector(c *vh.Check) []hcase {
	var out []hcase
	data := ivec(11, 22, 33, 44, 55, 66, 77, 88)
	sels := func(n int) []*big.Int {
		return []*big.Int{bi(0), bi(1), bi(int64(n - 1)), bi(int64(n)), bi(int64(n + 1)), bi(int64(2*n + 1)), pow2(64), sub(bn, bi(1)), add(new(big.Int).Rsh(bn, 1), bi(1))}
	}
	small := func(x *big.Int, n int) (int, bool) {
		if x.IsInt64() && x.Int64() >= 0 && x.Int64() < int64(n) {
			return int(x.Int64()), true
		}
		return 0, false
	}
	hot := func(n, i int) []*big.Int {
		o := make([]*big.Int, n)
		for j := range o {
			o[j] = bi(int64(b2i(j == i)))
		}
		return o
	}
	exactly := func(res []*big.Int, zone string) hverdict {
		return hverdict{want: res, mustSolve: true, allowed: func(o []*big.Int) bool { return veq(o, res) }, zone: zone}
	}
	never := func(zone string) hverdict {
		return hverdict{allowed: func([]*big.Int) bool { return false }, zone: zone}
	}
	ns := []int{1, 2, 3, 5, 8}
	if c.Quick() {
		ns = []int{1, 3, 4, 5}
	}
	for _, n := range ns {
		n := n
		var in1 [][]*big.Int
		for _, s := range sels(n) {
			in1 = append(in1, append(vec(mod(s)), data[:n]...))
		}
		out = append(out, hcase{gadget: "selector.Mux", params: fmt.Sprintf("n=%d", n), nIn: 1 + n, nOut: 1, inputs: in1, weight: 3 * n,
			build: func(api frontend.API, in []frontend.Variable) []frontend.Variable {
				return []frontend.Variable{selector.Mux(api, in[0], in[1:]...)}
			},
			judge: func(in []*big.Int) hverdict {
				if i, ok := small(in[0], n); ok {
					return exactly(vec(in[1+i]), "selector-in-range")
				}
				return never("selector-out-of-range")
			},
			claims: func(in []*big.Int, v hverdict) [][]*big.Int {
				cl := [][]*big.Int{vec(in[1]), vec(in[n]), vec(bi(0))}
				if n > 1 {
					cl = append(cl, vec(in[2]))
				}
				return cl
			}})
		var decIn [][]*big.Int
		for _, s := range sels(n) {
			decIn = append(decIn, vec(mod(s)))
		}
		vclaims := func(n int) func(in []*big.Int, v hverdict) [][]*big.Int {
			return func(in []*big.Int, v hverdict) [][]*big.Int {
				cl := [][]*big.Int{hot(n, 0), hot(n, n-1), hot(n, -1)}
				if v.want != nil {
					for _, a := range vecAlts(v.want)[1:] {
						cl = append(cl, a.vals)
					}
				}
				return cl
			}
		}
		out = append(out, hcase{gadget: "selector.Decoder", params: fmt.Sprintf("n=%d", n), nIn: 1, nOut: n, inputs: decIn, weight: 3 * n,
			build: func(api frontend.API, in []frontend.Variable) []frontend.Variable {
				return selector.Decoder(api, n, in[0])
			},
			judge: func(in []*big.Int) hverdict {
				if i, ok := small(in[0], n); ok {
					return exactly(hot(n, i), "selector-in-range")
				}
				return never("selector-out-of-range")
			}, claims: vclaims(n)})
		// KeyDecoder / Map with large distinct keys
		keys := []*big.Int{sub(bn, bi(1)), bi(0), pow2(64), add(new(big.Int).Rsh(bn, 1), bi(1)), bi(5), bi(6), pow2(200), bi(9)}[:n]
		var kin [][]*big.Int
		for _, q := range append(cloneVec(keys), bi(1), add(keys[0], bi(1)), sub(keys[0], bi(1))) {
			kin = append(kin, append(vec(mod(q)), keys...))
		}
		find := func(q *big.Int) int {
			for i, k := range keys {
				if k.Cmp(q) == 0 {
					return i
				}
			}
			return -1
		}
		out = append(out, hcase{gadget: "selector.KeyDecoder", params: fmt.Sprintf("n=%d", n), nIn: 1 + n, nOut: n, inputs: kin, weight: 3 * n,
			build: func(api frontend.API, in []frontend.Variable) []frontend.Variable {
				return selector.KeyDecoder(api, in[0], in[1:len(in):len(in)])
			},
			judge: func(in []*big.Int) hverdict {
				if i := find(in[0]); i >= 0 {
					return exactly(hot(n, i), "key-present")
				}
				z := hot(n, -1)
				return hverdict{allowed: func(o []*big.Int) bool { return veq(o, z) }, zone: "key-absent"}
			}, claims: vclaims(n)})
		var min [][]*big.Int
		for _, kv := range kin {
			min = append(min, append(cloneVec(kv), data[:n]...))
		}
		out = append(out, hcase{gadget: "selector.Map", params: fmt.Sprintf("n=%d", n), nIn: 1 + 2*n, nOut: 1, inputs: min, weight: 3 * n,
			build: func(api frontend.API, in []frontend.Variable) []frontend.Variable {
				return []frontend.Variable{selector.Map(api, in[0], in[1:1+n:1+n], in[1+n:])}
			},
			judge: func(in []*big.Int) hverdict {
				if i := find(in[0]); i >= 0 {
					return exactly(vec(in[1+n+i]), "key-present")
				}
				return never("key-absent")
			},
			claims: func(in []*big.Int, v hverdict) [][]*big.Int {
				return [][]*big.Int{vec(in[1+n]), vec(in[2*n]), vec(bi(0)), vec(add(in[1+n], bi(1)))}
			}})
		if n < 2 {
			continue
		}
		// selector.Partition / Slice
		pivots := []*big.Int{bi(0), bi(1), bi(int64(n - 1)), bi(int64(n)), bi(int64(n + 1)), sub(bn, bi(1)), pow2(64)}
		for _, right := range []bool{false, true} {
			right := right
			var pin [][]*big.Int
			for _, pv := range pivots {
				pin = append(pin, append(vec(mod(pv)), data[:n]...))
			}
			res := func(pv int, in []*big.Int) []*big.Int {
				o := make([]*big.Int, n)
				for i := range o {
					o[i] = bi(0)
					if (i < pv) != right {
						o[i] = in[1+i]
					}
				}
				return o
			}
			out = append(out, hcase{gadget: "selector.Partition", params: fmt.Sprintf("n=%d:right=%v", n, right), nIn: 1 + n, nOut: n, inputs: pin, weight: 3 * n,
				build: func(api frontend.API, in []frontend.Variable) []frontend.Variable {
					return selector.Partition(api, in[0], right, in[1:])
				},
				judge: func(in []*big.Int) hverdict {
					if pv, ok := small(in[0], n+1); ok {
						return exactly(res(pv, in), "in-domain")
					}
					return never("pivot-beyond-length")
				},
				claims: func(in []*big.Int, v hverdict) [][]*big.Int {
					var cl [][]*big.Int
					for pv := 0; pv <= n; pv++ {
						cl = append(cl, res(pv, in))
					}
					return cl
				}})
		}
		spiv := pivots
		if c.Quick() {
			spiv = []*big.Int{bi(0), bi(1), bi(int64(n)), bi(int64(n + 1)), sub(bn, bi(1))}
		}
		var sin [][]*big.Int
		for _, s := range spiv {
			for _, e := range spiv {
				sin = append(sin, append(vec(mod(s), mod(e)), data[:n]...))
			}
		}
		sres := func(s, e int, in []*big.Int) []*big.Int {
			o := make([]*big.Int, n)
			for i := range o {
				o[i] = bi(0)
				if i >= s && i < e {
					o[i] = in[2+i]
				}
			}
			return o
		}
		out = append(out, hcase{gadget: "selector.Slice", params: fmt.Sprintf("n=%d", n), nIn: 2 + n, nOut: n, inputs: sin, weight: 5 * n,
			build: func(api frontend.API, in []frontend.Variable) []frontend.Variable {
				return selector.Slice(api, in[0], in[1], in[2:])
			},
			judge: func(in []*big.Int) hverdict {
				s, okS := small(in[0], n+1)
				e, okE := small(in[1], n+1)
				switch {
				case okS && okE:
					return exactly(sres(s, e, in), "in-domain")
				case !okE:
					return never("end-beyond-length")
				}
				z := sres(0, 0, in)
				return hverdict{allowed: func(o []*big.Int) bool { return veq(o, z) }, zone: "start-beyond-length"}
			},
			claims: func(in []*big.Int, v hverdict) [][]*big.Int {
				// neighbours of the documented window and the trivial masks
				var cl [][]*big.Int
				s0, okS := small(in[0], n+1)
				e0, okE := small(in[1], n+1)
				if !okS {
					s0 = 0
				}
				if !okE {
					e0 = n
				}
				for _, w := range [][2]int{{s0, e0}, {s0 + 1, e0}, {s0 - 1, e0}, {s0, e0 + 1}, {s0, e0 - 1}, {0, n}, {0, 0}, {e0, s0}} {
					if w[0] >= 0 && w[1] <= n && w[0] <= n && w[1] >= 0 {
						cl = append(cl, sres(w[0], w[1], in))
					}
				}
				return cl
			}})
	}
	return out
}

// ---- bitslice.Partition over bn254 (commitment range checker) -------------------------------------

func hintBitslice(c *vh.Check) []hcase {
	var out []hcase
	type par struct{ split, digits int }
	ps := []par{{0, 8}, {1, 8}, {4, 8}, {7, 8}, {3, 16}, {32, 35}, {64, 66}, {1, 253}, {200, 253}, {0, 0}, {1, 0}, {128, 0}, {253, 0}}
	if c.Quick() {
		ps = []par{{0, 8}, {4, 8}, {7, 8}, {32, 35}, {200, 253}, {128, 0}}
	}
	for _, pr := range ps {
		pr := pr
		d := pr.digits
		if d == 0 {
			d = 254
		}
		vals := []*big.Int{bi(0), bi(1), sub(pow2(pr.split), bi(1)), mod(pow2(pr.split)), add(pow2(pr.split), bi(1)), sub(pow2(d), bi(1)), mod(pow2(d)), add(pow2(d), bi(1)), sub(bn, bi(1))}
		var ins [][]*big.Int
		seen := map[string]bool{}
		for _, v := range vals {
			v = mod(v)
			if !seen[v.String()] {
				seen[v.String()] = true
				ins = append(ins, vec(v))
			}
		}
		ref := func(v *big.Int) []*big.Int {
			return vec(new(big.Int).And(v, sub(pow2(pr.split), bi(1))), new(big.Int).Rsh(v, uint(pr.split)))
		}
		out = append(out, hcase{gadget: "bitslice.Partition", params: fmt.Sprintf("split=%d:digits=%d", pr.split, pr.digits), nIn: 1, nOut: 2, inputs: ins, weight: 10 + d/8,
			build: func(api frontend.API, in []frontend.Variable) []frontend.Variable {
				var l, u frontend.Variable
				if pr.digits == 0 {
					l, u = bitslice.Partition(api, in[0], uint(pr.split))
				} else {
					l, u = bitslice.Partition(api, in[0], uint(pr.split), bitslice.WithNbDigits(pr.digits))
				}
				return []frontend.Variable{l, u}
			},
			judge: func(in []*big.Int) hverdict {
				if in[0].BitLen() > d {
					return hverdict{allowed: func([]*big.Int) bool { return false }, zone: "input-wider-than-digits"}
				}
				r := ref(in[0])
				return hverdict{want: r, mustSolve: true, allowed: func(o []*big.Int) bool { return veq(o, r) }, zone: "in-domain"}
			},
			claims: func(in []*big.Int, v hverdict) [][]*big.Int {
				r := ref(in[0])
				return [][]*big.Int{r, vec(add(r[0], pow2(pr.split)), sub(r[1], bi(1))), vec(sub(r[0], pow2(pr.split)), add(r[1], bi(1))), vec(in[0], bi(0)), vec(bi(0), mod(new(big.Int).Mul(in[0], new(big.Int).ModInverse(pow2(pr.split), bn))))}
			}})
	}
	return out
}

// nBitsAlt: alternatives of the binary-decomposition hint, built only when chosen.
// 0 honest, 1 flip@0, 2 flip@top, 3 carry@0 (b0+2, b1-1), 4 bits of v+p (when they fit)
func nBitsCount(in, h []*big.Int) int {
	n := len(h)
	if n < 2 {
		return 2
	}
	if new(big.Int).Add(in[0], bn).BitLen() <= n {
		return 5
	}
	return 4
}

func nBitsAlt(in, out []*big.Int, ch int) string {
	n := len(out)
	switch ch {
	case 1:
		out[0].Sub(bi(1), out[0])
		out[0].Mod(out[0], bn)
		return "flip@0"
	case 2:
		out[n-1].Sub(bi(1), out[n-1])
		out[n-1].Mod(out[n-1], bn)
		return fmt.Sprintf("flip@%d", n-1)
	case 3:
		out[0].Add(out[0], bi(2))
		out[1].Sub(out[1], bi(1))
		out[1].Mod(out[1], bn)
		return "carry@0"
	case 4:
		vp := new(big.Int).Add(in[0], bn)
		for i := range out {
			out[i].SetUint64(uint64(vp.Bit(i)))
		}
		return "bits-of-v+p"
	}
	return "honest"
}
