package main

import (
	"fmt"
	"math/big"
	"math/bits"
	"strings"
	"time"

	"github.com/consensys/gnark/constraint/solver"
	"github.com/consensys/gnark/frontend"
	"github.com/consensys/gnark/internal/verifh/circ"
	"github.com/consensys/gnark/internal/verifh/vh"
	"github.com/consensys/gnark/std/math/uints"
)

var (
	toBytesID = hintByName("std/math/uints.toBytes")
	xorID     = hintByName("std/math/uints.xorHint")
	andID     = hintByName("std/math/uints.andHint")
	orID      = hintByName("std/math/uints.orHint")
)

// ---- bytes: And / Or / Xor / Not on all 65 536 byte pairs ---------------------------------------

const batchA = 128 // a-values per circuit: 128*256 = 32768 pairs per solved circuit (compiling the three 65 536-row tables dominates the cost)

const nBytesIn = batchA + 256 + 3*batchA*256 + batchA

func defineBytes(api frontend.API, s []frontend.Variable) error {
	nPairs := batchA * 256
	// inputs: a[batchA], b[256], and[nPairs], or[nPairs], xor[nPairs], not[batchA]
	bf, err := uints.New[uints.U32](api)
	if err != nil {
		return err
	}
	a := make([]uints.U8, batchA)
	for i := range a {
		a[i] = bf.ByteValueOf(s[i])
	}
	b := make([]uints.U8, 256)
	for j := range b {
		b[j] = bf.ByteValueOf(s[batchA+j])
	}
	cAnd := s[batchA+256:]
	cOr := cAnd[nPairs:]
	cXor := cOr[nPairs:]
	cNot := cXor[nPairs:]
	for i := 0; i < batchA; i++ {
		x := bf.PackLSB(a[i], a[i], a[i], a[i])
		for j := 0; j < 256; j += 4 {
			y := bf.PackLSB(b[j], b[j+1], b[j+2], b[j+3])
			rA, rO, rX := bf.And(x, y), bf.Or(x, y), bf.Xor(x, y)
			for t := 0; t < 4; t++ {
				api.AssertIsEqual(rA[t].Val, cAnd[i*256+j+t])
				api.AssertIsEqual(rO[t].Val, cOr[i*256+j+t])
				api.AssertIsEqual(rX[t].Val, cXor[i*256+j+t])
			}
		}
		n := bf.Not(x)
		api.AssertIsEqual(n[0].Val, cNot[i])
	}
	return nil
}

// bytesCircuit: the byte sweep of one batch plus the bitwise WORD operations of width w on the
// word alphabet (they share the three 65 536-row tables, whose compilation dominates the cost).
func bytesCircuit(w int) *circ.C {
	n := len(words32)
	return circ.New(0, nBytesIn+n+bitwOuts(n), func(api frontend.API, p, s []frontend.Variable) error {
		if err := defineBytes(api, s[:nBytesIn]); err != nil {
			return err
		}
		if w == 32 {
			return defineBitw[uints.U32](api, n, s[nBytesIn:])
		}
		return defineBitw[uints.U64](api, n, s[nBytesIn:])
	})
}

func bytesPart(c *vh.Check) {
	var jobs []job
	nb := 256 / batchA
	for batch := 0; batch < nb; batch++ {
		for bi_, b := range []string{circ.R1CS, circ.SCS} {
			if c.Quick() && batch%2 != bi_ {
				continue // quick: every pair once, builders alternate between batches
			}
			batch, b := batch, b
			w := 32
			if batch%2 == 1 {
				w = 64
			}
			jobs = append(jobs, job{fmt.Sprintf("bytes:%d:%s", batch, b), 1000000, func() {
				t0 := time.Now()
				k := compileBN(c, b, fmt.Sprintf("uints.bytes:a=%d..%d+bitwise%d", batch*batchA, batch*batchA+batchA-1, w), bytesCircuit(w))
				c.Count("bytes", "compile_ms", time.Since(t0).Milliseconds())
				defer func() { c.Count("bytes", "job_ms", time.Since(t0).Milliseconds()) }()
				nPairs := batchA * 256
				mk := func(corrupt int) []*big.Int {
					sec := make([]*big.Int, 0, nBytesIn+200)
					for i := 0; i < batchA; i++ {
						sec = append(sec, bi(int64(batch*batchA+i)))
					}
					for j := 0; j < 256; j++ {
						sec = append(sec, bi(int64(j)))
					}
					for op := 0; op < 3; op++ {
						for i := 0; i < batchA; i++ {
							a := uint8(batch*batchA + i)
							for j := 0; j < 256; j++ {
								var r uint8
								switch op {
								case 0:
									r = a & uint8(j)
								case 1:
									r = a | uint8(j)
								case 2:
									r = a ^ uint8(j)
								}
								sec = append(sec, bi(int64(r)))
							}
						}
					}
					for i := 0; i < batchA; i++ {
						sec = append(sec, bi(int64(^uint8(batch*batchA+i))))
					}
					sec = append(sec, bitwWitness(w)...)
					if corrupt >= 0 {
						sec[corrupt] = new(big.Int).Xor(sec[corrupt], bi(1))
					}
					return sec
				}
				e := k.solve(c, mk(-1))
				c.Traces.Add(1)
				if e != "" {
					c.Violation(fmt.Sprintf("c14:bytes:%s:a=%d..%d:native-results-rejected", b, batch*batchA, batch*batchA+batchA-1), map[string]any{"case": k.name, "solver": e, "note": "And/Or/Xor/Not of Go's native arithmetic on this batch of byte pairs (and on the word alphabet) is not accepted"})
					c.Outcome("bytes:REJECTED")
				} else {
					c.Outcome("bytes:native-results-accepted")
					c.Outcome(fmt.Sprintf("words:bitwise%d:native-results-accepted", w))
				}
				c.Count("bytes", "pairs", int64(nPairs))
				c.Count("bytes", "byte-operations", int64(3*nPairs+batchA))
				c.Count("words", fmt.Sprintf("bitwise%d-operations", w), int64(bitwOuts(len(words32))))
				// corrupted claims (one byte result whose position depends on the batch, one word result): rejected
				nW := len(words32)
				for _, pos := range []int{batchA + 256 + (batch*2654435761+12345)%(3*nPairs+batchA), nBytesIn + nW + (7+5*batch)%bitwOuts(nW)} {
					if c.Expired() {
						c.Cap("bytes: deadline before the corrupted-claim runs of " + k.name)
						return
					}
					e = k.solve(c, mk(pos))
					c.Traces.Add(1)
					if e == "" {
						c.Violation(fmt.Sprintf("c14:bytes:%s:a=%d..%d:corrupted@%d:accepted", b, batch*batchA, batch*batchA+batchA-1, pos), map[string]any{"case": k.name, "note": "a claimed result with one bit flipped is accepted"})
					} else if pos < nBytesIn {
						c.Outcome("bytes:corrupted-result-rejected")
					} else {
						c.Outcome(fmt.Sprintf("words:bitwise%d:wrong-result-rejected", w))
					}
				}
				if batch < 2 {
					c.Sample(map[string]any{"part": "bytes", "case": k.name, "pairs": nPairs, "native_results": "accepted", "corrupted": "rejected: " + e})
				}
			}})
		}
	}
	runJobs(c, "bytes", jobs)
}

// ---- words ---------------------------------------------------------------------------------------

var words32 = []uint64{0, 1, 0x7fffffff, 0x80000000, 0xffffffff, 0x01020384}
var words64 = []uint64{0, 1, 0x7fffffffffffffff, 0x8000000000000000, 0xffffffffffffffff, 0x0102030405060788}

// addNative / rotNative: names and native results of the two arithmetic circuits.
func wmask(w int) uint64 {
	if w == 64 {
		return ^uint64(0)
	}
	return uint64(1)<<uint(w) - 1
}

func addNative(w int, x, y, z uint64) (names []string, vals []uint64) {
	addv := func(n string, v uint64) { names = append(names, n); vals = append(vals, v&wmask(w)) }
	addv("Add(x,y)", x+y)
	addv("Add(x,y,z)", x+y+z)
	addv("Add(x,x,x)", 3*x)
	addv("Add(const,x)", 0x0badcafe12345678+x)
	addv("Add(x,y,z,x,y)", 2*x+2*y+z)
	return
}

func rotNative(w int, x uint64) (names []string, vals []uint64) {
	addv := func(n string, v uint64) { names = append(names, n); vals = append(vals, v&wmask(w)) }
	for cc := -w; cc <= w; cc++ {
		var r uint64
		if w == 32 {
			r = uint64(bits.RotateLeft32(uint32(x), cc))
		} else {
			r = bits.RotateLeft64(x, cc)
		}
		addv(fmt.Sprintf("Lrot(x,%d)", cc), r)
	}
	for cc := 0; cc < w; cc++ {
		addv(fmt.Sprintf("Rshift(x,%d)", cc), (x&wmask(w))>>uint(cc))
	}
	// byte order: PackMSB(UnpackLSB(x)) reverses the bytes; PackLSB(UnpackMSB(x)) as well
	rev := uint64(bits.ReverseBytes64(x))
	if w == 32 {
		rev = uint64(bits.ReverseBytes32(uint32(x)))
	}
	addv("PackMSB(UnpackLSB(x))", rev)
	addv("PackLSB(UnpackMSB(x))", rev)
	addv("PackLSB(UnpackLSB(x))", x)
	addv("PackMSB(UnpackMSB(x))", x)
	return
}

func constWord[T uints.Long]() T {
	var k T
	switch kk := any(&k).(type) {
	case *uints.U32:
		*kk = uints.NewU32(0x12345678)
	case *uints.U64:
		*kk = uints.NewU64(0x0badcafe12345678)
	}
	return k
}

// addCircuit: inputs x,y,z and the claimed sums
func addCircuit[T uints.Long](w int) (*circ.C, int) {
	names, _ := addNative(w, 0, 0, 0)
	return circ.New(0, 3+len(names), func(api frontend.API, p, s []frontend.Variable) error {
		bf, err := uints.New[T](api)
		if err != nil {
			return err
		}
		x, y, z := bf.ValueOf(s[0]), bf.ValueOf(s[1]), bf.ValueOf(s[2])
		outs := []T{bf.Add(x, y), bf.Add(x, y, z), bf.Add(x, x, x), bf.Add(constWord[T](), x), bf.Add(x, y, z, x, y)}
		for i, o := range outs {
			api.AssertIsEqual(bf.ToValue(o), s[3+i])
		}
		return nil
	}), len(names)
}

// rotCircuit: input x, claimed results of every rotation / shift amount and of the packing
// round trips, and the claimed bytes of x
func rotCircuit[T uints.Long](w int) (*circ.C, int) {
	names, _ := rotNative(w, 0)
	nOut := len(names)
	return circ.New(0, 1+nOut+w/8, func(api frontend.API, p, s []frontend.Variable) error {
		bf, err := uints.New[T](api)
		if err != nil {
			return err
		}
		x := bf.ValueOf(s[0])
		var outs []T
		for cc := -w; cc <= w; cc++ {
			outs = append(outs, bf.Lrot(x, cc))
		}
		for cc := 0; cc < w; cc++ {
			outs = append(outs, bf.Rshift(x, cc))
		}
		outs = append(outs, bf.PackMSB(bf.UnpackLSB(x)...), bf.PackLSB(bf.UnpackMSB(x)...), bf.PackLSB(bf.UnpackLSB(x)...), bf.PackMSB(bf.UnpackMSB(x)...))
		for i, o := range outs {
			api.AssertIsEqual(bf.ToValue(o), s[1+i])
		}
		// UnpackLSB bytes of x against claimed bytes, AssertEq / ByteAssertEq on equal values
		ub := bf.UnpackLSB(x)
		for i := range ub {
			bf.ByteAssertEq(ub[i], bf.ByteValueOf(s[1+nOut+i]))
		}
		bf.AssertEq(x, bf.PackLSB(ub...))
		return nil
	}), nOut
}

func bitwOuts(n int) int { return 3*n*n + n + 3*n }

// defineBitw: inputs n words; claimed And/Or/Xor for every ordered pair, Not for every word, and
// the three-operand forms for consecutive triples
func defineBitw[T uints.Long](api frontend.API, n int, s []frontend.Variable) error {
	bf, err := uints.New[T](api)
	if err != nil {
		return err
	}
	ws := make([]T, n)
	for i := range ws {
		ws[i] = bf.ValueOf(s[i])
	}
	o := n
	for i := 0; i < n; i++ {
		for j := 0; j < n; j++ {
			api.AssertIsEqual(bf.ToValue(bf.And(ws[i], ws[j])), s[o])
			api.AssertIsEqual(bf.ToValue(bf.Or(ws[i], ws[j])), s[o+1])
			api.AssertIsEqual(bf.ToValue(bf.Xor(ws[i], ws[j])), s[o+2])
			o += 3
		}
	}
	for i := 0; i < n; i++ {
		api.AssertIsEqual(bf.ToValue(bf.Not(ws[i])), s[o])
		o++
	}
	for i := 0; i < n; i++ {
		a, b, d := ws[i], ws[(i+1)%n], ws[(i+2)%n]
		api.AssertIsEqual(bf.ToValue(bf.And(a, b, d)), s[o])
		api.AssertIsEqual(bf.ToValue(bf.Or(a, b, d)), s[o+1])
		api.AssertIsEqual(bf.ToValue(bf.Xor(a, b, d)), s[o+2])
		o += 3
	}
	return nil
}

// bitwWitness: the word alphabet of width w and the native results in the order of defineBitw
func bitwWitness(w int) []*big.Int {
	ws, mask := words32, uint64(0xffffffff)
	if w == 64 {
		ws, mask = words64, ^uint64(0)
	}
	n := len(ws)
	var sec []*big.Int
	for _, x := range ws {
		sec = append(sec, u64big(x))
	}
	for i := 0; i < n; i++ {
		for j := 0; j < n; j++ {
			sec = append(sec, u64big(ws[i]&ws[j]), u64big(ws[i]|ws[j]), u64big(ws[i]^ws[j]))
		}
	}
	for i := 0; i < n; i++ {
		sec = append(sec, u64big(^ws[i]&mask))
	}
	for i := 0; i < n; i++ {
		a, bb, d := ws[i], ws[(i+1)%n], ws[(i+2)%n]
		sec = append(sec, u64big(a&bb&d), u64big(a|bb|d), u64big(a^bb^d))
	}
	return sec
}

func u64big(x uint64) *big.Int { return new(big.Int).SetUint64(x) }

// constructors of constant bytes / words: plain Go helpers, compared with the byte order ToValue uses
func constructorsCheck(c *vh.Check) {
	val := func(b []uints.U8) uint64 {
		var v uint64
		for i := range b {
			v |= uint64(b[i].Val.(uint8)) << uint(8*i)
		}
		return v
	}
	for _, x := range append(append([]uint64{}, words32...), words64...) {
		u32 := uints.NewU32(uint32(x))
		u64 := uints.NewU64(x)
		a8 := uints.NewU8Array([]uint8{uint8(x), uint8(x >> 8)})
		a32 := uints.NewU32Array([]uint32{uint32(x), uint32(x >> 32)})
		a64 := uints.NewU64Array([]uint64{x, ^x})
		ok := val(u32[:]) == uint64(uint32(x)) && val(u64[:]) == x && val(a8) == x&0xffff &&
			val(a32[0][:]) == uint64(uint32(x)) && val(a32[1][:]) == x>>32 && val(a64[0][:]) == x && val(a64[1][:]) == ^x
		if !ok {
			c.Violation(fmt.Sprintf("c14:words:constructors:x=%#x", x), map[string]any{"note": "NewU8/NewU32/NewU64 or the array constructors do not hold the little-endian bytes of the value"})
		}
		c.Evals.Add(1)
	}
	c.Outcome("words:constructors:little-endian-bytes")
}

func wordsPart(c *vh.Check) {
	constructorsCheck(c)
	var jobs []job
	for _, w := range []int{32, 64} {
		for _, b := range []string{circ.R1CS, circ.SCS} {
			w, b := w, b
			ws := words32
			if w == 64 {
				ws = words64
			}
			// additions: every (x,y,z) in W^3
			jobs = append(jobs, job{fmt.Sprintf("words:add:%d:%s", w, b), 20000, func() {
				var ci *circ.C
				var nOut int
				if w == 32 {
					ci, nOut = addCircuit[uints.U32](32)
				} else {
					ci, nOut = addCircuit[uints.U64](64)
				}
				k := compileBN(c, b, fmt.Sprintf("uints.add%d", w), ci)
				n := 0
				for _, x := range ws {
					for _, y := range ws {
						for _, z := range ws {
							names, vals := addNative(w, x, y, z)
							sec := []*big.Int{u64big(x), u64big(y), u64big(z)}
							for _, v := range vals {
								sec = append(sec, u64big(v))
							}
							tag := fmt.Sprintf("x=%#x,y=%#x,z=%#x", x, y, z)
							judgeWords(c, k, fmt.Sprintf("c14:words:%d:%s:%s", w, b, tag), fmt.Sprintf("words:add%d", w), sec, 3, (n*7)%nOut, names, vals, wmask(w))
							n++
							c.Count("words", fmt.Sprintf("add%d-operations", w), int64(nOut))
						}
					}
				}
				if b == circ.R1CS {
					c.Sample(map[string]any{"part": "words", "case": k.name, "witnesses": n, "operations_per_witness": nOut})
				}
			}})
			// rotations / shifts / packing: every x in W, every amount
			jobs = append(jobs, job{fmt.Sprintf("words:rot:%d:%s", w, b), 30000, func() {
				var ci *circ.C
				var nOut int
				if w == 32 {
					ci, nOut = rotCircuit[uints.U32](32)
				} else {
					ci, nOut = rotCircuit[uints.U64](64)
				}
				k := compileBN(c, b, fmt.Sprintf("uints.rot%d", w), ci)
				for n, x := range ws {
					names, vals := rotNative(w, x)
					sec := []*big.Int{u64big(x)}
					for _, v := range vals {
						sec = append(sec, u64big(v))
					}
					for i := 0; i < w/8; i++ {
						sec = append(sec, u64big((x>>uint(8*i))&0xff))
					}
					// several corrupted claims per witness: spread over rotations and shifts
					for _, pos := range []int{(n * 31) % nOut, (2*w + 1 + n*5) % nOut, nOut - 1 - n%4} {
						judgeWords(c, k, fmt.Sprintf("c14:words:%d:%s:x=%#x", w, b, x), fmt.Sprintf("words:rot%d", w), sec, 1, pos, names, vals, wmask(w))
					}
					c.Count("words", fmt.Sprintf("rot%d-operations", w), int64(nOut))
				}
			}})
		}
	}
	runJobs(c, "words", jobs)
}

// judgeWords: the native results must be accepted, one corrupted claim (operation `pos`) rejected.
func judgeWords(c *vh.Check, k *compiled, key, family string, sec []*big.Int, off, pos int, names []string, vals []uint64, mask uint64) {
	e := k.solve(c, sec)
	c.Traces.Add(1)
	if e != "" {
		c.Violation(key+":native-results-rejected", map[string]any{"case": k.name, "solver": e, "operations": len(names)})
		c.Outcome(family + ":REJECTED")
	} else {
		c.Outcome(family + ":native-results-accepted")
	}
	bad := cloneVec(sec)
	bad[off+pos] = u64big((vals[pos] ^ 1) & mask)
	e = k.solve(c, bad)
	c.Traces.Add(1)
	if e == "" {
		c.Violation(fmt.Sprintf("%s:%s:wrong-result-accepted", key, names[pos]), map[string]any{"case": k.name, "operation": names[pos], "claimed": bad[off+pos].String(), "native": vals[pos]})
	} else {
		c.Outcome(family + ":wrong-result-rejected")
	}
}

// ---- uints under hint substitution -----------------------------------------------------------------

type uadvRun struct {
	x      *vh.Ctx
	n      int
	chosen []string
	target []*big.Int // values the dishonest prover wants to appear (claimed result / its bytes)
	// targetOnly: table results are substituted by the target only (each execution builds 65 536-row tables)
	targetOnly bool
}

func bytesOf(v *big.Int, n int) []*big.Int {
	o := make([]*big.Int, n)
	t := new(big.Int).Set(v)
	for i := range o {
		o[i] = new(big.Int).And(t, bi(255))
		t.Rsh(t, 8)
	}
	return o
}

func (r *uadvRun) hook(id solver.HintID, q *big.Int, in, out []*big.Int, err error) error {
	if err != nil && id != toBytesID {
		return err
	}
	var name string
	var alts []alt
	h := cloneVec(out)
	push := func(nm string, v ...*big.Int) {
		for i := range v {
			v[i] = mod(v[i])
		}
		alts = append(alts, alt{nm, v})
	}
	switch id {
	case toBytesID:
		name = "toBytes"
		n := len(out)
		if err != nil { // the honest hint refuses values above 64 bits: the dishonest prover answers anyway
			h = bytesOf(new(big.Int).And(in[1], sub(pow2(8*n), bi(1))), n)
		}
		push("honest", h...)
		for ti, t := range r.target {
			push(fmt.Sprintf("bytes-of-target%d", ti), bytesOf(t, n)...)
		}
		if n > 1 {
			v := cloneVec(h)
			v[0].Add(v[0], bi(256))
			v[1].Sub(v[1], bi(1))
			push("carry@0", v...)
			v = cloneVec(h)
			v[n-1] = new(big.Int).Rsh(in[1], uint(8*(n-1))) // top byte absorbs everything above
			push("top-absorbs", v...)
		}
	case partitionID:
		name = "partition"
		s := int(in[0].Int64())
		push("honest", h[0], h[1])
		for ti, t := range r.target {
			push(fmt.Sprintf("lower=target%d", ti), h[0], t)
			push(fmt.Sprintf("lower=target%d:upper-consistent", ti), new(big.Int).Mul(new(big.Int).Sub(in[1], t), new(big.Int).ModInverse(pow2(s), bn)), t)
		}
		push("carry-down", new(big.Int).Sub(h[0], bi(1)), new(big.Int).Add(h[1], pow2(s)))
		push("carry-up", new(big.Int).Add(h[0], bi(1)), new(big.Int).Sub(h[1], pow2(s)))
		push("lower+1", h[0], new(big.Int).Add(h[1], bi(1)))
	case xorID, andID, orID:
		name = "table-result"
		push("honest", h[0])
		if r.targetOnly {
			for ti, t := range r.target {
				push(fmt.Sprintf("target%d", ti), t)
			}
			break
		}
		push("complement", new(big.Int).Xor(h[0], bi(255)))
		push("+1", new(big.Int).Add(h[0], bi(1)))
		push("-1", new(big.Int).Sub(h[0], bi(1)))
		// alias: packed = x + 2^8 y + 2^16 r must be SOME table row x' + 2^8 y' + 2^16 f(x',y'):
		// r' = f(x',y') + ((x'-x) + 2^8 (y'-y)) / 2^16 in the field
		f := func(a, b int64) int64 {
			switch id {
			case xorID:
				return a ^ b
			case andID:
				return a & b
			}
			return a | b
		}
		if in[0].IsInt64() && in[1].IsInt64() {
			x, y := in[0].Int64(), in[1].Int64()
			inv := new(big.Int).ModInverse(pow2(16), bn)
			for _, d := range [][2]int64{{1, 0}, {-1, 0}, {0, 1}, {0, -1}, {255 - 2*x, 255 - 2*y}} {
				xx, yy := x+d[0], y+d[1]
				if xx < 0 || xx > 255 || yy < 0 || yy > 255 {
					continue
				}
				num := bi((xx - x) + 256*(yy-y))
				push(fmt.Sprintf("alias-row(%+d,%+d)", d[0], d[1]), new(big.Int).Add(bi(f(xx, yy)), new(big.Int).Mul(num, inv)))
			}
		}
		for ti, t := range r.target {
			push(fmt.Sprintf("target%d", ti), t)
		}
	default:
		return err
	}
	outAlts := alts[:1]
	for _, a := range alts[1:] {
		if bstr(a.vals) != bstr(alts[0].vals) {
			outAlts = append(outAlts, a)
		}
	}
	ch := r.x.Choose(fmt.Sprintf("%s#%d", name, r.n), len(outAlts))
	r.n++
	if ch != 0 {
		r.chosen = append(r.chosen, name+"="+outAlts[ch].name)
	}
	setOut(out, outAlts[ch].vals)
	return nil
}

type uadvCase struct {
	name    string
	nIn     int
	build   func(api frontend.API, in []frontend.Variable) (frontend.Variable, error) // returns the result as one field value
	inputs  [][]uint64
	native  func(in []uint64) uint64
	wrong   func(in []uint64, res uint64) []*big.Int // claimed wrong results
	tables  bool
	targets func(in []uint64, claimed *big.Int) []*big.Int
}

func uadvCases(c *vh.Check) []uadvCase {
	w32 := func(api frontend.API) *uints.BinaryField[uints.U32] {
		bf, err := uints.New[uints.U32](api)
		if err != nil {
			panic(err)
		}
		return bf
	}
	w64 := func(api frontend.API) *uints.BinaryField[uints.U64] {
		bf, err := uints.New[uints.U64](api)
		if err != nil {
			panic(err)
		}
		return bf
	}
	wrongWord := func(w uint) func(in []uint64, res uint64) []*big.Int {
		return func(in []uint64, res uint64) []*big.Int {
			full := new(big.Int)
			for _, x := range in {
				full.Add(full, u64big(x))
			}
			return []*big.Int{u64big(res ^ 1), u64big((res + 1) & (1<<w - 1)), full, u64big(in[0]), bi(0), u64big(res ^ (1 << (w - 1)))}
		}
	}
	self := func(in []uint64, claimed *big.Int) []*big.Int { return []*big.Int{claimed} }
	pairs32 := [][]uint64{{1, 2}, {0xffffffff, 1}, {0x80000000, 0x80000000}, {0x01020384, 0xfffefdfc}}
	pairs64 := [][]uint64{{1, 2}, {0xffffffffffffffff, 1}, {0x8000000000000000, 0x8000000000000000}}
	cases := []uadvCase{
		{name: "Add32", nIn: 2, inputs: pairs32, native: func(in []uint64) uint64 { return (in[0] + in[1]) & 0xffffffff }, wrong: wrongWord(32), targets: self,
			build: func(api frontend.API, in []frontend.Variable) (frontend.Variable, error) {
				bf := w32(api)
				return bf.ToValue(bf.Add(bf.ValueOf(in[0]), bf.ValueOf(in[1]))), nil
			}},
		{name: "Add64", nIn: 2, inputs: pairs64, native: func(in []uint64) uint64 { return in[0] + in[1] }, wrong: wrongWord(64), targets: self,
			build: func(api frontend.API, in []frontend.Variable) (frontend.Variable, error) {
				bf := w64(api)
				return bf.ToValue(bf.Add(bf.ValueOf(in[0]), bf.ValueOf(in[1]))), nil
			}},
		{name: "Add32x3", nIn: 3, inputs: [][]uint64{{0xffffffff, 0xffffffff, 0xffffffff}, {1, 2, 3}}, native: func(in []uint64) uint64 { return (in[0] + in[1] + in[2]) & 0xffffffff }, wrong: wrongWord(32), targets: self,
			build: func(api frontend.API, in []frontend.Variable) (frontend.Variable, error) {
				bf := w32(api)
				return bf.ToValue(bf.Add(bf.ValueOf(in[0]), bf.ValueOf(in[1]), bf.ValueOf(in[2]))), nil
			}},
		{name: "ValueOf32", nIn: 1, inputs: [][]uint64{{0}, {0x01020384}, {0xffffffff}}, native: func(in []uint64) uint64 { return in[0] & 0xff }, targets: self,
			wrong: func(in []uint64, res uint64) []*big.Int {
				return []*big.Int{u64big(res ^ 1), u64big((in[0] >> 8) & 0xff), bi(256)}
			},
			build: func(api frontend.API, in []frontend.Variable) (frontend.Variable, error) {
				bf := w32(api)
				return bf.ValueOf(in[0])[0].Val, nil
			}},
	}
	rots := []int{1, 7, 8, 13, 31}
	if c.Quick() {
		rots = []int{1, 8, 13}
	}
	for _, cc := range rots {
		cc := cc
		cases = append(cases,
			uadvCase{name: fmt.Sprintf("Lrot32(%d)", cc), nIn: 1, inputs: [][]uint64{{0x80000001}, {0x01020384}}, native: func(in []uint64) uint64 { return uint64(bits.RotateLeft32(uint32(in[0]), cc)) }, wrong: wrongWord(32), targets: self,
				build: func(api frontend.API, in []frontend.Variable) (frontend.Variable, error) {
					bf := w32(api)
					return bf.ToValue(bf.Lrot(bf.ValueOf(in[0]), cc)), nil
				}},
			uadvCase{name: fmt.Sprintf("Rshift32(%d)", cc), nIn: 1, inputs: [][]uint64{{0x80000001}, {0xfffefdfc}}, native: func(in []uint64) uint64 { return (in[0] & 0xffffffff) >> uint(cc) }, wrong: wrongWord(32), targets: self,
				build: func(api frontend.API, in []frontend.Variable) (frontend.Variable, error) {
					bf := w32(api)
					return bf.ToValue(bf.Rshift(bf.ValueOf(in[0]), cc)), nil
				}})
	}
	// table operations: one byte pair per circuit (three 65 536-row tables are built only when queried)
	type tb struct {
		name string
		f    func(a, b uint64) uint64
	}
	tbs := []tb{{"Xor", func(a, b uint64) uint64 { return a ^ b }}, {"And", func(a, b uint64) uint64 { return a & b }}, {"Or", func(a, b uint64) uint64 { return a | b }}}
	if c.Quick() {
		tbs = tbs[:1]
	}
	for _, t := range tbs {
		t := t
		cases = append(cases, uadvCase{name: "byte" + t.name, nIn: 2, tables: true, inputs: [][]uint64{{0x35, 0xca}}, native: func(in []uint64) uint64 { return t.f(in[0], in[1]) },
			// wrong results: another byte, and the field elements that make the packed query
			// x + 2^8 y + 2^16 r coincide with a DIFFERENT row of the table
			wrong: func(in []uint64, res uint64) []*big.Int {
				out := []*big.Int{u64big(res ^ 0xff), u64big(res + 1)}
				inv := new(big.Int).ModInverse(pow2(16), bn)
				for _, d := range [][2]int64{{1, 0}, {-1, -1}} {
					xx, yy := int64(in[0])+d[0], int64(in[1])+d[1]
					num := bi(d[0] + 256*d[1])
					out = append(out, mod(new(big.Int).Add(u64big(t.f(uint64(xx), uint64(yy))), new(big.Int).Mul(num, inv))))
				}
				return out
			},
			targets: self,
			build: func(api frontend.API, in []frontend.Variable) (frontend.Variable, error) {
				bf := w32(api)
				a, b := bf.ByteValueOf(in[0]), bf.ByteValueOf(in[1])
				z := uints.NewU8(0)
				x, y := bf.PackLSB(a, z, z, z), bf.PackLSB(b, z, z, z)
				var r uints.U32
				switch t.name {
				case "Xor":
					r = bf.Xor(x, y)
				case "And":
					r = bf.And(x, y)
				default:
					r = bf.Or(x, y)
				}
				return r[0].Val, nil
			}})
	}
	return cases
}

func uadvPart(c *vh.Check) {
	var jobs []job
	for _, uc := range uadvCases(c) {
		for _, b := range []string{circ.R1CS, circ.SCS} {
			if uc.tables && b == circ.SCS && c.Quick() {
				continue
			}
			uc, b := uc, b
			w := 5000
			if uc.tables {
				w = 600000
			}
			jobs = append(jobs, job{"uadv:" + uc.name + ":" + b, w, func() { runUadv(c, uc, b) }})
		}
	}
	runJobs(c, "uadv", jobs)
}

func runUadv(c *vh.Check, uc uadvCase, b string) {
	ci := circ.New(0, uc.nIn+1, func(api frontend.API, p, s []frontend.Variable) error {
		r, err := uc.build(api, s[:uc.nIn])
		if err != nil {
			return err
		}
		api.AssertIsEqual(r, s[uc.nIn])
		return nil
	})
	k := compileBN(c, b, "uints."+uc.name, ci)
	defer k.setHook(nil)
	var execs int64
	for _, in := range uc.inputs {
		res := uc.native(in)
		var sec []*big.Int
		for _, x := range in {
			sec = append(sec, u64big(x))
		}
		tag := fmt.Sprintf("%x", in)
		k.setHook(nil)
		if e := k.solve(c, append(cloneVec(sec), u64big(res))); e != "" {
			c.Violation(fmt.Sprintf("c14:uadv:%s:%s:in=%s:native-result-rejected", uc.name, b, tag), map[string]any{"case": k.name, "solver": e})
		}
		c.Traces.Add(1)
		for _, cl := range uc.wrong(in, res) {
			cl = mod(cl)
			if cl.Cmp(u64big(res)) == 0 {
				continue
			}
			if c.Expired() {
				c.Cap("uadv: deadline inside " + k.name)
				return
			}
			bound := 2
			if uc.tables {
				bound = 1
			}
			accepted := false
			ex := &vh.Explorer{Bound: bound, Workers: 1, Stop: c.Expired}
			ex.Run = func(x *vh.Ctx) {
				r := &uadvRun{x: x, target: uc.targets(in, cl), targetOnly: uc.tables}
				k.setHook(r.hook)
				e := k.solve(c, append(cloneVec(sec), cl))
				execs++
				if e == "" {
					accepted = true
					c.Violation(fmt.Sprintf("c14:uadv:%s:%s:in=%s:claimed=%s", uc.name, b, tag, short(cl)), map[string]any{"case": k.name, "operands": tag, "native_result": fmt.Sprintf("%#x", res), "claimed_result": cl.Text(16),
						"substituted_hints": r.chosen, "choices": x.Trace(), "note": "a result different from Go's native arithmetic is accepted with these hint outputs"})
				}
			}
			ex.OnNondet = func(x *vh.Ctx) { c.Fatal("uadv %s: nondeterministic choice sequence: %s", k.name, x.Diverged) }
			if !ex.Explore() {
				c.Cap("uadv: deadline inside " + k.name)
			}
			if accepted {
				c.Outcome("uadv:" + uc.name + ":WRONG-RESULT-ACCEPTED")
			} else {
				c.Outcome("uadv:" + strings.SplitN(uc.name, "(", 2)[0] + ":wrong-results-rejected")
			}
		}
	}
	c.Traces.Add(execs)
	c.Count("uadv", "executions:"+strings.SplitN(uc.name, "(", 2)[0], execs)
}
