#!/bin/bash
# Derive the C17 kits of the other pairings from the BLS12-377-in-BW6-761 template
# (src/c17bls12377, every file except params.go) by path substitution.  params.go of each
# pairing is hand-written.  Run after editing the template: /verif/src/c17gen/gen.sh
set -e
src=/verif/src/c17bls12377
gen() { # pkgsuffix eccdir
  d=/verif/src/c17$1; mkdir -p $d
  for f in $src/*.go; do
    b=$(basename $f)
    [ $b = params.go ] && continue
    sed -e "s#gnark-crypto/ecc/bls12-377#gnark-crypto/ecc/$2#g" \
        -e "s#gnark/backend/groth16/bls12-377#gnark/backend/groth16/$2#g" \
        -e "s#gnark/backend/plonk/bls12-377#gnark/backend/plonk/$2#g" \
        -e "s#gnark/constraint/bls12-377#gnark/constraint/$2#g" \
        -e "s#package c17bls12377#package c17$1#g" \
        -e "s#THIS FILE IS THE TEMPLATE#GENERATED from src/c17bls12377 by src/c17gen/gen.sh; DO NOT EDIT#" \
        $f > $d/$b.tmp
    if ! cmp -s $d/$b.tmp $d/$b; then mv $d/$b.tmp $d/$b; else rm $d/$b.tmp; fi
  done
}
gen bn254 bn254
gen bls12381 bls12-381
gen bls24315 bls24-315
