// Package c15ref holds the per-curve native Poseidon2 references of check C15.
package c15ref

import (
	"fmt"
	"math/big"

	"github.com/consensys/gnark-crypto/ecc"
)

var perms = map[ecc.ID]func(t, rf, rp int, in []*big.Int) ([]*big.Int, error){}
var defaults = map[ecc.ID]func() (int, int){}

// Permute applies gnark-crypto's Poseidon2 permutation of width t over the scalar field of id.
func Permute(id ecc.ID, t, rf, rp int, in []*big.Int) ([]*big.Int, error) {
	f, ok := perms[id]
	if !ok {
		return nil, fmt.Errorf("no poseidon2 for %s", id)
	}
	return f(t, rf, rp, in)
}

// DefaultRounds returns gnark-crypto's default (full, partial) round numbers for id.
func DefaultRounds(id ecc.ID) (int, int) { return defaults[id]() }
