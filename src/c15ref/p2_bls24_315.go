package c15ref

import (
	"math/big"

	"github.com/consensys/gnark-crypto/ecc"
	"github.com/consensys/gnark-crypto/ecc/bls24-315/fr"
	"github.com/consensys/gnark-crypto/ecc/bls24-315/fr/poseidon2"
)

func init() {
	perms[ecc.BLS24_315] = func(t, rf, rp int, in []*big.Int) ([]*big.Int, error) {
		p := poseidon2.NewPermutation(t, rf, rp)
		x := make([]fr.Element, len(in))
		for i := range in {
			x[i].SetBigInt(in[i])
		}
		if err := p.Permutation(x); err != nil {
			return nil, err
		}
		out := make([]*big.Int, len(x))
		for i := range x {
			out[i] = x[i].BigInt(new(big.Int))
		}
		return out, nil
	}
	defaults[ecc.BLS24_315] = func() (int, int) {
		p := poseidon2.GetDefaultParameters()
		return p.NbFullRounds, p.NbPartialRounds
	}
}
