// Package vchoice owns single-threaded environment choices that are not schedules: the order in
// which a `range` over a map yields its keys.  goinstr rewrites every typed map range of the
// listed files into a loop over vchoice.MapKeys.
package vchoice

import (
	"fmt"
	"sort"
	"sync"

	"github.com/consensys/gnark/internal/verifh/vh"
)

var (
	mu  sync.Mutex
	cur *vh.Ctx
	// Sites records every map-range site reached with >= 2 keys (coverage evidence).
	Sites = map[string]int{}
)

// Set installs the exploration context (nil = native random order).
func Set(x *vh.Ctx) { mu.Lock(); cur = x; mu.Unlock() }

func fact(n int) int {
	f := 1
	for i := 2; i <= n; i++ {
		f *= i
	}
	return f
}

// MapKeys returns the keys of m in the order chosen by the explorer: canonical (sorted by
// printed form) by default; all k! permutations for k <= 4; identity, reverse, every rotation
// and every adjacent transposition above.  Without a context: Go's native (random) order.
func MapKeys[M ~map[K]V, K comparable, V any](m M, site string) []K {
	keys := make([]K, 0, len(m))
	for k := range m {
		keys = append(keys, k)
	}
	mu.Lock()
	x := cur
	if len(keys) >= 2 {
		Sites[site]++
	}
	mu.Unlock()
	if x == nil || len(keys) < 2 {
		return keys
	}
	sort.Slice(keys, func(i, j int) bool { return fmt.Sprint(keys[i]) < fmt.Sprint(keys[j]) })
	n := len(keys)
	if n <= 4 {
		c := x.Choose("maporder:"+site, fact(n))
		// c-th permutation in lexicographic order (Lehmer code)
		pool := append([]K(nil), keys...)
		out := make([]K, 0, n)
		f := fact(n)
		for i := n; i >= 1; i-- {
			f /= i
			idx := c / f
			c %= f
			out = append(out, pool[idx])
			pool = append(pool[:idx], pool[idx+1:]...)
		}
		return out
	}
	// 0 identity, 1 reverse, 2..n rotations by 1..n-1, n+1.. adjacent transpositions
	c := x.Choose("maporder:"+site, 2*n)
	out := append([]K(nil), keys...)
	switch {
	case c == 0:
	case c == 1:
		for i, j := 0, n-1; i < j; i, j = i+1, j-1 {
			out[i], out[j] = out[j], out[i]
		}
	case c <= n:
		r := c - 1
		out = append(append([]K(nil), keys[r:]...), keys[:r]...)
	default:
		i := c - n - 1
		out[i], out[i+1] = out[i+1], out[i]
	}
	return out
}
