package bkbn254

import (
	"bytes"
	"crypto/sha256"
	"fmt"
	"hash"
	"math/big"
	"sync"

	"github.com/consensys/gnark-crypto/ecc"
	curve "github.com/consensys/gnark-crypto/ecc/bn254"
	"github.com/consensys/gnark-crypto/ecc/bn254/fr"
	"github.com/consensys/gnark-crypto/ecc/bn254/fr/fft"
	"github.com/consensys/gnark-crypto/ecc/bn254/kzg"
	"github.com/consensys/gnark/backend"
	plonk "github.com/consensys/gnark/backend/plonk/bn254"
	"github.com/consensys/gnark/backend/witness"
	"github.com/consensys/gnark/constraint"
	cs "github.com/consensys/gnark/constraint/bn254"
	"github.com/consensys/gnark/constraint/solver"
	"github.com/consensys/gnark/frontend"
	"github.com/consensys/gnark/frontend/cs/scs"
	"github.com/consensys/gnark/internal/verifh/bk"
	"github.com/consensys/gnark/internal/verifh/circ"
	"github.com/consensys/gnark/internal/verifh/ops"
	"github.com/consensys/gnark/internal/verifh/progen"
	"github.com/consensys/gnark/internal/verifh/vh"
	"github.com/consensys/gnark/test/unsafekzg"
)

type plonkCase struct {
	bk.Case
	cs    *cs.SparseR1CS
	pk    *plonk.ProvingKey
	vk    *plonk.VerifyingKey
	srsL  *kzg.SRS
	full  [2]witness.Witness
	pub   [2]fr.Vector
	proof [2]*plonk.Proof
}

func buildPlonk(cse bk.Case) (*plonkCase, error) {
	ccs, err := frontend.Compile(CurveID.ScalarField(), scs.NewBuilder, circ.New(cse.NP, cse.NS, cse.Def))
	if err != nil {
		return nil, err
	}
	g := &plonkCase{Case: cse, cs: ccs.(*cs.SparseR1CS)}
	srs, srsL, err := unsafekzg.NewSRS(ccs)
	if err != nil {
		return nil, err
	}
	g.srsL = srsL.(*kzg.SRS)
	g.pk, g.vk, err = plonk.Setup(g.cs, *srs.(*kzg.SRS), *g.srsL)
	if err != nil {
		return nil, fmt.Errorf("setup: %w", err)
	}
	for i := 0; i < 2; i++ {
		g.full[i], g.pub[i] = mkWitness(cse, i)
		g.proof[i], err = plonk.Prove(g.cs, g.pk, g.full[i])
		if err != nil {
			return nil, fmt.Errorf("prove: %w", err)
		}
	}
	return g, nil
}

func clonePlonk(p *plonk.Proof) *plonk.Proof {
	q := *p
	q.Bsb22Commitments = append([]kzg.Digest(nil), p.Bsb22Commitments...)
	q.BatchedProof.ClaimedValues = append([]fr.Element(nil), p.BatchedProof.ClaimedValues...)
	return &q
}

type plonkEdit struct {
	name   string
	proof  *plonk.Proof
	pub    fr.Vector
	valid  bool
	nedits int
}

func plonkEdits(g *plonkCase, thorough bool) []plonkEdit {
	a, b := g.proof[0], g.proof[1]
	x, xb := g.pub[0], g.pub[1]
	var out []plonkEdit
	add := func(name string, p *plonk.Proof, pub fr.Vector, valid bool, n int) {
		out = append(out, plonkEdit{name, p, pub, valid, n})
	}
	add("identity", clonePlonk(a), x, true, 0)
	add("proof-b-with-pub-b", clonePlonk(b), xb, true, 0)
	type slot struct {
		name string
		get  func(p *plonk.Proof) *curve.G1Affine
	}
	slots := []slot{
		{"LRO[0]", func(p *plonk.Proof) *curve.G1Affine { return &p.LRO[0] }},
		{"LRO[1]", func(p *plonk.Proof) *curve.G1Affine { return &p.LRO[1] }},
		{"LRO[2]", func(p *plonk.Proof) *curve.G1Affine { return &p.LRO[2] }},
		{"Z", func(p *plonk.Proof) *curve.G1Affine { return &p.Z }},
		{"H[0]", func(p *plonk.Proof) *curve.G1Affine { return &p.H[0] }},
		{"H[1]", func(p *plonk.Proof) *curve.G1Affine { return &p.H[1] }},
		{"H[2]", func(p *plonk.Proof) *curve.G1Affine { return &p.H[2] }},
		{"BatchedProof.H", func(p *plonk.Proof) *curve.G1Affine { return &p.BatchedProof.H }},
		{"ZShiftedOpening.H", func(p *plonk.Proof) *curve.G1Affine { return &p.ZShiftedOpening.H }},
	}
	for i := range a.Bsb22Commitments {
		i := i
		slots = append(slots, slot{fmt.Sprintf("Bsb22Commitments[%d]", i), func(p *plonk.Proof) *curve.G1Affine { return &p.Bsb22Commitments[i] }})
	}
	var singles []plonkEdit
	for si, s := range slots {
		cur := *s.get(a)
		others := []namedG1{{"of-b", *s.get(b)}, {"slot:" + slots[(si+1)%len(slots)].name, *slots[(si+1)%len(slots)].get(a)}, {"vk.Ql", g.vk.Ql}}
		for _, e := range g1Alphabet(cur, others) {
			p := clonePlonk(a)
			*s.get(p) = e.p
			ed := plonkEdit{s.name + ":=" + e.n, p, x, false, 1}
			out = append(out, ed)
			singles = append(singles, ed)
		}
	}
	// scalar slots
	type sslot struct {
		name string
		get  func(p *plonk.Proof) *fr.Element
	}
	var sslots []sslot
	for j := range a.BatchedProof.ClaimedValues {
		j := j
		sslots = append(sslots, sslot{fmt.Sprintf("ClaimedValues[%d]", j), func(p *plonk.Proof) *fr.Element { return &p.BatchedProof.ClaimedValues[j] }})
	}
	sslots = append(sslots, sslot{"ZShifted.ClaimedValue", func(p *plonk.Proof) *fr.Element { return &p.ZShiftedOpening.ClaimedValue }})
	one := fr.One()
	for _, s := range sslots {
		cur := *s.get(a)
		var zero, plus, neg fr.Element
		plus.Add(&cur, &one)
		neg.Neg(&cur)
		alts := []struct {
			n string
			v fr.Element
		}{{"0", zero}, {"1", one}, {"v+1", plus}, {"-v", neg}, {"of-b", *s.get(b)}}
		for _, e := range alts {
			if e.v == cur {
				continue
			}
			p := clonePlonk(a)
			*s.get(p) = e.v
			ed := plonkEdit{s.name + ":=" + e.n, p, x, false, 1}
			out = append(out, ed)
			singles = append(singles, ed)
		}
	}
	// list edits
	var lists []plonkEdit
	le := func(name string, f func(p *plonk.Proof)) {
		p := clonePlonk(a)
		f(p)
		ed := plonkEdit{name, p, x, false, 1}
		out = append(out, ed)
		lists = append(lists, ed)
	}
	_, _, g1, _ := curve.Generators()
	if len(a.Bsb22Commitments) > 0 {
		le("Bsb22:drop-last", func(p *plonk.Proof) { p.Bsb22Commitments = p.Bsb22Commitments[:len(p.Bsb22Commitments)-1] })
	}
	if len(a.Bsb22Commitments) > 1 {
		le("Bsb22:swap", func(p *plonk.Proof) {
			p.Bsb22Commitments[0], p.Bsb22Commitments[1] = p.Bsb22Commitments[1], p.Bsb22Commitments[0]
		})
	}
	le("Bsb22:append-gen", func(p *plonk.Proof) { p.Bsb22Commitments = append(p.Bsb22Commitments, g1) })
	le("Bsb22:append-inf", func(p *plonk.Proof) { p.Bsb22Commitments = append(p.Bsb22Commitments, curve.G1Affine{}) })
	le("ClaimedValues:drop-last", func(p *plonk.Proof) {
		p.BatchedProof.ClaimedValues = p.BatchedProof.ClaimedValues[:len(p.BatchedProof.ClaimedValues)-1]
	})
	le("ClaimedValues:append-0", func(p *plonk.Proof) {
		p.BatchedProof.ClaimedValues = append(p.BatchedProof.ClaimedValues, fr.Element{})
	})
	le("ClaimedValues:swap-1-2", func(p *plonk.Proof) {
		v := p.BatchedProof.ClaimedValues
		if v[1] != v[2] {
			v[1], v[2] = v[2], v[1]
		} else {
			v[1].Add(&v[1], &one)
		}
	})
	le("ClaimedValues:truncate-2", func(p *plonk.Proof) { p.BatchedProof.ClaimedValues = p.BatchedProof.ClaimedValues[:2] })
	le("ClaimedValues:empty", func(p *plonk.Proof) { p.BatchedProof.ClaimedValues = nil })
	// replay against other public inputs, alone and combined with list edits
	for _, pe := range pubAlphabet(x, xb) {
		add("replay:"+pe.n, clonePlonk(a), pe.v, false, 1)
		for _, l := range lists {
			add("replay:"+pe.n+"+"+l.name, clonePlonk(l.proof), pe.v, false, 2)
		}
		if thorough {
			for _, s := range singles {
				add("replay:"+pe.n+"+"+s.name, clonePlonk(s.proof), pe.v, false, 2)
			}
		}
	}
	samePub := len(x) == len(xb)
	for i := range x {
		samePub = samePub && x[i] == xb[i]
	}
	add("proof-of-b", clonePlonk(b), x, samePub, 1)
	return out
}

func offerPlonk(c *vh.Check, g *plonkCase, e plonkEdit) {
	type way struct {
		name string
		enc  func(p *plonk.Proof, w *bytes.Buffer) error
	}
	ways := []way{{"memory", nil},
		{"WriteTo", func(p *plonk.Proof, w *bytes.Buffer) error { _, err := p.WriteTo(w); return err }},
		{"WriteRawTo", func(p *plonk.Proof, w *bytes.Buffer) error { _, err := p.WriteRawTo(w); return err }}}
	// oracle: Fiat-Shamir binds every proof element and every public input, so anything but a
	// genuine (proof, public witness) pair must be rejected
	want := e.valid
	for _, w := range ways {
		p := e.proof
		decodeErr := ""
		if w.enc != nil {
			var buf bytes.Buffer
			pan := vh.Recover(func() {
				if err := w.enc(e.proof, &buf); err != nil {
					decodeErr = "encode: " + err.Error()
					return
				}
				q := new(plonk.Proof)
				if _, err := q.ReadFrom(bytes.NewReader(buf.Bytes())); err != nil {
					decodeErr = "decode: " + err.Error()
					return
				}
				p = q
			})
			if pan != "" {
				c.Violation(fmt.Sprintf("plonk:%s:%s:codec-panic:%s:%s", CurveID, g.Name, w.name, e.name), map[string]any{"panic": pan, "edit": e.name})
				continue
			}
		}
		accepted := false
		var verr error
		if decodeErr == "" {
			pan := vh.Recover(func() { verr = plonk.Verify(p, g.vk, append(fr.Vector(nil), e.pub...)) })
			if pan != "" {
				c.Violation(fmt.Sprintf("plonk:%s:%s:verify-panic:%s:%s", CurveID, g.Name, w.name, e.name), map[string]any{"panic": pan, "edit": e.name, "way": w.name, "circuit": g.Name, "curve": CurveID.String()})
				continue
			}
			accepted = verr == nil
		}
		c.Evals.Add(1)
		c.Traces.Add(1)
		cls := "reject"
		if accepted {
			cls = "accept"
		}
		if decodeErr != "" {
			cls = "decode-error"
		}
		c.Outcome(fmt.Sprintf("plonk:%s:%s:%d-edits", w.name, cls, e.nedits))
		if accepted != want {
			c.Violation(fmt.Sprintf("plonk:%s:%s:%s:%s:real=%v,expected=%v", CurveID, g.Name, w.name, e.name, accepted, want),
				map[string]any{"curve": CurveID.String(), "circuit": g.Name, "edit": e.name, "way": w.name, "real_accepts": accepted, "expected": want, "verify_error": fmt.Sprint(verr), "decode_error": decodeErr})
		}
	}
}

// ---------------------------------------------------------------- setup structure

// checkSetupStructure verifies that the verifying key commits to exactly the gates, the
// wiring permutation and the commitment selectors of the constraint list.
func checkSetupStructure(c *vh.Check, name string, spr *cs.SparseR1CS, vk *plonk.VerifyingKey, srsL *kzg.SRS) {
	gates := spr.GetSparseR1Cs()
	npub := len(spr.Public)
	n := int(vk.Size)
	key := func(what string) string { return fmt.Sprintf("plonk:%s:%s:setup:%s", CurveID, name, what) }
	if n < npub+len(gates) || n&(n-1) != 0 || (n > 2 && n/2 >= npub+len(gates)) {
		c.Violation(key("domain-size"), map[string]any{"size": n, "rows": npub + len(gates)})
		return
	}
	if int(vk.NbPublicVariables) != npub {
		c.Violation(key("nb-public"), map[string]any{"vk": vk.NbPublicVariables, "system": npub})
	}
	// expected selector columns
	col := func(f func(g *constraint.SparseR1C) uint32, pubVal int64) []fr.Element {
		v := make([]fr.Element, n)
		for i := 0; i < npub; i++ {
			v[i].SetInt64(pubVal)
		}
		for j := range gates {
			v[npub+j] = spr.Coefficients[f(&gates[j])]
		}
		return v
	}
	commit := func(v []fr.Element) kzg.Digest {
		d, err := kzg.Commit(v, srsL.Pk)
		if err != nil {
			c.Fatal("kzg commit: %v", err)
		}
		return d
	}
	cmp := func(what string, got kzg.Digest, want []fr.Element) {
		if got != commit(want) {
			c.Violation(key(what), map[string]any{"what": what + " digest in vk differs from the commitment to the column prescribed by the constraint list"})
		}
		c.States.Add(int64(n))
	}
	cmp("Ql", vk.Ql, col(func(g *constraint.SparseR1C) uint32 { return g.QL }, -1))
	cmp("Qr", vk.Qr, col(func(g *constraint.SparseR1C) uint32 { return g.QR }, 0))
	cmp("Qm", vk.Qm, col(func(g *constraint.SparseR1C) uint32 { return g.QM }, 0))
	cmp("Qo", vk.Qo, col(func(g *constraint.SparseR1C) uint32 { return g.QO }, 0))
	cmp("Qk", vk.Qk, col(func(g *constraint.SparseR1C) uint32 { return g.QC }, 0))
	ci := spr.CommitmentInfo.(constraint.PlonkCommitments)
	if len(vk.Qcp) != len(ci) || len(vk.CommitmentConstraintIndexes) != len(ci) {
		c.Violation(key("Qcp-count"), map[string]any{"vk": len(vk.Qcp), "system": len(ci)})
	} else {
		for i := range ci {
			v := make([]fr.Element, n)
			for _, k := range ci[i].Committed {
				v[npub+k].SetOne()
			}
			cmp(fmt.Sprintf("Qcp[%d]", i), vk.Qcp[i], v)
			if int(vk.CommitmentConstraintIndexes[i]) != ci[i].CommitmentIndex {
				c.Violation(key("commitment-index"), map[string]any{"i": i})
			}
			// the gates flagged COMMITTED / COMMITMENT in the constraint list
			for _, k := range ci[i].Committed {
				if gates[k].Commitment != constraint.COMMITTED {
					c.Violation(key("committed-flag"), map[string]any{"gate": k})
				}
			}
			if gates[ci[i].CommitmentIndex].Commitment != constraint.COMMITMENT {
				c.Violation(key("commitment-flag"), map[string]any{"gate": ci[i].CommitmentIndex})
			}
		}
	}
	// wiring: position -> wire
	wire := make([]int, 3*n)
	for j := range gates {
		wire[npub+j] = int(gates[j].XA)
		wire[n+npub+j] = int(gates[j].XB)
		wire[2*n+npub+j] = int(gates[j].XC)
	}
	for i := 0; i < npub; i++ {
		wire[i] = i
	}
	// the permutation the real Setup derives (NewTrace is what Setup calls)
	dom := newDomain(uint64(npub + len(gates)))
	trace := plonk.NewTrace(spr, dom)
	S := trace.S
	if len(S) != 3*n {
		c.Violation(key("perm-size"), map[string]any{"len": len(S)})
		return
	}
	// S must be a permutation whose cycles are exactly the same-wire classes: check every pair
	seen := make([]bool, 3*n)
	cyc := make([]int, 3*n)
	ncyc := 0
	for i := range S {
		if S[i] < 0 || int(S[i]) >= 3*n {
			c.Violation(key("perm-range"), map[string]any{"i": i})
			return
		}
	}
	for i := range S {
		if seen[i] {
			continue
		}
		ncyc++
		for j := i; !seen[j]; j = int(S[j]) {
			seen[j] = true
			cyc[j] = ncyc
		}
	}
	inj := make([]bool, 3*n)
	for i := range S {
		if inj[S[i]] {
			c.Violation(key("perm-not-bijective"), map[string]any{"image": S[i]})
			return
		}
		inj[S[i]] = true
	}
	pairs := int64(0)
	if 3*n <= 192 {
		for i := 0; i < 3*n; i++ {
			for j := i + 1; j < 3*n; j++ {
				pairs++
				if (cyc[i] == cyc[j]) != (wire[i] == wire[j]) {
					c.Violation(key(fmt.Sprintf("perm-cycle:pos%d,pos%d", i, j)), map[string]any{"pos_i": i, "pos_j": j, "wire_i": wire[i], "wire_j": wire[j], "same_cycle": cyc[i] == cyc[j]})
					return
				}
			}
		}
	} else {
		// equivalent linear formulation: cycle id <-> wire id is a bijection on positions
		cw := map[int]int{}
		wc := map[int]int{}
		for i := 0; i < 3*n; i++ {
			pairs++
			if w, ok := cw[cyc[i]]; ok && w != wire[i] {
				c.Violation(key(fmt.Sprintf("perm-cycle:pos%d", i)), map[string]any{"pos": i, "wire": wire[i], "cycle_holds_wire": w})
				return
			}
			if cy, ok := wc[wire[i]]; ok && cy != cyc[i] {
				c.Violation(key(fmt.Sprintf("perm-cycle:pos%d", i)), map[string]any{"pos": i, "wire": wire[i], "wire_split_over_cycles": true})
				return
			}
			cw[cyc[i]] = wire[i]
			wc[wire[i]] = cyc[i]
		}
	}
	c.Transitions.Add(pairs)
	// vk.S[k] commits to the Lagrange interpolation of support[S[k*n+i]]
	support := make([]fr.Element, 3*n)
	support[0].SetOne()
	for i := 1; i < n; i++ {
		support[i].Mul(&support[i-1], &vk.Generator)
	}
	for i := 0; i < n; i++ {
		support[n+i].Mul(&support[i], &vk.CosetShift)
		support[2*n+i].Mul(&support[n+i], &vk.CosetShift)
	}
	for k := 0; k < 3; k++ {
		v := make([]fr.Element, n)
		for i := 0; i < n; i++ {
			v[i] = support[S[k*n+i]]
		}
		cmp(fmt.Sprintf("S[%d]", k), vk.S[k], v)
	}
	// the generator really generates a group of order n and the shift is outside it
	var gpow fr.Element
	gpow.Exp(vk.Generator, big.NewInt(int64(n)))
	if !gpow.IsOne() {
		c.Violation(key("generator-order"), map[string]any{})
	}
	if n > 1 {
		gpow.Exp(vk.Generator, big.NewInt(int64(n/2)))
		if gpow.IsOne() {
			c.Violation(key("generator-order"), map[string]any{})
		}
	}
	var spow fr.Element
	spow.Exp(vk.CosetShift, big.NewInt(int64(n)))
	if spow.IsOne() {
		c.Violation(key("coset-shift-in-domain"), map[string]any{})
	}
	var s2 fr.Element
	s2.Square(&vk.CosetShift).Exp(s2, big.NewInt(int64(n)))
	if s2.IsOne() {
		c.Violation(key("coset-shift^2-in-domain"), map[string]any{})
	}
}

// ---------------------------------------------------------------- non-satisfying wire values through the real prover

var plonkSolveEdit sync.Map // *cs.SparseR1CS -> func(sol *cs.SparseR1CSSolution)

func init() {
	prev := constraint.VerifPostSolveHook
	constraint.VerifPostSolveHook = func(sys any, values any, solution any) {
		if prev != nil {
			prev(sys, values, solution)
		}
		if f, ok := plonkSolveEdit.Load(sys); ok {
			if s, ok := solution.(*cs.SparseR1CSSolution); ok {
				f.(func(*cs.SparseR1CSSolution))(s)
			}
		}
	}
}

// lroSatisfies decides whether (L,R,O) satisfies every gate and every copy constraint.
func lroSatisfies(g *plonkCase, s *cs.SparseR1CSSolution, pub fr.Vector) (gatesOK, copyOK bool) {
	gates := g.cs.GetSparseR1Cs()
	npub := len(g.cs.Public)
	gatesOK, copyOK = true, true
	val := map[int]fr.Element{}
	set := func(w int, v fr.Element) {
		if old, ok := val[w]; ok && old != v {
			copyOK = false
		}
		val[w] = v
	}
	for i := 0; i < npub; i++ {
		if s.L[i] != pub[i] {
			gatesOK = false // the placeholder gate -L + PI = 0
		}
		set(i, s.L[i])
		set(0, s.R[i])
		set(0, s.O[i])
	}
	for j := range gates {
		gt := &gates[j]
		row := npub + j
		set(int(gt.XA), s.L[row])
		set(int(gt.XB), s.R[row])
		set(int(gt.XC), s.O[row])
		if gt.Commitment != constraint.NOT {
			continue
		}
		var acc, t fr.Element
		acc.Mul(&g.cs.Coefficients[gt.QL], &s.L[row])
		t.Mul(&g.cs.Coefficients[gt.QR], &s.R[row])
		acc.Add(&acc, &t)
		t.Mul(&g.cs.Coefficients[gt.QO], &s.O[row])
		acc.Add(&acc, &t)
		t.Mul(&s.L[row], &s.R[row]).Mul(&t, &g.cs.Coefficients[gt.QM])
		acc.Add(&acc, &t)
		acc.Add(&acc, &g.cs.Coefficients[gt.QC])
		if !acc.IsZero() {
			gatesOK = false
		}
	}
	for i := npub + len(gates); i < len(s.L); i++ {
		set(0, s.L[i])
		set(0, s.R[i])
		set(0, s.O[i])
	}
	return
}

func plonkBadAssignments(c *vh.Check, g *plonkCase) {
	gates := g.cs.GetSparseR1Cs()
	npub := len(g.cs.Public)
	one := fr.One()
	type mod struct {
		name string
		f    func(s *cs.SparseR1CSSolution)
	}
	var mods []mod
	for j := range gates {
		row := npub + j
		gt := gates[j]
		mods = append(mods, mod{fmt.Sprintf("row%d:L+1", row), func(s *cs.SparseR1CSSolution) { s.L[row].Add(&s.L[row], &one) }})
		mods = append(mods, mod{fmt.Sprintf("row%d:O+1", row), func(s *cs.SparseR1CSSolution) { s.O[row].Add(&s.O[row], &one) }})
		if !g.cs.Coefficients[gt.QO].IsZero() && gt.Commitment == constraint.NOT {
			// copy-constraint violation with every gate satisfied: move L, re-solve O of the same row
			mods = append(mods, mod{fmt.Sprintf("row%d:L+1,O-resolved", row), func(s *cs.SparseR1CSSolution) {
				s.L[row].Add(&s.L[row], &one)
				var acc, t fr.Element
				acc.Mul(&g.cs.Coefficients[gt.QL], &s.L[row])
				t.Mul(&g.cs.Coefficients[gt.QR], &s.R[row])
				acc.Add(&acc, &t)
				t.Mul(&s.L[row], &s.R[row]).Mul(&t, &g.cs.Coefficients[gt.QM])
				acc.Add(&acc, &t)
				acc.Add(&acc, &g.cs.Coefficients[gt.QC])
				var inv fr.Element
				inv.Inverse(&g.cs.Coefficients[gt.QO])
				acc.Mul(&acc, &inv).Neg(&acc)
				s.O[row] = acc
			}})
		}
	}
	for i := 0; i < npub; i++ {
		i := i
		mods = append(mods, mod{fmt.Sprintf("pubrow%d:L+1", i), func(s *cs.SparseR1CSSolution) { s.L[i].Add(&s.L[i], &one) }})
	}
	if n := len(g.cs.Public) + len(gates); n < int(g.vk.Size) {
		mods = append(mods, mod{"padding:R+1", func(s *cs.SparseR1CSSolution) { s.R[n].Add(&s.R[n], &one) }})
	}
	if c.Quick() && len(mods) > 36 {
		// quick: an evenly spaced subset (thorough runs all)
		var sub []mod
		for i := 0; i < 36; i++ {
			sub = append(sub, mods[i*len(mods)/36])
		}
		mods = sub
	}
	for _, m := range mods {
		if c.Expired() {
			c.Cap("internal deadline in plonk bad assignments")
			return
		}
		var gatesOK, copyOK bool
		plonkSolveEdit.Store(g.cs, func(s *cs.SparseR1CSSolution) {
			m.f(s)
			gatesOK, copyOK = lroSatisfies(g, s, g.pub[0])
		})
		var proof *plonk.Proof
		var err error
		pan := vh.Recover(func() { proof, err = plonk.Prove(g.cs, g.pk, g.full[0], backend.WithSolverOptions(solver.WithNbTasks(1))) })
		plonkSolveEdit.Delete(g.cs)
		c.Evals.Add(1)
		if pan != "" || err != nil {
			c.Outcome("plonk:badassign:prover-refused")
			continue
		}
		verr := plonk.Verify(proof, g.vk, append(fr.Vector(nil), g.pub[0]...))
		sat := gatesOK && copyOK
		c.Outcome(fmt.Sprintf("plonk:badassign:gates=%v,copy=%v:accepted=%v", gatesOK, copyOK, verr == nil))
		mustAccept := sat && g.NbCommit == 0
		if (!sat && verr == nil) || (mustAccept && verr != nil) {
			c.Violation(fmt.Sprintf("plonk:%s:%s:badassign:%s:gates=%v,copy=%v,real=%v", CurveID, g.Name, m.name, gatesOK, copyOK, verr == nil),
				map[string]any{"curve": CurveID.String(), "circuit": g.Name, "modification": m.name, "gates_satisfied": gatesOK, "copy_constraints_satisfied": copyOK, "real_accepts": verr == nil, "verify_error": fmt.Sprint(verr)})
		}
	}
}

func newDomain(n uint64) *fft.Domain { return fft.NewDomain(n, fft.WithoutPrecompute()) }

// setupStructureOnPrograms runs the structure check on the sparse systems of the program generator.
func setupStructureOnPrograms(c *vh.Check) {
	field := CurveID.ScalarField()
	all := ops.All(field.BitLen())
	var progs []*progen.Prog
	progen.Enumerate(progen.Config{Ops: all, Depth: 1, Consts: []int{0, 2, 3}, Inputs: []int{0, 1}, SCS: true}, func(p *progen.Prog) bool {
		progs = append(progs, p)
		return true
	})
	stride := 1
	if c.Quick() {
		stride = 7
		if CurveID != ecc.BN254 {
			stride = 28
		}
	}
	var sel []*progen.Prog
	for i := 0; i < len(progs); i += stride {
		sel = append(sel, progs[i])
	}
	c.Par(len(sel), func(i int) {
		p := sel[i]
		ccs, err, pan := circ.Compile(field, circ.SCS, p.Circuit(field), frontend.IgnoreUnconstrainedInputs())
		if err != nil || pan != "" {
			return
		}
		spr := ccs.(*cs.SparseR1CS)
		if spr.GetNbConstraints()+len(spr.Public) < 2 {
			// the unsafekzg test helper itself cannot build an SRS of size 1 (and Setup refuses such systems)
			c.Count("setup-refused:"+CurveID.String(), "fewer than 2 rows", 1)
			return
		}
		srs, srsL, err := unsafekzg.NewSRS(ccs)
		if err != nil {
			c.Fatal("srs: %v", err)
		}
		_, vk, err := plonk.Setup(spr, *srs.(*kzg.SRS), *srsL.(*kzg.SRS))
		if err != nil {
			c.Outcome("plonk:setup-refused")
			c.Count("setup-refused:"+CurveID.String(), err.Error(), 1)
			return
		}
		c.Outcome("plonk:setup-structure-checked")
		c.Evals.Add(1)
		checkSetupStructure(c, "prog:"+p.String(), spr, vk, srsL.(*kzg.SRS))
	})
	c.Count("setup-structure:"+CurveID.String(), "programs", int64(len(sel)))
}

// recHash records everything the verifier absorbs into its Fiat-Shamir hash (an observation
// seam offered by the documented option backend.WithVerifierChallengeHashFunction).
type recHash struct {
	hash.Hash
	log *bytes.Buffer
}

func (r *recHash) Write(p []byte) (int, error) {
	r.log.WriteByte('W')
	r.log.Write(p)
	return r.Hash.Write(p)
}
func (r *recHash) Sum(b []byte) []byte { r.log.WriteByte('S'); return r.Hash.Sum(b) }
func (r *recHash) Reset()              { r.log.WriteByte('R'); r.Hash.Reset() }

func transcriptOf(g *plonkCase, p *plonk.Proof, pub fr.Vector) (challenge, folding string) {
	rc := &recHash{Hash: sha256.New(), log: new(bytes.Buffer)}
	rf := &recHash{Hash: sha256.New(), log: new(bytes.Buffer)}
	vh.Recover(func() {
		_ = plonk.Verify(p, g.vk, append(fr.Vector(nil), pub...), backend.WithVerifierChallengeHashFunction(rc), backend.WithVerifierKZGFoldingHashFunction(rf))
	})
	return rc.log.String(), rf.log.String()
}

// fsCoverage: every public input and every proof element must be absorbed by the verifier's
// Fiat-Shamir transcript — changing any ONE of them must change the byte stream the verifier
// hashes (otherwise that value is not bound by the challenges and can be chosen after them).
func fsCoverage(c *vh.Check, g *plonkCase) {
	a := g.proof[0]
	x := g.pub[0]
	base, baseF := transcriptOf(g, a, x)
	if len(base) == 0 {
		c.Fatal("the verifier did not use the challenge hash option (%s/%s)", CurveID, g.Name)
	}
	one := fr.One()
	for i := range x {
		x2 := append(fr.Vector(nil), x...)
		x2[i].Add(&x2[i], &one)
		t, _ := transcriptOf(g, a, x2)
		c.Evals.Add(1)
		c.Traces.Add(1)
		if t == base {
			c.Violation(fmt.Sprintf("plonk:%s:%s:transcript-does-not-bind:public[%d]", CurveID, g.Name, i), map[string]any{"curve": CurveID.String(), "circuit": g.Name, "what": fmt.Sprintf("changing public input %d leaves every byte the verifier absorbs into its challenge hash unchanged", i)})
		} else {
			c.Outcome("plonk:fs-binds:public-input")
		}
	}
	_, _, g1, _ := curve.Generators()
	type slot struct {
		name string
		get  func(p *plonk.Proof) *curve.G1Affine
	}
	slots := []slot{
		{"LRO[0]", func(p *plonk.Proof) *curve.G1Affine { return &p.LRO[0] }}, {"LRO[1]", func(p *plonk.Proof) *curve.G1Affine { return &p.LRO[1] }}, {"LRO[2]", func(p *plonk.Proof) *curve.G1Affine { return &p.LRO[2] }},
		{"Z", func(p *plonk.Proof) *curve.G1Affine { return &p.Z }},
		{"H[0]", func(p *plonk.Proof) *curve.G1Affine { return &p.H[0] }}, {"H[1]", func(p *plonk.Proof) *curve.G1Affine { return &p.H[1] }}, {"H[2]", func(p *plonk.Proof) *curve.G1Affine { return &p.H[2] }},
	}
	for i := range a.Bsb22Commitments {
		i := i
		slots = append(slots, slot{fmt.Sprintf("Bsb22Commitments[%d]", i), func(p *plonk.Proof) *curve.G1Affine { return &p.Bsb22Commitments[i] }})
	}
	for _, s := range slots {
		p := clonePlonk(a)
		s.get(p).Add(s.get(p), &g1)
		t, _ := transcriptOf(g, p, x)
		c.Evals.Add(1)
		if t == base {
			c.Violation(fmt.Sprintf("plonk:%s:%s:transcript-does-not-bind:%s", CurveID, g.Name, s.name), map[string]any{"curve": CurveID.String(), "circuit": g.Name, "element": s.name})
		} else {
			c.Outcome("plonk:fs-binds:proof-element")
		}
	}
	// the claimed evaluations and the opening commitments must enter the KZG folding hash
	for j := range a.BatchedProof.ClaimedValues {
		p := clonePlonk(a)
		p.BatchedProof.ClaimedValues[j].Add(&p.BatchedProof.ClaimedValues[j], &one)
		_, tf := transcriptOf(g, p, x)
		c.Evals.Add(1)
		if tf == baseF {
			c.Violation(fmt.Sprintf("plonk:%s:%s:folding-does-not-bind:ClaimedValues[%d]", CurveID, g.Name, j), map[string]any{"curve": CurveID.String(), "circuit": g.Name, "index": j})
		} else {
			c.Outcome("plonk:fs-binds:claimed-value")
		}
	}
}

// RunC02 runs the PLONK verifier check on this curve.
func RunC02(c *vh.Check, cases []bk.Case) {
	setupStructureOnPrograms(c)
	c.Par(len(cases), func(i int) {
		g, err := buildPlonk(cases[i])
		if err != nil {
			c.Violation(fmt.Sprintf("plonk:%s:%s:honest-flow-failed", CurveID, cases[i].Name), map[string]any{"error": err.Error()})
			return
		}
		checkSetupStructure(c, g.Name, g.cs, g.vk, g.srsL)
		fsCoverage(c, g)
		edits := plonkEdits(g, c.Tier == "thorough")
		for _, e := range edits {
			if c.Expired() {
				c.Cap("internal deadline in C02 edits " + CurveID.String())
				return
			}
			offerPlonk(c, g, e)
		}
		c.Count("edits:"+CurveID.String(), g.Name, int64(len(edits)))
		plonkBadAssignments(c, g)
		if i == 0 {
			c.Sample(map[string]any{"curve": CurveID.String(), "circuit": g.Name, "edits": len(edits), "domain": g.vk.Size, "first_edits": []string{edits[2].name, edits[len(edits)/2].name, edits[len(edits)-2].name}})
		}
	})
}
