package bkbn254

import (
	"crypto/rand"
	"fmt"
	"io"
	"math/big"
	"runtime"
	"sort"
	"strings"
	"sync"

	curve "github.com/consensys/gnark-crypto/ecc/bn254"
	"github.com/consensys/gnark-crypto/ecc/bn254/fr"
	"github.com/consensys/gnark-crypto/ecc/bn254/kzg"
	"github.com/consensys/gnark/backend"
	groth16 "github.com/consensys/gnark/backend/groth16/bn254"
	plonk "github.com/consensys/gnark/backend/plonk/bn254"
	"github.com/consensys/gnark/constraint"
	cs "github.com/consensys/gnark/constraint/bn254"
	"github.com/consensys/gnark/constraint/solver"
	"github.com/consensys/gnark/internal/verifh/bk"
	"github.com/consensys/gnark/internal/verifh/vh"
)

// C20: proofs are freshly blinded and committed values are masked.  The prover's randomness
// is an environment answer: crypto/rand.Reader is replaced by a reader that identifies every
// draw by (call site in gnark, per-site index) and answers from a table; the default answer
// is a fixed distinct non-zero value per draw.

type drawKey struct {
	site string
	idx  int
}

type ctlReader struct {
	mu       sync.Mutex
	count    map[string]int
	override map[drawKey]byte // variant: 0 = zero bytes, otherwise a different filler
	allZero  bool
	log      []drawKey
	epoch    byte // distinguishes successive proofs in one process only through the running index
}

func callSite() string {
	pc := make([]uintptr, 40)
	n := runtime.Callers(3, pc)
	frames := runtime.CallersFrames(pc[:n])
	for {
		f, more := frames.Next()
		if strings.Contains(f.Function, "consensys/gnark/") && !strings.Contains(f.Function, "internal/verifh") {
			fn := f.Function[strings.LastIndex(f.Function, "/")+1:]
			return fmt.Sprintf("%s:%d", fn, f.Line)
		}
		if !more {
			break
		}
	}
	return "unknown"
}

func (r *ctlReader) Read(p []byte) (int, error) {
	site := callSite()
	r.mu.Lock()
	idx := r.count[site]
	r.count[site] = idx + 1
	k := drawKey{site, idx}
	r.log = append(r.log, k)
	variant, has := r.override[k]
	zero := r.allZero
	r.mu.Unlock()
	if zero || (has && variant == 0) {
		for i := range p {
			p[i] = 0
		}
		return len(p), nil
	}
	// deterministic, distinct, non-zero filler per (site, idx, variant)
	seed := uint32(2166136261)
	for _, c := range []byte(fmt.Sprintf("%s#%d#%d", site, idx, variant)) {
		seed = (seed ^ uint32(c)) * 16777619
	}
	for i := range p {
		seed = seed*1664525 + 1013904223
		p[i] = byte(seed >> 24)
	}
	if len(p) > 1 {
		// keep well below any modulus whatever the byte order, and non-zero
		// (SetRandom reads little-endian and rejects candidates >= q; rand.Int is big-endian)
		p[0] = 0
		p[len(p)-1] = 0
		p[len(p)/2] |= 1
	}
	return len(p), nil
}

var randMu sync.Mutex

// withReader runs f with crypto/rand.Reader replaced (process-global: serialised).
func withReader(r *ctlReader, f func()) {
	randMu.Lock()
	defer randMu.Unlock()
	old := rand.Reader
	rand.Reader = r
	defer func() { rand.Reader = old }()
	f()
}

func newReader() *ctlReader {
	return &ctlReader{count: map[string]int{}, override: map[drawKey]byte{}}
}

var _ io.Reader = (*ctlReader)(nil)

// element view of a proof: name -> serialized element
type elems map[string]string

func g16Elems(p *groth16.Proof) elems {
	e := elems{"Ar": fmt.Sprintf("%x", p.Ar.Marshal()), "Bs": fmt.Sprintf("%x", p.Bs.Marshal()), "Krs": fmt.Sprintf("%x", p.Krs.Marshal())}
	for i := range p.Commitments {
		e[fmt.Sprintf("Commitments[%d]", i)] = fmt.Sprintf("%x", p.Commitments[i].Marshal())
	}
	if len(p.Commitments) > 0 {
		e["CommitmentPok"] = fmt.Sprintf("%x", p.CommitmentPok.Marshal())
	}
	return e
}

func plonkElems(p *plonk.Proof) elems {
	e := elems{"Z": fmt.Sprintf("%x", p.Z.Marshal())}
	for i := 0; i < 3; i++ {
		e[fmt.Sprintf("LRO[%d]", i)] = fmt.Sprintf("%x", p.LRO[i].Marshal())
		e[fmt.Sprintf("H[%d]", i)] = fmt.Sprintf("%x", p.H[i].Marshal())
	}
	for i := range p.Bsb22Commitments {
		e[fmt.Sprintf("Bsb22Commitments[%d]", i)] = fmt.Sprintf("%x", p.Bsb22Commitments[i].Marshal())
	}
	return e
}

func diff(a, b elems) []string {
	var d []string
	for k := range a {
		if a[k] != b[k] {
			d = append(d, k)
		}
	}
	sort.Strings(d)
	return d
}

func has(l []string, s string) bool {
	for _, x := range l {
		if x == s {
			return true
		}
	}
	return false
}

// expectation for one draw: elements that MUST change when only this draw changes, and
// elements that MUST NOT (computed before / independently of it)
type expect struct {
	role    string
	must    []string
	mustNot []string
}

func g16Expect(k drawKey, ordinal int, nCommit int, maskOrder *int) expect {
	var commits []string
	for i := 0; i < nCommit; i++ {
		commits = append(commits, fmt.Sprintf("Commitments[%d]", i))
	}
	if nCommit > 0 {
		commits = append(commits, "CommitmentPok")
	}
	switch {
	case strings.Contains(k.site, "Randomize"):
		i := k.idx
		return expect{role: fmt.Sprintf("mask of commitment %d", i), must: []string{fmt.Sprintf("Commitments[%d]", i), "CommitmentPok"}}
	case strings.Contains(k.site, ".Prove:") && ordinal == 0:
		return expect{role: "r", must: []string{"Ar", "Krs"}, mustNot: append([]string{"Bs"}, commits...)}
	case strings.Contains(k.site, ".Prove:") && ordinal == 1:
		return expect{role: "s", must: []string{"Bs", "Krs"}, mustNot: append([]string{"Ar"}, commits...)}
	}
	return expect{role: "unclassified"}
}

func plonkExpect(k drawKey, ordinal int, nCommit int, bsbOrder *int) expect {
	var bsb []string
	for i := 0; i < nCommit; i++ {
		bsb = append(bsb, fmt.Sprintf("Bsb22Commitments[%d]", i))
	}
	switch {
	case strings.Contains(k.site, "getRandomPolynomial"):
		// bl(2) br(2) bo(2) bz(3) in program order
		switch {
		case ordinal < 2:
			return expect{role: fmt.Sprintf("bl[%d]", ordinal), must: []string{"LRO[0]", "Z"}, mustNot: append([]string{"LRO[1]", "LRO[2]"}, bsb...)}
		case ordinal < 4:
			return expect{role: fmt.Sprintf("br[%d]", ordinal-2), must: []string{"LRO[1]", "Z"}, mustNot: append([]string{"LRO[0]", "LRO[2]"}, bsb...)}
		case ordinal < 6:
			return expect{role: fmt.Sprintf("bo[%d]", ordinal-4), must: []string{"LRO[2]", "Z"}, mustNot: append([]string{"LRO[0]", "LRO[1]"}, bsb...)}
		case ordinal < 9:
			return expect{role: fmt.Sprintf("bz[%d]", ordinal-6), must: []string{"Z"}, mustNot: append([]string{"LRO[0]", "LRO[1]", "LRO[2]"}, bsb...)}
		}
	case strings.Contains(k.site, "bsb22Hint"):
		i := k.idx
		return expect{role: fmt.Sprintf("blinding of BSB22 commitment %d", i), must: []string{fmt.Sprintf("Bsb22Commitments[%d]", i)}}
	case strings.Contains(k.site, "newInstance"):
		if ordinal == 0 {
			return expect{role: "quotient randomizer 0", must: []string{"H[0]", "H[1]"}, mustNot: append([]string{"LRO[0]", "LRO[1]", "LRO[2]", "Z"}, bsb...)}
		}
		return expect{role: "quotient randomizer 1", must: []string{"H[1]", "H[2]"}, mustNot: append([]string{"LRO[0]", "LRO[1]", "LRO[2]", "Z"}, bsb...)}
	}
	return expect{role: "unclassified"}
}

// ordinals ranks the draws of one function by (line, per-site index): role = position in program order.
func ordinals(draws []drawKey) map[drawKey]int {
	type ent struct {
		k    drawKey
		fn   string
		line int
	}
	byFn := map[string][]ent{}
	for _, d := range draws {
		i := strings.LastIndex(d.site, ":")
		var line int
		fmt.Sscanf(d.site[i+1:], "%d", &line)
		fn := d.site[:i]
		byFn[fn] = append(byFn[fn], ent{d, fn, line})
	}
	out := map[drawKey]int{}
	for _, l := range byFn {
		sort.Slice(l, func(i, j int) bool {
			if l[i].line != l[j].line {
				return l[i].line < l[j].line
			}
			return l[i].k.idx < l[j].k.idx
		})
		for i, e := range l {
			out[e.k] = i
		}
	}
	return out
}

type proveFn func(r *ctlReader) (elems, error)

// checkBlinding runs the dependency analysis for one prover configuration.
func checkBlinding(c *vh.Check, name string, nCommit int, prove proveFn, expectOf func(k drawKey, ordinal int, ord *int) expect, blinded []string, minDraws int) {
	key := func(s string) string { return fmt.Sprintf("c20:%s:%s:%s", CurveID, name, s) }
	// default run: discover the draws
	r0 := newReader()
	def, err := prove(r0)
	if err != nil {
		c.Fatal("honest prove failed in %s: %v", name, err)
	}
	draws := append([]drawKey(nil), r0.log...)
	c.Evals.Add(1)
	if len(draws) < minDraws {
		c.Violation(key("too-few-draws"), map[string]any{"case": name, "draws": len(draws), "protocol_minimum": minDraws, "sites": fmt.Sprint(draws)})
	}
	// determinism of the seam: the same table gives the same proof
	r0b := newReader()
	def2, _ := prove(r0b)
	if len(diff(def, def2)) != 0 || len(r0b.log) != len(draws) {
		c.Fatal("randomness seam is not deterministic in %s: %v", name, diff(def, def2))
	}
	// (i)/(ii): all draws zero = the deterministic, unblinded proof; every blinded element must differ from it
	rz := newReader()
	rz.allZero = true
	unblinded, err := prove(rz)
	if err != nil {
		// some provers refuse degenerate randomness; then the unblinded reference is unavailable
		c.Note(fmt.Sprintf("%s: prover fails with all-zero randomness (%v); unblinded comparison skipped", name, err))
	} else {
		c.Evals.Add(1)
		changed := diff(def, unblinded)
		for _, b := range blinded {
			if !has(changed, b) {
				c.Violation(key("not-blinded:"+b), map[string]any{"case": name, "element": b, "what": "equals the deterministic commitment obtained with all-zero randomness", "draw_sites": fmt.Sprint(draws)})
			}
		}
		c.Outcome("c20:blinded-vs-unblinded:differs")
	}
	// (iii) dependency matrix: one draw departs
	covered := map[string]bool{}
	ord := 0
	ranks := ordinals(draws)
	for _, d := range draws {
		ex := expectOf(d, ranks[d], &ord)
		for variant := byte(0); variant < 2; variant++ {
			r := newReader()
			if variant == 0 {
				r.override[d] = 0
			} else {
				r.override[d] = 7
			}
			got, err := prove(r)
			c.Evals.Add(1)
			c.Traces.Add(1)
			if err != nil {
				c.Outcome("c20:single-draw:prover-error")
				continue
			}
			ch := diff(def, got)
			c.Outcome(fmt.Sprintf("c20:single-draw:%s:changes-%d-elements", strings.Split(ex.role, "[")[0], len(ch)))
			for _, m := range ex.must {
				if !has(ch, m) {
					c.Violation(key(fmt.Sprintf("draw-%s#%d(%s)-does-not-blind:%s", d.site, d.idx, ex.role, m)), map[string]any{"case": name, "draw": fmt.Sprint(d), "role": ex.role, "variant": variant, "element_unchanged": m, "changed": ch})
				} else {
					covered[m] = true
				}
			}
			for _, m := range ex.mustNot {
				if has(ch, m) {
					c.Violation(key(fmt.Sprintf("draw-%s#%d(%s)-leaks-into:%s", d.site, d.idx, ex.role, m)), map[string]any{"case": name, "draw": fmt.Sprint(d), "role": ex.role, "element_changed": m})
				}
			}
			if ex.role == "unclassified" && len(ch) == 0 {
				c.Violation(key(fmt.Sprintf("draw-%s#%d-unused", d.site, d.idx)), map[string]any{"case": name, "draw": fmt.Sprint(d)})
			}
		}
	}
	for _, b := range blinded {
		if !covered[b] {
			c.Violation(key("no-draw-blinds:"+b), map[string]any{"case": name, "element": b, "draws": fmt.Sprint(draws)})
		}
	}
	// (iv) first, second and third proof in one process: fresh draws, every blinded element differs pairwise
	r3 := newReader()
	var three []elems
	before := 0
	for k := 0; k < 3; k++ {
		e, err := prove(r3)
		if err != nil {
			c.Fatal("prove #%d failed: %v", k+1, err)
		}
		n := len(r3.log) - before
		before = len(r3.log)
		if n < len(draws) {
			c.Violation(key(fmt.Sprintf("proof-%d-draws-%d<%d", k+1, n, len(draws))), map[string]any{"case": name, "proof_number": k + 1, "draws": n, "first_proof_draws": len(draws)})
		}
		three = append(three, e)
		c.Evals.Add(1)
	}
	for i := 0; i < 3; i++ {
		for j := i + 1; j < 3; j++ {
			ch := diff(three[i], three[j])
			for _, b := range blinded {
				if !has(ch, b) {
					c.Violation(key(fmt.Sprintf("proofs-%d-and-%d-share:%s", i+1, j+1, b)), map[string]any{"case": name, "element": b})
				}
			}
		}
	}
	c.Outcome("c20:three-proofs:pairwise-distinct")
	c.Count("draws:"+CurveID.String(), name, int64(len(draws)))
	c.States.Add(int64(len(draws)))
}

// RunC20 runs the blinding check on this curve (sequential: the reader is process-global).
func RunC20(c *vh.Check, cases []bk.Case) {
	sopt := backend.WithSolverOptions(solver.WithNbTasks(1))
	for _, cse := range cases {
		if c.Expired() {
			c.Cap("internal deadline in C20")
			return
		}
		cse := cse
		// Groth16
		g, err := buildG16(cse)
		if err != nil {
			c.Fatal("groth16 honest flow %s: %v", cse.Name, err)
		}
		blinded := []string{"Ar", "Bs", "Krs"}
		for i := 0; i < cse.NbCommit; i++ {
			blinded = append(blinded, fmt.Sprintf("Commitments[%d]", i))
		}
		checkBlinding(c, "groth16/"+cse.Name, cse.NbCommit, func(r *ctlReader) (e elems, err error) {
			var p *groth16.Proof
			withReader(r, func() { p, err = groth16.Prove(g.cs, g.pk, g.full[0], sopt) })
			if err == nil {
				if verr := groth16.Verify(p, g.vk, append(fr.Vector(nil), g.pub[0]...)); verr != nil {
					err = fmt.Errorf("proof does not verify: %w", verr)
				}
				e = g16Elems(p)
			}
			return
		}, func(k drawKey, o int, ord *int) expect { return g16Expect(k, o, cse.NbCommit, ord) }, blinded, 2+cse.NbCommit)
		unblindedG16(c, g)
		// PLONK, default and statistical zero-knowledge
		pg, err := buildPlonk(cse)
		if err != nil {
			c.Fatal("plonk honest flow %s: %v", cse.Name, err)
		}
		for _, zk := range []bool{false, true} {
			pb := []string{"LRO[0]", "LRO[1]", "LRO[2]", "Z"}
			for i := 0; i < cse.NbCommit; i++ {
				pb = append(pb, fmt.Sprintf("Bsb22Commitments[%d]", i))
			}
			min := 9 + cse.NbCommit
			opts := []backend.ProverOption{sopt}
			nm := "plonk/" + cse.Name
			if zk {
				pb = append(pb, "H[0]", "H[1]", "H[2]")
				min += 2
				opts = append(opts, backend.WithStatisticalZeroKnowledge())
				nm += "/statzk"
			}
			checkBlinding(c, nm, cse.NbCommit, func(r *ctlReader) (e elems, err error) {
				var p *plonk.Proof
				withReader(r, func() { p, err = plonk.Prove(pg.cs, pg.pk, pg.full[0], opts...) })
				if err == nil {
					if verr := plonk.Verify(p, pg.vk, append(fr.Vector(nil), pg.pub[0]...)); verr != nil {
						err = fmt.Errorf("proof does not verify: %w", verr)
					}
					e = plonkElems(p)
				}
				return
			}, func(k drawKey, o int, ord *int) expect { return plonkExpect(k, o, cse.NbCommit, ord) }, pb, min)
		}
		unblindedPlonk(c, pg)
	}
	c.Sample(map[string]any{"curve": CurveID.String(), "cases": len(cases), "per_case": "groth16, plonk, plonk+statistical-zk; every draw x {zero, other value}; 3 successive proofs"})
}

// unblindedG16 validates the notion "all-zero randomness = deterministic commitment to the
// witness": with r = 0, Ar must equal alpha + sum_i w_i [A_i]_1 computed from the proving key
// and the solved wire values captured through the post-solve hook.
func unblindedG16(c *vh.Check, g *g16Case) {
	var wires fr.Vector
	solveEdit.Store(g.cs, func(s *cs.R1CSSolution) { wires = append(fr.Vector(nil), s.W...) })
	defer solveEdit.Delete(g.cs)
	rz := newReader()
	rz.allZero = true
	var p *groth16.Proof
	var err error
	withReader(rz, func() { p, err = groth16.Prove(g.cs, g.pk, g.full[0], backend.WithSolverOptions(solver.WithNbTasks(1))) })
	if err != nil || wires == nil {
		c.Note(fmt.Sprintf("unblinded reference unavailable for groth16/%s: %v", g.Name, err))
		return
	}
	var acc curve.G1Jac
	acc.FromAffine(&g.pk.G1.Alpha)
	j := 0
	for i := range wires {
		if g.pk.InfinityA[i] {
			continue
		}
		var t curve.G1Affine
		var b big.Int
		t.ScalarMultiplication(&g.pk.G1.A[j], wires[i].BigInt(&b))
		acc.AddMixed(&t)
		j++
	}
	var want curve.G1Affine
	want.FromJacobian(&acc)
	c.Traces.Add(1)
	if want != p.Ar {
		c.Violation(fmt.Sprintf("c20:%s:groth16/%s:Ar-with-zero-randomness-is-not-the-witness-commitment", CurveID, g.Name), map[string]any{"case": g.Name, "what": "with every draw answered 0, Ar != alpha + sum_i w_i [A_i]_1: the element carries something other than the witness commitment plus the drawn blinding"})
		return
	}
	c.Outcome("c20:unblinded-reference:Ar-matches-witness-commitment")
}

// unblindedPlonk: with zero blinding, LRO[j] must equal the KZG commitment (Lagrange SRS) of
// the solved L, R, O columns.
func unblindedPlonk(c *vh.Check, g *plonkCase) {
	var L, R, O []fr.Element
	plonkSolveEdit.Store(g.cs, func(s *cs.SparseR1CSSolution) {
		L, R, O = append([]fr.Element(nil), s.L...), append([]fr.Element(nil), s.R...), append([]fr.Element(nil), s.O...)
	})
	defer plonkSolveEdit.Delete(g.cs)
	rz := newReader()
	rz.allZero = true
	var p *plonk.Proof
	var err error
	withReader(rz, func() { p, err = plonk.Prove(g.cs, g.pk, g.full[0], backend.WithSolverOptions(solver.WithNbTasks(1))) })
	if err != nil || L == nil {
		c.Note(fmt.Sprintf("unblinded reference unavailable for plonk/%s: %v", g.Name, err))
		return
	}
	for j, col := range [][]fr.Element{L, R, O} {
		d, err := kzg.Commit(col, g.srsL.Pk)
		if err != nil {
			c.Fatal("kzg commit: %v", err)
		}
		c.Traces.Add(1)
		if d != p.LRO[j] {
			c.Violation(fmt.Sprintf("c20:%s:plonk/%s:LRO[%d]-with-zero-randomness-is-not-the-column-commitment", CurveID, g.Name, j), map[string]any{"case": g.Name, "column": j})
			return
		}
	}
	c.Outcome("c20:unblinded-reference:LRO-match-column-commitments")
	_ = constraint.NOT
}
